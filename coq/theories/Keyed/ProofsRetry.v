(* keyed: the pending retry of a registered record through the events that are neither a bookkeeping section nor a timer
   callback: it stays as it is (same live timer), or an instance was started for the record, or the record is not
   registered any more; an unregistered record stays unregistered; back-off indices do not move; nothing is logged.
   Instance of the finer walk, on top of the timer invariants. *)
From Util Require Import Common.Base Common.ListLemmas Keyed.Model Keyed.Spec Keyed.Proofs Keyed.AbsSpec Keyed.ProofsC06 Keyed.ProofsWalk Keyed.ProofsMono
  Keyed.ProofsData Keyed.ProofsKeys Keyed.ProofsMon Keyed.ProofsMon2 Keyed.ProofsWalk2 Keyed.ProofsTimers Keyed.ProofsTimers2 Keyed.ProofsKI.
Open Scope nat_scope.

Definition Ob (s : st) (rec t : nat) : Prop :=
  rec < length (recs s) /\ in_map s rec = true /\ rretry (getr s rec) = Some t /\ exists x, nth_error (timers s) t = Some x /\ live x.

Record PO (s s' : st) : Prop := {
  po_mono : Mono s s';
  po_ob : forall rec t, Ob s rec t -> Ob s' rec t \/ Sp s s' rec \/ in_map s' rec = false;
  po_un : forall rec, rec < length (recs s) -> in_map s rec = false -> in_map s' rec = false;
  po_bo_old : forall r, r < length (recs s) -> rbo (getr s' r) = rbo (getr s r);
  po_bo_new : forall r, length (recs s) <= r -> rbo (getr s' r) = 0;
  po_cblog : cblog s' = cblog s;
}.
Lemma rbo_oob s r : length (recs s) <= r -> rbo (getr s r) = 0.
Proof. intros H. unfold getr. rewrite nth_overflow by exact H. reflexivity. Qed.
Lemma PO_refl s : PO s s.
Proof. constructor; auto using Mono_refl. intros; now apply rbo_oob. Qed.
Lemma PO_trans s s1 s2 : PO s s1 -> PO s1 s2 -> PO s s2.
Proof.
  intros [A1 A2 A3 A4 A5 A6] [B1 B2 B3 B4 B5 B6]. constructor; [eapply Mono_trans; eauto | | | | | congruence].
  - intros rec t H. destruct (A2 rec t H) as [H1|[S1|U1]].
    + destruct (B2 rec t H1) as [H2|[S2|U2]]; [now left | right; left; eapply Sp_trans2; eauto | now right; right].
    + right. left. eapply Sp_trans1; eauto.
    + right. right. destruct H as (Hl & _). apply B3; [apply (mo_recs _ _ A1 rec Hl) | exact U1].
  - intros rec Hr Hu. apply B3; [apply (mo_recs _ _ A1 rec Hr) | now apply A3].
  - intros r Hr. rewrite B4 by (apply (mo_recs _ _ A1 r Hr)). now apply A4.
  - intros r Hr. destruct (Nat.lt_ge_cases r (length (recs s1))) as [L|L]; [rewrite B4 by exact L; now apply A5 | now apply B5].
Qed.

Lemma in_map_same s s' rec : kmap s' = kmap s -> rkey (getr s' rec) = rkey (getr s rec) -> in_map s' rec = in_map s rec.
Proof. intros E1 E2. unfold in_map. now rewrite E1, E2. Qed.
Lemma Mono_rkey s s' rec : Mono s s' -> rec < length (recs s) -> rkey (getr s' rec) = rkey (getr s rec).
Proof. intros M H. destruct (mo_recs _ _ M rec H) as (_ & K & _). exact K. Qed.

(* the key map, the pending retries, the back-off indices and the exit log are untouched; live timers stay live *)
Lemma PO_frame s s' :
  Mono s s' -> kmap s' = kmap s -> cblog s' = cblog s ->
  (forall r, rretry (getr s' r) = rretry (getr s r) /\ rbo (getr s' r) = rbo (getr s r)) ->
  (forall t x, nth_error (timers s) t = Some x -> live x -> exists x', nth_error (timers s') t = Some x' /\ live x') -> PO s s'.
Proof.
  intros M EK EC HR HT. constructor; auto.
  - intros rec t (Hl & Hm & Hr & x & Hx & Lx). left. split; [apply (mo_recs _ _ M rec Hl)|].
    split; [rewrite (in_map_same s s' rec EK (Mono_rkey _ _ _ M Hl)); exact Hm|]. split; [destruct (HR rec) as [E _]; congruence|]. eauto.
  - intros rec Hl Hu. now rewrite (in_map_same s s' rec EK (Mono_rkey _ _ _ M Hl)).
  - intros r _. apply HR.
  - intros r Hr. destruct (HR r) as [_ E]. rewrite E. now apply rbo_oob.
Qed.
Lemma live_tstate_other s t0 x0 v t x : t <> t0 -> nth_error (timers s) t = Some x ->
  nth_error (set_nth (timers s) t0 (with_tst x0 v)) t = Some x.
Proof. intros Hne Hx. now rewrite nth_error_set_nth_other. Qed.

(* stopping the retry timer of record r does not touch the retry timer of another record *)
Lemma stop_retry_other_gen s : J2 s -> forall r rec t x, rec <> r -> rretry (getr s rec) = Some t -> nth_error (timers s) t = Some x ->
  nth_error (timers (stop_timer s (rretry (getr s r)))) t = Some x.
Proof.
  intros HJ2 r rec t x Hne Hr Hx. unfold stop_timer. destruct (rretry (getr s r)) as [t0|] eqn:E0; [|exact Hx].
  destruct (nth_error (timers s) t0) as [x0|] eqn:Ex0; [|exact Hx]. destruct (tst x0); try exact Hx. cbn [timers set_timers].
  apply live_tstate_other; [|exact Hx]. intros ->. destruct (j2_rt _ HJ2 r t0 E0) as (y & Hy & Ty). destruct (j2_rt _ HJ2 rec t0 Hr) as (y' & Hy' & Ty'). congruence.
Qed.

Section Prims.
  Variable s : st.
  Hypothesis HJ : J s.
  Hypothesis HJ2 : J2 s.

  Lemma PO_cancel_inst oi : PO s (cancel_inst s oi).
  Proof.
    destruct (cancel_inst_frame s oi) as (C1 & C2 & C3 & _). apply PO_frame; [apply Mono_cancel_inst | exact C1 | apply cblog_cancel_inst | |].
    - intros r. unfold getr. rewrite C2. auto.
    - intros t x Hx L. rewrite C3. eauto.
  Qed.
  Lemma stop_retry_other r rec t x : rec <> r -> rretry (getr s rec) = Some t -> nth_error (timers s) t = Some x ->
    nth_error (timers (stop_timer s (rretry (getr s r)))) t = Some x.
  Proof. now apply stop_retry_other_gen. Qed.

  Lemma PO_start k r c w f : lookup (kmap s) k = Some r -> PO s (start_rec s r c w f).
  Proof.
    intros Hk. pose proof (Mono_start s r c w f) as M. destruct (j_wk _ HJ k r Hk) as [Rl Rk].
    revert M. unfold start_rec. set (x := getr s r). destruct (negb f && rsucc x || rnil x); [intros _; apply PO_refl|].
    destruct (negb f && is_some (rctx x) && negb (rexited x) && ctx_live s (rctx x)); [intros _; apply PO_refl|]. cbn zeta.
    set (s1 := stop_timer s (rretry x)). set (s2 := cancel_inst s1 (rcancel x)). intros M.
    assert (T2 : timers s2 = timers s1) by (unfold s2; apply cancel_inst_frame).
    assert (R2 : recs s2 = recs s) by (unfold s2, s1; destruct (cancel_inst_frame (stop_timer s (rretry x)) (rcancel x)) as (_ & A & _); destruct (stop_timer_frame s (rretry x)) as (_ & B & _); congruence).
    assert (K2 : kmap s2 = kmap s) by (unfold s2, s1; now rewrite kmap_cancel_inst, kmap_stop_timer).
    assert (L2 : length (insts s2) = length (insts s)) by (unfold s2, s1; destruct (cancel_inst_frame (stop_timer s (rretry x)) (rcancel x)) as (_ & _ & _ & _ & _ & _ & _ & _ & _ & _ & A); destruct (stop_timer_frame s (rretry x)) as (_ & _ & B & _); congruence).
    set (X := {| irec := r; ikey := rkey x; ilin := rlin x; iwait := w; ipcv := IGate0; icanc := root_canc s c; iexit := false; idata := rdata x; iroot := c |}) in *.
    set (s3 := set_insts s2 (insts s2 ++ [X])) in *. set (s' := setr s3 r (with_started x (length (insts s2)))) in *.
    assert (G' : forall q, q <> r -> getr s' q = getr s q).
    { intros q Hq. unfold s'. rewrite getr_setr_other by exact Hq. unfold getr. cbn [recs s3 set_insts]. now rewrite R2. }
    assert (Gr : getr s' r = with_started x (length (insts s2))) by (unfold s'; apply getr_setr_same; cbn [recs s3 set_insts]; now rewrite R2).
    assert (K' : kmap s' = kmap s) by (unfold s'; rewrite kmap_setr; exact K2).
    assert (RK' : forall q, rkey (getr s' q) = rkey (getr s q)) by (intros q; destruct (Nat.eq_dec q r) as [->|Hq]; [rewrite Gr; reflexivity | now rewrite G']).
    assert (SP : Sp s s' r).
    { exists (length (insts s)), X. split; [lia|]. unfold s'. rewrite insts_setr. cbn [insts s3 set_insts]. rewrite <- L2, nth_error_app2, Nat.sub_diag by lia. auto. }
    constructor.
    - exact M.
    - intros rec t (Hl & Hm & Hr & y & Hy & Ly). destruct (Nat.eq_dec rec r) as [->|Hne]; [right; left; exact SP|]. left.
      split; [apply (mo_recs _ _ M rec Hl)|]. split; [rewrite (in_map_same s s' rec K' (RK' rec)); exact Hm|]. split; [now rewrite G'|].
      exists y. split; [|exact Ly]. change (timers s') with (timers s2). rewrite T2. unfold s1, x. now apply (stop_retry_other r rec t y).
    - intros rec Hl Hu. now rewrite (in_map_same s s' rec K' (RK' rec)).
    - intros q _. destruct (Nat.eq_dec q r) as [->|Hq]; [rewrite Gr; reflexivity | now rewrite G'].
    - intros q Hq. destruct (Nat.eq_dec q r) as [->|Hq']; [lia | rewrite G' by exact Hq'; now apply rbo_oob].
    - unfold s'. cbn [cblog setr set_recs s3 set_insts]. unfold s2, s1. now rewrite cblog_cancel_inst, cblog_stop_timer.
  Qed.

  Lemma PO_new_record k lin w : PO s (fst (new_record s k lin w)).
  Proof.
    destruct (new_record_frame s k lin w) as (F0 & F1 & _ & F3 & _ & F5 & F6 & F7 & F8 & _ & _ & _ & _ & _ & F14 & _).
    set (s' := fst (new_record s k lin w)) in *. set (n := snd (new_record s k lin w)) in *.
    assert (IM : forall rec, rec < length (recs s) -> in_map s' rec = if Nat.eqb (rkey (getr s rec)) k then false else in_map s rec).
    { intros rec Hl. unfold in_map. rewrite F7, F5 by exact Hl. destruct (Nat.eqb_spec (rkey (getr s rec)) k) as [->|Hne].
      - rewrite lookup_insert_same. apply Nat.eqb_neq. lia.
      - now rewrite lookup_insert_other. }
    constructor.
    - apply Mono_new_record.
    - intros rec t (Hl & Hm & Hr & y & Hy & Ly). rewrite <- (IM rec Hl) in Hm || idtac.
      destruct (Nat.eqb_spec (rkey (getr s rec)) k) as [E|E].
      + right. right. rewrite (IM rec Hl). apply Nat.eqb_eq in E. now rewrite E.
      + left. split; [rewrite F6; lia|]. split; [rewrite (IM rec Hl); apply Nat.eqb_neq in E; now rewrite E|]. split; [now rewrite F7|].
        exists y. rewrite F3. auto.
    - intros rec Hl Hu. rewrite (IM rec Hl). destruct (Nat.eqb _ k); auto.
    - intros r Hr. now rewrite F7.
    - intros r Hr. destruct (Nat.eq_dec r n) as [->|Hne].
      + unfold s', n, new_record, getr. cbn [fst snd recs set_kmap set_recs set_ctors]. rewrite app_nth2, Nat.sub_diag by lia. reflexivity.
      + apply rbo_oob. rewrite F6. lia.
    - reflexivity.
  Qed.

  Lemma PO_frame_k s' :
    Mono s s' -> kmap s' = kmap s -> cblog s' = cblog s ->
    (forall r, rretry (getr s' r) = rretry (getr s r) /\ rbo (getr s' r) = rbo (getr s r)) ->
    (forall t x, nth_error (timers s) t = Some x -> tkind x = false -> live x -> exists x', nth_error (timers s') t = Some x' /\ live x') -> PO s s'.
  Proof.
    intros M EK EC HR HT. constructor; auto.
    - intros rec t (Hl & Hm & Hr & x & Hx & Lx). left. split; [apply (mo_recs _ _ M rec Hl)|].
      split; [rewrite (in_map_same s s' rec EK (Mono_rkey _ _ _ M Hl)); exact Hm|]. split; [destruct (HR rec) as [E _]; congruence|].
      destruct (j_rt _ HJ rec t Hr) as (x1 & Hx1 & K1). rewrite Hx in Hx1. inversion Hx1; subst x1. eauto.
    - intros rec Hl Hu. now rewrite (in_map_same s s' rec EK (Mono_rkey _ _ _ M Hl)).
    - intros r _. apply HR.
    - intros r Hr. destruct (HR r) as [_ E]. rewrite E. now apply rbo_oob.
  Qed.

  Lemma PO_unremove k r : lookup (kmap s) k = Some r -> PO s (unremove s r).
  Proof.
    intros Hk. pose proof (Mono_unremove s r) as M. revert M. unfold unremove. destruct (rremove (getr s r)) as [t0|] eqn:Et; [|intros _; apply PO_refl].
    intros M. destruct (j_it _ HJ k r t0 Hk Et) as (x0 & Hx0 & _ & K0 & _).
    apply PO_frame_k.
    - exact M.
    - rewrite kmap_setr. apply kmap_stop_timer.
    - cbn [cblog setr set_recs]. apply cblog_stop_timer.
    - intros q. split.
      + rewrite (getr_setr_field rretry); [now rewrite getr_stop_timer | rewrite getr_stop_timer; reflexivity].
      + rewrite (getr_setr_field rbo); [now rewrite getr_stop_timer | rewrite getr_stop_timer; reflexivity].
    - intros t x Hx Kx Lx. cbn [timers setr set_recs]. unfold stop_timer. rewrite Hx0. destruct (tst x0); eauto. cbn [timers set_timers].
      exists x. split; [|exact Lx]. apply live_tstate_other; [|exact Hx]. intros ->. congruence.
  Qed.

  Lemma PO_setr_ctx r y : rctxonly (getr s r) y -> PO s (setr s r y).
  Proof.
    intros (K & L & D & _ & _ & _ & B & _ & _ & Rt & _). apply PO_frame_k; [apply Mono_setr; repeat split; auto | apply kmap_setr | reflexivity | | eauto].
    intros q. split; [now apply (getr_setr_field rretry) | now apply (getr_setr_field rbo)].
  Qed.

  Lemma PO_arm_remove r : PO s (setr (set_timers s (timers s ++ [rm_timer s r])) r (with_remove (getr s r) (Some (length (timers s))))).
  Proof.
    apply PO_frame_k; [eapply Mono_trans; [apply Mono_timers_app | apply Mono_setr; repeat split] | rewrite kmap_setr; reflexivity | reflexivity | |].
    - intros q. split; [apply (getr_setr_field rretry (set_timers s (timers s ++ [rm_timer s r]))) | apply (getr_setr_field rbo (set_timers s (timers s ++ [rm_timer s r])))]; reflexivity.
    - intros t x Hx _ Lx. exists x. split; [|exact Lx]. cbn [timers setr set_recs set_timers]. rewrite nth_error_app1; [exact Hx | eapply nth_error_nth_len; eauto].
  Qed.

  Lemma PO_remove_now k r : lookup (kmap s) k = Some r -> PO s (remove_now s r).
  Proof.
    intros Hk. destruct (j_wk _ HJ k r Hk) as [Rl Rk]. unfold remove_now. set (x := getr s r).
    set (s1 := cancel_inst s (rcancel x)). set (s2 := stop_timer s1 (rretry x)). set (s3 := setr s2 r (with_retry (getr s2 r) None)).
    assert (R2 : recs s2 = recs s) by (unfold s2, s1; destruct (stop_timer_frame (cancel_inst s (rcancel x)) (rretry x)) as (_ & A & _); destruct (cancel_inst_frame s (rcancel x)) as (_ & B & _); congruence).
    assert (K3 : kmap s3 = kmap s) by (unfold s3, s2, s1; now rewrite kmap_setr, kmap_stop_timer, kmap_cancel_inst).
    assert (G3 : forall q, q <> r -> getr s3 q = getr s q) by (intros q Hq; unfold s3; rewrite getr_setr_other by exact Hq; unfold getr; now rewrite R2).
    assert (RK3 : forall q, rkey (getr s3 q) = rkey (getr s q)).
    { intros q. unfold s3. rewrite (getr_setr_field rkey); [unfold getr; now rewrite R2 | reflexivity]. }
    assert (M : Mono s (set_kmap s3 (delete (kmap s3) (rkey x)))).
    { apply (Mono_trans s s1); [apply Mono_cancel_inst|]. apply (Mono_trans s1 s2); [apply Mono_stop_timer|]. apply (Mono_trans s2 s3); [apply Mono_setr; repeat split | mext]. }
    assert (IM : forall rec, in_map (set_kmap s3 (delete (kmap s3) (rkey x))) rec = if Nat.eqb (rkey (getr s rec)) k then false else in_map s rec).
    { intros rec. unfold in_map. cbn [kmap set_kmap]. change (getr (set_kmap s3 (delete (kmap s3) (rkey x))) rec) with (getr s3 rec).
      rewrite RK3, K3. unfold x. rewrite Rk. destruct (Nat.eqb_spec (rkey (getr s rec)) k) as [->|Hne]; [now rewrite lookup_delete_same | now rewrite lookup_delete_other]. }
    constructor.
    - exact M.
    - intros rec t (Hl & Hm & Hr & y & Hy & Ly). destruct (Nat.eqb_spec (rkey (getr s rec)) k) as [E|E].
      + right. right. rewrite IM. apply Nat.eqb_eq in E. now rewrite E.
      + assert (Hne : rec <> r) by (intros ->; congruence). left.
        split; [apply (mo_recs _ _ M rec Hl)|]. split; [rewrite IM; apply Nat.eqb_neq in E; now rewrite E|].
        split; [change (getr (set_kmap s3 (delete (kmap s3) (rkey x))) rec) with (getr s3 rec); now rewrite G3|].
        exists y. split; [|exact Ly]. change (timers (set_kmap s3 (delete (kmap s3) (rkey x)))) with (timers s2). unfold s2.
        assert (J1 : J s1) by (apply PJ_cancel_inst, HJ). assert (J21 : J2 s1) by (apply PJ2_cancel_inst, HJ2).
        assert (X1 : getr s1 r = x) by (unfold s1; now rewrite getr_cancel_inst). rewrite <- X1.
        apply (stop_retry_other_gen s1 J21 r rec t y Hne); [unfold s1; now rewrite getr_cancel_inst | unfold s1; destruct (cancel_inst_frame s (rcancel x)) as (_ & _ & T & _); now rewrite T].
    - intros rec Hl Hu. rewrite IM. destruct (Nat.eqb _ k); auto.
    - intros q _. change (getr (set_kmap s3 (delete (kmap s3) (rkey x))) q) with (getr s3 q). unfold s3.
      rewrite (getr_setr_field rbo); [unfold getr; now rewrite R2 | reflexivity].
    - intros q Hq. change (getr (set_kmap s3 (delete (kmap s3) (rkey x))) q) with (getr s3 q). unfold s3.
      rewrite (getr_setr_field rbo); [unfold getr; rewrite R2; now apply rbo_oob | reflexivity].
    - cbn [cblog set_kmap]. unfold s3. cbn [cblog setr set_recs]. unfold s2, s1. now rewrite cblog_stop_timer, cblog_cancel_inst.
  Qed.

  Lemma PO_seti i x x' : nth_error (insts s) i = Some x -> isame x x' -> PO s (seti s i x').
  Proof. intros Hx Hs. apply PO_frame_k; [eapply Mono_seti; eauto | reflexivity | reflexivity | intros; split; reflexivity | eauto]. Qed.
  Lemma PO_ext s' : Mono s s' -> kmap s' = kmap s -> cblog s' = cblog s -> recs s' = recs s -> timers s' = timers s -> PO s s'.
  Proof. intros M E1 E2 E3 E4. apply PO_frame_k; auto; [intros r; unfold getr; rewrite E3; auto | intros t x Hx _ L; rewrite E4; eauto]. Qed.
  Lemma PO_advance d : PO s (advance s d).
  Proof.
    apply PO_frame_k; [apply Mono_advance | reflexivity | reflexivity | intros; split; reflexivity|].
    intros t x Hx _ Lx. unfold advance. cbn [timers set_timers set_clock]. rewrite nth_error_map, Hx. cbn [option_map]. eexists. split; [reflexivity|].
    unfold fire, live in *. destruct (tst x) eqn:Es; try (destruct Lx; discriminate); [destruct (N.leb _ _); cbn [tst with_tst]; rewrite ?Es; auto | rewrite Es; auto].
  Qed.
End Prims.

Definition POJ (s s' : st) : Prop := J s -> J2 s -> J s' /\ J2 s' /\ PO s s'.
Lemma POJ_mk s s' : PJ s s' -> (J s -> PJ2 s s') -> (J s -> J2 s -> PO s s') -> POJ s s'.
Proof. intros A B C HJ HJ2. split; [apply A, HJ|]. split; [apply B; assumption | now apply C]. Qed.
Lemma POJ_refl s : POJ s s. Proof. intros A B. split; [exact A|]. split; [exact B | apply PO_refl]. Qed.
Lemma POJ_trans s s1 s2 : POJ s s1 -> POJ s1 s2 -> POJ s s2.
Proof. intros A B HJ HJ2. destruct (A HJ HJ2) as (A1 & A2 & A3). destruct (B A1 A2) as (B1 & B2 & B3). split; [exact B1|]. split; [exact B2 | eapply PO_trans; eauto]. Qed.

Lemma isame_pc x p : isame x (with_pc x p). Proof. repeat split; auto. Qed.
Lemma isame_over x o : isame x (with_over x o). Proof. repeat split; auto. Qed.

Theorem POJ_quiet s e : quiet e = true -> POJ s (step repaired s e).
Proof.
  apply (V_step_quiet POJ POJ_refl POJ_trans).
  - intros s0 oi. apply POJ_mk; [apply PJ_cancel_inst | intros _; apply PJ2_cancel_inst | intros; now apply PO_cancel_inst].
  - intros s0 k r c w f H _. apply POJ_mk; [now apply (PJ_start s0 k) | intros _; apply PJ2_start | intros; now apply (PO_start s0) with (k := k)].
  - intros s0 k _. apply POJ_mk; [eapply PJ_trans; [apply PJ_new_record | jext] | intros HJ; eapply PJ2_trans; [now apply PJ2_new_record | j2ext]|].
    intros HJ HJ2. eapply PO_trans; [apply PO_new_record|]. apply PO_ext; try reflexivity.
    + apply PJ_new_record, HJ. + mext.
  - intros s0 k r lin w _ _. apply POJ_mk; [apply PJ_new_record | intros HJ; now apply PJ2_new_record | intros; apply PO_new_record].
  - intros s0 k r H. apply POJ_mk; [now apply (PJ_unremove s0 k) | intros _; apply PJ2_unremove | intros; now apply (PO_unremove s0) with (k := k)].
  - intros s0 r y H. apply POJ_mk; [now apply PJ_setr_ctx | intros _; now apply PJ2_setr_ctx | intros; now apply PO_setr_ctx].
  - intros s0 k r H. apply POJ_mk; [apply PJ_remove_now | intros _; apply PJ2_remove_now | intros; now apply (PO_remove_now s0) with (k := k)].
  - intros s0 k r H1 H2. apply POJ_mk; [now apply (PJ_arm_remove s0 k) | intros _; apply PJ2_arm_remove | intros; now apply PO_arm_remove].
  - intros s0 i x p H. apply POJ_mk; [now apply (J_seti s0 i x) | intros _; now apply (J2_seti s0 i x) | intros; apply (PO_seti s0) with (x := x); auto using isame_pc].
  - intros s0 i x o H. apply POJ_mk; [now apply (J_seti s0 i x) | intros _; now apply (J2_seti s0 i x) | intros; apply (PO_seti s0) with (x := x); auto using isame_over].
  - intros. apply POJ_mk; [jext | intros _; j2ext | intros; apply PO_ext; try reflexivity; [assumption | mext]].
  - intros. apply POJ_mk; [jext | intros _; j2ext | intros; apply PO_ext; try reflexivity; [assumption | mext]].
  - intros. apply POJ_mk; [jext | intros _; j2ext | intros; apply PO_ext; try reflexivity; [assumption | mext]].
  - intros. apply POJ_mk; [apply PJ_advance | intros _; apply PJ2_advance | intros; now apply PO_advance].
  - intros s0 c. apply POJ_mk; [apply PJ_cancel_root | intros _; apply PJ2_cancel_root|]. intros HJ _. apply PO_ext; [exact HJ | apply Mono_cancel_root | | | |];
      unfold cancel_root; destruct (Nat.eqb c 0); reflexivity.
  - intros. apply POJ_mk; [jext | intros _; j2ext | intros; apply PO_ext; try reflexivity; [assumption | mext]].
Qed.
Lemma POJ_settle s : POJ s (settle s).
Proof.
  apply (V_settle POJ POJ_refl POJ_trans).
  - intros s0 i x p H. apply POJ_mk; [now apply (J_seti s0 i x) | intros _; now apply (J2_seti s0 i x) | intros; apply (PO_seti s0) with (x := x); auto using isame_pc].
  - intros s0 i x o H. apply POJ_mk; [now apply (J_seti s0 i x) | intros _; now apply (J2_seti s0 i x) | intros; apply (PO_seti s0) with (x := x); auto using isame_over].
  - intros. apply POJ_mk; [apply PJ_advance | intros _; apply PJ2_advance | intros; now apply PO_advance].
Qed.
Theorem POJ_next_quiet s e : quiet e = true -> POJ s (settle (step repaired s e)).
Proof. intros H. apply (POJ_trans s (step repaired s e)); [now apply POJ_quiet | apply POJ_settle]. Qed.

(* ------------------------------------------------------------------ *)
(* a timer callback: as above, except that the retry timer whose callback runs is not pending any more - an instance is
   started, unless the container holds no context *)
Record POx (X : nat -> Prop) (s s' : st) : Prop := {
  px_mono : Mono s s';
  px_ob : forall rec t, Ob s rec t -> Ob s' rec t \/ Sp s s' rec \/ in_map s' rec = false \/ X t;
  px_un : forall rec, rec < length (recs s) -> in_map s rec = false -> in_map s' rec = false;
  px_bo_old : forall r, r < length (recs s) -> rbo (getr s' r) = rbo (getr s r);
  px_bo_new : forall r, length (recs s) <= r -> rbo (getr s' r) = 0;
  px_cblog : cblog s' = cblog s;
}.
Lemma PO_POx X s s' : PO s s' -> POx X s s'.
Proof. intros [A1 A2 A3 A4 A5 A6]. constructor; auto. intros rec t H. destruct (A2 rec t H) as [G|[G|G]]; auto. Qed.
Lemma POx_PO_trans X s s1 s2 : POx X s s1 -> PO s1 s2 -> POx X s s2.
Proof.
  intros [A1 A2 A3 A4 A5 A6] [B1 B2 B3 B4 B5 B6]. constructor; [eapply Mono_trans; eauto | | | | | congruence].
  - intros rec t H. destruct (A2 rec t H) as [H1|[S1|[U1|X1]]].
    + destruct (B2 rec t H1) as [H2|[S2|U2]]; [now left | right; left; eapply Sp_trans2; eauto | now right; right; left].
    + right. left. eapply Sp_trans1; eauto.
    + right. right. left. destruct H as (Hl & _). apply B3; [apply (mo_recs _ _ A1 rec Hl) | exact U1].
    + now right; right; right.
  - intros rec Hr Hu. apply B3; [apply (mo_recs _ _ A1 rec Hr) | now apply A3].
  - intros r Hr. rewrite B4 by (apply (mo_recs _ _ A1 r Hr)). now apply A4.
  - intros r Hr. destruct (Nat.lt_ge_cases r (length (recs s1))) as [L|L]; [rewrite B4 by exact L; now apply A5 | now apply B5].
Qed.

Lemma PO_timer_cb s t0 : J s -> J2 s -> POx (fun t => t = t0 /\ has_ctx s = false) s (timer_cb repaired s t0).
Proof.
  intros HJ HJ2. unfold timer_cb. destruct (nth_error (timers s) t0) as [x0|] eqn:Ex0; [|apply PO_POx, PO_refl].
  destruct (tst x0) eqn:Es0; try (apply PO_POx, PO_refl). fold (ran s t0 x0). set (s1 := ran s t0 x0). cbn [fx_stale repaired].
  assert (Hl0 : t0 < length (timers s)) by (eapply nth_error_nth_len; eauto).
  assert (M1 : Mono s s1) by (now apply Mono_timer_set).
  (* every other timer is untouched *)
  assert (T1 : forall t x, t <> t0 -> nth_error (timers s) t = Some x -> nth_error (timers s1) t = Some x) by (intros t x Hne Hx; now apply live_tstate_other).
  destruct (tkind x0) eqn:Ek0.
  - (* a delayed removal: not a retry timer *)
    assert (F1 : PO s s1).
    { apply (PO_frame_k s HJ); [exact M1 | reflexivity | reflexivity | intros; split; reflexivity|].
      intros t x Hx Kx Lx. exists x. split; [|exact Lx]. apply T1; [|exact Hx]. intros ->. congruence. }
    destruct (in_map s1 (trec x0) && opt_is (rremove (getr s1 (trec x0))) t0) eqn:Ec; [|apply PO_POx, F1].
    apply andb_true_iff in Ec as [Em Eo].
    assert (Er : rremove (getr s1 (trec x0)) = Some t0).
    { unfold opt_is in Eo. destruct (rremove (getr s1 (trec x0))) as [t'|]; [|discriminate]. apply Nat.eqb_eq in Eo. now subst. }
    rewrite Er. set (sA := setr (stop_timer s1 (Some t0)) (trec x0) (with_remove (getr (stop_timer s1 (Some t0)) (trec x0)) None)).
    assert (JA : J sA) by (apply (PJ_cb_remove s t0 x0 Ex0 Es0 Ek0 Em Er), HJ).
    assert (J2A : J2 sA).
    { unfold sA. apply J2_setr_keep; [reflexivity | reflexivity | left; reflexivity|]. apply PJ2_stop_timer. now apply (PJ2_tstate s t0 x0 TRan). }
    assert (E1 : stop_timer s1 (Some t0) = s1).
    { unfold stop_timer, s1, ran. cbn [timers set_timers]. now rewrite nth_error_set_nth_same by exact Hl0. }
    assert (FA : PO s sA).
    { apply (PO_frame_k s HJ).
      - eapply Mono_trans; [exact M1|]. unfold sA. rewrite E1. apply Mono_setr. repeat split.
      - unfold sA. rewrite kmap_setr, E1. reflexivity.
      - unfold sA. rewrite E1. reflexivity.
      - intros q. unfold sA. rewrite E1. split; [apply (getr_setr_field rretry s1) | apply (getr_setr_field rbo s1)]; reflexivity.
      - intros t x Hx Kx Lx. exists x. split; [|exact Lx]. unfold sA. rewrite E1. cbn [timers setr set_recs]. apply T1; [|exact Hx]. intros ->. congruence. }
    apply PO_POx. eapply PO_trans; [exact FA|]. apply (PO_remove_now sA JA J2A (rkey (getr s1 (trec x0)))).
    unfold sA. rewrite kmap_setr, E1. now apply in_map_lookup.
  - (* a retry timer *)
    assert (J1 : J s1) by (apply (PJ_cb_retry s t0 x0 Ex0 Es0 Ek0), HJ).
    assert (J21 : J2 s1) by (now apply (PJ2_tstate s t0 x0 TRan)).
    assert (F1 : POx (fun t => t = t0) s s1).
    { constructor; try reflexivity; auto.
      - intros rec t (Hl & Hm & Hr & x & Hx & Lx). destruct (Nat.eq_dec t t0) as [->|Hne]; [now right; right; right|]. left.
        split; [exact Hl|]. split; [exact Hm|]. split; [exact Hr|]. exists x. split; [now apply T1 | exact Lx].
      - intros r Hr. now apply rbo_oob. }
    set (r0 := trec x0). change (has_ctx s1) with (has_ctx s). change (in_map s1 r0) with (in_map s r0). change (getr s1 r0) with (getr s r0).
    (* what the second part does *)
    assert (P2 : PO s1 (if has_ctx s && in_map s r0 && rexited (getr s r0) then start_rec s1 r0 (kctx s1) (rexit (getr s r0)) true else s1)).
    { destruct (has_ctx s && in_map s r0 && rexited (getr s r0)) eqn:Ec; [|apply PO_refl]. apply andb_true_iff in Ec as [Ec _]. apply andb_true_iff in Ec as [_ Em].
      apply (PO_start s1 J1 J21 (rkey (getr s r0))). apply (in_map_lookup s1 r0). exact Em. }
    pose proof (POx_PO_trans _ _ _ _ F1 P2) as G. destruct G as [G1 G2 G3 G4 G5 G6]. constructor; auto.
    intros rec t H. destruct (G2 rec t H) as [A|[A|[A|A]]]; auto. subst t.
    destruct H as (Hl & Hm & Hr & x & Hx & Lx). destruct (j2_rt _ HJ2 rec t0 Hr) as (y & Hy & Ty). rewrite Ex0 in Hy. inversion Hy; subst y. fold r0 in Ty. subst rec.
    pose proof (j2_re _ HJ2 r0 t0 Hr) as Ee. rewrite Hm, Ee. destruct (has_ctx s) eqn:Ehc; cbn [andb]; [|now right; right; right].
    right. left. (* the forced start of a record that has a routine *)
    assert (En : rnil (getr s r0) = false) by (destruct (rnil (getr s r0)) eqn:E; [rewrite (j2_nq _ HJ2 r0 E) in Ee; discriminate | reflexivity]).
    destruct (start_rec_shape s1 r0 (kctx s1) (rexit (getr s r0)) true) as [_ [E|(E & z & Hz & Z1 & _)]].
    + exfalso. revert E. unfold start_rec. change (getr s1 r0) with (getr s r0). rewrite En. cbn [negb andb orb]. rewrite insts_setr. cbn [insts set_insts]. rewrite app_length. cbn [length].
      destruct (cancel_inst_frame (stop_timer s1 (rretry (getr s r0))) (rcancel (getr s r0))) as (_ & _ & _ & _ & _ & _ & _ & _ & _ & _ & C).
      destruct (stop_timer_frame s1 (rretry (getr s r0))) as (_ & _ & T & _). rewrite C, T. lia.
    + exists (length (insts s1)), z. split; [reflexivity | auto].
Qed.

(* ------------------------------------------------------------------ *)
(* the bookkeeping section, for the record whose current instance it belongs to *)
Lemma bookkeep_retry s j x o :
  nth_error (insts s) j = Some x -> ipcv x = IBook o -> rctx (getr s (irec x)) = Some j -> irec x < length (recs s) ->
  let s1 := bookkeep s j in let r := irec x in let y := getr s (irec x) in
  (forall q, q <> r -> getr s1 q = getr s q) /\
  (forall t z, nth_error (timers s) t = Some z -> rretry y <> Some t -> nth_error (timers s1) t = Some z) /\
  match script s with
  | None => rretry (getr s1 r) = rretry y /\ rbo (getr s1 r) = rbo y /\ timers s1 = timers s
  | Some l =>
    if is_nil o then rretry (getr s1 r) = None /\ rbo (getr s1 r) = 0
    else if in_map s r then
      match nth_error l (rbo y) with
      | Some d => rbo (getr s1 r) = S (rbo y) /\ rretry (getr s1 r) = Some (length (timers s)) /\
                  nth_error (timers s1) (length (timers s)) = Some {| tkind := false; trec := r; tkey := rkey y; tdead := (clock s + d)%N; tst := TArmed |}
      | None => rbo (getr s1 r) = S (rbo y) /\ rretry (getr s1 r) = None
      end
    else rbo (getr s1 r) = rbo y /\ rretry (getr s1 r) = None
  end.
Proof.
  intros Hx Hp Hc Hl. cbn zeta. unfold bookkeep. rewrite Hx, Hp. set (r := irec x) in *. set (y := getr s r) in *. rewrite Hc, Nat.eqb_refl.
  set (s0 := seti s j (with_pc x IDone)).
  assert (G : forall S a b, recs S = recs s ->
     let S' := set_cblog (setr S r (with_exit y o a b)) (cblog (setr S r (with_exit y o a b)) ++ [(rkey y, rdata y, o)]) in
     (forall q, q <> r -> getr S' q = getr s q) /\ rretry (getr S' r) = a /\ rbo (getr S' r) = b /\ timers S' = timers S).
  { intros S a b ER. cbn zeta. unfold getr. cbn [recs timers set_cblog setr set_recs]. rewrite ER. split; [intros q Hq; now rewrite nth_set_nth_other|].
    rewrite nth_set_nth_same by exact Hl. cbn [rretry rbo with_exit]. auto. }
  assert (ST : forall t z, nth_error (timers s) t = Some z -> rretry y <> Some t -> nth_error (timers (stop_timer s0 (rretry y))) t = Some z).
  { intros t z Hz Hne. unfold stop_timer. destruct (rretry y) as [t0|]; [|exact Hz]. change (timers s0) with (timers s).
    destruct (nth_error (timers s) t0) as [x0|] eqn:E0; [|exact Hz]. destruct (tst x0); try exact Hz. cbn [timers set_timers].
    apply live_tstate_other; [congruence | exact Hz]. }
  assert (ES : recs (stop_timer s0 (rretry y)) = recs s) by (destruct (stop_timer_frame s0 (rretry y)) as (_ & T & _); rewrite T; reflexivity).
  assert (LS : length (timers (stop_timer s0 (rretry y))) = length (timers s)) by (destruct (stop_timer_frame s0 (rretry y)) as (_ & _ & _ & _ & _ & _ & _ & _ & _ & _ & T); rewrite T; reflexivity).
  assert (IM : in_map (stop_timer s0 (rretry y)) r = in_map s r).
  { unfold in_map. rewrite kmap_stop_timer. unfold getr. rewrite ES. reflexivity. }
  change (script s0) with (script s). destruct (script s) as [l|].
  - destruct (is_nil o).
    + destruct (G (stop_timer s0 (rretry y)) None 0 ES) as (A & B & C & D). cbn zeta in *. split; [exact A|]. split; [|auto]. intros t z Hz Hne. rewrite D. now apply ST.
    + rewrite IM. destruct (in_map s r).
      * change (clock (stop_timer s0 (rretry y))) with (clock (stop_timer s0 (rretry y))). destruct (nth_error l (rbo y)) as [d|].
        -- match goal with |- context [setr ?S r (with_exit y o ?a ?b)] => destruct (G S a b ES) as (A & B & C & D) end. cbn zeta in *.
           split; [exact A|]. split; [|split; [exact C|split; [rewrite B, LS; reflexivity|]]].
           ++ intros t z Hz Hne. rewrite D. cbn [timers set_timers]. rewrite nth_error_app1; [now apply ST | rewrite LS; eapply nth_error_nth_len; eauto].
           ++ rewrite D. cbn [timers set_timers]. rewrite nth_error_app2, LS, Nat.sub_diag by lia. cbn [nth_error].
              destruct (stop_timer_frame s0 (rretry y)) as (_ & _ & _ & _ & _ & _ & T & _). rewrite T. reflexivity.
        -- destruct (G (stop_timer s0 (rretry y)) None (S (rbo y)) ES) as (A & B & C & D). cbn zeta in *. split; [exact A|]. split; [|auto]. intros t z Hz Hne. rewrite D. now apply ST.
      * destruct (G (stop_timer s0 (rretry y)) None (rbo y) ES) as (A & B & C & D). cbn zeta in *. split; [exact A|]. split; [|auto]. intros t z Hz Hne. rewrite D. now apply ST.
  - destruct (G s0 (rretry y) (rbo y) eq_refl) as (A & B & C & D). cbn zeta in *. split; [exact A|]. split; [|auto]. intros t z Hz _. rewrite D. exact Hz.
Qed.
