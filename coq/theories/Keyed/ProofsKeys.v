(* keyed: how one operation changes the key map and where it spawns.  Every operation works on one key at a time
   ([Op1]); the operations that walk over several keys (SyncKeys, SetContext, ResetAll/RestartAllRoutines) touch each
   key once ([OpL]).  Consequences, for every event: a key that is registered before and after keeps its lineage, and
   every instance spawned by the event belongs to the record that is registered under its key when the event ends. *)
From Util Require Import Common.Base Common.ListLemmas Keyed.Model Keyed.Proofs Keyed.AbsSpec Keyed.ProofsC06 Keyed.ProofsWalk Keyed.ProofsMono Keyed.ProofsData.

(* the part of an operation before it starts anything *)
Definition Pre (s s' : st) : Prop := PI s s' /\ Mono s s' /\ length (insts s') = length (insts s).
Lemma Pre_refl s : Pre s s. Proof. split; [apply PI_refl | split; [apply Mono_refl | reflexivity]]. Qed.
Lemma Pre_trans s s1 s2 : Pre s s1 -> Pre s1 s2 -> Pre s s2.
Proof. intros (A1 & A2 & A3) (B1 & B2 & B3). split; [eapply PI_trans; eauto | split; [eapply Mono_trans; eauto | congruence]]. Qed.
Lemma Pre_cancel_inst s oi : Pre s (cancel_inst s oi).
Proof. split; [apply PI_cancel_inst | split; [apply Mono_cancel_inst | apply cancel_inst_frame]]. Qed.
Lemma Pre_stop_timer s ot : Pre s (stop_timer s ot).
Proof. split; [apply PI_stop_timer | split; [apply Mono_stop_timer|]]. destruct (stop_timer_frame s ot) as (_ & _ & T3 & _). now rewrite T3. Qed.
Lemma Pre_setr s r y : rsame (getr s r) y -> Pre s (setr s r y).
Proof. intros H. split; [now apply PI_setr | split; [now apply Mono_setr | reflexivity]]. Qed.
Lemma Pre_ext s s' :
  kmap s' = kmap s -> recs s' = recs s -> insts s' = insts s -> ctors s' = ctors s -> delay s' = delay s -> script s' = script s ->
  cblog s' = cblog s -> timers s' = timers s -> Pre s s'.
Proof. intros E1 E2 E3 E4 E5 E6 E7 E8. split; [now apply PI_ext | split; [now apply Mono_ext_recs | now rewrite E3]]. Qed.
Ltac prext := apply Pre_ext; reflexivity.
Lemma Pre_timers_app s tm : Pre s (set_timers s (timers s ++ [tm])).
Proof. split; [piext | split; [apply Mono_timers_app | reflexivity]]. Qed.
Lemma Pre_timer_set s t x v : nth_error (timers s) t = Some x -> Pre s (set_timers s (set_nth (timers s) t (with_tst x v))).
Proof. intros H. split; [piext | split; [now apply Mono_timer_set | reflexivity]]. Qed.
Lemma Pre_norm_ctx s : Pre s (norm_ctx s).
Proof. unfold norm_ctx. destruct (root_canc s (kctx s)); [prext | apply Pre_refl]. Qed.
Lemma Pre_new_record s k lin w : Pre s (fst (new_record s k lin w)).
Proof. split; [apply PI_new_record | split; [apply Mono_new_record | reflexivity]]. Qed.
Lemma Pre_kmap_delete s k : Pre s (set_kmap s (delete (kmap s) k)).
Proof. split; [apply PI_kmap_delete | split; [mext | reflexivity]]. Qed.
Lemma Pre_unremove s r : Pre s (unremove s r).
Proof.
  unfold unremove. destruct (rremove (getr s r)) eqn:E; [|apply Pre_refl]. eapply Pre_trans; [apply Pre_stop_timer|].
  apply Pre_setr. rewrite getr_stop_timer. repeat split.
Qed.
Lemma Pre_unretry s r : Pre s (unretry s r).
Proof.
  unfold unretry. destruct (rretry (getr s r)) eqn:E; [|apply Pre_refl]. eapply Pre_trans; [apply Pre_stop_timer|].
  apply Pre_setr. rewrite getr_stop_timer. repeat split.
Qed.
Lemma Pre_remove_now s r : Pre s (remove_now s r).
Proof.
  unfold remove_now. eapply Pre_trans; [apply Pre_cancel_inst|]. eapply Pre_trans; [apply Pre_stop_timer|].
  eapply Pre_trans; [|apply Pre_kmap_delete]. apply Pre_setr. repeat split.
Qed.
Lemma Pre_remove_rec s r : Pre s (remove_rec s r).
Proof.
  unfold remove_rec. destruct (rremove (getr s r)); [apply Pre_refl|].
  destruct (N.eqb (delay s) 0 || failed (getr s r)); [apply Pre_remove_now|].
  match goal with |- Pre s (setr ?S _ _) => apply (Pre_trans s S); [apply Pre_timers_app|] end. apply Pre_setr. repeat split.
Qed.
Lemma Pre_remove_key s k : Pre s (fst (remove_key s k)).
Proof. unfold remove_key. destruct (lookup (kmap s) k); cbn [fst]; [apply Pre_remove_rec | apply Pre_refl]. Qed.

(* ------------------------------------------------------------------ *)
(* what start does *)
Lemma start_rec_shape s r c w f :
  kmap (start_rec s r c w f) = kmap s /\
  (length (insts (start_rec s r c w f)) = length (insts s) \/
   (length (insts (start_rec s r c w f)) = S (length (insts s)) /\
    exists x, nth_error (insts (start_rec s r c w f)) (length (insts s)) = Some x /\ irec x = r /\ ikey x = rkey (getr s r))).
Proof.
  unfold start_rec. set (x := getr s r). destruct (negb f && rsucc x || rnil x); [auto|].
  destruct (negb f && is_some (rctx x) && negb (rexited x) && ctx_live s (rctx x)); [auto|]. cbn zeta.
  set (s2 := cancel_inst (stop_timer s (rretry x)) (rcancel x)).
  assert (L2 : length (insts s2) = length (insts s)) by (unfold s2; destruct (Pre_cancel_inst (stop_timer s (rretry x)) (rcancel x)) as (_ & _ & A); destruct (Pre_stop_timer s (rretry x)) as (_ & _ & B); congruence).
  split; [rewrite kmap_setr; cbn [kmap set_insts]; unfold s2; now rewrite kmap_cancel_inst, kmap_stop_timer|].
  right. rewrite insts_setr. cbn [insts set_insts]. rewrite app_length. cbn [length]. split; [lia|].
  eexists. rewrite <- L2, nth_error_app2 by lia. rewrite Nat.sub_diag. cbn [nth_error]. split; [reflexivity|]. split; reflexivity.
Qed.

(* ------------------------------------------------------------------ *)
(* one key *)
Record Op1 (k : nat) (s s' : st) : Prop := {
  o_id : ID s -> ID s';
  o_mono : Mono s s';
  o_other : ID s -> forall k', k' <> k -> lookup (kmap s') k' = lookup (kmap s) k';
  o_lin : ID s -> forall rec rec', lookup (kmap s) k = Some rec -> lookup (kmap s') k = Some rec' -> rlin (getr s' rec') = rlin (getr s rec);
  o_spawn : ID s -> forall i x, length (insts s) <= i -> nth_error (insts s') i = Some x -> ikey x = k /\ lookup (kmap s') k = Some (irec x);
}.

(* an operation on key k: a part that starts nothing, then at most one start on the record registered under k *)
Lemma Op1_make k s sp s' :
  Pre s sp ->
  (ID s -> forall k', k' <> k -> lookup (kmap sp) k' = lookup (kmap s) k') ->
  (ID s -> forall rec rec', lookup (kmap s) k = Some rec -> lookup (kmap sp) k = Some rec' -> rlin (getr sp rec') = rlin (getr s rec)) ->
  (s' = sp \/ exists r c w f, lookup (kmap sp) k = Some r /\ s' = start_rec sp r c w f) ->
  Op1 k s s'.
Proof.
  intros (P1 & P2 & P3) Ho Hl [->|(r & c & w & f & Hr & ->)].
  - constructor; auto. intros _ i x Hi Hx. apply nth_error_nth_len in Hx. lia.
  - destruct (start_rec_shape sp r c w f) as [K Sh].
    assert (PS : PI sp (start_rec sp r c w f)) by (eapply PI_start; eauto).
    assert (MS : Mono sp (start_rec sp r c w f)) by apply Mono_start.
    constructor.
    + intros H. apply PS, P1, H.
    + eapply Mono_trans; eauto.
    + intros H k' Hk'. rewrite K. now apply Ho.
    + intros H rec rec' E1 E2. rewrite K in E2. rewrite <- (Hl H rec rec' E1 E2).
      destruct (P1 H) as ((W1 & _) & _). destruct (W1 k rec' E2) as [A _]. destruct (mo_recs _ _ MS rec' A) as (_ & _ & L & _). exact L.
    + intros H i x Hi Hx. rewrite K. destruct Sh as [E|(E & y & Hy & Y1 & Y2)].
      * apply nth_error_nth_len in Hx. lia.
      * assert (i = length (insts sp)) by (apply nth_error_nth_len in Hx; lia). subst i. rewrite Hy in Hx. inversion Hx; subst y.
        destruct (P1 H) as ((W1 & _) & _). destruct (W1 k r Hr) as [_ B]. rewrite Y1, Y2, B. auto.
Qed.

Lemma kmap_norm_ctx s : kmap (norm_ctx s) = kmap s. Proof. unfold norm_ctx. destruct (root_canc s (kctx s)); reflexivity. Qed.
Lemma getr_norm_ctx s r : getr (norm_ctx s) r = getr s r. Proof. unfold norm_ctx. destruct (root_canc s (kctx s)); reflexivity. Qed.

(* the key map is untouched and no record changes lineage *)
Lemma lin_same s sp k : Pre s sp -> kmap sp = kmap s ->
  ID s -> forall rec rec', lookup (kmap s) k = Some rec -> lookup (kmap sp) k = Some rec' -> rlin (getr sp rec') = rlin (getr s rec).
Proof.
  intros (_ & M & _) K ((W1 & _) & _) rec rec' E1 E2. rewrite K, E1 in E2. inversion E2; subst rec'.
  destruct (W1 k rec E1) as [A _]. destruct (mo_recs _ _ M rec A) as (_ & _ & L & _). exact L.
Qed.

Lemma Op1_set_key k s st : Op1 k s (fst (set_key repaired s k st)).
Proof.
  unfold set_key. destruct (lookup (kmap s) k) as [r|] eqn:Ek.
  - cbn [fx_setkey repaired fst]. set (sp := unremove s r).
    assert (PP : Pre s sp) by apply Pre_unremove. assert (K : kmap sp = kmap s) by apply kmap_unremove.
    apply (Op1_make k s sp); [exact PP | intros _ k' _; now rewrite K | now apply lin_same |].
    destruct (st && has_ctx sp); [right; exists r; do 3 eexists; split; [rewrite K; exact Ek | reflexivity] | now left].
  - pose proof (Pre_new_record s k (nlin s) None) as PN.
    pose proof (new_record_frame s k (nlin s) None) as F. cbn zeta in F. destruct F as (F0 & _ & _ & _ & _ & F5 & _).
    destruct (new_record s k (nlin s) None) as [s1 r]. cbn [fst snd] in *.
    set (sp := set_nlin s1 (S (nlin s1))).
    assert (PP : Pre s sp) by (eapply Pre_trans; [exact PN | prext]).
    assert (K : kmap sp = insert (kmap s) k r) by exact F5.
    apply (Op1_make k s sp); [exact PP | intros _ k' Hk'; rewrite K; now apply lookup_insert_other | intros _ rec rec' E; rewrite Ek in E; discriminate |].
    destruct (has_ctx sp); [right; exists r; do 3 eexists; split; [rewrite K; apply lookup_insert_same | reflexivity] | now left].
Qed.

Lemma remove_key_kmap k s : ID s -> kmap (fst (remove_key s k)) = kmap s \/ lookup (kmap (fst (remove_key s k))) k = None.
Proof.
  intros ((W1 & _) & _). unfold remove_key. destruct (lookup (kmap s) k) as [r|] eqn:Ek; [|now left]. cbn [fst]. unfold remove_rec.
  destruct (rremove (getr s r)); [now left|]. destruct (N.eqb (delay s) 0 || failed (getr s r)); [|left; now rewrite kmap_setr].
  right. unfold remove_now. cbn [kmap set_kmap]. destruct (W1 k r Ek) as [_ B]. rewrite B. apply lookup_delete_same.
Qed.
Lemma Op1_remove_key k s : Op1 k s (fst (remove_key s k)).
Proof.
  apply (Op1_make k s (fst (remove_key s k))); [apply Pre_remove_key | | | now left].
  - intros ((W1 & _) & _) k' Hk'. unfold remove_key. destruct (lookup (kmap s) k) as [r|] eqn:Ek; [|reflexivity]. cbn [fst]. unfold remove_rec.
    destruct (rremove (getr s r)); [reflexivity|]. destruct (N.eqb (delay s) 0 || failed (getr s r)); [|rewrite kmap_setr; reflexivity].
    unfold remove_now. cbn [kmap set_kmap]. rewrite kmap_setr, kmap_stop_timer, kmap_cancel_inst.
    destruct (W1 k r Ek) as [_ B]. rewrite B. now apply lookup_delete_other.
  - intros H rec rec' E1 E2. destruct (remove_key_kmap k s H) as [K|K]; [|rewrite K in E2; discriminate].
    eapply lin_same; eauto. apply Pre_remove_key.
Qed.

(* ResetRoutine / RestartRoutine *)
Lemma Op1_pre k s sp s' : Pre s sp -> kmap sp = kmap s -> Op1 k sp s' -> Op1 k s s'.
Proof.
  intros (P1 & P2 & P3) K O. constructor.
  - intros H. apply (o_id _ _ _ O), P1, H.
  - eapply Mono_trans; [exact P2 | apply O].
  - intros H k' Hk'. rewrite (o_other _ _ _ O (P1 H) k' Hk'). now rewrite K.
  - intros H rec rec' E1 E2. rewrite <- K in E1. rewrite (o_lin _ _ _ O (P1 H) rec rec' E1 E2).
    destruct (P1 H) as ((W1 & _) & _). destruct (W1 k rec E1) as [A _]. rewrite K in E1. destruct H as ((V1 & _) & _). destruct (V1 k rec E1) as [A' _].
    destruct (mo_recs _ _ P2 rec A') as (_ & _ & L & _). exact L.
  - intros H i x Hi Hx. rewrite <- P3 in Hi. exact (o_spawn _ _ _ O (P1 H) i x Hi Hx).
Qed.

Lemma Op1_reset_core k s cond : Op1 k s (fst (reset_core repaired s k cond)).
Proof.
  unfold reset_core. destruct (lookup (kmap s) k) as [r|] eqn:Ek; [|apply (Op1_make k s s); [apply Pre_refl | auto | intros _ rec rec' E; rewrite Ek in E; discriminate | now left]].
  destruct (negb (cond_match cond k)); [apply (Op1_make k s s); [apply Pre_refl | auto | now apply lin_same; [apply Pre_refl|] | now left]|].
  set (x := getr s r). set (s1 := cancel_inst s (rcancel x)). cbn [fx_reset fx_nilchain repaired]. rewrite w0_repaired.
  pose proof (Pre_new_record s1 k (rlin x) (rexit x)) as PN.
  pose proof (new_record_frame s1 k (rlin x) (rexit x)) as F. cbn zeta in F. destruct F as (F0 & _ & _ & _ & _ & F5 & _ & _ & _ & F9 & _).
  destruct (new_record s1 k (rlin x) (rexit x)) as [s2 r2]. cbn [fst snd] in *.
  assert (PP : Pre s s2) by (eapply Pre_trans; [apply Pre_cancel_inst | exact PN]).
  assert (K : kmap s2 = insert (kmap s) k r2) by (rewrite F5; unfold s1; now rewrite kmap_cancel_inst).
  apply (Op1_make k s s2); [exact PP | intros _ k' Hk'; rewrite K; now apply lookup_insert_other | |].
  - intros _ rec rec' E1 E2. rewrite K, lookup_insert_same in E2. inversion E2; subst rec'. rewrite Ek in E1. inversion E1; subst rec. exact F9.
  - destruct (has_ctx s2); [right; exists r2; do 3 eexists; split; [rewrite K; apply lookup_insert_same | reflexivity] | now left].
Qed.
Lemma Op1_reset_routine k s cond : Op1 k s (fst (reset_routine repaired s k cond)).
Proof. unfold reset_routine. apply (Op1_pre k s (norm_ctx s)); [apply Pre_norm_ctx | apply kmap_norm_ctx | apply Op1_reset_core]. Qed.

Lemma Op1_same k s : Op1 k s s.
Proof. apply (Op1_make k s s); [apply Pre_refl | auto | now apply lin_same; [apply Pre_refl|] | now left]. Qed.

Lemma Op1_restart_core k s cond : Op1 k s (fst (restart_core s k cond)).
Proof.
  unfold restart_core. destruct (lookup (kmap s) k) as [r|] eqn:Ek; [|apply Op1_same].
  destruct (negb (has_ctx s)); [apply Op1_same|]. destruct (negb (cond_match cond k)); [apply Op1_same|]. cbn [fst].
  set (sp := setr (cancel_inst s (rcancel (getr s r))) r (with_cancel (getr s r) None)).
  assert (PP : Pre s sp) by (eapply Pre_trans; [apply Pre_cancel_inst | apply Pre_setr; rewrite getr_cancel_inst; repeat split]).
  assert (K : kmap sp = kmap s) by (unfold sp; now rewrite kmap_setr, kmap_cancel_inst).
  apply (Op1_make k s sp); [exact PP | intros _ k' _; now rewrite K | now apply lin_same |].
  right. exists r. do 3 eexists. split; [rewrite K; exact Ek | reflexivity].
Qed.
Lemma Op1_restart_routine k s cond : Op1 k s (fst (restart_routine s k cond)).
Proof. unfold restart_routine. apply (Op1_pre k s (norm_ctx s)); [apply Pre_norm_ctx | apply kmap_norm_ctx | apply Op1_restart_core]. Qed.

Lemma Op1_ctx_key c same restart s k : Op1 k s (ctx_key c same restart s k).
Proof.
  unfold ctx_key. destruct (lookup (kmap s) k) as [r|] eqn:Ek; [|apply Op1_same]. destruct (same && is_nil (rerr (getr s r))); [apply Op1_same|].
  set (sp := setr (cancel_inst s (rcancel (getr s r))) r (with_noctx (getr s r))).
  assert (PP : Pre s sp) by (eapply Pre_trans; [apply Pre_cancel_inst | apply Pre_setr; rewrite getr_cancel_inst; repeat split]).
  assert (K : kmap sp = kmap s) by (unfold sp; now rewrite kmap_setr, kmap_cancel_inst).
  apply (Op1_make k s sp); [exact PP | intros _ k' _; now rewrite K | now apply lin_same |].
  destruct (_ && negb (Nat.eqb c 0)); [right; exists r; do 3 eexists; split; [rewrite K; exact Ek | reflexivity] | now left].
Qed.

Lemma getr_setr_fld {A} (f : rec -> A) s r y q : f y = f (getr s r) -> f (getr (setr s r y) q) = f (getr s q).
Proof.
  intros H. destruct (Nat.lt_ge_cases r (length (recs s))) as [Hr|Hr].
  - destruct (Nat.eq_dec q r) as [->|Hne]; [rewrite getr_setr_same by exact Hr; exact H | now rewrite getr_setr_other].
  - now rewrite getr_setr_oob.
Qed.

(* a timer callback works on the key of its record *)
Lemma Op1_timer_cb s t : exists k, Op1 k s (timer_cb repaired s t).
Proof.
  unfold timer_cb. destruct (nth_error (timers s) t) as [x|] eqn:Ex; [|exists 0; apply Op1_same]. destruct (tst x) eqn:Es; try (exists 0; apply Op1_same).
  set (s1 := set_timers s (set_nth (timers s) t (with_tst x TRan))).
  assert (P1 : Pre s s1) by (now apply Pre_timer_set).
  set (r := trec x). set (y := getr s1 r). exists (rkey y).
  destruct (tkind x).
  - destruct (in_map s1 r) eqn:Em; cbn [andb]; [|apply (Op1_pre _ s s1); [exact P1 | reflexivity | apply Op1_same]].
    destruct (if fx_stale repaired then _ else _); [|apply (Op1_pre _ s s1); [exact P1 | reflexivity | apply Op1_same]].
    pose proof (in_map_lookup s1 r Em) as Hk. fold y in Hk.
    set (s2 := setr (stop_timer s1 (rremove y)) r (with_remove (getr (stop_timer s1 (rremove y)) r) None)).
    assert (P2 : Pre s1 s2) by (eapply Pre_trans; [apply Pre_stop_timer | apply Pre_setr; repeat split]).
    assert (K2 : kmap s2 = kmap s1) by (unfold s2; now rewrite kmap_setr, kmap_stop_timer).
    apply (Op1_pre _ s s2); [eapply Pre_trans; eauto | exact K2 |].
    assert (Y2 : rkey (getr s2 r) = rkey y).
    { unfold s2. rewrite (getr_setr_fld rkey); [now rewrite getr_stop_timer | reflexivity]. }
    apply (Op1_make _ s2 (remove_now s2 r)); [apply Pre_remove_now | | | now left].
    + intros _ k' Hk'. unfold remove_now. cbn [kmap set_kmap]. rewrite kmap_setr, kmap_stop_timer, kmap_cancel_inst. rewrite Y2. now apply lookup_delete_other.
    + intros _ rec rec' E1 E2. exfalso. revert E2. unfold remove_now. cbn [kmap set_kmap]. rewrite Y2, lookup_delete_same. discriminate.
  - destruct (has_ctx s1); cbn [andb]; [|apply (Op1_pre _ s s1); [exact P1 | reflexivity | apply Op1_same]].
    destruct (in_map s1 r) eqn:Em; cbn [andb]; [|apply (Op1_pre _ s s1); [exact P1 | reflexivity | apply Op1_same]].
    destruct (rexited y); [|apply (Op1_pre _ s s1); [exact P1 | reflexivity | apply Op1_same]].
    apply (Op1_pre _ s s1); [exact P1 | reflexivity |].
    apply (Op1_make _ s1 s1); [apply Pre_refl | auto | now apply lin_same; [apply Pre_refl|] |].
    right. exists r. do 3 eexists. split; [apply in_map_lookup; exact Em | reflexivity].
Qed.

(* ------------------------------------------------------------------ *)
(* several keys, each touched once *)
Record OpL (T : list nat) (s s' : st) : Prop := {
  l_id : ID s -> ID s';
  l_mono : Mono s s';
  l_other : ID s -> forall k, ~ In k T -> lookup (kmap s') k = lookup (kmap s) k;
  l_lin : ID s -> forall k rec rec', lookup (kmap s) k = Some rec -> lookup (kmap s') k = Some rec' -> rlin (getr s' rec') = rlin (getr s rec);
  l_spawn : ID s -> forall i x, length (insts s) <= i -> nth_error (insts s') i = Some x -> In (ikey x) T /\ lookup (kmap s') (ikey x) = Some (irec x);
}.

Lemma rlin_stable s s' k rec : ID s -> Mono s s' -> lookup (kmap s) k = Some rec -> rlin (getr s' rec) = rlin (getr s rec).
Proof. intros ((W1 & _) & _) M E. destruct (W1 k rec E) as [A _]. destruct (mo_recs _ _ M rec A) as (_ & _ & L & _). exact L. Qed.

Lemma OpL_nil s : OpL [] s s.
Proof.
  constructor; auto using Mono_refl.
  - intros H k rec rec' E1 E2. congruence.
  - intros _ i x Hi Hx. apply nth_error_nth_len in Hx. lia.
Qed.
Lemma OpL_of_Op1 k s s' : Op1 k s s' -> OpL [k] s s'.
Proof.
  intros O. constructor; try apply O.
  - intros H k' Hk'. apply (o_other _ _ _ O H). intros ->. apply Hk'. now left.
  - intros H k' rec rec' E1 E2. destruct (Nat.eq_dec k' k) as [->|Hne]; [eapply (o_lin _ _ _ O); eauto|].
    rewrite (o_other _ _ _ O H k' Hne), E1 in E2. inversion E2; subst rec'. eapply rlin_stable; eauto. apply O.
  - intros H i x Hi Hx. destruct (o_spawn _ _ _ O H i x Hi Hx) as [A B]. rewrite A. split; [now left | exact B].
Qed.
Lemma OpL_app T1 T2 s s1 s2 : OpL T1 s s1 -> OpL T2 s1 s2 -> (forall k, In k T1 -> ~ In k T2) -> OpL (T1 ++ T2) s s2.
Proof.
  intros A B D. constructor.
  - intros H. apply (l_id _ _ _ B), (l_id _ _ _ A), H.
  - eapply Mono_trans; [apply A | apply B].
  - intros H k Hk. rewrite (l_other _ _ _ B (l_id _ _ _ A H) k), (l_other _ _ _ A H k); [reflexivity| |]; intros X; apply Hk, in_or_app; auto.
  - intros H k rec rec2 E1 E2. pose proof (l_id _ _ _ A H) as H1.
    destruct (in_dec Nat.eq_dec k T2) as [I2|N2].
    + (* touched by the second part only *)
      assert (N1 : ~ In k T1) by (intros X; exact (D k X I2)).
      pose proof (l_other _ _ _ A H k N1) as E. rewrite E1 in E.
      rewrite (l_lin _ _ _ B H1 k rec rec2 E E2). eapply rlin_stable; eauto. apply A.
    + pose proof (l_other _ _ _ B H1 k N2) as E. rewrite E2 in E. symmetry in E.
      rewrite <- (l_lin _ _ _ A H k rec rec2 E1 E). eapply rlin_stable; eauto. apply B.
  - intros H i x Hi Hx. pose proof (l_id _ _ _ A H) as H1.
    destruct (Nat.le_gt_cases (length (insts s1)) i) as [Hge|Hlt].
    + destruct (l_spawn _ _ _ B H1 i x Hge Hx) as [I K]. split; [apply in_or_app; now right | exact K].
    + (* spawned by the first part: still there, and its key is not touched again *)
      destruct (nth_error (insts s1) i) as [x1|] eqn:E1; [|apply nth_error_None in E1; lia].
      destruct (mo_insts _ _ (l_mono _ _ _ B) i x1 E1) as (x' & Hx' & (S1 & S2 & _)). rewrite Hx in Hx'. inversion Hx'; subst x'.
      destruct (l_spawn _ _ _ A H i x1 Hi E1) as [I K]. rewrite S1, S2. split; [apply in_or_app; now left|].
      rewrite (l_other _ _ _ B H1 (ikey x1)); [exact K | apply D, I].
Qed.
Lemma OpL_weaken T T' s s' : (forall k, In k T -> In k T') -> OpL T s s' -> OpL T' s s'.
Proof.
  intros I O. constructor; try apply O.
  - intros H k Hk. apply (l_other _ _ _ O H). intros X. apply Hk, I, X.
  - intros H i x Hi Hx. destruct (l_spawn _ _ _ O H i x Hi Hx) as [A B]. split; [apply I, A | exact B].
Qed.
(* a part before / after that starts nothing and leaves the key map alone *)
Lemma OpL_frame s s' : Pre s s' -> kmap s' = kmap s -> OpL [] s s'.
Proof.
  intros (P1 & P2 & P3) K. constructor; auto.
  - intros _ k _. now rewrite K.
  - intros H k rec rec' E1 E2. rewrite K, E1 in E2. inversion E2; subst rec'. eapply rlin_stable; eauto.
  - intros _ i x Hi Hx. apply nth_error_nth_len in Hx. lia.
Qed.
Lemma OpL_pre T s sp s' : Pre s sp -> kmap sp = kmap s -> OpL T sp s' -> OpL T s s'.
Proof. intros P K O. apply (OpL_app [] T s sp s' (OpL_frame s sp P K) O). intros k []. Qed.
Lemma OpL_post T s s' sq : OpL T s s' -> Pre s' sq -> kmap sq = kmap s' -> OpL T s sq.
Proof. intros O P K. rewrite <- (app_nil_r T). apply (OpL_app T [] s s' sq O (OpL_frame s' sq P K)). intros k _ []. Qed.

(* a fold over distinct keys of an operation that works on the key it is given *)
Lemma OpL_fold {A} (pr : A -> st) (f : A -> nat -> A) :
  (forall a k, Op1 k (pr a) (pr (f a k))) ->
  forall L a, NoDup L -> OpL L (pr a) (pr (fold_left f L a)).
Proof.
  intros Hf L. induction L as [|k L IH]; intros a Hn; cbn [fold_left]; [apply OpL_nil|].
  inversion Hn; subst. change (k :: L) with ([k] ++ L). apply (OpL_app [k] L _ (pr (f a k))).
  - apply OpL_of_Op1, Hf. - now apply IH. - intros k' [<-|[]]. assumption.
Qed.

(* ------------------------------------------------------------------ *)
(* the keys of the map are strictly sorted (so: distinct) *)
Definition KS (s : st) : Prop := ssorted (map fst (kmap s)).
Definition PK (s s' : st) : Prop := KS s -> KS s'.
Lemma PK_same s s' : kmap s' = kmap s -> PK s s'. Proof. intros E H. unfold KS. now rewrite E. Qed.
Lemma ssorted_NoDup l : ssorted l -> NoDup l.
Proof.
  induction l as [|h t IH]; intros H; [constructor|]. destruct H as [Hh Ht]. constructor; [|now apply IH].
  intros X. rewrite Forall_forall in Hh. specialize (Hh h X). lia.
Qed.
Lemma PK_ordinary s e : ordinary e = true -> PK s (step repaired s e).
Proof.
  apply (W_step PK (fun s0 H => H) (fun s0 s1 s2 A B H => B (A H))); try (intros; apply PK_same; reflexivity).
  - intros; apply PK_same, kmap_cancel_inst.
  - intros; apply PK_same, kmap_stop_timer.
  - intros; apply PK_same. apply start_rec_shape.
  - intros s0 k _ H. unfold KS, new_record in *. cbn [kmap set_nlin set_kmap fst]. rewrite keys_insert. now apply ssorted_kins.
  - intros s0 k r lin w _ _ H. unfold KS, new_record in *. cbn [kmap set_kmap fst]. rewrite keys_insert. now apply ssorted_kins.
  - intros s0 k H. unfold KS in *. cbn [kmap set_kmap]. rewrite keys_delete. now apply ssorted_kdel.
  - intros s0. apply PK_same, kmap_norm_ctx.
Qed.
Lemma PK_step s e : PK s (step repaired s e).
Proof.
  destruct (ordinary e) eqn:O; [now apply PK_ordinary|]. destruct e; try discriminate O; cbn [step].
  - apply (W_set_context PK (fun s0 H => H) (fun s0 s1 s2 A B H => B (A H))); try (intros; apply PK_same; reflexivity).
    + intros; apply PK_same, kmap_cancel_inst. + intros; apply PK_same. apply start_rec_shape.
  - apply PK_same. reflexivity.
  - apply PK_same. unfold cancel_root. destruct (Nat.eqb c 0); reflexivity.
  - apply PK_same. reflexivity.
Qed.
Theorem run_KS dl sc es : KS (run repaired (init dl sc) es).
Proof. unfold run. apply fold_inv; [intros s e H; now apply (PK_step s e) | exact I]. Qed.

(* ------------------------------------------------------------------ *)
(* the operations over several keys *)
Lemma sync_fold1_OpL restart : forall ks s seen added,
  exists T, OpL T s (fst (fst (fold_left (sync_one repaired restart) ks (s, seen, added)))) /\
            forall k, In k T -> In k ks /\ mem k seen = false.
Proof.
  induction ks as [|k ks IH]; intros s seen added; cbn [fold_left].
  - exists []. split; [apply OpL_nil | intros k []].
  - destruct (mem k seen) eqn:Em.
    + assert (E : sync_one repaired restart (s, seen, added) k = (s, seen, added)) by (unfold sync_one; now rewrite Em).
      rewrite E. destruct (IH s seen added) as (T & O & HT). exists T. split; [exact O|]. intros k' Hk'. destruct (HT k' Hk'). split; [now right | assumption].
    + pose proof (sync_one_is_set_key restart s seen added k Em) as E1.
      destruct (sync_one_lists restart s seen added k) as [E2 _]. rewrite Em in E2.
      destruct (sync_one repaired restart (s, seen, added) k) as [[s1 seen1] added1]. cbn [fst snd] in E1, E2. subst s1 seen1.
      destruct (IH (fst (set_key repaired s k restart)) (k :: seen) added1) as (T & O & HT).
      exists ([k] ++ T). split.
      * eapply OpL_app; [apply OpL_of_Op1, Op1_set_key | exact O|]. intros k' [<-|[]] X. destruct (HT k X) as [_ M]. cbn [mem existsb] in M. rewrite Nat.eqb_refl in M. discriminate.
      * intros k' [<-|X]; [split; [now left | exact Em]|]. destruct (HT k' X) as [A M]. split; [now right|].
        unfold mem in *. cbn [existsb] in M. apply orb_false_iff in M. apply M.
Qed.
Lemma sync_fold2_OpL keys : forall L s removed, NoDup L ->
  exists T, OpL T s (fst (fold_left (sync_rm keys) L (s, removed))) /\ forall k, In k T -> In k L /\ mem k keys = false.
Proof.
  induction L as [|k L IH]; intros s removed Hn; cbn [fold_left].
  - exists []. split; [apply OpL_nil | intros k []].
  - inversion Hn; subst. unfold sync_rm at 2. destruct (mem k keys) eqn:Em.
    + destruct (IH s removed H2) as (T & O & HT). exists T. split; [exact O|]. intros k' X. destruct (HT k' X). split; [now right | assumption].
    + destruct (IH (fst (remove_key s k)) (removed ++ [k]) H2) as (T & O & HT).
      exists ([k] ++ T). split.
      * eapply OpL_app; [apply OpL_of_Op1, Op1_remove_key | exact O|]. intros k' [<-|[]] X. destruct (HT k X) as [A _]. contradiction.
      * intros k' [<-|X]; [split; [now left | exact Em]|]. destruct (HT k' X) as [A M]. split; [now right | exact M].
Qed.

Lemma OpL_sync_core s keys restart : KS s -> exists T, OpL T s (fst (sync_core repaired s keys restart)).
Proof.
  intros HK. unfold sync_core.
  destruct (sync_fold1_OpL restart keys s [] []) as (T1 & O1 & HT1).
  assert (K1 : KS (fst (fst (fold_left (sync_one repaired restart) keys (s, [], []))))).
  { refine (W_fold_acc PK (fun s0 H => H) (fun s0 s1 s2 A B H => B (A H)) (fun acc : st * list nat * list nat => fst (fst acc)) (sync_one repaired restart) _ keys (s, [], []) HK).
    intros [[s0 seen] added] k. cbn [fst]. unfold sync_one. destruct (mem k seen); [intros H; exact H|].
    intros H. pose proof (PK_step s0 (ESetKey k restart) H) as G. cbn [step] in G. unfold set_key in G. cbn [fx_setkey fx_sync repaired] in *.
    destruct (lookup (kmap s0) k); [exact G|]. destruct (new_record s0 k (nlin s0) None). exact G. }
  destruct (fold_left (sync_one repaired restart) keys (s, [], [])) as [[s1 seen] added]. cbn [fst] in *.
  destruct (sync_fold2_OpL keys (map fst (kmap s1)) s1 [] (ssorted_NoDup _ K1)) as (T2 & O2 & HT2).
  destruct (fold_left (sync_rm keys) (map fst (kmap s1)) (s1, [])) as [s2 removed]. cbn [fst] in *.
  exists (T1 ++ T2). eapply OpL_app; eauto. intros k X1 X2. destruct (HT1 k X1) as [A _]. destruct (HT2 k X2) as [_ B].
  apply mem_In in A. congruence.
Qed.

Lemma OpL_all_step (f : st -> nat -> nat -> st * (bool * bool)) cond s :
  (forall s0 k, Op1 k s0 (fst (f s0 k cond))) -> KS s ->
  OpL (map fst (kmap s)) s (fst (fold_left (all_step f cond) (map fst (kmap s)) (s, 0))).
Proof.
  intros Hf HK.
  assert (G : forall (a : st * nat) k, Op1 k (fst a) (fst (all_step f cond a k))).
  { intros [s0 n] k. cbn [fst]. unfold all_step. pose proof (Hf s0 k) as G. destruct (f s0 k cond) as [s' [ex rs]]. exact G. }
  exact (OpL_fold (fun acc : st * nat => fst acc) (all_step f cond) G (map fst (kmap s)) (s, 0) (ssorted_NoDup _ HK)).
Qed.

Lemma OpL_set_context s c restart : KS s -> exists T, OpL T s (set_context s c restart).
Proof.
  intros HK. unfold set_context. destruct (Nat.eqb (kctx s) c && negb restart); [exists []; apply OpL_nil|].
  exists (map fst (kmap s)). apply (OpL_pre _ s (set_kctx s c)); [prext | reflexivity|].
  change (kmap (set_kctx s c)) with (kmap s).
  apply (OpL_fold (fun x : st => x) (ctx_key c (Nat.eqb (kctx s) c) restart)); [intros; apply Op1_ctx_key | now apply ssorted_NoDup].
Qed.

Lemma Pre_seti s i x x' : nth_error (insts s) i = Some x -> isame x x' -> Pre s (seti s i x').
Proof. intros Hx Hs. split; [eapply PI_seti; eauto | split; [eapply Mono_seti; eauto | rewrite insts_seti; apply length_set_nth]]. Qed.
Lemma Pre_plain_inst s e : (exists i en, e = EProceed i en) \/ (exists i en, e = EWake i en) \/ (exists i o, e = EReturn i o) -> Pre s (step repaired s e) /\ kmap (step repaired s e) = kmap s.
Proof.
  assert (X : forall i x p, nth_error (insts s) i = Some x -> Pre s (seti s i (with_pc x p)) /\ kmap (seti s i (with_pc x p)) = kmap s)
    by (intros i x p H; split; [apply (Pre_seti s i x _ H); repeat split; auto | reflexivity]).
  assert (Y : forall i x o, nth_error (insts s) i = Some x -> Pre s (seti s i (with_over x o)) /\ kmap (seti s i (with_over x o)) = kmap s)
    by (intros i x o H; split; [apply (Pre_seti s i x _ H); repeat split; auto | reflexivity]).
  assert (Z : Pre s s /\ kmap s = kmap s) by (split; [apply Pre_refl | reflexivity]).
  intros [(i & en & ->)|[(i & en & ->)|(i & o & ->)]]; cbn [step]; [unfold proceed | unfold wake | unfold fn_return];
    repeat match goal with |- context [match ?x with _ => _ end] => destruct x eqn:? end; auto.
Qed.

Lemma Pre_bookkeep s i : Pre s (bookkeep s i).
Proof.
  apply (W_bookkeep Pre Pre_refl Pre_trans Pre_stop_timer).
  - intros s0 r y o a b ->. apply Pre_setr. repeat split.
  - intros s0 j x p H. apply (Pre_seti s0 j x _ H). repeat split; auto.
  - intros; apply Pre_timers_app.
  - intros s0 x. split; [piext | split; [apply Mono_cblog_app | reflexivity]].
Qed.
Lemma kmap_bookkeep s i : kmap (bookkeep s i) = kmap s.
Proof.
  apply (W_bookkeep (fun a b => kmap b = kmap a)); try (intros; reflexivity).
  - intros; congruence. - intros; apply kmap_stop_timer.
Qed.

(* every event *)
Theorem step_OpL s e : KS s -> exists T, OpL T s (step repaired s e).
Proof.
  intros HK. destruct e; cbn [step].
  - now apply OpL_set_context.
  - eexists. apply OpL_of_Op1, Op1_set_key.
  - eexists. apply OpL_of_Op1, Op1_remove_key.
  - unfold sync_keys. assert (HK' : KS (norm_ctx s)) by (unfold KS; now rewrite kmap_norm_ctx).
    destruct (OpL_sync_core (norm_ctx s) ks restart HK') as (T & O). exists T. eapply OpL_pre; [apply Pre_norm_ctx | apply kmap_norm_ctx | exact O].
  - exists []. apply OpL_nil.
  - eexists. apply OpL_of_Op1, Op1_reset_routine.
  - eexists. apply OpL_of_Op1, Op1_restart_routine.
  - exists (map fst (kmap s)). unfold reset_all.
    pose proof (OpL_all_step (reset_routine repaired) cond s (fun s0 k => Op1_reset_routine k s0 cond) HK) as G.
    destruct (fold_left _ _ (s, 0)) as [s' n]. exact G.
  - exists (map fst (kmap s)). unfold restart_all.
    pose proof (OpL_all_step restart_routine cond s (fun s0 k => Op1_restart_routine k s0 cond) HK) as G.
    destruct (fold_left _ _ (s, 0)) as [s' n]. exact G.
  - exists [k]. unfold add_key_ref. pose proof (OpL_of_Op1 _ _ _ (Op1_set_key k s true)) as G.
    destruct (set_key repaired s k true) as [s1 res]. cbn [fst] in *. eapply OpL_post; [exact G | prext | reflexivity].
  - exists []. apply OpL_frame; unfold release_start; destruct (nth_error (refs s) f) as [x|]; try apply Pre_refl; try reflexivity;
      destruct (frel x); try apply Pre_refl; try reflexivity; prext.
  - unfold release_section. destruct (nth_error (rels s) a) as [l|]; [|exists []; apply OpL_nil]. destruct (lparked l); [|exists []; apply OpL_nil].
    set (s1 := set_rels s _). destruct (nth_error (refs s1) (lref l)) as [x|]; [|exists []; apply OpL_frame; [prext | reflexivity]].
    destruct (fin x); [|exists []; apply OpL_frame; [prext | reflexivity]].
    set (s2 := set_refs s1 _). destruct (Nat.eqb _ 0); [|exists []; apply OpL_frame; [prext | reflexivity]].
    exists [fkey x]. apply (OpL_pre _ s s2); [prext | reflexivity | apply OpL_of_Op1, Op1_remove_key].
  - exists [k]. unfold rc_remove_key. eapply OpL_pre; [| |apply OpL_of_Op1, Op1_remove_key]; [prext | reflexivity].
  - exists []. destruct (Pre_plain_inst s (EProceed i enter)) as [A B]; [left; eauto|]. now apply OpL_frame.
  - exists []. destruct (Pre_plain_inst s (EWake i enter)) as [A B]; [right; left; eauto|]. now apply OpL_frame.
  - exists []. destruct (Pre_plain_inst s (EReturn i o)) as [A B]; [right; right; eauto|]. now apply OpL_frame.
  - exists []. apply OpL_frame; [apply Pre_bookkeep | apply kmap_bookkeep].
  - exists []. apply OpL_frame; [|reflexivity]. unfold advance. split; [piext | split; [apply Mono_advance | reflexivity]].
  - destruct (Op1_timer_cb s t) as [k O]. exists [k]. now apply OpL_of_Op1.
  - exists []. apply OpL_frame.
    + split; [apply PI_cancel_root | split; [apply Mono_cancel_root|]]. unfold cancel_root. destruct (Nat.eqb c 0); [reflexivity|]. cbn [insts set_croots set_insts]. apply map_length.
    + unfold cancel_root. destruct (Nat.eqb c 0); reflexivity.
  - exists []. apply OpL_frame; [prext | reflexivity].
Qed.

(* ... and the wake-ups that follow it *)
Lemma Pre_wakes s n : Pre s (run repaired s (map (fun i => EWake i true) (seq 0 n))) /\ kmap (run repaired s (map (fun i => EWake i true) (seq 0 n))) = kmap s.
Proof.
  unfold run. generalize (seq 0 n) as l. intros l. revert s. induction l as [|i l IH]; intros s; cbn [map fold_left]; [split; [apply Pre_refl | reflexivity]|].
  destruct (Pre_plain_inst s (EWake i true)) as [A B]; [right; left; eauto|]. destruct (IH (step repaired s (EWake i true))) as [C D].
  split; [eapply Pre_trans; eauto | congruence].
Qed.
