(* keyed: records are named by (key, data) - the data value of a record is key * 1000 + the number of constructions of that
   key at its creation, so two records of one key never share a data value - and every instance carries key, data and
   lineage of its record.  An invariant of every intermediate state of every operation (instance of the generic walk). *)
From Util Require Import Common.Base Common.ListLemmas Keyed.Model Keyed.Proofs Keyed.ProofsWalk Keyed.ProofsMono.

Definition Wf (s : st) : Prop :=
  (forall k r, lookup (kmap s) k = Some r -> r < length (recs s) /\ rkey (getr s r) = k) /\
  (forall i x, nth_error (insts s) i = Some x -> irec x < length (recs s)).
Definition D1 (s : st) : Prop :=
  forall r, r < length (recs s) ->
    exists c, 1 <= c /\ c <= ctor_count s (rkey (getr s r)) /\ rdata (getr s r) = (N.of_nat (rkey (getr s r)) * 1000 + N.of_nat c)%N.
Definition D2 (s : st) : Prop :=
  forall r1 r2, r1 < length (recs s) -> r2 < length (recs s) ->
    rkey (getr s r1) = rkey (getr s r2) -> rdata (getr s r1) = rdata (getr s r2) -> r1 = r2.
Definition D4 (s : st) : Prop :=
  forall i x, nth_error (insts s) i = Some x ->
    idata x = rdata (getr s (irec x)) /\ ikey x = rkey (getr s (irec x)) /\ ilin x = rlin (getr s (irec x)).
Definition ID (s : st) : Prop := Wf s /\ D1 s /\ D2 s /\ D4 s.
Definition PI (s s' : st) : Prop := ID s -> ID s'.

Lemma PI_refl s : PI s s. Proof. intros H; exact H. Qed.
Lemma PI_trans s s1 s2 : PI s s1 -> PI s1 s2 -> PI s s2. Proof. intros A B H. apply B, A, H. Qed.

(* an update that keeps the key map, the constructor counts, the number of records and instances, and only touches
   fields that Mono lets change *)
Lemma PI_frame s s' :
  Mono s s' -> kmap s' = kmap s -> ctors s' = ctors s -> length (recs s') = length (recs s) -> length (insts s') = length (insts s) ->
  PI s s'.
Proof.
  intros M EK EC LR LI ((W1 & W2) & H1 & H2 & H4).
  assert (RS : forall r, r < length (recs s) -> rsame (getr s r) (getr s' r)) by (intros r Hr; apply (mo_recs _ _ M r Hr)).
  assert (IS : forall i x', nth_error (insts s') i = Some x' -> exists x, nth_error (insts s) i = Some x /\ isame x x').
  { intros i x' Hx'. assert (Hi : i < length (insts s)) by (rewrite <- LI; eapply nth_error_nth_len; eauto).
    destruct (nth_error (insts s) i) as [x|] eqn:Ex; [|apply nth_error_None in Ex; lia].
    destruct (mo_insts _ _ M i x Ex) as (x2 & Hx2 & Hs). exists x. split; [reflexivity|]. congruence. }
  split; [|split; [|split]].
  - split.
    + intros k r Hk. rewrite EK in Hk. destruct (W1 k r Hk) as [A B]. rewrite LR. split; [exact A|].
      destruct (RS r A) as (K & _). congruence.
    + intros i x' Hx'. destruct (IS i x' Hx') as (x & Hx & (E1 & _)). rewrite LR, E1. eapply W2; eauto.
  - intros r Hr. rewrite LR in Hr. destruct (H1 r Hr) as (c & C1 & C2 & C3). destruct (RS r Hr) as (K & _ & D).
    exists c. unfold ctor_count in *. rewrite EC, K, D. auto.
  - intros r1 r2 Hr1 Hr2. rewrite LR in Hr1, Hr2. destruct (RS r1 Hr1) as (K1 & _ & E1). destruct (RS r2 Hr2) as (K2 & _ & E2).
    rewrite K1, K2, E1, E2. now apply H2.
  - intros i x' Hx'. destruct (IS i x' Hx') as (x & Hx & (E1 & E2 & E3 & _ & E5 & _)).
    destruct (H4 i x Hx) as (A & B & C). destruct (RS (irec x) (W2 i x Hx)) as (K & L & D).
    rewrite E1, E2, E3, E5, K, L, D. auto.
Qed.

Lemma length_insts_cancel_inst s oi : length (insts (cancel_inst s oi)) = length (insts s). Proof. apply cancel_inst_frame. Qed.
Lemma PI_cancel_inst s oi : PI s (cancel_inst s oi).
Proof.
  destruct (cancel_inst_frame s oi) as (C1 & C2 & _ & _ & _ & _ & _ & _ & C9 & _ & C11).
  apply PI_frame; auto using Mono_cancel_inst. now rewrite C2.
Qed.
Lemma PI_stop_timer s ot : PI s (stop_timer s ot).
Proof.
  destruct (stop_timer_frame s ot) as (T1 & T2 & T3 & _ & _ & _ & _ & _ & T9 & _).
  apply PI_frame; auto using Mono_stop_timer; congruence.
Qed.
Lemma PI_setr s r y : rsame (getr s r) y -> PI s (setr s r y).
Proof. intros H. apply PI_frame; try reflexivity; [now apply Mono_setr | rewrite recs_setr; apply length_set_nth]. Qed.
Lemma PI_seti s i x x' : nth_error (insts s) i = Some x -> isame x x' -> PI s (seti s i x').
Proof. intros Hx Hs. apply PI_frame; try reflexivity; [eapply Mono_seti; eauto | rewrite insts_seti; apply length_set_nth]. Qed.

Lemma getr_set_insts s l r : getr (set_insts s l) r = getr s r. Proof. reflexivity. Qed.

(* start on a registered record *)
Lemma PI_start s k r c w f : lookup (kmap s) k = Some r -> PI s (start_rec s r c w f).
Proof.
  intros Hk. unfold start_rec. set (x := getr s r). destruct (negb f && rsucc x || rnil x); [apply PI_refl|].
  destruct (negb f && is_some (rctx x) && negb (rexited x) && ctx_live s (rctx x)); [apply PI_refl|]. cbn zeta.
  set (s2 := cancel_inst (stop_timer s (rretry x)) (rcancel x)).
  assert (P2 : PI s s2) by (eapply PI_trans; [apply PI_stop_timer | apply PI_cancel_inst]).
  assert (X2 : getr s2 r = x) by (unfold s2; rewrite getr_cancel_inst, getr_stop_timer; reflexivity).
  assert (K2 : lookup (kmap s2) k = Some r) by (unfold s2; rewrite kmap_cancel_inst, kmap_stop_timer; exact Hk).
  intros H. specialize (P2 H). clear H. destruct P2 as ((W1 & W2) & H1 & H2 & H4).
  destruct (W1 k r K2) as [Rr Rk]. rewrite X2 in Rk.
  set (X := {| irec := r; ikey := rkey x; ilin := rlin x; iwait := w; ipcv := IGate0; icanc := root_canc s c; iexit := false;
               idata := rdata x; iroot := c |}).
  set (s3 := set_insts s2 (insts s2 ++ [X])).
  assert (P3 : ID s3).
  { split; [|split; [|split]].
    - split; [exact W1|]. intros i y Hy. cbn [insts s3 set_insts] in Hy. cbn [recs s3 set_insts].
      destruct (nth_error_app_inv _ _ _ _ Hy) as [G| ->]; [eapply W2; eauto | exact Rr].
    - exact H1. - exact H2.
    - intros i y Hy. cbn [insts s3 set_insts] in Hy. assert (G3 : forall q, getr s3 q = getr s2 q) by reflexivity. rewrite G3.
      destruct (nth_error_app_inv _ _ _ _ Hy) as [G| ->]; [eapply H4; eauto|]. cbn [idata ikey ilin irec X]. rewrite X2. auto. }
  revert P3. apply PI_setr. change (getr s3 r) with (getr s2 r). rewrite X2. repeat split.
Qed.

(* a new record *)
Lemma PI_new_record s k lin w : PI s (fst (new_record s k lin w)).
Proof.
  intros ((W1 & W2) & H1 & H2 & H4). unfold new_record. cbn [fst]. cbn [recs kmap set_ctors set_recs].
  set (c := S (ctor_count s k)). set (d := (N.of_nat k * 1000 + N.of_nat c)%N). set (n := length (recs s)).
  set (R := {| rkey := k; rlin := lin; rdata := d; rctx := None; rcancel := None; rexit := w; rerr := ONil; rsucc := false;
               rexited := false; rremove := None; rretry := None; rbo := 0 |}).
  set (s' := set_kmap (set_recs (set_ctors s (insert (ctors s) k c)) (recs s ++ [R])) (insert (kmap s) k n)).
  assert (G : forall q, q < n -> getr s' q = getr s q) by (intros q Hq; unfold getr, s'; cbn [recs set_kmap set_recs set_ctors]; now rewrite app_nth1).
  assert (Gn : getr s' n = R) by (unfold getr, s'; cbn [recs set_kmap set_recs set_ctors]; rewrite app_nth2 by (unfold n; lia); now rewrite Nat.sub_diag).
  assert (L : length (recs s') = S n) by (unfold s'; cbn [recs set_kmap set_recs set_ctors]; rewrite app_length; cbn; unfold n; lia).
  assert (CC : forall k', ctor_count s' k' = if Nat.eqb k' k then c else ctor_count s k').
  { intros k'. unfold ctor_count, s'. cbn [ctors set_kmap set_recs set_ctors]. destruct (Nat.eqb_spec k' k) as [->|Hne].
    - now rewrite lookup_insert_same. - now rewrite lookup_insert_other. }
  split; [|split; [|split]].
  - split.
    + intros k' r Hk. cbn [kmap s' set_kmap] in Hk. rewrite L. destruct (Nat.eq_dec k' k) as [->|Hne].
      * rewrite lookup_insert_same in Hk. inversion Hk; subst r. split; [lia|]. now rewrite Gn.
      * rewrite lookup_insert_other in Hk by exact Hne. destruct (W1 k' r Hk) as [A B]. split; [unfold n; lia|]. now rewrite G.
    + intros i x Hx. rewrite L. specialize (W2 i x Hx). unfold n. lia.
  - intros r Hr. rewrite L in Hr. destruct (Nat.eq_dec r n) as [->|Hne].
    + rewrite Gn. cbn [rkey rdata R]. exists c. rewrite CC, Nat.eqb_refl. repeat split; unfold c; lia.
    + assert (Hr' : r < n) by lia. rewrite G by exact Hr'. destruct (H1 r Hr') as (c0 & C1 & C2 & C3). exists c0.
      rewrite CC. destruct (Nat.eqb_spec (rkey (getr s r)) k) as [E|E]; repeat split; auto. rewrite E in C2. unfold c. lia.
  - intros r1 r2 Hr1 Hr2. rewrite L in Hr1, Hr2.
    assert (Old : forall r, r < n -> rkey (getr s r) = k -> rdata (getr s r) <> d).
    { intros r Hr Ek Ed. destruct (H1 r Hr) as (c0 & C1 & C2 & C3). rewrite Ek in C2, C3. unfold d, c in Ed. rewrite C3 in Ed. lia. }
    destruct (Nat.eq_dec r1 n) as [->|N1]; destruct (Nat.eq_dec r2 n) as [->|N2]; [reflexivity | | |].
    + rewrite Gn, G by lia. cbn [rkey rdata R]. intros Ek Ed. exfalso. apply (Old r2); [lia | congruence | congruence].
    + rewrite Gn, G by lia. cbn [rkey rdata R]. intros Ek Ed. exfalso. apply (Old r1); [lia | congruence | congruence].
    + rewrite !G by lia. apply H2; unfold n in *; lia.
  - intros i x Hx. change (insts s') with (insts s) in Hx. rewrite G by (apply (W2 i x Hx)). eapply H4; eauto.
Qed.

Lemma PI_kmap_delete s k : PI s (set_kmap s (delete (kmap s) k)).
Proof.
  intros ((W1 & W2) & H1 & H2 & H4). split; [|split; [|split]]; try assumption.
  split; [|exact W2]. intros k' r Hk. cbn [kmap set_kmap] in Hk. apply lookup_delete_some in Hk as [_ Hk]. exact (W1 k' r Hk).
Qed.
Lemma PI_ext s s' : kmap s' = kmap s -> recs s' = recs s -> insts s' = insts s -> ctors s' = ctors s -> PI s s'.
Proof. intros E1 E2 E3 E4. unfold PI, ID, Wf, D1, D2, D4, getr, ctor_count. rewrite E1, E2, E3, E4. auto. Qed.
Ltac piext := apply PI_ext; reflexivity.

Theorem PI_ordinary s e : ordinary e = true -> PI s (step repaired s e).
Proof.
  apply (W_step PI PI_refl PI_trans PI_cancel_inst PI_stop_timer (fun s k r w f H _ => PI_start s k r (kctx s) w f H)).
  - intros s0 k _. eapply PI_trans; [apply PI_new_record | piext].
  - intros; apply PI_new_record.
  - intros s0 r y (K & L & D & _). apply PI_setr. repeat split; auto.
  - intros s0 r y o a b ->. apply PI_setr. repeat split.
  - intros s0 i x p H. apply (PI_seti s0 i x _ H). repeat split; auto.
  - intros s0 i x o H. apply (PI_seti s0 i x _ H). repeat split; auto.
  - intros; piext. - intros; piext.
  - intros; apply PI_kmap_delete.
  - intros; piext. - intros; piext. - intros; piext.
  - intros s0. unfold norm_ctx. destruct (root_canc s0 (kctx s0)); [piext | apply PI_refl].
Qed.
Lemma PI_set_context s c restart : PI s (set_context s c restart).
Proof.
  apply (W_set_context PI PI_refl PI_trans PI_cancel_inst).
  - intros s0 r y (K & L & D & _). apply PI_setr. repeat split; auto.
  - intros; eapply PI_start; eauto.
  - intros; piext.
Qed.
Lemma PI_cancel_root s c : PI s (cancel_root s c).
Proof.
  unfold cancel_root. destruct (Nat.eqb c 0) eqn:E; [apply PI_refl|].
  apply PI_frame; try reflexivity.
  - pose proof (Mono_cancel_root s c) as M. unfold cancel_root in M. now rewrite E in M.
  - cbn [insts set_croots set_insts]. apply map_length.
Qed.
Theorem PI_step s e : PI s (step repaired s e).
Proof.
  destruct (ordinary e) eqn:O; [now apply PI_ordinary|].
  destruct e; try discriminate O; cbn [step]; [apply PI_set_context | unfold advance; piext | apply PI_cancel_root | piext].
Qed.
Lemma ID_init dl sc : ID (init dl sc).
Proof.
  split; [split|split; [|split]].
  - intros k r H. discriminate. - intros [|i] x H; discriminate.
  - intros r H. cbn in H. lia. - intros r1 r2 H. cbn in H. lia. - intros [|i] x H; discriminate.
Qed.
Theorem run_ID dl sc es : ID (run repaired (init dl sc) es).
Proof. unfold run. apply fold_inv; [intros s e H; now apply (PI_step s e) | apply ID_init]. Qed.
