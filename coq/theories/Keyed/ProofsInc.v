(* keyed: the monitors' incarnations (Spec.assign_incs: a record seen for the first time continues the incarnation of
   its key's previous record if the key was in the previous observation) name the model's lineages: records of one
   incarnation have one lineage.  Clauses 7/1 and 7/3 follow from the chain invariant. *)
From Util Require Import Common.Base Common.ListLemmas Keyed.Model Keyed.Spec Keyed.Proofs Keyed.ProofsC07 Keyed.AbsSpec Keyed.ProofsC06
  Keyed.ProofsWalk Keyed.ProofsMono Keyed.ProofsData Keyed.ProofsKeys Keyed.ProofsMon Keyed.ProofsMon2.
Open Scope nat_scope.

(* ------------------------------------------------------------------ *)
(* association lists over N *)
Lemma alook_aset_same {A} (l : list (N * A)) k v : alook (aset l k v) k = Some v.
Proof.
  induction l as [|[k' v'] t IH]; cbn [aset alook]; [now rewrite N.eqb_refl|].
  destruct (N.eqb_spec k' k) as [->|Hn]; [cbn [alook]; now rewrite N.eqb_refl|].
  destruct (N.ltb k k'); cbn [alook]; [now rewrite N.eqb_refl|].
  destruct (N.eqb_spec k' k); [contradiction | exact IH].
Qed.
Lemma alook_aset_other {A} (l : list (N * A)) k v k2 : k2 <> k -> alook (aset l k v) k2 = alook l k2.
Proof.
  intros Hne. induction l as [|[k' v'] t IH]; cbn [aset alook].
  - destruct (N.eqb_spec k k2); [congruence | reflexivity].
  - destruct (N.eqb_spec k' k) as [->|Hn].
    + cbn [alook]. destruct (N.eqb_spec k k2); [congruence | reflexivity].
    + destruct (N.ltb k k'); cbn [alook].
      * destruct (N.eqb_spec k k2); [congruence | reflexivity].
      * destruct (N.eqb_spec k' k2); [reflexivity | exact IH].
Qed.
Lemma ahas_alook {A} (l : list (N * A)) k : ahas l k = true <-> exists v, alook l k = Some v.
Proof. unfold ahas. destruct (alook l k); split; intros H; eauto; try discriminate. destruct H; discriminate. Qed.
Lemma ahas_false {A} (l : list (N * A)) k : ahas l k = false <-> alook l k = None.
Proof. unfold ahas. destruct (alook l k); split; intros H; auto; discriminate. Qed.

(* the pairing is injective *)
Lemma pk_inj k d k' d' : pk k d = pk k' d' -> k = k' /\ d = d'.
Proof.
  unfold pk. intros H.
  assert (S : (k + d = k' + d')%N).
  { destruct (N.lt_trichotomy (k + d) (k' + d')) as [L|[E|L]]; [|exact E|]; exfalso; nia. }
  assert (K : k = k') by nia. split; [exact K | lia].
Qed.

(* the observed keys, as the monitors see them *)
Definition okeys (s : st) : list (N * N) := map (fun kd => (N.of_nat (fst kd), snd kd)) (keys_with_data s).
Lemma okeys_alt s : okeys s = map (fun kr => (N.of_nat (fst kr), rdata (getr s (snd kr)))) (kmap s).
Proof. unfold okeys, keys_with_data. rewrite map_map. reflexivity. Qed.
Lemma alook_map_kmap {A B} (f : A -> B) (m : list (nat * A)) k :
  alook (map (fun kr => (N.of_nat (fst kr), f (snd kr))) m) k = option_map f (lookup m (n2n k)).
Proof.
  induction m as [|[k' v] t IH]; cbn [map alook lookup fst snd]; [reflexivity|].
  rewrite eqb_of_nat. destruct (Nat.eqb k' (n2n k)); [reflexivity | exact IH].
Qed.
Lemma alook_okeys s k : alook (okeys s) k = option_map (fun r => rdata (getr s r)) (lookup (kmap s) (n2n k)).
Proof. rewrite okeys_alt. apply (alook_map_kmap (fun r => rdata (getr s r))). Qed.
Lemma po_keys_okeys rets s lg : po_keys (pobs_of rets s lg) = okeys s. Proof. reflexivity. Qed.

(* the name of a record *)
Definition pkr (s : st) (r : nat) : N := pk (N.of_nat (rkey (getr s r))) (rdata (getr s r)).
Lemma pkr_inj s r1 r2 : ID s -> r1 < length (recs s) -> r2 < length (recs s) -> pkr s r1 = pkr s r2 -> r1 = r2.
Proof.
  intros (_ & _ & H2 & _) L1 L2 E. apply pk_inj in E as [E1 E2]. apply Nnat.Nat2N.inj in E1. now apply H2.
Qed.
Lemma pkr_mono s s' r : Mono s s' -> r < length (recs s) -> pkr s' r = pkr s r.
Proof. intros M L. destruct (mo_recs _ _ M r L) as (_ & K & _ & D). unfold pkr. now rewrite K, D. Qed.

(* ------------------------------------------------------------------ *)
(* one codec-level step, as far as key map, records and new instances go *)
Lemma Reach_ID s : Reach s -> ID s. Proof. intros (dl & sc & es & ->). apply run_ID. Qed.
Lemma Reach_KS s : Reach s -> KS s. Proof. intros (dl & sc & es & ->). apply run_KS. Qed.

Record StepK (s s' : st) : Prop := {
  sk_mono : Mono s s';
  sk_lin : forall k rec rec', lookup (kmap s) k = Some rec -> lookup (kmap s') k = Some rec' -> rlin (getr s' rec') = rlin (getr s rec);
  sk_spawn : forall i x, length (insts s) <= i -> nth_error (insts s') i = Some x -> lookup (kmap s') (ikey x) = Some (irec x);
  sk_old : forall k rec', lookup (kmap s') k = Some rec' -> rec' < length (recs s) -> lookup (kmap s) k = Some rec';
}.

Lemma next_StepK h ev : Reach (hs h) -> StepK (hs h) (next h ev).
Proof.
  intros HR. pose proof (Reach_ID _ HR) as HI. pose proof (Reach_KS _ HR) as HK.
  destruct (step_OpL (hs h) ev HK) as (T & O).
  assert (O' : OpL T (hs h) (next h ev)).
  { unfold next. rewrite settle_run.
    change (run repaired (step repaired (hs h) ev) (EAdvance 0 :: wakes (length (insts (step repaired (hs h) ev)))))
      with (run repaired (advance (step repaired (hs h) ev) 0) (wakes (length (insts (step repaired (hs h) ev))))).
    set (S := step repaired (hs h) ev) in *.
    assert (O1 : OpL T (hs h) (advance S 0)).
    { apply (OpL_post T (hs h) S (advance S 0) O); [|reflexivity]. unfold advance. split; [piext | split; [apply Mono_advance | reflexivity]]. }
    destruct (Pre_wakes (advance S 0) (length (insts S))) as [PW KW].
    exact (OpL_post T (hs h) (advance S 0) _ O1 PW KW). }
  constructor.
  - apply O'.
  - apply (l_lin _ _ _ O' HI).
  - intros i x Hi Hx. apply (l_spawn _ _ _ O' HI i x Hi Hx).
  - intros k rec' Hk Hlt.
    assert (HR' : Reach (next h ev)) by (now apply Reach_settle, Reach_step).
    destruct (Reach_ID _ HR') as ((W1' & _) & _). destruct (W1' k rec' Hk) as [_ K'].
    destruct (mo_recs _ _ (l_mono _ _ _ O') rec' Hlt) as (_ & K & _).
    destruct (lookup (kmap (hs h)) k) as [r0|] eqn:E0.
    + destruct (Nat.eq_dec r0 rec') as [->|Hne]; [reflexivity|]. exfalso.
      (* rec' is a record of key k that is not registered: it stays unregistered *)
      assert (Hd : Dead rec' (length (insts (hs h))) (hs h)).
      { split; [exact Hlt|]. split; [rewrite <- K, K', E0; congruence|]. intros i x Hi Hx. apply nth_error_nth_len in Hx. lia. }
      assert (E : next h ev = run repaired (hs h) (ev :: EAdvance 0 :: wakes (length (insts (step repaired (hs h) ev))))) by (unfold next; rewrite settle_run; reflexivity).
      pose proof (run_Dead (hs h) (ev :: EAdvance 0 :: wakes (length (insts (step repaired (hs h) ev)))) rec' _ (Reach_W _ HR) Hd) as (_ & B & _).
      rewrite <- E in B. apply B. now rewrite K'.
    + exfalso.
      assert (Hd : Dead rec' (length (insts (hs h))) (hs h)).
      { split; [exact Hlt|]. split; [rewrite <- K, K', E0; discriminate|]. intros i x Hi Hx. apply nth_error_nth_len in Hx. lia. }
      assert (E : next h ev = run repaired (hs h) (ev :: EAdvance 0 :: wakes (length (insts (step repaired (hs h) ev))))) by (unfold next; rewrite settle_run; reflexivity).
      pose proof (run_Dead (hs h) (ev :: EAdvance 0 :: wakes (length (insts (step repaired (hs h) ev)))) rec' _ (Reach_W _ HR) Hd) as (_ & B & _).
      rewrite <- E in B. apply B. now rewrite K'.
Qed.

(* ------------------------------------------------------------------ *)
(* incarnations name lineages *)
Record RInc (m : mst) (s : st) (phi : nat -> nat) : Prop := {
  j_reg : forall k rec, lookup (kmap s) k = Some rec -> exists i, alook (m_incs m) (pkr s rec) = Some i /\ phi i = rlin (getr s rec);
  j_inst : forall j x, nth_error (insts s) j = Some x ->
             exists i, alook (m_incs m) (pk (N.of_nat (ikey x)) (idata x)) = Some i /\ phi i = ilin x /\ nth_error (m_sinc m) j = Some (Some i);
  j_ent : forall key i, alook (m_incs m) key = Some i -> i < m_ninc m /\ exists r, r < length (recs s) /\ key = pkr s r /\ phi i = rlin (getr s r);
  j_okeys : m_okeys m = okeys s;
  j_len : length (m_sinc m) = length (insts s);
}.

Section Fold.
  Variables s s' : st.
  Hypothesis HK : StepK s s'.
  Hypothesis HI : ID s.
  Hypothesis HI' : ID s'.

  Definition FI (incs : list (N * nat)) (n : nat) (phi : nat -> nat) : Prop :=
    forall key i, alook incs key = Some i -> i < n /\ exists r, r < length (recs s') /\ key = pkr s' r /\ phi i = rlin (getr s' r).
  Definition Ext (a b : list (N * nat) * nat * (nat -> nat)) : Prop :=
    (forall key v, alook (fst (fst a)) key = Some v -> alook (fst (fst b)) key = Some v) /\
    (forall i, i < snd (fst a) -> snd b i = snd a i) /\ snd (fst a) <= snd (fst b).
  Lemma Ext_refl a : Ext a a. Proof. repeat split; auto. Qed.
  Lemma Ext_trans a b c : Ext a b -> Ext b c -> Ext a c.
  Proof. intros (A1 & A2 & A3) (B1 & B2 & B3). repeat split; auto; [|lia]. intros i Hi. rewrite B2 by lia. now apply A2. Qed.

  Lemma pkr_reg k rec : lookup (kmap s') k = Some rec -> pkr s' rec = pk (N.of_nat k) (rdata (getr s' rec)).
  Proof. intros E. destruct HI' as ((W1 & _) & _). destruct (W1 k rec E) as [_ K]. unfold pkr. now rewrite K. Qed.

  Lemma assign_step incs n phi k rec :
    FI incs n phi -> lookup (kmap s') k = Some rec ->
    exists phi', FI (fst (assign_incs (okeys s) (incs, n) (N.of_nat k, rdata (getr s' rec)))) (snd (assign_incs (okeys s) (incs, n) (N.of_nat k, rdata (getr s' rec)))) phi' /\
      Ext (incs, n, phi) (assign_incs (okeys s) (incs, n) (N.of_nat k, rdata (getr s' rec)), phi') /\
      exists i, alook (fst (assign_incs (okeys s) (incs, n) (N.of_nat k, rdata (getr s' rec)))) (pkr s' rec) = Some i /\ phi' i = rlin (getr s' rec).
  Proof.
    intros HF Hk. pose proof (pkr_reg k rec Hk) as EP. unfold assign_incs. rewrite <- EP.
    destruct HI' as ((W1' & _) & _). destruct (W1' k rec Hk) as [Lrec Krec].
    destruct (ahas incs (pkr s' rec)) eqn:Eh.
    - (* seen before *)
      exists phi. cbn [fst snd]. split; [exact HF|]. split; [apply Ext_refl|].
      apply ahas_alook in Eh as [i Ei]. exists i. split; [exact Ei|].
      destruct (HF _ _ Ei) as (_ & r & Lr & Er & Ep). apply (pkr_inj s' rec r HI' Lrec Lr) in Er. now subst r.
    - apply ahas_false in Eh.
      (* a new name: the fresh incarnation, or the one of the key's previous record *)
      assert (NEW : exists phi', FI (aset incs (pkr s' rec) n) (S n) phi' /\ Ext (incs, n, phi) (aset incs (pkr s' rec) n, S n, phi') /\
                          exists i, alook (aset incs (pkr s' rec) n) (pkr s' rec) = Some i /\ phi' i = rlin (getr s' rec)).
      { exists (fun i => if Nat.eqb i n then rlin (getr s' rec) else phi i). split; [|split].
        - intros key i Hi. destruct (N.eq_dec key (pkr s' rec)) as [->|Hne].
          + rewrite alook_aset_same in Hi. inversion Hi; subst i. split; [lia|]. exists rec. rewrite Nat.eqb_refl. auto.
          + rewrite alook_aset_other in Hi by exact Hne. destruct (HF _ _ Hi) as (Li & r & Lr & Er & Ep). split; [lia|].
            exists r. destruct (Nat.eqb_spec i n); [lia | auto].
        - repeat split; cbn [fst snd]; [| |lia].
          + intros key v Hv. rewrite alook_aset_other; [exact Hv|]. intros ->. congruence.
          + intros i Hi. destruct (Nat.eqb_spec i n); [lia | reflexivity].
        - exists n. split; [apply alook_aset_same | now rewrite Nat.eqb_refl]. }
      destruct (alook (okeys s) (N.of_nat k)) as [d0|] eqn:Ep0; [|destruct NEW as (phi' & A & B & C); exists phi'; cbn [fst snd]; auto].
      destruct (alook incs (pk (N.of_nat k) d0)) as [i0|] eqn:Ei0; [|destruct NEW as (phi' & A & B & C); exists phi'; cbn [fst snd]; auto].
      (* the incarnation of the key's previous record *)
      cbn [fst snd]. exists phi.
      rewrite alook_okeys, n2n_of_nat in Ep0. destruct (lookup (kmap s) k) as [rec0|] eqn:E0; [|discriminate]. cbn [option_map] in Ep0. inversion Ep0; subst d0.
      destruct HI as ((W1 & _) & _). destruct (W1 k rec0 E0) as [L0 K0].
      assert (P0 : pk (N.of_nat k) (rdata (getr s rec0)) = pkr s' rec0).
      { rewrite (pkr_mono s s' rec0 (sk_mono _ _ HK) L0). unfold pkr. now rewrite K0. }
      rewrite P0 in Ei0. destruct (HF _ _ Ei0) as (Li & r & Lr & Er & Ep).
      assert (L0' : rec0 < length (recs s')) by (apply (mo_recs _ _ (sk_mono _ _ HK) rec0 L0)).
      apply (pkr_inj s' rec0 r HI' L0' Lr) in Er. subst r.
      assert (Elin : phi i0 = rlin (getr s' rec)).
      { rewrite Ep. rewrite (sk_lin _ _ HK k rec0 rec E0 Hk). destruct (mo_recs _ _ (sk_mono _ _ HK) rec0 L0) as (_ & _ & L & _). exact L. }
      split; [|split].
      + intros key i Hi. destruct (N.eq_dec key (pkr s' rec)) as [->|Hne].
        * rewrite alook_aset_same in Hi. inversion Hi; subst i. split; [exact Li|]. exists rec. auto.
        * rewrite alook_aset_other in Hi by exact Hne. exact (HF _ _ Hi).
      + repeat split; cbn [fst snd]; auto. intros key v Hv. rewrite alook_aset_other; [exact Hv|]. intros ->. congruence.
      + exists i0. split; [apply alook_aset_same | exact Elin].
  Qed.

  Definition gk (kr : nat * nat) : N * N := (N.of_nat (fst kr), rdata (getr s' (snd kr))).
  Lemma assign_fold : forall l incs n phi,
    FI incs n phi -> (forall k rec, In (k, rec) l -> lookup (kmap s') k = Some rec) ->
    exists phi', FI (fst (fold_left (assign_incs (okeys s)) (map gk l) (incs, n))) (snd (fold_left (assign_incs (okeys s)) (map gk l) (incs, n))) phi' /\
      Ext (incs, n, phi) (fold_left (assign_incs (okeys s)) (map gk l) (incs, n), phi') /\
      forall k rec, In (k, rec) l -> exists i, alook (fst (fold_left (assign_incs (okeys s)) (map gk l) (incs, n))) (pkr s' rec) = Some i /\ phi' i = rlin (getr s' rec).
  Proof.
    induction l as [|[k rec] l IH]; intros incs n phi HF Hl; cbn [map fold_left].
    - exists phi. split; [exact HF|]. split; [apply Ext_refl|]. intros k rec [].
    - destruct (assign_step incs n phi k rec HF (Hl k rec (or_introl eq_refl))) as (phi1 & F1 & E1 & (i1 & A1 & B1)).
      change (gk (k, rec)) with (N.of_nat k, rdata (getr s' rec)).
      destruct (assign_incs (okeys s) (incs, n) (N.of_nat k, rdata (getr s' rec))) as [incs1 n1] eqn:Ea. cbn [fst snd] in *.
      destruct (IH incs1 n1 phi1 F1 (fun k0 r0 H => Hl k0 r0 (or_intror H))) as (phi2 & F2 & E2 & H2).
      exists phi2. split; [exact F2|]. split; [eapply Ext_trans; eauto|].
      intros k0 r0 [E|Hin]; [|exact (H2 k0 r0 Hin)]. inversion E; subst k0 r0. destruct E2 as (X1 & X2 & X3). cbn [fst snd] in *.
      exists i1. split; [now apply X1|]. destruct (F1 _ _ A1) as [Lt _]. rewrite X2; [exact B1 | exact Lt].
  Qed.
End Fold.

Lemma lookup_In {A} (m : list (nat * A)) k v : lookup m k = Some v -> In (k, v) m.
Proof.
  induction m as [|[k' v'] t IH]; cbn [lookup]; [discriminate|].
  destruct (Nat.eqb_spec k' k) as [->|Hne]; [intros E; inversion E; now left | intros E; right; auto].
Qed.
Lemma In_lookup_sorted {A} (m : list (nat * A)) k v : ssorted (map fst m) -> In (k, v) m -> lookup m k = Some v.
Proof.
  induction m as [|[k' v'] t IH]; intros Hs Hin; [destruct Hin|]. cbn [map fst ssorted] in Hs. destruct Hs as [Hh Ht]. cbn [lookup].
  destruct Hin as [E|Hin]; [inversion E; subst; now rewrite Nat.eqb_refl|].
  destruct (Nat.eqb_spec k' k) as [->|Hne]; [|now apply IH].
  exfalso. rewrite Forall_forall in Hh. assert (X : In k (map fst t)) by (apply in_map_iff; exists (k, v); auto). specialize (Hh k X). lia.
Qed.
Lemma ikey_of_icode5 x : ikey_of (icode5 x) = N.of_nat (ikey x).
Proof. unfold icode5, ikey_of. destruct (ipcv x); reflexivity. Qed.
Lemma nth_error_skipn' {A} (l : list A) : forall n i, nth_error (skipn n l) i = nth_error l (n + i).
Proof. induction l as [|h t IH]; intros [|n] i; cbn [skipn nth_error Nat.add]; try reflexivity; [now destruct i | apply IH]. Qed.
Lemma nth_error_news {A B C} (F : B -> C) (g : A -> B) (l1 : list C) (l : list A) j x :
  length l1 <= j -> nth_error l j = Some x -> nth_error (l1 ++ map F (skipn (length l1) (map g l))) j = Some (F (g x)).
Proof.
  intros Hj Hx. rewrite nth_error_app2 by exact Hj. rewrite nth_error_map.
  assert (E : nth_error (skipn (length l1) (map g l)) (j - length l1) = Some (g x)).
  { rewrite nth_error_skipn'. replace (length l1 + (j - length l1)) with j by lia. now rewrite nth_error_map, Hx. }
  now rewrite E.
Qed.

Lemma RInc_step m h e ev rets phi :
  HR h -> RInc m (hs h) phi -> m_ninst m = length (insts (hs h)) ->
  exists phi', RInc (fst (mon1 m e (pobs_of rets (next h ev) (hlog h)))) (next h ev) phi'.
Proof.
  intros [HRc _] HJ Hn. set (s := hs h) in *. set (s' := next h ev).
  pose proof (next_StepK h ev HRc) as HK. fold s s' in HK.
  assert (HRc' : Reach s') by (now apply Reach_settle, Reach_step).
  pose proof (Reach_ID _ HRc) as HI. pose proof (Reach_ID _ HRc') as HI'. pose proof (Reach_KS _ HRc') as HS'.
  assert (F0 : FI s' (m_incs m) (m_ninc m) phi).
  { intros key i Hi. destruct (j_ent _ _ _ HJ key i Hi) as (Li & r & Lr & Er & Ep). split; [exact Li|]. exists r.
    destruct (mo_recs _ _ (sk_mono _ _ HK) r Lr) as (Lr' & _ & L & _). split; [exact Lr'|]. split; [now rewrite (pkr_mono s s' r (sk_mono _ _ HK) Lr)|]. congruence. }
  destruct (assign_fold s s' HK HI HI' (kmap s') (m_incs m) (m_ninc m) phi F0 (fun k rec H => In_lookup_sorted _ k rec HS' H)) as (phi' & F' & (X1 & X2 & X3) & Hall).
  assert (EI : incs_of m (pobs_of rets s' (hlog h)) = fold_left (assign_incs (okeys s)) (map (gk s') (kmap s')) (m_incs m, m_ninc m)).
  { unfold incs_of. rewrite (j_okeys _ _ _ HJ), po_keys_okeys, (okeys_alt s'). reflexivity. }
  cbn [fst snd] in X1, X2, X3.
  exists phi'. cbn [fst mon1]. constructor; cbn [m_incs m_ninc m_sinc m_okeys].
  - intros k rec Hk. rewrite EI. exact (Hall k rec (lookup_In _ _ _ Hk)).
  - intros j x Hx. rewrite EI. unfold sinc_of, news_of. rewrite EI. cbn [po_insts pobs_of po_keys].
    destruct (Nat.lt_ge_cases j (length (insts s))) as [Hlt|Hge].
    + destruct (nth_error (insts s) j) as [x0|] eqn:E0; [|apply nth_error_None in E0; lia].
      destruct (mo_insts _ _ (sk_mono _ _ HK) j x0 E0) as (x' & Hx' & (S1 & S2 & S3 & _ & S5 & _)). rewrite Hx in Hx'. inversion Hx'; subst x'.
      destruct (j_inst _ _ _ HJ j x0 E0) as (i & A & B & C). exists i. rewrite S2, S5, S3.
      destruct (j_ent _ _ _ HJ _ _ A) as [Li _].
      split; [now apply X1|]. split; [rewrite X2; [exact B | exact Li]|].
      rewrite nth_error_app1; [exact C | rewrite (j_len _ _ _ HJ); exact Hlt].
    + pose proof (sk_spawn _ _ HK j x Hge Hx) as Hreg.
      destruct (Hall _ _ (lookup_In _ _ _ Hreg)) as (i & A & B).
      destruct HI' as (_ & _ & _ & H4). destruct (H4 j x Hx) as (D1' & D2' & D3').
      assert (EP : pkr s' (irec x) = pk (N.of_nat (ikey x)) (idata x)) by (unfold pkr; now rewrite <- D1', <- D2').
      exists i. rewrite <- EP. split; [exact A|]. split; [now rewrite B, D3'|].
      rewrite Hn, <- (j_len _ _ _ HJ). rewrite (nth_error_news _ icode5 (m_sinc m) (insts s') j x); [|rewrite (j_len _ _ _ HJ); exact Hge | exact Hx].
      f_equal. unfold inc_of_key. fold (okeys s'). rewrite ikey_of_icode5, alook_okeys, n2n_of_nat, Hreg. cbn [option_map]. rewrite <- D1', <- EP. exact A.
  - rewrite EI. exact F'.
  - apply po_keys_okeys.
  - unfold sinc_of, news_of. cbn [po_insts pobs_of]. rewrite app_length, map_length, skipn_length, map_length, Hn, (j_len _ _ _ HJ).
    assert (L : length (insts s) <= length (insts s')).
    { destruct (Nat.le_gt_cases (length (insts s)) (length (insts s'))) as [L|L]; [exact L|]. exfalso.
      destruct (nth_error (insts s) (length (insts s'))) as [x0|] eqn:E0; [|apply nth_error_None in E0; lia].
      destruct (mo_insts _ _ (sk_mono _ _ HK) _ x0 E0) as (x' & Hx' & _). apply nth_error_nth_len in Hx'. lia. }
    lia.
Qed.

(* ------------------------------------------------------------------ *)
(* 7/1: at most one instance of an incarnation inside the routine function *)
Lemma nodup_map_filter {A} (P : A -> bool) (v : A -> nat) (l : list A) :
  (forall i j x y, i < j -> nth_error l i = Some x -> nth_error l j = Some y -> P x = true -> P y = true -> v x <> v y) ->
  nodup_nat (map v (filter P l)) = true.
Proof.
  induction l as [|h t IH]; intros H; [reflexivity|]. cbn [filter]. destruct (P h) eqn:Ph.
  - cbn [map nodup_nat]. apply andb_true_iff. split.
    + apply negb_true_iff. apply not_true_iff_false. intros E. apply existsb_exists in E as (w & Hw & Ew). apply Nat.eqb_eq in Ew.
      apply in_map_iff in Hw as (y & <- & Hy). apply filter_In in Hy as [Hy Py]. destruct (In_nth_error _ _ Hy) as [j Hj].
      apply (H 0 (S j) h y); auto. lia.
    + apply IH. intros i j x y Hij Hx Hy. apply (H (S i) (S j) x y); auto. lia.
  - apply IH. intros i j x y Hij Hx Hy. apply (H (S i) (S j) x y); auto. lia.
Qed.
Lemma filter_map_swap {A B} (f : A -> B) (P : B -> bool) (l : list A) : filter P (map f l) = map f (filter (fun x => P (f x)) l).
Proof. induction l as [|h t IH]; [reflexivity|]. cbn [map filter]. destruct (P (f h)); cbn [map]; now rewrite IH. Qed.
Lemma is_user5_icode5 x : is_user5 (icode5 x) = in_user x.
Proof. unfold is_user5, icode5, in_user. destruct (ipcv x); reflexivity. Qed.
Lemma inc_of_inst_user incs x : in_user x = true -> inc_of_inst incs (icode5 x) = alook incs (pk (N.of_nat (ikey x)) (idata x)).
Proof. unfold in_user, inc_of_inst, icode5. destruct (ipcv x); try discriminate. reflexivity. Qed.

Lemma c71_holds m s' phi rets lg : Reach s' -> RInc m s' phi -> m_okeys m = okeys s' ->
  nodup_nat (map (fun x => match inc_of_inst (m_incs m) x with Some i => i | None => 0 end) (filter is_user5 (po_insts (pobs_of rets s' lg)))) = true.
Proof.
  intros HR HJ _. cbn [po_insts pobs_of]. rewrite filter_map_swap, map_map. apply nodup_map_filter.
  intros i j x y Hij Hx Hy Px Py. rewrite is_user5_icode5 in Px, Py. rewrite !inc_of_inst_user by assumption.
  destruct (j_inst _ _ _ HJ i x Hx) as (a & A1 & A2 & _). destruct (j_inst _ _ _ HJ j y Hy) as (b & B1 & B2 & _). rewrite A1, B1. intros E. subst b.
  destruct (Reach_Inv _ HR) as [HI _]. destruct (HI j y Hy) as (_ & _ & H3). specialize (H3 (or_intror Py) i x Hij Hx ltac:(congruence)).
  unfold over in H3. unfold in_user in Px. destruct (ipcv x); discriminate.
Qed.

(* 7/3: a new instance belongs to a key of the set; an instance in the routine function runs a record of the incarnation
   its key had when it was spawned *)
Lemma forallb_nth {A} (f : A -> bool) (l : list A) : (forall i x, nth_error l i = Some x -> f x = true) -> forallb f l = true.
Proof. intros H. apply forallb_forall. intros x Hx. destruct (In_nth_error _ _ Hx) as [i Hi]. eauto. Qed.
Lemma nth_error_combine {A B} (l1 : list A) (l2 : list B) i a b : nth_error (combine l1 l2) i = Some (a, b) -> nth_error l1 i = Some a /\ nth_error l2 i = Some b.
Proof.
  revert l2 i. induction l1 as [|h1 t1 IH]; intros [|h2 t2] [|i] H; cbn in *; try discriminate.
  - inversion H. auto. - now apply IH.
Qed.
Lemma opt_nat_eqb_refl o : opt_nat_eqb o o = true. Proof. destruct o; cbn; [apply Nat.eqb_refl | reflexivity]. Qed.

Lemma c73_holds m h e ev rets phi phi' :
  HR h -> RInc m (hs h) phi -> m_ninst m = length (insts (hs h)) ->
  RInc (fst (mon1 m e (pobs_of rets (next h ev) (hlog h)))) (next h ev) phi' ->
  c73 m (pobs_of rets (next h ev) (hlog h)) = true.
Proof.
  intros [HRc _] HJ Hn HJ'. set (s' := next h ev) in *. pose proof (next_StepK h ev HRc) as HK. fold s' in HK.
  unfold c73. apply andb_true_iff. split.
  - unfold news_of. cbn [po_insts pobs_of po_keys]. rewrite Hn. apply forallb_nth. intros i x5 Hi.
    rewrite nth_error_skipn', nth_error_map in Hi. destruct (nth_error (insts s') (length (insts (hs h)) + i)) as [x|] eqn:Ex; [|discriminate].
    cbn [option_map] in Hi. inversion Hi; subst x5. rewrite ikey_of_icode5. fold (okeys s').
    pose proof (sk_spawn _ _ HK (length (insts (hs h)) + i) x (Nat.le_add_r _ _) Ex) as Hreg. unfold ahas. rewrite alook_okeys, n2n_of_nat, Hreg. reflexivity.
  - change (sinc_of m (pobs_of rets s' (hlog h))) with (m_sinc (fst (mon1 m e (pobs_of rets s' (hlog h))))).
    change (fst (incs_of m (pobs_of rets s' (hlog h)))) with (m_incs (fst (mon1 m e (pobs_of rets s' (hlog h))))).
    cbn [po_insts pobs_of]. apply forallb_nth. intros j [o x5] Hj. apply nth_error_combine in Hj as [H1 H2].
    rewrite nth_error_map in H2. destruct (nth_error (insts s') j) as [x|] eqn:Ex; [|discriminate]. cbn [option_map] in H2. inversion H2; subst x5.
    unfold sinc_ok. cbn [fst snd]. rewrite is_user5_icode5. destruct (in_user x) eqn:Eu; [|reflexivity]. cbn [negb orb].
    rewrite inc_of_inst_user by exact Eu. destruct (j_inst _ _ _ HJ' j x Ex) as (i & A & _ & C). rewrite H1 in C. inversion C; subst o. rewrite A. apply opt_nat_eqb_refl.
Qed.

(* 7/2: an instance inside the routine function with a live context belongs to the current record of its key, and the
   container holds a context *)
From Util Require Import Keyed.ProofsCancel Keyed.ProofsRoot.
Lemma Reach_IRC s : Reach s -> IRC s. Proof. intros (dl & sc & es & ->). apply run_IRC. Qed.

Lemma c72_holds m h e ev rets phi' :
  HR h -> DecCase h e ev rets -> RCtx (m_ctx m) (m_canc m) (hs h) ->
  RInc (fst (mon1 m e (pobs_of rets (next h ev) (hlog h)))) (next h ev) phi' ->
  c72 m e (pobs_of rets (next h ev) (hlog h)) = true.
Proof.
  intros [HRc _] Hc HX HJ'. set (s' := next h ev) in *.
  assert (HRc' : Reach s') by (now apply Reach_settle, Reach_step).
  pose proof (RCtx_step m h e ev rets Hc HX) as [HK' _]. fold s' in HK'.
  unfold c72. change (fst (incs_of m (pobs_of rets s' (hlog h)))) with (m_incs (fst (mon1 m e (pobs_of rets s' (hlog h))))).
  cbn [po_insts pobs_of po_keys]. fold (okeys s'). apply forallb_nth. intros j x5 Hj.
  rewrite nth_error_map in Hj. destruct (nth_error (insts s') j) as [x|] eqn:Ex; [|discriminate]. cbn [option_map] in Hj. inversion Hj; subst x5.
  unfold live_ok, icode5. destruct (ipcv x) eqn:Ep; try reflexivity.
  destruct (icanc x) eqn:Ec; [reflexivity|]. cbn [N.eqb negb nb nz orb].
  replace (Pos.eqb 3 3) with true by reflexivity. cbn [negb orb].
  destruct (Reach_IRC _ HRc') as [_ HRR]. destruct (HRR j x Ex Ec) as [Er Hk0].
  assert (Hz : nz (e_ctx m e) = true).
  { unfold nz. destruct (N.eqb_spec (e_ctx m e) 0) as [E0|]; [|reflexivity]. exfalso. rewrite E0 in HK'. destruct HK' as [A|[A _]]; apply Hk0; exact A. }
  rewrite Hz. cbn [andb].
  destruct (Reach_InvL _ HRc' j x Ex) as (_ & _ & _ & D). destruct (D Ec) as [Hreg _].
  destruct (Reach_ID _ HRc') as (_ & _ & _ & H4). destruct (H4 j x Ex) as (D1' & _ & _).
  unfold inc_of_key. rewrite alook_okeys, n2n_of_nat, Hreg. cbn [option_map]. rewrite <- D1'.
  destruct (j_inst _ _ _ HJ' j x Ex) as (i & A & _). rewrite A. apply Nat.eqb_refl.
Qed.
