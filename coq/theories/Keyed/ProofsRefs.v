(* keyed: clause 6/4 on the model's own observations: a reference-counted key is present while an unreleased reference
   exists.  The invariant of ProofsC06b.v (on the reference specification) extended to ResetRoutine / ResetAllRoutines,
   which keep every key; the calls that are not available on KeyedRefCount occur only while there are no references. *)
From Util Require Import Common.Base Common.ListLemmas Keyed.Model Keyed.Spec Keyed.Proofs Keyed.AbsSpec Keyed.ProofsC06 Keyed.ProofsC06b Keyed.ProofsC07
  Keyed.ProofsWalk Keyed.ProofsMon Keyed.ProofsMon2 Keyed.ProofsInc Keyed.ProofsMonAll Keyed.ProofsReset Keyed.ProofsKI.
Open Scope N_scope.

Lemma InvRefA_keys a a' :
  a_refs a' = a_refs a -> a_rels a' = a_rels a ->
  (forall k d, lookup (a_keys a) k = Some (d, None) -> exists d', lookup (a_keys a') k = Some (d', None)) -> InvRefA a -> InvRefA a'.
Proof.
  intros E1 E2 HK [H1 H2]. unfold InvRefA. rewrite E1, E2. split; [|exact H2]. intros f x Hx. destruct (H1 f x Hx) as [A B]. split; [exact A|].
  intros Hf. destruct (B Hf) as [d Hd]. eapply HK; eauto.
Qed.
Lemma InvRefA_reset a k c : InvRefA a -> InvRefA (fst (a_reset a k c)).
Proof.
  intros H. unfold a_reset. destruct (lookup (a_keys a) k) as [v|] eqn:E; [|exact H]. destruct c; [|exact H]. cbn [fst].
  revert H. apply InvRefA_keys; try reflexivity. intros k' d Hk'. cbn [a_keys].
  destruct (Nat.eq_dec k' k) as [->|Hne]; [rewrite lookup_insert_same; eauto | rewrite lookup_insert_other by exact Hne; eauto].
Qed.
Lemma InvRefA_reset_all a c : InvRefA a -> InvRefA (fst (a_reset_all a c)).
Proof.
  intros H. unfold a_reset_all.
  assert (G : forall L acc, InvRefA (fst acc) -> InvRefA (fst (fold_left (a_all_step c) L acc))).
  { induction L as [|k L IH]; intros acc Ha; cbn [fold_left]; [exact Ha|]. apply IH. destruct acc as [a0 n]. unfold a_all_step.
    pose proof (InvRefA_reset a0 k (c k) Ha) as G. destruct (a_reset a0 k (c k)) as [a1 [ex rs]]. exact G. }
  specialize (G (map fst (a_keys a)) (a, 0%nat) H). destruct (fold_left (a_all_step c) (map fst (a_keys a)) (a, 0%nat)) as [a' n]. exact G.
Qed.
Lemma InvRefA_norefs a : a_refs a = [] -> a_rels a = [] -> InvRefA a.
Proof. intros E1 E2. unfold InvRefA. rewrite E1, E2. split; [intros [|f] x Hx; discriminate | intros [|i] l Hl; discriminate]. Qed.

(* the states of one codec-level run *)
Definition NoRefs (h : hst) : Prop := hvar h = false -> refs (hs h) = [] /\ rels (hs h) = [].

Lemma refs_next_same h e ev rets : DecCase h e ev rets -> NoRefs h -> hvar h = false ->
  refs (next h ev) = [] /\ rels (next h ev) = [].
Proof.
  intros Hc HN Hv. destruct (HN Hv) as [E1 E2]. destruct (refs_next h ev) as [N1 N2]. rewrite N1, N2.
  assert (PL : forall ev0, plain ev0 = true -> refs (step repaired (hs h) ev0) = [] /\ rels (step repaired (hs h) ev0) = [])
    by (intros ev0 P; destruct (Rf_plain (hs h) ev0 P) as [A B]; split; congruence).
  destruct Hc; try (apply PL; reflexivity); try congruence.
  - destruct (Rf_set_context (hs h) (n2n c) (nz r)) as [A B]. cbn [step]. split; congruence.
  - cbn [step]. destruct (Rf_advance (hs h) d) as [A B]. split; congruence.
  - cbn [step]. destruct (Rf_cancel_root (hs h) (n2n c)) as [A B]. split; congruence.
  - cbn [step]. auto.
Qed.

Lemma InvRefA_next h e ev rets a :
  HR h -> DecCase h e ev rets -> NoRefs h -> R (hs h) a -> InvRefA a -> InvRefA (astep2 a (aev2_of (hs h) ev)).
Proof.
  intros Hh Hc HN HR HA.
  assert (HR' : R (next h ev) (astep2 a (aev2_of (hs h) ev))).
  { unfold next. apply (R_Fr0 (step repaired (hs h) ev)); [apply Fr0_settle|]. apply step_refines2; [apply Reach_Inv, Hh | exact HR]. }
  destruct (hvar h) eqn:Ev.
  - (* KeyedRefCount: the calls that are available *)
    destruct Hc; try congruence; cbn [aev2_of astep2]; try (apply InvRefA_step; [exact HA | apply rc_aev_of; reflexivity]).
    + now apply InvRefA_reset. + now apply InvRefA_reset_all.
  - destruct (refs_next_same h e ev rets Hc HN Ev) as [E1 E2]. destruct HR' as (_ & _ & _ & _ & _ & Q6 & Q7 & _).
    apply InvRefA_norefs; congruence.
Qed.
Lemma NoRefs_next h e ev rets : DecCase h e ev rets -> NoRefs h -> NoRefs {| hs := next h ev; hvar := hvar h; hlog := length (cblog (next h ev)) |}.
Proof. intros Hc HN Hv. cbn [hs hvar] in *. exact (refs_next_same h e ev rets Hc HN Hv). Qed.

(* 6/4 *)
Lemma c64_holds m h e ev rets a' :
  RRefs (ref2 m e (pobs_of rets (next h ev) (hlog h))) (next h ev) -> R (next h ev) a' -> InvRefA a' ->
  c64 m e (pobs_of rets (next h ev) (hlog h)) = true.
Proof.
  intros [E _] HR [H1 _]. unfold c64. rewrite E. apply forallb_forall. intros y Hy. apply in_map_iff in Hy as (x & <- & Hx).
  cbn [rr_rel rr_key rref_of]. destruct (frel x) eqn:Ef; [reflexivity|]. cbn [orb].
  apply In_nth_error in Hx as [f Hf]. destruct HR as (Q1 & _ & _ & _ & _ & Q6 & _). rewrite <- Q6 in Hf.
  destruct (H1 f x Hf) as [A B]. destruct (B (A Ef)) as [d Hd]. rewrite Q1 in Hd. unfold kinfo in Hd.
  rewrite po_keys_okeys. unfold ahas. rewrite alook_okeys, n2n_of_nat. destruct (lookup (kmap (next h ev)) (fkey x)); [reflexivity | discriminate].
Qed.
