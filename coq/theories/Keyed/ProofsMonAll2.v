(* keyed: the monitors on the model's own observations, second assembly: the relation between monitor state and model state
   now includes the reference key table (data, deadline of the pending removal, failed flag per key, constructor counts);
   clauses 6/1, 6/2, 6/3 join the proved set. *)
From Util Require Import Common.Base Common.ListLemmas Keyed.Model Keyed.Spec Keyed.Proofs Keyed.AbsSpec Keyed.ProofsC06 Keyed.ProofsC07 Keyed.ProofsMon
  Keyed.ProofsMon2 Keyed.ProofsInc Keyed.ProofsMonAll Keyed.ProofsTimers Keyed.ProofsRef Keyed.ProofsRefSim Keyed.ProofsKI Keyed.ProofsRefStep Keyed.ProofsC06b Keyed.ProofsReset Keyed.ProofsGone Keyed.ProofsRefs.
Open Scope N_scope.

Record Rel2 (m : mst) (h : hst) : Prop := {
  r2_rel : Rel m h;
  r2_keys : RK (m_ref m) (hs h);
  r2_abs : exists a, R (hs h) a /\ InvRefA a;
  r2_norefs : NoRefs h;
  r2_ad : AD (hs h);
  r2_tims : m_tims m = map (tcode3 (timers (hs h))) (fired_sorted (timers (hs h)));
}.

Definition proved2 (pc : nat * nat) : bool :=
  match pc with
  | (6, 1) | (6, 2) | (6, 3) | (6, 4) | (6, 5) | (6, 9) | (7, 1) | (7, 2) | (7, 3) | (7, 4) | (7, 6) | (7, 7) | (7, 9) => true
  | _ => false
  end%nat.

Lemma Rel2_init cfg h m : hinit cfg = Some h -> minit cfg = Some m -> Rel2 m h.
Proof.
  intros E1 E2. pose proof (Rel_init cfg h m E1 E2) as HR.
  unfold hinit, minit in *. destruct cfg as [|v [|dl [|hb sc]]]; try discriminate. inversion E1; inversion E2; subst. clear E1 E2.
  constructor; cbn [hs m_ref m_tims]; [exact HR | | eexists; split; [apply R_init | apply InvRefA_norefs; reflexivity] | intros _; split; reflexivity | intros [|t] x Hx; discriminate | reflexivity].
  constructor; [intros k; reflexivity | intros k; reflexivity | exact I].
Qed.

Lemma Rel2_step m h e ev rets : HR h -> Rel2 m h -> DecCase h e ev rets ->
  (forall x, In x (clauses m e (pobs_of rets (next h ev) (hlog h))) -> proved2 (fst x) = true -> snd x = true) /\
  Rel2 (fst (mon1 m e (pobs_of rets (next h ev) (hlog h)))) {| hs := next h ev; hvar := hvar h; hlog := length (cblog (next h ev)) |}.
Proof.
  intros Hh [R1 R2 [a [R3 R3']] RN R4 R5] Hc. destruct (Rel_step m h e ev rets Hh R1 Hc) as [Hcl Hrel].
  assert (HK' : RK (ref2 m e (pobs_of rets (next h ev) (hlog h))) (next h ev)) by (eapply RK_next; eauto).
  assert (HR' : R (next h ev) (astep2 a (aev2_of (hs h) ev))) by (eapply HR1; eauto).
  assert (HA' : InvRefA (astep2 a (aev2_of (hs h) ev))) by (eapply InvRefA_next; eauto).
  split.
  - intros x Hx Hk. unfold clauses in Hx. cbn [In] in Hx.
    repeat (destruct Hx as [<-|Hx]; [cbn [fst snd proved2] in *; try discriminate Hk|]); try contradiction.
    + eapply c61_holds; eauto.
    + eapply c62_holds; eauto.
    + eapply (ref1_step m h a); eauto.
    + apply (c64_holds m h e ev rets _ (rel_refs _ _ Hrel) HR' HA').
    + apply (Hcl (6%nat, 5%nat, _)); [unfold clauses; cbn [In]; auto 10 | reflexivity].
    + apply (Hcl (7%nat, 1%nat, _)); [unfold clauses; cbn [In]; auto 10 | reflexivity].
    + apply (Hcl (7%nat, 2%nat, _)); [unfold clauses; cbn [In]; auto 10 | reflexivity].
    + apply (Hcl (7%nat, 3%nat, _)); [unfold clauses; cbn [In]; auto 10 | reflexivity].
    + apply (Hcl (7%nat, 4%nat, _)); [unfold clauses; cbn [In]; auto 20 | reflexivity].
    + eapply c76_holds; eauto.
    + eapply c77_holds; eauto. apply R1.
  - constructor; cbn [hs].
    + exact Hrel.
    + exact HK'.
    + eexists. split; [exact HR' | exact HA'].
    + eapply NoRefs_next; eauto.
    + apply AD_settle.
    + reflexivity.
Qed.

Theorem model_satisfies_monitors_proved2 cfg evs :
  monitor (mon_only proved2) 0 (minit cfg) [] evs (run_obs step_opt (hinit cfg) evs) = [].
Proof. apply (msm proved2 Rel2 Rel2_init Rel2_step). Qed.
Theorem model_run_check_clean_proved2 cfg evs :
  length (run_obs step_opt (hinit cfg) evs) = length evs ->
  run_check step_opt (mon_only proved2) (hinit cfg) (minit cfg) evs (run_obs step_opt (hinit cfg) evs) = [].
Proof. intros Hl. unfold run_check. rewrite (replay_own evs _ 0%nat Hl), model_satisfies_monitors_proved2. reflexivity. Qed.
