(* C06 - keyed: the key set equals what Set/Remove/Sync/refs asked for, delays included.
   Statements only.  The reference specification is Keyed/AbsSpec.v: key |-> (data, token of the pending delayed
   removal), constructor counts, the references of KeyedRefCount; every call's return values are a function of it.
   [R s a] relates a model state to a specification state: same keys in the same order, same data, same pending
   removal per key, same references.  "Every sequence of key-set operations, every placement of re-requests relative
   to a pending delayed removal" = every list of events of the gate-level model in which the key-set calls are
   interleaved with instance steps, bookkeeping sections, clock advances and timer callbacks that run arbitrarily
   late (stale).  C06's alphabet excludes ResetRoutine / ResetAllRoutines ([c06_ev]); everything else, including
   RestartRoutine and SetContext, is covered.  No bound on keys, references, instances or timers. *)
From Util Require Import Common.Base Common.ListLemmas Keyed.Model Keyed.Proofs Keyed.AbsSpec Keyed.ProofsC06 Keyed.ProofsTm Keyed.ProofsC06b.

(* the refinement: along every history the model's key-set part is a run of the specification ... *)
Theorem c06_refines_keyset_spec : forall delay script es,
  forallb c06_ev es = true ->
  R (run repaired (init delay script) es) (arun (init delay script) a_init es).
Proof. exact run_refines. Qed.
Print Assumptions c06_refines_keyset_spec.

(* ... every single event commutes with the abstraction ... *)
Theorem c06_every_event_commutes : forall s a e,
  Inv s -> R s a -> c06_ev e = true -> R (step repaired s e) (astep a (aev_of s e)).
Proof. exact step_refines. Qed.
Print Assumptions c06_every_event_commutes.

(* ... and what the calls return (data, existed, added, removed; GetKey, GetKeys, GetKeysWithData) is what the
   specification computes from its state; in particular for every reachable state *)
Theorem c06_return_values_agree : forall delay script es,
  forallb c06_ev es = true ->
  let s := run repaired (init delay script) es in
  let a := arun (init delay script) a_init es in
  (forall k st, snd (set_key repaired s k st) = snd (a_request a k)) /\
  (forall k, snd (remove_key s k) = snd (a_remove a k (now_of s k))) /\
  (forall ks restart, snd (sync_keys repaired s ks restart) = snd (a_sync a ks (now_of s))) /\
  (forall k, snd (add_key_ref repaired s k) = snd (a_add_ref a k)) /\
  (forall k, snd (rc_remove_key s k) = snd (a_rc_remove a k (now_of s k))) /\
  (forall k, get_key s k = a_get_key a k) /\
  map fst (kmap s) = map fst (a_keys a) /\
  keys_with_data s = a_keys_with_data a.
Proof. intros dl sc es H. apply returns_agree; [apply run_inv | now apply run_refines]. Qed.
Print Assumptions c06_return_values_agree.

(* a removal request for an intact key under a release delay keeps the key and arms a removal timer due at
   clock + delay; a key whose removal is pending leaves the set only through the callback of THAT timer, which runs
   only when the clock has reached its deadline *)
Theorem c06_delayed_key_stays_until_deadline :
  (forall delay script es k r,
     let s := run repaired (init delay script) es in
     lookup (kmap s) k = Some r -> rremove (getr s r) = None -> failed (getr s r) = false -> Model.delay s <> 0%N ->
     let s' := fst (remove_key s k) in
     let t := length (timers s) in
     lookup (kmap s') k = Some r /\ rremove (getr s' r) = Some t /\
     nth_error (timers s') t = Some {| tkind := true; trec := r; tkey := k; tdead := (clock s + Model.delay s)%N; tst := TArmed |}) /\
  (forall delay script es e k r t,
     let s := run repaired (init delay script) es in
     forallb c06_ev es = true -> c06_ev e = true ->
     lookup (kmap s) k = Some r -> rremove (getr s r) = Some t -> lookup (kmap (step repaired s e)) k = None ->
     e = ETimerCb t /\ (tdead (gett s t) <= clock s)%N).
Proof.
  split.
  - intros dl sc es k r s. apply delayed_removal_arms_timer. apply run_inv.
  - exact stays_until_deadline.
Qed.
Print Assumptions c06_delayed_key_stays_until_deadline.

(* every request (SetKey, AddKeyRef, SyncKeys with the key) leaves the key present with NO removal pending, and a key
   in that condition stays so for good: through every history that contains no removal request for it (RemoveKey k,
   SyncKeys without k, a Release section, KeyedRefCount.RemoveKey k) - whatever timer callbacks run, however late *)
Theorem c06_rerequest_keeps_for_good :
  (forall s a k st, Inv s -> R s a -> kinfo (fst (set_key repaired s k st)) k = Some (fst (snd (set_key repaired s k st)), None)) /\
  (forall s a k, Inv s -> R s a -> kinfo (fst (add_key_ref repaired s k)) k = Some (fst (snd (add_key_ref repaired s k)), None)) /\
  (forall s a ks restart k, Inv s -> R s a -> In k ks -> exists d, kinfo (fst (sync_keys repaired s ks restart)) k = Some (d, None)) /\
  (forall es s a k d, Inv s -> R s a -> forallb c06_ev es = true -> forallb (fun e => negb (rm_req k e)) es = true ->
     kinfo s k = Some (d, None) -> kinfo (run repaired s es) k = Some (d, None)).
Proof.
  split; [exact set_key_clears_pending|]. split; [exact add_key_ref_clears_pending|].
  split; [exact sync_keys_clears_pending | exact keeps_for_good].
Qed.
Print Assumptions c06_rerequest_keeps_for_good.

(* a removal request for a key whose routine has failed (recorded error exit, not started since) and that has no
   removal pending removes it at once, release delay or not *)
Theorem c06_failed_key_removed_immediately : forall delay script es k r,
  let s := run repaired (init delay script) es in
  lookup (kmap s) k = Some r -> rremove (getr s r) = None -> failed (getr s r) = true ->
  lookup (kmap (fst (remove_key s k))) k = None.
Proof. intros dl sc es k r s. apply failed_removed_now. apply run_inv. Qed.
Print Assumptions c06_failed_key_removed_immediately.

(* KeyedRefCount (no direct SetKey/RemoveKey/SyncKeys): while a reference is unreleased its key is present and no
   removal of it is pending *)
Theorem c06_ref_present_while_unreleased : forall delay script es f x,
  let s := run repaired (init delay script) es in
  forallb rc_ev es = true -> nth_error (refs s) f = Some x -> frel x = false ->
  exists r, lookup (kmap s) (fkey x) = Some r /\ rremove (getr s r) = None.
Proof. exact ref_present_while_unreleased. Qed.
Print Assumptions c06_ref_present_while_unreleased.

(* releasing twice counts once: the first Release sets the flag and gets one call past the swap; a Release of a
   reference whose flag is set changes nothing; the section of a Release call runs once *)
Theorem c06_double_release_counts_once :
  (forall s f x, nth_error (refs s) f = Some x -> frel x = false ->
     exists x', nth_error (refs (release_start s f)) f = Some x' /\ frel x' = true /\
                rels (release_start s f) = rels s ++ [{| lref := f; lparked := true |}]) /\
  (forall s f x, nth_error (refs s) f = Some x -> frel x = true -> release_start s f = s) /\
  (forall s a l, nth_error (rels s) a = Some l -> lparked l = false -> release_section s a = s).
Proof.
  split; [exact release_start_sets_flag|]. split; [exact release_start_released_noop | exact release_section_ran_noop].
Qed.
Print Assumptions c06_double_release_counts_once.

(* historical: the pinned code.  D6: SyncKeys did not cancel the pending removal of a key it keeps - the key is gone
   600 ms after SyncKeys asked for it.  D19: a stale removal callback removed the key under a newer pending removal -
   the key is gone at 1000 although its removal was requested at 1000 with a delay of 1000. *)
Definition pinned_d6 : fixes := {| fx_wait := true; fx_setkey := true; fx_sync := false; fx_reset := true; fx_stale := true; fx_nilchain := true |}.
Definition d6_witness : list ev := [ESetKey 0 true; ERemoveKey 0; EAdvance 500; ESyncKeys [0] false; EAdvance 600; ETimerCb 0].
Theorem c06_pinned_d6_refuted : present (run pinned_d6 (init 1000 None) d6_witness) 0 = false.
Proof. vm_compute. reflexivity. Qed.
Definition pinned_d19 : fixes := {| fx_wait := true; fx_setkey := true; fx_sync := true; fx_reset := true; fx_stale := false; fx_nilchain := true |}.
Definition d19_witness : list ev := [ESetKey 0 true; ERemoveKey 0; EAdvance 1000; ESetKey 0 false; ERemoveKey 0; ETimerCb 0].
Theorem c06_pinned_d19_refuted :
  let s := run pinned_d19 (init 1000 None) d19_witness in present s 0 = false /\ clock s = 1000%N.
Proof. vm_compute. split; reflexivity. Qed.

(* non-vacuity: the repaired model on the same schedules, and a reference-counted history *)
Example c06_example_sync_keeps :
  let s := run repaired (init 1000 None) d6_witness in
  present s 0 = true /\ kinfo s 0 = Some (1%N, None) /\ map tst (timers s) = [TStopped].
Proof. vm_compute. repeat split; reflexivity. Qed.
Example c06_example_stale_callback_ignored :
  let s := run repaired (init 1000 None) d19_witness in
  present s 0 = true /\ kinfo s 0 = Some (1%N, Some 1) /\ map tst (timers s) = [TRan; TArmed] /\
  present (run repaired s [EAdvance 1000; ETimerCb 1]) 0 = false.
Proof. vm_compute. repeat split; reflexivity. Qed.
Example c06_example_abstract_run :
  let es := [ESetCtx 1 false; ESetKey 0 true; ESetKey 2 false; ERemoveKey 0; EAdvance 400; ESyncKeys [2; 1; 2] true; EAdvance 700; ETimerCb 0] in
  forallb c06_ev es = true /\
  a_keys (arun (init 1000 None) a_init es) = [(1, (1001%N, None)); (2, (2001%N, None))] /\
  keys_with_data (run repaired (init 1000 None) es) = [(1, 1001%N); (2, 2001%N)].
Proof. vm_compute. repeat split; reflexivity. Qed.
Example c06_example_refs :
  let s := run repaired (init 1000 None)
             [ESetCtx 1 false; EAddRef 0; EAddRef 0; ERelStart 0; ERelStart 0; ERelSect 0; ERelStart 1; EAddRef 0; ERelSect 1] in
  forallb rc_ev [ESetCtx 1 false; EAddRef 0; EAddRef 0; ERelStart 0; ERelStart 0; ERelSect 0; ERelStart 1; EAddRef 0; ERelSect 1] = true /\
  length (rels s) = 2 /\ kinfo s 0 = Some (1%N, None) /\ cnt (live_ref 0) (refs s) = 1.
Proof. vm_compute. repeat split; reflexivity. Qed.
Example c06_example_failed_removed_now :
  let s := run repaired (init 1000 None) [ESetCtx 1 false; ESetKey 1 true; EProceed 0 true; EReturn 0 (OErr 0); EBook 0] in
  failed (getr s 0) = true /\ present s 1 = true /\ present (fst (remove_key s 1)) 1 = false.
Proof. vm_compute. repeat split; reflexivity. Qed.

(* the monitors on a Release call that leaves its rc.mtx section before Keyed.RemoveKey (observation format of Spec.v;
   the model has no such step, the monitors follow it: event 12 observed with relcode 3, then event 20).  The last
   reference to key 1 is released, a new reference is taken in the window, then the late RemoveKey removes the key:
   "a reference-counted key is present while an unreleased reference exists" (6/4) and the key set (6/1) are false at
   that step.  The same calls in the order the code allows are silent. *)
From Util Require Import Keyed.Spec.
Example c06_example_monitor_flags_late_removekey :
  let evs := [[10;1]; [11;0]; [12;0]; [10;1]; [20;0]]%N in
  let obss := [[1001;0; 1;1;1001; 0; 0; 0; 0];
               [1;1;1001; 0; 0; 0; 1;1];
               [1;1;1001; 0; 0; 0; 1;3];
               [1001;1; 1;1;1001; 0; 0; 0; 1;3];
               [0; 0; 0; 0; 1;2]]%N in
  let is6 (c i : nat) (x : issue) := match x with PropFalse 6%nat c' i' => Nat.eqb c c' && Nat.eqb i i' | _ => false end in
  let r := run_check_keyed0 [1;0;0]%N evs obss in
  existsb (is6 1%nat 4%nat) r = true /\ existsb (is6 4%nat 4%nat) r = true /\
  existsb (fun x => match x with PropFalse _ _ i => Nat.ltb i 4%nat | _ => false end) r = false.
Proof. vm_compute. repeat split; reflexivity. Qed.
Example c06_example_monitor_silent_on_model_trace :
  let evs := [[10;1]; [11;0]; [12;0]; [10;1]; [5;1]; [11;1]; [10;1]; [12;1]; [19]]%N in
  length (run_obs step_opt (hinit [1;0;0]%N) evs) = 9%nat /\
  run_check_keyed0 [1;0;0]%N evs (run_obs step_opt (hinit [1;0;0]%N) evs) = [].
Proof. vm_compute. split; reflexivity. Qed.

(* ------------------------------------------------------------------ *)
(* The monitors on the MODEL's own observations, for every event list and every configuration (see Props_C07.v for the
   full account): the FULL statement - no clause set, no bound on keys, references, instances, timers, length.
   Of property 6 the monitors' clauses are: 6/1 (the key set after every event is the reference key set), 6/2 (data values),
   6/3 (every return value), 6/4 (a reference-counted key is present while an unreleased reference exists), 6/5 (the Release
   calls that got past the flag swap) and 6/9 (every observation parses).
   The reference machine's key table (data, DEADLINE of the pending removal, failed flag per key, constructor counts)
   describes the model's key map (timer TOKENS) after every codec-level step: the request-level machine simulates the
   reference specification AbsSpec.v (extended by ResetRoutine/ResetAllRoutines, ProofsReset.v) operation by operation. *)
From Util Require Import Keyed.ProofsMon Keyed.ProofsMon2 Keyed.ProofsMonAll Keyed.ProofsMonAll2 Keyed.ProofsMonAll3.
Theorem c06_model_satisfies_monitors : forall cfg evs,
  monitor mon 0 (minit cfg) [] evs (run_obs step_opt (hinit cfg) evs) = [].
Proof. exact model_satisfies_monitors. Qed.
Print Assumptions c06_model_satisfies_monitors.
(* an earlier stage of the proof: every clause except 7/5 *)
Theorem c06_model_satisfies_monitors_clauses_6_1_6_2_6_3_6_4_6_5 : forall cfg evs,
  monitor (mon_only proved2) 0 (minit cfg) [] evs (run_obs step_opt (hinit cfg) evs) = [].
Proof. exact model_satisfies_monitors_proved2. Qed.
Print Assumptions c06_model_satisfies_monitors_clauses_6_1_6_2_6_3_6_4_6_5.
Example c06_proved_clauses :
  filter proved2 [(6,1);(6,2);(6,3);(6,4);(6,5);(6,9);(7,1);(7,2);(7,3);(7,4);(7,5);(7,6);(7,7);(7,9)]%nat
  = [(6,1);(6,2);(6,3);(6,4);(6,5);(6,9);(7,1);(7,2);(7,3);(7,4);(7,6);(7,7);(7,9)]%nat.
Proof. reflexivity. Qed.
