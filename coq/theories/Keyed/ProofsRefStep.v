(* keyed: the reference key table of the monitors (Spec.m_ref: data, deadline of the pending removal, failed flag per key)
   describes the model's key map after every codec-level step, and the return values the reference machine expects are
   the ones the model's calls return: clauses 6/1, 6/2, 6/3 on the model's own observations. *)
From Util Require Import Common.Base Common.ListLemmas Keyed.Model Keyed.Spec Keyed.Proofs Keyed.AbsSpec Keyed.ProofsC06 Keyed.ProofsC06b Keyed.ProofsTm
  Keyed.ProofsC07 Keyed.ProofsWalk Keyed.ProofsMono Keyed.ProofsData Keyed.ProofsKeys Keyed.ProofsMon Keyed.ProofsMon2 Keyed.ProofsInc Keyed.ProofsMonAll
  Keyed.ProofsWalk2 Keyed.ProofsTimers Keyed.ProofsRef Keyed.ProofsReset Keyed.ProofsRefSim Keyed.ProofsKI.
Open Scope N_scope.

Definition KI (s : st) (k : nat) : option Spec.kinfo :=
  match lookup (kmap s) k with
  | Some r => Some {| ki_data := rdata (getr s r); ki_pend := option_map (fun t => tdead (gett s t)) (rremove (getr s r));
                      ki_failed := failed (getr s r) |}
  | None => None
  end.
Record RK (r : rst) (s : st) : Prop := {
  rk_keys : forall k, alook (r_keys r) k = KI s (n2n k);
  rk_ctor : forall k, ctorN r k = N.of_nat (ctor_count s (n2n k));
  rk_sorted : asorted (map fst (r_keys r));
}.
Definition Dof (s : st) (t : nat) : N := tdead (gett s t).

Lemma fl_absent s k : lookup (kmap s) k = None -> fl s k = false. Proof. unfold fl. now intros ->. Qed.
Lemma R_absent s a k : R s a -> lookup (a_keys a) k = None -> lookup (kmap s) k = None.
Proof. intros [R1 _] H. rewrite R1 in H. unfold kinfo in H. destruct (lookup (kmap s) k); [discriminate | reflexivity]. Qed.

Lemma RK_RA s a r : R s a -> RK r s -> RRefs r s -> RA (Dof s) (fl s) a r.
Proof.
  intros HR [K1 K2 K3] [F1 F2]. pose proof HR as (R1 & R2 & R3 & R4 & R5 & R6 & R7 & R8). constructor.
  - intros k. rewrite K1, R1. unfold KI, kinfo, fl. destruct (lookup (kmap s) (n2n k)); reflexivity.
  - intros k. rewrite K2. unfold actor, ctor_count. now rewrite R4.
  - exact K3. - rewrite R2. exact R3. - now rewrite R6. - now rewrite R7.
Qed.
Lemma RA_RK s a r D F : R s a -> RA D F a r ->
  (forall k d t, lookup (a_keys a) k = Some (d, Some t) -> D t = Dof s t) -> (forall k v, lookup (a_keys a) k = Some v -> F k = fl s k) -> RK r s.
Proof.
  intros HR [A1 A2 A3 A4 A5 A6] HD HF. pose proof HR as (R1 & R2 & R3 & R4 & _). constructor; [| |exact A3].
  - intros k. rewrite A1. pose proof (R1 (n2n k)) as E. unfold KI. unfold kinfo in E.
    destruct (lookup (kmap s) (n2n k)) as [rec|] eqn:Ek; rewrite E; [|reflexivity]. cbn [option_map]. unfold kin. cbn [fst snd].
    rewrite (HF _ _ E). unfold fl. rewrite Ek. f_equal. f_equal. destruct (rremove (getr s rec)) as [t|] eqn:Et; [|reflexivity]. cbn [option_map]. f_equal. apply (HD _ _ _ E).
  - intros k. rewrite A2. unfold actor, ctor_count. now rewrite R4.
Qed.

(* ------------------------------------------------------------------ *)
(* small simulations *)
Lemma RA_same_keys D F a a' r : RA D F a r -> a_keys a' = a_keys a -> a_ctors a' = a_ctors a -> a_refs a' = a_refs a -> a_rels a' = a_rels a -> RA D F a' r.
Proof. intros [A1 A2 A3 A4 A5 A6] E1 E2 E3 E4. constructor; unfold actor; rewrite ?E1, ?E2, ?E3, ?E4; auto. Qed.
Lemma RA_delete D F a r k : RA D F a r -> RA D F (set_a_keys a (delete (a_keys a) (n2n k))) (set_r_keys r (adel (r_keys r) k)).
Proof.
  intros [A1 A2 A3 A4 A5 A6]. constructor; cbn [a_keys a_ctors a_refs a_rels set_a_keys r_keys r_refs r_rels set_r_keys]; auto.
  - intros k'. destruct (N.eq_dec k' k) as [->|Hne]; [now rewrite alook_adel_same, lookup_delete_same|].
    rewrite alook_adel_other by exact Hne. rewrite lookup_delete_other; [apply A1|]. intros E. apply Hne, n2n_inj, E.
  - now apply asorted_adel.
  - rewrite keys_delete. now apply ssorted_kdel.
Qed.
Lemma sim_release_start D F a r f :
  RA D F a r ->
  RA D F (a_release_start a f)
     (match nth_error (r_refs r) f with
      | Some x => if rr_rel x then r
                  else {| r_keys := r_keys r; r_ctor := r_ctor r;
                          r_refs := set_nth (r_refs r) f {| rr_key := rr_key x; rr_rel := true; rr_cnt := rr_cnt x |};
                          r_rels := (r_rels r ++ [f])%list |}
      | None => r
      end).
Proof.
  intros H. unfold a_release_start. rewrite (ra_refs _ _ _ _ H), nth_error_map. destruct (nth_error (a_refs a) f) as [x|] eqn:Ex; cbn [option_map]; [|exact H].
  cbn [rr_rel rref_of]. destruct (frel x); [exact H|]. destruct H as [A1 A2 A3 A4 A5 A6].
  constructor; cbn [a_keys a_ctors a_refs a_rels set_a_refs set_a_rels r_keys r_ctor r_refs r_rels]; auto.
  - rewrite map_set_nth. reflexivity.
  - rewrite map_app, A6. reflexivity.
Qed.
Lemma r_step_12 dl clk ctx tims present r a :
  fst (r_step dl clk ctx tims false present r [12; a]) = r_relsect dl clk r (n2n a).
Proof.
  unfold r_relsect. cbn [r_step]. destruct (nth_error (r_rels r) (n2n a)) as [f|]; [|reflexivity]. destruct (nth_error (r_refs r) f) as [x|]; [|reflexivity].
  destruct (rr_cnt x); reflexivity.
Qed.

(* RestartRoutine / RestartAllRoutines: what they return *)
Lemma restart_routine_ret s k c :
  snd (restart_routine s k c) = match lookup (kmap s) k with Some _ => (true, has_ctx (norm_ctx s) && cond_match c k) | None => (false, false) end.
Proof.
  unfold restart_routine, restart_core. rewrite kmap_norm_ctx. destruct (lookup (kmap s) k); [|reflexivity].
  destruct (has_ctx (norm_ctx s)); cbn [negb andb]; [|reflexivity]. destruct (cond_match c k); reflexivity.
Qed.
Lemma Kx_restart_routine s k c : Kx s (fst (restart_routine s k c)).
Proof.
  apply (W_restart_routine Kx Kx_refl Kx_trans Kx_cancel_inst).
  - intros s0 k0 r w f _ _. apply Kx_start. - intros; kext. - apply Kx_norm_ctx.
Qed.
Lemma hc_Kx s s' : Kx s s' -> has_ctx (norm_ctx s') = has_ctx (norm_ctx s).
Proof.
  intros (_ & C & K). unfold norm_ctx, root_canc. rewrite C. destruct K as [E|[E1 E2]].
  - rewrite E. destruct (existsb (Nat.eqb (kctx s)) (croots s)); unfold has_ctx; cbn [kctx set_kctx]; now rewrite ?E.
  - unfold root_canc in E2. rewrite E2. rewrite E1. unfold has_ctx. destruct (existsb (Nat.eqb 0%nat) (croots s)); cbn [kctx set_kctx]; rewrite ?E1; reflexivity.
Qed.
Lemma restart_all_ret s c :
  snd (restart_all s c) = ((if has_ctx (norm_ctx s) then length (filter (cond_match c) (map fst (kmap s))) else 0)%nat, length (kmap s)).
Proof.
  unfold restart_all.
  assert (G : forall L s0 n, Kx s s0 -> kmap s0 = kmap s -> (forall k, In k L -> lookup (kmap s) k <> None) ->
     snd (fold_left (all_step restart_routine c) L (s0, n)) = (n + if has_ctx (norm_ctx s) then length (filter (cond_match c) L) else 0)%nat).
  { induction L as [|k L IH]; intros s0 n HK EK HP; cbn [fold_left filter]; [cbn [snd length]; destruct (has_ctx _); lia|].
    unfold all_step at 2. pose proof (restart_routine_ret s0 k c) as E. pose proof (Kx_restart_routine s0 k c) as K1.
    assert (EK1 : kmap (fst (restart_routine s0 k c)) = kmap s) by (destruct (Fr0_restart_routine s0 k c) as [[F _] _]; congruence).
    destruct (restart_routine s0 k c) as [s1 [ex rs]]. cbn [fst snd] in *. rewrite EK in E.
    destruct (lookup (kmap s) k) eqn:Ek; [|exfalso; apply (HP k); [now left | exact Ek]]. inversion E; subst ex rs. cbn [andb].
    rewrite (hc_Kx s s0 HK). rewrite IH; [|eapply Kx_trans; eauto | exact EK1 | intros k' Hk'; apply HP; now right].
    destruct (has_ctx (norm_ctx s)); cbn [andb]; [destruct (cond_match c k); cbn [length]; lia | lia]. }
  specialize (G (map fst (kmap s)) s 0%nat (Kx_refl s) eq_refl).
  destruct (fold_left (all_step restart_routine c) (map fst (kmap s)) (s, 0%nat)) as [s' n]. cbn [snd] in *. rewrite G; [reflexivity|].
  intros k Hk. apply lookup_In_keys in Hk as [v Hv]. congruence.
Qed.

(* ------------------------------------------------------------------ *)
Lemma rets_match_refl x y : rets_match (Some x) y x = true.
Proof. unfold rets_match. now rewrite list_eqb_refl. Qed.
Lemma pair_eta {A B} (p : A * B) : p = (fst p, snd p). Proof. now destruct p. Qed.

Lemma root_canc_nmem s c canc : croots s = map n2n canc -> root_canc s (n2n c) = nmem c canc.
Proof.
  intros E. unfold root_canc, nmem. rewrite E. clear E. induction canc as [|x t IH]; [reflexivity|]. cbn [map existsb]. now rewrite IH, eqb_n2n.
Qed.
Lemma nz_n2n c : negb (Nat.eqb (n2n c) 0) = nz c.
Proof. unfold nz. change 0%nat with (n2n 0). now rewrite eqb_n2n. Qed.
Lemma hc_cases ctx canc s : RCtx ctx canc s -> has_ctx (norm_ctx s) = nz ctx \/ (nmem ctx canc = true /\ has_ctx (norm_ctx s) = false).
Proof.
  intros [[E|[E1 E2]] C]; unfold norm_ctx.
  - rewrite E, (root_canc_nmem s ctx canc C). destruct (nmem ctx canc); [right; split; reflexivity|]. left. unfold has_ctx. rewrite E. apply nz_n2n.
  - right. rewrite (root_canc_nmem s ctx canc C) in E2. split; [exact E2|]. unfold has_ctx. destruct (root_canc s (kctx s)); cbn [kctx set_kctx]; now rewrite ?E1.
Qed.

Lemma r_step_18_snd dl clk ctx tims late pres r j : snd (r_step dl clk ctx tims late pres r [18; j]) = None.
Proof. cbn [r_step]. repeat match goal with |- context [match ?x with _ => _ end] => destruct x end; reflexivity. Qed.

Section Step.
  Variables (m : mst) (h : hst) (a : ast).
  Hypothesis Hh : HR h.
  Hypothesis Hrel : Rel m h.
  Hypothesis HK : RK (m_ref m) (hs h).
  Hypothesis HRa : R (hs h) a.
  Hypothesis HAD : AD (hs h).
  Hypothesis HT : m_tims m = map (tcode3 (timers (hs h))) (fired_sorted (timers (hs h))).

  Definition D0 (t : nat) : N := if Nat.ltb t (length (timers (hs h))) then Dof (hs h) t else clock (hs h) + delay (hs h).
  Lemma DN0 : forall t, (a_ntok a <= t)%nat -> D0 t = clock (hs h) + delay (hs h).
  Proof. intros t Ht. unfold D0. destruct HRa as (_ & _ & _ & _ & R5 & _). rewrite R5 in Ht. destruct (Nat.ltb_spec t (length (timers (hs h)))); [lia | reflexivity]. Qed.
  Lemma RA0 : RA D0 (fl (hs h)) a (m_ref m).
  Proof.
    apply (RA_ext (Dof (hs h)) D0 (fl (hs h)) (fl (hs h))); [| auto | apply RK_RA; [exact HRa | exact HK | apply Hrel]].
    intros k d t Hk. unfold D0. destruct HRa as (R1 & _ & _ & _ & _ & _ & _ & R8). rewrite R1 in Hk. unfold kinfo in Hk.
    destruct (lookup (kmap (hs h)) k) as [rec|] eqn:Ek; [|discriminate]. inversion Hk. destruct (R8 k rec t Ek H1) as [L _].
    destruct (Nat.ltb_spec t (length (timers (hs h)))); [reflexivity | lia].
  Qed.
  Lemma Fabs : forall k, lookup (a_keys a) k = None -> fl (hs h) k = false.
  Proof. intros k Hk. apply fl_absent. eapply R_absent; eauto. Qed.
  Lemma cfg_eq : m_delay m = delay (hs h) /\ m_clock m = clock (hs h).
  Proof. destruct Hrel as [(A & _ & C) _ _ _ _]. auto. Qed.
  Lemma Inv_h : Inv (hs h). Proof. apply Reach_Inv, Hh. Qed.

  Lemma ref1_step e ev rets : DecCase h e ev rets ->
    (exists F1, RA D0 F1 (astep2 a (aev2_of (hs h) ev)) (fst (ref1 m e (pobs_of rets (next h ev) (hlog h))))) /\
    c63 m e (pobs_of rets (next h ev) (hlog h)) = true.
  Proof.
    intros Hc. unfold c63, expect0_of, ref1. rewrite e_late_false. destruct cfg_eq as [Edl Eclk]. rewrite Edl, Eclk. cbn [po_rets pobs_of].
    set (pres := ahas (po_keys (pobs_of rets (next h ev) (hlog h)))).
    pose proof RA0 as H0. pose proof DN0 as DN. pose proof Inv_h as HI.
    destruct Hc; cbn [aev2_of aev_of astep2 astep].
    - (* SetContext *) cbn [r_step fst snd]. split; [eexists; exact H0 | destruct (nmem _ _); reflexivity].
    - (* SetKey *) cbn [r_step].
      destruct (sim_request D0 (fl (hs h)) a (m_ref m) k H0 (fun E => Fabs _ E)) as [G1 G2].
      destruct (set_key_refines (hs h) a (n2n k) (nz st) HI HRa) as [_ G3]. rewrite G3, <- G2.
      destruct (r_request (m_ref m) k) as [r' [d ex]]. cbn [fst snd] in *. split; [eexists; exact G1 | destruct (nmem _ _); apply rets_match_refl].
    - (* RemoveKey *) cbn [r_step].
      destruct (sim_remove D0 (fl (hs h)) (delay (hs h)) (clock (hs h)) (a_ntok a) DN a (m_ref m) k (now_of (hs h) (n2n k)) H0 (le_n _) eq_refl) as (G1 & _ & G2).
      destruct (remove_key_refines (hs h) a (n2n k) HI HRa) as [_ G3]. rewrite G3, <- G2.
      destruct (r_remove (delay (hs h)) (clock (hs h)) (m_ref m) k) as [r' ex]. cbn [fst snd] in *. split; [eexists; exact G1 | destruct (nmem _ _); apply rets_match_refl].
    - (* SyncKeys *) cbn [r_step fst snd].
      destruct (sim_sync D0 (fl (hs h)) (delay (hs h)) (clock (hs h)) (a_ntok a) (now_of (hs h)) DN (fun k => eq_refl) a (m_ref m) ks H0 (le_n _) Fabs) as (G1 & _ & G2).
      cbn zeta in G1, G2. destruct (sync_keys_refines (hs h) a (sort_nat (map n2n ks)) (nz r) HI HRa) as [_ G3]. rewrite G3, <- G2.
      split; [eexists; exact G1 | destruct (nmem _ _); apply rets_match_refl].
    - (* GetKey *) cbn [r_step fst snd]. split; [eexists; exact H0|].
      assert (E : match alook (r_keys (m_ref m)) k with Some i => [ki_data i; 1] | None => [0; 0] end =
                  [fst (get_key (hs h) (n2n k)); nb (snd (get_key (hs h) (n2n k)))]).
      { rewrite (rk_keys _ _ HK). unfold KI, get_key. destruct (lookup (kmap (hs h)) (n2n k)); reflexivity. }
      rewrite E. destruct (nmem _ _); apply rets_match_refl.
    - (* ResetRoutine *) change (r_step (delay (hs h)) (clock (hs h)) (m_ctx m) (m_tims m) false pres (m_ref m) [6; k; c]) with (r_resetk c (m_ref m) k).
      change (r_step (delay (hs h)) (clock (hs h)) 0 (m_tims m) false pres (m_ref m) [6; k; c]) with (r_resetk c (m_ref m) k).
      destruct (sim_reset D0 (fl (hs h)) a (m_ref m) k c H0) as [G1 G2].
      destruct (reset_routine_refines (hs h) a (n2n k) (n2n c) HI HRa) as [_ G3]. rewrite G3, G2.
      split; [exact G1 | destruct (nmem _ _); apply rets_match_refl].
    - (* RestartRoutine *) cbn [r_step]. rewrite (RA_ahas _ _ _ _ k H0), restart_routine_ret.
      assert (EP : is_some (lookup (a_keys a) (n2n k)) = is_some (lookup (kmap (hs h)) (n2n k))).
      { destruct HRa as (R1 & _). rewrite R1. unfold kinfo. destruct (lookup (kmap (hs h)) (n2n k)); reflexivity. }
      rewrite EP. destruct (lookup (kmap (hs h)) (n2n k)) as [rec|]; cbn [is_some fst snd nb];
        [|split; [eexists; exact H0 | destruct (nmem _ _); reflexivity]].
      split; [eexists; exact H0|]. rewrite <- cond_ok_match.
      destruct (hc_cases _ _ _ (rel_ctx _ _ Hrel)) as [E|[E1 E2]]; [rewrite E; destruct (nmem _ _); apply rets_match_refl|].
      rewrite E1, E2. unfold rets_match. cbn [nz N.eqb negb andb]. rewrite (list_eqb_refl [1; nb false]). apply orb_true_r.
    - (* ResetAllRoutines *) cbn [r_step fst snd].
      pose proof (RA_keys _ _ _ _ H0) as EK. rewrite EK.
      destruct (sim_reset_all D0 c (map fst (a_keys a)) a (m_ref m) 0%nat (fl (hs h)) H0) as [G1 G2].
      { intros k0 Hk0. apply lookup_In_keys in Hk0 as [v Hv]. congruence. }
      destruct (reset_all_refines (hs h) a (n2n c) HI HRa) as [_ G3]. rewrite G3. unfold a_reset_all.
      destruct (fold_left (a_all_step (cond_match (n2n c))) (map fst (a_keys a)) (a, 0%nat)) as [a' n]. cbn [fst snd] in *. subst n.
      split; [exact G1|]. cbn [Nat.add]. rewrite <- (map_length fst (r_keys (m_ref m))), EK, !map_length.
      destruct (nmem _ _); apply rets_match_refl.
    - (* RestartAllRoutines *) cbn [r_step fst snd]. split; [eexists; exact H0|]. rewrite restart_all_ret. cbn [fst snd].
      pose proof (RA_keys _ _ _ _ H0) as EK. destruct HRa as (_ & R2 & _).
      assert (EL : length (filter (cond_ok c) (map fst (r_keys (m_ref m)))) = length (filter (cond_match (n2n c)) (map fst (kmap (hs h))))).
      { rewrite EK, R2. generalize (map fst (kmap (hs h))). intros l. induction l as [|x l IH]; [reflexivity|]. cbn [map filter].
        rewrite cond_ok_match, n2n_of_nat. destruct (cond_match (n2n c) x); cbn [length]; now rewrite IH. }
      assert (EN : length (r_keys (m_ref m)) = length (kmap (hs h))) by (rewrite <- (map_length fst (r_keys (m_ref m))), EK, R2, !map_length; reflexivity).
      rewrite EL, EN.
      destruct (hc_cases _ _ _ (rel_ctx _ _ Hrel)) as [E|[E1 E2]]; [rewrite E; destruct (nz (m_ctx m)); cbn [N.of_nat]; destruct (nmem _ _); apply rets_match_refl|].
      rewrite E1, E2. unfold rets_match. cbn [nz N.eqb negb N.of_nat]. rewrite (list_eqb_refl [0; N.of_nat (length (kmap (hs h)))]). apply orb_true_r.
    - (* AddKeyRef *) change (r_step (delay (hs h)) (clock (hs h)) (m_ctx m) (m_tims m) false pres (m_ref m) [10; k]) with (r_addref (m_ref m) k).
      change (r_step (delay (hs h)) (clock (hs h)) 0 (m_tims m) false pres (m_ref m) [10; k]) with (r_addref (m_ref m) k).
      destruct (sim_add_ref D0 (fl (hs h)) a (m_ref m) k H0 (fun E => Fabs _ E)) as [G1 G2].
      destruct (add_key_ref_refines (hs h) a (n2n k) HI HRa) as [_ G3]. rewrite G3, G2.
      split; [eexists; exact G1 | destruct (nmem _ _); apply rets_match_refl].
    - (* Release: the flag swap *) cbn [r_step]. pose proof (sim_release_start D0 (fl (hs h)) a (m_ref m) (n2n f) H0) as G.
      destruct (nth_error (r_refs (m_ref m)) (n2n f)) as [y|]; [destruct (rr_rel y)|]; cbn [fst snd]; (split; [eexists; exact G | destruct (nmem _ _); reflexivity]).
    - (* Release: the section *) rewrite r_step_12. split.
      + eexists. apply (sim_release_section D0 (fl (hs h)) (delay (hs h)) (clock (hs h)) (a_ntok a) (now_of (hs h)) DN (fun k => eq_refl) a (m_ref m) (n2n a0) l H0 (le_n _)); [|assumption].
        destruct HRa as (_ & _ & _ & _ & _ & _ & R7 & _). now rewrite R7.
      + cbn [r_step]. repeat match goal with |- context [match ?x with _ => _ end] => destruct x end; reflexivity.
    - (* KeyedRefCount.RemoveKey *)
      change (r_step (delay (hs h)) (clock (hs h)) (m_ctx m) (m_tims m) false pres (m_ref m) [13; k])
        with (let '(r', ex) := r_rcremove (delay (hs h)) (clock (hs h)) (m_ref m) k in (r', Some [nb ex])).
      change (r_step (delay (hs h)) (clock (hs h)) 0 (m_tims m) false pres (m_ref m) [13; k])
        with (let '(r', ex) := r_rcremove (delay (hs h)) (clock (hs h)) (m_ref m) k in (r', Some [nb ex])).
      destruct (sim_rc_remove D0 (fl (hs h)) (delay (hs h)) (clock (hs h)) (a_ntok a) (now_of (hs h)) DN (fun k => eq_refl) a (m_ref m) k H0 (le_n _)) as (G1 & _ & G2).
      destruct (rc_remove_key_refines (hs h) a (n2n k) HI HRa) as [_ G3]. rewrite G3, <- G2.
      destruct (r_rcremove (delay (hs h)) (clock (hs h)) (m_ref m) k) as [r' ex]. cbn [fst snd] in *.
      split; [eexists; exact G1 | destruct (nmem _ _); apply rets_match_refl].
    - (* proceed *) cbn [r_step fst snd]. split; [eexists; exact H0 | destruct (nmem _ _); reflexivity].
    - (* return *) cbn [r_step fst snd]. split; [eexists; exact H0 | destruct (nmem _ _); reflexivity].
    - (* bookkeeping *) cbn [r_step fst snd]. split; [eexists; apply (RA_same_keys _ _ a); [exact H0 | reflexivity..] | destruct (nmem _ _); reflexivity].
    - (* advance *) cbn [r_step fst snd]. split; [eexists; exact H0 | destruct (nmem _ _); reflexivity].
    - (* a timer callback *) rewrite !r_step_18_snd. split; [|destruct (nmem _ _); reflexivity].
      assert (Pres : forall kN, pres kN = is_some (lookup (kmap (next h (ETimerCb t))) (n2n kN))).
      { intros kN. unfold pres, ahas. rewrite po_keys_okeys, alook_okeys. destruct (lookup (kmap (next h (ETimerCb t))) (n2n kN)); reflexivity. }
      assert (HR' : R (next h (ETimerCb t)) (astep a (cb_aev (hs h) t))).
      { unfold next. apply (R_Fr0 (step repaired (hs h) (ETimerCb t))); [apply Fr0_settle|]. apply (step_refines (hs h) a (ETimerCb t) HI HRa eq_refl). }
      clearbody pres.
      destruct (fired_sorted_spec (timers (hs h))) as [ND FS]. pose proof (proj1 (FS t) (nth_error_In _ _ H)) as [Lt Ft].
      destruct (nth_error (timers (hs h)) t) as [x|] eqn:Ex; [|apply nth_error_None in Ex; lia].
      assert (Ent : nth t (timers (hs h)) timer0 = x) by (now apply nth_error_nth). rewrite Ent in Ft.
      assert (Est : tst x = TFired) by (unfold is_fired in Ft; destruct (tst x); try discriminate; reflexivity).
      pose proof (Reach_J _ (hr_reach _ Hh)) as HJ. destruct (j_tk _ HJ t x Ex) as [_ Etk].
      assert (ED : forall t0 y, nth_error (timers (hs h)) t0 = Some y -> D0 t0 = tdead y).
      { intros t0 y Hy. unfold D0, Dof, gett. pose proof (nth_error_nth_len _ _ _ Hy) as L. destruct (Nat.ltb_spec t0 (length (timers (hs h)))); [|lia]. now rewrite (nth_error_nth _ _ timer0 Hy). }
      unfold cb_aev in *. rewrite Ex, Est in *. cbn [r_step]. rewrite HT, nth_error_map, H. cbn [option_map]. unfold tcode3 at 1. rewrite Ent.
      destruct (tkind x) eqn:Ek; cbn [nb nz N.eqb negb]; [|cbn [fst snd astep]; eexists; exact H0].
      rewrite <- Etk in *. set (k := tkey x) in *. rewrite (ra_keys _ _ _ _ H0), n2n_of_nat.
      cbn [astep] in *. unfold a_callback in *.
      destruct (lookup (a_keys a) k) as [[d [t'|]]|] eqn:El; cbn [option_map kin ki_pend fst snd];
        [|eexists; exact H0 | eexists; exact H0].
      destruct (Nat.eqb_spec t' t) as [->|Hne].
      + (* the key's own pending removal *)
        rewrite (ED t x Ex), N.eqb_refl.
        assert (Ec : N.leb (tdead x) (clock (hs h)) = true) by (apply N.leb_le; apply (Reach_InvClk _ (hr_reach _ Hh) t x Ex); now left).
        assert (Ep : pres (N.of_nat k) = false).
        { rewrite Pres, n2n_of_nat. destruct HR' as (Q1 & _). specialize (Q1 k). cbn [a_keys set_a_keys] in Q1. rewrite lookup_delete_same in Q1.
          unfold kinfo in Q1. destruct (lookup (kmap (next h (ETimerCb t))) k); [discriminate | reflexivity]. }
        rewrite Ec, Ep, andb_false_r. cbn [negb andb fst snd].
        exists (fl (hs h)). pose proof (RA_delete D0 (fl (hs h)) a (m_ref m) (N.of_nat k) H0) as G. rewrite n2n_of_nat in G. exact G.
      + (* another removal is pending: a stale callback *)
        match goal with |- context [if ?c then _ else _] => destruct c eqn:Ec end; [|cbn [fst snd]; eexists; exact H0].
        exfalso. apply andb_true_iff in Ec as [Ec Ec3]. apply andb_true_iff in Ec as [Ec1 Ec2]. apply N.eqb_eq in Ec1. apply N.leb_le in Ec2.
        destruct HRa as (R1 & _ & _ & _ & _ & _ & _ & R8). pose proof (R1 k) as Ek'. rewrite El in Ek'. unfold kinfo in Ek'.
        destruct (lookup (kmap (hs h)) k) as [rec'|] eqn:Eq; [|discriminate]. inversion Ek' as [[Ed Er]]. symmetry in Er.
        destruct (j_it _ HJ k rec' t' Eq Er) as (x' & Hx' & T1 & T2 & T3). rewrite (ED t' x' Hx') in Ec1, Ec2.
        assert (Ef' : tst x' = TFired).
        { destruct T3 as [T3|T3]; [|exact T3]. pose proof (HAD t' x' Hx' T3). lia. }
        assert (In' : In t' (fired_sorted (timers (hs h)))).
        { apply FS. split; [eapply nth_error_nth_len; eauto|]. rewrite (nth_error_nth _ _ timer0 Hx'). unfold is_fired. now rewrite Ef'. }
        destruct (j_tk _ HJ t' x' Hx') as [_ Etk']. destruct (j_wk _ HJ k rec' Eq) as [_ Erk].
        assert (Code : tcode3 (timers (hs h)) t' = (1, N.of_nat k, tdead x)).
        { unfold tcode3. rewrite (nth_error_nth _ _ timer0 Hx'), T2, Etk', T1, Erk, Ec1. reflexivity. }
        assert (Code0 : tcode3 (timers (hs h)) t = (1, N.of_nat k, tdead x)) by (unfold tcode3; now rewrite Ent, Ek).
        apply negb_true_iff in Ec3. apply andb_false_iff in Ec3 as [Ec3|Ec3].
        * apply Nat.leb_gt in Ec3. unfold tcount in Ec3.
          pose proof (cnt_two (fun u => let '(a0, b0, c0) := u in N.eqb a0 1 && N.eqb b0 (N.of_nat k) && N.eqb c0 (tdead x)) (tcode3 (timers (hs h)))
                              (fired_sorted (timers (hs h))) t t' ND (nth_error_In _ _ H) In' (fun E => Hne (eq_sym E))) as G.
          rewrite Code0, Code, !N.eqb_refl in G. specialize (G eq_refl eq_refl). lia.
        * rewrite Pres, n2n_of_nat in Ec3. destruct HR' as (Q1 & _). specialize (Q1 k). rewrite El in Q1. unfold kinfo in Q1.
          destruct (lookup (kmap (next h (ETimerCb t))) k); discriminate.
    - (* GetKeys *) cbn [r_step fst snd]. split; [eexists; exact H0|].
      pose proof (RA_keys _ _ _ _ H0) as EK. destruct HRa as (_ & R2 & R3 & _).
      assert (E : enc_list (map fst (r_keys (m_ref m))) = enc_keys (map fst (kmap (hs h)))).
      { symmetry. apply enc_keys_list; [apply ssorted_NoDup, R3 | apply asorted_NoDup, H0|]. intros k0. rewrite EK, R2. apply In_of_nat. }
      rewrite E. destruct (nmem _ _); apply rets_match_refl.
    - (* the owner cancels a root *) cbn [r_step fst snd]. split; [eexists; exact H0 | destruct (nmem _ _); reflexivity].
    - (* the constructor's mode *) cbn [r_step fst snd]. split; [eexists; exact H0 | destruct (nmem _ _); reflexivity].
  Qed.
End Step.

(* ------------------------------------------------------------------ *)
(* the failed flags after a step *)
Lemma nz_enc_out o : nz (enc_out o) = negb (is_nil o).
Proof. destruct o as [| |e]; try reflexivity. unfold enc_out, nz. destruct (N.eqb_spec (N.of_nat e + 2) 0); [lia | reflexivity]. Qed.
Lemma news_keys n (l : list inst) k :
  In k (map ikey_of (skipn n (map icode5 l))) <-> exists i x, (n <= i)%nat /\ nth_error l i = Some x /\ N.of_nat (ikey x) = k.
Proof.
  split.
  - intros H. apply in_map_iff in H as (c5 & <- & Hc). apply In_nth_error in Hc as [j Hj]. rewrite nth_error_skipn', nth_error_map in Hj.
    destruct (nth_error l (n + j)) as [x|] eqn:Ex; [|discriminate]. cbn [option_map] in Hj. inversion Hj; subst c5.
    exists (n + j)%nat, x. split; [lia|]. split; [exact Ex | symmetry; apply ikey_of_icode5].
  - intros (i & x & Hi & Hx & <-). apply in_map_iff. exists (icode5 x). split; [apply ikey_of_icode5|].
    apply (nth_error_In _ (i - n)). rewrite nth_error_skipn', nth_error_map. replace (n + (i - n))%nat with i by lia. now rewrite Hx.
Qed.

(* a key table that differs from another in failed flags only *)
Definition FO (l l' : list (N * Spec.kinfo)) : Prop :=
  map fst l' = map fst l /\
  forall k, match alook l k with Some i => exists b, alook l' k = Some (with_failed b i) | None => alook l' k = None end.
Lemma with_failed_id i : with_failed (ki_failed i) i = i. Proof. destruct i; reflexivity. Qed.
Lemma FO_refl l : FO l l.
Proof. split; [reflexivity|]. intros k. destruct (alook l k) as [i|]; [exists (ki_failed i); now rewrite with_failed_id | reflexivity]. Qed.
Lemma FO_trans l l1 l2 : FO l l1 -> FO l1 l2 -> FO l l2.
Proof.
  intros [A1 A2] [B1 B2]. split; [congruence|]. intros k. specialize (A2 k). specialize (B2 k). destruct (alook l k) as [i|].
  - destruct A2 as [b E]. rewrite E in B2. destruct B2 as [b' E']. exists b'. rewrite E'. reflexivity.
  - now rewrite A2 in B2.
Qed.
Lemma FO_set_failed b l k : asorted (map fst l) -> FO l (set_failed b l k).
Proof.
  intros Hs. destruct (set_failed_spec b l k Hs) as [A B]. split; [exact B|]. intros k'. rewrite A. destruct (N.eqb_spec k' k) as [->|Hne].
  - destruct (alook l k) as [i|]; [exists b; reflexivity | reflexivity].
  - destruct (alook l k') as [i|]; [exists (ki_failed i); now rewrite with_failed_id | reflexivity].
Qed.
Lemma FO_delta_failed l x : asorted (map fst l) -> FO l (delta_failed l x).
Proof.
  intros Hs. destruct x as [[k d] o]. unfold delta_failed. destruct (alook l k) as [i|]; [|apply FO_refl]. destruct (N.eqb (ki_data i) d); [now apply FO_set_failed | apply FO_refl].
Qed.
Lemma FO_fold {A} (f : list (N * Spec.kinfo) -> A -> list (N * Spec.kinfo)) :
  (forall l x, asorted (map fst l) -> FO l (f l x)) -> forall xs l, asorted (map fst l) -> FO l (fold_left f xs l).
Proof.
  intros Hf xs. induction xs as [|x xs IH]; intros l Hs; cbn [fold_left]; [apply FO_refl|].
  pose proof (Hf l x Hs) as G. eapply FO_trans; [exact G|]. apply IH. destruct G as [E _]. now rewrite E.
Qed.

Section Step2.
  Variables (m : mst) (h : hst) (a : ast).
  Hypothesis Hh : HR h.
  Hypothesis Hrel : Rel m h.
  Hypothesis HK : RK (m_ref m) (hs h).
  Hypothesis HRa : R (hs h) a.
  Hypothesis HAD : AD (hs h).
  Hypothesis HT : m_tims m = map (tcode3 (timers (hs h))) (fired_sorted (timers (hs h))).
  Variables (e : list N) (ev : ev) (rets : list N).
  Hypothesis Hc : DecCase h e ev rets.

  Let s := hs h.
  Let s' := next h ev.
  Let p := pobs_of rets s' (hlog h).
  Let a1 := astep2 a (aev2_of s ev).
  Let r1 := fst (ref1 m e p).

  Lemma HR1 : R s' a1.
  Proof. unfold s', next. apply (R_Fr0 (step repaired (hs h) ev)); [apply Fr0_settle|]. apply step_refines2; [apply Reach_Inv, Hh | exact HRa]. Qed.

  Lemma clock_next : (forall d, ev <> EAdvance d) -> clock s' = clock s.
  Proof.
    intros Hd. destruct Hrel as [RC _ _ _ _]. destruct (RCfg_step m h e ev rets p Hc RC) as (_ & _ & C). destruct RC as (_ & _ & C0).
    unfold s', s. rewrite <- C, <- C0. cbn [fst mon1 m_clock]. destruct Hc; cbn [e_clock]; try reflexivity. exfalso. now apply (Hd d).
  Qed.
  Lemma timers_len_advance d : ev = EAdvance d -> length (timers s') = length (timers s).
  Proof.
    intros ->. unfold s', next. destruct (settle_frame (step repaired (hs h) (EAdvance d))) as (_ & _ & _ & _ & _ & L & _). rewrite L.
    cbn [step]. unfold advance. cbn [timers set_timers set_clock]. apply map_length.
  Qed.

  (* the deadlines of the tokens in use *)
  Lemma D_next k d t : lookup (a_keys a1) k = Some (d, Some t) -> Dof s' t = D0 h t.
  Proof.
    intros Hk. pose proof HR1 as (Q1 & _ & _ & _ & _ & _ & _ & Q8). rewrite Q1 in Hk. unfold kinfo in Hk.
    destruct (lookup (kmap s') k) as [rec|] eqn:Ek; [|discriminate]. inversion Hk as [[Ed Er]]. destruct (Q8 k rec t Ek Er) as (L & _ & Tk).
    unfold D0, Dof. fold s. destruct (Nat.ltb_spec t (length (timers s))) as [Hl|Hl].
    - destruct (nth_error (timers s) t) as [x|] eqn:Ex; [|apply nth_error_None in Ex; lia].
      destruct (mo_timers _ _ (next_Mono h ev) t x Ex) as (x' & Hx' & (_ & _ & _ & T4)). fold s' in Hx'.
      unfold gett. now rewrite (nth_error_nth _ _ timer0 Hx'), (nth_error_nth _ _ timer0 Ex).
    - destruct (nth_error (timers s') t) as [x|] eqn:Ex; [|apply nth_error_None in Ex; lia].
      assert (Ex' : gett s' t = x) by (unfold gett; now apply nth_error_nth). rewrite Ex' in *.
      destruct (nt_new _ _ (NT_next s ev) t x Hl Ex Tk) as [Lo Up]. change (settle (step repaired s ev)) with s' in Up.
      assert (Hd : forall d0, ev <> EAdvance d0) by (intros d0 E; pose proof (timers_len_advance d0 E); lia).
      rewrite (clock_next Hd) in Up. lia.
  Qed.

  Lemma RA1 : exists F1, RA (Dof s') F1 a1 r1.
  Proof.
    destruct (ref1_step m h a Hh Hrel HK HRa HAD HT e ev rets Hc) as [[F1 G] _]. exists F1.
    apply (RA_ext (D0 h) (Dof s') F1 F1); [intros k d t Hk; apply (D_next k d t Hk) | auto | exact G].
  Qed.

  (* what the reference table says about a key after the request-level step, flags apart *)
  Lemma r1_keys k :
    match lookup (kmap s') (n2n k) with
    | Some rec => exists i, alook (r_keys r1) k = Some i /\ ki_data i = rdata (getr s' rec) /\ ki_pend i = option_map (Dof s') (rremove (getr s' rec))
    | None => alook (r_keys r1) k = None
    end.
  Proof.
    destruct RA1 as [F1 G]. pose proof (ra_keys _ _ _ _ G k) as E. pose proof HR1 as (Q1 & _). rewrite Q1 in E. unfold kinfo in E.
    destruct (lookup (kmap s') (n2n k)) as [rec|]; [|exact E]. cbn [option_map] in E. eexists. split; [exact E|]. split; reflexivity.
  Qed.

  (* ---- failed flags ---- *)
  Let keys2 := keys2_of m e p.
  Lemma ID_s : ID s. Proof. apply Reach_ID, Hh. Qed.
  Lemma Reach_s' : Reach s'. Proof. apply Reach_settle, Reach_step, Hh. Qed.
  Lemma ID_s' : ID s'. Proof. apply Reach_ID, Reach_s'. Qed.
  Lemma ninst_eq : m_ninst m = length (insts s). Proof. apply Hrel. Qed.
  Lemma hlog_eq : hlog h = length (cblog s). Proof. apply Hh. Qed.
  Lemma sorted_r1 : asorted (map fst (r_keys r1)). Proof. destruct RA1 as [F1 G]. apply G. Qed.

  Lemma flag_pre k i rec : alook (r_keys (m_ref m)) k = Some i -> lookup (kmap s) (n2n k) = Some rec ->
    ki_data i = rdata (getr s rec) /\ ki_failed i = failed (getr s rec).
  Proof. intros Hi Hk. rewrite (rk_keys _ _ HK) in Hi. unfold KI in Hi. fold s in Hi. rewrite Hk in Hi. inversion Hi. split; reflexivity. Qed.
  Lemma pre_present k i : alook (r_keys (m_ref m)) k = Some i -> exists rec, lookup (kmap s) (n2n k) = Some rec.
  Proof. intros Hi. rewrite (rk_keys _ _ HK) in Hi. unfold KI in Hi. fold s in Hi. destruct (lookup (kmap s) (n2n k)); [eauto | discriminate]. Qed.

  Lemma flags_nobook : (forall i, ev <> EBook i) ->
    forall k i2 rec, alook keys2 k = Some i2 -> lookup (kmap s') (n2n k) = Some rec -> ki_failed i2 = failed (getr s' rec).
  Proof.
    intros Hb k i2 rec H2 Hk. pose proof (P1_next_nobook s ev Hb) as HP. change (settle (step repaired s ev)) with s' in HP.
    pose proof ID_s as ((W1 & W2) & D1s & D2s & D4s). pose proof ID_s' as ((W1' & W2') & D1' & D2' & D4').
    pose proof (next_StepK h ev (hr_reach _ Hh)) as HS. fold s s' in HS.
    (* no exit was recorded *)
    assert (Ed : po_delta p = []).
    { unfold p. cbn [po_delta pobs_of]. rewrite (p_cblog _ _ HP), hlog_eq, skipn_all. reflexivity. }
    unfold keys2, keys2_of in H2. rewrite Ed in H2. cbn [fold_left] in H2. fold r1 in H2.
    destruct (set_failed_fold false (map ikey_of (news_of m p)) (r_keys r1) sorted_r1) as [A _]. rewrite A in H2. clear A.
    unfold news_of, p in H2. cbn [po_insts pobs_of] in H2. rewrite ninst_eq in H2.
    destruct (W1' _ _ Hk) as [Lr' Kr'].
    destruct (nmem k (map ikey_of (skipn (length (insts s)) (map icode5 (insts s'))))) eqn:En.
    - (* an instance was started for the key *)
      apply nmem_In, news_keys in En as (i & x & Hi & Hx & Ekx).
      assert (Ekx' : ikey x = n2n k) by (rewrite <- Ekx; now rewrite n2n_of_nat).
      pose proof (sk_spawn _ _ HS i x Hi Hx) as Hreg. rewrite Ekx', Hk in Hreg. inversion Hreg; subst rec.
      destruct (alook (r_keys r1) k) as [i1|]; [|discriminate]. cbn [option_map] in H2. inversion H2; subst i2. cbn [ki_failed with_failed].
      symmetry. apply (p_sp _ _ HP). exists i, x. auto.
    - apply nmem_false in En.
      assert (NoSp : ~ Sp s s' rec).
      { intros (i & x & Hi & Hx & Hr). apply En, news_keys. exists i, x. split; [exact Hi|]. split; [exact Hx|].
        destruct (D4' i x Hx) as (_ & Ek & _). rewrite Ek, Hr, Kr'. apply N_of_n2n. }
      pose proof (r1_keys k) as G. fold s' in G. rewrite Hk in G. destruct G as (i1 & E1 & Ed1 & _). rewrite E1 in H2. inversion H2; subst i2. clear H2.
      destruct (StepF_r_step (m_delay m) (m_clock m) (m_ctx m) (m_tims m) (e_late e p) (ahas (po_keys p)) (m_ref m) e) as [_ SF].
      change (fst (r_step (m_delay m) (m_clock m) (m_ctx m) (m_tims m) (e_late e p) (ahas (po_keys p)) (m_ref m) e)) with r1 in SF.
      destruct (SF k i1 E1) as [(i & Ei & Edi & Efi)|(Ef & c & C1 & _ & C3)].
      + (* the entry of before *)
        destruct (pre_present k i Ei) as [rec0 Hk0]. destruct (flag_pre k i rec0 Ei Hk0) as [Fd Ff].
        destruct (W1 _ _ Hk0) as [L0 K0]. destruct (mo_recs _ _ (p_mono _ _ HP) rec0 L0) as (L0' & K0' & _ & Dd0).
        assert (rec0 = rec) by (apply D2'; [exact L0' | exact Lr' | congruence | congruence]). subst rec0.
        destruct (p_old _ _ HP rec L0) as [E|S1]; [congruence | contradiction].
      + (* a fresh entry: the record is new *)
        rewrite Ef. destruct (Nat.lt_ge_cases rec (length (recs s))) as [Hl|Hl]; [|symmetry; now apply (p_new _ _ HP)]. exfalso.
        destruct (mo_recs _ _ (p_mono _ _ HP) rec Hl) as (_ & K & _ & Dd). destruct (D1s rec Hl) as (c0 & _ & C0 & Dc0).
        rewrite (rk_ctor _ _ HK) in C1. fold s in C1. rewrite <- K, Kr' in C0, Dc0. rewrite <- Dd, <- Ed1, C3, N_of_n2n in Dc0. lia.
  Qed.

  Lemma flags_book j : ev = EBook j ->
    forall k i2 rec, alook keys2 k = Some i2 -> lookup (kmap s') (n2n k) = Some rec -> ki_failed i2 = failed (getr s' rec).
  Proof.
    intros Eev k i2 rec H2 Hk. pose proof ID_s as ((W1 & W2) & D1s & D2s & D4s).
    pose proof Hc as Hc'. rewrite Eev in Hc'.
    assert (exists i x o, e = [16; i] /\ j = n2n i /\ nth_error (insts s) j = Some x /\ ipcv x = IBook o) as (i & x & o & Ee & Ej & H & H0).
    { inversion Hc'. exists i, x, o. auto. }
    assert (Er1 : r1 = m_ref m) by (unfold r1, ref1; rewrite Ee; reflexivity).
    assert (Es' : s' = settle (bookkeep s j)) by (unfold s', next; rewrite Eev; reflexivity).
    destruct (settle_frame (bookkeep s j)) as (S1 & S2 & S3 & _ & S5 & _). rewrite <- Es' in S1, S2, S3, S5.
    destruct (bookkeep_facts s j x o H H0) as (B1 & B2 & B3 & B4). cbn zeta in *.
    assert (GR : forall q, getr s' q = getr (bookkeep s j) q) by (intros q; unfold getr; now rewrite S2).
    rewrite S1, B1 in Hk. destruct (W1 _ _ Hk) as [Lr Kr].
    (* nothing was started *)
    assert (En : news_of m p = []).
    { unfold news_of, p. cbn [po_insts pobs_of]. rewrite ninst_eq, <- B2, <- S5, <- (map_length icode5). apply skipn_all. }
    unfold keys2, keys2_of in H2. rewrite En in H2. cbn [map fold_left] in H2. fold r1 in H2. rewrite Er1 in H2.
    unfold p in H2. cbn [po_delta pobs_of] in H2. rewrite hlog_eq, S3 in H2.
    destruct B4 as [(Bc & Bl & Bf & Bo)|(Bl & Bf)].
    - rewrite Bl, skipn_app, skipn_all, Nat.sub_diag in H2. cbn [skipn app map fold_left dcode3] in H2.
      destruct (delta_failed_spec (r_keys (m_ref m)) (N.of_nat (rkey (getr s (irec x)))) (rdata (getr s (irec x))) (enc_out o) (rk_sorted _ _ HK)) as [A _].
      rewrite A in H2. clear A.
      destruct (alook (r_keys (m_ref m)) k) as [i0|] eqn:E0; [|destruct (N.eqb_spec k (N.of_nat (rkey (getr s (irec x))))) as [Ek|Ek]; cbn [andb] in H2; [rewrite <- Ek, E0 in H2; discriminate | discriminate]].
      destruct (flag_pre k i0 rec E0 Hk) as [Fd Ff].
      destruct (N.eqb_spec k (N.of_nat (rkey (getr s (irec x))))) as [Ek|Ek]; cbn [andb] in H2.
      + rewrite <- Ek, E0 in H2. destruct (N.eqb_spec (ki_data i0) (rdata (getr s (irec x)))) as [Edd|Edd].
        * cbn [option_map] in H2. inversion H2; subst i2. cbn [ki_failed with_failed]. rewrite nz_enc_out.
          assert (rec = irec x).
          { apply D2s; [exact Lr | apply (W2 _ _ H) | rewrite Kr, Ek; now rewrite n2n_of_nat | congruence]. }
          subst rec. rewrite GR. symmetry. now apply Bf.
        * inversion H2; subst i2. rewrite Ff, GR. symmetry. apply Bo. intros ->. apply Edd. congruence.
      + inversion H2; subst i2. rewrite Ff, GR. symmetry. apply Bo. intros ->. apply Ek. rewrite Kr. symmetry. apply N_of_n2n.
    - rewrite Bl, skipn_all in H2. cbn [map fold_left] in H2. destruct (flag_pre k i2 rec H2 Hk) as [_ Ff]. now rewrite Ff, GR, Bf.
  Qed.

  Lemma flags_ok k i2 rec : alook keys2 k = Some i2 -> lookup (kmap s') (n2n k) = Some rec -> ki_failed i2 = failed (getr s' rec).
  Proof.
    assert (D : (exists j, ev = EBook j) \/ (forall j, ev <> EBook j)).
    { clear. destruct ev; try (right; intros j; discriminate). left. eauto. }
    destruct D as [[j Ej]|Hn]; [now apply (flags_book j) | now apply flags_nobook].
  Qed.

  Lemma FO_keys2 : FO (r_keys r1) keys2.
  Proof.
    unfold keys2, keys2_of. fold r1. eapply FO_trans.
    - apply (FO_fold delta_failed FO_delta_failed). apply sorted_r1.
    - apply (FO_fold (set_failed false) (fun l x H => FO_set_failed false l x H)).
      destruct (FO_fold delta_failed FO_delta_failed (po_delta p) (r_keys r1) sorted_r1) as [E _]. rewrite E. apply sorted_r1.
  Qed.

  Theorem RK_next : RK (ref2 m e p) s'.
  Proof.
    destruct FO_keys2 as [FK FL]. constructor; unfold ref2; fold r1 keys2; cbn [r_keys set_r_keys].
    - intros k. unfold KI. pose proof (r1_keys k) as G. fold s' in G. specialize (FL k).
      destruct (lookup (kmap s') (n2n k)) as [rec|] eqn:Ek.
      + destruct G as (i1 & E1 & Ed & Ep). rewrite E1 in FL. destruct FL as [b Eb]. pose proof (flags_ok k _ rec Eb Ek) as Ef.
        rewrite Eb. cbn [ki_failed with_failed] in Ef. unfold with_failed. now rewrite Ed, Ep, Ef.
      + rewrite G in FL. exact FL.
    - intros k. rewrite set_r_keys_ctorN. destruct RA1 as [F1 G]. rewrite (ra_ctor _ _ _ _ G). unfold actor, ctor_count.
      destruct HR1 as (_ & _ & _ & Q4 & _). now rewrite Q4.
    - rewrite FK. apply sorted_r1.
  Qed.

  Lemma keys_r1 : map fst (r_keys r1) = map N.of_nat (map fst (kmap s')).
  Proof. destruct RA1 as [F1 G]. rewrite (RA_keys _ _ _ _ G). destruct HR1 as (_ & Q2 & _). now rewrite Q2. Qed.

  Theorem c61_holds : c61 m e p = true.
  Proof.
    unfold c61, keys_eqb. fold keys2. destruct FO_keys2 as [FK _]. rewrite FK, keys_r1. unfold p. rewrite po_keys_okeys, okeys_alt, map_map. cbn [fst].
    rewrite <- map_map. apply list_eqb_refl.
  Qed.
  Theorem c62_holds : c62 m e p = true.
  Proof.
    unfold c62, data_ok. fold keys2. apply forallb_forall. intros [k d] Hin. cbn [fst snd].
    unfold p in Hin. rewrite po_keys_okeys, okeys_alt in Hin. apply in_map_iff in Hin as ([k0 rec] & E & Hin). cbn [fst snd] in E. inversion E; subst k d. clear E.
    pose proof (In_lookup_sorted _ k0 rec (Reach_KS _ Reach_s') Hin) as Hk.
    pose proof (rk_keys _ _ RK_next (N.of_nat k0)) as G. unfold ref2 in G. fold r1 keys2 in G. cbn [r_keys set_r_keys] in G.
    rewrite G. unfold KI. rewrite n2n_of_nat, Hk. cbn [ki_data]. apply N.eqb_refl.
  Qed.
End Step2.
