(* keyed, C06: the key-set part of the model refines the reference specification (AbsSpec.v). *)
From Util Require Import Common.Base Common.ListLemmas Keyed.Model Keyed.Proofs Keyed.AbsSpec.

(* ------------------------------------------------------------------ *)
(* Frame: what an operation that is not a key-set operation leaves alone. *)
Definition Fr (s s' : st) : Prop :=
  kmap s' = kmap s /\ ctors s' = ctors s /\ refs s' = refs s /\ rels s' = rels s /\ delay s' = delay s /\
  length (timers s) <= length (timers s') /\
  (forall r, rdata (getr s' r) = rdata (getr s r) /\ rremove (getr s' r) = rremove (getr s r)) /\
  (forall t, t < length (timers s) -> trec (gett s' t) = trec (gett s t) /\ tkind (gett s' t) = tkind (gett s t)).

Lemma Fr_refl s : Fr s s.
Proof. unfold Fr. repeat split; auto. Qed.
Lemma Fr_trans s s1 s2 : Fr s s1 -> Fr s1 s2 -> Fr s s2.
Proof.
  intros [A1 [A2 [A3 [A4 [A5 [A6 [A7 A8]]]]]]] [B1 [B2 [B3 [B4 [B5 [B6 [B7 B8]]]]]]].
  unfold Fr. repeat split; try congruence; try lia.
  - destruct (A7 r) as [X _]. destruct (B7 r) as [Y _]. congruence.
  - destruct (A7 r) as [_ X]. destruct (B7 r) as [_ Y]. congruence.
  - destruct (A8 t H) as [X _]. destruct (B8 t ltac:(lia)) as [Y _]. congruence.
  - destruct (A8 t H) as [_ X]. destruct (B8 t ltac:(lia)) as [_ Y]. congruence.
Qed.

Lemma Fr_ext s s' :
  kmap s' = kmap s -> ctors s' = ctors s -> refs s' = refs s -> rels s' = rels s -> delay s' = delay s ->
  timers s' = timers s -> recs s' = recs s -> Fr s s'.
Proof. intros E1 E2 E3 E4 E5 E6 E7. unfold Fr, getr, gett. rewrite E1, E2, E3, E4, E5, E6, E7. repeat split; auto. Qed.

Lemma Fr_cancel_inst s oi : Fr s (cancel_inst s oi).
Proof. destruct (cancel_inst_frame s oi) as [C1 [C2 [C3 [_ [_ [C6 [_ [_ [C9 [C10 _]]]]]]]]]]. apply Fr_ext; auto. unfold cancel_inst. destruct oi; [destruct (nth_error _ _)|]; reflexivity. Qed.

Lemma Fr_stop_timer s ot : Fr s (stop_timer s ot).
Proof.
  destruct (stop_timer_frame s ot) as [T1 [T2 [_ [_ [_ [T6 [_ [_ [T9 [T10 T11]]]]]]]]]].
  unfold Fr. split; [exact T1|]. split; [exact T9|]. split; [exact T10|].
  split; [unfold stop_timer; destruct ot; [destruct (nth_error _ _) as [x|]; [destruct (tst x)|]|]; reflexivity|].
  split; [exact T6|]. split; [lia|]. split; [intros r; unfold getr; rewrite T2; auto|].
  intros t Ht. unfold stop_timer. destruct ot as [t0|]; [|auto]. destruct (nth_error (timers s) t0) as [x|] eqn:Ex; [|auto].
  destruct (tst x); auto. unfold gett. cbn [timers set_timers].
  destruct (Nat.eq_dec t t0) as [->|Hne].
  - rewrite nth_set_nth_same by exact Ht. rewrite (nth_error_nth _ _ timer0 Ex). auto.
  - rewrite nth_set_nth_other by exact Hne. auto.
Qed.

Lemma getr_setr_field {A} (f : rec -> A) s r y q : f y = f (getr s r) -> f (getr (setr s r y) q) = f (getr s q).
Proof.
  intros H. destruct (Nat.lt_ge_cases r (length (recs s))) as [Hr|Hr].
  - destruct (Nat.eq_dec q r) as [->|Hne]; [rewrite getr_setr_same by exact Hr; exact H | now rewrite getr_setr_other].
  - now rewrite getr_setr_oob.
Qed.

Lemma Fr_setr s r y : rdata y = rdata (getr s r) -> rremove y = rremove (getr s r) -> Fr s (setr s r y).
Proof.
  intros E1 E2. unfold Fr. repeat split; try reflexivity; try lia.
  - now apply (getr_setr_field rdata).
  - now apply (getr_setr_field rremove).
Qed.

Lemma Fr_set_insts s l : Fr s (set_insts s l). Proof. apply Fr_ext; reflexivity. Qed.
Lemma Fr_seti s i x : Fr s (seti s i x). Proof. apply Fr_ext; reflexivity. Qed.
Lemma Fr_set_kctx s c : Fr s (set_kctx s c). Proof. apply Fr_ext; reflexivity. Qed.
Lemma Fr_set_cblog s l : Fr s (set_cblog s l). Proof. apply Fr_ext; reflexivity. Qed.

Lemma Fr_append_timer s x : Fr s (set_timers s (timers s ++ [x])).
Proof.
  unfold Fr. cbn [kmap ctors refs rels delay timers set_timers]. rewrite app_length. cbn [length].
  repeat split; try reflexivity; try lia; unfold gett; cbn [timers set_timers]; now rewrite app_nth1.
Qed.

Lemma Fr_start_rec s r c w f : Fr s (start_rec s r c w f) /\ length (timers (start_rec s r c w f)) = length (timers s).
Proof.
  unfold start_rec. set (x := getr s r).
  destruct (negb f && rsucc x || rnil x); [split; [apply Fr_refl | reflexivity]|].
  destruct (negb f && is_some (rctx x) && negb (rexited x) && ctx_live s (rctx x)); [split; [apply Fr_refl | reflexivity]|].
  set (s1 := stop_timer s (rretry x)). set (s2 := cancel_inst s1 (rcancel x)). cbn zeta.
  destruct (stop_timer_frame s (rretry x)) as [_ [T2 [_ [_ [_ [_ [_ [_ [_ [_ T11]]]]]]]]]]. fold s1 in T2, T11.
  destruct (cancel_inst_frame s1 (rcancel x)) as [_ [C2 [C3 _]]]. fold s2 in C2, C3.
  split.
  - eapply Fr_trans; [apply Fr_stop_timer|]. fold s1. eapply Fr_trans; [apply Fr_cancel_inst|]. fold s2.
    eapply Fr_trans; [apply (Fr_set_insts s2)|].
    assert (X : getr (set_insts s2 (insts s2 ++ [{| irec := r; ikey := rkey x; ilin := rlin x; iwait := w; ipcv := IGate0; icanc := root_canc s c;
                                                   iexit := false; idata := rdata x; iroot := c |}])) r = x).
    { unfold getr, x. cbn [recs set_insts]. now rewrite C2, T2. }
    apply Fr_setr; rewrite X; reflexivity.
  - cbn [timers setr set_recs set_insts]. now rewrite C3.
Qed.

(* ------------------------------------------------------------------ *)
(* The refinement relation. *)
Definition kinfo (s : st) (k : nat) : option aval :=
  match lookup (kmap s) k with Some r => Some (rdata (getr s r), rremove (getr s r)) | None => None end.

(* a pending removal names an existing removal timer of that very record *)
Definition InvT (s : st) : Prop :=
  forall k r t, lookup (kmap s) k = Some r -> rremove (getr s r) = Some t ->
                t < length (timers s) /\ trec (gett s t) = r /\ tkind (gett s t) = true.

Fixpoint ssorted (l : list nat) : Prop := match l with [] => True | h :: t => Forall (lt h) t /\ ssorted t end.

Definition R (s : st) (a : ast) : Prop :=
  (forall k, lookup (a_keys a) k = kinfo s k) /\ map fst (a_keys a) = map fst (kmap s) /\ ssorted (map fst (kmap s)) /\
  a_ctors a = ctors s /\ a_ntok a = length (timers s) /\ a_refs a = refs s /\ a_rels a = rels s /\ InvT s.

Lemma kinfo_Fr s s' k : Fr s s' -> kinfo s' k = kinfo s k.
Proof.
  intros [A1 [_ [_ [_ [_ [_ [A7 _]]]]]]]. unfold kinfo. rewrite A1. destruct (lookup (kmap s) k) as [r|]; [|reflexivity].
  destruct (A7 r) as [X Y]. now rewrite X, Y.
Qed.

Lemma R_frame s s' a a' :
  Fr s s' -> R s a ->
  a_keys a' = a_keys a -> a_ctors a' = a_ctors a -> a_refs a' = a_refs a -> a_rels a' = a_rels a -> a_ntok a' = length (timers s') ->
  R s' a'.
Proof.
  intros HF [R1 [R2 [R3 [R4 [R5 [R6 [R7 R8]]]]]]] E1 E2 E3 E4 E5.
  pose proof HF as [A1 [A2 [A3 [A4 [A5 [A6 [A7 A8]]]]]]].
  unfold R. rewrite E1, E2, E3, E4, A1, A2, A3, A4.
  split; [intros k; rewrite (kinfo_Fr s s' k HF); apply R1|].
  split; [exact R2|]. split; [exact R3|]. split; [exact R4|]. split; [exact E5|]. split; [exact R6|]. split; [exact R7|].
  intros k r t Hk Ht. rewrite A1 in Hk. destruct (A7 r) as [_ Y]. rewrite Y in Ht.
  destruct (R8 k r t Hk Ht) as [T1 [T2 T3]]. destruct (A8 t T1) as [U1 U2]. repeat split; try congruence; lia.
Qed.

Lemma R_frame_same s s' a : Fr s s' -> length (timers s') = length (timers s) -> R s a -> R s' a.
Proof. intros HF HL HR. apply (R_frame s s' a a HF HR); auto. destruct HR as [_ [_ [_ [_ [R5 _]]]]]. congruence. Qed.

(* ------------------------------------------------------------------ *)
(* key lists *)
Fixpoint kins (l : list nat) (k : nat) : list nat :=
  match l with
  | [] => [k]
  | h :: t => if Nat.eqb h k then k :: t else if Nat.ltb k h then k :: l else h :: kins t k
  end.
Fixpoint kdel (l : list nat) (k : nat) : list nat :=
  match l with [] => [] | h :: t => if Nat.eqb h k then kdel t k else h :: kdel t k end.

Lemma keys_insert {A} (m : list (nat * A)) k v : map fst (insert m k v) = kins (map fst m) k.
Proof.
  induction m as [|[k' v'] t IH]; cbn [insert map fst kins]; [reflexivity|].
  destruct (Nat.eqb k' k); [reflexivity|]. destruct (Nat.ltb k k'); [reflexivity|]. cbn [map fst]. now rewrite IH.
Qed.
Lemma keys_delete {A} (m : list (nat * A)) k : map fst (delete m k) = kdel (map fst m) k.
Proof.
  induction m as [|[k' v'] t IH]; cbn [delete map fst kdel]; [reflexivity|].
  destruct (Nat.eqb k' k); [exact IH|]. cbn [map fst]. now rewrite IH.
Qed.

Lemma Forall_kins (P : nat -> Prop) l k : Forall P l -> P k -> Forall P (kins l k).
Proof.
  induction l as [|h t IH]; intros Hl Hk; cbn [kins]; [auto|]. inversion Hl; subst.
  destruct (Nat.eqb h k); [auto|]. destruct (Nat.ltb k h); auto.
Qed.
Lemma Forall_kdel (P : nat -> Prop) l k : Forall P l -> Forall P (kdel l k).
Proof. induction l as [|h t IH]; intros Hl; cbn [kdel]; [auto|]. inversion Hl; subst. destruct (Nat.eqb h k); auto. Qed.

Lemma ssorted_kins l k : ssorted l -> ssorted (kins l k).
Proof.
  induction l as [|h t IH]; intros Hs; cbn [kins]; [cbn; auto|]. destruct Hs as [Hh Ht].
  destruct (Nat.eqb_spec h k) as [->|Hne]; [cbn; auto|].
  destruct (Nat.ltb_spec k h) as [Hlt|Hge].
  - cbn [ssorted]. split; [|split; assumption]. constructor; [exact Hlt|]. eapply Forall_impl; [|exact Hh]. intros; lia.
  - cbn [ssorted]. split; [apply Forall_kins; [exact Hh | lia] | auto].
Qed.
Lemma ssorted_kdel l k : ssorted l -> ssorted (kdel l k).
Proof.
  induction l as [|h t IH]; intros Hs; cbn [kdel]; [exact I|]. destruct Hs as [Hh Ht].
  destruct (Nat.eqb h k); [auto|]. cbn [ssorted]. split; [now apply Forall_kdel | auto].
Qed.
Lemma kins_present l k : ssorted l -> In k l -> kins l k = l.
Proof.
  induction l as [|h t IH]; intros Hs Hin; [destruct Hin|]. destruct Hs as [Hh Ht]. cbn [kins].
  destruct (Nat.eqb_spec h k) as [->|Hne]; [reflexivity|]. destruct Hin as [E|Hin]; [contradiction|].
  destruct (Nat.ltb_spec k h) as [Hlt|Hge].
  - exfalso. rewrite Forall_forall in Hh. specialize (Hh k Hin). lia.
  - now rewrite IH.
Qed.
Lemma lookup_in_keys' {A} (m : list (nat * A)) k v : lookup m k = Some v -> In k (map fst m).
Proof.
  induction m as [|[k' v'] t IH]; cbn [lookup map fst]; [discriminate|].
  destruct (Nat.eqb_spec k' k) as [->|Hne]; [now left | right; auto].
Qed.

(* ------------------------------------------------------------------ *)
(* updates of the record registered under one key *)
Lemma registered_distinct s k k' r r' : Inv s -> lookup (kmap s) k = Some r -> lookup (kmap s) k' = Some r' -> k' <> k -> r' <> r.
Proof.
  intros [_ [HM _]] H1 H2 Hne E. subst r'. destruct (HM k r H1) as [_ [A _]]. destruct (HM k' r H2) as [_ [B _]]. congruence.
Qed.

Lemma R_insert_same s a k v : R s a -> lookup (a_keys a) k = Some v -> R s (set_a_keys a (insert (a_keys a) k v)).
Proof.
  intros [R1 [R2 [R3 [R4 [R5 [R6 [R7 R8]]]]]]] Hk. unfold R. cbn [a_keys a_ctors a_ntok a_refs a_rels set_a_keys].
  split.
  - intros k'. destruct (Nat.eq_dec k' k) as [->|Hne]; [rewrite lookup_insert_same, <- Hk; apply R1 | rewrite lookup_insert_other by exact Hne; apply R1].
  - split; [|split; [exact R3|split; [exact R4|split; [exact R5|split; [exact R6|split; [exact R7|exact R8]]]]]].
    rewrite keys_insert, R2. apply kins_present; [exact R3|]. rewrite <- R2. eapply lookup_in_keys'; eauto.
Qed.

(* the record under key k gets a new pending-removal value v (data unchanged) *)
Lemma R_setr_key s a k r y v :
  Inv s -> R s a -> lookup (kmap s) k = Some r -> rdata y = rdata (getr s r) -> rremove y = v ->
  (forall t, v = Some t -> t < length (timers s) /\ trec (gett s t) = r /\ tkind (gett s t) = true) ->
  R (setr s r y) (set_a_keys a (insert (a_keys a) k (rdata y, v))).
Proof.
  intros HI [R1 [R2 [R3 [R4 [R5 [R6 [R7 R8]]]]]]] Hk Hd Hv Ht.
  assert (Hr : r < length (recs s)) by (destruct HI as [_ [HM _]]; apply (HM k r Hk)).
  unfold R. cbn [a_keys a_ctors a_ntok a_refs a_rels set_a_keys]. rewrite kmap_setr.
  split; [|split; [|split; [exact R3|split; [exact R4|split; [exact R5|split; [exact R6|split; [exact R7|]]]]]]].
  - intros k'. unfold kinfo. rewrite kmap_setr. destruct (Nat.eq_dec k' k) as [->|Hne].
    + rewrite lookup_insert_same, Hk, getr_setr_same by exact Hr. now rewrite Hv.
    + rewrite lookup_insert_other by exact Hne. rewrite R1. unfold kinfo.
      destruct (lookup (kmap s) k') as [r'|] eqn:Ek'; [|reflexivity].
      rewrite getr_setr_other by (eapply registered_distinct; eauto). reflexivity.
  - rewrite keys_insert, R2. apply kins_present; [exact R3|]. eapply lookup_in_keys'; eauto.
  - intros k' r' t Hk' Hrm. rewrite kmap_setr in Hk'. change (timers (setr s r y)) with (timers s). change (gett (setr s r y) t) with (gett s t).
    destruct (Nat.eq_dec r' r) as [->|Hne].
    + rewrite getr_setr_same in Hrm by exact Hr. apply Ht. congruence.
    + rewrite getr_setr_other in Hrm by exact Hne. eapply R8; eauto.
Qed.

Lemma R_unremove s a k r :
  Inv s -> R s a -> lookup (kmap s) k = Some r ->
  R (unremove s r) (set_a_keys a (insert (a_keys a) k (rdata (getr s r), None))).
Proof.
  intros HI HR Hk. unfold unremove. destruct (rremove (getr s r)) as [t0|] eqn:Et.
  - set (s1 := stop_timer s (Some t0)).
    assert (F1 : Fr s s1) by apply Fr_stop_timer.
    destruct (stop_timer_frame s (Some t0)) as [T1 [T2 [_ [_ [_ [_ [_ [_ [_ [_ T11]]]]]]]]]]. fold s1 in T1, T2, T11.
    assert (R1 : R s1 a) by (apply (R_frame_same s s1 a F1 T11 HR)).
    assert (X1 : getr s1 r = getr s r) by (unfold getr; now rewrite T2).
    pose proof (R_setr_key s1 a k r (with_remove (getr s r) None) None (Inv_stop_timer s _ HI) R1) as G.
    cbn [rdata with_remove] in G. apply G; try reflexivity; [rewrite T1; exact Hk | now rewrite X1 | intros; discriminate].
  - apply R_insert_same; [exact HR|]. destruct HR as [R1 _]. rewrite R1. unfold kinfo. now rewrite Hk, Et.
Qed.

Lemma R_start s a r c w f : R s a -> R (start_rec s r c w f) a.
Proof. intros HR. destruct (Fr_start_rec s r c w f) as [F L]. exact (R_frame_same _ _ a F L HR). Qed.

Lemma new_record_data s k lin w :
  let s' := fst (new_record s k lin w) in
  let r := snd (new_record s k lin w) in
  rdata (getr s' r) = (N.of_nat k * 1000 + N.of_nat (S (ctor_count s k)))%N /\
  ctors s' = insert (ctors s) k (S (ctor_count s k)) /\ refs s' = refs s /\ rels s' = rels s /\ delay s' = delay s.
Proof.
  unfold new_record. cbn [fst snd]. unfold getr. cbn [recs ctors refs rels delay set_kmap set_recs set_ctors].
  rewrite app_nth2 by lia. rewrite Nat.sub_diag. cbn. repeat split; reflexivity.
Qed.

Lemma R_new_record s a k lin :
  Inv s -> R s a -> lookup (kmap s) k = None ->
  R (fst (new_record s k lin None)) (fst (a_request a k)) /\
  snd (a_request a k) = (rdata (getr (fst (new_record s k lin None)) (snd (new_record s k lin None))), false).
Proof.
  intros HI [R1 [R2 [R3 [R4 [R5 [R6 [R7 R8]]]]]]] Hk.
  assert (Ha : lookup (a_keys a) k = None) by (rewrite R1; unfold kinfo; now rewrite Hk).
  unfold a_request. rewrite Ha. cbn [fst snd].
  destruct (new_record_frame s k lin None) as [F0 [F1 [F2 [F3 [F4 [F5 [F6 [F7 [F8 [F9 [F10 [F11 [F12 [F13 _]]]]]]]]]]]]]].
  destruct (new_record_data s k lin None) as [D1 [D2 [D3 [D4 D5]]]].
  set (s' := fst (new_record s k lin None)) in *. set (r := snd (new_record s k lin None)) in *.
  assert (Ec : S (match lookup (a_ctors a) k with Some c => c | None => 0 end) = S (ctor_count s k)) by (unfold ctor_count; now rewrite R4).
  rewrite Ec. split; [|now rewrite D1].
  unfold R. cbn [a_keys a_ctors a_ntok a_refs a_rels]. rewrite F5, D2, D3, D4, F3.
  split; [|split; [|split; [|split; [|split; [exact R5|split; [exact R6|split; [exact R7|]]]]]]].
  - intros k'. unfold kinfo. rewrite F5. destruct (Nat.eq_dec k' k) as [->|Hne].
    + rewrite !lookup_insert_same. now rewrite D1, F13.
    + rewrite !lookup_insert_other by exact Hne. rewrite R1. unfold kinfo.
      destruct (lookup (kmap s) k') as [r'|] eqn:Ek'; [|reflexivity]. rewrite F7; [reflexivity|].
      destruct HI as [_ [HM _]]. apply (HM k' r' Ek').
  - rewrite !keys_insert. now rewrite R2.
  - rewrite keys_insert. now apply ssorted_kins.
  - now rewrite R4.
  - intros k' r' t Hk' Hrm. unfold gett. rewrite F3. fold (gett s t). rewrite F5 in Hk'.
    destruct (Nat.eq_dec k' k) as [->|Hne].
    + rewrite lookup_insert_same in Hk'. inversion Hk'; subst r'. rewrite F13 in Hrm. discriminate.
    + rewrite lookup_insert_other in Hk' by exact Hne. rewrite F7 in Hrm by (destruct HI as [_ [HM _]]; apply (HM k' r' Hk')).
      eapply R8; eauto.
Qed.

(* ---- SetKey ---- *)
Lemma set_key_refines s a k st :
  Inv s -> R s a ->
  R (fst (set_key repaired s k st)) (fst (a_request a k)) /\ snd (set_key repaired s k st) = snd (a_request a k).
Proof.
  intros HI HR. unfold set_key. destruct (lookup (kmap s) k) as [r|] eqn:Ek.
  - cbn [fx_setkey repaired]. set (s1 := unremove s r).
    assert (Ha : lookup (a_keys a) k = Some (rdata (getr s r), rremove (getr s r))).
    { destruct HR as [R1 _]. rewrite R1. unfold kinfo. now rewrite Ek. }
    assert (R1 : R s1 (fst (a_request a k))) by (unfold a_request; rewrite Ha; cbn [fst]; now apply R_unremove).
    assert (K1 : lookup (kmap s1) k = Some r) by (unfold s1; rewrite kmap_unremove; exact Ek).
    set (s3 := if st && has_ctx s1 then start_rec s1 r (kctx s1) (rexit (getr s1 r)) false else s1).
    assert (R3 : R s3 (fst (a_request a k))) by (unfold s3; destruct (st && has_ctx s1); [now apply R_start | exact R1]).
    assert (K3 : lookup (kmap s3) k = Some r).
    { unfold s3. destruct (st && has_ctx s1); [|exact K1]. destruct (Fr_start_rec s1 r (kctx s1) (rexit (getr s1 r)) false) as [[F1 _] _]. now rewrite F1. }
    cbn [fst snd]. split; [exact R3|].
    destruct R3 as [Q1 _]. specialize (Q1 k). unfold kinfo in Q1. rewrite K3 in Q1.
    unfold a_request in *. rewrite Ha in *. cbn [fst snd a_keys set_a_keys] in *. rewrite lookup_insert_same in Q1. inversion Q1. reflexivity.
  - destruct (R_new_record s a k (nlin s) HI HR Ek) as [R1 Hret].
    destruct (Inv_new_fresh s k HI Ek) as [H2 K2].
    destruct (new_record s k (nlin s) None) as [s1 r] eqn:En. cbn [fst snd] in *.
    set (s2 := set_nlin s1 (S (nlin s1))) in *.
    assert (R2 : R s2 (fst (a_request a k))) by (apply (R_frame_same s1 s2); [apply Fr_ext; reflexivity | reflexivity | exact R1]).
    set (s3 := if has_ctx s2 then start_rec s2 r (kctx s2) (rexit (getr s2 r)) false else s2).
    assert (F3 : Fr s2 s3) by (unfold s3; destruct (has_ctx s2); [apply Fr_start_rec | apply Fr_refl]).
    split.
    + unfold s3. destruct (has_ctx s2); [now apply R_start | exact R2].
    + rewrite Hret. f_equal. destruct F3 as [_ [_ [_ [_ [_ [_ [F7 _]]]]]]]. destruct (F7 r) as [X _]. exact X.
Qed.

(* ---- RemoveKey ---- *)
Definition now_of (s : st) (k : nat) : bool :=
  N.eqb (delay s) 0 || match lookup (kmap s) k with Some r => failed (getr s r) | None => false end.

Lemma R_delete s a k r :
  Inv s -> R s a -> lookup (kmap s) k = Some r ->
  R (set_kmap s (delete (kmap s) k)) (set_a_keys a (delete (a_keys a) k)).
Proof.
  intros HI [R1 [R2 [R3 [R4 [R5 [R6 [R7 R8]]]]]]] Hk. unfold R. cbn [a_keys a_ctors a_ntok a_refs a_rels set_a_keys kmap set_kmap].
  split; [|split; [|split; [|split; [exact R4|split; [exact R5|split; [exact R6|split; [exact R7|]]]]]]].
  - intros k'. unfold kinfo. cbn [kmap set_kmap]. destruct (Nat.eq_dec k' k) as [->|Hne].
    + now rewrite !lookup_delete_same.
    + rewrite !lookup_delete_other by exact Hne. apply R1.
  - rewrite !keys_delete. now rewrite R2.
  - rewrite keys_delete. now apply ssorted_kdel.
  - intros k' r' t Hk' Hrm. cbn [kmap set_kmap] in Hk'. apply lookup_delete_some in Hk' as [_ Hk']. eapply R8; eauto.
Qed.

Lemma Fr_remove_now_pre s r :
  let x := getr s r in
  Fr s (setr (stop_timer (cancel_inst s (rcancel x)) (rretry x)) r (with_retry (getr (stop_timer (cancel_inst s (rcancel x)) (rretry x)) r) None)) /\
  length (timers (setr (stop_timer (cancel_inst s (rcancel x)) (rretry x)) r (with_retry (getr (stop_timer (cancel_inst s (rcancel x)) (rretry x)) r) None))) = length (timers s).
Proof.
  cbn zeta. set (x := getr s r). set (s1 := cancel_inst s (rcancel x)). set (s2 := stop_timer s1 (rretry x)).
  destruct (cancel_inst_frame s (rcancel x)) as [_ [_ [C3 _]]]. fold s1 in C3.
  destruct (stop_timer_frame s1 (rretry x)) as [_ [_ [_ [_ [_ [_ [_ [_ [_ [_ T11]]]]]]]]]]. fold s2 in T11.
  split.
  - eapply Fr_trans; [apply Fr_cancel_inst|]. fold s1. eapply Fr_trans; [apply Fr_stop_timer|]. fold s2. apply Fr_setr; reflexivity.
  - cbn [timers setr set_recs]. now rewrite T11, C3.
Qed.

Lemma remove_rec_refines s a k r :
  Inv s -> R s a -> lookup (kmap s) k = Some r ->
  R (remove_rec s r) (fst (a_remove a k (now_of s k))) /\ snd (a_remove a k (now_of s k)) = true.
Proof.
  intros HI HR Hk.
  assert (Ha : lookup (a_keys a) k = Some (rdata (getr s r), rremove (getr s r))).
  { destruct HR as [R1 _]. rewrite R1. unfold kinfo. now rewrite Hk. }
  assert (Hkey : rkey (getr s r) = k) by (destruct HI as [_ [HM _]]; destruct (HM k r Hk) as [_ [X _]]; exact X).
  unfold remove_rec, a_remove. rewrite Ha. destruct (rremove (getr s r)) as [t0|] eqn:Et; [split; [exact HR | reflexivity]|].
  unfold now_of. rewrite Hk. destruct (N.eqb (delay s) 0 || failed (getr s r)); cbn [fst snd]; (split; [|reflexivity]).
  - unfold remove_now. rewrite Hkey. destruct (Fr_remove_now_pre s r) as [F L]. cbn zeta in F, L.
    set (s3 := setr _ r _) in *.
    assert (R3 : R s3 a) by (exact (R_frame_same s s3 a F L HR)).
    assert (K3 : lookup (kmap s3) k = Some r) by (destruct F as [F1 _]; now rewrite F1).
    assert (I3 : Inv s3).
    { unfold s3. apply Inv_setr_keep; try reflexivity; [apply Inv_stop_timer, Inv_cancel_inst, HI | now left]. }
    exact (R_delete s3 a k r I3 R3 K3).
  - set (t := length (timers s)).
    set (tm := {| tkind := true; trec := r; tkey := rkey (getr s r); tdead := (clock s + delay s)%N; tst := TArmed |}).
    set (s1 := set_timers s (timers s ++ [tm])).
    assert (F1 : Fr s s1) by apply Fr_append_timer.
    assert (R1 : R s1 (bump a 1)).
    { apply (R_frame s s1 a (bump a 1) F1 HR); try reflexivity. cbn [a_ntok bump timers s1 set_timers]. rewrite app_length. cbn [length].
      destruct HR as [_ [_ [_ [_ [R5 _]]]]]. lia. }
    assert (I1 : Inv s1) by (now apply Inv_set_timers).
    pose proof (R_setr_key s1 (bump a 1) k r (with_remove (getr s r) (Some t)) (Some t) I1 R1 Hk) as G.
    cbn [rdata with_remove] in G.
    assert (E : set_a_keys (bump a 1) (insert (a_keys (bump a 1)) k (rdata (getr s r), Some t)) =
                {| a_keys := insert (a_keys a) k (rdata (getr s r), Some (a_ntok a)); a_ctors := a_ctors a; a_ntok := S (a_ntok a);
                   a_refs := a_refs a; a_rels := a_rels a |}).
    { unfold set_a_keys, bump. cbn [a_keys a_ctors a_ntok a_refs a_rels]. destruct HR as [_ [_ [_ [_ [R5 _]]]]]. unfold t. rewrite <- R5.
      f_equal. lia. }
    rewrite <- E. apply G; try reflexivity.
    intros t' Ht'. inversion Ht'; subst t'. unfold gett, s1, t. cbn [timers set_timers]. rewrite app_length. cbn [length].
    rewrite app_nth2 by lia. rewrite Nat.sub_diag. cbn. repeat split; auto; lia.
Qed.

Lemma remove_key_refines s a k :
  Inv s -> R s a ->
  R (fst (remove_key s k)) (fst (a_remove a k (now_of s k))) /\ snd (remove_key s k) = snd (a_remove a k (now_of s k)).
Proof.
  intros HI HR. unfold remove_key. destruct (lookup (kmap s) k) as [r|] eqn:Ek.
  - destruct (remove_rec_refines s a k r HI HR Ek) as [G1 G2]. cbn [fst snd]. split; [exact G1 | now rewrite G2].
  - assert (Ha : lookup (a_keys a) k = None) by (destruct HR as [R1 _]; rewrite R1; unfold kinfo; now rewrite Ek).
    unfold a_remove. rewrite Ha. cbn [fst snd]. auto.
Qed.

(* ---- the reference layer ---- *)
Lemma R_refs s a l : R s a -> R (set_refs s l) (set_a_refs a l).
Proof.
  intros [R1 [R2 [R3 [R4 [R5 [R6 [R7 R8]]]]]]]. unfold R. cbn [a_keys a_ctors a_ntok a_refs a_rels set_a_refs].
  split; [exact R1|]. split; [exact R2|]. split; [exact R3|]. split; [exact R4|]. split; [exact R5|]. split; [reflexivity|]. split; [exact R7|exact R8].
Qed.
Lemma R_rels s a l : R s a -> R (set_rels s l) (set_a_rels a l).
Proof.
  intros [R1 [R2 [R3 [R4 [R5 [R6 [R7 R8]]]]]]]. unfold R. cbn [a_keys a_ctors a_ntok a_refs a_rels set_a_rels].
  split; [exact R1|]. split; [exact R2|]. split; [exact R3|]. split; [exact R4|]. split; [exact R5|]. split; [exact R6|]. split; [reflexivity|exact R8].
Qed.
Lemma R_refs_eq s a : R s a -> a_refs a = refs s /\ a_rels a = rels s.
Proof. intros [_ [_ [_ [_ [_ [R6 [R7 _]]]]]]]. auto. Qed.

Lemma add_key_ref_refines s a k :
  Inv s -> R s a ->
  R (fst (add_key_ref repaired s k)) (fst (a_add_ref a k)) /\ snd (add_key_ref repaired s k) = snd (a_add_ref a k).
Proof.
  intros HI HR. unfold add_key_ref, a_add_ref. destruct (set_key_refines s a k true HI HR) as [G1 G2].
  destruct (set_key repaired s k true) as [s1 res]. destruct (a_request a k) as [a1 res']. cbn [fst snd] in *.
  split; [|exact G2]. destruct (R_refs_eq _ _ G1) as [E _]. rewrite E. now apply R_refs.
Qed.

Lemma release_start_refines s a f : R s a -> R (release_start s f) (a_release_start a f).
Proof.
  intros HR. unfold release_start, a_release_start. destruct (R_refs_eq _ _ HR) as [E1 E2]. rewrite E1, E2.
  destruct (nth_error (refs s) f) as [x|]; [|exact HR]. destruct (frel x); [exact HR|].
  apply R_rels, R_refs, HR.
Qed.

Lemma now_of_refs s l k : now_of (set_refs s l) k = now_of s k. Proof. reflexivity. Qed.
Lemma now_of_rels s l k : now_of (set_rels s l) k = now_of s k. Proof. reflexivity. Qed.

Lemma release_section_refines s a i :
  Inv s -> R s a -> R (release_section s i) (a_release_section a i (now_of s)).
Proof.
  intros HI HR. unfold release_section, a_release_section. destruct (R_refs_eq _ _ HR) as [E1 E2]. rewrite E2.
  destruct (nth_error (rels s) i) as [l|]; [|exact HR]. destruct (lparked l); [|exact HR].
  set (s1 := set_rels s _). set (a1 := set_a_rels a _).
  assert (R1 : R s1 a1) by (now apply R_rels).
  assert (I1 : Inv s1) by (now apply Inv_set_rels).
  change (a_refs a1) with (a_refs a). change (refs s1) with (refs s). rewrite E1.
  destruct (nth_error (refs s) (lref l)) as [x|]; [|exact R1]. destruct (fin x); [|exact R1].
  set (s2 := set_refs s1 _). set (a2 := set_a_refs a1 _).
  assert (R2 : R s2 a2) by (now apply R_refs).
  assert (I2 : Inv s2) by (now apply Inv_set_refs).
  change (a_refs a2) with (refs s2).
  destruct (Nat.eqb _ 0); [|exact R2].
  exact (proj1 (remove_key_refines s2 a2 (fkey x) I2 R2)).
Qed.

Lemma rc_remove_key_refines s a k :
  Inv s -> R s a ->
  R (fst (rc_remove_key s k)) (fst (a_rc_remove a k (now_of s k))) /\ snd (rc_remove_key s k) = snd (a_rc_remove a k (now_of s k)).
Proof.
  intros HI HR. unfold rc_remove_key, a_rc_remove. destruct (R_refs_eq _ _ HR) as [E1 _]. rewrite E1.
  set (l := map _ (refs s)).
  exact (remove_key_refines (set_refs s l) (set_a_refs a l) k (Inv_set_refs s l HI) (R_refs s a l HR)).
Qed.

(* ---- timer callbacks ---- *)
Definition cb_aev (s : st) (t : nat) : aev :=
  match nth_error (timers s) t with
  | Some x => match tst x with
              | TFired => if tkind x then ACallback (rkey (getr s (trec x))) t else ANone
              | _ => ANone
              end
  | None => ANone
  end.

Lemma Fr_set_timer_state s t x v : nth_error (timers s) t = Some x -> Fr s (set_timers s (set_nth (timers s) t (with_tst x v))).
Proof.
  intros Hx. unfold Fr. cbn [kmap ctors refs rels delay timers set_timers]. rewrite length_set_nth.
  repeat split; try reflexivity; try lia; unfold gett; cbn [timers set_timers];
    (destruct (Nat.eq_dec t0 t) as [->|Hne]; [rewrite nth_set_nth_same by exact H; rewrite (nth_error_nth _ _ timer0 Hx); reflexivity | now rewrite nth_set_nth_other]).
Qed.

Lemma timer_cb_refines s a t : Inv s -> R s a -> R (timer_cb repaired s t) (astep a (cb_aev s t)).
Proof.
  intros HI HR. unfold timer_cb, cb_aev. destruct (nth_error (timers s) t) as [x|] eqn:Ex; [|exact HR].
  destruct (tst x) eqn:Est; try exact HR.
  set (s1 := set_timers s (set_nth (timers s) t (with_tst x TRan))).
  assert (F1 : Fr s s1) by (now apply Fr_set_timer_state).
  assert (L1 : length (timers s1) = length (timers s)) by (cbn [timers s1 set_timers]; apply length_set_nth).
  assert (R1 : R s1 a) by (exact (R_frame_same s s1 a F1 L1 HR)).
  assert (I1 : Inv s1) by (now apply Inv_set_timers).
  assert (G1 : forall q, getr s1 q = getr s q) by reflexivity.
  destruct (tkind x) eqn:Ekind.
  - cbn [astep]. set (r := trec x). set (y := getr s1 r). unfold a_callback. cbn [fx_stale repaired].
    change (getr s r) with y.
    pose proof R1 as [Q1 Q]. rewrite Q1. unfold kinfo.
    destruct (in_map s1 r) eqn:Em.
    + pose proof (in_map_lookup s1 r Em) as Hk. fold y in Hk. rewrite Hk. fold y.
      destruct (rremove y) as [t'|] eqn:Erm; cbn [opt_is andb]; [|exact (conj Q1 Q)].
      destruct (Nat.eqb_spec t' t) as [->|Hne]; [|exact (conj Q1 Q)].
      (* the callback is the record's pending removal *)
      set (s2 := stop_timer s1 (Some t)).
      assert (F2 : Fr s1 s2) by apply Fr_stop_timer.
      destruct (stop_timer_frame s1 (Some t)) as [T1 [T2 [_ [_ [_ [_ [_ [_ [_ [_ T11]]]]]]]]]]. fold s2 in T1, T2, T11.
      assert (R2 : R s2 a) by (exact (R_frame_same s1 s2 a F2 T11 (conj Q1 Q))).
      assert (I2 : Inv s2) by (now apply Inv_stop_timer).
      assert (Y2 : getr s2 r = y) by (unfold getr, y; now rewrite T2).
      assert (K2 : lookup (kmap s2) (rkey y) = Some r) by (now rewrite T1).
      pose proof (R_setr_key s2 a (rkey y) r (with_remove (getr s2 r) None) None I2 R2 K2) as G.
      cbn [rdata with_remove] in G.
      assert (R3 : R (setr s2 r (with_remove (getr s2 r) None)) (set_a_keys a (insert (a_keys a) (rkey y) (rdata (getr s2 r), None)))).
      { apply G; try reflexivity. intros; discriminate. }
      set (s3 := setr s2 r (with_remove (getr s2 r) None)) in *.
      assert (I3 : Inv s3) by (unfold s3; apply Inv_setr_keep; try reflexivity; [exact I2 | now left]).
      assert (Rr : r < length (recs s2)) by (destruct I2 as [_ [HM _]]; apply (HM _ r K2)).
      assert (Y3 : rkey (getr s3 r) = rkey y /\ rcancel (getr s3 r) = rcancel y /\ rretry (getr s3 r) = rretry y).
      { unfold s3. rewrite getr_setr_same by exact Rr. rewrite Y2. cbn. auto. }
      (* removeNow *)
      unfold remove_now. destruct Y3 as [Y3a [Y3b Y3c]].
      destruct (Fr_remove_now_pre s3 r) as [F4 L4]. cbn zeta in F4, L4.
      set (s4 := setr (stop_timer (cancel_inst s3 (rcancel (getr s3 r))) (rretry (getr s3 r))) r
                      (with_retry (getr (stop_timer (cancel_inst s3 (rcancel (getr s3 r))) (rretry (getr s3 r))) r) None)) in *.
      rewrite Y3a.
      assert (R4 : R s4 (set_a_keys a (insert (a_keys a) (rkey y) (rdata (getr s2 r), None)))) by (exact (R_frame_same s3 s4 _ F4 L4 R3)).
      assert (K4 : lookup (kmap s4) (rkey y) = Some r).
      { destruct F4 as [F41 _]. rewrite F41. unfold s3. rewrite kmap_setr. exact K2. }
      assert (I4 : Inv s4).
      { unfold s4. apply Inv_setr_keep; try reflexivity; [apply Inv_stop_timer, Inv_cancel_inst, I3 | now left]. }
      pose proof (R_delete s4 _ (rkey y) r I4 R4 K4) as R5.
      (* the abstract side: deleting after the insert is deleting *)
      destruct R5 as [P1 [P2 [P3 [P4 [P5 [P6 [P7 P8]]]]]]]. cbn [a_keys a_ctors a_ntok a_refs a_rels set_a_keys] in *.
      unfold R. cbn [a_keys a_ctors a_ntok a_refs a_rels set_a_keys].
      split; [|split; [|split; [exact P3|split; [exact P4|split; [exact P5|split; [exact P6|split; [exact P7|exact P8]]]]]]].
      * intros k'. rewrite <- P1. destruct (Nat.eq_dec k' (rkey y)) as [->|Hne]; [now rewrite !lookup_delete_same|].
        rewrite !lookup_delete_other by exact Hne. now rewrite lookup_insert_other.
      * rewrite <- P2. rewrite !keys_delete, keys_insert. f_equal. symmetry. apply kins_present.
        -- pose proof Q as [Q2 [Q3 _]]. rewrite Q2. exact Q3.
        -- pose proof Q as [Q2 _]. rewrite Q2. eapply lookup_in_keys'. change (kmap s1) with (kmap s) in Hk. exact Hk.
    + (* the record is not registered: the abstract state has no pending removal with this token *)
      cbn [andb].
      destruct (lookup (kmap s1) (rkey y)) as [r'|] eqn:Ek'; [|exact (conj Q1 Q)].
      destruct (rremove (getr s1 r')) as [t'|] eqn:Erm; [|exact (conj Q1 Q)].
      destruct (Nat.eqb_spec t' t) as [->|Hne]; [|exact (conj Q1 Q)]. exfalso.
      pose proof Q as [_ [_ [_ [_ [_ [_ Q8]]]]]]. destruct (Q8 _ r' t Ek' Erm) as [_ [T2 _]].
      assert (X : gett s1 t = with_tst x TRan).
      { unfold gett, s1. cbn [timers set_timers]. apply nth_set_nth_same. eapply nth_error_nth_len; eauto. }
      rewrite X in T2. cbn in T2. fold r in T2. subst r'.
      unfold in_map in Em. fold y in Em. rewrite Ek', Nat.eqb_refl in Em. discriminate.
  - cbn [astep]. destruct (has_ctx s1 && in_map s1 (trec x) && rexited (getr s1 (trec x))); [now apply R_start | exact R1].
Qed.

(* ------------------------------------------------------------------ *)
(* operations outside the key-set alphabet leave the abstract state alone *)
Definition Fr0 (s s' : st) : Prop := Fr s s' /\ length (timers s') = length (timers s).
Lemma Fr0_refl s : Fr0 s s. Proof. split; [apply Fr_refl | reflexivity]. Qed.
Lemma Fr0_trans s s1 s2 : Fr0 s s1 -> Fr0 s1 s2 -> Fr0 s s2.
Proof. intros [A B] [C D]. split; [eapply Fr_trans; eauto | congruence]. Qed.
Lemma Fr0_start s r c w f : Fr0 s (start_rec s r c w f). Proof. apply Fr_start_rec. Qed.
Lemma Fr0_cancel s oi : Fr0 s (cancel_inst s oi).
Proof. split; [apply Fr_cancel_inst|]. destruct (cancel_inst_frame s oi) as [_ [_ [C3 _]]]. now rewrite C3. Qed.
Lemma Fr0_stop s ot : Fr0 s (stop_timer s ot).
Proof. split; [apply Fr_stop_timer|]. apply stop_timer_frame. Qed.
Lemma Fr0_setr s r y : rdata y = rdata (getr s r) -> rremove y = rremove (getr s r) -> Fr0 s (setr s r y).
Proof. intros A B. split; [now apply Fr_setr | reflexivity]. Qed.
Lemma Fr0_seti s i x : Fr0 s (seti s i x). Proof. split; [apply Fr_seti | reflexivity]. Qed.
Lemma Fr0_fold {E} (f : st -> E -> st) : (forall s e, Fr0 s (f s e)) -> forall es s, Fr0 s (fold_left f es s).
Proof.
  intros Hf es. induction es as [|e es IH]; intros s; cbn [fold_left]; [apply Fr0_refl|]. eapply Fr0_trans; [apply Hf | apply IH].
Qed.
Lemma R_Fr0 s s' a : Fr0 s s' -> R s a -> R s' a.
Proof. intros [A B]. now apply R_frame_same. Qed.

Lemma Fr0_cancel_forget s r y :
  rdata y = rdata (getr s r) -> rremove y = rremove (getr s r) -> Fr0 s (setr (cancel_inst s (rcancel (getr s r))) r y).
Proof.
  intros A B. eapply Fr0_trans; [apply Fr0_cancel|]. apply Fr0_setr; unfold getr;
    destruct (cancel_inst_frame s (rcancel (nth r (recs s) rec0))) as [_ [C2 _]]; now rewrite C2.
Qed.

Lemma Fr0_ctx_key c same restart s k : Fr0 s (ctx_key c same restart s k).
Proof.
  unfold ctx_key. destruct (lookup (kmap s) k) as [r|]; [|apply Fr0_refl].
  destruct (same && is_nil (rerr (getr s r))); [apply Fr0_refl|].
  destruct ((is_nil (rerr (getr s r)) || restart) && negb (Nat.eqb c 0)).
  - eapply Fr0_trans; [apply (Fr0_cancel_forget s r (with_noctx (getr s r))); reflexivity | apply Fr0_start].
  - apply (Fr0_cancel_forget s r (with_noctx (getr s r))); reflexivity.
Qed.
Lemma Fr0_set_context s c restart : Fr0 s (set_context s c restart).
Proof.
  unfold set_context. destruct (Nat.eqb (kctx s) c && negb restart); [apply Fr0_refl|].
  eapply Fr0_trans; [split; [apply Fr_set_kctx | reflexivity]|]. apply Fr0_fold. intros; apply Fr0_ctx_key.
Qed.
Lemma Fr0_norm_ctx s : Fr0 s (norm_ctx s).
Proof. unfold norm_ctx. destruct (root_canc s (kctx s)); [split; [apply Fr_set_kctx | reflexivity] | apply Fr0_refl]. Qed.
Lemma Fr0_cancel_root s c : Fr0 s (cancel_root s c).
Proof. unfold cancel_root. destruct (Nat.eqb c 0); [apply Fr0_refl|]. split; [apply Fr_ext; reflexivity | reflexivity]. Qed.
Lemma Fr0_restart_routine s k cond : Fr0 s (fst (restart_routine s k cond)).
Proof.
  unfold restart_routine. eapply Fr0_trans; [apply Fr0_norm_ctx|]. generalize (norm_ctx s). clear s. intros s. unfold restart_core.
  destruct (lookup (kmap s) k) as [r|]; [|apply Fr0_refl].
  destruct (negb (has_ctx s)); [apply Fr0_refl|]. destruct (negb (cond_match cond k)); [apply Fr0_refl|]. cbn [fst].
  eapply Fr0_trans; [apply (Fr0_cancel_forget s r (with_cancel (getr s r) None)); reflexivity | apply Fr0_start].
Qed.
Lemma Fr0_restart_all s cond : Fr0 s (fst (restart_all s cond)).
Proof.
  unfold restart_all.
  assert (G : forall ks acc, Fr0 (fst acc) (fst (fold_left (all_step restart_routine cond) ks acc))).
  { induction ks as [|k ks IH]; intros acc; cbn [fold_left]; [apply Fr0_refl|].
    eapply Fr0_trans; [|apply IH]. destruct acc as [s0 n]. unfold all_step.
    pose proof (Fr0_restart_routine s0 k cond) as F. destruct (restart_routine s0 k cond) as [s' [ex rs]]. exact F. }
  specialize (G (map fst (kmap s)) (s, 0)). destruct (fold_left _ _ (s, 0)) as [s' n]. exact G.
Qed.
Ltac cases6 := repeat match goal with |- context [match ?x with _ => _ end] => destruct x end.
Lemma Fr0_proceed fx s i en : Fr0 s (proceed fx s i en).
Proof. unfold proceed. cases6; auto using Fr0_refl, Fr0_seti. Qed.
Lemma Fr0_wake fx s i en : Fr0 s (wake fx s i en).
Proof. unfold wake. cases6; auto using Fr0_refl, Fr0_seti. Qed.
Lemma Fr0_fn_return s i o : Fr0 s (fn_return s i o).
Proof. unfold fn_return. cases6; auto using Fr0_refl, Fr0_seti. Qed.
Lemma Fr0_advance s d : Fr0 s (advance s d).
Proof.
  unfold advance. split; [|cbn [timers set_timers set_clock]; apply map_length].
  unfold Fr. cbn [kmap ctors refs rels delay timers set_timers set_clock]. rewrite map_length.
  repeat split; try reflexivity; try lia; unfold gett; cbn [timers set_timers set_clock];
    (rewrite (nth_indep _ timer0 (fire (clock s + d) timer0)) by (rewrite map_length; exact H); rewrite map_nth;
     unfold fire; destruct (tst (nth t (timers s) timer0)); try reflexivity; destruct (N.leb _ _); reflexivity).
Qed.

(* the bookkeeping section arms at most one retry timer *)
Lemma Fr_bookkeep s i : Fr s (bookkeep s i).
Proof.
  unfold bookkeep. destruct (nth_error (insts s) i) as [x|]; [|apply Fr_refl]. destruct (ipcv x); try apply Fr_refl.
  set (s0 := seti s i (with_pc x IDone)). set (r := irec x). set (y := getr s r).
  assert (F0 : Fr s s0) by apply Fr_seti.
  destruct (rctx y) as [j|]; [|exact F0]. destruct (Nat.eqb j i); [|exact F0].
  assert (G : forall S a b, Fr s S -> recs S = recs s ->
                            Fr s (set_cblog (setr S r (with_exit y o a b)) (cblog (setr S r (with_exit y o a b)) ++ [(rkey y, rdata y, o)]))).
  { intros S a b FS ES. eapply Fr_trans; [exact FS|]. eapply Fr_trans; [|apply Fr_set_cblog].
    apply Fr_setr; unfold getr, y; rewrite ES; reflexivity. }
  destruct (script s0) as [l|]; [|apply G; auto].
  set (s' := stop_timer s0 (rretry y)).
  assert (F' : Fr s s') by (eapply Fr_trans; [exact F0 | apply Fr_stop_timer]).
  assert (E' : recs s' = recs s) by (unfold s'; destruct (stop_timer_frame s0 (rretry y)) as [_ [T2 _]]; rewrite T2; reflexivity).
  destruct (is_nil o); [apply G; auto|]. destruct (in_map s' r); [|apply G; auto].
  destruct (nth_error l (rbo y)); [|apply G; auto].
  apply G; [eapply Fr_trans; [exact F' | apply Fr_append_timer] | exact E'].
Qed.

Lemma bookkeep_refines s a i : R s a -> R (bookkeep s i) (bump a (length (timers (bookkeep s i)) - length (timers s))).
Proof.
  intros HR. pose proof (Fr_bookkeep s i) as F. apply (R_frame s _ a _ F HR); try reflexivity.
  cbn [a_ntok bump]. destruct HR as [_ [_ [_ [_ [R5 _]]]]]. destruct F as [_ [_ [_ [_ [_ [F6 _]]]]]]. lia.
Qed.

(* ------------------------------------------------------------------ *)
(* SyncKeys *)
Lemma sync_one_is_set_key restart s seen added k :
  mem k seen = false ->
  fst (fst (sync_one repaired restart (s, seen, added) k)) = fst (set_key repaired s k restart).
Proof.
  intros Hm. unfold sync_one, set_key. rewrite Hm. cbn [fx_sync fx_setkey repaired].
  destruct (lookup (kmap s) k); [reflexivity|]. destruct (new_record s k (nlin s) None). reflexivity.
Qed.
Lemma sync_one_lists restart s seen added k :
  snd (fst (sync_one repaired restart (s, seen, added) k)) = (if mem k seen then seen else k :: seen) /\
  snd (sync_one repaired restart (s, seen, added) k) =
    (if mem k seen then added else if snd (snd (set_key repaired s k restart)) then added else added ++ [k]).
Proof.
  unfold sync_one, set_key. destruct (mem k seen); [auto|]. cbn [fx_sync fx_setkey repaired].
  destruct (lookup (kmap s) k); [auto|]. destruct (new_record s k (nlin s) None). auto.
Qed.

Lemma sync_one_refines restart s a seen added k :
  Inv s -> R s a ->
  let c := sync_one repaired restart (s, seen, added) k in
  let d := a_sync_one (a, seen, added) k in
  R (fst (fst c)) (fst (fst d)) /\ snd (fst c) = snd (fst d) /\ snd c = snd d.
Proof.
  intros HI HR. cbn zeta. destruct (sync_one_lists restart s seen added k) as [L1 L2]. rewrite L1, L2.
  unfold a_sync_one. destruct (mem k seen) eqn:Em.
  - unfold sync_one. rewrite Em. cbn [fst snd]. auto.
  - rewrite (sync_one_is_set_key restart s seen added k Em).
    destruct (set_key_refines s a k restart HI HR) as [G1 G2]. rewrite G2.
    destruct (a_request a k) as [a1 [d ex]]. cbn [fst snd] in *. destruct ex; auto.
Qed.

(* key-local operations do not touch the status of other keys *)
Definition fl (s : st) (k : nat) : bool := match lookup (kmap s) k with Some r => failed (getr s r) | None => false end.
Lemma now_of_fl s k : now_of s k = N.eqb (delay s) 0 || fl s k. Proof. reflexivity. Qed.

Lemma getr_start_rec_other s r c w f q : q <> r -> getr (start_rec s r c w f) q = getr s q.
Proof.
  intros Hne. unfold start_rec. cases6; try reflexivity. rewrite getr_setr_other by exact Hne. unfold getr. cbn [recs set_insts].
  destruct (cancel_inst_frame (stop_timer s (rretry (nth r (recs s) rec0))) (rcancel (nth r (recs s) rec0))) as [_ [C2 _]].
  destruct (stop_timer_frame s (rretry (nth r (recs s) rec0))) as [_ [T2 _]]. unfold getr in *. now rewrite C2, T2.
Qed.
Lemma getr_unremove_other s r q : q <> r -> getr (unremove s r) q = getr s q.
Proof.
  intros Hne. unfold unremove. destruct (rremove (getr s r)); [|reflexivity]. rewrite getr_setr_other by exact Hne.
  unfold getr. destruct (stop_timer_frame s (Some n)) as [_ [T2 _]]. now rewrite T2.
Qed.

Lemma kmap_start_rec_C06 s r c w f : kmap (start_rec s r c w f) = kmap s.
Proof. destruct (Fr_start_rec s r c w f) as [[F _] _]. exact F. Qed.

Lemma fl_set_key s k st k' : Inv s -> k' <> k -> fl (fst (set_key repaired s k st)) k' = fl s k'.
Proof.
  intros HI Hne. unfold set_key. destruct (lookup (kmap s) k) as [r|] eqn:Ek.
  - cbn [fx_setkey repaired fst]. set (s1 := unremove s r).
    assert (K1 : kmap s1 = kmap s) by apply kmap_unremove.
    unfold fl. destruct (st && has_ctx s1).
    + rewrite kmap_start_rec_C06. rewrite K1. destruct (lookup (kmap s) k') as [r'|] eqn:Ek'; [|reflexivity].
      assert (r' <> r) by (eapply registered_distinct; eauto).
      rewrite getr_start_rec_other by assumption. unfold s1. now rewrite getr_unremove_other.
    + rewrite K1. destruct (lookup (kmap s) k') as [r'|] eqn:Ek'; [|reflexivity].
      assert (r' <> r) by (eapply registered_distinct; eauto). unfold s1. now rewrite getr_unremove_other.
  - destruct (new_record_frame s k (nlin s) None) as [F0 [_ [_ [_ [_ [F5 [_ [F7 _]]]]]]]].
    destruct (new_record s k (nlin s) None) as [s1 r] eqn:En. cbn [fst snd] in *.
    set (s2 := set_nlin s1 (S (nlin s1))).
    assert (G : fl s2 k' = fl s k').
    { unfold fl. change (kmap s2) with (kmap s1). rewrite F5, lookup_insert_other by exact Hne.
      destruct (lookup (kmap s) k') as [r'|] eqn:Ek'; [|reflexivity]. change (getr s2 r') with (getr s1 r').
      rewrite F7; [reflexivity|]. destruct HI as [_ [HM _]]. apply (HM k' r' Ek'). }
    destruct (has_ctx s2); [|exact G]. rewrite <- G. unfold fl. rewrite kmap_start_rec_C06.
    destruct (lookup (kmap s2) k') as [r'|] eqn:Ek'; [|reflexivity].
    rewrite getr_start_rec_other; [reflexivity|].
    change (kmap s2) with (kmap s1) in Ek'. rewrite F5, lookup_insert_other in Ek' by exact Hne.
    destruct HI as [_ [HM _]]. destruct (HM k' r' Ek') as [M1 _]. rewrite F0. lia.
Qed.

Lemma delay_start_rec s r c w f : delay (start_rec s r c w f) = delay s.
Proof. destruct (Fr_start_rec s r c w f) as [[_ [_ [_ [_ [F _]]]]] _]. exact F. Qed.
Lemma delay_unremove s r : delay (unremove s r) = delay s.
Proof. unfold unremove. destruct (rremove (getr s r)); [|reflexivity]. cbn [delay setr set_recs]. apply stop_timer_frame. Qed.
Lemma delay_set_key s k st : delay (fst (set_key repaired s k st)) = delay s.
Proof.
  unfold set_key. destruct (lookup (kmap s) k) as [r|].
  - cbn [fx_setkey repaired fst]. destruct (st && has_ctx (unremove s r)); [rewrite delay_start_rec|]; apply delay_unremove.
  - destruct (new_record_data s k (nlin s) None) as [_ [_ [_ [_ D5]]]].
    destruct (new_record s k (nlin s) None) as [s1 r]. cbn [fst snd] in *.
    destruct (has_ctx (set_nlin s1 (S (nlin s1)))); [rewrite delay_start_rec|]; exact D5.
Qed.
Lemma delay_remove_now s r : delay (remove_now s r) = delay s.
Proof.
  unfold remove_now. cbn [delay set_kmap setr set_recs].
  destruct (stop_timer_frame (cancel_inst s (rcancel (getr s r))) (rretry (getr s r))) as [_ [_ [_ [_ [_ [T6 _]]]]]].
  destruct (cancel_inst_frame s (rcancel (getr s r))) as [_ [_ [_ [_ [_ [C6 _]]]]]]. congruence.
Qed.
Lemma delay_remove_key s k : delay (fst (remove_key s k)) = delay s.
Proof.
  unfold remove_key. destruct (lookup (kmap s) k) as [r|]; [|reflexivity]. cbn [fst]. unfold remove_rec.
  destruct (rremove (getr s r)); [reflexivity|]. destruct (N.eqb (delay s) 0 || failed (getr s r)); [apply delay_remove_now | reflexivity].
Qed.

(* a removal request leaves the status of every key that is still present as it was *)
Lemma fl_remove_key s k k' : Inv s -> lookup (kmap (fst (remove_key s k))) k' = None \/ fl (fst (remove_key s k)) k' = fl s k'.
Proof.
  intros HI. unfold remove_key. destruct (lookup (kmap s) k) as [r|] eqn:Ek; [|now right]. cbn [fst].
  assert (Hkey : rkey (getr s r) = k) by (destruct HI as [_ [HM _]]; destruct (HM k r Ek) as [_ [X _]]; exact X).
  assert (Hr : r < length (recs s)) by (destruct HI as [_ [HM _]]; apply (HM k r Ek)).
  unfold remove_rec. destruct (rremove (getr s r)) eqn:Et; [now right|].
  destruct (N.eqb (delay s) 0 || failed (getr s r)).
  - unfold remove_now. rewrite Hkey. cbn [kmap set_kmap]. destruct (Nat.eq_dec k' k) as [->|Hne]; [left; apply lookup_delete_same|].
    right. unfold fl. cbn [kmap set_kmap]. rewrite lookup_delete_other by exact Hne. rewrite kmap_setr.
    destruct (stop_timer_frame (cancel_inst s (rcancel (getr s r))) (rretry (getr s r))) as [T1 [T2 _]].
    destruct (cancel_inst_frame s (rcancel (getr s r))) as [C1 [C2 _]]. rewrite T1, C1.
    destruct (lookup (kmap s) k') as [r'|] eqn:Ek'; [|reflexivity].
    assert (Hne' : r' <> r) by (eapply registered_distinct; eauto).
    match goal with |- failed (getr (set_kmap ?S ?m) r') = _ => change (getr (set_kmap S m) r') with (getr S r') end.
    rewrite getr_setr_other by exact Hne'.
    match goal with |- failed (getr ?S r') = _ => assert (X : getr S r' = getr s r') by (change (getr S r') with (nth r' (recs S) rec0); change (getr s r') with (nth r' (recs s) rec0); now rewrite T2, C2) end.
    now rewrite X.
  - right. unfold fl. rewrite kmap_setr. cbn [kmap set_timers].
    destruct (lookup (kmap s) k') as [r'|] eqn:Ek'; [|reflexivity].
    destruct (Nat.eq_dec r' r) as [->|Hne].
    + rewrite getr_setr_same by exact Hr. reflexivity.
    + rewrite getr_setr_other by exact Hne. reflexivity.
Qed.

Lemma remove_key_refines_or s a k (now : nat -> bool) :
  Inv s -> R s a -> (now k = now_of s k \/ lookup (kmap s) k = None) ->
  R (fst (remove_key s k)) (fst (a_remove a k (now k))).
Proof.
  intros HI HR [E|E]; [rewrite E; apply remove_key_refines; auto|].
  unfold remove_key, a_remove. rewrite E. destruct HR as [R1 R']. rewrite R1. unfold kinfo. rewrite E. exact (conj R1 R').
Qed.

Lemma sync_fold1 restart : forall ks s a seen added,
  Inv s -> R s a ->
  let c := fold_left (sync_one repaired restart) ks (s, seen, added) in
  let d := fold_left a_sync_one ks (a, seen, added) in
  R (fst (fst c)) (fst (fst d)) /\ Inv (fst (fst c)) /\ snd (fst c) = snd (fst d) /\ snd c = snd d /\
  delay (fst (fst c)) = delay s /\ (forall k', ~ In k' ks -> fl (fst (fst c)) k' = fl s k').
Proof.
  induction ks as [|k ks IH]; intros s a seen added HI HR; cbn [fold_left]; [cbn [fst snd]; auto 10|].
  destruct (sync_one_refines restart s a seen added k HI HR) as [G1 [G2 G3]].
  pose proof (sync_one_inv repaired restart (s, seen, added) k HI) as I1.
  assert (D1 : delay (fst (fst (sync_one repaired restart (s, seen, added) k))) = delay s).
  { destruct (mem k seen) eqn:Em; [unfold sync_one; rewrite Em; reflexivity|]. rewrite sync_one_is_set_key by exact Em. apply delay_set_key. }
  assert (Fl1 : forall k', k' <> k -> fl (fst (fst (sync_one repaired restart (s, seen, added) k))) k' = fl s k').
  { intros k' Hne. destruct (mem k seen) eqn:Em; [unfold sync_one; rewrite Em; reflexivity|]. rewrite sync_one_is_set_key by exact Em. now apply fl_set_key. }
  destruct (sync_one repaired restart (s, seen, added) k) as [[s1 seen1] added1].
  destruct (a_sync_one (a, seen, added) k) as [[a1 seen1'] added1']. cbn [fst snd] in *. subst seen1' added1'.
  destruct (IH s1 a1 seen1 added1 I1 G1) as [H1 [H2 [H3 [H4 [H5 H6]]]]]. cbn zeta in *.
  split; [exact H1|]. split; [exact H2|]. split; [exact H3|]. split; [exact H4|]. split; [congruence|].
  intros k' Hn. rewrite H6 by (intros X; apply Hn; now right). apply Fl1. intros ->. apply Hn. now left.
Qed.

Lemma sync_fold2 keys (now : nat -> bool) : forall ks s a removed,
  Inv s -> R s a -> (forall k, In k ks -> mem k keys = false -> now k = now_of s k \/ lookup (kmap s) k = None) ->
  let c := fold_left (sync_rm keys) ks (s, removed) in
  let d := fold_left (a_sync_rm keys now) ks (a, removed) in
  R (fst c) (fst d) /\ Inv (fst c) /\ snd c = snd d.
Proof.
  induction ks as [|k ks IH]; intros s a removed HI HR Hn; cbn [fold_left]; [cbn [fst snd]; auto|].
  assert (E1 : sync_rm keys (s, removed) k = if mem k keys then (s, removed) else (fst (remove_key s k), removed ++ [k])) by reflexivity.
  assert (E2 : a_sync_rm keys now (a, removed) k = if mem k keys then (a, removed) else (fst (a_remove a k (now k)), removed ++ [k])) by reflexivity.
  rewrite E1, E2. clear E1 E2. destruct (mem k keys) eqn:Em.
  - apply IH; auto. intros k0 Hk0. apply Hn. now right.
  - apply IH.
    + now apply remove_key_inv.
    + apply remove_key_refines_or; auto. apply Hn; [now left | exact Em].
    + intros k0 Hk0 Em0. destruct (Hn k0 (or_intror Hk0) Em0) as [E|E].
      * destruct (fl_remove_key s k k0 HI) as [X|X]; [now right|]. left. rewrite E. rewrite !now_of_fl, X. now rewrite delay_remove_key.
      * right. unfold remove_key. destruct (lookup (kmap s) k) as [r|] eqn:Ek; [|exact E]. cbn [fst]. unfold remove_rec.
        destruct (rremove (getr s r)); [exact E|]. destruct (N.eqb (delay s) 0 || failed (getr s r)).
        -- unfold remove_now. cbn [kmap set_kmap]. destruct (Nat.eq_dec k0 (rkey (getr s r))) as [->|Hne]; [apply lookup_delete_same|].
           rewrite lookup_delete_other by exact Hne. rewrite kmap_setr.
           destruct (stop_timer_frame (cancel_inst s (rcancel (getr s r))) (rretry (getr s r))) as [T1 _].
           destruct (cancel_inst_frame s (rcancel (getr s r))) as [C1 _]. now rewrite T1, C1.
        -- rewrite kmap_setr. exact E.
Qed.

Lemma mem_In k l : mem k l = true <-> In k l.
Proof.
  unfold mem. rewrite existsb_exists. split.
  - intros [x [Hx E]]. apply Nat.eqb_eq in E. now subst.
  - intros H. exists k. split; [exact H | apply Nat.eqb_refl].
Qed.

Theorem sync_keys_refines s a keys restart :
  Inv s -> R s a ->
  R (fst (sync_keys repaired s keys restart)) (fst (a_sync a keys (now_of s))) /\
  snd (sync_keys repaired s keys restart) = snd (a_sync a keys (now_of s)).
Proof.
  intros HI HR. unfold sync_keys.
  assert (HI' := Inv_norm_ctx s HI). assert (HR' : R (norm_ctx s) a) by (apply (R_Fr0 s); [apply Fr0_norm_ctx | exact HR]).
  assert (EN : now_of (norm_ctx s) = now_of s) by (unfold norm_ctx; destruct (root_canc s (kctx s)); reflexivity).
  rewrite <- EN. clear EN HI HR. revert HI' HR'. generalize (norm_ctx s). clear s. intros s HI HR. unfold sync_core, a_sync.
  destruct (sync_fold1 restart keys s a [] [] HI HR) as [H1 [H2 [H3 [H4 [H5 H6]]]]]. cbn zeta in *.
  destruct (fold_left (sync_one repaired restart) keys (s, [], [])) as [[s1 seen] added].
  destruct (fold_left a_sync_one keys (a, [], [])) as [[a1 seen'] added']. cbn [fst snd] in *. subst seen' added'.
  assert (EK : map fst (a_keys a1) = map fst (kmap s1)) by (destruct H1 as [_ [X _]]; exact X). rewrite EK.
  destruct (sync_fold2 keys (now_of s) (map fst (kmap s1)) s1 a1 [] H2 H1) as [G1 [G2 G3]].
  { intros k _ Em. left. rewrite !now_of_fl, H5. rewrite H6; [reflexivity|]. intros X. apply mem_In in X. congruence. }
  cbn zeta in *.
  destruct (fold_left (sync_rm keys) (map fst (kmap s1)) (s1, [])) as [s2 removed].
  destruct (fold_left (a_sync_rm keys (now_of s)) (map fst (kmap s1)) (a1, [])) as [a2 removed']. cbn [fst snd] in *. subst removed'.
  auto.
Qed.

(* ------------------------------------------------------------------ *)
(* all histories *)
Definition aev_of (s : st) (e : ev) : aev :=
  match e with
  | ESetKey k _ => ARequest k
  | ERemoveKey k => ARemove k (now_of s k)
  | ESyncKeys ks _ => ASync ks (now_of s)
  | EAddRef k => AAddRef k
  | ERelStart f => ARelStart f
  | ERelSect i => ARelSect i (now_of s)
  | ERcRemove k => ARcRemove k (now_of s k)
  | ETimerCb t => cb_aev s t
  | EBook i => ABump (length (timers (bookkeep s i)) - length (timers s))
  | _ => ANone
  end.

(* the alphabet of C06: everything except ResetRoutine / ResetAllRoutines *)
Definition c06_ev (e : ev) : bool := match e with EReset _ _ | EResetAll _ => false | _ => true end.

Theorem step_refines s a e : Inv s -> R s a -> c06_ev e = true -> R (step repaired s e) (astep a (aev_of s e)).
Proof.
  intros HI HR He. destruct e; cbn [step aev_of astep]; try discriminate.
  - apply (R_Fr0 s); [apply Fr0_set_context | exact HR].
  - now apply set_key_refines.
  - now apply remove_key_refines.
  - now apply sync_keys_refines.
  - exact HR.
  - apply (R_Fr0 s); [apply Fr0_restart_routine | exact HR].
  - apply (R_Fr0 s); [apply Fr0_restart_all | exact HR].
  - now apply add_key_ref_refines.
  - now apply release_start_refines.
  - now apply release_section_refines.
  - now apply rc_remove_key_refines.
  - apply (R_Fr0 s); [apply Fr0_proceed | exact HR].
  - apply (R_Fr0 s); [apply Fr0_wake | exact HR].
  - apply (R_Fr0 s); [apply Fr0_fn_return | exact HR].
  - now apply bookkeep_refines.
  - apply (R_Fr0 s); [apply Fr0_advance | exact HR].
  - now apply timer_cb_refines.
  - apply (R_Fr0 s); [apply Fr0_cancel_root | exact HR].
  - apply (R_Fr0 s); [split; [apply Fr_ext; reflexivity | reflexivity] | exact HR].
Qed.

(* the abstract run that accompanies a concrete history *)
Fixpoint arun (s : st) (a : ast) (es : list ev) : ast :=
  match es with [] => a | e :: es' => arun (step repaired s e) (astep a (aev_of s e)) es' end.

Lemma R_init dl sc : R (init dl sc) a_init.
Proof.
  unfold R, init, a_init. cbn [a_keys a_ctors a_ntok a_refs a_rels kmap ctors timers refs rels map length ssorted].
  split; [intros k; reflexivity|]. split; [reflexivity|]. split; [exact I|]. split; [reflexivity|]. split; [reflexivity|].
  split; [reflexivity|]. split; [reflexivity|]. intros k r t Hk. discriminate.
Qed.

Theorem run_refines_from : forall es s a, Inv s -> R s a -> forallb c06_ev es = true -> R (run repaired s es) (arun s a es).
Proof.
  induction es as [|e es IH]; intros s a HI HR Hes; cbn [run fold_left arun]; [exact HR|].
  cbn [forallb] in Hes. apply andb_true_iff in Hes as [He Hes].
  apply IH; [now apply step_inv | now apply step_refines | exact Hes].
Qed.

Theorem run_refines dl sc es : forallb c06_ev es = true -> R (run repaired (init dl sc) es) (arun (init dl sc) a_init es).
Proof. intros H. apply run_refines_from; [apply init_inv | apply R_init | exact H]. Qed.

(* what the calls return is what the specification says *)
Lemma lookup_notin {A} (m : list (nat * A)) k : ~ In k (map fst m) -> lookup m k = None.
Proof.
  induction m as [|[k' v] t IH]; cbn [lookup map fst]; [reflexivity|]. intros H.
  destruct (Nat.eqb_spec k' k) as [->|Hne]; [exfalso; apply H; now left | apply IH; intros X; apply H; now right].
Qed.

Lemma kwd_eq (f : nat -> aval) : forall (m : list (nat * nat)) (l : list (nat * aval)),
  map fst l = map fst m -> ssorted (map fst m) ->
  (forall k, lookup l k = match lookup m k with Some r => Some (f r) | None => None end) ->
  map (fun kv => (fst kv, fst (snd kv))) l = map (fun kr => (fst kr, fst (f (snd kr)))) m.
Proof.
  induction m as [|[k r] m IH]; intros [|[k' v] l] Hk Hs Hl; cbn [map fst] in *; try discriminate; [reflexivity|].
  inversion Hk; subst k'. destruct Hs as [Hh Ht].
  assert (Hv : v = f r) by (specialize (Hl k); cbn [lookup] in Hl; rewrite Nat.eqb_refl in Hl; congruence).
  subst v. cbn [snd fst]. f_equal. apply IH; [assumption | exact Ht |].
  intros k0. specialize (Hl k0). cbn [lookup] in Hl. destruct (Nat.eqb_spec k k0) as [->|Hne]; [|exact Hl].
  assert (N : ~ In k0 (map fst m)) by (intros X; rewrite Forall_forall in Hh; specialize (Hh k0 X); lia).
  rewrite (lookup_notin m k0 N). apply lookup_notin. now rewrite H1.
Qed.

Theorem returns_agree s a :
  Inv s -> R s a ->
  (forall k st, snd (set_key repaired s k st) = snd (a_request a k)) /\
  (forall k, snd (remove_key s k) = snd (a_remove a k (now_of s k))) /\
  (forall ks restart, snd (sync_keys repaired s ks restart) = snd (a_sync a ks (now_of s))) /\
  (forall k, snd (add_key_ref repaired s k) = snd (a_add_ref a k)) /\
  (forall k, snd (rc_remove_key s k) = snd (a_rc_remove a k (now_of s k))) /\
  (forall k, get_key s k = a_get_key a k) /\
  map fst (kmap s) = map fst (a_keys a) /\
  keys_with_data s = a_keys_with_data a.
Proof.
  intros HI HR.
  split; [intros; now apply set_key_refines|]. split; [intros; now apply remove_key_refines|].
  split; [intros; now apply sync_keys_refines|]. split; [intros; now apply add_key_ref_refines|].
  split; [intros; now apply rc_remove_key_refines|].
  destruct HR as [R1 [R2 [R3 _]]].
  split; [|split; [now rewrite R2|]].
  - intros k. unfold get_key, a_get_key. rewrite R1. unfold kinfo. destruct (lookup (kmap s) k); reflexivity.
  - unfold keys_with_data, a_keys_with_data. symmetry.
    apply (kwd_eq (fun r => (rdata (getr s r), rremove (getr s r))) (kmap s) (a_keys a) R2 R3). exact R1.
Qed.
