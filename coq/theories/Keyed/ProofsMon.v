(* keyed: the monitors of Spec.v on the model's own observations, part 1: every state the codec-level step function
   reaches is a state of the gate-level model (so all invariants of the slice hold there), and an observation the model
   produces parses back into exactly the projections of the model state it was made from. *)
From Util Require Import Common.Base Common.ListLemmas Keyed.Model Keyed.Spec Keyed.Proofs Keyed.ProofsC07 Keyed.ProofsTm
  Keyed.ProofsCancel.
Open Scope N_scope.

(* ------------------------------------------------------------------ *)
(* the bridge: one codec-level step = one model event followed by wake-ups *)
Definition wakes (n : nat) : list ev := map (fun i => EWake i true) (seq 0 n).

Lemma fold_left_map_gen {A B C} (f : A -> C -> A) (g : B -> C) (l : list B) : forall a,
  fold_left f (map g l) a = fold_left (fun a b => f a (g b)) l a.
Proof. induction l as [|b l IH]; intros a; cbn [map fold_left]; [reflexivity | apply IH]. Qed.

Lemma settle_run s : settle s = run repaired s (EAdvance 0 :: wakes (length (insts s))).
Proof. unfold settle, run, wakes. cbn [fold_left step]. now rewrite fold_left_map_gen. Qed.

Lemma run_app fx s es1 es2 : run fx s (es1 ++ es2) = run fx (run fx s es1) es2.
Proof. unfold run. apply fold_left_app. Qed.

Definition Reach (s : st) : Prop := exists dl sc es, s = run repaired (init dl sc) es.

Lemma Reach_step s e : Reach s -> Reach (step repaired s e).
Proof. intros (dl & sc & es & ->). exists dl, sc, (es ++ [e]). now rewrite run_app. Qed.
Lemma Reach_run s es : Reach s -> Reach (run repaired s es).
Proof. intros (dl & sc & es0 & ->). exists dl, sc, (es0 ++ es). now rewrite run_app. Qed.
Lemma Reach_settle s : Reach s -> Reach (settle s).
Proof. intros H. rewrite settle_run. now apply Reach_run. Qed.

Lemma Reach_W s : Reach s -> W s. Proof. intros (dl & sc & es & ->). apply run_W. Qed.
Lemma Reach_Inv s : Reach s -> Inv s. Proof. intros H. apply Reach_W, H. Qed.
Lemma Reach_InvL s : Reach s -> InvL s. Proof. intros H. apply Reach_W, H. Qed.
Lemma Reach_InvC s : Reach s -> InvC s. Proof. intros (dl & sc & es & ->). apply run_InvC. Qed.
Lemma Reach_InvClk s : Reach s -> InvClk s. Proof. intros (dl & sc & es & ->). apply run_InvClk. Qed.

Lemma hstep_inv h e h' o :
  hstep h e = Some (h', o) ->
  exists ev rets, dec h e = Some (ev, rets) /\
    h' = {| hs := settle (step repaired (hs h) ev); hvar := hvar h; hlog := length (cblog (settle (step repaired (hs h) ev))) |} /\
    o = obs_of rets {| hs := hs h'; hvar := hvar h; hlog := hlog h |}.
Proof.
  unfold hstep. destruct (dec h e) as [[ev rets]|]; [|discriminate]. intros E. inversion E; subst. cbn [hs]. eauto.
Qed.

(* ------------------------------------------------------------------ *)
(* parsing an observation *)
Lemma n2n_of_nat n : n2n (N.of_nat n) = n. Proof. apply Nnat.Nat2N.id. Qed.

Lemma take_app {A} (l rest : list A) : take (length l) (l ++ rest) = Some (l, rest).
Proof. induction l as [|x l IH]; cbn [length take app]; [reflexivity | now rewrite IH]. Qed.

Lemma take2_app {A} (f : A -> N * N) (l : list A) rest :
  take2 (length l) (concat (map (fun x => [fst (f x); snd (f x)]) l) ++ rest) = Some (map f l, rest).
Proof.
  induction l as [|x l IH]; cbn [length take2 map concat app]; [reflexivity|].
  rewrite IH. destruct (f x); reflexivity.
Qed.
Lemma take3_app {A} (f : A -> N * N * N) (l : list A) rest :
  take3 (length l) (concat (map (fun x => let '(a, b, c) := f x in [a; b; c]) l) ++ rest) = Some (map f l, rest).
Proof.
  induction l as [|x l IH]; cbn [length take3 map concat app]; [reflexivity|].
  destruct (f x) as [[a b] c] eqn:E. cbn [app]. rewrite IH. reflexivity.
Qed.
Lemma take5_app {A} (f : A -> N * N * N * N * N) (l : list A) rest :
  take5 (length l) (concat (map (fun x => let '(a, b, c, d, g) := f x in [a; b; c; d; g]) l) ++ rest) = Some (map f l, rest).
Proof.
  induction l as [|x l IH]; cbn [length take5 map concat app]; [reflexivity|].
  destruct (f x) as [[[[a b] c] d] g] eqn:E. cbn [app]. rewrite IH. reflexivity.
Qed.

(* the projections of a model state that an observation carries *)
Definition icode5 (x : inst) : N * N * N * N * N :=
  let k := N.of_nat (ikey x) in
  match ipcv x with
  | IGate0 => (1, k, 0, 0, 0)
  | IWait | IWaitC => (2, k, 0, 0, 0)
  | IUser => (3, k, idata x, N.of_nat (iroot x), nb (icanc x))
  | IBook _ => (4, k, 0, 0, 0)
  | IDone => (5, k, 0, 0, 0)
  end.
Definition tcode3 (ts : list timer) (t : nat) : N * N * N :=
  let x := nth t ts timer0 in (nb (tkind x), N.of_nat (tkey x), tdead x).
Definition dcode3 (x : nat * N * outcome) : N * N * N := let '(k, d, o) := x in (N.of_nat k, d, enc_out o).
Definition relcode (l : relc) : N := if lparked l then 1 else 2.

Definition pobs_of (rets : list N) (s : st) (lg : nat) : pobs :=
  {| po_rets := rets;
     po_keys := map (fun kd => (N.of_nat (fst kd), snd kd)) (keys_with_data s);
     po_insts := map icode5 (insts s);
     po_delta := map dcode3 (skipn lg (cblog s));
     po_tims := map (tcode3 (timers s)) (fired_sorted (timers s));
     po_rels := map relcode (rels s) |}.

Lemma length_insert_t ts t l : length (insert_t ts t l) = S (length l).
Proof. induction l as [|u r IH]; cbn [insert_t length]; [reflexivity|]. destruct (tlt _ _); cbn [length]; now rewrite ?IH. Qed.

Lemma length_fired_sorted_gen ts : forall l acc,
  length (fold_left (fun acc t => if is_fired (nth t ts timer0) then insert_t ts t acc else acc) l acc) =
  (length acc + cnt (fun t => is_fired (nth t ts timer0)) l)%nat.
Proof.
  induction l as [|t l IH]; intros acc; cbn [fold_left]; [unfold cnt; cbn; lia|].
  rewrite IH, cnt_cons. destruct (is_fired (nth t ts timer0)); [rewrite length_insert_t|]; cbn; lia.
Qed.
Lemma map_nth_seq {A} (d : A) (l : list A) : map (fun t => nth t l d) (seq 0 (length l)) = l.
Proof.
  induction l as [|h t IH]; [reflexivity|]. cbn [length seq map nth]. f_equal.
  rewrite <- seq_shift, map_map. cbn [nth]. exact IH.
Qed.
Lemma cnt_map {A B} (P : B -> bool) (f : A -> B) (l : list A) : cnt P (map f l) = cnt (fun x => P (f x)) l.
Proof. induction l as [|h t IH]; [reflexivity|]. cbn [map]. now rewrite !cnt_cons, IH. Qed.
Lemma length_fired_sorted ts : length (fired_sorted ts) = cnt is_fired ts.
Proof.
  unfold fired_sorted. rewrite length_fired_sorted_gen. cbn [length Nat.add].
  transitivity (cnt is_fired (map (fun t => nth t ts timer0) (seq 0 (length ts)))); [now rewrite cnt_map | now rewrite map_nth_seq].
Qed.

Lemma skipn_length_sub {A} (n : nat) (l : list A) : length (skipn n l) = (length l - n)%nat.
Proof. apply skipn_length. Qed.

(* what the codec hands back as return values has the shape the parser expects for that event *)
Definition rets_ok (e rets : list N) : Prop := forall tail, take_rets e (rets ++ tail) = Some (rets, tail).

Lemma length_ins_nat k l : length (ins_nat k l) = S (length l).
Proof. induction l as [|h t IH]; cbn [ins_nat length]; [reflexivity|]. destruct (Nat.leb k h); cbn [length]; now rewrite ?IH. Qed.
Lemma length_sort_nat l : length (sort_nat l) = length l.
Proof. induction l as [|h t IH]; [reflexivity|]. cbn [sort_nat fold_right]. fold (sort_nat t). now rewrite length_ins_nat, IH. Qed.

Lemma take_enc_keys l tail : take (n2n (N.of_nat (length l))) (map N.of_nat (sort_nat l) ++ tail) = Some (map N.of_nat (sort_nat l), tail).
Proof. rewrite n2n_of_nat. rewrite <- (length_sort_nat l), <- (map_length N.of_nat). apply take_app. Qed.

Lemma dec_rets_ok h e ev rets : dec h e = Some (ev, rets) -> rets_ok e rets.
Proof.
  unfold dec. intros D tail.
  destruct e as [|a e]; [discriminate|].
  destruct a as [|p]; [discriminate|].
  do 5 (try (destruct p as [p|p|])); try discriminate D;
  repeat (match type of D with
          | context [match ?l with nil => _ | cons _ _ => _ end] => is_var l; destruct l
          end; try discriminate D);
  repeat match type of D with
         | context [if hvar h then _ else _] => destruct (hvar h); try discriminate D
         | context [let '(_, _) := ?x in _] => destruct x as [? ?]
         | context [match nth_error ?a ?b with _ => _ end] => destruct (nth_error a b); try discriminate D
         | context [match ipcv ?x with _ => _ end] => destruct (ipcv x); try discriminate D
         | context [if lparked ?x then _ else _] => destruct (lparked x); try discriminate D
         | context [if nz ?x then _ else _] => destruct (nz x); try discriminate D
         end;
  inversion D; subst; try reflexivity.
  all: unfold enc_keys; cbn [take_rets app]; rewrite <- ?app_assoc; rewrite ?take_enc_keys; cbn [app]; rewrite ?take_enc_keys; reflexivity.
Qed.

Lemma icode_icode5 x : icode x = let '(a, b, c, d, g) := icode5 x in [a; b; c; d; g].
Proof. unfold icode, icode5. destruct (ipcv x); reflexivity. Qed.

Lemma parse_obs e rets s v lg :
  rets_ok e rets ->
  parse e (obs_of rets {| hs := s; hvar := v; hlog := lg |}) = Some (pobs_of rets s lg).
Proof.
  intros Hr. unfold parse, obs_of. cbn [hs hlog]. rewrite Hr. cbn [app].
  (* keys *)
  rewrite n2n_of_nat.
  replace (length (kmap s)) with (length (keys_with_data s)) by (unfold keys_with_data; apply map_length).
  change (concat (map (fun kd : nat * N => [N.of_nat (fst kd); snd kd]) (keys_with_data s)))
    with (concat (map (fun kd : nat * N => [fst (N.of_nat (fst kd), snd kd); snd (N.of_nat (fst kd), snd kd)]) (keys_with_data s))).
  rewrite (take2_app (fun kd : nat * N => (N.of_nat (fst kd), snd kd))). cbn [app].
  (* instances *)
  rewrite n2n_of_nat.
  rewrite (map_ext icode _ icode_icode5). rewrite (take5_app icode5). cbn [app].
  (* exit callbacks *)
  rewrite n2n_of_nat. rewrite <- skipn_length.
  rewrite (map_ext (fun x : nat * N * outcome => let '(k, d, o) := x in [N.of_nat k; d; enc_out o])
                   (fun x => let '(a, b, c) := dcode3 x in [a; b; c])) by (intros [[k d] o]; reflexivity).
  rewrite (take3_app dcode3). cbn [app].
  (* timers *)
  rewrite n2n_of_nat, <- length_fired_sorted.
  rewrite (map_ext (tcode (timers s)) (fun t => let '(a, b, c) := tcode3 (timers s) t in [a; b; c])) by (intros t; reflexivity).
  rewrite (take3_app (tcode3 (timers s))). cbn [app].
  (* Release calls *)
  rewrite n2n_of_nat. rewrite <- (map_length (fun l : relc => if lparked l then 1 else 2) (rels s)).
  rewrite <- (app_nil_r (map (fun l : relc => if lparked l then 1 else 2) (rels s))) at 2.
  rewrite take_app. reflexivity.
Qed.

(* ------------------------------------------------------------------ *)
(* the codec, case by case *)
Inductive DecCase (h : hst) : list N -> ev -> list N -> Prop :=
| DC1 c r : DecCase h [1; c; r] (ESetCtx (n2n c) (nz r)) []
| DC2 k st : hvar h = false ->
    DecCase h [2; k; st] (ESetKey (n2n k) (nz st))
            [fst (snd (set_key repaired (hs h) (n2n k) (nz st))); nb (snd (snd (set_key repaired (hs h) (n2n k) (nz st))))]
| DC3 k : hvar h = false -> DecCase h [3; k] (ERemoveKey (n2n k)) [nb (snd (remove_key (hs h) (n2n k)))]
| DC4 r ks : hvar h = false ->
    DecCase h (4 :: r :: ks) (ESyncKeys (sort_nat (map n2n ks)) (nz r))
            (enc_keys (fst (snd (sync_keys repaired (hs h) (sort_nat (map n2n ks)) (nz r))))
             ++ enc_keys (snd (snd (sync_keys repaired (hs h) (sort_nat (map n2n ks)) (nz r)))))
| DC5 k : DecCase h [5; k] EGet [fst (get_key (hs h) (n2n k)); nb (snd (get_key (hs h) (n2n k)))]
| DC6 k c : DecCase h [6; k; c] (EReset (n2n k) (n2n c))
                    [nb (fst (snd (reset_routine repaired (hs h) (n2n k) (n2n c)))); nb (snd (snd (reset_routine repaired (hs h) (n2n k) (n2n c))))]
| DC7 k c : DecCase h [7; k; c] (ERestart (n2n k) (n2n c))
                    [nb (fst (snd (restart_routine (hs h) (n2n k) (n2n c)))); nb (snd (snd (restart_routine (hs h) (n2n k) (n2n c))))]
| DC8 c : DecCase h [8; c] (EResetAll (n2n c))
                  [N.of_nat (fst (snd (reset_all repaired (hs h) (n2n c)))); N.of_nat (snd (snd (reset_all repaired (hs h) (n2n c))))]
| DC9 c : DecCase h [9; c] (ERestartAll (n2n c))
                  [N.of_nat (fst (snd (restart_all (hs h) (n2n c)))); N.of_nat (snd (snd (restart_all (hs h) (n2n c))))]
| DC10 k : hvar h = true ->
    DecCase h [10; k] (EAddRef (n2n k))
            [fst (snd (add_key_ref repaired (hs h) (n2n k))); nb (snd (snd (add_key_ref repaired (hs h) (n2n k))))]
| DC11 f x : hvar h = true -> nth_error (refs (hs h)) (n2n f) = Some x -> DecCase h [11; f] (ERelStart (n2n f)) []
| DC12 a l : hvar h = true -> nth_error (rels (hs h)) (n2n a) = Some l -> lparked l = true -> DecCase h [12; a] (ERelSect (n2n a)) []
| DC13 k : hvar h = true -> DecCase h [13; k] (ERcRemove (n2n k)) [nb (snd (rc_remove_key (hs h) (n2n k)))]
| DC14 i en x : nth_error (insts (hs h)) (n2n i) = Some x -> ipcv x = IGate0 -> DecCase h [14; i; en] (EProceed (n2n i) (nz en)) []
| DC15 i o x : nth_error (insts (hs h)) (n2n i) = Some x -> ipcv x = IUser -> DecCase h [15; i; o] (EReturn (n2n i) (dec_out o)) []
| DC16 i x o : nth_error (insts (hs h)) (n2n i) = Some x -> ipcv x = IBook o -> DecCase h [16; i] (EBook (n2n i)) []
| DC17 d : DecCase h [17; d] (EAdvance d) []
| DC18 j t : nth_error (fired_sorted (timers (hs h))) (n2n j) = Some t -> DecCase h [18; j] (ETimerCb t) []
| DC19 : DecCase h [19] EGet (enc_keys (map fst (kmap (hs h))))
| DC21 c : nz c = true -> DecCase h [21; c] (ECancelRoot (n2n c)) []
| DC22 m : DecCase h [22; m] (ESetNil (n2n m)) [].

Lemma dec_case h e ev rets : dec h e = Some (ev, rets) -> DecCase h e ev rets.
Proof.
  unfold dec. intros D.
  destruct e as [|a e]; [discriminate|].
  destruct a as [|p]; [discriminate|].
  do 5 (try (destruct p as [p|p|])); try discriminate D;
  repeat (match type of D with
          | context [match ?l with nil => _ | cons _ _ => _ end] => is_var l; destruct l
          end; try discriminate D);
  repeat match type of D with
         | context [if hvar h then _ else _] => destruct (hvar h) eqn:?; try discriminate D
         | context [let '(_, _) := ?x in _] => rewrite (surjective_pairing x) in D
         | context [match nth_error ?a ?b with _ => _ end] => destruct (nth_error a b) eqn:?; try discriminate D
         | context [match ipcv ?x with _ => _ end] => destruct (ipcv x) eqn:?; try discriminate D
         | context [if lparked ?x then _ else _] => destruct (lparked x) eqn:?; try discriminate D
         | context [if nz ?x then _ else _] => destruct (nz x) eqn:?; try discriminate D
         end;
  inversion D; subst; econstructor; eauto.
Qed.
