(* keyed: clause 7/5 on the model's own observations: a retry obligation of the monitors - key k must be started again at
   deadline d - is the pending retry of the record registered under k: a live retry timer of that record with deadline d;
   the monitors' back-off index of a record is the record's.  When the deadline has passed the timer has fired (no armed timer
   is due after the eager schedule): its callback is parked. *)
From Util Require Import Common.Base Common.ListLemmas Keyed.Model Keyed.Spec Keyed.Proofs Keyed.AbsSpec Keyed.ProofsC06 Keyed.ProofsC06b Keyed.ProofsC07 Keyed.ProofsTm
  Keyed.ProofsWalk Keyed.ProofsMono Keyed.ProofsData Keyed.ProofsKeys Keyed.ProofsMon Keyed.ProofsMon2 Keyed.ProofsInc Keyed.ProofsMonAll
  Keyed.ProofsWalk2 Keyed.ProofsTimers Keyed.ProofsTimers2 Keyed.ProofsRef Keyed.ProofsReset Keyed.ProofsRefSim Keyed.ProofsKI Keyed.ProofsRefStep
  Keyed.ProofsRetry Keyed.ProofsRetryRef.
Open Scope N_scope.

Definition bo_of (bo : list (N * nat)) (key : N) : nat := match alook bo key with Some i => i | None => 0%nat end.

Record RRet (m : mst) (s : st) : Prop := {
  rr_sorted : asorted (map fst (m_retry m));
  rr_none : m_script m = None -> m_retry m = [];
  rr_ob : forall k dl, alook (m_retry m) k = Some dl ->
            exists rec t x, lookup (kmap s) (n2n k) = Some rec /\ rretry (getr s rec) = Some t /\ nth_error (timers s) t = Some x /\ live x /\ tdead x = dl;
  rr_bo : m_script m <> None -> forall r, (r < length (recs s))%nat -> bo_of (m_bo m) (pkr s r) = rbo (getr s r);
  rr_ent : forall key i, alook (m_bo m) key = Some i -> exists r, (r < length (recs s))%nat /\ key = pkr s r;
}.

(* 7/5 from the relation *)
Lemma c75_of_RRet m e p m' s' :
  Reach s' -> AD s' -> RRet m' s' -> m_retry m' = retry3_of m e p -> e_clock m e = clock s' ->
  po_tims p = map (tcode3 (timers s')) (fired_sorted (timers s')) -> c75 m e p = true.
Proof.
  intros HR HA HRR Em Ec Et. unfold c75. rewrite <- Em, Ec, Et. apply forallb_forall. intros [k dl] Hin. cbn [fst snd].
  pose proof (In_alook_sorted _ k dl (rr_sorted _ _ HRR) Hin) as Hk.
  destruct (rr_ob _ _ HRR k dl Hk) as (rec & t & x & Hreg & Hr & Hx & Lx & Ed).
  destruct (N.leb_spec dl (clock s')) as [L|L]; [|reflexivity]. cbn [negb orb].
  pose proof (Reach_J _ HR) as HJ. destruct (j_rt _ HJ rec t Hr) as (x1 & Hx1 & Kx). rewrite Hx in Hx1. inversion Hx1; subst x1.
  pose proof (Reach_J2 _ HR) as HJ2. destruct (j2_rt _ HJ2 rec t Hr) as (x2 & Hx2 & Tx). rewrite Hx in Hx2. inversion Hx2; subst x2.
  assert (Ef : tst x = TFired) by (destruct Lx as [T|T]; [pose proof (HA t x Hx T); lia | exact T]).
  destruct (fired_sorted_spec (timers s')) as [_ FS].
  assert (In' : In t (fired_sorted (timers s'))).
  { apply FS. split; [eapply nth_error_nth_len; eauto|]. rewrite (nth_error_nth _ _ timer0 Hx). unfold is_fired. now rewrite Ef. }
  unfold parked_retry. apply existsb_exists. exists (tcode3 (timers s') t). split; [now apply List.in_map|].
  unfold tcode3. rewrite (nth_error_nth _ _ timer0 Hx), Kx. destruct (j_tk _ HJ t x Hx) as [_ Etk]. destruct (j_wk _ HJ _ rec Hreg) as [_ Erk].
  rewrite Etk, Tx, Erk, N_of_n2n. cbn [nb]. now rewrite !N.eqb_refl.
Qed.

(* the obligations an event keeps *)
Lemma retry0_look m e k dl : alook (retry0_of m e) k = Some dl -> alook (m_retry m) k = Some dl /\ resets e k = false.
Proof.
  unfold retry0_of, resets. intros H.
  repeat match type of H with
         | context [match ?l with _ => _ end] => is_var l; destruct l
         end; try (split; [exact H | reflexivity]); try discriminate H.
  - (* 6 *) destruct (cond_ok n0 n) eqn:Ec.
    + destruct (N.eq_dec k n) as [->|Hne]; [rewrite alook_adel_same in H; discriminate|]. rewrite alook_adel_other in H by exact Hne.
      split; [exact H|]. destruct (N.eqb_spec k n); [contradiction | reflexivity].
    + split; [exact H | now rewrite andb_false_r].
  - (* 8 *) change (fun kd : N * N => negb (cond_ok n (fst kd))) with (fun kd : N * N => (fun k0 => negb (cond_ok n k0)) (fst kd)) in H.
    rewrite alook_filter_key in H. destruct (cond_ok n k); [discriminate | auto].
Qed.
Lemma retry0_sorted m e : asorted (map fst (m_retry m)) -> asorted (map fst (retry0_of m e)).
Proof.
  intros Hs. unfold retry0_of.
  repeat match goal with
         | |- context [match ?l with _ => _ end] => is_var l; destruct l
         end; try exact Hs; try exact I.
  - destruct (cond_ok n0 n); [now apply asorted_adel | exact Hs].
  - now apply asorted_filter.
Qed.
Lemma retry0_nil m e : m_retry m = [] -> retry0_of m e = [].
Proof.
  intros E. unfold retry0_of. rewrite E.
  repeat match goal with
         | |- context [match ?l with _ => _ end] => is_var l; destruct l
         end; try reflexivity. destruct (cond_ok n0 n); reflexivity.
Qed.

Lemma bo_of_none bo key : alook bo key = None -> bo_of bo key = 0%nat. Proof. unfold bo_of. now intros ->. Qed.

Section NoLog.
  Variables (m : mst) (h : hst) (a : ast).
  Hypothesis Hh : HR h.
  Hypothesis Hrel : Rel m h.
  Hypothesis HK : RK (m_ref m) (hs h).
  Hypothesis HRa : R (hs h) a.
  Hypothesis HAD : AD (hs h).
  Hypothesis HT : m_tims m = map (tcode3 (timers (hs h))) (fired_sorted (timers (hs h))).
  Hypothesis HRR : RRet m (hs h).
  Variables (e : list N) (ev : ev) (rets : list N).
  Hypothesis Hc : DecCase h e ev rets.
  Variable X : nat -> Prop.
  Hypothesis HP : POx X (hs h) (next h ev).
  Hypothesis HX : forall t, X t -> e_live m e = false.

  Let s := hs h.
  Let s' := next h ev.
  Let p := pobs_of rets s' (hlog h).

  Lemma nolog_delta : po_delta p = [].
  Proof. unfold p, s'. cbn [po_delta pobs_of]. rewrite (px_cblog _ _ _ HP). destruct Hh as [_ E]. rewrite E, skipn_all. reflexivity. Qed.
  Lemma nolog_retry1 : retry1_of m e p = (m_bo m, retry0_of m e).
  Proof. unfold retry1_of. now rewrite nolog_delta. Qed.

  Lemma Reach_s'_n : Reach s'. Proof. apply Reach_settle, Reach_step, Hh. Qed.

  Theorem RRet_nolog : RRet (fst (mon1 m e p)) s'.
  Proof.
    pose proof (Reach_J _ (hr_reach _ Hh)) as HJ. pose proof (Reach_J2 _ (hr_reach _ Hh)) as HJ2.
    pose proof (Reach_J _ Reach_s'_n) as HJ'. pose proof (Reach_ID _ Reach_s'_n) as ((W1' & W2') & D1' & D2' & D4').
    pose proof (px_mono _ _ _ HP) as M. fold s s' in M.
    constructor; cbn [fst mon1 m_retry m_bo m_script].
    - (* sorted *) unfold retry3_of. destruct (e_live m e); [|exact I]. apply asorted_filter, asorted_fold_adel. rewrite nolog_retry1. cbn [snd].
      apply retry0_sorted, HRR.
    - (* no script: no obligations *) intros Hs. unfold retry3_of. destruct (e_live m e); [|reflexivity]. rewrite nolog_retry1. cbn [snd].
      rewrite (retry0_nil m e (rr_none _ _ HRR Hs)). generalize (map ikey_of (news_of m p)). intros l. induction l as [|x l IH]; [reflexivity | exact IH].
    - (* the obligations that are kept *)
      intros k dl Hk. unfold retry3_of in Hk. destruct (e_live m e) eqn:El; [|discriminate]. rewrite nolog_retry1 in Hk. cbn [snd] in Hk.
      change (fun kd : N * N => ahas (po_keys p) (fst kd)) with (fun kd : N * N => (fun k0 => ahas (po_keys p) k0) (fst kd)) in Hk.
      rewrite alook_filter_key in Hk. destruct (ahas (po_keys p) k) eqn:Epres; [|discriminate].
      rewrite alook_fold_adel in Hk. destruct (nmem k (map ikey_of (news_of m p))) eqn:En; [discriminate|].
      destruct (retry0_look m e k dl Hk) as [Hk0 Hres].
      destruct (rr_ob _ _ HRR k dl Hk0) as (rec & t & x & Hreg & Hr & Hx & Lx & Ed). fold s in Hreg, Hr, Hx.
      destruct (j_wk _ HJ _ rec Hreg) as [Rl Rk].
      assert (HOb : Ob s rec t) by (split; [exact Rl|]; split; [eapply J_registered_in_map; eauto|]; split; [exact Hr | eauto]).
      assert (Rk' : rkey (getr s' rec) = n2n k) by (rewrite (Mono_rkey _ _ _ M Rl); exact Rk).
      destruct (px_ob _ _ _ HP rec t HOb) as [(Hl' & Hm' & Hr' & x' & Hx' & Lx')|[S1|[U1|X1]]].
      + (* still pending *)
        exists rec, t, x'. fold s'. split; [rewrite <- Rk'; now apply in_map_lookup|]. split; [exact Hr'|]. split; [exact Hx'|]. split; [exact Lx'|].
        destruct (mo_timers _ _ M t x Hx) as (x2 & Hx2 & (_ & _ & _ & T4)). unfold s' in Hx2. rewrite Hx' in Hx2. inversion Hx2; subst x2. congruence.
      + (* an instance was started for the record: the key is among the new instances *)
        exfalso. destruct S1 as (i & y & Hi & Hy & Hir). apply nmem_false in En. apply En. unfold news_of, p. cbn [po_insts pobs_of].
        destruct Hrel as [_ _ Hn _ _]. rewrite Hn. apply news_keys. exists i, y. split; [exact Hi|]. split; [exact Hy|].
        destruct (D4' i y Hy) as (_ & Eky & _). rewrite Eky, Hir, Rk'. apply N_of_n2n.
      + (* the record is not registered any more, the key is present: only a reset does that *)
        exfalso. fold s' in U1. unfold p in Epres. rewrite po_keys_okeys in Epres. unfold ahas in Epres. rewrite alook_okeys in Epres. fold s' in Epres.
        destruct (lookup (kmap s') (n2n k)) as [rec'|] eqn:Ek'; [|discriminate].
        assert (Hne : rec' <> rec) by (intros ->; rewrite (J_registered_in_map s' (n2n k) rec HJ' Ek') in U1; discriminate).
        pose proof (r1_keys m h a Hh Hrel HK HRa HAD HT e ev rets Hc k) as G. fold s' in G. rewrite Ek' in G. destruct G as (i1 & E1 & Ed1 & _).
        destruct (StepF_r_step (m_delay m) (m_clock m) (m_ctx m) (m_tims m) (e_late e (pobs_of rets s' (hlog h))) (ahas (po_keys (pobs_of rets s' (hlog h)))) (m_ref m) e) as [_ SF].
        pose proof (rk_keys _ _ HK k) as Epre. unfold KI in Epre. fold s in Epre. rewrite Hreg in Epre.
        destruct (SF k i1 E1) as [(i0 & Ei0 & Edi & _)|(_ & c & C1 & C2 & _)].
        * rewrite Epre in Ei0. inversion Ei0; subst i0. cbn [ki_data] in Edi.
          destruct (mo_recs _ _ M rec Rl) as (Rl' & _ & _ & Dd). destruct (W1' _ _ Ek') as [Lr' Kr'].
          apply Hne. apply D2'; [exact Lr' | exact Rl' | congruence | congruence].
        * pose proof (ctor_kept (m_delay m) (m_clock m) (m_ctx m) (m_tims m) (e_late e (pobs_of rets s' (hlog h))) (ahas (po_keys (pobs_of rets s' (hlog h)))) (m_ref m) e k) as CK.
          assert (Hp : ahas (r_keys (m_ref m)) k = true) by (unfold ahas; now rewrite Epre). specialize (CK Hp Hres). rewrite CK in C2. lia.
      + pose proof (HX t X1) as E2. congruence.
    - (* back-off indices *)
      intros Hs r Hr. rewrite nolog_retry1. cbn [fst]. fold s'. destruct (Nat.lt_ge_cases r (length (recs s))) as [Hl|Hl].
      + rewrite (pkr_mono s s' r M Hl). pose proof (px_bo_old _ _ _ HP r Hl) as Eb. fold s' in Eb. rewrite Eb. now apply (rr_bo _ _ HRR).
      + pose proof (px_bo_new _ _ _ HP r Hl) as Eb. fold s' in Eb. rewrite Eb. apply bo_of_none. destruct (alook (m_bo m) (pkr s' r)) as [i|] eqn:E; [|reflexivity]. exfalso.
        destruct (rr_ent _ _ HRR _ _ E) as (r0 & L0 & E0). fold s in L0, E0. rewrite <- (pkr_mono s s' r0 M L0) in E0.
        apply pkr_inj in E0; [lia | apply Reach_ID, Reach_s'_n | exact Hr | apply (mo_recs _ _ M r0 L0)].
    - intros key i Hi. rewrite nolog_retry1 in Hi. cbn [fst] in Hi. destruct (rr_ent _ _ HRR _ _ Hi) as (r0 & L0 & E0). fold s in L0, E0.
      exists r0. fold s'. split; [apply (mo_recs _ _ M r0 L0) | now rewrite (pkr_mono s s' r0 M L0)].
  Qed.
End NoLog.
