(* keyed: clause 7/5 on the model's own observations: a retry obligation of the monitors - key k must be started again at
   deadline d - is the pending retry of the record registered under k: a live retry timer of that record with deadline d;
   the monitors' back-off index of a record is the record's.  When the deadline has passed the timer has fired (no armed timer
   is due after the eager schedule): its callback is parked. *)
From Util Require Import Common.Base Common.ListLemmas Keyed.Model Keyed.Spec Keyed.Proofs Keyed.AbsSpec Keyed.ProofsC06 Keyed.ProofsC06b Keyed.ProofsC07 Keyed.ProofsTm
  Keyed.ProofsWalk Keyed.ProofsMono Keyed.ProofsData Keyed.ProofsKeys Keyed.ProofsMon Keyed.ProofsMon2 Keyed.ProofsInc Keyed.ProofsMonAll
  Keyed.ProofsWalk2 Keyed.ProofsTimers Keyed.ProofsTimers2 Keyed.ProofsRef Keyed.ProofsReset Keyed.ProofsRefSim Keyed.ProofsKI Keyed.ProofsRefStep
  Keyed.ProofsRetry Keyed.ProofsRetryRef.
Open Scope N_scope.

Definition bo_of (bo : list (N * nat)) (key : N) : nat := match alook bo key with Some i => i | None => 0%nat end.

Record RRet (m : mst) (s : st) : Prop := {
  rr_sorted : asorted (map fst (m_retry m));
  rr_none : m_script m = None -> m_retry m = [];
  rr_ob : forall k dl, alook (m_retry m) k = Some dl ->
            exists rec t x, lookup (kmap s) (n2n k) = Some rec /\ rretry (getr s rec) = Some t /\ nth_error (timers s) t = Some x /\ live x /\ tdead x = dl;
  rr_bo : m_script m <> None -> forall r, (r < length (recs s))%nat -> bo_of (m_bo m) (pkr s r) = rbo (getr s r);
  rr_ent : forall key i, alook (m_bo m) key = Some i -> exists r, (r < length (recs s))%nat /\ key = pkr s r;
}.

(* 7/5 from the relation *)
Lemma c75_of_RRet m e p m' s' :
  Reach s' -> AD s' -> RRet m' s' -> m_retry m' = retry3_of m e p -> e_clock m e = clock s' ->
  po_tims p = map (tcode3 (timers s')) (fired_sorted (timers s')) -> c75 m e p = true.
Proof.
  intros HR HA HRR Em Ec Et. unfold c75. rewrite <- Em, Ec, Et. apply forallb_forall. intros [k dl] Hin. cbn [fst snd].
  pose proof (In_alook_sorted _ k dl (rr_sorted _ _ HRR) Hin) as Hk.
  destruct (rr_ob _ _ HRR k dl Hk) as (rec & t & x & Hreg & Hr & Hx & Lx & Ed).
  destruct (N.leb_spec dl (clock s')) as [L|L]; [|reflexivity]. cbn [negb orb]. destruct (e_live m e); [|reflexivity]. cbn [negb orb].
  pose proof (Reach_J _ HR) as HJ. destruct (j_rt _ HJ rec t Hr) as (x1 & Hx1 & Kx). rewrite Hx in Hx1. inversion Hx1; subst x1.
  pose proof (Reach_J2 _ HR) as HJ2. destruct (j2_rt _ HJ2 rec t Hr) as (x2 & Hx2 & Tx). rewrite Hx in Hx2. inversion Hx2; subst x2.
  assert (Ef : tst x = TFired) by (destruct Lx as [T|T]; [pose proof (HA t x Hx T); lia | exact T]).
  destruct (fired_sorted_spec (timers s')) as [_ FS].
  assert (In' : In t (fired_sorted (timers s'))).
  { apply FS. split; [eapply nth_error_nth_len; eauto|]. rewrite (nth_error_nth _ _ timer0 Hx). unfold is_fired. now rewrite Ef. }
  unfold parked_retry. apply existsb_exists. exists (tcode3 (timers s') t). split; [now apply List.in_map|].
  unfold tcode3. rewrite (nth_error_nth _ _ timer0 Hx), Kx. destruct (j_tk _ HJ t x Hx) as [_ Etk]. destruct (j_wk _ HJ _ rec Hreg) as [_ Erk].
  rewrite Etk, Tx, Erk, N_of_n2n. cbn [nb]. now rewrite !N.eqb_refl.
Qed.

(* the obligations an event keeps *)
Lemma retry0_look m e k dl : alook (retry0_of m e) k = Some dl -> alook (m_retry m) k = Some dl /\ resets e k = false.
Proof.
  unfold retry0_of, resets. intros H.
  repeat match type of H with
         | context [match ?l with _ => _ end] => is_var l; destruct l
         end; try (split; [exact H | reflexivity]); try discriminate H.
  - (* 6 *) destruct (cond_ok n0 n) eqn:Ec.
    + destruct (N.eq_dec k n) as [->|Hne]; [rewrite alook_adel_same in H; discriminate|]. rewrite alook_adel_other in H by exact Hne.
      split; [exact H|]. destruct (N.eqb_spec k n); [contradiction | reflexivity].
    + split; [exact H | now rewrite andb_false_r].
  - (* 8 *) change (fun kd : N * N => negb (cond_ok n (fst kd))) with (fun kd : N * N => (fun k0 => negb (cond_ok n k0)) (fst kd)) in H.
    rewrite alook_filter_key in H. destruct (cond_ok n k); [discriminate | auto].
Qed.
Lemma retry0_sorted m e : asorted (map fst (m_retry m)) -> asorted (map fst (retry0_of m e)).
Proof.
  intros Hs. unfold retry0_of.
  repeat match goal with
         | |- context [match ?l with _ => _ end] => is_var l; destruct l
         end; try exact Hs; try exact I.
  - destruct (cond_ok n0 n); [now apply asorted_adel | exact Hs].
  - now apply asorted_filter.
Qed.
Lemma retry0_nil m e : m_retry m = [] -> retry0_of m e = [].
Proof.
  intros E. unfold retry0_of. rewrite E.
  repeat match goal with
         | |- context [match ?l with _ => _ end] => is_var l; destruct l
         end; try reflexivity. destruct (cond_ok n0 n); reflexivity.
Qed.

Lemma consumed_sub m e rt k dl : alook (consumed_of m e rt) k = Some dl -> alook rt k = Some dl.
Proof.
  unfold consumed_of. intros H.
  repeat match type of H with
         | context [match ?l with _ => _ end] => is_var l; destruct l
         end; try exact H.
  destruct (nth_error (m_tims m) (n2n n)) as [[[kind k0] d0]|]; [|exact H]. destruct (_ && _); [|exact H].
  destruct (N.eq_dec k k0) as [->|Hne]; [rewrite alook_adel_same in H; discriminate | now rewrite alook_adel_other in H].
Qed.
Lemma consumed_sorted m e rt : asorted (map fst rt) -> asorted (map fst (consumed_of m e rt)).
Proof.
  intros Hs. unfold consumed_of.
  repeat match goal with
         | |- context [match ?l with _ => _ end] => is_var l; destruct l
         end; try exact Hs.
  destruct (nth_error (m_tims m) (n2n n)) as [[[kind k0] d0]|]; [|exact Hs]. destruct (_ && _); [now apply asorted_adel | exact Hs].
Qed.
Lemma consumed_nil m e : consumed_of m e [] = [].
Proof.
  unfold consumed_of.
  repeat match goal with
         | |- context [match ?l with _ => _ end] => is_var l; destruct l
         end; try reflexivity.
  destruct (nth_error (m_tims m) (n2n n)) as [[[kind k0] d0]|]; [|reflexivity]. destruct (_ && _); reflexivity.
Qed.
Lemma fold_adel_nil (ks : list N) : fold_left (fun (rt : list (N * N)) k => adel rt k) ks [] = [].
Proof. induction ks as [|x l IH]; [reflexivity | exact IH]. Qed.

Lemma bo_of_none bo key : alook bo key = None -> bo_of bo key = 0%nat. Proof. unfold bo_of. now intros ->. Qed.

Section NoLog.
  Variables (m : mst) (h : hst) (a : ast).
  Hypothesis Hh : HR h.
  Hypothesis Hrel : Rel m h.
  Hypothesis HK : RK (m_ref m) (hs h).
  Hypothesis HRa : R (hs h) a.
  Hypothesis HAD : AD (hs h).
  Hypothesis HT : m_tims m = map (tcode3 (timers (hs h))) (fired_sorted (timers (hs h))).
  Hypothesis HRR : RRet m (hs h).
  Variables (e : list N) (ev : ev) (rets : list N).
  Hypothesis Hc : DecCase h e ev rets.
  Variable X : nat -> Prop.
  Hypothesis HP : POx X (hs h) (next h ev).
  Hypothesis HX : forall t, X t -> forall k dl x, nth_error (timers (hs h)) t = Some x -> tkind x = false -> tkey x = n2n k -> tdead x = dl ->
    alook (retry2_of m e (pobs_of rets (next h ev) (hlog h))) k = Some dl ->
    alook (consumed_of m e (retry2_of m e (pobs_of rets (next h ev) (hlog h)))) k = None.

  Let s := hs h.
  Let s' := next h ev.
  Let p := pobs_of rets s' (hlog h).

  Lemma nolog_delta : po_delta p = [].
  Proof. unfold p, s'. cbn [po_delta pobs_of]. rewrite (px_cblog _ _ _ HP). destruct Hh as [_ E]. rewrite E, skipn_all. reflexivity. Qed.
  Lemma nolog_retry1 : retry1_of m e p = (m_bo m, retry0_of m e).
  Proof. unfold retry1_of. now rewrite nolog_delta. Qed.

  Lemma Reach_s'_n : Reach s'. Proof. apply Reach_settle, Reach_step, Hh. Qed.

  Theorem RRet_nolog : RRet (fst (mon1 m e p)) s'.
  Proof.
    pose proof (Reach_J _ (hr_reach _ Hh)) as HJ. pose proof (Reach_J2 _ (hr_reach _ Hh)) as HJ2.
    pose proof (Reach_J _ Reach_s'_n) as HJ'. pose proof (Reach_ID _ Reach_s'_n) as ((W1' & W2') & D1' & D2' & D4').
    pose proof (px_mono _ _ _ HP) as M. fold s s' in M.
    constructor; cbn [fst mon1 m_retry m_bo m_script].
    - (* sorted *) unfold retry3_of, retry2_of. apply asorted_filter, consumed_sorted, asorted_fold_adel. rewrite nolog_retry1. cbn [snd].
      apply retry0_sorted, HRR.
    - (* no script: no obligations *) intros Hs. unfold retry3_of, retry2_of. rewrite nolog_retry1. cbn [snd].
      rewrite (retry0_nil m e (rr_none _ _ HRR Hs)), fold_adel_nil, consumed_nil. reflexivity.
    - (* the obligations that are kept *)
      intros k dl Hk. unfold retry3_of in Hk.
      change (fun kd : N * N => ahas (po_keys p) (fst kd)) with (fun kd : N * N => (fun k0 => ahas (po_keys p) k0) (fst kd)) in Hk.
      rewrite alook_filter_key in Hk. destruct (ahas (po_keys p) k) eqn:Epres; [|discriminate].
      pose proof Hk as Hcons. apply consumed_sub in Hk. pose proof Hk as Hk2. unfold retry2_of in Hk. rewrite nolog_retry1 in Hk. cbn [snd] in Hk.
      rewrite alook_fold_adel in Hk. destruct (nmem k (map ikey_of (news_of m p))) eqn:En; [discriminate|].
      destruct (retry0_look m e k dl Hk) as [Hk0 Hres].
      destruct (rr_ob _ _ HRR k dl Hk0) as (rec & t & x & Hreg & Hr & Hx & Lx & Ed). fold s in Hreg, Hr, Hx.
      destruct (j_wk _ HJ _ rec Hreg) as [Rl Rk].
      assert (HOb : Ob s rec t) by (split; [exact Rl|]; split; [eapply J_registered_in_map; eauto|]; split; [exact Hr | eauto]).
      assert (Rk' : rkey (getr s' rec) = n2n k) by (rewrite (Mono_rkey _ _ _ M Rl); exact Rk).
      destruct (px_ob _ _ _ HP rec t HOb) as [(Hl' & Hm' & Hr' & x' & Hx' & Lx')|[S1|[U1|X1]]].
      + (* still pending *)
        exists rec, t, x'. fold s'. split; [rewrite <- Rk'; now apply in_map_lookup|]. split; [exact Hr'|]. split; [exact Hx'|]. split; [exact Lx'|].
        destruct (mo_timers _ _ M t x Hx) as (x2 & Hx2 & (_ & _ & _ & T4)). unfold s' in Hx2. rewrite Hx' in Hx2. inversion Hx2; subst x2. congruence.
      + (* an instance was started for the record: the key is among the new instances *)
        exfalso. destruct S1 as (i & y & Hi & Hy & Hir). apply nmem_false in En. apply En. unfold news_of, p. cbn [po_insts pobs_of].
        destruct Hrel as [_ _ Hn _ _]. rewrite Hn. apply news_keys. exists i, y. split; [exact Hi|]. split; [exact Hy|].
        destruct (D4' i y Hy) as (_ & Eky & _). rewrite Eky, Hir, Rk'. apply N_of_n2n.
      + (* the record is not registered any more, the key is present: only a reset does that *)
        exfalso. fold s' in U1. unfold p in Epres. rewrite po_keys_okeys in Epres. unfold ahas in Epres. rewrite alook_okeys in Epres. fold s' in Epres.
        destruct (lookup (kmap s') (n2n k)) as [rec'|] eqn:Ek'; [|discriminate].
        assert (Hne : rec' <> rec) by (intros ->; rewrite (J_registered_in_map s' (n2n k) rec HJ' Ek') in U1; discriminate).
        pose proof (r1_keys m h a Hh Hrel HK HRa HAD HT e ev rets Hc k) as G. fold s' in G. rewrite Ek' in G. destruct G as (i1 & E1 & Ed1 & _).
        destruct (StepF_r_step (m_delay m) (m_clock m) (m_ctx m) (m_tims m) (e_late e (pobs_of rets s' (hlog h))) (ahas (po_keys (pobs_of rets s' (hlog h)))) (m_ref m) e) as [_ SF].
        pose proof (rk_keys _ _ HK k) as Epre. unfold KI in Epre. fold s in Epre. rewrite Hreg in Epre.
        destruct (SF k i1 E1) as [(i0 & Ei0 & Edi & _)|(_ & c & C1 & C2 & _)].
        * rewrite Epre in Ei0. inversion Ei0; subst i0. cbn [ki_data] in Edi.
          destruct (mo_recs _ _ M rec Rl) as (Rl' & _ & _ & Dd). destruct (W1' _ _ Ek') as [Lr' Kr'].
          apply Hne. apply D2'; [exact Lr' | exact Rl' | congruence | congruence].
        * pose proof (ctor_kept (m_delay m) (m_clock m) (m_ctx m) (m_tims m) (e_late e (pobs_of rets s' (hlog h))) (ahas (po_keys (pobs_of rets s' (hlog h)))) (m_ref m) e k) as CK.
          assert (Hp : ahas (r_keys (m_ref m)) k = true) by (unfold ahas; now rewrite Epre). specialize (CK Hp Hres). rewrite CK in C2. lia.
      + exfalso. destruct (j_rt _ HJ rec t Hr) as (x1 & Hx1 & Kx). fold s in Hx1. rewrite Hx in Hx1. inversion Hx1; subst x1.
        destruct (j2_rt _ HJ2 rec t Hr) as (x2 & Hx2 & Tx). fold s in Hx2. rewrite Hx in Hx2. inversion Hx2; subst x2.
        destruct (j_tk _ HJ t x Hx) as [_ Etk]. rewrite Tx, Rk in Etk.
        pose proof (HX t X1 k dl x Hx Kx Etk Ed Hk2) as E2. unfold p, s' in Hcons. congruence.
    - (* back-off indices *)
      intros Hs r Hr. rewrite nolog_retry1. cbn [fst]. fold s'. destruct (Nat.lt_ge_cases r (length (recs s))) as [Hl|Hl].
      + rewrite (pkr_mono s s' r M Hl). pose proof (px_bo_old _ _ _ HP r Hl) as Eb. fold s' in Eb. rewrite Eb. now apply (rr_bo _ _ HRR).
      + pose proof (px_bo_new _ _ _ HP r Hl) as Eb. fold s' in Eb. rewrite Eb. apply bo_of_none. destruct (alook (m_bo m) (pkr s' r)) as [i|] eqn:E; [|reflexivity]. exfalso.
        destruct (rr_ent _ _ HRR _ _ E) as (r0 & L0 & E0). fold s in L0, E0. rewrite <- (pkr_mono s s' r0 M L0) in E0.
        apply pkr_inj in E0; [lia | apply Reach_ID, Reach_s'_n | exact Hr | apply (mo_recs _ _ M r0 L0)].
    - intros key i Hi. rewrite nolog_retry1 in Hi. cbn [fst] in Hi. destruct (rr_ent _ _ HRR _ _ Hi) as (r0 & L0 & E0). fold s in L0, E0.
      exists r0. fold s'. split; [apply (mo_recs _ _ M r0 L0) | now rewrite (pkr_mono s s' r0 M L0)].
  Qed.
End NoLog.

(* ------------------------------------------------------------------ *)
(* the eager schedule and the timers *)
Lemma timers_settle s : timers (settle s) = map (fire (clock s + 0)) (timers s).
Proof.
  assert (G : forall l s0, timers (fold_left (fun s i => wake repaired s i true) l s0) = timers s0).
  { induction l as [|i l IH]; intros s0; cbn [fold_left]; [reflexivity|]. rewrite IH. apply timers_wake. }
  unfold settle. rewrite G. reflexivity.
Qed.
Lemma settle_timer_live s t z : nth_error (timers s) t = Some z -> live z ->
  exists z', nth_error (timers (settle s)) t = Some z' /\ live z' /\ tdead z' = tdead z.
Proof.
  intros Hz Lz. rewrite timers_settle, nth_error_map, Hz. cbn [option_map]. eexists. split; [reflexivity|].
  unfold fire, live in *. destruct (tst z) eqn:Es; try (destruct Lz; discriminate); [destruct (N.leb _ _); cbn [tst tdead with_tst]; rewrite ?Es; auto | rewrite Es; auto].
Qed.
Lemma getr_settle s q : getr (settle s) q = getr s q.
Proof. unfold getr. destruct (settle_frame s) as (_ & E & _). now rewrite E. Qed.

Lemma e_live_has_ctx m e s' : RCtx (e_ctx m e) (e_canc m e) s' -> e_live m e = true -> has_ctx s' = true.
Proof.
  intros [[E|[E1 E2]] C] H. unfold e_live in H. apply andb_true_iff in H as [H1 H2].
  - unfold has_ctx. rewrite E. now rewrite nz_n2n.
  - unfold e_live in H. apply andb_true_iff in H as [H1 H2]. rewrite (root_canc_nmem s' _ _ C) in E2. rewrite E2 in H2. discriminate.
Qed.

Lemma bo_of_aset_same bo key v : bo_of (aset bo key v) key = v. Proof. unfold bo_of. now rewrite alook_aset_same. Qed.
Lemma bo_of_aset_other bo key v key' : key' <> key -> bo_of (aset bo key v) key' = bo_of bo key'.
Proof. intros H. unfold bo_of. now rewrite alook_aset_other. Qed.

Section Book.
  Variables (m : mst) (h : hst).
  Hypothesis Hh : HR h.
  Hypothesis Hrel : Rel m h.
  Hypothesis HRR : RRet m (hs h).
  Variables (i : N) (x : inst) (o : outcome).
  Hypothesis Hx : nth_error (insts (hs h)) (n2n i) = Some x.
  Hypothesis Hp : ipcv x = IBook o.

  Let s := hs h.
  Let s1 := bookkeep s (n2n i).
  Let s' := next h (EBook (n2n i)).
  Let p := pobs_of [] s' (hlog h).
  Let r := irec x.
  Let y := getr s r.

  Lemma book_s' : s' = settle s1. Proof. reflexivity. Qed.
  Lemma book_news : news_of m p = [].
  Proof.
    unfold news_of, p. cbn [po_insts pobs_of]. destruct Hrel as [_ _ Hn _ _]. rewrite Hn. fold s.
    destruct (bookkeep_facts s (n2n i) x o Hx Hp) as (_ & B2 & _). cbn zeta in B2. fold s1 in B2.
    destruct (settle_frame s1) as (_ & _ & _ & _ & S5 & _). rewrite <- B2, <- S5, <- (map_length icode5). apply skipn_all.
  Qed.
  Lemma book_kmap : kmap s' = kmap s.
  Proof. destruct (settle_frame s1) as (S1 & _). rewrite book_s', S1. apply kmap_bookkeep. Qed.

  Theorem RRet_book : RRet (fst (mon1 m [16; i] p)) s'.
  Proof.
    pose proof (Reach_J _ (hr_reach _ Hh)) as HJ. pose proof (Reach_J2 _ (hr_reach _ Hh)) as HJ2. fold s in HJ, HJ2.
    pose proof (Reach_ID _ (hr_reach _ Hh)) as ((W1 & W2) & D1s & D2s & D4s). fold s in W1, W2, D1s, D2s, D4s.
    assert (HR' : Reach s') by (apply Reach_settle, Reach_step, Hh).
    pose proof (Reach_ID _ HR') as HID'.
    pose proof (W2 _ _ Hx) as Rl. fold r in Rl.
    assert (M : Mono s s') by (apply next_Mono).
    destruct Hrel as [(Edl & Esc & Eclk) HCtx _ _ _]. fold s in Edl, Esc, Eclk.
    destruct (bookkeep_facts s (n2n i) x o Hx Hp) as (B1 & B2 & B3 & B4). cbn zeta in B1, B2, B3, B4. fold s1 r y in B1, B2, B3, B4.
    destruct (settle_frame s1) as (S1 & S2 & S3 & _ & _ & S6 & _). rewrite <- book_s' in S1, S2, S3, S6.
    assert (GR : forall q, getr s' q = getr s1 q) by (intros q; rewrite book_s'; apply getr_settle).
    (* the deltas of the observation *)
    assert (Edelta : po_delta p = map dcode3 (skipn (length (cblog s)) (cblog s1))).
    { unfold p. cbn [po_delta pobs_of]. destruct Hh as [_ E]. fold s in E. now rewrite E, S3. }
    (* what survives of an old obligation: the record is another one *)
    assert (Keep : forall k dl, alook (m_retry m) k = Some dl -> (forall q, q <> r -> getr s1 q = getr s q) ->
              (forall t z, nth_error (timers s) t = Some z -> rretry y <> Some t -> nth_error (timers s1) t = Some z) ->
              (lookup (kmap s) (n2n k) <> Some r) ->
              exists rec t x0, lookup (kmap s') (n2n k) = Some rec /\ rretry (getr s' rec) = Some t /\ nth_error (timers s') t = Some x0 /\ live x0 /\ tdead x0 = dl).
    { intros k dl Hk Gq Gt Hne. destruct (rr_ob _ _ HRR k dl Hk) as (rec & t & z & Hreg & Hr & Hz & Lz & Ed). fold s in Hreg, Hr, Hz.
      assert (Hrec : rec <> r) by (intros ->; contradiction).
      assert (Hty : rretry y <> Some t).
      { intros E. destruct (j2_rt _ HJ2 r t E) as (z1 & Hz1 & T1). destruct (j2_rt _ HJ2 rec t Hr) as (z2 & Hz2 & T2). congruence. }
      destruct (settle_timer_live s1 t z (Gt t z Hz Hty) Lz) as (z' & Hz' & Lz' & Ed').
      exists rec, t, z'. rewrite book_kmap, GR, (Gq rec Hrec). rewrite <- book_s' in Hz'. repeat split; auto. congruence. }
    destruct B4 as [(Bc & Bl & _ & _)|(Bl & _)].
    - (* the exit of the record's current instance is recorded *)
      destruct (bookkeep_retry s (n2n i) x o Hx Hp Bc Rl) as (Gq & Gt & Gc). cbn zeta in Gq, Gt, Gc. fold s1 r y in Gq, Gt, Gc.
      rewrite Bl, skipn_app, skipn_all, Nat.sub_diag in Edelta. cbn [skipn app map dcode3] in Edelta.
      set (kd := N.of_nat (rkey y)) in *. set (d := rdata y) in *.
      (* is the record the key's current one *)
      assert (Ecur : match alook (po_keys p) kd with Some d' => N.eqb d d' | None => false end = in_map s r).
      { unfold p. rewrite po_keys_okeys, alook_okeys. unfold kd. rewrite n2n_of_nat, book_kmap. unfold in_map. fold y.
        destruct (lookup (kmap s) (rkey y)) as [rec|] eqn:Ek; [|reflexivity]. cbn [option_map]. destruct (W1 _ _ Ek) as [Lr Kr].
        destruct (Nat.eqb_spec rec r) as [->|Hne].
        - rewrite GR. destruct (mo_recs _ _ (Mono_step s (EBook (n2n i))) r Rl) as (_ & _ & _ & Dd). cbn [step] in Dd. fold s1 in Dd. unfold d, y. rewrite Dd. apply N.eqb_refl.
        - rewrite GR, (Gq rec Hne). apply N.eqb_neq. intros E. apply Hne. apply D2s; [exact Lr | exact Rl | unfold y in Kr; now rewrite Kr | now symmetry]. }
      assert (Epk : pk kd d = pkr s r) by reflexivity.
      assert (Ekd : n2n kd = rkey y) by (unfold kd; apply n2n_of_nat).
      assert (Ereg : in_map s r = true -> lookup (kmap s) (n2n kd) = Some r) by (intros E; rewrite Ekd; now apply in_map_lookup).
      assert (Enreg : in_map s r = false -> lookup (kmap s) (n2n kd) <> Some r).
      { intros E E2. rewrite Ekd in E2. unfold in_map in E. fold y in E. rewrite E2, Nat.eqb_refl in E. discriminate. }
      unfold retry1_of, retry0_of in *. cbn [fst mon1 m_retry m_bo m_script].
      constructor; cbn [m_retry m_bo m_script].
      + (* sorted *) unfold retry3_of, retry2_of. cbn [consumed_of]. apply asorted_filter, asorted_fold_adel.
        unfold retry1_of, retry0_of. rewrite Edelta. cbn [fold_left retry_delta snd].
        repeat match goal with |- context [match ?c with _ => _ end] => destruct c end; cbn [snd]; try apply asorted_aset; try apply asorted_adel; apply HRR.
      + (* no script *) intros Hs. unfold retry3_of, retry2_of. cbn [consumed_of]. rewrite book_news. cbn [map fold_left].
        unfold retry1_of, retry0_of. rewrite Edelta. cbn [fold_left retry_delta]. rewrite Hs, (rr_none _ _ HRR Hs).
        repeat match goal with |- context [match ?c with _ => _ end] => destruct c end; reflexivity.
      + (* obligations *)
        intros k dl Hk. unfold retry3_of, retry2_of in Hk. cbn [consumed_of] in Hk. rewrite book_news in Hk. cbn [map fold_left] in Hk.
        change (fun kd0 : N * N => ahas (po_keys p) (fst kd0)) with (fun kd0 : N * N => (fun k0 => ahas (po_keys p) k0) (fst kd0)) in Hk.
        rewrite alook_filter_key in Hk. destruct (ahas (po_keys p) k) eqn:Epres; [|discriminate].
        unfold retry1_of, retry0_of in Hk. rewrite Edelta in Hk. cbn [fold_left retry_delta] in Hk. fold kd d in Hk. rewrite Ecur in Hk.
        rewrite Esc in Hk. clear Epres.
        destruct (nz (enc_out o)) eqn:Enz; rewrite nz_enc_out in Enz.
        * (* an error *) apply negb_true_iff in Enz. rewrite Enz in Gc. destruct (in_map s r) eqn:Em.
          -- cbn [snd] in Hk. destruct (script s) as [l|] eqn:Escr.
             ++ assert (Eidx : match alook (m_bo m) (pk kd d) with Some i0 => i0 | None => 0%nat end = rbo y).
                { rewrite Epk. apply (rr_bo _ _ HRR); [rewrite Esc; discriminate | exact Rl]. }
                rewrite Eidx in Hk. destruct (nth_error l (rbo y)) as [dur|] eqn:En.
                ** destruct (N.eq_dec k kd) as [->|Hne].
                   --- rewrite alook_aset_same in Hk. inversion Hk; subst dl. destruct Gc as (_ & Gr & Gn).
                       destruct (settle_timer_live s1 _ _ Gn (or_introl eq_refl)) as (z' & Hz' & Lz' & Ed'). cbn [tdead] in Ed'.
                       exists r, (length (timers s)), z'. rewrite book_kmap, GR, Gr. rewrite <- book_s' in Hz'. repeat split; auto.
                       rewrite Ed'. cbn [e_clock]. now rewrite Eclk.
                   --- rewrite alook_aset_other in Hk by exact Hne. apply (Keep k dl Hk Gq Gt). rewrite (Ereg eq_refl) || idtac.
                       intros E. apply Hne. apply n2n_inj. rewrite Ekd. destruct (W1 _ _ E) as [_ K]. exact (eq_sym K).
                ** destruct (N.eq_dec k kd) as [->|Hne]; [rewrite alook_adel_same in Hk; discriminate|]. rewrite alook_adel_other in Hk by exact Hne.
                   apply (Keep k dl Hk Gq Gt). intros E. apply Hne. apply n2n_inj. rewrite Ekd. destruct (W1 _ _ E) as [_ K]. exact (eq_sym K).
             ++ destruct (N.eq_dec k kd) as [->|Hne]; [rewrite alook_adel_same in Hk; discriminate|]. rewrite alook_adel_other in Hk by exact Hne.
                apply (Keep k dl Hk Gq Gt). intros E. apply Hne. apply n2n_inj. rewrite Ekd. destruct (W1 _ _ E) as [_ K]. exact (eq_sym K).
          -- cbn [snd] in Hk. apply (Keep k dl Hk Gq Gt). intros E. apply (Enreg eq_refl). rewrite <- E. f_equal. rewrite Ekd. destruct (W1 _ _ E) as [_ K]. exact K.
        * (* a success *) apply negb_false_iff in Enz. cbn [snd] in Hk. destruct (in_map s r) eqn:Em.
          -- destruct (N.eq_dec k kd) as [->|Hne]; [rewrite alook_adel_same in Hk; discriminate|]. rewrite alook_adel_other in Hk by exact Hne.
             apply (Keep k dl Hk Gq Gt). intros E. apply Hne. apply n2n_inj. rewrite Ekd. destruct (W1 _ _ E) as [_ K]. exact (eq_sym K).
          -- apply (Keep k dl Hk Gq Gt). intros E. apply (Enreg eq_refl). rewrite <- E. f_equal. rewrite Ekd. destruct (W1 _ _ E) as [_ K]. exact K.
      + (* back-off indices *)
        intros Hs q Hq. rewrite S2, B3 in Hq. unfold retry1_of, retry0_of. rewrite Edelta. cbn [fold_left retry_delta]. fold kd d. rewrite Ecur, Epk.
        assert (Ep' : forall q0, (q0 < length (recs s))%nat -> pkr s' q0 = pkr s q0) by (intros q0 L0; now apply pkr_mono).
        rewrite (Ep' q Hq), GR. rewrite Esc in Hs.
        assert (Eidx : match alook (m_bo m) (pkr s r) with Some i0 => i0 | None => 0%nat end = rbo y) by (apply (rr_bo _ _ HRR); [now rewrite Esc | exact Rl]).
        assert (Eoth : q <> r -> pkr s q <> pkr s r) by (intros Hne E; apply Hne; apply (pkr_inj s q r); [apply Reach_ID, Hh | exact Hq | exact Rl | exact E]).
        destruct (script s) as [l|] eqn:Escr; [|contradiction].
        destruct (nz (enc_out o)) eqn:Enz; rewrite nz_enc_out in Enz.
        * apply negb_true_iff in Enz. rewrite Enz in Gc. destruct (in_map s r) eqn:Em; cbn [fst].
          -- rewrite Eidx. destruct (Nat.eq_dec q r) as [->|Hne].
             ++ rewrite bo_of_aset_same. destruct (nth_error l (rbo y)); [destruct Gc as (G1 & _) | destruct Gc as (G1 & _)]; now rewrite G1.
             ++ rewrite bo_of_aset_other by (now apply Eoth). rewrite (Gq q Hne). now apply (rr_bo _ _ HRR); [rewrite Esc|].
          -- destruct (Nat.eq_dec q r) as [->|Hne]; [destruct Gc as (G1 & _); rewrite G1; exact Eidx|].
             rewrite (Gq q Hne). now apply (rr_bo _ _ HRR); [rewrite Esc|].
        * apply negb_false_iff in Enz. rewrite Enz in Gc. cbn [fst]. destruct (Nat.eq_dec q r) as [->|Hne].
          -- rewrite bo_of_aset_same. destruct Gc as (_ & G1). now rewrite G1.
          -- rewrite bo_of_aset_other by (now apply Eoth). rewrite (Gq q Hne). now apply (rr_bo _ _ HRR); [rewrite Esc|].
      + (* entries *)
        intros key i0 Hi. unfold retry1_of, retry0_of in Hi. rewrite Edelta in Hi. cbn [fold_left retry_delta] in Hi. fold kd d in Hi. rewrite Ecur, Epk in Hi.
        assert (Old : forall key0 i1, alook (m_bo m) key0 = Some i1 -> exists r0, (r0 < length (recs s'))%nat /\ key0 = pkr s' r0).
        { intros key0 i1 H0. destruct (rr_ent _ _ HRR _ _ H0) as (r0 & L0 & E0). fold s in L0, E0. exists r0. split; [apply (mo_recs _ _ M r0 L0) | now rewrite (pkr_mono s s' r0 M L0)]. }
        assert (New : exists r0, (r0 < length (recs s'))%nat /\ pkr s r = pkr s' r0) by (exists r; split; [apply (mo_recs _ _ M r Rl) | now rewrite (pkr_mono s s' r M Rl)]).
        destruct (nz (enc_out o)); [destruct (in_map s r)|]; cbn [fst] in Hi;
          try (destruct (N.eq_dec key (pkr s r)) as [->|Hne]; [exact New | rewrite alook_aset_other in Hi by exact Hne; eauto]); eauto.
    - (* nothing is recorded *)
      assert (Erecs : recs s1 = recs s /\ timers s1 = timers s).
      { pose proof Hx as Hx'. fold s in Hx'. unfold s1, bookkeep. rewrite Hx', Hp. fold r y. destruct (rctx y) as [j0|] eqn:Ec; [|split; reflexivity].
        destruct (Nat.eqb_spec j0 (n2n i)) as [->|Hne]; [|split; reflexivity]. exfalso.
        destruct (bookkeep_facts s (n2n i) x o Hx Hp) as (_ & _ & _ & [(_ & Bl' & _)|(Bl' & _)]); cbn zeta in Bl'; fold s1 r y in Bl'.
        - rewrite Bl in Bl'. apply (f_equal (@length _)) in Bl'. rewrite app_length in Bl'. cbn in Bl'. lia.
        - revert Bl. unfold s1, bookkeep. rewrite Hx', Hp. fold r y. rewrite Ec, Nat.eqb_refl. intros Bl2.
          apply (f_equal (@length _)) in Bl2. revert Bl2. repeat match goal with |- context [match ?c with _ => _ end] => destruct c end;
            cbn [cblog set_cblog]; rewrite app_length; cbn [length]; cbn [cblog setr set_recs set_timers seti set_insts]; rewrite ?cblog_stop_timer; cbn [cblog seti set_insts]; lia. }
      destruct Erecs as [ER ET].
      assert (Edelta0 : po_delta p = []) by (rewrite Edelta, Bl, skipn_all; reflexivity).
      assert (Gq : forall q, getr s1 q = getr s q) by (intros q; unfold getr; now rewrite ER).
      constructor; cbn [fst mon1 m_retry m_bo m_script]; unfold retry1_of, retry0_of; rewrite ?Edelta0; cbn [fold_left fst snd].
      + unfold retry3_of, retry2_of. cbn [consumed_of]. apply asorted_filter, asorted_fold_adel. unfold retry1_of, retry0_of. rewrite Edelta0. apply HRR.
      + intros Hs. unfold retry3_of, retry2_of. cbn [consumed_of]. rewrite book_news. unfold retry1_of, retry0_of. rewrite Edelta0. cbn [map fold_left snd].
        now rewrite (rr_none _ _ HRR Hs).
      + intros k dl Hk. unfold retry3_of, retry2_of in Hk. cbn [consumed_of] in Hk. rewrite book_news in Hk. unfold retry1_of, retry0_of in Hk. rewrite Edelta0 in Hk.
        cbn [map fold_left snd] in Hk.
        change (fun kd0 : N * N => ahas (po_keys p) (fst kd0)) with (fun kd0 : N * N => (fun k0 => ahas (po_keys p) k0) (fst kd0)) in Hk.
        rewrite alook_filter_key in Hk. destruct (ahas (po_keys p) k); [|discriminate].
        destruct (rr_ob _ _ HRR k dl Hk) as (rec & t & z & Hreg & Hr & Hz & Lz & Ed). fold s in Hreg, Hr, Hz. rewrite <- ET in Hz.
        destruct (settle_timer_live s1 t z Hz Lz) as (z' & Hz' & Lz' & Ed'). rewrite <- book_s' in Hz'.
        exists rec, t, z'. rewrite book_kmap, GR, Gq. repeat split; auto. congruence.
      + intros Hs q Hq. rewrite S2, ER in Hq. rewrite (pkr_mono s s' q M Hq), GR, Gq. now apply (rr_bo _ _ HRR).
      + intros key i0 Hi. destruct (rr_ent _ _ HRR _ _ Hi) as (r0 & L0 & E0). fold s in L0, E0. exists r0. split; [apply (mo_recs _ _ M r0 L0) | now rewrite (pkr_mono s s' r0 M L0)].
  Qed.
End Book.

(* ------------------------------------------------------------------ *)
(* every event *)
Section Next.
  Variables (m : mst) (h : hst) (a : ast).
  Hypothesis Hh : HR h.
  Hypothesis Hrel : Rel m h.
  Hypothesis HK : RK (m_ref m) (hs h).
  Hypothesis HRa : R (hs h) a.
  Hypothesis HAD : AD (hs h).
  Hypothesis HT : m_tims m = map (tcode3 (timers (hs h))) (fired_sorted (timers (hs h))).
  Hypothesis HRR : RRet m (hs h).

  Theorem RRet_next e ev rets : DecCase h e ev rets -> RRet (fst (mon1 m e (pobs_of rets (next h ev) (hlog h)))) (next h ev).
  Proof.
    intros Hc. pose proof (Reach_J _ (hr_reach _ Hh)) as HJ. pose proof (Reach_J2 _ (hr_reach _ Hh)) as HJ2.
    destruct (quiet ev) eqn:Eq.
    - (* neither a bookkeeping section nor a timer callback *)
      destruct (POJ_next_quiet (hs h) ev Eq HJ HJ2) as (_ & _ & HP).
      apply (RRet_nolog m h a Hh Hrel HK HRa HAD HT HRR e ev rets Hc (fun _ => False)); [apply PO_POx; exact HP | intros t []].
    - destruct Hc; try discriminate Eq.
      + (* the bookkeeping section *) now apply (RRet_book m h Hh Hrel HRR i x o).
      + (* a timer callback *)
        set (X := fun t' => t' = t /\ has_ctx (hs h) = false).
        assert (HP : POx X (hs h) (next h (ETimerCb t))).
        { unfold next. cbn [step]. apply (POx_PO_trans X _ (timer_cb repaired (hs h) t)); [now apply PO_timer_cb|].
          destruct (PJJ_step (hs h) (ETimerCb t) HJ) as [J1 J21]. cbn [step] in J1, J21. specialize (J21 HJ2).
          destruct (POJ_settle (timer_cb repaired (hs h) t) J1 J21) as (_ & _ & G). exact G. }
        apply (RRet_nolog m h a Hh Hrel HK HRa HAD HT HRR [18; j] (ETimerCb t) [] (DC18 h j t H) X HP).
        intros t' [-> Hc0] k dl x Hx Kx Ekx Edx Hk2.
        assert (El : e_live m [18; j] = false).
        { destruct (e_live m [18; j]) eqn:El; [|reflexivity]. pose proof (e_live_has_ctx m [18; j] (hs h) (rel_ctx _ _ Hrel) El). congruence. }
        cbn [consumed_of]. rewrite HT, nth_error_map, H. cbn [option_map]. unfold tcode3. rewrite (nth_error_nth _ _ timer0 Hx), Kx, Ekx, N_of_n2n, Edx, El, Hk2.
        cbn [nb N.eqb negb andb]. rewrite N.eqb_refl. apply alook_adel_same.
  Qed.

  Theorem c75_holds e ev rets : DecCase h e ev rets -> c75 m e (pobs_of rets (next h ev) (hlog h)) = true.
  Proof.
    intros Hc. apply (c75_of_RRet m e _ (fst (mon1 m e (pobs_of rets (next h ev) (hlog h)))) (next h ev)).
    - apply Reach_settle, Reach_step, Hh.
    - apply AD_settle.
    - now apply RRet_next.
    - reflexivity.
    - destruct Hrel as [RC _ _ _ _]. destruct (RCfg_step m h e ev rets (pobs_of rets (next h ev) (hlog h)) Hc RC) as (_ & _ & C). exact C.
    - reflexivity.
  Qed.
End Next.
