(* keyed, C07: cancellation on removal, "nothing is started for a record that left the map", and the retry facts. *)
From Util Require Import Common.Base Common.ListLemmas Keyed.Model Keyed.Proofs.

(* ------------------------------------------------------------------ *)
(* Every instance belongs to an existing record, carries its key and lineage, and an instance whose context is not
   cancelled is the cancel target of a record that is registered under its key. *)
Definition InstOK (s : st) (i : nat) (x : inst) : Prop :=
  irec x < length (recs s) /\ ilin x = rlin (getr s (irec x)) /\ ikey x = rkey (getr s (irec x)) /\
  (icanc x = false -> lookup (kmap s) (ikey x) = Some (irec x) /\ rcancel (getr s (irec x)) = Some i).
Definition InvL (s : st) : Prop := forall i x, nth_error (insts s) i = Some x -> InstOK s i x.

(* record r is not registered, and no instance numbered n0 or later belongs to it *)
Definition Dead (r n0 : nat) (s : st) : Prop :=
  r < length (recs s) /\ lookup (kmap s) (rkey (getr s r)) <> Some r /\
  forall i x, n0 <= i -> nth_error (insts s) i = Some x -> irec x <> r.

Definition W (s : st) : Prop := Inv s /\ InvL s.

Lemma InvL_ext s s' : insts s' = insts s -> kmap s' = kmap s -> recs s' = recs s -> InvL s -> InvL s'.
Proof. intros E1 E2 E3 H. unfold InvL, InstOK, getr in *. rewrite E1, E2, E3. exact H. Qed.
Lemma Dead_ext r n0 s s' : insts s' = insts s -> kmap s' = kmap s -> recs s' = recs s -> Dead r n0 s -> Dead r n0 s'.
Proof. intros E1 E2 E3 H. unfold Dead, getr in *. rewrite E1, E2, E3. exact H. Qed.

(* instance updates that keep record, key, lineage and do not revive a cancelled context *)
Lemma InvL_seti s i x x' :
  InvL s -> nth_error (insts s) i = Some x -> irec x' = irec x -> ilin x' = ilin x -> ikey x' = ikey x ->
  (icanc x' = false -> icanc x = false) -> InvL (seti s i x').
Proof.
  intros H Hx E1 E2 E3 Hc j y Hy. assert (Hil : i < length (insts s)) by (eapply nth_error_nth_len; eauto).
  rewrite insts_seti in Hy. unfold InstOK, getr. rewrite recs_seti, kmap_seti.
  destruct (Nat.eq_dec j i) as [->|Hne].
  - rewrite nth_error_set_nth_same in Hy by exact Hil. inversion Hy; subst y. rewrite E1, E2, E3.
    destruct (H i x Hx) as [A [B [C D]]]. repeat split; auto; apply D; auto.
  - rewrite nth_error_set_nth_other in Hy by exact Hne. exact (H j y Hy).
Qed.
Lemma Dead_seti r n0 s i x x' :
  Dead r n0 s -> nth_error (insts s) i = Some x -> irec x' = irec x -> Dead r n0 (seti s i x').
Proof.
  intros [A [B C]] Hx E. assert (Hil : i < length (insts s)) by (eapply nth_error_nth_len; eauto).
  split; [exact A|]. split; [exact B|]. intros j y Hj Hy. rewrite insts_seti in Hy.
  destruct (Nat.eq_dec j i) as [->|Hne].
  - rewrite nth_error_set_nth_same in Hy by exact Hil. inversion Hy; subst y. rewrite E. eapply C; eauto.
  - rewrite nth_error_set_nth_other in Hy by exact Hne. eapply C; eauto.
Qed.

Lemma InvL_cancel_inst s oi : InvL s -> InvL (cancel_inst s oi).
Proof.
  intros H. unfold cancel_inst. destruct oi as [i|]; [|exact H]. destruct (nth_error (insts s) i) as [x|] eqn:E; [|exact H].
  eapply InvL_seti; eauto. cbn. discriminate.
Qed.
Lemma Dead_cancel_inst r n0 s oi : Dead r n0 s -> Dead r n0 (cancel_inst s oi).
Proof.
  intros H. unfold cancel_inst. destruct oi as [i|]; [|exact H]. destruct (nth_error (insts s) i) as [x|] eqn:E; [|exact H].
  eapply Dead_seti; eauto.
Qed.

Lemma InvL_stop_timer s ot : InvL s -> InvL (stop_timer s ot).
Proof. destruct (stop_timer_frame s ot) as [E1 [E2 [E3 _]]]. apply InvL_ext; auto. Qed.
Lemma Dead_stop_timer r n0 s ot : Dead r n0 s -> Dead r n0 (stop_timer s ot).
Proof. destruct (stop_timer_frame s ot) as [E1 [E2 [E3 _]]]. apply Dead_ext; auto. Qed.

(* after cancelling a record's cancel target every instance of the record is cancelled *)
Lemma all_cancelled s r :
  InvL s -> forall i x, nth_error (insts (cancel_inst s (rcancel (getr s r)))) i = Some x -> irec x = r -> icanc x = true.
Proof.
  intros H i x Hx Hr. unfold cancel_inst in Hx. destruct (rcancel (getr s r)) as [j|] eqn:Ec.
  - destruct (nth_error (insts s) j) as [y|] eqn:Ey.
    + rewrite insts_seti in Hx. assert (Hjl : j < length (insts s)) by (eapply nth_error_nth_len; eauto).
      destruct (Nat.eq_dec i j) as [->|Hne].
      * rewrite nth_error_set_nth_same in Hx by exact Hjl. inversion Hx. reflexivity.
      * rewrite nth_error_set_nth_other in Hx by exact Hne. destruct (icanc x) eqn:E; [reflexivity|].
        destruct (H i x Hx) as [_ [_ [_ D]]]. destruct (D E) as [_ D2]. rewrite Hr, Ec in D2. congruence.
    + destruct (icanc x) eqn:E; [reflexivity|]. destruct (H i x Hx) as [_ [_ [_ D]]]. destruct (D E) as [_ D2].
      rewrite Hr, Ec in D2. inversion D2; subst j. congruence.
  - destruct (icanc x) eqn:E; [reflexivity|]. destruct (H i x Hx) as [_ [_ [_ D]]]. destruct (D E) as [_ D2].
    rewrite Hr, Ec in D2. discriminate.
Qed.

(* record updates *)
Lemma InvL_setr s r y' :
  InvL s -> rkey y' = rkey (getr s r) -> rlin y' = rlin (getr s r) ->
  (rcancel y' = rcancel (getr s r) \/ forall i x, nth_error (insts s) i = Some x -> irec x = r -> icanc x = true) ->
  InvL (setr s r y').
Proof.
  intros H Hk Hl Hc i x Hx. rewrite insts_setr in Hx. destruct (H i x Hx) as [A [B [C D]]].
  unfold InstOK. rewrite recs_setr, length_set_nth, kmap_setr.
  destruct (Nat.eq_dec (irec x) r) as [E|Hne].
  - rewrite E in *. rewrite getr_setr_same by exact A. repeat split; auto; try congruence.
    + apply D; auto.
    + destruct Hc as [Hc|Hc]; [rewrite Hc; apply D; auto | rewrite (Hc i x Hx E) in H0; discriminate].
  - rewrite getr_setr_other by exact Hne. repeat split; auto; apply D; auto.
Qed.
Lemma Dead_setr r n0 s q y' : Dead r n0 s -> rkey y' = rkey (getr s q) -> Dead r n0 (setr s q y').
Proof.
  intros [A [B C]] Hk. split; [rewrite recs_setr, length_set_nth; exact A|]. split; [|exact C].
  rewrite kmap_setr. destruct (Nat.eq_dec r q) as [->|Hne]; [rewrite getr_setr_same by exact A; rewrite Hk; exact B | rewrite getr_setr_other by exact Hne; exact B].
Qed.

(* start on a registered record *)
Lemma InvL_start s k r c w force :
  W s -> lookup (kmap s) k = Some r -> InvL (start_rec s r c w force).
Proof.
  intros [HInv HL] Hk. unfold start_rec. set (x := getr s r).
  destruct (negb force && rsucc x || rnil x); [exact HL|].
  destruct (negb force && is_some (rctx x) && negb (rexited x) && ctx_live s (rctx x)); [exact HL|].
  destruct HInv as [_ [HM _]]. destruct (HM k r Hk) as [M1 [M2 _]].
  set (s1 := stop_timer s (rretry x)).
  destruct (stop_timer_frame s (rretry x)) as [T1 [T2 [T3 _]]]. fold s1 in T1, T2, T3.
  assert (L1 : InvL s1) by (apply InvL_stop_timer, HL).
  assert (X1 : getr s1 r = x) by (unfold getr, x; now rewrite T2).
  set (s2 := cancel_inst s1 (rcancel x)).
  destruct (cancel_inst_frame s1 (rcancel x)) as [C1 [C2 _]]. fold s2 in C1, C2.
  assert (L2 : InvL s2) by (apply InvL_cancel_inst, L1).
  assert (AC : forall i y, nth_error (insts s2) i = Some y -> irec y = r -> icanc y = true).
  { intros i y. unfold s2. rewrite <- X1. apply all_cancelled. exact L1. }
  cbn zeta. fold s1. fold s2. set (n := length (insts s2)).
  set (X := {| irec := r; ikey := rkey x; ilin := rlin x; iwait := w; ipcv := IGate0; icanc := root_canc s c; iexit := false;
               idata := rdata x; iroot := c |}).
  intros i y Hy. rewrite insts_setr in Hy. cbn [insts set_insts] in Hy.
  assert (Hr2 : r < length (recs s2)) by (rewrite C2, T2; exact M1).
  unfold InstOK. rewrite recs_setr, length_set_nth, kmap_setr. cbn [recs kmap set_insts].
  assert (XX : getr s2 r = x) by (unfold getr, x; now rewrite C2, T2).
  destruct (Nat.lt_ge_cases i n) as [Hlt|Hge].
  - rewrite nth_error_app1 in Hy by exact Hlt. destruct (L2 i y Hy) as [A [B [C D]]].
    destruct (Nat.eq_dec (irec y) r) as [E|Hne].
    + rewrite E. rewrite getr_setr_same by exact Hr2. cbn [rkey rlin rcancel with_started].
      rewrite E, XX in B, C. split; [exact Hr2|]. split; [exact B|]. split; [exact C|].
      intros Hc. rewrite (AC i y Hy E) in Hc. discriminate.
    + rewrite getr_setr_other by exact Hne. change (getr (set_insts s2 (insts s2 ++ [X])) (irec y)) with (getr s2 (irec y)).
      split; [exact A|]. split; [exact B|]. split; [exact C|]. exact D.
  - rewrite nth_error_app2 in Hy by exact Hge. fold n in Hy. destruct (i - n) as [|d] eqn:Ed; [|destruct d; simpl in Hy; discriminate].
    cbn [nth_error] in Hy. inversion Hy; subst y. assert (i = n) by lia. subst i.
    cbn [irec ilin ikey icanc X]. rewrite getr_setr_same by exact Hr2. cbn [rkey rlin rcancel with_started].
    split; [exact Hr2|]. split; [reflexivity|]. split; [reflexivity|]. intros _. split; [|reflexivity].
    rewrite C1, T1. unfold x. rewrite M2. exact Hk.
Qed.

Lemma registered_not_dead s k q r n0 : Inv s -> lookup (kmap s) k = Some q -> Dead r n0 s -> q <> r.
Proof.
  intros [_ [HM _]] Hk [_ [B _]] E. subst q. destruct (HM k r Hk) as [_ [M2 _]]. rewrite M2 in B. contradiction.
Qed.

Lemma Dead_start s k q c w force r n0 :
  Inv s -> lookup (kmap s) k = Some q -> Dead r n0 s -> Dead r n0 (start_rec s q c w force).
Proof.
  intros HInv Hk HD. pose proof (registered_not_dead s k q r n0 HInv Hk HD) as Hne.
  unfold start_rec. set (x := getr s q).
  destruct (negb force && rsucc x || rnil x); [exact HD|].
  destruct (negb force && is_some (rctx x) && negb (rexited x) && ctx_live s (rctx x)); [exact HD|].
  set (s2 := cancel_inst (stop_timer s (rretry x)) (rcancel x)).
  assert (D2 : Dead r n0 s2) by (apply Dead_cancel_inst, Dead_stop_timer, HD).
  cbn zeta. fold s2.
  assert (X2 : getr s2 q = x).
  { unfold getr, x, s2. destruct (cancel_inst_frame (stop_timer s (rretry x)) (rcancel x)) as [_ [C2 _]].
    destruct (stop_timer_frame s (rretry x)) as [_ [T2 _]]. now rewrite C2, T2. }
  apply Dead_setr; [|cbn [rkey with_started]; now rewrite <- X2].
  destruct D2 as [A [B C]]. split; [exact A|]. split; [exact B|].
  intros i y Hi Hy. cbn [insts set_insts] in Hy. destruct (nth_error_app_inv _ _ _ _ Hy) as [G| ->]; [eapply C; eauto | exact Hne].
Qed.

(* new records *)
Lemma InvL_new_record s k lin w :
  InvL s -> (forall i x, nth_error (insts s) i = Some x -> icanc x = false -> ikey x <> k) ->
  InvL (fst (new_record s k lin w)).
Proof.
  intros H Hk i x Hx.
  destruct (new_record_frame s k lin w) as [F0 [F1 [_ [_ [_ [F5 [F6 [F7 _]]]]]]]].
  rewrite F1 in Hx. destruct (H i x Hx) as [A [B [C D]]].
  unfold InstOK. rewrite F6, F5, (F7 _ A). split; [lia|]. split; [exact B|]. split; [exact C|].
  intros Hc. rewrite lookup_insert_other by (eapply Hk; eauto). exact (D Hc).
Qed.
Lemma Dead_new_record r n0 s k lin w : Dead r n0 s -> Dead r n0 (fst (new_record s k lin w)).
Proof.
  intros [A [B C]]. destruct (new_record_frame s k lin w) as [F0 [F1 [_ [_ [_ [F5 [F6 [F7 _]]]]]]]].
  split; [rewrite F6; lia|]. split; [|rewrite F1; exact C].
  rewrite F5, (F7 _ A). destruct (Nat.eq_dec (rkey (getr s r)) k) as [E|Hne].
  - rewrite E, lookup_insert_same. rewrite F0. intros G. inversion G. lia.
  - rewrite lookup_insert_other by exact Hne. exact B.
Qed.

Lemma live_key_registered s k : InvL s -> lookup (kmap s) k = None ->
  forall i x, nth_error (insts s) i = Some x -> icanc x = false -> ikey x <> k.
Proof. intros H Hk i x Hx Hc E. destruct (H i x Hx) as [_ [_ [_ D]]]. destruct (D Hc) as [D1 _]. rewrite E in D1. congruence. Qed.

(* removal *)
Lemma InvL_delete s k :
  InvL s -> (forall i x, nth_error (insts s) i = Some x -> icanc x = false -> ikey x <> k) ->
  InvL (set_kmap s (delete (kmap s) k)).
Proof.
  intros H Hk i x Hx. destruct (H i x Hx) as [A [B [C D]]]. split; [exact A|]. split; [exact B|]. split; [exact C|].
  intros Hc. cbn [kmap set_kmap]. rewrite lookup_delete_other by (eapply Hk; eauto). exact (D Hc).
Qed.
Lemma Dead_delete r n0 s k : Dead r n0 s -> Dead r n0 (set_kmap s (delete (kmap s) k)).
Proof.
  intros [A [B C]]. split; [exact A|]. split; [|exact C]. cbn [kmap set_kmap].
  change (getr (set_kmap s (delete (kmap s) k)) r) with (getr s r).
  destruct (Nat.eq_dec (rkey (getr s r)) k) as [E|Hne]; [rewrite E, lookup_delete_same; discriminate | rewrite lookup_delete_other by exact Hne; exact B].
Qed.

Lemma InvL_remove_now s r : InvL s -> lookup (kmap s) (rkey (getr s r)) = Some r -> InvL (remove_now s r).
Proof.
  intros H Hk. unfold remove_now. set (x := getr s r).
  set (s1 := cancel_inst s (rcancel x)).
  destruct (cancel_inst_frame s (rcancel x)) as [C1 [C2 _]]. fold s1 in C1, C2.
  set (s2 := stop_timer s1 (rretry x)).
  destruct (stop_timer_frame s1 (rretry x)) as [T1 [T2 [T3 _]]]. fold s2 in T1, T2, T3.
  assert (L2 : InvL s2) by (apply InvL_stop_timer, InvL_cancel_inst, H).
  assert (L3 : InvL (setr s2 r (with_retry (getr s2 r) None))) by (apply InvL_setr; try reflexivity; [exact L2 | now left]).
  apply InvL_delete; [exact L3|].
  intros i y Hy Hc E. rewrite insts_setr, T3 in Hy.
  destruct (L3 i y) as [_ [_ [_ D]]]; [rewrite insts_setr, T3; exact Hy|].
  destruct (D Hc) as [D1 _]. rewrite kmap_setr, T1, C1, E in D1. fold x in Hk. rewrite Hk in D1. inversion D1.
  pose proof (all_cancelled s r H i y Hy (eq_sym H1)) as G. congruence.
Qed.
Lemma Dead_remove_now r n0 s q : Dead r n0 s -> Dead r n0 (remove_now s q).
Proof.
  intros H. unfold remove_now. apply Dead_delete. apply Dead_setr; [|reflexivity]. apply Dead_stop_timer, Dead_cancel_inst, H.
Qed.

Lemma InvL_remove_rec s r : InvL s -> lookup (kmap s) (rkey (getr s r)) = Some r -> InvL (remove_rec s r).
Proof.
  intros H Hk. unfold remove_rec. destruct (rremove (getr s r)); [exact H|].
  destruct (N.eqb (delay s) 0 || failed (getr s r)); [now apply InvL_remove_now|].
  apply InvL_setr; try reflexivity; [|now left]. apply (InvL_ext s); auto.
Qed.
Lemma Dead_remove_rec r n0 s q : Dead r n0 s -> Dead r n0 (remove_rec s q).
Proof.
  intros H. unfold remove_rec. destruct (rremove (getr s q)); [exact H|].
  destruct (N.eqb (delay s) 0 || failed (getr s q)); [now apply Dead_remove_now|].
  apply Dead_setr; [|reflexivity]. apply (Dead_ext r n0 s); auto.
Qed.

Lemma InvL_unremove s r : InvL s -> InvL (unremove s r).
Proof.
  intros H. unfold unremove. destruct (rremove (getr s r)) eqn:E; [|exact H].
  destruct (stop_timer_frame s (Some n)) as [_ [T2 _]].
  apply InvL_setr; unfold getr; rewrite ?T2; try reflexivity; [now apply InvL_stop_timer | now left].
Qed.
Lemma Dead_unremove r n0 s q : Dead r n0 s -> Dead r n0 (unremove s q).
Proof.
  intros H. unfold unremove. destruct (rremove (getr s q)) eqn:E; [|exact H].
  destruct (stop_timer_frame s (Some n)) as [_ [T2 _]].
  apply Dead_setr; [now apply Dead_stop_timer | unfold getr; rewrite T2; reflexivity].
Qed.
Lemma InvL_unretry s r : InvL s -> InvL (unretry s r).
Proof.
  intros H. unfold unretry. destruct (rretry (getr s r)) eqn:E; [|exact H].
  destruct (stop_timer_frame s (Some n)) as [_ [T2 _]].
  apply InvL_setr; unfold getr; rewrite ?T2; try reflexivity; [now apply InvL_stop_timer | now left].
Qed.
Lemma Dead_unretry r n0 s q : Dead r n0 s -> Dead r n0 (unretry s q).
Proof.
  intros H. unfold unretry. destruct (rretry (getr s q)) eqn:E; [|exact H].
  destruct (stop_timer_frame s (Some n)) as [_ [T2 _]].
  apply Dead_setr; [now apply Dead_stop_timer | unfold getr; rewrite T2; reflexivity].
Qed.

(* ---- the walk through the API: W is preserved and dead records stay dead ---- *)
Definition Good (s s' : st) : Prop := W s' /\ forall r n0, Dead r n0 s -> Dead r n0 s'.

Lemma Good_refl s : W s -> Good s s. Proof. intros H. split; auto. Qed.
Lemma Good_trans s s1 s2 : Good s s1 -> (W s1 -> Good s1 s2) -> Good s s2.
Proof. intros [A B] H. destruct (H A) as [C D]. split; [exact C|]. intros r n0 Hd. apply D, B, Hd. Qed.

Lemma Good_ext s s' : insts s' = insts s -> kmap s' = kmap s -> recs s' = recs s -> nlin s' = nlin s -> W s -> Good s s'.
Proof.
  intros E1 E2 E3 E4 [A B]. split; [split; [apply (Inv_ext s); auto | apply (InvL_ext s); auto]|].
  intros r n0. apply Dead_ext; auto.
Qed.

Lemma Good_start s k r c force : W s -> lookup (kmap s) k = Some r -> Good s (start_rec s r c (rexit (getr s r)) force).
Proof.
  intros H Hk. split; [split; [eapply Inv_start_cur; eauto; apply H | eapply InvL_start; eauto]|].
  intros q n0. eapply Dead_start; eauto. apply H.
Qed.

Lemma Good_unremove s r : W s -> Good s (unremove s r).
Proof. intros [A B]. split; [split; [now apply Inv_unremove | now apply InvL_unremove]|]. intros q n0. apply Dead_unremove. Qed.
Lemma Good_unretry s r : W s -> Good s (unretry s r).
Proof. intros [A B]. split; [split; [now apply Inv_unretry | now apply InvL_unretry]|]. intros q n0. apply Dead_unretry. Qed.

Lemma Good_new_fresh s k :
  W s -> lookup (kmap s) k = None ->
  let s1 := fst (new_record s k (nlin s) None) in
  Good s (set_nlin s1 (S (nlin s1))) /\ lookup (kmap (set_nlin s1 (S (nlin s1)))) k = Some (snd (new_record s k (nlin s) None)).
Proof.
  intros [A B] Hk. destruct (Inv_new_fresh s k A Hk) as [H2 K2]. cbn zeta in *. split; [|exact K2].
  split; [split; [exact H2|]|].
  - apply (InvL_ext (fst (new_record s k (nlin s) None))); try reflexivity.
    apply InvL_new_record; [exact B | now apply live_key_registered].
  - intros r n0 Hd. apply (Dead_ext r n0 (fst (new_record s k (nlin s) None))); try reflexivity. now apply Dead_new_record.
Qed.

Lemma Good_set_key fx s k start : W s -> Good s (fst (set_key fx s k start)).
Proof.
  intros H. unfold set_key. destruct (lookup (kmap s) k) as [r|] eqn:Ek.
  - cbn [fst]. eapply Good_trans; [apply Good_unremove, H|]. intros H1.
    assert (K1 : lookup (kmap (unremove s r)) k = Some r) by (rewrite kmap_unremove; exact Ek).
    eapply (Good_trans _ (if fx_setkey fx then unremove s r else unretry (unremove s r) r)).
    { destruct (fx_setkey fx); [now apply Good_refl | now apply Good_unretry]. }
    intros H2. set (s2 := if fx_setkey fx then unremove s r else unretry (unremove s r) r) in *.
    assert (K2 : lookup (kmap s2) k = Some r) by (unfold s2; destruct (fx_setkey fx); [exact K1 | rewrite kmap_unretry; exact K1]).
    destruct (start && has_ctx s2); [eapply Good_start; eauto | now apply Good_refl].
  - destruct (Good_new_fresh s k H Ek) as [G2 K2].
    destruct (new_record s k (nlin s) None) as [s1 r] eqn:En. cbn [fst snd] in *. cbn [fst].
    eapply Good_trans; [exact G2|]. intros H2.
    destruct (has_ctx (set_nlin s1 (S (nlin s1)))); [eapply Good_start; eauto | now apply Good_refl].
Qed.

Lemma Good_remove_rec s k r : W s -> lookup (kmap s) k = Some r -> Good s (remove_rec s r).
Proof.
  intros [A B] Hk. assert (Hk' : lookup (kmap s) (rkey (getr s r)) = Some r).
  { destruct A as [_ [HM _]]. destruct (HM k r Hk) as [_ [M2 _]]. now rewrite M2. }
  split; [split; [now apply Inv_remove_rec | now apply InvL_remove_rec]|]. intros q n0. apply Dead_remove_rec.
Qed.

Lemma Good_remove_key s k : W s -> Good s (fst (remove_key s k)).
Proof.
  intros H. unfold remove_key. destruct (lookup (kmap s) k) as [r|] eqn:Ek; cbn [fst]; [eapply Good_remove_rec; eauto | now apply Good_refl].
Qed.

Lemma Good_W s s' : Good s s' -> W s'. Proof. now intros [A _]. Qed.

(* folds *)
Lemma Good_fold {E} (f : st -> E -> st) :
  (forall s e, W s -> Good s (f s e)) -> forall es s, W s -> Good s (fold_left f es s).
Proof.
  intros Hf es. induction es as [|e es IH]; intros s H; cbn [fold_left]; [now apply Good_refl|].
  eapply Good_trans; [apply Hf, H|]. intros H1. now apply IH.
Qed.
Lemma Good_fold_acc {A E} (pr : A -> st) (f : A -> E -> A) :
  (forall a e, W (pr a) -> Good (pr a) (pr (f a e))) -> forall es a, W (pr a) -> Good (pr a) (pr (fold_left f es a)).
Proof.
  intros Hf es. induction es as [|e es IH]; intros a H; cbn [fold_left]; [now apply Good_refl|].
  eapply Good_trans; [apply Hf, H|]. intros H1. now apply IH.
Qed.

Lemma Good_sync_one fx restart acc k : W (fst (fst acc)) -> Good (fst (fst acc)) (fst (fst (sync_one fx restart acc k))).
Proof.
  destruct acc as [[s seen] added]. cbn [fst]. intros H. unfold sync_one.
  destruct (mem k seen); [now apply Good_refl|].
  destruct (lookup (kmap s) k) as [r|] eqn:Ek.
  - cbn [fst]. eapply (Good_trans _ (if fx_sync fx then unremove s r else s)).
    { destruct (fx_sync fx); [now apply Good_unremove | now apply Good_refl]. }
    intros H1. set (s1 := if fx_sync fx then unremove s r else s) in *.
    assert (K1 : lookup (kmap s1) k = Some r) by (unfold s1; destruct (fx_sync fx); [rewrite kmap_unremove; exact Ek | exact Ek]).
    destruct (restart && has_ctx s1); [eapply Good_start; eauto | now apply Good_refl].
  - destruct (Good_new_fresh s k H Ek) as [G2 K2].
    destruct (new_record s k (nlin s) None) as [s1 r] eqn:En. cbn [fst snd] in *. cbn [fst].
    eapply Good_trans; [exact G2|]. intros H2.
    destruct (has_ctx (set_nlin s1 (S (nlin s1)))); [eapply Good_start; eauto | now apply Good_refl].
Qed.

Lemma Good_sync_rm keys acc k : W (fst acc) -> Good (fst acc) (fst (sync_rm keys acc k)).
Proof.
  destruct acc as [s removed]. cbn [fst]. intros H. unfold sync_rm. destruct (mem k keys); [now apply Good_refl|].
  cbn [fst]. now apply Good_remove_key.
Qed.

Lemma Good_norm_ctx s : W s -> Good s (norm_ctx s).
Proof. intros H. unfold norm_ctx. destruct (root_canc s (kctx s)); [apply Good_ext; try reflexivity; exact H | now apply Good_refl]. Qed.

Lemma Good_sync_keys fx s keys restart : W s -> Good s (fst (sync_keys fx s keys restart)).
Proof.
  intros H. unfold sync_keys. eapply Good_trans; [now apply Good_norm_ctx|]. clear H. generalize (norm_ctx s). clear s. intros s H. unfold sync_core.
  pose proof (Good_fold_acc (fun acc : st * list nat * list nat => fst (fst acc)) (sync_one fx restart) (Good_sync_one fx restart) keys (s, [], []) H) as G1.
  destruct (fold_left (sync_one fx restart) keys (s, [], [])) as [[s1 seen] added]. cbn [fst] in G1.
  pose proof (Good_fold_acc (fun acc : st * list nat => fst acc) (sync_rm keys) (Good_sync_rm keys) (map fst (kmap s1)) (s1, []) (Good_W _ _ G1)) as G2.
  destruct (fold_left (sync_rm keys) (map fst (kmap s1)) (s1, [])) as [s2 removed]. cbn [fst] in *.
  eapply Good_trans; [exact G1 | intros _; exact G2].
Qed.

(* cancel the record's cancel target and forget it *)
Lemma Good_cancel_forget s k r y' :
  W s -> lookup (kmap s) k = Some r ->
  rkey y' = rkey (getr s r) -> rlin y' = rlin (getr s r) -> rexit y' = rexit (getr s r) ->
  (rctx y' = rctx (getr s r) \/ rctx y' = None) ->
  Good s (setr (cancel_inst s (rcancel (getr s r))) r y').
Proof.
  intros [A B] Hk E1 E2 E3 E4. set (x := getr s r) in *. set (s1 := cancel_inst s (rcancel x)).
  destruct (cancel_inst_frame s (rcancel x)) as [C1 [C2 _]]. fold s1 in C1, C2.
  assert (X1 : getr s1 r = x) by (unfold getr, x; now rewrite C2).
  split; [split|].
  - apply Inv_setr_keep; rewrite ?X1; auto. apply Inv_cancel_inst, A.
  - apply InvL_setr; rewrite ?X1; auto; [apply InvL_cancel_inst, B|]. right. intros i y. apply all_cancelled. exact B.
  - intros q n0 Hd. apply Dead_setr; [apply Dead_cancel_inst, Hd | now rewrite X1].
Qed.

Lemma Good_ctx_key c same restart s k : W s -> Good s (ctx_key c same restart s k).
Proof.
  intros H. unfold ctx_key. destruct (lookup (kmap s) k) as [r|] eqn:Ek; [|now apply Good_refl].
  destruct (same && is_nil (rerr (getr s r))); [now apply Good_refl|].
  eapply Good_trans; [apply (Good_cancel_forget s k r (with_noctx (getr s r)) H Ek); try reflexivity; now right|].
  intros H2. destruct ((is_nil (rerr (getr s r)) || restart) && negb (Nat.eqb c 0)); [|now apply Good_refl].
  eapply Good_start; [exact H2|]. rewrite kmap_setr. destruct (cancel_inst_frame s (rcancel (getr s r))) as [C1 _]. rewrite C1. exact Ek.
Qed.

Lemma Good_set_context s c restart : W s -> Good s (set_context s c restart).
Proof.
  intros H. unfold set_context. destruct (Nat.eqb (kctx s) c && negb restart); [now apply Good_refl|].
  eapply Good_trans; [apply (Good_ext s (set_kctx s c)); try reflexivity; exact H|].
  intros H1. apply Good_fold; [intros a e; apply Good_ctx_key | exact H1].
Qed.

Lemma Good_restart_routine s k cond : W s -> Good s (fst (restart_routine s k cond)).
Proof.
  intros H. unfold restart_routine. eapply Good_trans; [now apply Good_norm_ctx|]. clear H. generalize (norm_ctx s). clear s. intros s H. unfold restart_core.
  destruct (lookup (kmap s) k) as [r|] eqn:Ek; [|now apply Good_refl].
  destruct (negb (has_ctx s)); [now apply Good_refl|]. destruct (negb (cond_match cond k)); [now apply Good_refl|].
  cbn [fst].
  eapply Good_trans; [apply (Good_cancel_forget s k r (with_cancel (getr s r) None) H Ek); try reflexivity; now left|].
  intros H2. set (s2 := setr (cancel_inst s (rcancel (getr s r))) r (with_cancel (getr s r) None)) in *.
  assert (K2 : lookup (kmap s2) k = Some r).
  { unfold s2. rewrite kmap_setr. destruct (cancel_inst_frame s (rcancel (getr s r))) as [C1 _]. rewrite C1. exact Ek. }
  assert (X2 : rexit (getr s2 r) = rexit (getr s r)).
  { destruct H2 as [[_ [HM _]] _]. destruct (HM k r K2) as [M1 _]. unfold s2 in M1 |- *.
    rewrite recs_setr, length_set_nth in M1. rewrite getr_setr_same by exact M1. reflexivity. }
  rewrite <- X2. eapply Good_start; eauto.
Qed.

Lemma Good_reset_routine s k cond : W s -> Good s (fst (reset_routine repaired s k cond)).
Proof.
  intros H. unfold reset_routine. eapply Good_trans; [now apply Good_norm_ctx|]. clear H. generalize (norm_ctx s). clear s. intros s H. unfold reset_core.
  destruct (lookup (kmap s) k) as [r|] eqn:Ek; [|now apply Good_refl].
  destruct (negb (cond_match cond k)); [now apply Good_refl|].
  set (x := getr s r). set (s1 := cancel_inst s (rcancel x)).
  destruct H as [A B].
  assert (A1 : Inv s1) by (apply Inv_cancel_inst, A).
  assert (B1 : InvL s1) by (apply InvL_cancel_inst, B).
  destruct (cancel_inst_frame s (rcancel x)) as [C1 [C2 _]]. fold s1 in C1, C2.
  assert (X1 : getr s1 r = x) by (unfold getr, x; now rewrite C2).
  assert (K1 : lookup (kmap s1) k = Some r) by (rewrite C1; exact Ek).
  cbn [fx_reset fx_nilchain repaired]. rewrite w0_repaired.
  assert (Wc : chain_ok (insts s1) (rlin (getr s1 r)) (rexit x)).
  { destruct A1 as [_ [HM _]]. destruct (HM k r K1) as [_ [_ [_ [M4 _]]]]. rewrite X1 in M4. rewrite X1. exact M4. }
  destruct (Inv_new_same s1 k r (rexit x) A1 K1 Wc) as [A2 K2]. rewrite X1 in A2, K2.
  assert (B2 : InvL (fst (new_record s1 k (rlin x) (rexit x)))).
  { apply InvL_new_record; [exact B1|]. intros i y Hy Hc E.
    destruct (B1 i y Hy) as [_ [_ [_ D]]]. destruct (D Hc) as [D1 _]. rewrite E, K1 in D1. inversion D1.
    pose proof (all_cancelled s r B i y Hy (eq_sym H0)) as G. congruence. }
  assert (D2 : forall q n0, Dead q n0 s -> Dead q n0 (fst (new_record s1 k (rlin x) (rexit x)))).
  { intros q n0 Hd. apply Dead_new_record, Dead_cancel_inst, Hd. }
  pose proof (new_record_frame s1 k (rlin x) (rexit x)) as F.
  destruct (new_record s1 k (rlin x) (rexit x)) as [s2 r2] eqn:En. cbn [fst snd] in *.
  destruct F as [_ [_ [_ [_ [_ [_ [_ [_ [_ [F9 [F10 _]]]]]]]]]]].
  eapply (Good_trans _ s2); [split; [split; assumption | exact D2]|]. intros H2.
  destruct (has_ctx s2); [|now apply Good_refl]. rewrite <- F10. eapply Good_start; eauto.
Qed.

Lemma Good_all_step f cond acc k :
  (forall s k c, W s -> Good s (fst (f s k c))) -> W (fst acc) -> Good (fst acc) (fst (all_step f cond acc k)).
Proof.
  intros Hf. destruct acc as [s n]. cbn [fst]. intros H. unfold all_step.
  pose proof (Hf s k cond H) as G. destruct (f s k cond) as [s' [ex rs]]. exact G.
Qed.

Lemma Good_reset_all s cond : W s -> Good s (fst (reset_all repaired s cond)).
Proof.
  intros H. unfold reset_all.
  pose proof (Good_fold_acc (fun acc : st * nat => fst acc) (all_step (reset_routine repaired) cond)
                (fun a e => Good_all_step _ cond a e Good_reset_routine) (map fst (kmap s)) (s, 0) H) as G.
  destruct (fold_left _ _ (s, 0)) as [s' n]. exact G.
Qed.
Lemma Good_restart_all s cond : W s -> Good s (fst (restart_all s cond)).
Proof.
  intros H. unfold restart_all.
  pose proof (Good_fold_acc (fun acc : st * nat => fst acc) (all_step restart_routine cond)
                (fun a e => Good_all_step _ cond a e Good_restart_routine) (map fst (kmap s)) (s, 0) H) as G.
  destruct (fold_left _ _ (s, 0)) as [s' n]. exact G.
Qed.

Lemma Good_set_refs s l : W s -> Good s (set_refs s l). Proof. apply Good_ext; reflexivity. Qed.
Lemma Good_set_rels s l : W s -> Good s (set_rels s l). Proof. apply Good_ext; reflexivity. Qed.
Lemma Good_set_timers s l : W s -> Good s (set_timers s l). Proof. apply Good_ext; reflexivity. Qed.
Lemma Good_set_cblog s l : W s -> Good s (set_cblog s l). Proof. apply Good_ext; reflexivity. Qed.

Lemma Good_add_key_ref fx s k : W s -> Good s (fst (add_key_ref fx s k)).
Proof.
  intros H. unfold add_key_ref. pose proof (Good_set_key fx s k true H) as G.
  destruct (set_key fx s k true) as [s1 res]. cbn [fst] in *.
  eapply Good_trans; [exact G | intros H1; now apply Good_set_refs].
Qed.

Lemma Good_release_start s f : W s -> Good s (release_start s f).
Proof.
  intros H. unfold release_start. destruct (nth_error (refs s) f) as [x|]; [|now apply Good_refl].
  destruct (frel x); [now apply Good_refl|].
  eapply Good_trans; [now apply Good_set_refs | intros H1; now apply Good_set_rels].
Qed.

Lemma Good_release_section s a : W s -> Good s (release_section s a).
Proof.
  intros H. unfold release_section. destruct (nth_error (rels s) a) as [l|]; [|now apply Good_refl].
  destruct (lparked l); [|now apply Good_refl].
  set (s1 := set_rels s (set_nth (rels s) a {| lref := lref l; lparked := false |})).
  assert (G1 : Good s s1) by (now apply Good_set_rels).
  destruct (nth_error (refs s1) (lref l)) as [x|]; [|exact G1]. destruct (fin x); [|exact G1].
  set (s2 := set_refs s1 (set_nth (refs s1) (lref l) {| fkey := fkey x; frel := frel x; fin := false |})).
  assert (G2 : Good s s2) by (eapply Good_trans; [exact G1 | intros H1; now apply Good_set_refs]).
  destruct (Nat.eqb _ 0); [|exact G2].
  eapply Good_trans; [exact G2 | intros H2; now apply Good_remove_key].
Qed.

Lemma Good_rc_remove_key s k : W s -> Good s (fst (rc_remove_key s k)).
Proof.
  intros H. unfold rc_remove_key. eapply Good_trans; [now apply Good_set_refs | intros H1; now apply Good_remove_key].
Qed.

(* ---- instance steps ---- *)
Lemma InvL_pc s i x p : InvL s -> nth_error (insts s) i = Some x -> InvL (seti s i (with_pc x p)).
Proof. intros H Hx. eapply InvL_seti; eauto. Qed.
Lemma InvL_over s i x o : InvL s -> nth_error (insts s) i = Some x -> InvL (seti s i (with_over x o)).
Proof. intros H Hx. eapply InvL_seti; eauto. cbn. discriminate. Qed.
Lemma Dead_pc r n0 s i x p : Dead r n0 s -> nth_error (insts s) i = Some x -> Dead r n0 (seti s i (with_pc x p)).
Proof. intros H Hx. eapply Dead_seti; eauto. Qed.
Lemma Dead_over r n0 s i x o : Dead r n0 s -> nth_error (insts s) i = Some x -> Dead r n0 (seti s i (with_over x o)).
Proof. intros H Hx. eapply Dead_seti; eauto. Qed.

Ltac cases := repeat match goal with |- context [match ?x with _ => _ end] => destruct x eqn:? end.

Lemma InvL_proceed fx s i en : InvL s -> InvL (proceed fx s i en).
Proof. intros H. unfold proceed. cases; auto using InvL_pc, InvL_over. Qed.
Lemma InvL_wake fx s i en : InvL s -> InvL (wake fx s i en).
Proof. intros H. unfold wake. cases; auto using InvL_pc, InvL_over. Qed.
Lemma InvL_fn_return s i o : InvL s -> InvL (fn_return s i o).
Proof. intros H. unfold fn_return. cases; auto using InvL_pc, InvL_over. Qed.
Lemma Dead_proceed r n0 fx s i en : Dead r n0 s -> Dead r n0 (proceed fx s i en).
Proof. intros H. unfold proceed. cases; auto using Dead_pc, Dead_over. Qed.
Lemma Dead_wake r n0 fx s i en : Dead r n0 s -> Dead r n0 (wake fx s i en).
Proof. intros H. unfold wake. cases; auto using Dead_pc, Dead_over. Qed.
Lemma Dead_fn_return r n0 s i o : Dead r n0 s -> Dead r n0 (fn_return s i o).
Proof. intros H. unfold fn_return. cases; auto using Dead_pc, Dead_over. Qed.

Lemma InvL_bookkeep s i : InvL s -> InvL (bookkeep s i).
Proof.
  intros H. unfold bookkeep. destruct (nth_error (insts s) i) as [x|] eqn:Ex; [|exact H].
  destruct (ipcv x) eqn:Ep; try exact H.
  assert (H0 : InvL (seti s i (with_pc x IDone))) by (now apply InvL_pc).
  set (s0 := seti s i (with_pc x IDone)) in *. set (r := irec x). set (y := getr s r).
  destruct (rctx y) as [j|]; [|exact H0]. destruct (Nat.eqb j i); [|exact H0].
  assert (G : forall S a b, insts S = insts s0 -> kmap S = kmap s0 -> recs S = recs s0 ->
                            InvL (set_cblog (setr S r (with_exit y o a b)) (cblog (setr S r (with_exit y o a b)) ++ [(rkey y, rdata y, o)]))).
  { intros S a b E1 E2 E3. apply (InvL_ext (setr S r (with_exit y o a b))); try reflexivity.
    assert (YS : getr S r = y) by (unfold getr, y; rewrite E3; reflexivity).
    apply InvL_setr; rewrite ?YS; try reflexivity; [apply (InvL_ext s0); auto | now left]. }
  destruct (script s0) as [l|]; [|apply G; auto].
  destruct (stop_timer_frame s0 (rretry y)) as [T1 [T2 [T3 _]]].
  destruct (is_nil o); [apply G; auto|].
  destruct (in_map (stop_timer s0 (rretry y)) r); [|apply G; auto].
  destruct (nth_error l (rbo y)); apply G; auto.
Qed.

Lemma Dead_bookkeep q n0 s i : Dead q n0 s -> Dead q n0 (bookkeep s i).
Proof.
  intros H. unfold bookkeep. destruct (nth_error (insts s) i) as [x|] eqn:Ex; [|exact H].
  destruct (ipcv x) eqn:Ep; try exact H.
  assert (H0 : Dead q n0 (seti s i (with_pc x IDone))) by (now apply Dead_pc).
  set (s0 := seti s i (with_pc x IDone)) in *. set (r := irec x). set (y := getr s r).
  destruct (rctx y) as [j|]; [|exact H0]. destruct (Nat.eqb j i); [|exact H0].
  assert (G : forall S a b, insts S = insts s0 -> kmap S = kmap s0 -> recs S = recs s0 ->
                            Dead q n0 (set_cblog (setr S r (with_exit y o a b)) (cblog (setr S r (with_exit y o a b)) ++ [(rkey y, rdata y, o)]))).
  { intros S a b E1 E2 E3. apply (Dead_ext q n0 (setr S r (with_exit y o a b))); try reflexivity.
    assert (YS : getr S r = y) by (unfold getr, y; rewrite E3; reflexivity).
    apply Dead_setr; [apply (Dead_ext q n0 s0); auto | now rewrite YS]. }
  destruct (script s0) as [l|]; [|apply G; auto].
  destruct (stop_timer_frame s0 (rretry y)) as [T1 [T2 [T3 _]]].
  destruct (is_nil o); [apply G; auto|].
  destruct (in_map (stop_timer s0 (rretry y)) r); [|apply G; auto].
  destruct (nth_error l (rbo y)); apply G; auto.
Qed.

Lemma Good_timer_cb s t : W s -> Good s (timer_cb repaired s t).
Proof.
  intros H. unfold timer_cb. destruct (nth_error (timers s) t) as [x|]; [|now apply Good_refl].
  destruct (tst x); try (now apply Good_refl).
  set (s1 := set_timers s (set_nth (timers s) t (with_tst x TRan))).
  assert (G1 : Good s s1) by (now apply Good_set_timers).
  destruct (tkind x).
  - destruct (in_map s1 (trec x)) eqn:Em; cbn [andb]; [|exact G1].
    destruct (if fx_stale repaired then _ else _); [|exact G1].
    eapply Good_trans; [exact G1|]. intros [A1 B1].
    set (r := trec x) in *. set (y := getr s1 r).
    pose proof (in_map_lookup s1 r Em) as Hk. fold y in Hk.
    set (s2 := stop_timer s1 (rremove y)).
    destruct (stop_timer_frame s1 (rremove y)) as [T1 [T2 [T3 _]]]. fold s2 in T1, T2, T3.
    assert (Y2 : getr s2 r = y) by (unfold getr, y; now rewrite T2).
    set (s3 := setr s2 r (with_remove (getr s2 r) None)).
    assert (A3 : Inv s3) by (apply Inv_setr_keep; try reflexivity; [apply Inv_stop_timer, A1 | now left]).
    assert (B3 : InvL s3) by (apply InvL_setr; try reflexivity; [apply InvL_stop_timer, B1 | now left]).
    assert (R3 : r < length (recs s2)).
    { destruct A1 as [_ [HM _]]. destruct (HM _ r Hk) as [M1 _]. now rewrite T2. }
    assert (Y3 : rkey (getr s3 r) = rkey y) by (unfold s3; rewrite getr_setr_same by exact R3; cbn; now rewrite Y2).
    split; [split|].
    + now apply Inv_remove_now.
    + apply InvL_remove_now; [exact B3|]. rewrite Y3. unfold s3. rewrite kmap_setr, T1. exact Hk.
    + intros q n0 Hd. apply Dead_remove_now. apply Dead_setr; [apply Dead_stop_timer, Hd | reflexivity].
  - destruct (has_ctx s1); cbn [andb]; [|exact G1].
    destruct (in_map s1 (trec x)) eqn:Em; cbn [andb]; [|exact G1].
    destruct (rexited (getr s1 (trec x))); [|exact G1].
    eapply Good_trans; [exact G1|]. intros H1. eapply Good_start; [exact H1 | apply in_map_lookup; exact Em].
Qed.

(* the owner cancels a root context: cancellation flags are only set, never cleared *)
Lemma InvL_cancel_root s c : InvL s -> InvL (cancel_root s c).
Proof.
  intros H. unfold cancel_root. destruct (Nat.eqb c 0); [exact H|].
  intros i y Hy. cbn [insts set_croots set_insts] in Hy.
  destruct (nth_error_map_inv _ _ i y Hy) as [x [Hx ->]]. destruct (H i x Hx) as [A [B [C D]]].
  unfold InstOK.
  match goal with |- context [getr ?S] => change (getr S) with (getr s) end.
  cbn [recs kmap set_croots set_insts].
  destruct (Nat.eqb (iroot x) c); [|split; [exact A|]; split; [exact B|]; split; [exact C | exact D]].
  cbn [irec ilin ikey icanc with_canc]. split; [exact A|]. split; [exact B|]. split; [exact C|]. discriminate.
Qed.
Lemma Dead_cancel_root r n0 s c : Dead r n0 s -> Dead r n0 (cancel_root s c).
Proof.
  intros [A [B C]]. unfold cancel_root. destruct (Nat.eqb c 0); [exact (conj A (conj B C))|].
  split; [exact A|]. split; [exact B|]. intros i y Hi Hy. cbn [insts set_croots set_insts] in Hy.
  destruct (nth_error_map_inv _ _ i y Hy) as [x [Hx ->]].
  assert (E : irec (if Nat.eqb (iroot x) c then with_canc x else x) = irec x) by (destruct (Nat.eqb (iroot x) c); reflexivity).
  rewrite E. eapply C; eauto.
Qed.
Lemma Good_cancel_root s c : W s -> Good s (cancel_root s c).
Proof.
  intros [A B]. split; [split; [now apply cancel_root_inv | now apply InvL_cancel_root]|]. intros q n0. apply Dead_cancel_root.
Qed.

Theorem Good_step s e : W s -> Good s (step repaired s e).
Proof.
  intros H. destruct e; cbn [step].
  - now apply Good_set_context.
  - now apply Good_set_key.
  - now apply Good_remove_key.
  - now apply Good_sync_keys.
  - now apply Good_refl.
  - now apply Good_reset_routine.
  - now apply Good_restart_routine.
  - now apply Good_reset_all.
  - now apply Good_restart_all.
  - now apply Good_add_key_ref.
  - now apply Good_release_start.
  - now apply Good_release_section.
  - now apply Good_rc_remove_key.
  - destruct H as [A B]. split; [split; [now apply proceed_inv | now apply InvL_proceed]|]. intros q n0. apply Dead_proceed.
  - destruct H as [A B]. split; [split; [now apply wake_inv | now apply InvL_wake]|]. intros q n0. apply Dead_wake.
  - destruct H as [A B]. split; [split; [now apply fn_return_inv | now apply InvL_fn_return]|]. intros q n0. apply Dead_fn_return.
  - destruct H as [A B]. split; [split; [now apply bookkeep_inv | now apply InvL_bookkeep]|]. intros q n0. apply Dead_bookkeep.
  - unfold advance. apply Good_ext; try reflexivity. exact H.
  - now apply Good_timer_cb.
  - now apply Good_cancel_root.
  - apply Good_ext; try reflexivity. exact H.
Qed.

Lemma init_W dl sc : W (init dl sc).
Proof. split; [apply init_inv|]. intros [|i] x Hx; discriminate. Qed.

Theorem run_W_from s es : W s -> W (run repaired s es).
Proof. revert s. induction es as [|e es IH]; intros s H; cbn; [exact H|]. apply IH. apply (Good_step s e H). Qed.
Theorem run_W dl sc es : W (run repaired (init dl sc) es).
Proof. apply run_W_from, init_W. Qed.

Theorem run_Dead s es r n0 : W s -> Dead r n0 s -> Dead r n0 (run repaired s es).
Proof.
  revert s. induction es as [|e es IH]; intros s H Hd; cbn; [exact Hd|].
  destruct (Good_step s e H) as [H1 D1]. apply IH; [exact H1 | apply D1, Hd].
Qed.

(* ------------------------------------------------------------------ *)
(* C07 statements *)

(* per lineage at most one instance inside the routine function *)
Theorem at_most_one_in_user_per_lineage dl sc es L : cnt (in_user_lin L) (insts (run repaired (init dl sc) es)) <= 1.
Proof. apply InvI_at_most_one_in_user. apply run_inv. Qed.

(* instances of the records registered under one key while it stays in the set share the lineage: ResetRoutine keeps it *)
Lemma reset_core_keeps_lineage s k cond r :
  lookup (kmap s) k = Some r -> cond_match cond k = true ->
  exists r', lookup (kmap (fst (reset_core repaired s k cond))) k = Some r' /\
             rlin (getr (fst (reset_core repaired s k cond)) r') = rlin (getr s r).
Proof.
  intros Hk Hc. unfold reset_core. rewrite Hk, Hc. cbn [negb].
  set (x := getr s r). set (s1 := cancel_inst s (rcancel x)). cbn [fx_reset fx_nilchain repaired]. rewrite w0_repaired.
  pose proof (new_record_frame s1 k (rlin x) (rexit x)) as F.
  destruct (new_record s1 k (rlin x) (rexit x)) as [s2 r2] eqn:En. cbn [fst snd] in *.
  destruct F as [F0 [_ [_ [_ [_ [F5 [F6 [_ [_ [F9 _]]]]]]]]]].
  exists r2. destruct (has_ctx s2).
  - unfold start_rec. cases; cbn [fst].
    + rewrite F5, lookup_insert_same. auto.
    + rewrite F5, lookup_insert_same. auto.
    + rewrite kmap_setr. cbn [kmap set_insts].
      destruct (cancel_inst_frame (stop_timer s2 (rretry (getr s2 r2))) (rcancel (getr s2 r2))) as [C1 [C2 _]].
      destruct (stop_timer_frame s2 (rretry (getr s2 r2))) as [T1 [T2 _]].
      rewrite C1, T1, F5, lookup_insert_same. split; [reflexivity|].
      rewrite getr_setr_same; [cbn; exact F9|]. cbn [recs set_insts]. rewrite C2, T2, F6, F0. lia.
  - cbn [fst]. rewrite F5, lookup_insert_same. auto.
Qed.

Lemma norm_ctx_same s : kmap (norm_ctx s) = kmap s /\ recs (norm_ctx s) = recs s /\ insts (norm_ctx s) = insts s /\
                         timers (norm_ctx s) = timers s /\ croots (norm_ctx s) = croots s.
Proof. unfold norm_ctx. destruct (root_canc s (kctx s)); repeat split; reflexivity. Qed.
Lemma reset_keeps_lineage s k cond r :
  lookup (kmap s) k = Some r -> cond_match cond k = true ->
  exists r', lookup (kmap (fst (reset_routine repaired s k cond))) k = Some r' /\
             rlin (getr (fst (reset_routine repaired s k cond)) r') = rlin (getr s r).
Proof.
  intros Hk Hc. unfold reset_routine. destruct (norm_ctx_same s) as [E1 [E2 _]].
  replace (getr s r) with (getr (norm_ctx s) r) by (unfold getr; now rewrite E2).
  apply reset_core_keeps_lineage; [now rewrite E1 | exact Hc].
Qed.

(* an instance of a record that is not registered has a cancelled context *)
Theorem unregistered_is_cancelled dl sc es i x :
  let s := run repaired (init dl sc) es in
  nth_error (insts s) i = Some x -> lookup (kmap s) (ikey x) <> Some (irec x) -> icanc x = true.
Proof.
  intros s Hx Hn. destruct (run_W dl sc es) as [_ HL]. fold s in HL.
  destruct (icanc x) eqn:E; [reflexivity|]. destruct (HL i x Hx) as [_ [_ [_ D]]]. destruct (D E) as [D1 _]. contradiction.
Qed.

(* removeNow: the key leaves the map and every instance of the record is cancelled *)
Theorem remove_now_effect s r :
  InvL s ->
  lookup (kmap (remove_now s r)) (rkey (getr s r)) = None /\
  forall i x, nth_error (insts (remove_now s r)) i = Some x -> irec x = r -> icanc x = true.
Proof.
  intros H. unfold remove_now. set (x := getr s r). split; [cbn [kmap set_kmap]; apply lookup_delete_same|].
  intros i y Hy Hr. cbn [insts set_kmap] in Hy. rewrite insts_setr in Hy.
  destruct (stop_timer_frame (cancel_inst s (rcancel x)) (rretry x)) as [_ [_ [T3 _]]]. rewrite T3 in Hy.
  eapply all_cancelled; eauto.
Qed.

(* a record that is not registered stays unregistered and no instance is ever started for it again *)
Theorem unregistered_never_restarted dl sc es es' r :
  let s := run repaired (init dl sc) es in
  let s' := run repaired s es' in
  r < length (recs s) -> lookup (kmap s) (rkey (getr s r)) <> Some r ->
  lookup (kmap s') (rkey (getr s' r)) <> Some r /\
  forall i x, length (insts s) <= i -> nth_error (insts s') i = Some x -> irec x <> r.
Proof.
  intros s s' Hr Hn.
  assert (Hd : Dead r (length (insts s)) s).
  { split; [exact Hr|]. split; [exact Hn|]. intros i x Hi Hx. apply nth_error_nth_len in Hx. lia. }
  destruct (run_Dead s es' r (length (insts s)) (run_W dl sc es) Hd) as [_ [B C]]. split; [exact B | exact C].
Qed.

(* ---- clearing the context cancels every instance ---- *)
Lemma lookup_in_keys {A} (m : list (nat * A)) k r : lookup m k = Some r -> In k (map fst m).
Proof.
  induction m as [|[k' v] t IH]; cbn [lookup map fst]; [discriminate|].
  destruct (Nat.eqb_spec k' k) as [->|Hne]; [now left | right; auto].
Qed.

Lemma kmap_start_rec s r c w f : kmap (start_rec s r c w f) = kmap s.
Proof.
  unfold start_rec. cases; try reflexivity. rewrite kmap_setr. cbn [kmap set_insts].
  destruct (cancel_inst_frame (stop_timer s (rretry (getr s r))) (rcancel (getr s r))) as [C1 _].
  destruct (stop_timer_frame s (rretry (getr s r))) as [T1 _]. now rewrite C1, T1.
Qed.

Lemma clear_key_effect restart s k :
  W s -> let s' := ctx_key 0 false restart s k in
  W s' /\ kmap s' = kmap s /\
  (forall i x, nth_error (insts s') i = Some x -> icanc x = false -> ikey x <> k /\ exists x0, nth_error (insts s) i = Some x0 /\ icanc x0 = false /\ ikey x0 = ikey x).
Proof.
  intros H. cbn zeta. unfold ctx_key. destruct (lookup (kmap s) k) as [r|] eqn:Ek.
  - cbn [andb]. rewrite andb_false_r.
    destruct (Good_cancel_forget s k r (with_noctx (getr s r)) H Ek) as [H2 _]; try reflexivity; [now right|].
    set (s1 := cancel_inst s (rcancel (getr s r))) in *.
    destruct (cancel_inst_frame s (rcancel (getr s r))) as [C1 _]. fold s1 in C1.
    split; [exact H2|]. split; [rewrite kmap_setr; exact C1|].
    intros i x Hx Hc. rewrite insts_setr in Hx. split.
    + intros E. destruct H as [_ HL]. pose proof (InvL_cancel_inst s (rcancel (getr s r)) HL) as L1. fold s1 in L1.
      destruct (L1 i x Hx) as [_ [_ [_ D]]]. destruct (D Hc) as [D1 _]. rewrite E, C1, Ek in D1. inversion D1.
      pose proof (all_cancelled s r HL i x Hx (eq_sym H0)) as G. congruence.
    + unfold s1, cancel_inst in Hx. destruct (rcancel (getr s r)) as [j|]; [|exists x; auto].
      destruct (nth_error (insts s) j) as [y|] eqn:Ey; [|exists x; auto].
      rewrite insts_seti in Hx. assert (Hjl : j < length (insts s)) by (eapply nth_error_nth_len; eauto).
      destruct (Nat.eq_dec i j) as [->|Hne].
      * rewrite nth_error_set_nth_same in Hx by exact Hjl. inversion Hx; subst x. cbn in Hc. discriminate.
      * rewrite nth_error_set_nth_other in Hx by exact Hne. exists x. auto.
  - split; [exact H|]. split; [reflexivity|]. intros i x Hx Hc. split; [|exists x; auto].
    destruct H as [_ HL]. eapply live_key_registered; eauto.
Qed.

Lemma clear_fold restart ks : forall s done,
  W s -> (forall i x, nth_error (insts s) i = Some x -> icanc x = false -> ~ In (ikey x) done) ->
  let s' := fold_left (ctx_key 0 false restart) ks s in
  W s' /\ kmap s' = kmap s /\ (forall i x, nth_error (insts s') i = Some x -> icanc x = false -> ~ In (ikey x) (done ++ ks)).
Proof.
  induction ks as [|k ks IH]; intros s done H Hd; cbn [fold_left].
  - split; [exact H|]. split; [reflexivity|]. rewrite app_nil_r. exact Hd.
  - destruct (clear_key_effect restart s k H) as [H1 [K1 E1]].
    destruct (IH (ctx_key 0 false restart s k) (done ++ [k]) H1) as [H2 [K2 E2]].
    + intros i x Hx Hc Hin. destruct (E1 i x Hx Hc) as [Hne [x0 [Hx0 [Hc0 Hk0]]]].
      apply in_app_or in Hin as [Hin|[Hin|[]]]; [|congruence]. rewrite <- Hk0 in Hin. exact (Hd i x0 Hx0 Hc0 Hin).
    + split; [exact H2|]. split; [congruence|]. rewrite <- app_assoc in E2. exact E2.
Qed.

Theorem clear_context_cancels_all s restart :
  W s -> kctx s <> 0 -> forall i x, nth_error (insts (set_context s 0 restart)) i = Some x -> icanc x = true.
Proof.
  intros H Hk i x Hx. unfold set_context in Hx. destruct (Nat.eqb_spec (kctx s) 0) as [E|E]; [contradiction|].
  cbn [andb] in Hx. change (kmap (set_kctx s 0)) with (kmap s) in Hx.
  assert (H1 : W (set_kctx s 0)) by (apply (Good_ext s); try reflexivity; exact H).
  destruct (clear_fold restart (map fst (kmap s)) (set_kctx s 0) [] H1) as [[_ HL] [K2 E2]]; [intros; auto|].
  destruct (icanc x) eqn:Ec; [reflexivity|]. exfalso.
  apply (E2 i x Hx Ec). cbn [app]. destruct (HL i x Hx) as [_ [_ [_ D]]]. destruct (D Ec) as [D1 _].
  rewrite K2 in D1. change (kmap (set_kctx s 0)) with (kmap s) in D1. eapply lookup_in_keys; eauto.
Qed.

(* ---- retry ---- *)
Definition ninst (s : st) : nat := length (insts s).

(* SetKey without start on a registered key: the record's retry timer and back-off are not touched *)
Lemma set_key_nostart_keeps_retry s k r :
  lookup (kmap s) k = Some r -> r < length (recs s) ->
  let s' := fst (set_key repaired s k false) in
  rretry (getr s' r) = rretry (getr s r) /\ rbo (getr s' r) = rbo (getr s r) /\ rexited (getr s' r) = rexited (getr s r) /\
  insts s' = insts s /\ kctx s' = kctx s /\ kmap s' = kmap s /\
  (forall t, rremove (getr s r) <> Some t -> nth_error (timers s') t = nth_error (timers s) t).
Proof.
  intros Hk Hr. unfold set_key. rewrite Hk. cbn [fx_setkey repaired andb fst]. unfold unremove.
  destruct (rremove (getr s r)) as [t0|] eqn:Et; [|repeat split; reflexivity].
  destruct (stop_timer_frame s (Some t0)) as [T1 [T2 [T3 [_ [T5 _]]]]].
  rewrite getr_setr_same by (rewrite T2; exact Hr). cbn [rretry rbo rexited with_remove].
  rewrite insts_setr, kmap_setr. repeat split; auto.
  intros t Ht. cbn [timers setr set_recs]. unfold stop_timer. destruct (nth_error (timers s) t0) as [y|]; [|reflexivity].
  destruct (tst y); try reflexivity. cbn [timers set_timers]. apply nth_error_set_nth_other. congruence.
Qed.

(* the same for one kept key of SyncKeys without restart *)
Lemma sync_one_norestart_keeps_retry s seen added k r :
  lookup (kmap s) k = Some r -> r < length (recs s) -> mem k seen = false ->
  let s' := fst (fst (sync_one repaired false (s, seen, added) k)) in
  rretry (getr s' r) = rretry (getr s r) /\ rbo (getr s' r) = rbo (getr s r) /\ rexited (getr s' r) = rexited (getr s r) /\
  insts s' = insts s /\ kctx s' = kctx s /\ kmap s' = kmap s /\
  (forall t, rremove (getr s r) <> Some t -> nth_error (timers s') t = nth_error (timers s) t).
Proof.
  intros Hk Hr Hs. unfold sync_one. rewrite Hs, Hk. cbn [fx_sync repaired andb fst]. unfold unremove.
  destruct (rremove (getr s r)) as [t0|] eqn:Et; [|repeat split; reflexivity].
  destruct (stop_timer_frame s (Some t0)) as [T1 [T2 [T3 [_ [T5 _]]]]].
  rewrite getr_setr_same by (rewrite T2; exact Hr). cbn [rretry rbo rexited with_remove].
  rewrite insts_setr, kmap_setr. repeat split; auto.
  intros t Ht. cbn [timers setr set_recs]. unfold stop_timer. destruct (nth_error (timers s) t0) as [y|]; [|reflexivity].
  destruct (tst y); try reflexivity. cbn [timers set_timers]. apply nth_error_set_nth_other. congruence.
Qed.

(* the retry: after the deadline the timer is fired, and its callback starts a new instance *)
Lemma advance_fires s d t x :
  nth_error (timers s) t = Some x -> tst x = TArmed -> (tdead x <= clock s + d)%N ->
  exists x', nth_error (timers (advance s d)) t = Some x' /\ tst x' = TFired /\ trec x' = trec x /\ tkind x' = tkind x.
Proof.
  intros Hx Ha Hd. unfold advance. cbn [timers set_timers set_clock]. rewrite nth_error_map, Hx. cbn.
  unfold fire. rewrite Ha. destruct (N.leb_spec (tdead x) (clock s + d)); [|lia]. eexists. repeat split; reflexivity.
Qed.

Lemma start_rec_force_spawns s r c w : rnil (getr s r) = false -> ninst (start_rec s r c w true) = S (ninst s).
Proof.
  intros Hn. unfold start_rec. rewrite Hn. cbn [negb andb orb]. unfold ninst. rewrite insts_setr. cbn [insts set_insts]. rewrite app_length. cbn [length].
  destruct (cancel_inst_frame (stop_timer s (rretry (getr s r))) (rcancel (getr s r))) as [_ [_ [_ [_ [_ [_ [_ [_ [_ [_ C]]]]]]]]]].
  destruct (stop_timer_frame s (rretry (getr s r))) as [_ [_ [T3 _]]]. rewrite C, T3. lia.
Qed.

Lemma retry_cb_restarts s t x :
  nth_error (timers s) t = Some x -> tst x = TFired -> tkind x = false ->
  kctx s <> 0 -> in_map s (trec x) = true -> rexited (getr s (trec x)) = true -> rnil (getr s (trec x)) = false ->
  ninst (timer_cb repaired s t) = S (ninst s).
Proof.
  intros Hx Hf Hk Hc Hm He Hn. unfold timer_cb. rewrite Hx, Hf, Hk.
  set (s1 := set_timers s _). change (has_ctx s1) with (has_ctx s). change (in_map s1 (trec x)) with (in_map s (trec x)).
  change (getr s1 (trec x)) with (getr s (trec x)). unfold has_ctx. destruct (Nat.eqb_spec (kctx s) 0); [contradiction|].
  rewrite Hm, He. cbn [negb andb]. now rewrite start_rec_force_spawns.
Qed.

(* ---- the pinned code ---- *)
Definition pinned_d8 : fixes := {| fx_wait := false; fx_setkey := true; fx_sync := true; fx_reset := true; fx_stale := true; fx_nilchain := true |}.
Definition d8_witness : list ev :=
  [ESetCtx 1 false; ESetKey 0 true; EProceed 0 true; ERestart 0 0; EProceed 1 false; ERestart 0 0; EWake 1 false; EProceed 2 true].
Lemma d8_refuted : cnt (in_user_lin 0) (insts (run pinned_d8 (init 0 None) d8_witness)) = 2.
Proof. vm_compute. reflexivity. Qed.

Definition pinned_d8b : fixes := {| fx_wait := true; fx_setkey := true; fx_sync := true; fx_reset := false; fx_stale := true; fx_nilchain := true |}.
Definition d8b_witness : list ev :=
  [ESetCtx 1 false; ESetKey 0 true; EProceed 0 true; ESetCtx 0 false; EReset 0 0; ESetCtx 2 false; EProceed 1 true].
Lemma d8b_refuted : cnt (in_user_lin 0) (insts (run pinned_d8b (init 0 None) d8b_witness)) = 2.
Proof. vm_compute. reflexivity. Qed.

(* D22: ResetRoutine whose constructor returns no routine, with a context set, dropped the exit channel of the instance it
   had just cancelled; the next ResetRoutine (constructor returns a routine) starts an instance that does not wait for it *)
Definition pinned_d22 : fixes := {| fx_wait := true; fx_setkey := true; fx_sync := true; fx_reset := true; fx_stale := true; fx_nilchain := false |}.
Definition d22_witness : list ev :=
  [ESetCtx 1 false; ESetKey 0 true; EProceed 0 true; ESetNil 1; EReset 0 0; ESetNil 0; EReset 0 0; EProceed 1 true].
Lemma d22_refuted : cnt (in_user_lin 0) (insts (run pinned_d22 (init 0 None) d22_witness)) = 2.
Proof. vm_compute. reflexivity. Qed.

Definition pinned_d7 : fixes := {| fx_wait := true; fx_setkey := false; fx_sync := true; fx_reset := true; fx_stale := true; fx_nilchain := true |}.
Definition d7_witness : list ev :=
  [ESetCtx 1 false; ESetKey 0 true; EProceed 0 true; EReturn 0 (OErr 0); EBook 0; ESetKey 0 false; EAdvance 150].
(* the retry timer was stopped: nothing fires, no instance follows, although the key is registered and the context set *)
Lemma d7_refuted :
  let s := run pinned_d7 (init 0 (Some [100; 200]%N)) d7_witness in
  present s 0 = true /\ kctx s = 1 /\ ninst s = 1 /\ failed (getr s 0) = true /\ rretry (getr s 0) = None /\
  map tst (timers s) = [TStopped].
Proof. vm_compute. repeat split; reflexivity. Qed.

(* ------------------------------------------------------------------ *)
(* nothing is started while the container has no context *)
(* (the container's context is only ever changed by SetContext, or dropped because its owner cancelled it) *)
Definition NS (s s' : st) : Prop := (kctx s' = kctx s \/ kctx s' = 0) /\ (kctx s = 0 -> length (insts s') = length (insts s)).
Lemma NS_refl s : NS s s. Proof. split; auto. Qed.
Lemma NS_trans s s1 s2 : NS s s1 -> NS s1 s2 -> NS s s2.
Proof.
  intros [A1 A2] [B1 B2]. split; [destruct A1 as [A1|A1], B1 as [B1|B1]; [left|right|right|right]; congruence|].
  intros H. rewrite B2 by (destruct A1; congruence). auto.
Qed.
Lemma NS_ext s s' : kctx s' = kctx s -> length (insts s') = length (insts s) -> NS s s'.
Proof. intros A B. split; auto. Qed.
Lemma NS_norm_ctx s : NS s (norm_ctx s).
Proof. unfold norm_ctx. destruct (root_canc s (kctx s)); [split; [now right | reflexivity] | apply NS_refl]. Qed.
Ltac nse := apply NS_ext; reflexivity.
Lemma NS_cancel_inst s oi : NS s (cancel_inst s oi).
Proof. destruct (cancel_inst_frame s oi) as [_ [_ [_ [_ [C5 [_ [_ [_ [_ [_ C11]]]]]]]]]]. now apply NS_ext. Qed.
Lemma NS_stop_timer s ot : NS s (stop_timer s ot).
Proof. destruct (stop_timer_frame s ot) as [_ [_ [T3 [_ [T5 _]]]]]. apply NS_ext; [exact T5 | now rewrite T3]. Qed.
Lemma NS_start s r c w f : has_ctx s = true -> NS s (start_rec s r c w f).
Proof.
  intros H. split; [left|intros E; unfold has_ctx in H; rewrite E in H; discriminate].
  unfold start_rec. cases; try reflexivity. cbn [kctx setr set_recs set_insts].
  destruct (cancel_inst_frame (stop_timer s (rretry (getr s r))) (rcancel (getr s r))) as [_ [_ [_ [_ [C5 _]]]]].
  destruct (stop_timer_frame s (rretry (getr s r))) as [_ [_ [_ [_ [T5 _]]]]]. congruence.
Qed.
Lemma NS_start_if (b : bool) s r c w f : NS s (if b && has_ctx s then start_rec s r c w f else s).
Proof. destruct (has_ctx s) eqn:E; [destruct b; cbn [andb]; [now apply NS_start | apply NS_refl] | rewrite andb_false_r; apply NS_refl]. Qed.
Lemma NS_start_if' s r c w f : NS s (if has_ctx s then start_rec s r c w f else s).
Proof. apply (NS_start_if true). Qed.
Lemma NS_new_record s k lin w : NS s (fst (new_record s k lin w)). Proof. nse. Qed.
Lemma NS_remove_now s r : NS s (remove_now s r).
Proof. unfold remove_now. eapply NS_trans; [apply NS_cancel_inst|]. eapply NS_trans; [apply NS_stop_timer | nse]. Qed.
Lemma NS_remove_rec s r : NS s (remove_rec s r).
Proof. unfold remove_rec. cases; [apply NS_refl | apply NS_remove_now | nse]. Qed.
Lemma NS_unremove s r : NS s (unremove s r).
Proof. unfold unremove. destruct (rremove (getr s r)); [|apply NS_refl]. eapply NS_trans; [apply NS_stop_timer | nse]. Qed.
Lemma NS_unretry s r : NS s (unretry s r).
Proof. unfold unretry. destruct (rretry (getr s r)); [|apply NS_refl]. eapply NS_trans; [apply NS_stop_timer | nse]. Qed.

Lemma NS_set_key s k st : NS s (fst (set_key repaired s k st)).
Proof.
  unfold set_key. destruct (lookup (kmap s) k) as [r|].
  - cbn [fx_setkey repaired fst]. eapply NS_trans; [apply NS_unremove | apply NS_start_if].
  - pose proof (NS_new_record s k (nlin s) None) as G. destruct (new_record s k (nlin s) None) as [s1 r]. cbn [fst] in *.
    eapply NS_trans; [exact G|]. eapply (NS_trans _ (set_nlin s1 (S (nlin s1)))); [nse | apply NS_start_if'].
Qed.
Lemma NS_remove_key s k : NS s (fst (remove_key s k)).
Proof. unfold remove_key. destruct (lookup (kmap s) k); cbn [fst]; [apply NS_remove_rec | apply NS_refl]. Qed.
Lemma NS_fold_acc {A E} (pr : A -> st) (f : A -> E -> A) :
  (forall a e, NS (pr a) (pr (f a e))) -> forall es a, NS (pr a) (pr (fold_left f es a)).
Proof. intros Hf es. induction es as [|e es IH]; intros a; cbn [fold_left]; [apply NS_refl | eapply NS_trans; [apply Hf | apply IH]]. Qed.
Lemma NS_sync_one restart acc k : NS (fst (fst acc)) (fst (fst (sync_one repaired restart acc k))).
Proof.
  destruct acc as [[s seen] added]. cbn [fst]. unfold sync_one. destruct (mem k seen); [apply NS_refl|].
  destruct (lookup (kmap s) k) as [r|].
  - cbn [fx_sync repaired fst]. eapply NS_trans; [apply NS_unremove | apply NS_start_if].
  - pose proof (NS_new_record s k (nlin s) None) as G. destruct (new_record s k (nlin s) None) as [s1 r]. cbn [fst] in *.
    eapply NS_trans; [exact G|]. eapply (NS_trans _ (set_nlin s1 (S (nlin s1)))); [nse | apply NS_start_if'].
Qed.
Lemma NS_sync_rm keys acc k : NS (fst acc) (fst (sync_rm keys acc k)).
Proof. destruct acc as [s removed]. unfold sync_rm. destruct (mem k keys); cbn [fst]; [apply NS_refl | apply NS_remove_key]. Qed.
Lemma NS_sync_keys s keys restart : NS s (fst (sync_keys repaired s keys restart)).
Proof.
  unfold sync_keys. eapply NS_trans; [apply NS_norm_ctx|]. generalize (norm_ctx s). clear s. intros s. unfold sync_core.
  pose proof (NS_fold_acc (fun acc : st * list nat * list nat => fst (fst acc)) (sync_one repaired restart) (NS_sync_one restart) keys (s, [], [])) as G1.
  destruct (fold_left (sync_one repaired restart) keys (s, [], [])) as [[s1 seen] added]. cbn [fst] in G1.
  pose proof (NS_fold_acc (fun acc : st * list nat => fst acc) (sync_rm keys) (NS_sync_rm keys) (map fst (kmap s1)) (s1, [])) as G2.
  destruct (fold_left (sync_rm keys) (map fst (kmap s1)) (s1, [])) as [s2 removed]. cbn [fst] in *. eapply NS_trans; eauto.
Qed.
Lemma NS_reset_routine s k cond : NS s (fst (reset_routine repaired s k cond)).
Proof.
  unfold reset_routine. eapply NS_trans; [apply NS_norm_ctx|]. generalize (norm_ctx s). clear s. intros s. unfold reset_core.
  destruct (lookup (kmap s) k) as [r|]; [|apply NS_refl]. destruct (negb (cond_match cond k)); [apply NS_refl|].
  set (s1 := cancel_inst s (rcancel (getr s r))). match goal with |- context [new_record s1 k _ ?w] => set (w0 := w) end.
  pose proof (NS_new_record s1 k (rlin (getr s r)) w0) as G. destruct (new_record s1 k (rlin (getr s r)) w0) as [s2 r2]. cbn [fst] in *.
  eapply NS_trans; [apply NS_cancel_inst|]. fold s1. eapply NS_trans; [exact G | apply NS_start_if'].
Qed.
Lemma NS_restart_routine s k cond : NS s (fst (restart_routine s k cond)).
Proof.
  unfold restart_routine. eapply NS_trans; [apply NS_norm_ctx|]. generalize (norm_ctx s). clear s. intros s. unfold restart_core.
  destruct (lookup (kmap s) k) as [r|]; [|apply NS_refl].
  destruct (has_ctx s) eqn:E; cbn [negb]; [|apply NS_refl]. destruct (negb (cond_match cond k)); [apply NS_refl|]. cbn [fst].
  eapply (NS_trans _ (setr (cancel_inst s (rcancel (getr s r))) r (with_cancel (getr s r) None))); [eapply NS_trans; [apply NS_cancel_inst | nse]|].
  apply NS_start. unfold has_ctx in *. cbn [kctx setr set_recs]. destruct (cancel_inst_frame s (rcancel (getr s r))) as [_ [_ [_ [_ [C5 _]]]]]. now rewrite C5.
Qed.
Lemma NS_all_step f cond acc k : (forall s k c, NS s (fst (f s k c))) -> NS (fst acc) (fst (all_step f cond acc k)).
Proof. intros Hf. destruct acc as [s n]. unfold all_step. pose proof (Hf s k cond) as G. destruct (f s k cond) as [s' [ex rs]]. exact G. Qed.
Lemma NS_reset_all s cond : NS s (fst (reset_all repaired s cond)).
Proof.
  unfold reset_all.
  pose proof (NS_fold_acc (fun acc : st * nat => fst acc) (all_step (reset_routine repaired) cond) (fun a e => NS_all_step _ cond a e NS_reset_routine) (map fst (kmap s)) (s, 0)) as G.
  destruct (fold_left _ _ (s, 0)) as [s' n]. exact G.
Qed.
Lemma NS_restart_all s cond : NS s (fst (restart_all s cond)).
Proof.
  unfold restart_all.
  pose proof (NS_fold_acc (fun acc : st * nat => fst acc) (all_step restart_routine cond) (fun a e => NS_all_step _ cond a e NS_restart_routine) (map fst (kmap s)) (s, 0)) as G.
  destruct (fold_left _ _ (s, 0)) as [s' n]. exact G.
Qed.
Lemma NS_add_key_ref s k : NS s (fst (add_key_ref repaired s k)).
Proof. unfold add_key_ref. pose proof (NS_set_key s k true) as G. destruct (set_key repaired s k true) as [s1 res]. cbn [fst] in *. eapply NS_trans; [exact G | nse]. Qed.
Lemma NS_release_section s a : NS s (release_section s a).
Proof.
  unfold release_section. destruct (nth_error (rels s) a) as [l|]; [|apply NS_refl]. destruct (lparked l); [|apply NS_refl].
  set (s1 := set_rels s _). assert (G1 : NS s s1) by nse.
  destruct (nth_error (refs s1) (lref l)) as [x|]; [|exact G1]. destruct (fin x); [|exact G1].
  set (s2 := set_refs s1 _). assert (G2 : NS s s2) by nse.
  destruct (Nat.eqb _ 0); [eapply NS_trans; [exact G2 | apply NS_remove_key] | exact G2].
Qed.
Lemma NS_bookkeep s i : NS s (bookkeep s i).
Proof.
  unfold bookkeep. destruct (nth_error (insts s) i) as [x|] eqn:Ex; [|apply NS_refl]. destruct (ipcv x); try apply NS_refl.
  set (s0 := seti s i (with_pc x IDone)).
  assert (G0 : NS s s0) by (apply NS_ext; [reflexivity | unfold s0; rewrite insts_seti; apply length_set_nth]).
  destruct (rctx (getr s (irec x))) as [j|]; [|exact G0]. destruct (Nat.eqb j i); [|exact G0].
  assert (G : forall S y l, NS s S -> NS s (set_cblog (setr S (irec x) y) l)) by (intros S y l HS; eapply NS_trans; [exact HS | nse]).
  destruct (script s0) as [l|]; [|now apply G].
  assert (G' : NS s (stop_timer s0 (rretry (getr s (irec x))))) by (eapply NS_trans; [exact G0 | apply NS_stop_timer]).
  destruct (is_nil o); [now apply G|]. destruct (in_map _ _); [|now apply G].
  destruct (nth_error l _); [|now apply G]. apply G. eapply NS_trans; [exact G' | nse].
Qed.
Lemma NS_seti_len s i x x' : nth_error (insts s) i = Some x -> NS s (seti s i x').
Proof. intros H. apply NS_ext; [reflexivity | rewrite insts_seti; apply length_set_nth]. Qed.
Lemma NS_timer_cb s t : NS s (timer_cb repaired s t).
Proof.
  unfold timer_cb. destruct (nth_error (timers s) t) as [x|]; [|apply NS_refl]. destruct (tst x); try apply NS_refl.
  set (s1 := set_timers s _). assert (G1 : NS s s1) by nse.
  destruct (tkind x).
  - destruct (in_map s1 (trec x) && _); [|exact G1].
    eapply NS_trans; [exact G1|]. eapply NS_trans; [|apply NS_remove_now]. eapply NS_trans; [apply NS_stop_timer | nse].
  - destruct (has_ctx s1) eqn:E; cbn [andb]; [|exact G1].
    destruct (in_map s1 (trec x) && rexited (getr s1 (trec x))); [eapply NS_trans; [exact G1 | now apply NS_start] | exact G1].
Qed.

Lemma clear_context_no_spawn s restart : length (insts (set_context s 0 restart)) = length (insts s).
Proof.
  unfold set_context. destruct (Nat.eqb (kctx s) 0 && negb restart); [reflexivity|].
  change (length (insts s)) with (length (insts (set_kctx s 0))).
  generalize (map fst (kmap (set_kctx s 0))) as ks. generalize (set_kctx s 0) as s0.
  intros s0 ks. revert s0. induction ks as [|k ks IH]; intros s0; cbn [fold_left]; [reflexivity|]. rewrite IH. unfold ctx_key.
  destruct (lookup (kmap s0) k) as [r|]; [|reflexivity]. destruct (_ && is_nil _); [reflexivity|].
  rewrite andb_false_r. rewrite insts_setr. apply cancel_inst_frame.
Qed.

Theorem no_context_no_spawn s e :
  kctx s = 0 -> (forall c r, e = ESetCtx c r -> c = 0) -> length (insts (step repaired s e)) = length (insts s).
Proof.
  intros Hk He. destruct e; cbn [step].
  - rewrite (He c restart eq_refl). apply clear_context_no_spawn.
  - now apply NS_set_key. - now apply NS_remove_key. - now apply NS_sync_keys. - reflexivity.
  - now apply NS_reset_routine. - now apply NS_restart_routine. - now apply NS_reset_all. - now apply NS_restart_all.
  - now apply NS_add_key_ref.
  - unfold release_start. cases; reflexivity.
  - now apply NS_release_section.
  - unfold rc_remove_key. apply (NS_remove_key (set_refs s _) k). exact Hk.
  - unfold proceed. cases; try reflexivity; rewrite insts_seti; apply length_set_nth.
  - unfold wake. cases; try reflexivity; rewrite insts_seti; apply length_set_nth.
  - unfold fn_return. cases; try reflexivity; rewrite insts_seti; apply length_set_nth.
  - now apply NS_bookkeep.
  - reflexivity.
  - now apply NS_timer_cb.
  - unfold cancel_root. destruct (Nat.eqb c 0); [reflexivity|]. cbn [insts set_croots set_insts]. apply map_length.
  - reflexivity.
Qed.
