(* keyed: the chain invariant of the gate-level model, for every event list (C07), and the well-formedness of the
   key map that the C06 proofs build on. *)
From Util Require Import Common.Base Common.ListLemmas Keyed.Model.

(* ------------------------------------------------------------------ *)
(* association lists *)
Lemma w0_repaired {A} (b c : bool) (p q : A) : (if (if b then c || true else true) then p else q) = p.
Proof. destruct b, c; reflexivity. Qed.

Lemma lookup_insert_same {A} (m : list (nat * A)) k v : lookup (insert m k v) k = Some v.
Proof.
  induction m as [|[k' v'] t IH]; cbn [insert lookup]; [now rewrite Nat.eqb_refl|].
  destruct (Nat.eqb_spec k' k) as [->|Hn]; [cbn [lookup]; now rewrite Nat.eqb_refl|].
  destruct (Nat.ltb k k'); cbn [lookup]; [now rewrite Nat.eqb_refl|].
  destruct (Nat.eqb_spec k' k); [contradiction | exact IH].
Qed.

Lemma lookup_insert_other {A} (m : list (nat * A)) k v k2 : k2 <> k -> lookup (insert m k v) k2 = lookup m k2.
Proof.
  intros Hne. induction m as [|[k' v'] t IH]; cbn [insert lookup].
  - destruct (Nat.eqb_spec k k2); [congruence | reflexivity].
  - destruct (Nat.eqb_spec k' k) as [->|Hn].
    + cbn [lookup]. destruct (Nat.eqb_spec k k2); [congruence | reflexivity].
    + destruct (Nat.ltb k k'); cbn [lookup].
      * destruct (Nat.eqb_spec k k2); [congruence | reflexivity].
      * destruct (Nat.eqb_spec k' k2); [reflexivity | exact IH].
Qed.

Lemma lookup_delete_same {A} (m : list (nat * A)) k : lookup (delete m k) k = None.
Proof.
  induction m as [|[k' v'] t IH]; cbn [delete lookup]; [reflexivity|].
  destruct (Nat.eqb_spec k' k) as [->|Hn]; [exact IH|]. cbn [lookup].
  destruct (Nat.eqb_spec k' k); [contradiction | exact IH].
Qed.

Lemma lookup_delete_other {A} (m : list (nat * A)) k k2 : k2 <> k -> lookup (delete m k) k2 = lookup m k2.
Proof.
  intros Hne. induction m as [|[k' v'] t IH]; cbn [delete lookup]; [reflexivity|].
  destruct (Nat.eqb_spec k' k) as [->|Hn].
  - destruct (Nat.eqb_spec k k2); [congruence | exact IH].
  - cbn [lookup]. destruct (Nat.eqb_spec k' k2); [reflexivity | exact IH].
Qed.

Lemma lookup_delete_some {A} (m : list (nat * A)) k k2 r : lookup (delete m k) k2 = Some r -> k2 <> k /\ lookup m k2 = Some r.
Proof.
  intros H. destruct (Nat.eq_dec k2 k) as [->|Hne]; [rewrite lookup_delete_same in H; discriminate|].
  split; [exact Hne|]. now rewrite lookup_delete_other in H.
Qed.

(* ------------------------------------------------------------------ *)
(* frame facts *)
Ltac frame := intros; reflexivity.
Lemma insts_setr s r x : insts (setr s r x) = insts s. Proof. frame. Qed.
Lemma insts_seti s i x : insts (seti s i x) = set_nth (insts s) i x. Proof. frame. Qed.
Lemma recs_seti s i x : recs (seti s i x) = recs s. Proof. frame. Qed.
Lemma recs_setr s r x : recs (setr s r x) = set_nth (recs s) r x. Proof. frame. Qed.
Lemma kmap_setr s r x : kmap (setr s r x) = kmap s. Proof. frame. Qed.
Lemma kmap_seti s i x : kmap (seti s i x) = kmap s. Proof. frame. Qed.

Lemma getr_setr_same s r x : r < length (recs s) -> getr (setr s r x) r = x.
Proof. intros H. unfold getr. rewrite recs_setr. now apply nth_set_nth_same. Qed.
Lemma getr_setr_other s r x q : q <> r -> getr (setr s r x) q = getr s q.
Proof. intros H. unfold getr. rewrite recs_setr. now apply nth_set_nth_other. Qed.
Lemma getr_setr_oob s r x q : length (recs s) <= r -> getr (setr s r x) q = getr s q.
Proof. intros H. unfold getr. rewrite recs_setr, set_nth_oob by exact H. reflexivity. Qed.

(* what the helper operations touch *)
Lemma cancel_inst_frame s oi :
  kmap (cancel_inst s oi) = kmap s /\ recs (cancel_inst s oi) = recs s /\ timers (cancel_inst s oi) = timers s /\
  nlin (cancel_inst s oi) = nlin s /\ kctx (cancel_inst s oi) = kctx s /\ delay (cancel_inst s oi) = delay s /\
  clock (cancel_inst s oi) = clock s /\ script (cancel_inst s oi) = script s /\ ctors (cancel_inst s oi) = ctors s /\
  refs (cancel_inst s oi) = refs s /\ length (insts (cancel_inst s oi)) = length (insts s).
Proof.
  unfold cancel_inst. destruct oi as [i|]; [|repeat split; reflexivity].
  destruct (nth_error (insts s) i); repeat split; try reflexivity. rewrite insts_seti. apply length_set_nth.
Qed.

Lemma stop_timer_frame s ot :
  kmap (stop_timer s ot) = kmap s /\ recs (stop_timer s ot) = recs s /\ insts (stop_timer s ot) = insts s /\
  nlin (stop_timer s ot) = nlin s /\ kctx (stop_timer s ot) = kctx s /\ delay (stop_timer s ot) = delay s /\
  clock (stop_timer s ot) = clock s /\ script (stop_timer s ot) = script s /\ ctors (stop_timer s ot) = ctors s /\
  refs (stop_timer s ot) = refs s /\ length (timers (stop_timer s ot)) = length (timers s).
Proof.
  unfold stop_timer. destruct ot as [t|]; [|repeat split; reflexivity].
  destruct (nth_error (timers s) t) as [x|]; [|repeat split; reflexivity].
  destruct (tst x); repeat split; try reflexivity. cbn [timers set_timers]. apply length_set_nth.
Qed.

(* ------------------------------------------------------------------ *)
(* The chain invariant (C07), per lineage.  It only speaks about the list of instances. *)
Definition earlier_over (l : list inst) (i : nat) (L : nat) : Prop :=
  forall j y, j < i -> nth_error l j = Some y -> ilin y = L -> over y = true.
(* j is the newest instance of lineage L *)
Definition last_of (l : list inst) (L : nat) (j : nat) : Prop :=
  (exists y, nth_error l j = Some y /\ ilin y = L) /\ forall m z, j < m -> nth_error l m = Some z -> ilin z <> L.
Definition all_over (l : list inst) (L : nat) : Prop := forall j y, nth_error l j = Some y -> ilin y = L -> over y = true.
(* a wait channel a start of lineage L may be given *)
Definition chain_ok (l : list inst) (L : nat) (w : option nat) : Prop :=
  match w with Some j => last_of l L j | None => all_over l L end.

Definition wait_ok (l : list inst) (i : nat) (x : inst) : Prop :=
  match iwait x with
  | Some j => j < i /\ (exists y, nth_error l j = Some y /\ ilin y = ilin x) /\
              forall m z, j < m -> m < i -> nth_error l m = Some z -> ilin z <> ilin x
  | None => earlier_over l i (ilin x)
  end.

Definition inst_ok (l : list inst) (i : nat) (x : inst) : Prop :=
  iexit x = over x /\ wait_ok l i x /\ (over x = true \/ in_user x = true -> earlier_over l i (ilin x)).

Definition InvI (l : list inst) : Prop := forall i x, nth_error l i = Some x -> inst_ok l i x.

Lemma InvI_nil : InvI []. Proof. intros [|i] x H; discriminate. Qed.

(* an update of instance i that keeps lineage and wait channel and does not decrease over-ness *)
Definition upd_ok (x x' : inst) : Prop :=
  ilin x' = ilin x /\ iwait x' = iwait x /\ (over x = true -> over x' = true).

Lemma earlier_over_update l i x x' k L :
  nth_error l i = Some x -> upd_ok x x' -> earlier_over l k L -> earlier_over (set_nth l i x') k L.
Proof.
  intros Hx [Hl [_ Hm]] H j y Hj Hy Hly.
  assert (Hil : i < length l) by (eapply nth_error_nth_len; eauto).
  destruct (Nat.eq_dec j i) as [->|Hne].
  - rewrite nth_error_set_nth_same in Hy by exact Hil. inversion Hy; subst y.
    apply Hm. apply (H i x Hj Hx). congruence.
  - rewrite nth_error_set_nth_other in Hy by exact Hne. eapply H; eauto.
Qed.

Lemma wait_ok_update l i x x' k y :
  nth_error l i = Some x -> upd_ok x x' -> k <> i -> wait_ok l k y -> wait_ok (set_nth l i x') k y.
Proof.
  intros Hx Hu Hk H. unfold wait_ok in *.
  assert (Hil : i < length l) by (eapply nth_error_nth_len; eauto).
  destruct (iwait y) as [j|]; [|eapply earlier_over_update; eauto].
  destruct H as [Hj [[z [Hz Hlz]] Hbetween]]. split; [exact Hj|]. split.
  - destruct (Nat.eq_dec j i) as [->|Hne].
    + exists x'. rewrite nth_error_set_nth_same by exact Hil. split; [reflexivity|].
      destruct Hu as [Hl _]. rewrite Hx in Hz. inversion Hz; subst z. congruence.
    + exists z. rewrite nth_error_set_nth_other by exact Hne. auto.
  - intros m z' Hm1 Hm2 Hz'. destruct (Nat.eq_dec m i) as [->|Hne].
    + rewrite nth_error_set_nth_same in Hz' by exact Hil. inversion Hz'; subst z'.
      destruct Hu as [Hl _]. rewrite Hl. eapply Hbetween; eauto.
    + rewrite nth_error_set_nth_other in Hz' by exact Hne. eapply Hbetween; eauto.
Qed.

Lemma InvI_update l i x x' :
  InvI l -> nth_error l i = Some x -> upd_ok x x' -> iexit x' = over x' ->
  (over x' = true \/ in_user x' = true -> earlier_over l i (ilin x)) ->
  InvI (set_nth l i x').
Proof.
  intros HI Hx Hu Hex Hmine k y Hk.
  assert (Hil : i < length l) by (eapply nth_error_nth_len; eauto).
  destruct (Nat.eq_dec k i) as [->|Hne].
  - rewrite nth_error_set_nth_same in Hk by exact Hil. inversion Hk; subst y.
    destruct (HI i x Hx) as [H1 [H2 H3]]. destruct Hu as [Hl [Hw Hm]].
    split; [exact Hex|]. split.
    + unfold wait_ok in *. rewrite Hw, Hl. destruct (iwait x) as [j|].
      * destruct H2 as [Hj [[z [Hz Hlz]] Hb]]. split; [exact Hj|]. split.
        -- exists z. rewrite nth_error_set_nth_other by lia. auto.
        -- intros m z' Hm1 Hm2 Hz'. rewrite nth_error_set_nth_other in Hz' by lia. eapply Hb; eauto.
      * intros j y Hj Hy. rewrite nth_error_set_nth_other in Hy by lia. eapply H2; eauto.
    + intros Ho j y Hj Hy. rewrite nth_error_set_nth_other in Hy by lia. rewrite Hl. eapply Hmine; eauto.
  - rewrite nth_error_set_nth_other in Hk by exact Hne.
    destruct (HI k y Hk) as [H1 [H2 H3]]. split; [exact H1|]. split.
    + eapply wait_ok_update; eauto.
    + intros Ho. eapply earlier_over_update; eauto.
Qed.

Lemma InvI_update_same_shape l i x x' :
  InvI l -> nth_error l i = Some x ->
  ilin x' = ilin x -> iwait x' = iwait x -> ipcv x' = ipcv x -> iexit x' = iexit x -> InvI (set_nth l i x').
Proof.
  intros HI Hx Hl Hw Hp He. destruct (HI i x Hx) as [H1 [H2 H3]].
  assert (Ho : over x' = over x) by (unfold over; now rewrite Hp).
  assert (Hu : in_user x' = in_user x) by (unfold in_user; now rewrite Hp).
  apply (InvI_update l i x x' HI Hx).
  - split; [exact Hl|]. split; [exact Hw|]. now rewrite Ho.
  - now rewrite He, Ho.
  - rewrite Ho, Hu. exact H3.
Qed.

Lemma earlier_over_app l x k L : k <= length l -> earlier_over l k L -> earlier_over (l ++ [x]) k L.
Proof. intros Hk H j y Hj Hy. rewrite nth_error_app1 in Hy by lia. eapply H; eauto. Qed.

(* a new instance of lineage L waiting on w, where w is admissible for L *)
Lemma InvI_app l x :
  InvI l -> chain_ok l (ilin x) (iwait x) -> ipcv x = IGate0 -> iexit x = false -> InvI (l ++ [x]).
Proof.
  intros HI Hc Hp He k y Hk.
  destruct (Nat.lt_ge_cases k (length l)) as [Hl|Hl].
  - rewrite nth_error_app1 in Hk by exact Hl. destruct (HI k y Hk) as [H1 [H2 H3]].
    split; [exact H1|]. split.
    + unfold wait_ok in *. destruct (iwait y) as [j|].
      * destruct H2 as [Hj [[z [Hz Hlz]] Hb]]. split; [exact Hj|]. split.
        -- exists z. rewrite nth_error_app1 by lia. auto.
        -- intros m z' Hm1 Hm2 Hz'. rewrite nth_error_app1 in Hz' by lia. eapply Hb; eauto.
      * apply earlier_over_app; [lia | exact H2].
    + intros Ho. apply earlier_over_app; [lia | auto].
  - rewrite nth_error_app2 in Hk by exact Hl.
    destruct (k - length l) as [|d] eqn:E; simpl in Hk; [|destruct d; discriminate].
    inversion Hk; subst y. assert (k = length l) by lia. subst k.
    split; [unfold over; now rewrite Hp, He|]. split.
    + unfold wait_ok, chain_ok in *. destruct (iwait x) as [j|].
      * destruct Hc as [[z [Hz Hlz]] Hlast]. split; [eapply nth_error_nth_len; eauto|]. split.
        -- exists z. rewrite nth_error_app1 by (eapply nth_error_nth_len; eauto). auto.
        -- intros m z' Hm1 Hm2 Hz'. rewrite nth_error_app1 in Hz' by lia. eapply Hlast; eauto.
      * intros j y Hj Hy. rewrite nth_error_app1 in Hy by lia. eapply Hc; eauto.
    + unfold over, in_user. rewrite Hp. intros [H|H]; discriminate.
Qed.

(* a closed predecessor means that every earlier instance of the lineage has left user code *)
Lemma InvI_pred_closed l i x :
  InvI l -> nth_error l i = Some x ->
  (match iwait x with Some j => iexit (nth j l inst0) | None => true end) = true ->
  earlier_over l i (ilin x).
Proof.
  intros HI Hx Hc. destruct (HI i x Hx) as [_ [H2 _]]. unfold wait_ok in H2.
  destruct (iwait x) as [p|]; [|exact H2].
  destruct H2 as [Hp [[z [Hz Hlz]] Hb]].
  rewrite (nth_error_nth l p inst0 Hz) in Hc.
  destruct (HI p z Hz) as [G1 [_ G3]]. rewrite G1 in Hc.
  intros j y Hj Hy Hly.
  destruct (Nat.lt_trichotomy j p) as [Hlt|[->|Hgt]].
  - apply (G3 (or_introl Hc) j y Hlt Hy). congruence.
  - congruence.
  - exfalso. exact (Hb j y Hgt Hj Hy Hly).
Qed.

Lemma at_most_one_by_order {A} (P : A -> bool) (l : list A) :
  (forall i j x y, i < j -> nth_error l i = Some x -> nth_error l j = Some y -> P x = true -> P y = true -> False) ->
  cnt P l <= 1.
Proof.
  induction l as [|h t IH]; intros H; [unfold cnt; simpl; lia|].
  rewrite cnt_cons. destruct (P h) eqn:Eh; simpl.
  - assert (cnt P t = 0); [|lia]. apply cnt_zero_forall. intros a Ha.
    destruct (In_nth_error _ _ Ha) as [k Hk]. destruct (P a) eqn:Ea; [|reflexivity].
    exfalso. apply (H 0 (S k) h a); simpl; auto; lia.
  - apply IH. intros i j x y Hij Hx Hy. apply (H (S i) (S j) x y); simpl; auto; lia.
Qed.

Lemma InvI_at_most_one_in_user l L : InvI l -> cnt (in_user_lin L) l <= 1.
Proof.
  intros HI. apply at_most_one_by_order. intros i j x y Hij Hx Hy Px Py.
  unfold in_user_lin in *. apply andb_true_iff in Px as [Px Lx]. apply andb_true_iff in Py as [Py Ly].
  apply Nat.eqb_eq in Lx. apply Nat.eqb_eq in Ly.
  destruct (HI j y Hy) as [_ [_ H3]]. specialize (H3 (or_intror Py) i x Hij Hx ltac:(congruence)).
  unfold over in H3. unfold in_user in Px. destruct (ipcv x); discriminate.
Qed.

(* ------------------------------------------------------------------ *)
(* The whole-state invariant. *)
Definition RecOK (s : st) (k r : nat) : Prop :=
  r < length (recs s) /\ rkey (getr s r) = k /\ rlin (getr s r) < nlin s /\
  chain_ok (insts s) (rlin (getr s r)) (rexit (getr s r)) /\
  (forall i j, rctx (getr s r) = Some i -> rexit (getr s r) = Some j -> i = j).
Definition InvM (s : st) : Prop := forall k r, lookup (kmap s) k = Some r -> RecOK s k r.
Definition InvD (s : st) : Prop :=
  forall k1 k2 r1 r2, lookup (kmap s) k1 = Some r1 -> lookup (kmap s) k2 = Some r2 ->
                      rlin (getr s r1) = rlin (getr s r2) -> k1 = k2.
Definition InvF (s : st) : Prop := forall i x, nth_error (insts s) i = Some x -> ilin x < nlin s.
Definition Inv (s : st) : Prop := InvI (insts s) /\ InvM s /\ InvD s /\ InvF s.

Lemma Inv_ext s s' :
  insts s' = insts s -> kmap s' = kmap s -> recs s' = recs s -> nlin s' = nlin s -> Inv s -> Inv s'.
Proof.
  intros E1 E2 E3 E4 [HI [HM [HD HF]]]. unfold Inv, InvM, InvD, InvF, RecOK, getr in *. rewrite E1, E2, E3, E4. auto.
Qed.

Lemma chain_ok_update l i x x' L w :
  nth_error l i = Some x -> upd_ok x x' -> chain_ok l L w -> chain_ok (set_nth l i x') L w.
Proof.
  intros Hx Hu H. assert (Hil : i < length l) by (eapply nth_error_nth_len; eauto).
  destruct Hu as [Hl [_ Hm]]. unfold chain_ok in *. destruct w as [j|].
  - destruct H as [[z [Hz Hlz]] Hlast]. split.
    + destruct (Nat.eq_dec j i) as [->|Hne].
      * exists x'. rewrite nth_error_set_nth_same by exact Hil. split; [reflexivity|]. rewrite Hx in Hz. inversion Hz; subst z. congruence.
      * exists z. rewrite nth_error_set_nth_other by exact Hne. auto.
    + intros m z' Hm1 Hz'. destruct (Nat.eq_dec m i) as [->|Hne].
      * rewrite nth_error_set_nth_same in Hz' by exact Hil. inversion Hz'; subst z'. rewrite Hl. eapply Hlast; eauto.
      * rewrite nth_error_set_nth_other in Hz' by exact Hne. eapply Hlast; eauto.
  - intros j y Hy Hly. destruct (Nat.eq_dec j i) as [->|Hne].
    + rewrite nth_error_set_nth_same in Hy by exact Hil. inversion Hy; subst y. apply Hm. apply (H i x Hx). congruence.
    + rewrite nth_error_set_nth_other in Hy by exact Hne. eapply H; eauto.
Qed.

Lemma chain_ok_app_other l x L w : ilin x <> L -> chain_ok l L w -> chain_ok (l ++ [x]) L w.
Proof.
  intros Hne H. unfold chain_ok in *. destruct w as [j|].
  - destruct H as [[z [Hz Hlz]] Hlast]. split.
    + exists z. rewrite nth_error_app1 by (eapply nth_error_nth_len; eauto). auto.
    + intros m z' Hm Hz'. destruct (nth_error_app_inv _ _ _ _ Hz') as [G| ->]; [eapply Hlast; eauto | exact Hne].
  - intros j y Hy Hly. destruct (nth_error_app_inv _ _ _ _ Hy) as [G| ->]; [eapply H; eauto | congruence].
Qed.

(* an instance update that keeps lineage and wait channel *)
Lemma Inv_seti s i x x' :
  Inv s -> nth_error (insts s) i = Some x -> upd_ok x x' -> iexit x' = over x' ->
  (over x' = true \/ in_user x' = true -> earlier_over (insts s) i (ilin x)) ->
  Inv (seti s i x').
Proof.
  intros [HI [HM [HD HF]]] Hx Hu Hex Hmine.
  assert (Hil : i < length (insts s)) by (eapply nth_error_nth_len; eauto).
  split; [|split; [|split]].
  - rewrite insts_seti. eapply InvI_update; eauto.
  - intros k r Hk. destruct (HM k r Hk) as [M1 [M2 [M3 [M4 M5]]]].
    unfold RecOK, getr in *. rewrite insts_seti, recs_seti. cbn [nlin seti set_insts].
    repeat split; auto. eapply chain_ok_update; eauto.
  - exact HD.
  - intros j y Hy. rewrite insts_seti in Hy. cbn [nlin seti set_insts].
    destruct (Nat.eq_dec j i) as [->|Hne].
    + rewrite nth_error_set_nth_same in Hy by exact Hil. inversion Hy; subst y. destruct Hu as [Hl _]. rewrite Hl. eapply HF; eauto.
    + rewrite nth_error_set_nth_other in Hy by exact Hne. eapply HF; eauto.
Qed.

Lemma Inv_seti_same_shape s i x x' :
  Inv s -> nth_error (insts s) i = Some x ->
  ilin x' = ilin x -> iwait x' = iwait x -> ipcv x' = ipcv x -> iexit x' = iexit x -> Inv (seti s i x').
Proof.
  intros H Hx Hl Hw Hp He. destruct H as [HI R]. destruct (HI i x Hx) as [H1 [H2 H3]].
  assert (Ho : over x' = over x) by (unfold over; now rewrite Hp).
  assert (Hu : in_user x' = in_user x) by (unfold in_user; now rewrite Hp).
  apply (Inv_seti s i x x' (conj HI R) Hx).
  - split; [exact Hl|]. split; [exact Hw|]. now rewrite Ho.
  - now rewrite He, Ho.
  - rewrite Ho, Hu. exact H3.
Qed.

Lemma Inv_cancel_inst s oi : Inv s -> Inv (cancel_inst s oi).
Proof.
  intros H. unfold cancel_inst. destruct oi as [i|]; [|exact H].
  destruct (nth_error (insts s) i) as [x|] eqn:E; [|exact H].
  eapply Inv_seti_same_shape; eauto.
Qed.

Lemma Inv_stop_timer s ot : Inv s -> Inv (stop_timer s ot).
Proof. destruct (stop_timer_frame s ot) as [E1 [E2 [E3 [E4 _]]]]. apply Inv_ext; auto. Qed.

(* a record update that keeps key and lineage; the new exit channel must be admissible if the record is registered *)
Lemma Inv_setr s r x' :
  Inv s -> rkey x' = rkey (getr s r) -> rlin x' = rlin (getr s r) ->
  (forall k, lookup (kmap s) k = Some r ->
             chain_ok (insts s) (rlin x') (rexit x') /\ (forall i j, rctx x' = Some i -> rexit x' = Some j -> i = j)) ->
  Inv (setr s r x').
Proof.
  intros [HI [HM [HD HF]]] Hk Hl Hc.
  destruct (Nat.lt_ge_cases r (length (recs s))) as [Hr|Hr].
  - assert (Hlin : forall q, rlin (getr (setr s r x') q) = rlin (getr s q)).
    { intros q. destruct (Nat.eq_dec q r) as [->|Hne]; [rewrite getr_setr_same by exact Hr; exact Hl | now rewrite getr_setr_other]. }
    split; [|split; [|split]].
    + rewrite insts_setr. exact HI.
    + intros k q Hq. rewrite kmap_setr in Hq. destruct (HM k q Hq) as [M1 [M2 [M3 [M4 M5]]]].
      unfold RecOK. rewrite recs_setr, length_set_nth, insts_setr. cbn [nlin setr set_recs].
      destruct (Nat.eq_dec q r) as [->|Hne].
      * rewrite getr_setr_same by exact Hr. destruct (Hc k Hq) as [C1 C2].
        repeat split; auto; congruence.
      * rewrite getr_setr_other by exact Hne. repeat split; auto.
    + intros k1 k2 r1 r2 H1 H2. rewrite !Hlin. rewrite kmap_setr in H1, H2. eapply HD; eauto.
    + exact HF.
  - apply (Inv_ext s); try reflexivity; [|exact (conj HI (conj HM (conj HD HF)))].
    rewrite recs_setr. now apply set_nth_oob.
Qed.

(* ... in particular one that keeps the exit channel and keeps or clears the context *)
Lemma Inv_setr_keep s r x' :
  Inv s -> rkey x' = rkey (getr s r) -> rlin x' = rlin (getr s r) -> rexit x' = rexit (getr s r) ->
  (rctx x' = rctx (getr s r) \/ rctx x' = None) -> Inv (setr s r x').
Proof.
  intros H Hk Hl He Hc. apply Inv_setr; auto. intros k Hq.
  destruct H as [_ [HM _]]. destruct (HM k r Hq) as [_ [_ [_ [M4 M5]]]]. rewrite Hl, He. split; [exact M4|].
  intros i j Hi Hj. destruct Hc as [Hc|Hc]; [rewrite Hc in Hi; eauto | congruence].
Qed.

Lemma in_map_lookup s r : in_map s r = true -> lookup (kmap s) (rkey (getr s r)) = Some r.
Proof.
  unfold in_map. destruct (lookup (kmap s) (rkey (getr s r))) as [r'|]; [|discriminate].
  intros H. apply Nat.eqb_eq in H. now subst.
Qed.

(* start on a registered record with an admissible wait channel *)
Lemma Inv_start s k r c w force :
  Inv s -> lookup (kmap s) k = Some r -> chain_ok (insts s) (rlin (getr s r)) w -> Inv (start_rec s r c w force).
Proof.
  intros H Hk Hw. unfold start_rec. set (x := getr s r).
  destruct (negb force && rsucc x || rnil x); [exact H|].
  destruct (negb force && is_some (rctx x) && negb (rexited x) && ctx_live s (rctx x)); [exact H|].
  set (s1 := stop_timer s (rretry x)).
  assert (H1 : Inv s1) by (apply Inv_stop_timer, H).
  destruct (stop_timer_frame s (rretry x)) as [T1 [T2 [T3 [T4 _]]]]. fold s1 in T1, T2, T3, T4.
  set (s2 := cancel_inst s1 (rcancel x)).
  assert (H2 : Inv s2) by (apply Inv_cancel_inst, H1).
  destruct (cancel_inst_frame s1 (rcancel x)) as [C1 [C2 [_ [C4 _]]]]. fold s2 in C1, C2, C4.
  assert (Hw2 : chain_ok (insts s2) (rlin x) w).
  { unfold s2, cancel_inst. destruct (rcancel x) as [i|]; [|rewrite T3; exact Hw].
    destruct (nth_error (insts s1) i) as [y|] eqn:Ey; [|rewrite T3; exact Hw].
    rewrite insts_seti. eapply chain_ok_update; [exact Ey | | rewrite T3; exact Hw].
    split; [reflexivity|]. split; [reflexivity|]. auto. }
  assert (X2 : getr s2 r = x) by (unfold getr, x; rewrite C2, T2; reflexivity).
  assert (K2 : lookup (kmap s2) k = Some r) by (rewrite C1, T1; exact Hk).
  destruct H2 as [HI [HM [HD HF]]].
  destruct (HM k r K2) as [M1 [M2 [M3 [M4 M5]]]]. rewrite X2 in M2, M3.
  set (n := length (insts s2)).
  set (X := {| irec := r; ikey := rkey x; ilin := rlin x; iwait := w; ipcv := IGate0; icanc := root_canc s c; iexit := false;
               idata := rdata x; iroot := c |}).
  cbn zeta. fold s1. fold s2. fold n. fold X.
  set (s3 := set_insts s2 (insts s2 ++ [X])).
  assert (G3 : forall q, getr s3 q = getr s2 q) by reflexivity.
  split; [|split; [|split]].
  - rewrite insts_setr. cbn [insts s3 set_insts]. apply InvI_app; [exact HI | exact Hw2 | reflexivity | reflexivity].
  - intros k' q Hq. rewrite kmap_setr in Hq. change (kmap s3) with (kmap s2) in Hq.
    destruct (HM k' q Hq) as [N1 [N2 [N3 [N4 N5]]]].
    unfold RecOK. rewrite recs_setr, length_set_nth, insts_setr. cbn [nlin setr set_recs]. cbn [insts s3 set_insts recs nlin].
    destruct (Nat.eq_dec q r) as [->|Hne].
    + rewrite getr_setr_same by exact M1. cbn [rkey rlin rexit rctx with_started].
      rewrite X2 in N2. repeat split; auto.
      * exists X. split; [|reflexivity]. rewrite nth_error_app2 by (unfold n; lia). unfold n. rewrite Nat.sub_diag. reflexivity.
      * intros m z Hm Hz. apply nth_error_nth_len in Hz. rewrite app_length in Hz. cbn [length] in Hz. unfold n in Hm. lia.
      * intros i j Hi Hj. congruence.
    + rewrite getr_setr_other by exact Hne. rewrite G3. repeat split; auto.
      apply chain_ok_app_other; [|exact N4]. cbn [ilin X]. intros E.
      assert (k' = k); [|subst k'; congruence].
      apply (HD k' k q r Hq K2). rewrite X2. congruence.
  - intros k1 k2 r1 r2 E1 E2. rewrite kmap_setr in E1, E2. change (kmap s3) with (kmap s2) in E1, E2.
    assert (Hlin : forall q, rlin (getr (setr s3 r (with_started x n)) q) = rlin (getr s2 q)).
    { intros q. destruct (Nat.eq_dec q r) as [->|Hne];
        [rewrite getr_setr_same by exact M1; rewrite <- X2; reflexivity | rewrite getr_setr_other by exact Hne; now rewrite G3]. }
    rewrite !Hlin. eapply HD; eauto.
  - intros j y Hy. rewrite insts_setr in Hy. cbn [insts s3 set_insts] in Hy. cbn [nlin setr set_recs s3 set_insts].
    destruct (nth_error_app_inv _ _ _ _ Hy) as [G| ->]; [eapply HF; eauto | exact M3].
Qed.

Lemma Inv_start_cur s k r c force :
  Inv s -> lookup (kmap s) k = Some r -> Inv (start_rec s r c (rexit (getr s r)) force).
Proof.
  intros H Hk. eapply Inv_start; eauto. destruct H as [_ [HM _]]. destruct (HM k r Hk) as [_ [_ [_ [M4 _]]]]. exact M4.
Qed.

(* ---- new records ---- *)
Lemma new_record_frame s k lin w :
  let s' := fst (new_record s k lin w) in
  let r := snd (new_record s k lin w) in
  r = length (recs s) /\ insts s' = insts s /\ nlin s' = nlin s /\ timers s' = timers s /\ kctx s' = kctx s /\
  kmap s' = insert (kmap s) k r /\ length (recs s') = S (length (recs s)) /\
  (forall q, q < length (recs s) -> getr s' q = getr s q) /\
  rkey (getr s' r) = k /\ rlin (getr s' r) = lin /\ rexit (getr s' r) = w /\ rctx (getr s' r) = None /\
  rcancel (getr s' r) = None /\ rremove (getr s' r) = None /\ rretry (getr s' r) = None /\ rsucc (getr s' r) = false /\
  rexited (getr s' r) = false.
Proof.
  unfold new_record. cbn [fst snd]. cbn [insts nlin timers kctx kmap recs set_kmap set_recs set_ctors].
  split; [reflexivity|]. split; [reflexivity|]. split; [reflexivity|]. split; [reflexivity|]. split; [reflexivity|].
  split; [reflexivity|]. split; [rewrite app_length; cbn; lia|]. split.
  - intros q Hq. unfold getr. cbn [recs set_kmap set_recs set_ctors]. now rewrite app_nth1.
  - unfold getr. cbn [recs set_kmap set_recs set_ctors]. rewrite app_nth2 by lia. rewrite Nat.sub_diag. cbn. repeat split; reflexivity.
Qed.

(* a key that was absent gets a record of a fresh lineage *)
Lemma Inv_new_fresh s k :
  Inv s -> lookup (kmap s) k = None ->
  let s1 := fst (new_record s k (nlin s) None) in
  Inv (set_nlin s1 (S (nlin s1))) /\ lookup (kmap (set_nlin s1 (S (nlin s1)))) k = Some (snd (new_record s k (nlin s) None)).
Proof.
  intros [HI [HM [HD HF]]] Hk.
  destruct (new_record_frame s k (nlin s) None) as [F0 [F1 [F2 [F3 [F4 [F5 [F6 [F7 [F8 [F9 [F10 [F11 _]]]]]]]]]]]].
  set (s1 := fst (new_record s k (nlin s) None)) in *. set (r := snd (new_record s k (nlin s) None)) in *. cbn zeta.
  set (s2 := set_nlin s1 (S (nlin s1))).
  assert (G : forall q, getr s2 q = getr s1 q) by reflexivity.
  assert (K : kmap s2 = insert (kmap s) k r) by exact F5.
  split; [|rewrite K; apply lookup_insert_same].
  split; [|split; [|split]].
  - change (insts s2) with (insts s1). rewrite F1. exact HI.
  - intros k' q Hq. rewrite K in Hq. unfold RecOK. change (recs s2) with (recs s1). change (insts s2) with (insts s1).
    change (nlin s2) with (S (nlin s1)). rewrite G, F1, F2, F6.
    destruct (Nat.eq_dec k' k) as [->|Hne].
    + rewrite lookup_insert_same in Hq. inversion Hq; subst q. rewrite F8, F9, F10, F11.
      repeat split; auto; try lia; [|discriminate].
      intros j y Hy Hly. apply HF in Hy. lia.
    + rewrite lookup_insert_other in Hq by exact Hne. destruct (HM k' q Hq) as [M1 [M2 [M3 [M4 M5]]]].
      rewrite F7 by exact M1. repeat split; auto; lia.
  - intros k1 k2 r1 r2 E1 E2. rewrite K in E1, E2. rewrite !G.
    destruct (Nat.eq_dec k1 k) as [->|N1]; destruct (Nat.eq_dec k2 k) as [->|N2]; [reflexivity | | |].
    + rewrite lookup_insert_same in E1. inversion E1; subst r1. rewrite lookup_insert_other in E2 by exact N2.
      destruct (HM k2 r2 E2) as [M1 [_ [M3 _]]]. rewrite F9, (F7 r2 M1). lia.
    + rewrite lookup_insert_same in E2. inversion E2; subst r2. rewrite lookup_insert_other in E1 by exact N1.
      destruct (HM k1 r1 E1) as [M1 [_ [M3 _]]]. rewrite F9, (F7 r1 M1). lia.
    + rewrite lookup_insert_other in E1 by exact N1. rewrite lookup_insert_other in E2 by exact N2.
      destruct (HM k1 r1 E1) as [M1 _]. destruct (HM k2 r2 E2) as [M1' _]. rewrite (F7 r1 M1), (F7 r2 M1'). eapply HD; eauto.
  - intros j y Hy. change (insts s2) with (insts s1) in Hy. rewrite F1 in Hy. change (nlin s2) with (S (nlin s1)). rewrite F2.
    apply HF in Hy. lia.
Qed.

(* ResetRoutine: a registered key gets a new record of the same lineage that remembers an admissible exit channel *)
Lemma Inv_new_same s k r0 w :
  Inv s -> lookup (kmap s) k = Some r0 -> chain_ok (insts s) (rlin (getr s r0)) w ->
  let s1 := fst (new_record s k (rlin (getr s r0)) w) in
  Inv s1 /\ lookup (kmap s1) k = Some (snd (new_record s k (rlin (getr s r0)) w)).
Proof.
  intros [HI [HM [HD HF]]] Hk Hw. set (L := rlin (getr s r0)) in *.
  destruct (new_record_frame s k L w) as [F0 [F1 [F2 [F3 [F4 [F5 [F6 [F7 [F8 [F9 [F10 [F11 _]]]]]]]]]]]].
  set (s1 := fst (new_record s k L w)) in *. set (r := snd (new_record s k L w)) in *. cbn zeta.
  destruct (HM k r0 Hk) as [R1 [R2 [R3 _]]]. fold L in R3.
  split; [|rewrite F5; apply lookup_insert_same].
  split; [|split; [|split]].
  - rewrite F1. exact HI.
  - intros k' q Hq. rewrite F5 in Hq. unfold RecOK. rewrite F1, F2, F6.
    destruct (Nat.eq_dec k' k) as [->|Hne].
    + rewrite lookup_insert_same in Hq. inversion Hq; subst q. rewrite F8, F9, F10, F11.
      repeat split; auto; try lia. discriminate.
    + rewrite lookup_insert_other in Hq by exact Hne. destruct (HM k' q Hq) as [M1 [M2 [M3 [M4 M5]]]].
      rewrite F7 by exact M1. repeat split; auto; lia.
  - intros k1 k2 r1 r2 E1 E2. rewrite F5 in E1, E2.
    destruct (Nat.eq_dec k1 k) as [->|N1]; destruct (Nat.eq_dec k2 k) as [->|N2]; [reflexivity | | |].
    + rewrite lookup_insert_same in E1. inversion E1; subst r1. rewrite lookup_insert_other in E2 by exact N2.
      destruct (HM k2 r2 E2) as [M1 _]. rewrite F9, (F7 r2 M1). intros E. symmetry. apply (HD k2 k r2 r0 E2 Hk). now symmetry.
    + rewrite lookup_insert_same in E2. inversion E2; subst r2. rewrite lookup_insert_other in E1 by exact N1.
      destruct (HM k1 r1 E1) as [M1 _]. rewrite F9, (F7 r1 M1). intros E. apply (HD k1 k r1 r0 E1 Hk). exact E.
    + rewrite lookup_insert_other in E1 by exact N1. rewrite lookup_insert_other in E2 by exact N2.
      destruct (HM k1 r1 E1) as [M1 _]. destruct (HM k2 r2 E2) as [M1' _]. rewrite (F7 r1 M1), (F7 r2 M1'). eapply HD; eauto.
  - intros j y Hy. rewrite F1 in Hy. rewrite F2. eapply HF; eauto.
Qed.

(* ---- removal ---- *)
Lemma Inv_delete s k : Inv s -> Inv (set_kmap s (delete (kmap s) k)).
Proof.
  intros [HI [HM [HD HF]]]. split; [exact HI|]. split; [|split; [|exact HF]].
  - intros k' q Hq. cbn [kmap set_kmap] in Hq. apply lookup_delete_some in Hq as [_ Hq]. exact (HM k' q Hq).
  - intros k1 k2 r1 r2 E1 E2. cbn [kmap set_kmap] in E1, E2.
    apply lookup_delete_some in E1 as [_ E1]. apply lookup_delete_some in E2 as [_ E2]. eapply HD; eauto.
Qed.

Lemma Inv_remove_now s r : Inv s -> Inv (remove_now s r).
Proof.
  intros H. unfold remove_now. apply Inv_delete. apply Inv_setr_keep; try reflexivity; [|now left].
  apply Inv_stop_timer, Inv_cancel_inst, H.
Qed.

Lemma Inv_set_timers s l : Inv s -> Inv (set_timers s l). Proof. apply Inv_ext; reflexivity. Qed.
Lemma Inv_set_cblog s l : Inv s -> Inv (set_cblog s l). Proof. apply Inv_ext; reflexivity. Qed.
Lemma Inv_set_refs s l : Inv s -> Inv (set_refs s l). Proof. apply Inv_ext; reflexivity. Qed.
Lemma Inv_set_rels s l : Inv s -> Inv (set_rels s l). Proof. apply Inv_ext; reflexivity. Qed.
Lemma Inv_set_kctx s c : Inv s -> Inv (set_kctx s c). Proof. apply Inv_ext; reflexivity. Qed.
Lemma Inv_set_clock s c : Inv s -> Inv (set_clock s c). Proof. apply Inv_ext; reflexivity. Qed.

Lemma Inv_remove_rec s r : Inv s -> Inv (remove_rec s r).
Proof.
  intros H. unfold remove_rec. destruct (rremove (getr s r)); [exact H|].
  destruct (N.eqb (delay s) 0 || failed (getr s r)); [now apply Inv_remove_now|].
  apply Inv_setr_keep; try reflexivity; [now apply Inv_set_timers | now left].
Qed.

Lemma Inv_unremove s r : Inv s -> Inv (unremove s r).
Proof.
  intros H. unfold unremove. destruct (rremove (getr s r)) eqn:E; [|exact H].
  destruct (stop_timer_frame s (Some n)) as [_ [T2 _]].
  apply Inv_setr_keep; unfold getr; rewrite ?T2; try reflexivity; [now apply Inv_stop_timer | now left].
Qed.

Lemma Inv_unretry s r : Inv s -> Inv (unretry s r).
Proof.
  intros H. unfold unretry. destruct (rretry (getr s r)) eqn:E; [|exact H].
  destruct (stop_timer_frame s (Some n)) as [_ [T2 _]].
  apply Inv_setr_keep; unfold getr; rewrite ?T2; try reflexivity; [now apply Inv_stop_timer | now left].
Qed.

Lemma kmap_unremove s r : kmap (unremove s r) = kmap s.
Proof. unfold unremove. destruct (rremove (getr s r)); [|reflexivity]. rewrite kmap_setr. apply stop_timer_frame. Qed.
Lemma kmap_unretry s r : kmap (unretry s r) = kmap s.
Proof. unfold unretry. destruct (rretry (getr s r)); [|reflexivity]. rewrite kmap_setr. apply stop_timer_frame. Qed.

(* ---- API sections ---- *)
Lemma set_key_inv fx s k start : Inv s -> Inv (fst (set_key fx s k start)).
Proof.
  intros H. unfold set_key. destruct (lookup (kmap s) k) as [r|] eqn:Ek.
  - set (s1 := unremove s r). assert (H1 : Inv s1) by (now apply Inv_unremove).
    assert (K1 : lookup (kmap s1) k = Some r) by (unfold s1; rewrite kmap_unremove; exact Ek).
    set (s2 := if fx_setkey fx then s1 else unretry s1 r).
    assert (H2 : Inv s2) by (unfold s2; destruct (fx_setkey fx); [exact H1 | now apply Inv_unretry]).
    assert (K2 : lookup (kmap s2) k = Some r) by (unfold s2; destruct (fx_setkey fx); [exact K1 | rewrite kmap_unretry; exact K1]).
    cbn [fst]. destruct (start && has_ctx s2); [|exact H2]. eapply Inv_start_cur; eauto.
  - destruct (Inv_new_fresh s k H Ek) as [H2 K2].
    destruct (new_record s k (nlin s) None) as [s1 r] eqn:En. cbn [fst snd] in *. cbn [fst].
    destruct (has_ctx (set_nlin s1 (S (nlin s1)))); [|exact H2]. eapply Inv_start_cur; eauto.
Qed.

Lemma remove_key_inv s k : Inv s -> Inv (fst (remove_key s k)).
Proof. intros H. unfold remove_key. destruct (lookup (kmap s) k); cbn [fst]; [now apply Inv_remove_rec | exact H]. Qed.

Lemma sync_one_inv fx restart acc k : Inv (fst (fst acc)) -> Inv (fst (fst (sync_one fx restart acc k))).
Proof.
  destruct acc as [[s seen] added]. cbn [fst]. intros H. unfold sync_one.
  destruct (mem k seen); [exact H|].
  destruct (lookup (kmap s) k) as [r|] eqn:Ek.
  - set (s1 := if fx_sync fx then unremove s r else s).
    assert (H1 : Inv s1) by (unfold s1; destruct (fx_sync fx); [now apply Inv_unremove | exact H]).
    assert (K1 : lookup (kmap s1) k = Some r) by (unfold s1; destruct (fx_sync fx); [rewrite kmap_unremove; exact Ek | exact Ek]).
    cbn [fst]. destruct (restart && has_ctx s1); [|exact H1]. eapply Inv_start_cur; eauto.
  - destruct (Inv_new_fresh s k H Ek) as [H2 K2].
    destruct (new_record s k (nlin s) None) as [s1 r] eqn:En. cbn [fst snd] in *. cbn [fst].
    destruct (has_ctx (set_nlin s1 (S (nlin s1)))); [|exact H2]. eapply Inv_start_cur; eauto.
Qed.

Lemma sync_rm_inv keys acc k : Inv (fst acc) -> Inv (fst (sync_rm keys acc k)).
Proof.
  destruct acc as [s removed]. cbn [fst]. intros H. unfold sync_rm. destruct (mem k keys); [exact H|].
  cbn [fst]. now apply remove_key_inv.
Qed.

Lemma fold_inv_acc {A E} (P : A -> Prop) (f : A -> E -> A) :
  (forall a e, P a -> P (f a e)) -> forall es a, P a -> P (fold_left f es a).
Proof. intros H es; induction es as [|e es IH]; intros a Ha; cbn; auto. Qed.

Lemma Inv_norm_ctx s : Inv s -> Inv (norm_ctx s).
Proof. intros H. unfold norm_ctx. destruct (root_canc s (kctx s)); [now apply Inv_set_kctx | exact H]. Qed.

Lemma sync_keys_inv fx s keys restart : Inv s -> Inv (fst (sync_keys fx s keys restart)).
Proof.
  intros H. unfold sync_keys. apply Inv_norm_ctx in H. revert H. generalize (norm_ctx s). clear s. intros s H. unfold sync_core.
  pose proof (fold_inv_acc (fun acc => Inv (fst (fst acc))) (sync_one fx restart) (sync_one_inv fx restart) keys (s, [], []) H) as G1.
  destruct (fold_left (sync_one fx restart) keys (s, [], [])) as [[s1 seen] added]. cbn [fst] in G1.
  pose proof (fold_inv_acc (fun acc => Inv (fst acc)) (sync_rm keys) (sync_rm_inv keys) (map fst (kmap s1)) (s1, []) G1) as G2.
  destruct (fold_left (sync_rm keys) (map fst (kmap s1)) (s1, [])) as [s2 removed]. exact G2.
Qed.

Lemma ctx_key_inv c same restart s k : Inv s -> Inv (ctx_key c same restart s k).
Proof.
  intros H. unfold ctx_key. destruct (lookup (kmap s) k) as [r|] eqn:Ek; [|exact H].
  destruct (same && is_nil (rerr (getr s r))); [exact H|].
  set (x := getr s r). set (s1 := cancel_inst s (rcancel x)).
  destruct (cancel_inst_frame s (rcancel x)) as [C1 [C2 _]]. fold s1 in C1, C2.
  assert (X1 : getr s1 r = x) by (unfold getr, x; now rewrite C2).
  assert (H2 : Inv (setr s1 r (with_noctx x))).
  { apply Inv_setr_keep; rewrite ?X1; try reflexivity; [apply Inv_cancel_inst, H | now right]. }
  destruct ((is_nil (rerr x) || restart) && negb (Nat.eqb c 0)); [|exact H2].
  eapply Inv_start_cur; [exact H2|]. rewrite kmap_setr, C1. exact Ek.
Qed.

Lemma set_context_inv s c restart : Inv s -> Inv (set_context s c restart).
Proof.
  intros H. unfold set_context. destruct (Nat.eqb (kctx s) c && negb restart); [exact H|].
  apply fold_inv_acc; [intros a e; apply ctx_key_inv | now apply Inv_set_kctx].
Qed.

Lemma has_ctx_new_record s k lin w : has_ctx (fst (new_record s k lin w)) = has_ctx s.
Proof. reflexivity. Qed.

Lemma reset_routine_inv s k cond : Inv s -> Inv (fst (reset_routine repaired s k cond)).
Proof.
  intros H. unfold reset_routine. apply Inv_norm_ctx in H. revert H. generalize (norm_ctx s). clear s. intros s H. unfold reset_core.
  destruct (lookup (kmap s) k) as [r|] eqn:Ek; [|exact H].
  destruct (negb (cond_match cond k)); [exact H|].
  set (x := getr s r). set (s1 := cancel_inst s (rcancel x)).
  assert (H1 : Inv s1) by (apply Inv_cancel_inst, H).
  destruct (cancel_inst_frame s (rcancel x)) as [C1 [C2 _]]. fold s1 in C1, C2.
  assert (X1 : getr s1 r = x) by (unfold getr, x; now rewrite C2).
  assert (K1 : lookup (kmap s1) k = Some r) by (rewrite C1; exact Ek).
  cbn [fx_reset fx_nilchain repaired]. rewrite w0_repaired.
  assert (W : chain_ok (insts s1) (rlin (getr s1 r)) (rexit x)).
  { destruct H1 as [_ [HM _]]. destruct (HM k r K1) as [_ [_ [_ [M4 _]]]]. rewrite X1 in M4. rewrite X1. exact M4. }
  destruct (Inv_new_same s1 k r (rexit x) H1 K1 W) as [H2 K2]. rewrite X1 in H2, K2.
  destruct (new_record s1 k (rlin x) (rexit x)) as [s2 r2] eqn:En. cbn [fst snd] in *.
  destruct (has_ctx s2); [|exact H2].
  eapply Inv_start; [exact H2 | exact K2 |].
  destruct H2 as [_ [HM _]]. destruct (HM k r2 K2) as [_ [_ [_ [M4 _]]]].
  pose proof (new_record_frame s1 k (rlin x) (rexit x)) as F. rewrite En in F. cbn [fst snd] in F.
  destruct F as [_ [_ [_ [_ [_ [_ [_ [_ [_ [F9 [F10 _]]]]]]]]]]]. rewrite F10 in M4. exact M4.
Qed.

Lemma restart_routine_inv s k cond : Inv s -> Inv (fst (restart_routine s k cond)).
Proof.
  intros H. unfold restart_routine. apply Inv_norm_ctx in H. revert H. generalize (norm_ctx s). clear s. intros s H. unfold restart_core.
  destruct (lookup (kmap s) k) as [r|] eqn:Ek; [|exact H].
  destruct (negb (has_ctx s)); [exact H|]. destruct (negb (cond_match cond k)); [exact H|].
  set (x := getr s r). set (s1 := cancel_inst s (rcancel x)).
  destruct (cancel_inst_frame s (rcancel x)) as [C1 [C2 _]]. fold s1 in C1, C2.
  assert (X1 : getr s1 r = x) by (unfold getr, x; now rewrite C2).
  assert (H2 : Inv (setr s1 r (with_cancel x None))).
  { apply Inv_setr_keep; rewrite ?X1; try reflexivity; [apply Inv_cancel_inst, H | now left]. }
  assert (K2 : lookup (kmap (setr s1 r (with_cancel x None))) k = Some r) by (rewrite kmap_setr, C1; exact Ek).
  cbn [fst]. eapply Inv_start; [exact H2 | exact K2 |].
  destruct H2 as [_ [HM _]]. destruct (HM k r K2) as [M1 [_ [_ [M4 _]]]].
  rewrite recs_setr, length_set_nth in M1. rewrite getr_setr_same in M4 |- * by exact M1. exact M4.
Qed.

Lemma all_step_inv f cond acc k :
  (forall s k c, Inv s -> Inv (fst (f s k c))) -> Inv (fst acc) -> Inv (fst (all_step f cond acc k)).
Proof.
  intros Hf. destruct acc as [s n]. cbn [fst]. intros H. unfold all_step.
  pose proof (Hf s k cond H) as G. destruct (f s k cond) as [s' [ex rs]]. exact G.
Qed.

Lemma reset_all_inv s cond : Inv s -> Inv (fst (reset_all repaired s cond)).
Proof.
  intros H. unfold reset_all.
  pose proof (fold_inv_acc (fun acc => Inv (fst acc)) (all_step (reset_routine repaired) cond)
                (fun a e => all_step_inv _ cond a e reset_routine_inv) (map fst (kmap s)) (s, 0) H) as G.
  destruct (fold_left _ _ (s, 0)) as [s' n]. exact G.
Qed.

Lemma restart_all_inv s cond : Inv s -> Inv (fst (restart_all s cond)).
Proof.
  intros H. unfold restart_all.
  pose proof (fold_inv_acc (fun acc => Inv (fst acc)) (all_step restart_routine cond)
                (fun a e => all_step_inv _ cond a e restart_routine_inv) (map fst (kmap s)) (s, 0) H) as G.
  destruct (fold_left _ _ (s, 0)) as [s' n]. exact G.
Qed.

Lemma add_key_ref_inv fx s k : Inv s -> Inv (fst (add_key_ref fx s k)).
Proof.
  intros H. unfold add_key_ref. pose proof (set_key_inv fx s k true H) as G.
  destruct (set_key fx s k true) as [s1 res]. cbn [fst] in *. now apply Inv_set_refs.
Qed.

Lemma release_start_inv s f : Inv s -> Inv (release_start s f).
Proof.
  intros H. unfold release_start. destruct (nth_error (refs s) f) as [x|]; [|exact H].
  destruct (frel x); [exact H|]. now apply Inv_set_rels, Inv_set_refs.
Qed.

Lemma release_section_inv s a : Inv s -> Inv (release_section s a).
Proof.
  intros H. unfold release_section. destruct (nth_error (rels s) a) as [l|]; [|exact H].
  destruct (lparked l); [|exact H].
  set (s1 := set_rels s _). assert (H1 : Inv s1) by (now apply Inv_set_rels).
  destruct (nth_error (refs s1) (lref l)) as [x|]; [|exact H1]. destruct (fin x); [|exact H1].
  set (s2 := set_refs s1 _). assert (H2 : Inv s2) by (now apply Inv_set_refs).
  destruct (Nat.eqb _ 0); [now apply remove_key_inv | exact H2].
Qed.

Lemma rc_remove_key_inv s k : Inv s -> Inv (fst (rc_remove_key s k)).
Proof. intros H. unfold rc_remove_key. apply remove_key_inv. now apply Inv_set_refs. Qed.

(* ---- instance steps ---- *)
Lemma pred_closed_earlier s i x :
  InvI (insts s) -> nth_error (insts s) i = Some x -> pred_closed s x = true -> earlier_over (insts s) i (ilin x).
Proof. intros HI Hx Hc. eapply InvI_pred_closed; eauto. Qed.

Lemma Inv_enter s i x :
  Inv s -> nth_error (insts s) i = Some x -> over x = false -> pred_closed s x = true -> Inv (seti s i (with_pc x IUser)).
Proof.
  intros H Hx Hno Hc. destruct H as [HI R]. destruct (HI i x Hx) as [E1 _].
  apply (Inv_seti s i x _ (conj HI R) Hx).
  - split; [reflexivity|]. split; [reflexivity|]. rewrite Hno. discriminate.
  - cbn. rewrite E1. exact Hno.
  - intros _. eapply pred_closed_earlier; eauto.
Qed.

Lemma Inv_skip s i x o :
  Inv s -> nth_error (insts s) i = Some x -> pred_closed s x = true -> Inv (seti s i (with_over x o)).
Proof.
  intros H Hx Hc. destruct H as [HI R].
  apply (Inv_seti s i x _ (conj HI R) Hx).
  - split; [reflexivity|]. split; [reflexivity|]. reflexivity.
  - reflexivity.
  - intros _. eapply pred_closed_earlier; eauto.
Qed.

Lemma Inv_block s i x p :
  Inv s -> nth_error (insts s) i = Some x -> over x = false -> (p = IWait \/ p = IWaitC) -> Inv (seti s i (with_pc x p)).
Proof.
  intros H Hx Hno Hp. destruct H as [HI R]. destruct (HI i x Hx) as [E1 _].
  apply (Inv_seti s i x _ (conj HI R) Hx).
  - split; [reflexivity|]. split; [reflexivity|]. rewrite Hno. discriminate.
  - cbn. rewrite E1, Hno. destruct Hp as [-> | ->]; reflexivity.
  - destruct Hp as [-> | ->]; cbn; intros [G|G]; discriminate.
Qed.

Lemma pred_closed_none s x : iwait x = None -> pred_closed s x = true.
Proof. unfold pred_closed. now intros ->. Qed.

Lemma proceed_inv s i en : Inv s -> Inv (proceed repaired s i en).
Proof.
  intros H. unfold proceed. destruct (nth_error (insts s) i) as [x|] eqn:Ex; [|exact H].
  destruct (ipcv x) eqn:Ep; try exact H.
  assert (Hno : over x = false) by (unfold over; now rewrite Ep).
  destruct (iwait x) as [j|] eqn:Ew.
  - destruct (pred_closed s x) eqn:Ec; cbn [andb].
    + destruct (icanc x); [destruct en|]; try (now apply Inv_enter); now apply Inv_skip.
    + destruct (icanc x); cbn [fx_wait repaired]; apply Inv_block; auto.
  - destruct (icanc x); [apply Inv_skip | apply Inv_enter]; auto using pred_closed_none.
Qed.

Lemma wake_inv s i en : Inv s -> Inv (wake repaired s i en).
Proof.
  intros H. unfold wake. destruct (nth_error (insts s) i) as [x|] eqn:Ex; [|exact H].
  destruct (ipcv x) eqn:Ep; try exact H.
  - assert (Hno : over x = false) by (unfold over; now rewrite Ep).
    destruct (pred_closed s x) eqn:Ec; cbn [andb].
    + destruct (icanc x); [destruct en|]; try (now apply Inv_enter); now apply Inv_skip.
    + destruct (icanc x); cbn [fx_wait repaired]; [apply Inv_block; auto | exact H].
  - destruct (pred_closed s x) eqn:Ec; [now apply Inv_skip | exact H].
Qed.

Lemma fn_return_inv s i o : Inv s -> Inv (fn_return s i o).
Proof.
  intros H. unfold fn_return. destruct (nth_error (insts s) i) as [x|] eqn:Ex; [|exact H].
  destruct (ipcv x) eqn:Ep; try exact H.
  destruct H as [HI R]. destruct (HI i x Ex) as [_ [_ E3]].
  apply (Inv_seti s i x _ (conj HI R) Ex).
  - split; [reflexivity|]. split; [reflexivity|]. reflexivity.
  - reflexivity.
  - intros _. apply E3. right. unfold in_user. now rewrite Ep.
Qed.

Lemma Inv_done s i x o : Inv s -> nth_error (insts s) i = Some x -> ipcv x = IBook o -> Inv (seti s i (with_pc x IDone)).
Proof.
  intros H Hx Hp. destruct H as [HI R]. destruct (HI i x Hx) as [E1 [_ E3]].
  assert (Ho : over x = true) by (unfold over; now rewrite Hp).
  apply (Inv_seti s i x _ (conj HI R) Hx).
  - split; [reflexivity|]. split; [reflexivity|]. reflexivity.
  - cbn. rewrite E1. exact Ho.
  - intros _. apply E3. now left.
Qed.

(* when the current instance of a registered record is over, the whole lineage is *)
Lemma cur_over_all_over s k r i x :
  Inv s -> lookup (kmap s) k = Some r -> rctx (getr s r) = Some i -> nth_error (insts s) i = Some x -> over x = true ->
  all_over (insts s) (rlin (getr s r)).
Proof.
  intros [HI [HM _]] Hk Hc Hx Ho. destruct (HM k r Hk) as [_ [_ [_ [M4 M5]]]].
  destruct (rexit (getr s r)) as [j|] eqn:Ee; [|exact M4].
  assert (i = j) by (eapply M5; eauto). subst j.
  destruct M4 as [[z [Hz Hlz]] Hlast]. rewrite Hx in Hz. inversion Hz; subst z.
  destruct (HI i x Hx) as [_ [_ E3]]. specialize (E3 (or_introl Ho)).
  intros j y Hy Hly. destruct (Nat.lt_trichotomy j i) as [Hlt|[->|Hgt]].
  - eapply E3; eauto. congruence.
  - congruence.
  - exfalso. eapply Hlast; eauto.
Qed.

Lemma bookkeep_inv s i : Inv s -> Inv (bookkeep s i).
Proof.
  intros H. unfold bookkeep. destruct (nth_error (insts s) i) as [x|] eqn:Ex; [|exact H].
  destruct (ipcv x) eqn:Ep; try exact H.
  assert (H0 : Inv (seti s i (with_pc x IDone))) by (eapply Inv_done; eauto).
  set (s0 := seti s i (with_pc x IDone)) in *.
  set (r := irec x). set (y := getr s r).
  destruct (rctx y) as [j|] eqn:Ec; [|exact H0].
  destruct (Nat.eqb_spec j i) as [->|Hne]; [|exact H0].
  assert (Hil : i < length (insts s)) by (eapply nth_error_nth_len; eauto).
  (* every state the section writes the record in agrees with s0 on instances, map, records and lineages *)
  assert (G : forall S a b, insts S = insts s0 -> kmap S = kmap s0 -> recs S = recs s0 -> nlin S = nlin s0 ->
                            Inv (set_cblog (setr S r (with_exit y o a b)) (cblog (setr S r (with_exit y o a b)) ++ [(rkey y, rdata y, o)]))).
  { intros S a b E1 E2 E3 E4. apply Inv_set_cblog.
    assert (HS : Inv S) by (apply (Inv_ext s0); auto).
    assert (YS : getr S r = y) by (unfold getr, y; rewrite E3; reflexivity).
    apply Inv_setr; rewrite ?YS; try reflexivity; [exact HS|].
    intros k Hk. cbn [rexit rctx rlin with_exit chain_ok]. split; [|intros; discriminate].
    rewrite <- YS. eapply (cur_over_all_over S k r i (with_pc x IDone)); eauto.
    - rewrite YS. exact Ec.
    - rewrite E1. unfold s0. rewrite insts_seti. now apply nth_error_set_nth_same. }
  destruct (script s0) as [l|].
  - destruct (stop_timer_frame s0 (rretry y)) as [T1 [T2 [T3 [T4 _]]]].
    destruct (is_nil o); [apply G; auto|].
    destruct (in_map (stop_timer s0 (rretry y)) r); [|apply G; auto].
    destruct (nth_error l (rbo y)); apply G; auto.
  - apply G; auto.
Qed.

Lemma timer_cb_inv s t : Inv s -> Inv (timer_cb repaired s t).
Proof.
  intros H. unfold timer_cb. destruct (nth_error (timers s) t) as [x|]; [|exact H].
  destruct (tst x); try exact H.
  set (s1 := set_timers s _). assert (H1 : Inv s1) by (now apply Inv_set_timers).
  destruct (tkind x).
  - destruct (in_map s1 (trec x) && _); [|exact H1].
    apply Inv_remove_now.
    destruct (stop_timer_frame s1 (rremove (getr s1 (trec x)))) as [_ [T2 _]].
    apply Inv_setr_keep; try reflexivity; [now apply Inv_stop_timer | now left].
  - destruct (has_ctx s1); cbn [andb]; [|exact H1].
    destruct (in_map s1 (trec x)) eqn:Em; cbn [andb]; [|exact H1].
    destruct (rexited (getr s1 (trec x))); [|exact H1].
    eapply Inv_start_cur; [exact H1 | apply in_map_lookup; exact Em].
Qed.

(* ---- the environment: a root context is cancelled.  The invariant does not read the cancellation flags. ---- *)
Section MapShape.
  Variable f : inst -> inst.
  Hypothesis Hl : forall x, ilin (f x) = ilin x.
  Hypothesis Hw : forall x, iwait (f x) = iwait x.
  Hypothesis Hp : forall x, ipcv (f x) = ipcv x.
  Hypothesis He : forall x, iexit (f x) = iexit x.

  Lemma nth_error_map_inv (l : list inst) j y : nth_error (map f l) j = Some y -> exists x, nth_error l j = Some x /\ y = f x.
  Proof. rewrite nth_error_map. destruct (nth_error l j) as [x|]; cbn; [|discriminate]. intros E. inversion E. eauto. Qed.
  Lemma over_map x : over (f x) = over x. Proof. unfold over. now rewrite Hp. Qed.
  Lemma in_user_map x : in_user (f x) = in_user x. Proof. unfold in_user. now rewrite Hp. Qed.

  Lemma earlier_over_map l i L : earlier_over l i L -> earlier_over (map f l) i L.
  Proof.
    intros H j y Hj Hy Hly. destruct (nth_error_map_inv l j y Hy) as [x [Hx ->]]. rewrite over_map. rewrite Hl in Hly. eapply H; eauto.
  Qed.
  Lemma all_over_map l L : all_over l L -> all_over (map f l) L.
  Proof. intros H j y Hy Hly. destruct (nth_error_map_inv l j y Hy) as [x [Hx ->]]. rewrite over_map. rewrite Hl in Hly. eapply H; eauto. Qed.
  Lemma last_of_map l L j : last_of l L j -> last_of (map f l) L j.
  Proof.
    intros [[y [Hy Hly]] Hlast]. split.
    - exists (f y). split; [rewrite nth_error_map, Hy; reflexivity | now rewrite Hl].
    - intros m z Hm Hz. destruct (nth_error_map_inv l m z Hz) as [x [Hx ->]]. rewrite Hl. eapply Hlast; eauto.
  Qed.
  Lemma chain_ok_map l L w : chain_ok l L w -> chain_ok (map f l) L w.
  Proof. unfold chain_ok. destruct w; [apply last_of_map | apply all_over_map]. Qed.
  Lemma wait_ok_map l i x : wait_ok l i x -> wait_ok (map f l) i (f x).
  Proof.
    unfold wait_ok. rewrite Hw, Hl. destruct (iwait x) as [j|]; [|apply earlier_over_map].
    intros [Hj [[y [Hy Hly]] Hb]]. split; [exact Hj|]. split.
    - exists (f y). split; [rewrite nth_error_map, Hy; reflexivity | now rewrite Hl].
    - intros m z Hm1 Hm2 Hz. destruct (nth_error_map_inv l m z Hz) as [x0 [Hx0 ->]]. rewrite Hl. eapply Hb; eauto.
  Qed.
  Lemma InvI_map l : InvI l -> InvI (map f l).
  Proof.
    intros H i y Hy. destruct (nth_error_map_inv l i y Hy) as [x [Hx ->]]. destruct (H i x Hx) as [H1 [H2 H3]].
    split; [now rewrite He, over_map|]. split; [now apply wait_ok_map|].
    rewrite over_map, in_user_map, Hl. intros Ho. apply earlier_over_map. auto.
  Qed.
  Lemma Inv_map s : Inv s -> Inv (set_insts s (map f (insts s))).
  Proof.
    intros [HI [HM [HD HF]]]. split; [|split; [|split]].
    - cbn [insts set_insts]. now apply InvI_map.
    - intros k r Hk. destruct (HM k r Hk) as [M1 [M2 [M3 [M4 M5]]]]. unfold RecOK in *.
      change (getr (set_insts s (map f (insts s))) r) with (getr s r). cbn [recs nlin insts set_insts].
      repeat split; auto. now apply chain_ok_map.
    - exact HD.
    - intros i y Hy. cbn [insts set_insts] in Hy. destruct (nth_error_map_inv _ i y Hy) as [x [Hx ->]]. rewrite Hl.
      cbn [nlin set_insts]. eapply HF; eauto.
  Qed.
End MapShape.

Lemma Inv_map_canc s c : Inv s -> Inv (set_insts s (map (fun x => if Nat.eqb (iroot x) c then with_canc x else x) (insts s))).
Proof. apply Inv_map; intros x; destruct (Nat.eqb (iroot x) c); reflexivity. Qed.

Lemma cancel_root_inv s c : Inv s -> Inv (cancel_root s c).
Proof.
  intros H. unfold cancel_root. destruct (Nat.eqb c 0); [exact H|].
  apply (Inv_ext (set_insts s (map (fun x => if Nat.eqb (iroot x) c then with_canc x else x) (insts s)))); try reflexivity.
  apply Inv_map_canc. exact H.
Qed.

Theorem step_inv s e : Inv s -> Inv (step repaired s e).
Proof.
  intros H. destruct e; cbn [step].
  - now apply set_context_inv.
  - now apply set_key_inv.
  - now apply remove_key_inv.
  - now apply sync_keys_inv.
  - exact H.
  - now apply reset_routine_inv.
  - now apply restart_routine_inv.
  - now apply reset_all_inv.
  - now apply restart_all_inv.
  - now apply add_key_ref_inv.
  - now apply release_start_inv.
  - now apply release_section_inv.
  - now apply rc_remove_key_inv.
  - now apply proceed_inv.
  - now apply wake_inv.
  - now apply fn_return_inv.
  - now apply bookkeep_inv.
  - unfold advance. now apply Inv_set_timers, Inv_set_clock.
  - now apply timer_cb_inv.
  - now apply cancel_root_inv.
  - revert H. apply Inv_ext; reflexivity.
Qed.

Lemma init_inv dl sc : Inv (init dl sc).
Proof.
  split; [apply InvI_nil|]. split; [intros k r Hk; discriminate|]. split; [intros k1 k2 r1 r2 Hk; discriminate|].
  intros [|i] x Hx; discriminate.
Qed.

Theorem run_inv dl sc es : Inv (run repaired (init dl sc) es).
Proof. unfold run. apply fold_inv; [intros s e; apply step_inv | apply init_inv]. Qed.
