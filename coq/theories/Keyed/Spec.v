(* keyed: codec, eager schedule, observations, and the monitors of C06 and C07.

   Config line:  C variant delay hasbo d1 d2 ...   (variant: odd = KeyedRefCount, even = Keyed; 2 and 3: the harness hands
                 WithReleaseDelay the NEGATIVE of the delay - the option takes the absolute value, the model is the same;
                 release delay in ms; the scripted back-off durations every record's back-off is built from)
   Events:   1 c restart  SetContext (c = 0: nil)       2 k start  SetKey          3 k  RemoveKey
             4 restart k1 .. kn  SyncKeys               5 k  GetKey                6 k cond  ResetRoutine
             7 k cond  RestartRoutine                   8 cond  ResetAllRoutines   9 cond  RestartAllRoutines
             10 k  AddKeyRef                            11 f  Release of reference f: the flag swap
             12 a  the section of the a-th Release call that got past the swap     13 k  KeyedRefCount.RemoveKey
             14 i enter  instance i leaves its first gate (enter: it entered the user function; meaningful only when
                         both select cases were ready)   15 i o  the user function of instance i returns o
             16 i  bookkeeping section of instance i     17 d  advance the clock    18 j  the j-th parked timer callback runs
             19  GetKeys
             20 a  the a-th Release call, found parked between its rc.mtx section and Keyed.RemoveKey (gate 5 with
                   rc.mtx free), goes on.  The code the model describes calls RemoveKey inside the rc.mtx section, where
                   the harness never parks: the model has no such step (BadEvent); the monitors follow it.
             21 c  the owner of root context c (c > 0) calls its cancel function (the container is not told)
             22 m  from now on the constructor callback returns: m = 0 a routine, 1 no routine (nil), otherwise no routine for
                   odd keys (the harness's constructor reads the mode; nothing else happens)
   cond: 0 no condition, 1 always false, 2 "key is odd".  Outcomes: 0 nil, 1 context.Canceled, e+2 error e.
   Observation after every event:
     rets  nkeys (key data)*  ninst (code key data root canc)*  ndelta (key data outcome)*  ntimers (kind key deadline)*
     nrel relcode*
     keys = GetKeysWithData() sorted; instance code 1 at first gate, 2 blocked, 3 in user code (then data of its record,
     root context, ctx.Err()!=nil), 4 parked before bookkeeping, 5 done; delta = exit-callback invocations during this
     event; timers = parked timer callbacks (kind 0 retry / 1 removal) ordered by deadline, kind, key, creation;
     relcode 1 parked before its section, 2 done, 3 parked after its section before Keyed.RemoveKey (never in the model). *)
From Util Require Import Common.Base Common.ListLemmas Keyed.Model.
From Util Require Backoff.Model.
Open Scope N_scope.

Definition n2n := N.to_nat.
Definition enc_out (o : outcome) : N := match o with ONil => 0 | OCanc => 1 | OErr e => N.of_nat e + 2 end.
Definition dec_out (n : N) : outcome := match n with 0 => ONil | 1 => OCanc | _ => OErr (n2n n - 2) end.
Definition nb (x : bool) : N := if x then 1 else 0.
Definition nz (n : N) : bool := negb (N.eqb n 0).

Record hst := { hs : st; hvar : bool; hlog : nat }.

Definition hinit (cfg : list N) : option hst :=
  match cfg with
  | variant :: dl :: hasbo :: sc =>
    Some {| hs := init dl (if nz hasbo then Some sc else None); hvar := N.odd variant; hlog := 0 |}
  | _ => None
  end.

(* eager schedule: a timer that is due fires at once (time.AfterFunc with a zero duration: a zero back-off), and
   blocked instances that can go on do so (ascending: the chains only point backwards) *)
Definition settle (s : st) : st :=
  fold_left (fun s i => wake repaired s i true) (seq 0 (length (insts s))) (advance s 0).

Definition icode (x : inst) : list N :=
  let k := N.of_nat (ikey x) in
  match ipcv x with
  | IGate0 => [1; k; 0; 0; 0]
  | IWait | IWaitC => [2; k; 0; 0; 0]
  | IUser => [3; k; idata x; N.of_nat (iroot x); nb (icanc x)]
  | IBook _ => [4; k; 0; 0; 0]
  | IDone => [5; k; 0; 0; 0]
  end.
Definition is_fired (t : timer) : bool := match tst t with TFired => true | _ => false end.

(* fired timers by deadline, kind, key, then creation *)
Definition tlt (a b : timer) : bool :=
  N.ltb (tdead a) (tdead b)
  || (N.eqb (tdead a) (tdead b)
      && ((negb (tkind a) && tkind b)
          || (Bool.eqb (tkind a) (tkind b) && Nat.ltb (tkey a) (tkey b)))).
Fixpoint insert_t (ts : list timer) (t : nat) (l : list nat) : list nat :=
  match l with
  | [] => [t]
  | u :: r => if tlt (nth t ts timer0) (nth u ts timer0) then t :: l else u :: insert_t ts t r
  end.
Definition fired_sorted (ts : list timer) : list nat :=
  fold_left (fun acc t => if is_fired (nth t ts timer0) then insert_t ts t acc else acc) (seq 0 (length ts)) [].
Definition tcode (ts : list timer) (t : nat) : list N :=
  let x := nth t ts timer0 in [nb (tkind x); N.of_nat (tkey x); tdead x].

Definition obs_of (rets : list N) (h : hst) : list N :=
  let s := hs h in
  rets ++ [N.of_nat (length (kmap s))] ++ concat (map (fun kd => [N.of_nat (fst kd); snd kd]) (keys_with_data s))
       ++ [N.of_nat (length (insts s))] ++ concat (map icode (insts s))
       ++ [N.of_nat (length (cblog s) - hlog h)]
       ++ concat (map (fun x => let '(k, d, o) := x in [N.of_nat k; d; enc_out o]) (skipn (hlog h) (cblog s)))
       ++ [N.of_nat (cnt is_fired (timers s))] ++ concat (map (tcode (timers s)) (fired_sorted (timers s)))
       ++ [N.of_nat (length (rels s))] ++ map (fun l => if lparked l then 1 else 2) (rels s).

Fixpoint ins_nat (k : nat) (l : list nat) : list nat :=
  match l with [] => [k] | h :: t => if Nat.leb k h then k :: l else h :: ins_nat k t end.
Definition sort_nat (l : list nat) : list nat := fold_right ins_nat [] l.
Definition enc_keys (l : list nat) : list N := N.of_nat (length l) :: map N.of_nat (sort_nat l).

(* the codec: the model event and the call's return values (None: not an event the model can take now) *)
Definition dec (h : hst) (e : list N) : option (ev * list N) :=
  let s := hs h in
  let v := hvar h in
  match e with
  | [1; c; r] => Some (ESetCtx (n2n c) (nz r), [])
  | [2; k; st] => if v then None else let '(d, ex) := snd (set_key repaired s (n2n k) (nz st)) in Some (ESetKey (n2n k) (nz st), [d; nb ex])
  | [3; k] => if v then None else Some (ERemoveKey (n2n k), [nb (snd (remove_key s (n2n k)))])
  | 4 :: r :: ks =>
    if v then None else
    let '(added, removed) := snd (sync_keys repaired s (sort_nat (map n2n ks)) (nz r)) in
    Some (ESyncKeys (sort_nat (map n2n ks)) (nz r), enc_keys added ++ enc_keys removed)
  | [5; k] => let '(d, ex) := get_key s (n2n k) in Some (EGet, [d; nb ex])
  | [6; k; c] => let '(ex, rs) := snd (reset_routine repaired s (n2n k) (n2n c)) in Some (EReset (n2n k) (n2n c), [nb ex; nb rs])
  | [7; k; c] => let '(ex, rs) := snd (restart_routine s (n2n k) (n2n c)) in Some (ERestart (n2n k) (n2n c), [nb ex; nb rs])
  | [8; c] => let '(n, tot) := snd (reset_all repaired s (n2n c)) in Some (EResetAll (n2n c), [N.of_nat n; N.of_nat tot])
  | [9; c] => let '(n, tot) := snd (restart_all s (n2n c)) in Some (ERestartAll (n2n c), [N.of_nat n; N.of_nat tot])
  | [10; k] => if v then let '(d, ex) := snd (add_key_ref repaired s (n2n k)) in Some (EAddRef (n2n k), [d; nb ex]) else None
  | [11; f] => if v then match nth_error (refs s) (n2n f) with Some _ => Some (ERelStart (n2n f), []) | None => None end else None
  | [12; a] =>
    if v then
      match nth_error (rels s) (n2n a) with
      | Some l => if lparked l then Some (ERelSect (n2n a), []) else None
      | None => None
      end
    else None
  | [13; k] => if v then Some (ERcRemove (n2n k), [nb (snd (rc_remove_key s (n2n k)))]) else None
  | [14; i; en] =>
    match nth_error (insts s) (n2n i) with
    | Some x => match ipcv x with IGate0 => Some (EProceed (n2n i) (nz en), []) | _ => None end
    | None => None
    end
  | [15; i; o] =>
    match nth_error (insts s) (n2n i) with
    | Some x => match ipcv x with IUser => Some (EReturn (n2n i) (dec_out o), []) | _ => None end
    | None => None
    end
  | [16; i] =>
    match nth_error (insts s) (n2n i) with
    | Some x => match ipcv x with IBook _ => Some (EBook (n2n i), []) | _ => None end
    | None => None
    end
  | [17; d] => Some (EAdvance d, [])
  | [18; j] =>
    match nth_error (fired_sorted (timers s)) (n2n j) with
    | Some t => Some (ETimerCb t, [])
    | None => None
    end
  | [19] => Some (EGet, enc_keys (map fst (kmap s)))
  | [21; c] => if nz c then Some (ECancelRoot (n2n c), []) else None
  | [22; m] => Some (ESetNil (n2n m), [])
  | _ => None
  end.

Definition hstep (h : hst) (e : list N) : option (hst * list N) :=
  match dec h e with
  | Some (ev, rets) =>
    let s'' := settle (step repaired (hs h) ev) in
    Some ({| hs := s''; hvar := hvar h; hlog := length (cblog s'') |}, obs_of rets {| hs := s''; hvar := hvar h; hlog := hlog h |})
  | None => None
  end.

Definition step_opt (h : option hst) (e : list N) : option (option hst * list N) :=
  match h with
  | Some h => match hstep h e with Some (h', o) => Some (Some h', o) | None => None end
  | None => None
  end.

(* ------------------------------------------------------------------ *)
(* Monitors.  They see events and OBSERVED observations only. *)

Fixpoint take {A} (n : nat) (l : list A) : option (list A * list A) :=
  match n with
  | O => Some ([], l)
  | S n' => match l with x :: r => match take n' r with Some (a, b) => Some (x :: a, b) | None => None end | [] => None end
  end.
Fixpoint take2 (n : nat) (l : list N) : option (list (N * N) * list N) :=
  match n with
  | O => Some ([], l)
  | S n' => match l with
            | a :: b :: rest => match take2 n' rest with Some (xs, r) => Some ((a, b) :: xs, r) | None => None end
            | _ => None
            end
  end.
Fixpoint take3 (n : nat) (l : list N) : option (list (N * N * N) * list N) :=
  match n with
  | O => Some ([], l)
  | S n' => match l with
            | a :: b :: c :: rest => match take3 n' rest with Some (xs, r) => Some ((a, b, c) :: xs, r) | None => None end
            | _ => None
            end
  end.
Fixpoint take5 (n : nat) (l : list N) : option (list (N * N * N * N * N) * list N) :=
  match n with
  | O => Some ([], l)
  | S n' => match l with
            | a :: b :: c :: d :: f :: rest =>
              match take5 n' rest with Some (xs, r) => Some ((a, b, c, d, f) :: xs, r) | None => None end
            | _ => None
            end
  end.

Record pobs := { po_rets : list N; po_keys : list (N * N); po_insts : list (N * N * N * N * N); po_delta : list (N * N * N);
                 po_tims : list (N * N * N); po_rels : list N }.

(* the return values: fixed length, or length-prefixed lists *)
Definition take_rets (e o : list N) : option (list N * list N) :=
  match e with
  | 2 :: _ | 5 :: _ | 6 :: _ | 7 :: _ | 8 :: _ | 9 :: _ | 10 :: _ => take 2 o
  | 3 :: _ | 13 :: _ => take 1 o
  | 4 :: _ =>
    match o with
    | na :: r1 =>
      match take (n2n na) r1 with
      | Some (a, nr :: r2) => match take (n2n nr) r2 with Some (b, r3) => Some ((na :: a) ++ (nr :: b), r3)%list | None => None end
      | _ => None
      end
    | _ => None
    end
  | 19 :: _ => match o with n :: r1 => match take (n2n n) r1 with Some (a, r2) => Some (n :: a, r2) | None => None end | _ => None end
  | _ => Some ([], o)
  end.

Definition parse (e o : list N) : option pobs :=
  match take_rets e o with
  | Some (rets, nk :: r1) =>
    match take2 (n2n nk) r1 with
    | Some (ks, ni :: r2) =>
      match take5 (n2n ni) r2 with
      | Some (is, nd :: r3) =>
        match take3 (n2n nd) r3 with
        | Some (ds, nt :: r4) =>
          match take3 (n2n nt) r4 with
          | Some (ts, nr :: r5) =>
            match take (n2n nr) r5 with
            | Some (rs, []) => Some {| po_rets := rets; po_keys := ks; po_insts := is; po_delta := ds; po_tims := ts; po_rels := rs |}
            | _ => None
            end
          | _ => None
          end
        | _ => None
        end
      | _ => None
      end
    | _ => None
    end
  | _ => None
  end.

(* association lists over N, kept in key order *)
Fixpoint alook {A} (l : list (N * A)) (k : N) : option A :=
  match l with [] => None | (k', v) :: t => if N.eqb k' k then Some v else alook t k end.
Fixpoint aset {A} (l : list (N * A)) (k : N) (v : A) : list (N * A) :=
  match l with
  | [] => [(k, v)]
  | (k', v') :: t => if N.eqb k' k then (k, v) :: t else if N.ltb k k' then (k, v) :: l else (k', v') :: aset t k v
  end.
Fixpoint adel {A} (l : list (N * A)) (k : N) : list (N * A) :=
  match l with [] => [] | (k', v') :: t => if N.eqb k' k then adel t k else (k', v') :: adel t k end.
Definition ahas {A} (l : list (N * A)) (k : N) : bool := match alook l k with Some _ => true | None => false end.
Definition nmem (k : N) (l : list N) : bool := existsb (N.eqb k) l.
Fixpoint ins_N (k : N) (l : list N) : list N :=
  match l with [] => [k] | h :: t => if N.leb k h then k :: l else h :: ins_N k t end.
Definition sort_N (l : list N) : list N := fold_right ins_N [] l.
Fixpoint dedup (l : list N) : list N :=
  match l with [] => [] | h :: t => if nmem h t then dedup t else h :: dedup t end.
Definition enc_list (l : list N) : list N := N.of_nat (length l) :: sort_N l.

(* ---- the reference key set (C06) ---- *)
Record kinfo := { ki_data : N; ki_pend : option N; ki_failed : bool }.
Record rref := { rr_key : N; rr_rel : bool; rr_cnt : bool }.     (* a reference: released flag; still counted *)
Record rst := {
  r_keys : list (N * kinfo);
  r_ctor : list (N * N);           (* key -> constructions so far *)
  r_refs : list rref;
  r_rels : list nat;               (* Release calls that got past the flag swap: their reference *)
}.
Definition rst0 : rst := {| r_keys := []; r_ctor := []; r_refs := []; r_rels := [] |}.
Definition set_r_keys (r : rst) (x : list (N * kinfo)) : rst :=
  {| r_keys := x; r_ctor := r_ctor r; r_refs := r_refs r; r_rels := r_rels r |}.
Definition set_r_refs (r : rst) (x : list rref) : rst :=
  {| r_keys := r_keys r; r_ctor := r_ctor r; r_refs := x; r_rels := r_rels r |}.

(* construct: next data value of key k *)
Definition r_construct (r : rst) (k : N) : rst * N :=
  let c := match alook (r_ctor r) k with Some c => c + 1 | None => 1 end in
  ({| r_keys := r_keys r; r_ctor := aset (r_ctor r) k c; r_refs := r_refs r; r_rels := r_rels r |}, k * 1000 + c).

(* a request for key k (SetKey, SyncKeys with k, AddKeyRef) -> (data, existed) *)
Definition r_request (r : rst) (k : N) : rst * (N * bool) :=
  match alook (r_keys r) k with
  | Some i => (set_r_keys r (aset (r_keys r) k {| ki_data := ki_data i; ki_pend := None; ki_failed := ki_failed i |}), (ki_data i, true))
  | None => let '(r1, d) := r_construct r k in
            (set_r_keys r1 (aset (r_keys r1) k {| ki_data := d; ki_pend := None; ki_failed := false |}), (d, false))
  end.
(* a removal request (RemoveKey, SyncKeys without k, last Release, KeyedRefCount.RemoveKey) -> existed *)
Definition r_remove (dl clk : N) (r : rst) (k : N) : rst * bool :=
  match alook (r_keys r) k with
  | None => (r, false)
  | Some i =>
    match ki_pend i with
    | Some _ => (r, true)
    | None =>
      if N.eqb dl 0 || ki_failed i then (set_r_keys r (adel (r_keys r) k), true)
      else (set_r_keys r (aset (r_keys r) k {| ki_data := ki_data i; ki_pend := Some (clk + dl); ki_failed := ki_failed i |}), true)
    end
  end.
Definition r_reset (r : rst) (k : N) : rst :=
  let '(r1, d) := r_construct r k in
  set_r_keys r1 (aset (r_keys r1) k {| ki_data := d; ki_pend := None; ki_failed := false |}).
Definition cond_ok (c k : N) : bool := match c with 0 => true | 1 => false | _ => N.odd k end.
Definition r_live (k : N) (x : rref) : bool := rr_cnt x && N.eqb (rr_key x) k.

(* reference step: new state and the return values the call must produce (None: none to check) *)
(* [late]: the Release call of event 12 was observed parked again after its rc.mtx section, before Keyed.RemoveKey: the
   references are updated, the removal request has not been made yet (event 20 makes it).  What the key set must be
   then follows the property text: the key goes only if no counted reference to it is left at that moment. *)
Definition r_release_remove (dl clk : N) (r : rst) (k : N) : rst :=
  if Nat.eqb (cnt (r_live k) (r_refs r)) 0 then fst (r_remove dl clk r k) else r.
(* [present]: the keys of the observation that follows the event.  It is consulted in one case only: the callback that ran
   (event 18) is one of several parked delayed-removal callbacks with the same key and deadline (records of one key before
   and after ResetRoutine, removal requested at the same instant).  The observation does not tell which of them ran - only
   the one of the key's current record removes the key - so the reference follows what is observed; the last of them to
   run must remove the key. *)
Definition tcount (t : N * N * N) (tims : list (N * N * N)) : nat :=
  cnt (fun u => let '(a, b, c) := u in let '(a', b', c') := t in N.eqb a a' && N.eqb b b' && N.eqb c c') tims.
Definition r_step (dl clk ctx : N) (tims : list (N * N * N)) (late : bool) (present : N -> bool) (r : rst) (e : list N) : rst * option (list N) :=
  match e with
  | [2; k; _] => let '(r', (d, ex)) := r_request r k in (r', Some [d; nb ex])
  | [3; k] => let '(r', ex) := r_remove dl clk r k in (r', Some [nb ex])
  | 4 :: _ :: ks =>
    let ks' := dedup ks in
    let added := filter (fun k => negb (ahas (r_keys r) k)) ks' in
    let r1 := fold_left (fun r k => fst (r_request r k)) ks' r in
    let removed := filter (fun k => negb (nmem k ks)) (map fst (r_keys r1)) in
    let r2 := fold_left (fun r k => fst (r_remove dl clk r k)) removed r1 in
    (r2, Some (enc_list added ++ enc_list removed)%list)
  | [5; k] => (r, Some (match alook (r_keys r) k with Some i => [ki_data i; 1] | None => [0; 0] end))
  | [6; k; c] =>
    if ahas (r_keys r) k then (if cond_ok c k then (r_reset r k, Some [1; 1]) else (r, Some [1; 0])) else (r, Some [0; 0])
  | [7; k; c] =>
    if ahas (r_keys r) k then (r, Some [1; nb (nz ctx && cond_ok c k)]) else (r, Some [0; 0])
  | [8; c] =>
    let ks := filter (cond_ok c) (map fst (r_keys r)) in
    (fold_left r_reset ks r, Some [N.of_nat (length ks); N.of_nat (length (r_keys r))])
  | [9; c] =>
    let ks := filter (cond_ok c) (map fst (r_keys r)) in
    (r, Some [if nz ctx then N.of_nat (length ks) else 0; N.of_nat (length (r_keys r))])
  | [10; k] =>
    let '(r', (d, ex)) := r_request r k in
    (set_r_refs r' (r_refs r' ++ [{| rr_key := k; rr_rel := false; rr_cnt := true |}]), Some [d; nb ex])
  | [11; f] =>
    match nth_error (r_refs r) (n2n f) with
    | Some x => if rr_rel x then (r, None)
                else ({| r_keys := r_keys r; r_ctor := r_ctor r;
                         r_refs := set_nth (r_refs r) (n2n f) {| rr_key := rr_key x; rr_rel := true; rr_cnt := rr_cnt x |};
                         r_rels := r_rels r ++ [n2n f] |}, None)
    | None => (r, None)
    end
  | [12; a] =>
    match nth_error (r_rels r) (n2n a) with
    | Some f =>
      match nth_error (r_refs r) f with
      | Some x =>
        if rr_cnt x then
          let r1 := set_r_refs r (set_nth (r_refs r) f {| rr_key := rr_key x; rr_rel := rr_rel x; rr_cnt := false |}) in
          if late then (r1, None) else (r_release_remove dl clk r1 (rr_key x), None)
        else (r, None)
      | None => (r, None)
      end
    | None => (r, None)
    end
  | [20; a] =>
    match nth_error (r_rels r) (n2n a) with
    | Some f => match nth_error (r_refs r) f with
                | Some x => (r_release_remove dl clk r (rr_key x), None)
                | None => (r, None)
                end
    | None => (r, None)
    end
  | [13; k] =>
    let r1 := set_r_refs r (map (fun x => if r_live k x then {| rr_key := rr_key x; rr_rel := true; rr_cnt := false |} else x) (r_refs r)) in
    let '(r', ex) := r_remove dl clk r1 k in (r', Some [nb ex])
  | [18; j] =>
    (* a delayed-removal callback removes the key iff it is that key's pending removal and the deadline has passed *)
    match nth_error tims (n2n j) with
    | Some (kind, k, dead) =>
      if nz kind then
        match alook (r_keys r) k with
        | Some i => match ki_pend i with
                    | Some d => if N.eqb d dead && N.leb d clk && negb (Nat.leb 2 (tcount (kind, k, dead) tims) && present k)
                                then (set_r_keys r (adel (r_keys r) k), None) else (r, None)
                    | None => (r, None)
                    end
        | None => (r, None)
        end
      else (r, None)
    | None => (r, None)
    end
  | [19] => (r, Some (enc_list (map fst (r_keys r))))
  | _ => (r, None)
  end.

Definition set_failed (b : bool) (keys : list (N * kinfo)) (k : N) : list (N * kinfo) :=
  match alook keys k with
  | Some i => aset keys k {| ki_data := ki_data i; ki_pend := ki_pend i; ki_failed := b |}
  | None => keys
  end.

Record mst := {
  m_delay : N; m_script : option (list N); m_clock : N; m_ctx : N;
  m_ref : rst;
  m_okeys : list (N * N);             (* the key set observed last *)
  m_incs : list (N * nat);            (* record (pk key data) -> incarnation *)
  m_ninc : nat;
  m_ninst : nat;
  m_sinc : list (option nat);         (* per instance: the incarnation its key had when it was spawned *)
  m_bo : list (N * nat);              (* record (pk key data) -> back-off index *)
  m_retry : list (N * N);             (* key -> deadline of the retry that must come *)
  m_tims : list (N * N * N);          (* parked timer callbacks observed last *)
  m_canc : list N;                    (* root contexts cancelled by their owner *)
}.

Definition minit (cfg : list N) : option mst :=
  match cfg with
  | _ :: dl :: hasbo :: sc =>
    Some {| m_delay := dl; m_script := if nz hasbo then Some sc else None; m_clock := 0; m_ctx := 0; m_ref := rst0;
            m_okeys := []; m_incs := []; m_ninc := 0; m_ninst := 0; m_sinc := []; m_bo := []; m_retry := []; m_tims := []; m_canc := [] |}
  | _ => None
  end.

Definition fails (p c : nat) (ok : bool) : list (nat * nat) := if ok then [] else [(p, c)].
Definition list_N_eqb := list_eqb.
Fixpoint nodup_nat (l : list nat) : bool :=
  match l with [] => true | h :: t => negb (existsb (Nat.eqb h) t) && nodup_nat t end.
Definition ikey_of (x : N * N * N * N * N) : N := let '(_, k, _, _, _) := x in k.
Definition opt_nat_eqb (a b : option nat) : bool :=
  match a, b with Some x, Some y => Nat.eqb x y | None, None => true | _, _ => false end.

(* incarnations: a data value seen for the first time continues the incarnation of its key if the key was present
   in the previous observation (ResetRoutine), otherwise it starts a new one *)
(* a record is named by its key AND data value (the harness's data values key * 1000 + construction count are unique per
   key only): an injective pairing *)
Definition pk (k d : N) : N := (k + d) * (k + d) + k.
Definition assign_incs (prev : list (N * N)) (acc : list (N * nat) * nat) (kd : N * N) : list (N * nat) * nat :=
  let '(incs, n) := acc in
  let '(k, d) := kd in
  if ahas incs (pk k d) then acc
  else match alook prev k with
       | Some d0 => match alook incs (pk k d0) with Some i => (aset incs (pk k d) i, n) | None => (aset incs (pk k d) n, S n) end
       | None => (aset incs (pk k d) n, S n)
       end.

Definition keys_eqb (a : list (N * N)) (b : list (N * kinfo)) : bool :=
  list_eqb (map fst a) (map fst b).
Definition data_ok (obs : list (N * N)) (ref : list (N * kinfo)) : bool :=
  forallb (fun kd => match alook ref (fst kd) with Some i => N.eqb (ki_data i) (snd kd) | None => true end) obs.

(* ---- the pieces of one monitor step ---- *)
Definition e_clock (m : mst) (e : list N) : N := match e with [17; d] => m_clock m + d | _ => m_clock m end.
Definition e_ctx (m : mst) (e : list N) : N := match e with [1; c; _] => c | _ => m_ctx m end.
(* the installed root context has been cancelled by its owner.  The property texts do not say whether such a context
   counts as "a context": the restarted flag / count of RestartRoutine / RestartAllRoutines may then be either value
   (6/3), and a pending retry (7/5: "run again after its backoff") has to be parked / carried out at its deadline only
   while the container holds a context that is not cancelled - a run under a cancelled context ends at once.  The
   obligation itself SURVIVES ClearContext, SetContext(nil) and a cancelled root being dropped (the retry timer stays
   armed: these are non-restarting calls); if its callback runs while the container holds no live context the retry is
   consumed without a restart (the callback checks k.ctx != nil).  A routine started under a root that was cancelled later
   may record its exit after the container has dropped that root (k.ctx = nil without ClearContext): the retry is pending
   all the same.  Everything else is judged as with a live context. *)
Definition e_canc (m : mst) (e : list N) : list N := match e with [21; c] => c :: m_canc m | _ => m_canc m end.
Definition e_live (m : mst) (e : list N) : bool := nz (e_ctx m e) && negb (nmem (e_ctx m e) (e_canc m e)).
Definition e_late (e : list N) (p : pobs) : bool :=
  match e with
  | [12; a] => match nth_error (po_rels p) (n2n a) with Some c => N.eqb c 3 | None => false end
  | _ => false
  end.
Definition news_of (m : mst) (p : pobs) : list (N * N * N * N * N) := skipn (m_ninst m) (po_insts p).

(* ---- C06: the reference key set ---- *)
Definition ref1 (m : mst) (e : list N) (p : pobs) : rst * option (list N) :=
  r_step (m_delay m) (m_clock m) (m_ctx m) (m_tims m) (e_late e p) (ahas (po_keys p)) (m_ref m) e.
Definition expect0_of (m : mst) (e : list N) (p : pobs) : option (list N) :=
  if nmem (m_ctx m) (m_canc m)
  then snd (r_step (m_delay m) (m_clock m) 0 (m_tims m) (e_late e p) (ahas (po_keys p)) (m_ref m) e) else None.
(* recorded exits of the current record set / clear [failed]; a spawn clears it *)
Definition delta_failed (ks : list (N * kinfo)) (x : N * N * N) : list (N * kinfo) :=
  let '(k, d, o) := x in
  match alook ks k with
  | Some i => if N.eqb (ki_data i) d then set_failed (nz o) ks k else ks
  | None => ks
  end.
Definition keys2_of (m : mst) (e : list N) (p : pobs) : list (N * kinfo) :=
  fold_left (set_failed false) (map ikey_of (news_of m p)) (fold_left delta_failed (po_delta p) (r_keys (fst (ref1 m e p)))).
Definition ref2 (m : mst) (e : list N) (p : pobs) : rst := set_r_keys (fst (ref1 m e p)) (keys2_of m e p).
Definition rets_match (expect expect0 : option (list N)) (rets : list N) : bool :=
  match expect with
  | Some x => list_eqb x rets || match expect0 with Some y => list_eqb y rets | None => false end
  | None => true
  end.
Definition c61 (m : mst) (e : list N) (p : pobs) : bool := keys_eqb (po_keys p) (keys2_of m e p).
Definition c62 (m : mst) (e : list N) (p : pobs) : bool := data_ok (po_keys p) (keys2_of m e p).
Definition c63 (m : mst) (e : list N) (p : pobs) : bool := rets_match (snd (ref1 m e p)) (expect0_of m e p) (po_rets p).
Definition c64 (m : mst) (e : list N) (p : pobs) : bool :=
  forallb (fun x => rr_rel x || ahas (po_keys p) (rr_key x)) (r_refs (ref2 m e p)).
Definition c65 (m : mst) (e : list N) (p : pobs) : bool := Nat.eqb (length (po_rels p)) (length (r_rels (ref2 m e p))).

(* ---- C07 ---- *)
Definition incs_of (m : mst) (p : pobs) : list (N * nat) * nat :=
  fold_left (assign_incs (m_okeys m)) (po_keys p) (m_incs m, m_ninc m).
Definition inc_of_key (incs : list (N * nat)) (keys : list (N * N)) (k : N) : option nat :=
  match alook keys k with Some d => alook incs (pk k d) | None => None end.
Definition sinc_of (m : mst) (p : pobs) : list (option nat) :=
  (m_sinc m ++ map (fun x => inc_of_key (fst (incs_of m p)) (po_keys p) (ikey_of x)) (news_of m p))%list.
Definition is_user5 (x : N * N * N * N * N) : bool := let '(c, _, _, _, _) := x in N.eqb c 3.
Definition inc_of_inst (incs : list (N * nat)) (x : N * N * N * N * N) : option nat :=
  let '(_, k, d, _, _) := x in alook incs (pk k d).
Definition c71 (m : mst) (p : pobs) : bool :=
  nodup_nat (map (fun x => match inc_of_inst (fst (incs_of m p)) x with Some i => i | None => 0%nat end)
                 (filter is_user5 (po_insts p))).
Definition live_ok (ctx' : N) (incs : list (N * nat)) (keys : list (N * N)) (x : N * N * N * N * N) : bool :=
  let '(c, k, d, _, canc) := x in
  negb (N.eqb c 3) || nz canc
  || (nz ctx' && match inc_of_key incs keys k, alook incs (pk k d) with Some a, Some b => Nat.eqb a b | _, _ => false end).
Definition c72 (m : mst) (e : list N) (p : pobs) : bool :=
  forallb (live_ok (e_ctx m e) (fst (incs_of m p)) (po_keys p)) (po_insts p).
(* a new instance belongs to a key that is in the set; an instance in user code runs a record of the incarnation
   its key had when it was spawned; nothing is spawned while the container has no context *)
Definition sinc_ok (incs : list (N * nat)) (ix : option nat * (N * N * N * N * N)) : bool :=
  negb (is_user5 (snd ix)) || opt_nat_eqb (fst ix) (inc_of_inst incs (snd ix)).
Definition c73 (m : mst) (p : pobs) : bool :=
  forallb (fun x => ahas (po_keys p) (ikey_of x)) (news_of m p)
  && forallb (sinc_ok (fst (incs_of m p))) (combine (sinc_of m p) (po_insts p)).
Definition c74 (m : mst) (e : list N) (p : pobs) : bool := match news_of m p with [] => true | _ => nz (e_ctx m e) end.
(* removal, judged against what the caller asked for (the reference key set, not the observed one): a key is GONE when
   the requests so far have removed it - it is not in the reference set (removed at once: no delay configured, or its
   routine had failed; or its own delayed-removal callback has run), or its removal is pending, the deadline has
   passed and the callback of that removal is not merely waiting at its gate (the harness may run a due callback
   late; the key legitimately lives until then).  A re-request inside the delay clears the pending removal, so such a
   key is not gone.  For a gone key the context of an instance inside the routine function is cancelled (7/6) and no
   instance is started (7/7). *)
Definition removal_parked (tims : list (N * N * N)) (k d : N) : bool :=
  existsb (fun t => let '(kind, k', d') := t in nz kind && N.eqb k' k && N.eqb d' d) tims.
Definition gone (keys2 : list (N * kinfo)) (clock' : N) (tims : list (N * N * N)) (k : N) : bool :=
  match alook keys2 k with
  | None => true
  | Some i => match ki_pend i with
              | Some d => N.leb d clock' && negb (removal_parked tims k d)
              | None => false
              end
  end.
Definition c76 (m : mst) (e : list N) (p : pobs) : bool :=
  forallb (fun x => let '(c, k, _, _, canc) := x in
                    negb (N.eqb c 3) || nz canc || negb (gone (keys2_of m e p) (e_clock m e) (po_tims p) k)) (po_insts p).
Definition c77 (m : mst) (e : list N) (p : pobs) : bool :=
  forallb (fun x => negb (gone (keys2_of m e p) (e_clock m e) (po_tims p) (ikey_of x))) (news_of m p).
(* retry obligations: key -> deadline of the pending retry of the key's current record.  Created by the recorded error exit
   of the current record (retry_delta); dropped when the key is reset, leaves the set, gets a new instance (the retry, or a
   restart), or records a success; NOT dropped by a cleared / cancelled context *)
Definition retry0_of (m : mst) (e : list N) : list (N * N) :=
  match e with
  | [6; k; c] => if cond_ok c k then adel (m_retry m) k else m_retry m
  | [8; c] => filter (fun kd => negb (cond_ok c (fst kd))) (m_retry m)
  | _ => m_retry m
  end.
Definition retry_delta (script : option (list N)) (keys : list (N * N)) (clock' : N)
           (acc : list (N * nat) * list (N * N)) (x : N * N * N) : list (N * nat) * list (N * N) :=
  let '(bo, rt) := acc in
  let '(k, d, o) := x in
  let cur := match alook keys k with Some d' => N.eqb d d' | None => false end in
  if nz o then
    if cur then
      let idx := match alook bo (pk k d) with Some i => i | None => 0%nat end in
      (aset bo (pk k d) (S idx),
       match script with
       | Some l => match nth_error l idx with Some dur => aset rt k (clock' + dur) | None => adel rt k end
       | None => adel rt k
       end)
    else acc
  else (aset bo (pk k d) 0%nat, if cur then adel rt k else rt).
Definition retry1_of (m : mst) (e : list N) (p : pobs) : list (N * nat) * list (N * N) :=
  fold_left (retry_delta (m_script m) (po_keys p) (e_clock m e)) (po_delta p) (m_bo m, retry0_of m e).
Definition retry2_of (m : mst) (e : list N) (p : pobs) : list (N * N) :=
  fold_left (fun rt k => adel rt k) (map ikey_of (news_of m p)) (snd (retry1_of m e p)).
(* the callback of a pending retry (kind 0, the key, the deadline) runs while the container holds no live context: the
   retry is consumed.  With a live context it is not dropped here: the new instance must appear (news). *)
Definition consumed_of (m : mst) (e : list N) (rt : list (N * N)) : list (N * N) :=
  match e with
  | [18; j] =>
    match nth_error (m_tims m) (n2n j) with
    | Some (kind, k, dl) =>
      if N.eqb kind 0 && negb (e_live m e) && match alook rt k with Some d => N.eqb d dl | None => false end then adel rt k else rt
    | None => rt
    end
  | _ => rt
  end.
Definition retry3_of (m : mst) (e : list N) (p : pobs) : list (N * N) :=
  filter (fun kd => ahas (po_keys p) (fst kd)) (consumed_of m e (retry2_of m e p)).
Definition parked_retry (tims : list (N * N * N)) (k : N) : bool :=
  existsb (fun t => let '(kind, k', _) := t in N.eqb kind 0 && N.eqb k' k) tims.
(* a retry whose deadline has passed is parked (or has been carried out: then it is no obligation any more) - judged while
   the container holds a live context *)
Definition c75 (m : mst) (e : list N) (p : pobs) : bool :=
  forallb (fun kd => negb (N.leb (snd kd) (e_clock m e)) || negb (e_live m e) || parked_retry (po_tims p) (fst kd)) (retry3_of m e p).

Definition mon1 (m : mst) (e : list N) (p : pobs) : mst * list (nat * nat) :=
  ({| m_delay := m_delay m; m_script := m_script m; m_clock := e_clock m e; m_ctx := e_ctx m e; m_ref := ref2 m e p;
      m_okeys := po_keys p; m_incs := fst (incs_of m p); m_ninc := snd (incs_of m p); m_ninst := length (po_insts p);
      m_sinc := sinc_of m p; m_bo := fst (retry1_of m e p); m_retry := retry3_of m e p; m_tims := po_tims p;
      m_canc := e_canc m e |},
   fails 6 1 (c61 m e p) ++ fails 6 2 (c62 m e p) ++ fails 6 3 (c63 m e p) ++ fails 6 4 (c64 m e p) ++ fails 6 5 (c65 m e p)
   ++ fails 7 1 (c71 m p) ++ fails 7 2 (c72 m e p) ++ fails 7 3 (c73 m p) ++ fails 7 4 (c74 m e p) ++ fails 7 5 (c75 m e p)
   ++ fails 7 6 (c76 m e p) ++ fails 7 7 (c77 m e p)).

Definition mon (m : option mst) (e o : list N) : option mst * list (nat * nat) :=
  match m with
  | None => (None, [])
  | Some m =>
    match parse e o with
    | Some p => let '(m', f) := mon1 m e p in (Some m', f)
    | None => (Some m, [(6, 9); (7, 9)]%nat)
    end
  end.

Definition run_check_keyed0 (cfg : list N) (evs obss : list (list N)) : list issue :=
  run_check step_opt mon (hinit cfg) (minit cfg) evs obss.

(* hasbo = 2: the Keyed is built with keyed.WithRetry(conf), conf being the backoff package's CONSTANT kind with interval
   d ms (0 = unset: the package default): every record gets its own object from conf.Construct(); the script is computed
   by the model of the backoff package (Backoff.Model), not supplied by the harness. *)
Definition real_script_len : nat := 64.
Definition expand (cfg : list N) : list N :=
  match cfg with
  | variant :: dl :: 2 :: d :: _ =>
    match Backoff.Model.Construct {| Backoff.Model.c_kind := 2; Backoff.Model.c_init := 0; Backoff.Model.c_mult := 0;
                                     Backoff.Model.c_max := 0; Backoff.Model.c_rf := 0; Backoff.Model.c_maxel := 0;
                                     Backoff.Model.c_const := d |} with
    | Some p => variant :: dl :: 1 :: Backoff.Model.bo_script p real_script_len
    | None => cfg
    end
  | _ => cfg
  end.

Definition run_check_keyed (cfg : list N) (evs obss : list (list N)) : list issue :=
  run_check_keyed0 (expand cfg) evs obss.
