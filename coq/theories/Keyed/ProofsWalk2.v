(* keyed: the generic walk of ProofsWalk.v with finer primitives (for the repaired code only).  Timers are not touched by
   anonymous updates here: a retry timer is stopped as the retry timer of a record, a pending removal is cancelled
   ([unremove]), armed ([P_arm_remove]) or carried out ([P_cb_remove]) as one step each, the bookkeeping section is one step.
   A reflexive, transitive relation closed under these steps holds between a state and its successor for EVERY event, and
   across the eager schedule that follows an event ([settle]). *)
From Util Require Import Common.Base Common.ListLemmas Keyed.Model Keyed.Spec Keyed.Proofs Keyed.ProofsWalk Keyed.ProofsMon.
Open Scope nat_scope.

(* a record update that touches only the context / cancel fields *)
Definition rctxonly (x y : rec) : Prop :=
  rkey y = rkey x /\ rlin y = rlin x /\ rdata y = rdata x /\ rerr y = rerr x /\ rsucc y = rsucc x /\ rexited y = rexited x /\
  rbo y = rbo x /\ rexit y = rexit x /\ rremove y = rremove x /\ rretry y = rretry x /\ rnil y = rnil x.
Lemma rctxonly_noctx x : rctxonly x (with_noctx x). Proof. repeat split. Qed.
Lemma rctxonly_cancel x v : rctxonly x (with_cancel x v). Proof. repeat split. Qed.

(* the timer of a delayed removal of record r *)
Definition rm_timer (s : st) (r : nat) : timer :=
  {| tkind := true; trec := r; tkey := rkey (getr s r); tdead := (clock s + delay s)%N; tst := TArmed |}.
Definition ran (s : st) (t : nat) (x : timer) : st := set_timers s (set_nth (timers s) t (with_tst x TRan)).

(* removeNow from its parts *)
Section RemoveNowParts.
  Variable P : st -> st -> Prop.
  Hypothesis P_trans : forall s s1 s2, P s s1 -> P s1 s2 -> P s s2.
  Hypothesis P_cancel_inst : forall s oi, P s (cancel_inst s oi).
  Hypothesis P_stop_retry : forall s r, P s (stop_timer s (rretry (getr s r))).
  Hypothesis P_clear_retry : forall s r, P s (setr s r (with_retry (getr s r) None)).
  Hypothesis P_kmap_delete : forall s k, P s (set_kmap s (delete (kmap s) k)).
  Lemma remove_now_parts s r : P s (remove_now s r).
  Proof.
    unfold remove_now. set (s1 := cancel_inst s (rcancel (getr s r))).
    assert (E : getr s r = getr s1 r) by (unfold s1; now rewrite getr_cancel_inst).
    apply (P_trans s s1); [apply P_cancel_inst|]. rewrite E.
    apply (P_trans s1 (stop_timer s1 (rretry (getr s1 r)))); [apply P_stop_retry|].
    eapply P_trans; [apply P_clear_retry | apply P_kmap_delete].
  Qed.
End RemoveNowParts.

Section Walk2.
  Variable P : st -> st -> Prop.
  Hypothesis P_refl : forall s, P s s.
  Hypothesis P_trans : forall s s1 s2, P s s1 -> P s1 s2 -> P s s2.
  Hypothesis P_cancel_inst : forall s oi, P s (cancel_inst s oi).
  Hypothesis P_start : forall s k r c w f, lookup (kmap s) k = Some r -> c <> 0 -> P s (start_rec s r c w f).
  Hypothesis P_new_fresh : forall s k, lookup (kmap s) k = None ->
    P s (set_nlin (fst (new_record s k (nlin s) None)) (S (nlin (fst (new_record s k (nlin s) None))))).
  Hypothesis P_new_same : forall s k r lin w, lookup (kmap s) k = Some r -> lin = rlin (getr s r) -> P s (fst (new_record s k lin w)).
  Hypothesis P_unremove : forall s k r, lookup (kmap s) k = Some r -> P s (unremove s r).
  Hypothesis P_setr_ctx : forall s r y, rctxonly (getr s r) y -> P s (setr s r y).
  Hypothesis P_remove_now : forall s k r, lookup (kmap s) k = Some r -> P s (remove_now s r).
  Hypothesis P_arm_remove : forall s k r, lookup (kmap s) k = Some r -> rremove (getr s r) = None ->
    P s (setr (set_timers s (timers s ++ [rm_timer s r])) r (with_remove (getr s r) (Some (length (timers s))))).
  Hypothesis P_seti_pc : forall s i x p, nth_error (insts s) i = Some x -> P s (seti s i (with_pc x p)).
  Hypothesis P_seti_over : forall s i x o, nth_error (insts s) i = Some x -> P s (seti s i (with_over x o)).
  Hypothesis P_bookkeep : forall s i, P s (bookkeep s i).
  Hypothesis P_cb_remove : forall s t x, nth_error (timers s) t = Some x -> tst x = TFired -> tkind x = true ->
    in_map (ran s t x) (trec x) = true -> rremove (getr (ran s t x) (trec x)) = Some t ->
    P s (setr (stop_timer (ran s t x) (Some t)) (trec x) (with_remove (getr (stop_timer (ran s t x) (Some t)) (trec x)) None)).
  Hypothesis P_cb_stale : forall s t x, nth_error (timers s) t = Some x -> tst x = TFired -> tkind x = true ->
    in_map (ran s t x) (trec x) && opt_is (rremove (getr (ran s t x) (trec x))) t = false -> P s (ran s t x).
  Hypothesis P_cb_retry : forall s t x, nth_error (timers s) t = Some x -> tst x = TFired -> tkind x = false -> P s (ran s t x).
  Hypothesis P_set_refs : forall s l, P s (set_refs s l).
  Hypothesis P_set_rels : forall s l, P s (set_rels s l).
  Hypothesis P_set_kctx : forall s c, P s (set_kctx s c).
  Hypothesis P_advance : forall s d, P s (advance s d).
  Hypothesis P_cancel_root : forall s c, P s (cancel_root s c).
  Hypothesis P_set_nilmode : forall s m, P s (set_nilmode s m).

  Ltac tr := eapply P_trans.

  Lemma has_ctx_ne s : has_ctx s = true -> kctx s <> 0.
  Proof. unfold has_ctx. destruct (Nat.eqb_spec (kctx s) 0); [discriminate | auto]. Qed.

  Lemma V_norm_ctx s : P s (norm_ctx s).
  Proof. unfold norm_ctx. destruct (root_canc s (kctx s)); [apply P_set_kctx | apply P_refl]. Qed.

  Lemma V_remove_rec s k r : lookup (kmap s) k = Some r -> P s (remove_rec s r).
  Proof.
    intros Hk. unfold remove_rec. destruct (rremove (getr s r)) eqn:E; [apply P_refl|].
    destruct (N.eqb (delay s) 0 || failed (getr s r)); [now apply (P_remove_now s k)|]. now apply (P_arm_remove s k r).
  Qed.
  Lemma V_remove_key s k : P s (fst (remove_key s k)).
  Proof. unfold remove_key. destruct (lookup (kmap s) k) eqn:E; cbn [fst]; [now apply (V_remove_rec s k) | apply P_refl]. Qed.

  Lemma V_set_key s k st : P s (fst (set_key repaired s k st)).
  Proof.
    unfold set_key. destruct (lookup (kmap s) k) as [r|] eqn:Ek.
    - cbn [fst fx_setkey repaired]. tr; [now apply (P_unremove s k r)|].
      destruct (st && has_ctx _) eqn:Ec; [|apply P_refl]. apply andb_true_iff in Ec as [_ Ec].
      apply (P_start _ k); [rewrite kmap_unremove; exact Ek | now apply has_ctx_ne].
    - pose proof (P_new_fresh s k Ek) as G. pose proof (lookup_new_fresh s k) as L.
      destruct (new_record s k (nlin s) None) as [s1 r]. cbn [fst snd] in *.
      tr; [exact G|]. destruct (has_ctx _) eqn:Ec; [apply (P_start _ k); [exact L | now apply has_ctx_ne] | apply P_refl].
  Qed.

  Lemma V_sync_one restart acc k : P (fst (fst acc)) (fst (fst (sync_one repaired restart acc k))).
  Proof.
    destruct acc as [[s seen] added]. cbn [fst]. unfold sync_one. destruct (mem k seen); [apply P_refl|].
    destruct (lookup (kmap s) k) as [r|] eqn:Ek.
    - cbn [fst fx_sync repaired]. tr; [now apply (P_unremove s k r)|].
      destruct (restart && has_ctx _) eqn:Ec; [|apply P_refl]. apply andb_true_iff in Ec as [_ Ec].
      apply (P_start _ k); [rewrite kmap_unremove; exact Ek | now apply has_ctx_ne].
    - pose proof (P_new_fresh s k Ek) as G. pose proof (lookup_new_fresh s k) as L.
      destruct (new_record s k (nlin s) None) as [s1 r]. cbn [fst snd] in *.
      tr; [exact G|]. destruct (has_ctx _) eqn:Ec; [apply (P_start _ k); [exact L | now apply has_ctx_ne] | apply P_refl].
  Qed.
  Lemma V_sync_rm keys acc k : P (fst acc) (fst (sync_rm keys acc k)).
  Proof. destruct acc as [s removed]. unfold sync_rm. destruct (mem k keys); cbn [fst]; [apply P_refl | apply V_remove_key]. Qed.
  Lemma V_fold_acc {A E} (pr : A -> st) (f : A -> E -> A) :
    (forall a e, P (pr a) (pr (f a e))) -> forall es a, P (pr a) (pr (fold_left f es a)).
  Proof. intros Hf es. induction es as [|e es IH]; intros a; cbn [fold_left]; [apply P_refl | tr; [apply Hf | apply IH]]. Qed.
  Lemma V_sync_core s keys restart : P s (fst (sync_core repaired s keys restart)).
  Proof.
    unfold sync_core.
    pose proof (V_fold_acc (fun acc : st * list nat * list nat => fst (fst acc)) (sync_one repaired restart) (V_sync_one restart) keys (s, [], [])) as G1.
    destruct (fold_left (sync_one repaired restart) keys (s, [], [])) as [[s1 seen] added]. cbn [fst] in G1.
    pose proof (V_fold_acc (fun acc : st * list nat => fst acc) (sync_rm keys) (V_sync_rm keys) (map fst (kmap s1)) (s1, [])) as G2.
    destruct (fold_left (sync_rm keys) (map fst (kmap s1)) (s1, [])) as [s2 removed]. cbn [fst] in *. tr; eauto.
  Qed.
  Lemma V_sync_keys s keys restart : P s (fst (sync_keys repaired s keys restart)).
  Proof. unfold sync_keys. tr; [apply V_norm_ctx | apply V_sync_core]. Qed.

  Lemma V_ctx_key c same restart s k : P s (ctx_key c same restart s k).
  Proof.
    unfold ctx_key. destruct (lookup (kmap s) k) as [r|] eqn:Ek; [|apply P_refl]. destruct (same && is_nil (rerr (getr s r))); [apply P_refl|].
    tr; [instantiate (1 := setr (cancel_inst s (rcancel (getr s r))) r (with_noctx (getr s r)));
         tr; [apply P_cancel_inst | apply P_setr_ctx; rewrite getr_cancel_inst; apply rctxonly_noctx]|].
    destruct (_ && negb (Nat.eqb c 0)) eqn:Ec; [|apply P_refl]. apply andb_true_iff in Ec as [_ Ec].
    apply (P_start _ k); [rewrite kmap_setr, kmap_cancel_inst; exact Ek|]. intros ->. discriminate.
  Qed.
  Lemma V_set_context s c restart : P s (set_context s c restart).
  Proof.
    unfold set_context. destruct (Nat.eqb (kctx s) c && negb restart); [apply P_refl|].
    tr; [apply P_set_kctx|]. apply (V_fold_acc (fun x => x)). intros; apply V_ctx_key.
  Qed.
  Lemma V_reset_core s k cond : P s (fst (reset_core repaired s k cond)).
  Proof.
    unfold reset_core. destruct (lookup (kmap s) k) as [r|] eqn:Ek; [|apply P_refl]. destruct (negb (cond_match cond k)); [apply P_refl|].
    set (s1 := cancel_inst s (rcancel (getr s r))). match goal with |- context [new_record s1 k _ ?w] => set (w0 := w) end.
    assert (K1 : lookup (kmap s1) k = Some r) by (unfold s1; rewrite kmap_cancel_inst; exact Ek).
    pose proof (P_new_same s1 k r (rlin (getr s r)) w0 K1) as G.
    assert (L : lookup (kmap (fst (new_record s1 k (rlin (getr s r)) w0))) k = Some (snd (new_record s1 k (rlin (getr s r)) w0)))
      by (unfold new_record; cbn [fst snd kmap set_kmap]; apply lookup_insert_same).
    destruct (new_record s1 k (rlin (getr s r)) w0) as [s2 r2]. cbn [fst snd] in *.
    tr; [apply P_cancel_inst|]. fold s1. tr; [apply G; unfold s1; now rewrite getr_cancel_inst|].
    destruct (has_ctx s2) eqn:Ec; [apply (P_start _ k); [exact L | now apply has_ctx_ne] | apply P_refl].
  Qed.
  Lemma V_reset_routine s k cond : P s (fst (reset_routine repaired s k cond)).
  Proof. unfold reset_routine. tr; [apply V_norm_ctx | apply V_reset_core]. Qed.
  Lemma V_restart_core s k cond : P s (fst (restart_core s k cond)).
  Proof.
    unfold restart_core. destruct (lookup (kmap s) k) as [r|] eqn:Ek; [|apply P_refl].
    destruct (has_ctx s) eqn:Ec; cbn [negb]; [|apply P_refl]. destruct (negb (cond_match cond k)); [apply P_refl|]. cbn [fst].
    tr; [instantiate (1 := setr (cancel_inst s (rcancel (getr s r))) r (with_cancel (getr s r) None));
         tr; [apply P_cancel_inst | apply P_setr_ctx; rewrite getr_cancel_inst; apply rctxonly_cancel]|].
    apply (P_start _ k); [rewrite kmap_setr, kmap_cancel_inst; exact Ek|].
    cbn [kctx setr set_recs]. destruct (cancel_inst_frame s (rcancel (getr s r))) as (_ & _ & _ & _ & C5 & _). rewrite C5. now apply has_ctx_ne.
  Qed.
  Lemma V_restart_routine s k cond : P s (fst (restart_routine s k cond)).
  Proof. unfold restart_routine. tr; [apply V_norm_ctx | apply V_restart_core]. Qed.
  Lemma V_all_step f cond acc k : (forall s k c, P s (fst (f s k c))) -> P (fst acc) (fst (all_step f cond acc k)).
  Proof. intros Hf. destruct acc as [s n]. unfold all_step. pose proof (Hf s k cond) as G. destruct (f s k cond) as [s' [ex rs]]. exact G. Qed.
  Lemma V_reset_all s cond : P s (fst (reset_all repaired s cond)).
  Proof.
    unfold reset_all.
    pose proof (V_fold_acc (fun acc : st * nat => fst acc) (all_step (reset_routine repaired) cond) (fun a e => V_all_step _ cond a e V_reset_routine) (map fst (kmap s)) (s, 0)) as G.
    destruct (fold_left _ _ (s, 0)) as [s' n]. exact G.
  Qed.
  Lemma V_restart_all s cond : P s (fst (restart_all s cond)).
  Proof.
    unfold restart_all.
    pose proof (V_fold_acc (fun acc : st * nat => fst acc) (all_step restart_routine cond) (fun a e => V_all_step _ cond a e V_restart_routine) (map fst (kmap s)) (s, 0)) as G.
    destruct (fold_left _ _ (s, 0)) as [s' n]. exact G.
  Qed.
  Lemma V_add_key_ref s k : P s (fst (add_key_ref repaired s k)).
  Proof. unfold add_key_ref. pose proof (V_set_key s k true) as G. destruct (set_key repaired s k true) as [s1 res]. cbn [fst] in *. tr; [exact G | apply P_set_refs]. Qed.
  Lemma V_release_start s f : P s (release_start s f).
  Proof. unfold release_start. destruct (nth_error (refs s) f) as [x|]; [|apply P_refl]. destruct (frel x); [apply P_refl|]. tr; [apply P_set_refs | apply P_set_rels]. Qed.
  Lemma V_release_section s a : P s (release_section s a).
  Proof.
    unfold release_section. destruct (nth_error (rels s) a) as [l|]; [|apply P_refl]. destruct (lparked l); [|apply P_refl].
    set (s1 := set_rels s _). assert (G1 : P s s1) by apply P_set_rels.
    destruct (nth_error (refs s1) (lref l)) as [x|]; [|exact G1]. destruct (fin x); [|exact G1].
    set (s2 := set_refs s1 _). assert (G2 : P s s2) by (tr; [exact G1 | apply P_set_refs]).
    destruct (Nat.eqb _ 0); [tr; [exact G2 | apply V_remove_key] | exact G2].
  Qed.
  Lemma V_rc_remove_key s k : P s (fst (rc_remove_key s k)).
  Proof. unfold rc_remove_key. tr; [apply P_set_refs | apply V_remove_key]. Qed.
  Ltac casesV := repeat match goal with |- context [match ?x with _ => _ end] => destruct x eqn:? end.
  Lemma V_proceed s i en : P s (proceed repaired s i en). Proof. unfold proceed. casesV; auto. Qed.
  Lemma V_wake s i en : P s (wake repaired s i en). Proof. unfold wake. casesV; auto. Qed.
  Lemma V_fn_return s i o : P s (fn_return s i o). Proof. unfold fn_return. casesV; auto. Qed.

  Lemma V_timer_cb s t : P s (timer_cb repaired s t).
  Proof.
    unfold timer_cb. destruct (nth_error (timers s) t) as [x|] eqn:Ex; [|apply P_refl]. destruct (tst x) eqn:Es; try apply P_refl.
    fold (ran s t x). set (s1 := ran s t x). cbn [fx_stale repaired].
    destruct (tkind x) eqn:Ek.
    - destruct (in_map s1 (trec x) && opt_is (rremove (getr s1 (trec x))) t) eqn:Ec; [|now apply P_cb_stale].
      apply andb_true_iff in Ec as [Em Eo].
      assert (Er : rremove (getr s1 (trec x)) = Some t).
      { unfold opt_is in Eo. destruct (rremove (getr s1 (trec x))) as [t'|]; [|discriminate]. apply Nat.eqb_eq in Eo. now subst. }
      rewrite Er. tr; [apply (P_cb_remove s t x Ex Es Ek Em Er)|]. apply (P_remove_now _ (rkey (getr s1 (trec x)))).
      rewrite kmap_setr, kmap_stop_timer. now apply in_map_lookup.
    - assert (G1 : P s s1) by (now apply P_cb_retry).
      destruct (has_ctx s1) eqn:Ec; cbn [andb]; [|exact G1]. destruct (in_map s1 (trec x)) eqn:Em; cbn [andb]; [|exact G1].
      destruct (rexited (getr s1 (trec x))); [|exact G1]. tr; [exact G1|].
      apply (P_start _ (rkey (getr s1 (trec x)))); [now apply in_map_lookup | now apply has_ctx_ne].
  Qed.

  Theorem V_step s e : P s (step repaired s e).
  Proof.
    destruct e; cbn [step].
    - apply V_set_context. - apply V_set_key. - apply V_remove_key. - apply V_sync_keys. - apply P_refl.
    - apply V_reset_routine. - apply V_restart_routine. - apply V_reset_all. - apply V_restart_all.
    - apply V_add_key_ref. - apply V_release_start. - apply V_release_section. - apply V_rc_remove_key.
    - apply V_proceed. - apply V_wake. - apply V_fn_return. - apply P_bookkeep. - apply P_advance. - apply V_timer_cb.
    - apply P_cancel_root. - apply P_set_nilmode.
  Qed.
  (* every event except the bookkeeping section *)
  Theorem V_step_nobook s e : (forall i, e <> EBook i) -> P s (step repaired s e).
  Proof.
    intros Hb. destruct e; cbn [step].
    - apply V_set_context. - apply V_set_key. - apply V_remove_key. - apply V_sync_keys. - apply P_refl.
    - apply V_reset_routine. - apply V_restart_routine. - apply V_reset_all. - apply V_restart_all.
    - apply V_add_key_ref. - apply V_release_start. - apply V_release_section. - apply V_rc_remove_key.
    - apply V_proceed. - apply V_wake. - apply V_fn_return. - exfalso. now apply (Hb i). - apply P_advance. - apply V_timer_cb.
    - apply P_cancel_root. - apply P_set_nilmode.
  Qed.
  (* ... and except timer callbacks *)
  Definition quiet (e : ev) : bool := match e with EBook _ | ETimerCb _ => false | _ => true end.
  Theorem V_step_quiet s e : quiet e = true -> P s (step repaired s e).
  Proof.
    intros Hq. destruct e; try discriminate Hq; cbn [step].
    - apply V_set_context. - apply V_set_key. - apply V_remove_key. - apply V_sync_keys. - apply P_refl.
    - apply V_reset_routine. - apply V_restart_routine. - apply V_reset_all. - apply V_restart_all.
    - apply V_add_key_ref. - apply V_release_start. - apply V_release_section. - apply V_rc_remove_key.
    - apply V_proceed. - apply V_wake. - apply V_fn_return. - apply P_advance.
    - apply P_cancel_root. - apply P_set_nilmode.
  Qed.
  Lemma V_run_wakes s n : P s (run repaired s (wakes n)).
  Proof.
    unfold run, wakes. generalize (seq 0 n) as l. intros l. revert s. induction l as [|i l IH]; intros s; cbn [map fold_left]; [apply P_refl|].
    tr; [|apply IH]. cbn [step]. apply V_wake.
  Qed.
  Lemma V_settle s : P s (settle s).
  Proof.
    rewrite settle_run. change (run repaired s (EAdvance 0 :: wakes (length (insts s)))) with (run repaired (advance s 0) (wakes (length (insts s)))).
    tr; [apply P_advance | apply V_run_wakes].
  Qed.
  Theorem V_next s e : P s (settle (step repaired s e)).
  Proof. tr; [apply V_step | apply V_settle]. Qed.
End Walk2.
