(* keyed: for the retry obligations of the monitors (clause 7/5): association-list facts about filters and repeated deletion,
   and - on the reference machine alone - the constructor count of a key that is present changes only when the event resets
   that very key. *)
From Util Require Import Common.Base Common.ListLemmas Keyed.Model Keyed.Spec Keyed.Proofs Keyed.AbsSpec Keyed.ProofsC06 Keyed.ProofsMon Keyed.ProofsMon2
  Keyed.ProofsInc Keyed.ProofsRef Keyed.ProofsRefSim.
Open Scope N_scope.

Lemma alook_filter_key {A} (f : N -> bool) (l : list (N * A)) k :
  alook (filter (fun kd => f (fst kd)) l) k = if f k then alook l k else None.
Proof.
  induction l as [|[k' v] t IH]; cbn [filter alook fst]; [now destruct (f k)|].
  destruct (f k') eqn:Ef; cbn [alook].
  - destruct (N.eqb_spec k' k) as [->|Hne]; [now rewrite Ef | exact IH].
  - rewrite IH. destruct (N.eqb_spec k' k) as [->|Hne]; [now rewrite Ef | reflexivity].
Qed.
Lemma alook_fold_adel {A} ks : forall (l : list (N * A)) k, alook (fold_left (fun rt k => adel rt k) ks l) k = if nmem k ks then None else alook l k.
Proof.
  induction ks as [|k0 ks IH]; intros l k; cbn [fold_left]; [reflexivity|]. rewrite IH. unfold nmem. cbn [existsb]. fold (nmem k ks).
  destruct (nmem k ks); [now rewrite orb_true_r|]. rewrite orb_false_r. destruct (N.eqb_spec k k0) as [->|Hne]; [apply alook_adel_same | now apply alook_adel_other].
Qed.
Lemma asorted_filter {A} (f : N * A -> bool) (l : list (N * A)) : asorted (map fst l) -> asorted (map fst (filter f l)).
Proof.
  induction l as [|[k v] t IH]; intros Hs; [exact I|]. cbn [map fst asorted] in Hs. destruct Hs as [Hh Ht]. cbn [filter]. destruct (f (k, v)); [|auto].
  cbn [map fst asorted]. split; [|auto]. apply Forall_forall. intros x Hx. rewrite Forall_forall in Hh. apply Hh.
  apply in_map_iff in Hx as (y & <- & Hy). apply filter_In in Hy as [Hy _]. now apply List.in_map.
Qed.
Lemma asorted_fold_adel {A} ks : forall (l : list (N * A)), asorted (map fst l) -> asorted (map fst (fold_left (fun rt k => adel rt k) ks l)).
Proof. induction ks as [|k0 ks IH]; intros l Hs; cbn [fold_left]; [exact Hs|]. apply IH. now apply asorted_adel. Qed.
Lemma In_alook_sorted {A} (l : list (N * A)) k v : asorted (map fst l) -> In (k, v) l -> alook l k = Some v.
Proof.
  induction l as [|[k' v'] t IH]; intros Hs Hin; [destruct Hin|]. cbn [map fst asorted] in Hs. destruct Hs as [Hh Ht]. cbn [alook].
  destruct Hin as [E|Hin]; [inversion E; subst; now rewrite N.eqb_refl|].
  destruct (N.eqb_spec k' k) as [->|Hne]; [|now apply IH].
  exfalso. rewrite Forall_forall in Hh. assert (X : In k (map fst t)) by (apply in_map_iff; exists (k, v); auto). specialize (Hh k X). lia.
Qed.

(* ------------------------------------------------------------------ *)
(* does event e construct a new record for key k, given that the key is present *)
Definition resets (e : list N) (k : N) : bool :=
  match e with
  | [6; k0; c] => N.eqb k k0 && cond_ok c k0
  | [8; c] => cond_ok c k
  | _ => false
  end.

Lemma ctorN_fold_reset : forall L r k, ~ In k L -> ctorN (fold_left r_reset L r) k = ctorN r k.
Proof.
  induction L as [|k0 L IH]; intros r k Hn; cbn [fold_left]; [reflexivity|]. rewrite IH by (intros X; apply Hn; now right).
  destruct (r_reset_spec r k0) as (_ & C & _). rewrite C. destruct (N.eqb_spec k k0) as [->|Hne]; [exfalso; apply Hn; now left | reflexivity].
Qed.
Lemma ctorN_fold_remove dl clk : forall L r k, ctorN (fold_left (fun r0 k0 => fst (r_remove dl clk r0 k0)) L r) k = ctorN r k.
Proof. induction L as [|k0 L IH]; intros r k; cbn [fold_left]; [reflexivity|]. now rewrite IH, r_remove_ctorN. Qed.
Lemma ctorN_release_remove dl clk r k0 k : ctorN (r_release_remove dl clk r k0) k = ctorN r k.
Proof. unfold r_release_remove. destruct (Nat.eqb _ 0); [apply r_remove_ctorN | reflexivity]. Qed.

Theorem ctor_kept dl clk ctx tims late present r e k :
  ahas (r_keys r) k = true -> resets e k = false -> ctorN (fst (r_step dl clk ctx tims late present r e)) k = ctorN r k.
Proof.
  intros Hp Hr. unfold r_step, resets in *. dm; try reflexivity.
  - (* 11 *) destruct (nth_error (r_refs r) (n2n n)) as [x|]; [|reflexivity]. destruct (rr_rel x); reflexivity.
  - (* 7 *) destruct (ahas (r_keys r) n); reflexivity.
  - (* 13 *) match goal with |- context [r_remove dl clk ?r0 n] => pose proof (r_remove_ctorN dl clk r0 n k) as G; destruct (r_remove dl clk r0 n) as [r' ex] end. exact G.
  - (* 3 *) pose proof (r_remove_ctorN dl clk r n k) as G. destruct (r_remove dl clk r n) as [r' ex]. exact G.
  - (* 18 *) destruct (nth_error tims (n2n n)) as [[[kind k0] dead]|]; [|reflexivity]. destruct (nz kind); [|reflexivity].
    destruct (alook (r_keys r) k0) as [i|]; [|reflexivity]. destruct (ki_pend i); [|reflexivity]. destruct (_ && _); reflexivity.
  - (* 10 *) destruct (r_request_spec r n) as (_ & _ & C & _). specialize (C k). destruct (r_request r n) as [r' [d ex]]. cbn [fst] in *.
    rewrite set_r_refs_ctorN, C. destruct (N.eqb_spec k n) as [->|]; [rewrite Hp|]; reflexivity.
  - (* 6 *) destruct (ahas (r_keys r) n); [|reflexivity]. destruct (cond_ok n0 n) eqn:Ec; [|reflexivity]. cbn [fst].
    destruct (r_reset_spec r n) as (_ & C & _). rewrite C. rewrite andb_true_r in Hr. now rewrite Hr.
  - (* 20 *) destruct (nth_error (r_rels r) (n2n n)) as [f|]; [|reflexivity]. destruct (nth_error (r_refs r) f) as [x|]; [|reflexivity]. apply ctorN_release_remove.
  - (* 12 *) destruct (nth_error (r_rels r) (n2n n)) as [f|]; [|reflexivity]. destruct (nth_error (r_refs r) f) as [x|]; [|reflexivity].
    destruct (rr_cnt x); [|reflexivity]. destruct late; cbn [fst]; [reflexivity|]. now rewrite ctorN_release_remove.
  - (* 8 *) cbn [fst]. apply ctorN_fold_reset. intros X. apply filter_In in X as [_ X]. congruence.
  - (* 4 *) cbn [fst]. rewrite ctorN_fold_remove. destruct (r_sync_phase1 (dedup e) r) as (_ & C & _). cbn zeta in C. rewrite C, Hp. cbn [negb]. now rewrite andb_false_r.
  - (* 2 *) destruct (r_request_spec r n) as (_ & _ & C & _). specialize (C k). destruct (r_request r n) as [r' [d ex]]. cbn [fst] in *.
    rewrite C. destruct (N.eqb_spec k n) as [->|]; [rewrite Hp|]; reflexivity.
Qed.
