(* keyed: an instance whose context is not cancelled was started under the root context the container holds now (and the
   container holds one).  SetContext with another context and ClearContext cancel every instance; a root that its owner
   cancelled takes its instances with it before the container drops it. *)
From Util Require Import Common.Base Common.ListLemmas Keyed.Model Keyed.Proofs Keyed.ProofsC07 Keyed.ProofsCancel Keyed.ProofsWalk Keyed.ProofsMono.

Definition InvR (s : st) : Prop :=
  forall j x, nth_error (insts s) j = Some x -> icanc x = false -> iroot x = kctx s /\ kctx s <> 0.
Definition IRC (s : st) : Prop := InvC s /\ InvR s.
Definition PR (s s' : st) : Prop := IRC s -> IRC s'.
Lemma PR_refl s : PR s s. Proof. intros H; exact H. Qed.
Lemma PR_trans s s1 s2 : PR s s1 -> PR s1 s2 -> PR s s2. Proof. intros A B H. apply B, A, H. Qed.

Lemma PR_frame s s' :
  Mono s s' -> kctx s' = kctx s -> croots s' = croots s -> length (insts s') = length (insts s) -> PR s s'.
Proof.
  intros M EK EC LI [HC HR].
  assert (IS : forall j x', nth_error (insts s') j = Some x' -> exists x, nth_error (insts s) j = Some x /\ isame x x').
  { intros j x' Hx'. assert (Hj : j < length (insts s)) by (rewrite <- LI; eapply nth_error_nth_len; eauto).
    destruct (nth_error (insts s) j) as [x|] eqn:Ex; [|apply nth_error_None in Ex; lia].
    destruct (mo_insts _ _ M j x Ex) as (x2 & Hx2 & Hs). exists x. split; [reflexivity|]. congruence. }
  split.
  - intros j x' Hx' Hr. destruct (IS j x' Hx') as (x & Hx & (_ & _ & _ & _ & _ & Er & Hc)). apply Hc. apply (HC j x Hx).
    unfold root_canc in *. now rewrite <- EC, <- Er.
  - intros j x' Hx' Hc'. destruct (IS j x' Hx') as (x & Hx & (_ & _ & _ & _ & _ & Er & Hc)).
    rewrite EK, Er. apply (HR j x Hx). destruct (icanc x) eqn:E; [|reflexivity]. rewrite (Hc eq_refl) in Hc'. discriminate.
Qed.

Lemma PR_of_Kx s s' : Mono s s' -> Kx s s' -> kctx s' = kctx s -> length (insts s') = length (insts s) -> PR s s'.
Proof. intros M (_ & C & _) K L. now apply PR_frame. Qed.

Lemma len_cancel_inst s oi : length (insts (cancel_inst s oi)) = length (insts s). Proof. apply cancel_inst_frame. Qed.
Lemma len_stop_timer s ot : length (insts (stop_timer s ot)) = length (insts s).
Proof. destruct (stop_timer_frame s ot) as (_ & _ & T3 & _). now rewrite T3. Qed.
Lemma kctx_cancel_inst s oi : kctx (cancel_inst s oi) = kctx s. Proof. apply cancel_inst_frame. Qed.
Lemma kctx_stop_timer s ot : kctx (stop_timer s ot) = kctx s. Proof. apply stop_timer_frame. Qed.

Lemma PR_cancel_inst s oi : PR s (cancel_inst s oi).
Proof. apply PR_frame; [apply Mono_cancel_inst | apply kctx_cancel_inst | apply croots_cancel_inst | apply len_cancel_inst]. Qed.
Lemma PR_stop_timer s ot : PR s (stop_timer s ot).
Proof. apply PR_frame; [apply Mono_stop_timer | apply kctx_stop_timer | apply croots_stop_timer | apply len_stop_timer]. Qed.
Lemma PR_ext s s' : insts s' = insts s -> kctx s' = kctx s -> croots s' = croots s -> PR s s'.
Proof. intros E1 E2 E3. unfold PR, IRC, InvC, InvR, root_canc. rewrite E1, E2, E3. auto. Qed.
Ltac prx := apply PR_ext; reflexivity.

(* start with a context c that is not nil, in a state whose container context is c *)
Lemma PR_start_gen s r c w f : kctx s = c -> c <> 0 -> PR s (start_rec s r c w f).
Proof.
  intros Ek Hc. unfold start_rec. set (x := getr s r). destruct (negb f && rsucc x || rnil x); [apply PR_refl|].
  destruct (negb f && is_some (rctx x) && negb (rexited x) && ctx_live s (rctx x)); [apply PR_refl|]. cbn zeta.
  set (s2 := cancel_inst (stop_timer s (rretry x)) (rcancel x)).
  assert (P2 : PR s s2) by (eapply PR_trans; [apply PR_stop_timer | apply PR_cancel_inst]).
  assert (K2 : kctx s2 = kctx s) by (unfold s2; now rewrite kctx_cancel_inst, kctx_stop_timer).
  assert (C2 : croots s2 = croots s) by (unfold s2; now rewrite croots_cancel_inst, croots_stop_timer).
  intros H. destruct (P2 H) as [HC HR].
  eapply (PR_ext (set_insts s2 (insts s2 ++ [_]))); try reflexivity. split.
  - intros j y Hy Hr. cbn [insts set_insts] in Hy. unfold root_canc in Hr. cbn [croots set_insts] in Hr.
    destruct (nth_error_app_inv _ _ _ _ Hy) as [G| ->]; [exact (HC j y G Hr)|]. cbn [icanc iroot] in *. unfold root_canc. now rewrite <- C2.
  - intros j y Hy Hcy. cbn [insts set_insts] in Hy. cbn [kctx set_insts].
    destruct (nth_error_app_inv _ _ _ _ Hy) as [G| ->]; [exact (HR j y G Hcy)|]. cbn [iroot]. rewrite K2, Ek. auto.
Qed.
Lemma PR_start s (k : nat) r w f : lookup (kmap s) k = Some r -> has_ctx s = true -> PR s (start_rec s r (kctx s) w f).
Proof. intros _ H. apply PR_start_gen; [reflexivity|]. unfold has_ctx in H. destruct (Nat.eqb_spec (kctx s) 0); [discriminate | assumption]. Qed.

Lemma PR_norm_ctx s : PR s (norm_ctx s).
Proof.
  unfold norm_ctx. destruct (root_canc s (kctx s)) eqn:E; [|apply PR_refl]. intros [HC HR]. split; [revert HC; apply InvC_ext; reflexivity|].
  intros j x Hx Hc. exfalso. cbn [insts set_kctx] in Hx. destruct (HR j x Hx Hc) as [A _]. rewrite <- A in E. rewrite (HC j x Hx E) in Hc. discriminate.
Qed.

Theorem PR_ordinary s e : ordinary e = true -> PR s (step repaired s e).
Proof.
  apply (W_step PR PR_refl PR_trans PR_cancel_inst PR_stop_timer PR_start); try (intros; prx).
  - intros s0 i x p H. apply PR_frame; try reflexivity; [apply (Mono_seti s0 i x _ H); repeat split; auto | rewrite insts_seti; apply length_set_nth].
  - intros s0 i x o H. apply PR_frame; try reflexivity; [apply (Mono_seti s0 i x _ H); repeat split; auto | rewrite insts_seti; apply length_set_nth].
  - apply PR_norm_ctx.
Qed.

(* ---- SetContext ---- *)
Lemma kctx_start_rec s r c w f : kctx (start_rec s r c w f) = kctx s.
Proof.
  unfold start_rec. destruct (negb f && rsucc (getr s r) || rnil (getr s r)); [reflexivity|].
  destruct (negb f && is_some (rctx (getr s r)) && negb (rexited (getr s r)) && ctx_live s (rctx (getr s r))); [reflexivity|].
  cbn [kctx setr set_recs set_insts]. now rewrite kctx_cancel_inst, kctx_stop_timer.
Qed.
Lemma kctx_ctx_key c same restart s k : kctx (ctx_key c same restart s k) = kctx s.
Proof.
  unfold ctx_key. destruct (lookup (kmap s) k) as [r|]; [|reflexivity]. destruct (same && is_nil (rerr (getr s r))); [reflexivity|].
  destruct (_ && negb (Nat.eqb c 0)); [rewrite kctx_start_rec|]; cbn [kctx setr set_recs]; apply kctx_cancel_inst.
Qed.

(* what is known about an uncancelled instance while SetContext walks over the keys: it was started with the new context,
   or it is an old one whose key is still to come *)
Definition MidR (s0 : st) (c : nat) (rest : list nat) (a : st) : Prop :=
  forall j x, nth_error (insts a) j = Some x -> icanc x = false ->
    (iroot x = c /\ c <> 0) \/ (In (ikey x) rest /\ iroot x = kctx s0 /\ kctx s0 <> 0).

Lemma ctx_key_MidR s0 c restart k rest a :
  W a -> InvC a -> kctx a = c -> (Nat.eqb (kctx s0) c = true -> kctx s0 = c) ->
  MidR s0 c (k :: rest) a ->
  MidR s0 c rest (ctx_key c (Nat.eqb (kctx s0) c) restart a k) /\ InvC (ctx_key c (Nat.eqb (kctx s0) c) restart a k).
Proof.
  intros HW HC Ek Hsame HM. pose proof HW as [HInv HL].
  assert (NOK : lookup (kmap a) k = None -> MidR s0 c rest a).
  { intros En j x Hx Hc. destruct (HM j x Hx Hc) as [L|([E|I] & R)]; [now left | | right; auto].
    exfalso. destruct (HL j x Hx) as (_ & _ & _ & D). destruct (D Hc) as [D1 _]. rewrite <- E, En in D1. discriminate. }
  unfold ctx_key. destruct (lookup (kmap a) k) as [r|] eqn:Er; [|split; [now apply NOK | exact HC]].
  destruct (Nat.eqb (kctx s0) c && is_nil (rerr (getr a r))) eqn:Esk.
  - (* skipped: the context is the same one *)
    apply andb_true_iff in Esk as [Es _]. split; [|exact HC]. intros j x Hx Hc.
    destruct (HM j x Hx Hc) as [L|([E|I] & R1 & R2)]; [now left | | right; auto]. left. rewrite <- (Hsame Es). auto.
  - (* every instance of the key's record is cancelled, then at most one is started with c *)
    set (a1 := cancel_inst a (rcancel (getr a r))).
    set (a2 := setr a1 r (with_noctx (getr a r))).
    assert (M2 : forall j x, nth_error (insts a2) j = Some x -> icanc x = false -> In (ikey x) rest /\ iroot x = kctx s0 /\ kctx s0 <> 0 \/ iroot x = c /\ c <> 0).
    { intros j x Hx Hc. unfold a2 in Hx. rewrite insts_setr in Hx.
      assert (Hx0 : exists x0, nth_error (insts a) j = Some x0 /\ icanc x0 = false /\ ikey x0 = ikey x /\ iroot x0 = iroot x /\ irec x0 = irec x).
      { unfold a1, cancel_inst in Hx. destruct (rcancel (getr a r)) as [t|]; [|exists x; auto].
        destruct (nth_error (insts a) t) as [y|] eqn:Ey; [|exists x; auto]. rewrite insts_seti in Hx.
        assert (Ht : t < length (insts a)) by (eapply nth_error_nth_len; eauto).
        destruct (Nat.eq_dec j t) as [->|Hne]; [rewrite nth_error_set_nth_same in Hx by exact Ht; inversion Hx; subst x; discriminate Hc|].
        rewrite nth_error_set_nth_other in Hx by exact Hne. exists x. auto. }
      destruct Hx0 as (x0 & Hx0 & Hc0 & E1 & E2 & E3).
      destruct (HM j x0 Hx0 Hc0) as [L|([E|I] & R)]; [right; now rewrite <- E2 | | left; rewrite <- E1, <- E2; auto].
      exfalso. destruct (HL j x0 Hx0) as (_ & _ & _ & D). destruct (D Hc0) as [D1 D2]. rewrite <- E, Er in D1. inversion D1.
      pose proof (all_cancelled a r HL j x) as G. fold a1 in G. unfold a2 in *. rewrite <- E3 in G. rewrite (G Hx (eq_sym H0)) in Hc. discriminate. }
    assert (C2 : InvC a2) by (apply InvC_setr, InvC_cancel_inst, HC).
    fold a1. fold a2.
    destruct ((is_nil (rerr (getr a r)) || restart) && negb (Nat.eqb c 0)) eqn:Est.
    + apply andb_true_iff in Est as [_ Ec0]. assert (Hc0 : c <> 0) by (intros ->; discriminate).
      split; [|now apply InvC_start_rec].
      intros j x Hx Hc.
      (* an instance of the state after start: an old one (unchanged or cancelled) or the new one *)
      unfold start_rec in Hx. set (y := getr a2 r) in *.
      destruct (negb false && rsucc y || rnil y); [destruct (M2 j x Hx Hc) as [R|L]; [right | left]; auto|].
      destruct (negb false && is_some (rctx y) && negb (rexited y) && ctx_live a2 (rctx y)); [destruct (M2 j x Hx Hc) as [R|L]; [right | left]; auto|].
      cbn zeta in Hx. rewrite insts_setr in Hx. cbn [insts set_insts] in Hx.
      destruct (nth_error_app_inv _ _ _ _ Hx) as [G| ->]; [|left; cbn [iroot]; auto].
      assert (G0 : exists x0, nth_error (insts a2) j = Some x0 /\ icanc x0 = false /\ ikey x0 = ikey x /\ iroot x0 = iroot x).
      { destruct (stop_timer_frame a2 (rretry y)) as (_ & _ & T3 & _).
        unfold cancel_inst in G. destruct (rcancel y) as [t|]; [|rewrite T3 in G; exists x; auto].
        destruct (nth_error (insts (stop_timer a2 (rretry y))) t) as [z|] eqn:Ez; [|rewrite T3 in G; exists x; auto].
        rewrite insts_seti in G. assert (Ht : t < length (insts (stop_timer a2 (rretry y)))) by (eapply nth_error_nth_len; eauto).
        destruct (Nat.eq_dec j t) as [->|Hne]; [rewrite nth_error_set_nth_same in G by exact Ht; inversion G; subst x; discriminate Hc|].
        rewrite nth_error_set_nth_other in G by exact Hne. rewrite T3 in G. exists x. auto. }
      destruct G0 as (x0 & Hx0 & Hc0' & E1 & E2). destruct (M2 j x0 Hx0 Hc0') as [R|L]; [right; rewrite <- E1, <- E2; auto | left; rewrite <- E2; auto].
    + split; [|exact C2]. intros j x Hx Hc. destruct (M2 j x Hx Hc) as [R|L]; [right | left]; auto.
Qed.

Lemma ctx_fold_MidR s0 c restart : forall ks a,
  W a -> InvC a -> kctx a = c -> (Nat.eqb (kctx s0) c = true -> kctx s0 = c) -> MidR s0 c ks a ->
  let a' := fold_left (ctx_key c (Nat.eqb (kctx s0) c) restart) ks a in
  MidR s0 c [] a' /\ InvC a' /\ kctx a' = c.
Proof.
  induction ks as [|k ks IH]; intros a HW HC Ek Hs HM; cbn [fold_left]; [auto|].
  destruct (ctx_key_MidR s0 c restart k ks a HW HC Ek Hs HM) as [M1 C1].
  apply IH; auto.
  - apply (Good_W a). now apply Good_ctx_key.
  - now rewrite kctx_ctx_key.
Qed.

Lemma IRC_set_context s c restart : W s -> IRC s -> IRC (set_context s c restart).
Proof.
  intros HW [HC HR]. unfold set_context. destruct (Nat.eqb (kctx s) c && negb restart); [split; assumption|].
  set (s1 := set_kctx s c).
  assert (W1 : W s1) by (apply (Good_W s); apply Good_ext; try reflexivity; exact HW).
  assert (C1 : InvC s1) by (revert HC; apply InvC_ext; reflexivity).
  assert (M1 : MidR s c (map fst (kmap s1)) s1).
  { intros j x Hx Hc. right. destruct (HR j x Hx Hc) as [A B]. split; [|auto].
    destruct HW as [_ HL]. destruct (HL j x Hx) as (_ & _ & _ & D). destruct (D Hc) as [D1 _]. eapply lookup_in_keys; eauto. }
  destruct (ctx_fold_MidR s c restart (map fst (kmap s1)) s1 W1 C1 eq_refl (fun E => proj1 (Nat.eqb_eq _ _) E) M1) as (M & C & K).
  split; [exact C|]. intros j x Hx Hc. destruct (M j x Hx Hc) as [[A B]|([] & _)]. rewrite K. auto.
Qed.

Lemma IRC_cancel_root s c : IRC s -> IRC (cancel_root s c).
Proof.
  intros [HC HR]. split; [now apply InvC_cancel_root|]. unfold cancel_root. destruct (Nat.eqb c 0); [exact HR|].
  intros j y Hy Hc. cbn [insts set_croots set_insts kctx] in *. destruct (nth_error_map_inv _ _ j y Hy) as (x & Hx & ->).
  destruct (Nat.eqb (iroot x) c); [discriminate Hc | exact (HR j x Hx Hc)].
Qed.

Theorem IRC_step s e : W s -> IRC s -> IRC (step repaired s e).
Proof.
  intros HW H. destruct (ordinary e) eqn:O; [now apply (PR_ordinary s e O)|].
  destruct e; try discriminate O; cbn [step]; [now apply IRC_set_context | | now apply IRC_cancel_root | revert H; apply PR_ext; reflexivity].
  unfold advance. revert H. apply PR_ext; reflexivity.
Qed.
Theorem run_IRC dl sc es : IRC (run repaired (init dl sc) es).
Proof.
  assert (G : forall es s, W s -> IRC s -> IRC (run repaired s es)).
  { induction es0 as [|e es0 IH]; intros s HW H; [exact H|]. cbn [run fold_left]. apply IH; [apply (Good_W s), Good_step, HW | now apply IRC_step]. }
  apply G; [apply init_W|]. split; intros [|j] x Hx; discriminate.
Qed.
