(* keyed: clauses 7/6 and 7/7 on the model's own observations.  A key that is registered in the model is never "gone" for the
   reference machine: it is in the reference table, and if its removal is pending and due, the callback of that very removal
   is parked (its timer has fired: no armed timer is due after the eager schedule, and the pending removal of a registered
   record is never a stopped timer or one whose callback has run).  An instance with a live context belongs to the record
   registered under its key, and so does every new instance. *)
From Util Require Import Common.Base Common.ListLemmas Keyed.Model Keyed.Spec Keyed.Proofs Keyed.AbsSpec Keyed.ProofsC06 Keyed.ProofsC07 Keyed.ProofsKeys Keyed.ProofsMon
  Keyed.ProofsMon2 Keyed.ProofsInc Keyed.ProofsMonAll Keyed.ProofsTimers Keyed.ProofsRef Keyed.ProofsRefSim Keyed.ProofsKI Keyed.ProofsRefStep.
Open Scope N_scope.

Lemma gone_false r s k rec : Reach s -> AD s -> RK r s -> lookup (kmap s) k = Some rec ->
  gone (r_keys r) (clock s) (map (tcode3 (timers s)) (fired_sorted (timers s))) (N.of_nat k) = false.
Proof.
  intros HR HA HK Hk. unfold gone. rewrite (rk_keys _ _ HK), n2n_of_nat. unfold KI. rewrite Hk. cbn [ki_pend].
  destruct (rremove (getr s rec)) as [t|] eqn:Er; [|reflexivity]. cbn [option_map].
  pose proof (Reach_J _ HR) as HJ. destruct (j_it _ HJ k rec t Hk Er) as (y & Hy & T1 & T2 & T3).
  assert (Ey : gett s t = y) by (unfold gett; now apply nth_error_nth). rewrite Ey.
  destruct (N.leb_spec (tdead y) (clock s)) as [L|L]; [|reflexivity]. cbn [andb]. apply negb_false_iff.
  assert (Ef : tst y = TFired) by (destruct T3 as [T3|T3]; [pose proof (HA t y Hy T3); lia | exact T3]).
  destruct (fired_sorted_spec (timers s)) as [_ FS].
  assert (In' : In t (fired_sorted (timers s))).
  { apply FS. split; [eapply nth_error_nth_len; eauto|]. rewrite (nth_error_nth _ _ timer0 Hy). unfold is_fired. now rewrite Ef. }
  unfold removal_parked. apply existsb_exists. exists (tcode3 (timers s) t). split; [now apply List.in_map|].
  unfold tcode3. rewrite (nth_error_nth _ _ timer0 Hy), T2. destruct (j_tk _ HJ t y Hy) as [_ Etk]. destruct (j_wk _ HJ k rec Hk) as [_ Erk].
  rewrite Etk, T1, Erk. cbn [nb nz N.eqb negb andb]. now rewrite !N.eqb_refl.
Qed.

Section Clauses.
  Variables (m : mst) (h : hst) (e : list N) (ev : ev) (rets : list N).
  Hypothesis Hh : HR h.
  Hypothesis Hrel : Rel m h.
  Hypothesis Hc : DecCase h e ev rets.
  Hypothesis HK' : RK (ref2 m e (pobs_of rets (next h ev) (hlog h))) (next h ev).

  Lemma clock_e : e_clock m e = clock (next h ev).
  Proof. destruct Hrel as [RC _ _ _ _]. destruct (RCfg_step m h e ev rets (pobs_of rets (next h ev) (hlog h)) Hc RC) as (_ & _ & C). exact C. Qed.
  Lemma Reach_next : Reach (next h ev). Proof. apply Reach_settle, Reach_step, Hh. Qed.

  Lemma not_gone k rec : lookup (kmap (next h ev)) k = Some rec ->
    gone (keys2_of m e (pobs_of rets (next h ev) (hlog h))) (e_clock m e) (po_tims (pobs_of rets (next h ev) (hlog h))) (N.of_nat k) = false.
  Proof.
    intros Hk. rewrite clock_e. cbn [po_tims pobs_of].
    exact (gone_false _ _ k rec Reach_next (AD_settle _) HK' Hk).
  Qed.

  Theorem c76_holds : c76 m e (pobs_of rets (next h ev) (hlog h)) = true.
  Proof.
    unfold c76. cbn [po_insts pobs_of]. apply forallb_nth. intros j x5 Hj.
    rewrite nth_error_map in Hj. destruct (nth_error (insts (next h ev)) j) as [x|] eqn:Ex; [|discriminate]. cbn [option_map] in Hj. inversion Hj; subst x5.
    unfold icode5. destruct (ipcv x) eqn:Ep; try reflexivity. destruct (icanc x) eqn:Ec; [reflexivity|].
    cbn [N.eqb negb nb nz orb]. replace (Pos.eqb 3 3) with true by reflexivity. cbn [negb orb].
    destruct (Reach_InvL _ Reach_next j x Ex) as (_ & _ & _ & D). destruct (D Ec) as [Hreg _].
    change (po_insts (pobs_of rets (next h ev) (hlog h))) with (map icode5 (insts (next h ev))).
    rewrite (not_gone _ _ Hreg). reflexivity.
  Qed.
  Theorem c77_holds : m_ninst m = length (insts (hs h)) -> c77 m e (pobs_of rets (next h ev) (hlog h)) = true.
  Proof.
    intros Hn. unfold c77, news_of. cbn [po_insts pobs_of]. rewrite Hn. apply forallb_nth. intros i x5 Hi.
    rewrite nth_error_skipn', nth_error_map in Hi. destruct (nth_error (insts (next h ev)) (length (insts (hs h)) + i)) as [x|] eqn:Ex; [|discriminate].
    cbn [option_map] in Hi. inversion Hi; subst x5. rewrite ikey_of_icode5.
    pose proof (next_StepK h ev (hr_reach _ Hh)) as HS.
    pose proof (sk_spawn _ _ HS _ x (Nat.le_add_r _ _) Ex) as Hreg.
    change (skipn (length (insts (hs h))) (map icode5 (insts (next h ev)))) with (skipn (length (insts (hs h))) (po_insts (pobs_of rets (next h ev) (hlog h)))).
    rewrite (not_gone _ _ Hreg). reflexivity.
  Qed.
End Clauses.
