(* keyed: the request-level reference machine of Spec.v ([r_request], [r_remove], [r_reset], [r_step]) taken alone: what
   its operations do to a key's entry, that its key table stays strictly sorted, and that an entry after a step is the
   entry before it (same data, same failed flag) or a freshly constructed one (not failed, a data value no earlier
   construction of the key had).  Association lists over N, sorting, and the encodings of key lists. *)
From Util Require Import Common.Base Common.ListLemmas Keyed.Model Keyed.Spec Keyed.Proofs Keyed.AbsSpec Keyed.ProofsC06 Keyed.ProofsMon Keyed.ProofsMon2
  Keyed.ProofsInc.
Open Scope N_scope.

(* ------------------------------------------------------------------ *)
(* association lists over N *)
Lemma alook_adel_same {A} (l : list (N * A)) k : alook (adel l k) k = None.
Proof.
  induction l as [|[k' v'] t IH]; cbn [adel alook]; [reflexivity|].
  destruct (N.eqb_spec k' k) as [->|Hn]; [exact IH|]. cbn [alook]. destruct (N.eqb_spec k' k); [contradiction | exact IH].
Qed.
Lemma alook_adel_other {A} (l : list (N * A)) k k2 : k2 <> k -> alook (adel l k) k2 = alook l k2.
Proof.
  intros Hne. induction l as [|[k' v'] t IH]; cbn [adel alook]; [reflexivity|].
  destruct (N.eqb_spec k' k) as [->|Hn].
  - destruct (N.eqb_spec k k2); [congruence | exact IH].
  - cbn [alook]. destruct (N.eqb_spec k' k2); [reflexivity | exact IH].
Qed.
Lemma alook_In {A} (l : list (N * A)) k v : alook l k = Some v -> In k (map fst l).
Proof.
  induction l as [|[k' v'] t IH]; cbn [alook map fst]; [discriminate|].
  destruct (N.eqb_spec k' k) as [->|Hne]; [now left | right; auto].
Qed.
Lemma alook_notin {A} (l : list (N * A)) k : ~ In k (map fst l) -> alook l k = None.
Proof.
  induction l as [|[k' v] t IH]; cbn [alook map fst]; [reflexivity|]. intros H.
  destruct (N.eqb_spec k' k) as [->|Hne]; [exfalso; apply H; now left | apply IH; intros X; apply H; now right].
Qed.
Lemma In_alook {A} (l : list (N * A)) k : In k (map fst l) -> exists v, alook l k = Some v.
Proof.
  induction l as [|[k' v'] t IH]; cbn [alook map fst]; [intros []|].
  destruct (N.eqb_spec k' k) as [->|Hne]; [eauto|]. intros [E|H]; [contradiction | auto].
Qed.

Fixpoint asorted (l : list N) : Prop := match l with [] => True | h :: t => Forall (N.lt h) t /\ asorted t end.
Lemma asorted_NoDup l : asorted l -> NoDup l.
Proof.
  induction l as [|h t IH]; intros H; [constructor|]. destruct H as [Hh Ht]. constructor; [|now apply IH].
  intros X. rewrite Forall_forall in Hh. specialize (Hh h X). lia.
Qed.
Lemma asorted_ext l1 : forall l2, asorted l1 -> asorted l2 -> (forall k, In k l1 <-> In k l2) -> l1 = l2.
Proof.
  induction l1 as [|h1 t1 IH]; intros [|h2 t2] S1 S2 H; [reflexivity | | |].
  - exfalso. apply (H h2). now left.
  - exfalso. apply (H h1). now left.
  - destruct S1 as [F1 S1]. destruct S2 as [F2 S2]. rewrite Forall_forall in F1, F2.
    assert (E : h1 = h2).
    { destruct (proj1 (H h1) (or_introl eq_refl)) as [E|I1]; [now symmetry|].
      destruct (proj2 (H h2) (or_introl eq_refl)) as [E|I2]; [exact E|]. specialize (F1 _ I2). specialize (F2 _ I1). lia. }
    subst h2. f_equal. apply IH; auto. intros k. split; intros I.
    + destruct (proj1 (H k) (or_intror I)) as [E|X]; [|exact X]. subst k. specialize (F1 _ I). lia.
    + destruct (proj2 (H k) (or_intror I)) as [E|X]; [|exact X]. subst k. specialize (F2 _ I). lia.
Qed.

Lemma Forall_keys_aset {A} (P : N -> Prop) (l : list (N * A)) k v : Forall P (map fst l) -> P k -> Forall P (map fst (aset l k v)).
Proof.
  induction l as [|[k' v'] t IH]; intros Hl Hk; cbn [aset map fst]; [auto|]. inversion Hl; subst.
  destruct (N.eqb k' k); [cbn [map fst]; auto|]. destruct (N.ltb k k'); cbn [map fst]; auto.
Qed.
Lemma Forall_keys_adel {A} (P : N -> Prop) (l : list (N * A)) k : Forall P (map fst l) -> Forall P (map fst (adel l k)).
Proof. induction l as [|[k' v'] t IH]; intros Hl; cbn [adel map fst]; [auto|]. inversion Hl; subst. destruct (N.eqb k' k); cbn [map fst]; auto. Qed.
Lemma asorted_aset {A} (l : list (N * A)) k v : asorted (map fst l) -> asorted (map fst (aset l k v)).
Proof.
  induction l as [|[k' v'] t IH]; intros Hs; cbn [aset map fst]; [cbn; auto|]. cbn [map fst asorted] in Hs. destruct Hs as [Hh Ht].
  destruct (N.eqb_spec k' k) as [->|Hne]; [cbn; auto|].
  destruct (N.ltb_spec k k') as [Hlt|Hge].
  - cbn [map fst asorted]. split; [|split; assumption]. constructor; [exact Hlt|]. eapply Forall_impl; [|exact Hh]. intros; lia.
  - cbn [map fst asorted]. split; [apply Forall_keys_aset; [exact Hh | lia] | auto].
Qed.
Lemma asorted_adel {A} (l : list (N * A)) k : asorted (map fst l) -> asorted (map fst (adel l k)).
Proof.
  induction l as [|[k' v'] t IH]; intros Hs; cbn [adel map fst]; [exact I|]. cbn [map fst asorted] in Hs. destruct Hs as [Hh Ht].
  destruct (N.eqb k' k); [auto|]. cbn [map fst asorted]. split; [now apply Forall_keys_adel | auto].
Qed.
Lemma keys_aset_present {A} (l : list (N * A)) k v : asorted (map fst l) -> ahas l k = true -> map fst (aset l k v) = map fst l.
Proof.
  unfold ahas. induction l as [|[k' v'] t IH]; cbn [alook aset map fst asorted]; [discriminate|]. intros [Hh Ht].
  destruct (N.eqb_spec k' k) as [->|Hne]; [reflexivity|]. intros H.
  destruct (N.ltb_spec k k') as [Hlt|Hge].
  - exfalso. destruct (alook t k) as [w|] eqn:E; [|discriminate]. apply alook_In in E. rewrite Forall_forall in Hh. specialize (Hh k E). lia.
  - cbn [map fst]. now rewrite IH.
Qed.

(* ------------------------------------------------------------------ *)
(* nat keys and N keys *)
Lemma n2n_inj a b : n2n a = n2n b -> a = b. Proof. apply Nnat.N2Nat.inj. Qed.
Lemma of_nat_lt a b : (a < b)%nat -> N.of_nat a < N.of_nat b. Proof. lia. Qed.
Lemma asorted_of_nat l : ssorted l -> asorted (map N.of_nat l).
Proof.
  induction l as [|h t IH]; intros H; [exact I|]. destruct H as [Hh Ht]. cbn [map asorted]. split; [|auto].
  apply Forall_forall. intros x Hx. apply in_map_iff in Hx as (y & <- & Hy). rewrite Forall_forall in Hh. apply of_nat_lt, Hh, Hy.
Qed.
Lemma In_of_nat k l : In k (map N.of_nat l) <-> In (n2n k) l.
Proof.
  split; intros H.
  - apply in_map_iff in H as (y & <- & Hy). now rewrite n2n_of_nat.
  - apply in_map_iff. exists (n2n k). split; [apply N_of_n2n | exact H].
Qed.
Lemma nmem_In k l : nmem k l = true <-> In k l.
Proof.
  unfold nmem. rewrite existsb_exists. split.
  - intros [x [Hx E]]. apply N.eqb_eq in E. now subst.
  - intros H. exists k. split; [exact H | apply N.eqb_refl].
Qed.
Lemma nmem_false k l : nmem k l = false <-> ~ In k l.
Proof. rewrite <- nmem_In. destruct (nmem k l); split; intros H; try discriminate; auto. exfalso; now apply H. Qed.

(* insertion sort: a permutation that is strictly sorted when the input has no duplicates *)
Lemma In_ins_N k x l : In x (ins_N k l) <-> x = k \/ In x l.
Proof.
  induction l as [|h t IH]; cbn [ins_N]; [cbn; intuition|]. destruct (N.leb k h); cbn [In]; [intuition|]. rewrite IH. intuition.
Qed.
Lemma In_sort_N x l : In x (sort_N l) <-> In x l.
Proof. induction l as [|h t IH]; [reflexivity|]. cbn [sort_N fold_right]. fold (sort_N t). rewrite In_ins_N, IH. cbn [In]. intuition. Qed.
Lemma Forall_ins_N (P : N -> Prop) k l : P k -> Forall P l -> Forall P (ins_N k l).
Proof. intros Hk Hl. apply Forall_forall. intros x Hx. apply In_ins_N in Hx as [->|Hx]; [exact Hk|]. rewrite Forall_forall in Hl. auto. Qed.
Lemma asorted_ins_N k l : asorted l -> ~ In k l -> asorted (ins_N k l).
Proof.
  induction l as [|h t IH]; intros Hs Hn; cbn [ins_N]; [cbn; auto|]. destruct Hs as [Hh Ht].
  destruct (N.leb_spec k h) as [L|L].
  - cbn [asorted]. split; [|split; assumption].
    assert (k < h) by (destruct (N.eq_dec k h) as [->|]; [exfalso; apply Hn; now left | lia]).
    constructor; [assumption|]. eapply Forall_impl; [|exact Hh]. intros; lia.
  - cbn [asorted]. split; [apply Forall_ins_N; [lia | exact Hh]|]. apply IH; [exact Ht|]. intros X. apply Hn. now right.
Qed.
Lemma asorted_sort_N l : NoDup l -> asorted (sort_N l).
Proof.
  induction l as [|h t IH]; intros H; [exact I|]. inversion H; subst. cbn [sort_N fold_right]. fold (sort_N t).
  apply asorted_ins_N; [auto|]. now rewrite In_sort_N.
Qed.
Lemma length_ins_N k l : length (ins_N k l) = S (length l).
Proof. induction l as [|h t IH]; cbn [ins_N length]; [reflexivity|]. destruct (N.leb k h); cbn [length]; now rewrite ?IH. Qed.
Lemma length_sort_N l : length (sort_N l) = length l.
Proof. induction l as [|h t IH]; [reflexivity|]. cbn [sort_N fold_right]. fold (sort_N t). now rewrite length_ins_N, IH. Qed.

Lemma In_ins_nat k x l : In x (ins_nat k l) <-> x = k \/ In x l.
Proof.
  induction l as [|h t IH]; cbn [ins_nat]; [cbn; intuition|]. destruct (Nat.leb k h); cbn [In]; [intuition|]. rewrite IH. intuition.
Qed.
Lemma In_sort_nat x l : In x (sort_nat l) <-> In x l.
Proof. induction l as [|h t IH]; [reflexivity|]. cbn [sort_nat fold_right]. fold (sort_nat t). rewrite In_ins_nat, IH. cbn [In]. intuition. Qed.
Lemma Forall_ins_nat (P : nat -> Prop) k l : P k -> Forall P l -> Forall P (ins_nat k l).
Proof. intros Hk Hl. apply Forall_forall. intros x Hx. apply In_ins_nat in Hx as [->|Hx]; [exact Hk|]. rewrite Forall_forall in Hl. auto. Qed.
Lemma ssorted_ins_nat k l : ssorted l -> ~ In k l -> ssorted (ins_nat k l).
Proof.
  induction l as [|h t IH]; intros Hs Hn; cbn [ins_nat]; [cbn; auto|]. destruct Hs as [Hh Ht].
  destruct (Nat.leb_spec k h) as [L|L].
  - cbn [ssorted]. split; [|split; assumption].
    assert (k < h)%nat by (destruct (Nat.eq_dec k h) as [->|]; [exfalso; apply Hn; now left | lia]).
    constructor; [assumption|]. eapply Forall_impl; [|exact Hh]. intros; lia.
  - cbn [ssorted]. split; [apply Forall_ins_nat; [lia | exact Hh]|]. apply IH; [exact Ht|]. intros X. apply Hn. now right.
Qed.
Lemma ssorted_sort_nat l : NoDup l -> ssorted (sort_nat l).
Proof.
  induction l as [|h t IH]; intros H; [exact I|]. inversion H; subst. cbn [sort_nat fold_right]. fold (sort_nat t).
  apply ssorted_ins_nat; [auto|]. now rewrite In_sort_nat.
Qed.

(* the two encodings of a key set agree *)
Lemma enc_keys_list la lr : NoDup la -> NoDup lr -> (forall k, In k lr <-> In (n2n k) la) -> enc_keys la = enc_list lr.
Proof.
  intros Na Nr H.
  assert (E : map N.of_nat (sort_nat la) = sort_N lr).
  { apply asorted_ext; [apply asorted_of_nat, ssorted_sort_nat, Na | apply asorted_sort_N, Nr|].
    intros k. rewrite In_of_nat, In_sort_nat, In_sort_N. symmetry. apply H. }
  unfold enc_keys, enc_list. rewrite E. f_equal.
  rewrite <- (length_sort_nat la), <- (map_length N.of_nat), E, length_sort_N. reflexivity.
Qed.

Lemma NoDup_dedup l : NoDup (dedup l).
Proof.
  induction l as [|h t IH]; [constructor|]. cbn [dedup]. destruct (nmem h t) eqn:E; [exact IH|]. constructor; [|exact IH].
  assert (G : forall x l0, In x (dedup l0) -> In x l0).
  { clear. intros x l0. induction l0 as [|a l0 IH]; [auto|]. cbn [dedup]. destruct (nmem a l0); cbn [In]; intuition. }
  intros X. apply G in X. apply nmem_false in E. contradiction.
Qed.
Lemma In_dedup x l : In x (dedup l) <-> In x l.
Proof.
  induction l as [|h t IH]; [reflexivity|]. cbn [dedup]. destruct (nmem h t) eqn:E.
  - rewrite IH. cbn [In]. apply nmem_In in E. split; [auto|]. intros [<-|X]; auto.
  - cbn [In]. rewrite IH. reflexivity.
Qed.
Lemma NoDup_filter {A} (f : A -> bool) l : NoDup l -> NoDup (filter f l).
Proof.
  induction l as [|h t IH]; intros H; [constructor|]. inversion H; subst. cbn [filter]. destruct (f h); [|auto].
  constructor; [|auto]. intros X. apply filter_In in X as [X _]. contradiction.
Qed.

(* ------------------------------------------------------------------ *)
(* the operations of the reference machine *)
Definition ctorN (r : rst) (k : N) : N := match alook (r_ctor r) k with Some c => c | None => 0 end.
Definition fresh_d (r : rst) (k : N) : N := k * 1000 + (ctorN r k + 1).
Definition no_pend (i : Spec.kinfo) : Spec.kinfo := {| ki_data := ki_data i; ki_pend := None; ki_failed := ki_failed i |}.
Definition fresh_i (r : rst) (k : N) : Spec.kinfo := {| ki_data := fresh_d r k; ki_pend := None; ki_failed := false |}.

Lemma r_construct_spec r k :
  snd (r_construct r k) = fresh_d r k /\ r_keys (fst (r_construct r k)) = r_keys r /\
  (forall k', ctorN (fst (r_construct r k)) k' = if N.eqb k' k then ctorN r k + 1 else ctorN r k') /\
  r_refs (fst (r_construct r k)) = r_refs r /\ r_rels (fst (r_construct r k)) = r_rels r.
Proof.
  unfold r_construct, fresh_d, ctorN. cbn [fst snd r_keys r_ctor r_refs r_rels]. repeat split.
  - destruct (alook (r_ctor r) k); f_equal; lia.
  - intros k'. destruct (N.eqb_spec k' k) as [->|Hne].
    + rewrite alook_aset_same. destruct (alook (r_ctor r) k); lia.
    + now rewrite alook_aset_other.
Qed.

Lemma r_request_spec r k :
  (forall k', alook (r_keys (fst (r_request r k))) k' =
     if N.eqb k' k then Some (match alook (r_keys r) k with Some i => no_pend i | None => fresh_i r k end) else alook (r_keys r) k') /\
  snd (r_request r k) = match alook (r_keys r) k with Some i => (ki_data i, true) | None => (fresh_d r k, false) end /\
  (forall k', ctorN (fst (r_request r k)) k' = if N.eqb k' k && negb (ahas (r_keys r) k) then ctorN r k + 1 else ctorN r k') /\
  (asorted (map fst (r_keys r)) -> asorted (map fst (r_keys (fst (r_request r k))))).
Proof.
  unfold r_request, ahas. destruct (alook (r_keys r) k) as [i|] eqn:E.
  - cbn [fst snd r_keys set_r_keys]. repeat split.
    + intros k'. destruct (N.eqb_spec k' k) as [->|Hne]; [apply alook_aset_same | now apply alook_aset_other].
    + intros k'. rewrite andb_false_r. reflexivity.
    + apply asorted_aset.
  - destruct (r_construct_spec r k) as (C1 & C2 & C3 & _). destruct (r_construct r k) as [r1 d]. cbn [fst snd] in *. subst d.
    cbn [fst snd r_keys set_r_keys]. rewrite C2. repeat split.
    + intros k'. destruct (N.eqb_spec k' k) as [->|Hne]; [apply alook_aset_same | now apply alook_aset_other].
    + intros k'. rewrite andb_true_r. apply C3.
    + apply asorted_aset.
Qed.

Definition rm_entry (dl clk : N) (i : Spec.kinfo) : option Spec.kinfo :=
  match ki_pend i with
  | Some _ => Some i
  | None => if N.eqb dl 0 || ki_failed i then None else Some {| ki_data := ki_data i; ki_pend := Some (clk + dl); ki_failed := ki_failed i |}
  end.
Lemma r_remove_spec dl clk r k :
  (forall k', alook (r_keys (fst (r_remove dl clk r k))) k' =
     if N.eqb k' k then match alook (r_keys r) k with Some i => rm_entry dl clk i | None => None end else alook (r_keys r) k') /\
  snd (r_remove dl clk r k) = ahas (r_keys r) k /\
  r_ctor (fst (r_remove dl clk r k)) = r_ctor r /\
  (asorted (map fst (r_keys r)) -> asorted (map fst (r_keys (fst (r_remove dl clk r k))))).
Proof.
  unfold r_remove, ahas, rm_entry. destruct (alook (r_keys r) k) as [i|] eqn:E.
  - destruct (ki_pend i) eqn:Ep.
    + cbn [fst snd]. repeat split; auto. intros k'. destruct (N.eqb_spec k' k) as [->|Hne]; [exact E | reflexivity].
    + destruct (N.eqb dl 0 || ki_failed i); cbn [fst snd r_keys r_ctor set_r_keys]; repeat split.
      * intros k'. destruct (N.eqb_spec k' k) as [->|Hne]; [apply alook_adel_same | now apply alook_adel_other].
      * apply asorted_adel.
      * intros k'. destruct (N.eqb_spec k' k) as [->|Hne]; [apply alook_aset_same | now apply alook_aset_other].
      * apply asorted_aset.
  - cbn [fst snd]. repeat split; auto. intros k'. destruct (N.eqb_spec k' k) as [->|Hne]; [exact E | reflexivity].
Qed.

Lemma r_reset_spec r k :
  (forall k', alook (r_keys (r_reset r k)) k' = if N.eqb k' k then Some (fresh_i r k) else alook (r_keys r) k') /\
  (forall k', ctorN (r_reset r k) k' = if N.eqb k' k then ctorN r k + 1 else ctorN r k') /\
  (asorted (map fst (r_keys r)) -> asorted (map fst (r_keys (r_reset r k)))).
Proof.
  unfold r_reset. destruct (r_construct_spec r k) as (C1 & C2 & C3 & _). destruct (r_construct r k) as [r1 d]. cbn [fst snd] in *. subst d.
  cbn [r_keys set_r_keys]. rewrite C2. repeat split.
  - intros k'. destruct (N.eqb_spec k' k) as [->|Hne]; [apply alook_aset_same | now apply alook_aset_other].
  - exact C3.
  - apply asorted_aset.
Qed.
Lemma set_r_keys_ctorN r x k : ctorN (set_r_keys r x) k = ctorN r k. Proof. reflexivity. Qed.
Lemma set_r_refs_ctorN r x k : ctorN (set_r_refs r x) k = ctorN r k. Proof. reflexivity. Qed.
Lemma r_remove_ctorN dl clk r k k' : ctorN (fst (r_remove dl clk r k)) k' = ctorN r k'.
Proof. unfold ctorN. destruct (r_remove_spec dl clk r k) as (_ & _ & E & _). now rewrite E. Qed.

(* ------------------------------------------------------------------ *)
(* an entry after a step: the old entry (data and failed flag), or a fresh one *)
Definition StepF (r r' : rst) : Prop :=
  (forall k, ctorN r k <= ctorN r' k) /\
  forall k i', alook (r_keys r') k = Some i' ->
    (exists i, alook (r_keys r) k = Some i /\ ki_data i' = ki_data i /\ ki_failed i' = ki_failed i) \/
    (ki_failed i' = false /\ exists c, ctorN r k < c /\ c <= ctorN r' k /\ ki_data i' = k * 1000 + c).
Lemma StepF_refl r : StepF r r.
Proof. split; [intros; lia|]. intros k i' H. left. eauto. Qed.
Lemma StepF_trans r r1 r2 : StepF r r1 -> StepF r1 r2 -> StepF r r2.
Proof.
  intros [A1 A2] [B1 B2]. split; [intros k; specialize (A1 k); specialize (B1 k); lia|].
  intros k i2 H2. destruct (B2 k i2 H2) as [(i1 & H1 & D1 & F1)|(F & c & C1 & C2 & C3)].
  - destruct (A2 k i1 H1) as [(i & H & D & F)|(F & c & C1 & C2 & C3)].
    + left. exists i. repeat split; congruence.
    + right. split; [congruence|]. exists c. specialize (B1 k). repeat split; try lia; try congruence.
  - right. split; [exact F|]. exists c. specialize (A1 k). repeat split; try lia; try exact C3.
Qed.
Lemma StepF_request r k : StepF r (fst (r_request r k)).
Proof.
  destruct (r_request_spec r k) as (L & _ & C & _). split.
  - intros k'. rewrite C. destruct (N.eqb_spec k' k) as [->|]; cbn [andb]; [destruct (negb _)|]; lia.
  - intros k' i' H. rewrite L in H. destruct (N.eqb_spec k' k) as [->|Hne]; [|left; eauto]. inversion H; subst i'. clear H.
    rewrite C, N.eqb_refl. unfold ahas. destruct (alook (r_keys r) k) as [i|] eqn:E; cbn [andb negb].
    + left. exists i. repeat split.
    + right. split; [reflexivity|]. exists (ctorN r k + 1). repeat split; lia.
Qed.
Lemma StepF_remove dl clk r k : StepF r (fst (r_remove dl clk r k)).
Proof.
  destruct (r_remove_spec dl clk r k) as (L & _ & _ & _). split; [intros k'; rewrite r_remove_ctorN; lia|].
  intros k' i' H. rewrite L in H. destruct (N.eqb_spec k' k) as [->|Hne]; [|left; eauto].
  destruct (alook (r_keys r) k) as [i|] eqn:E; [|discriminate]. unfold rm_entry in H. left. exists i. split; [reflexivity|].
  destruct (ki_pend i); [inversion H; auto|]. destruct (N.eqb dl 0 || ki_failed i); [discriminate|]. inversion H; subst i'. auto.
Qed.
Lemma StepF_reset r k : StepF r (r_reset r k).
Proof.
  destruct (r_reset_spec r k) as (L & C & _). split.
  - intros k'. rewrite C. destruct (N.eqb_spec k' k) as [->|]; lia.
  - intros k' i' H. rewrite L in H. destruct (N.eqb_spec k' k) as [->|Hne]; [|left; eauto]. inversion H; subst i'. clear H.
    right. split; [reflexivity|]. exists (ctorN r k + 1). rewrite C, N.eqb_refl. repeat split; lia.
Qed.
Lemma StepF_fold {A} (f : rst -> A -> rst) : (forall r a, StepF r (f r a)) -> forall l r, StepF r (fold_left f l r).
Proof. intros H l. induction l as [|a l IH]; intros r; cbn [fold_left]; [apply StepF_refl | eapply StepF_trans; [apply H | apply IH]]. Qed.
Lemma StepF_same r r' : r_keys r' = r_keys r -> r_ctor r' = r_ctor r -> StepF r r'.
Proof. intros E1 E2. unfold StepF, ctorN. rewrite E1, E2. apply StepF_refl. Qed.
Lemma StepF_refs r x : StepF r (set_r_refs r x). Proof. now apply StepF_same. Qed.
Lemma StepF_delete r k : StepF r (set_r_keys r (adel (r_keys r) k)).
Proof.
  split; [intros; rewrite set_r_keys_ctorN; lia|]. intros k' i' H. cbn [r_keys set_r_keys] in H.
  destruct (N.eq_dec k' k) as [->|Hne]; [rewrite alook_adel_same in H; discriminate|]. rewrite alook_adel_other in H by exact Hne. left. eauto.
Qed.
Lemma StepF_release_remove dl clk r k : StepF r (r_release_remove dl clk r k).
Proof. unfold r_release_remove. destruct (Nat.eqb _ 0); [apply StepF_remove | apply StepF_refl]. Qed.


Ltac dm := repeat match goal with |- context [match ?l with _ => _ end] => is_var l; match type of l with rst => fail 1 | bool => fail 1 | _ => destruct l end end.
Ltac sf_cases := repeat match goal with
  | |- StepF _ (fst (match ?x with _ => _ end)) => destruct x
  | |- StepF _ (fst (if ?x then _ else _)) => destruct x
  end; cbn [fst].
Theorem StepF_r_step dl clk ctx tims late present r e : StepF r (fst (r_step dl clk ctx tims late present r e)).
Proof.
  unfold r_step. dm; try apply StepF_refl.
  - (* 11 *) destruct (nth_error (r_refs r) (n2n n)) as [x|]; [|apply StepF_refl]. destruct (rr_rel x); [apply StepF_refl | now apply StepF_same].
  - (* 7 *) destruct (ahas (r_keys r) n); apply StepF_refl.
  - (* 13 *) match goal with |- context [r_remove dl clk ?r0 n] => pose proof (StepF_remove dl clk r0 n) as G; destruct (r_remove dl clk r0 n) as [r' ex] end.
    cbn [fst] in *. eapply StepF_trans; [apply StepF_refs | exact G].
  - (* 3 *) pose proof (StepF_remove dl clk r n) as G. destruct (r_remove dl clk r n) as [r' ex]. exact G.
  - (* 18 *) destruct (nth_error tims (n2n n)) as [[[kind k] dead]|]; [|apply StepF_refl]. destruct (nz kind); [|apply StepF_refl].
    destruct (alook (r_keys r) k) as [i|]; [|apply StepF_refl]. destruct (ki_pend i); [|apply StepF_refl].
    destruct (_ && _); [apply StepF_delete | apply StepF_refl].
  - (* 10 *) pose proof (StepF_request r n) as G. destruct (r_request r n) as [r' [d ex]]. cbn [fst] in *. eapply StepF_trans; [exact G | apply StepF_refs].
  - (* 6 *) destruct (ahas (r_keys r) n); [|apply StepF_refl]. destruct (cond_ok n0 n); [apply StepF_reset | apply StepF_refl].
  - (* 20 *) destruct (nth_error (r_rels r) (n2n n)) as [f|]; [|apply StepF_refl]. destruct (nth_error (r_refs r) f) as [x|]; [|apply StepF_refl].
    apply StepF_release_remove.
  - (* 12 *) destruct (nth_error (r_rels r) (n2n n)) as [f|]; [|apply StepF_refl]. destruct (nth_error (r_refs r) f) as [x|]; [|apply StepF_refl].
    destruct (rr_cnt x); [|apply StepF_refl]. destruct late; cbn [fst]; [apply StepF_refs|]. eapply StepF_trans; [apply StepF_refs | apply StepF_release_remove].
  - (* 8 *) cbn [fst]. apply (StepF_fold r_reset). intros; apply StepF_reset.
  - (* 4 *) cbn [fst]. eapply StepF_trans; [apply (StepF_fold (fun r0 k => fst (r_request r0 k))); intros; apply StepF_request|].
    apply (StepF_fold (fun r0 k => fst (r_remove dl clk r0 k))). intros; apply StepF_remove.
  - (* 2 *) pose proof (StepF_request r n) as G. destruct (r_request r n) as [r' [d ex]]. exact G.
Qed.

(* ------------------------------------------------------------------ *)
(* the failed flags *)
Definition with_failed (b : bool) (i : Spec.kinfo) : Spec.kinfo := {| ki_data := ki_data i; ki_pend := ki_pend i; ki_failed := b |}.
Lemma set_failed_spec b keys k : asorted (map fst keys) ->
  (forall k', alook (set_failed b keys k) k' = if N.eqb k' k then option_map (with_failed b) (alook keys k) else alook keys k') /\
  map fst (set_failed b keys k) = map fst keys.
Proof.
  intros Hs. unfold set_failed. destruct (alook keys k) as [i|] eqn:E.
  - split; [|apply keys_aset_present; [exact Hs | unfold ahas; now rewrite E]].
    intros k'. destruct (N.eqb_spec k' k) as [->|Hne]; [apply alook_aset_same | now apply alook_aset_other].
  - split; [|reflexivity]. intros k'. destruct (N.eqb_spec k' k) as [->|Hne]; [exact E | reflexivity].
Qed.
Lemma set_failed_fold b : forall ks keys, asorted (map fst keys) ->
  (forall k', alook (fold_left (set_failed b) ks keys) k' = if nmem k' ks then option_map (with_failed b) (alook keys k') else alook keys k') /\
  map fst (fold_left (set_failed b) ks keys) = map fst keys.
Proof.
  induction ks as [|k ks IH]; intros keys Hs; cbn [fold_left]; [split; reflexivity|].
  destruct (set_failed_spec b keys k Hs) as [A B]. destruct (IH (set_failed b keys k)) as [C D]; [now rewrite B|].
  split; [|congruence]. intros k'. rewrite C, A. unfold nmem. cbn [existsb]. fold (nmem k' ks).
  destruct (N.eqb_spec k' k) as [->|Hne]; cbn [orb].
  - destruct (nmem k ks); [|reflexivity]. destruct (alook keys k); reflexivity.
  - reflexivity.
Qed.
Lemma delta_failed_spec keys k d o : asorted (map fst keys) ->
  (forall k', alook (delta_failed keys (k, d, o)) k' =
     if N.eqb k' k && match alook keys k with Some i => N.eqb (ki_data i) d | None => false end
     then option_map (with_failed (nz o)) (alook keys k) else alook keys k') /\
  map fst (delta_failed keys (k, d, o)) = map fst keys.
Proof.
  intros Hs. unfold delta_failed. destruct (alook keys k) as [i|] eqn:E.
  - destruct (N.eqb (ki_data i) d).
    + destruct (set_failed_spec (nz o) keys k Hs) as [A B]. split; [|exact B]. intros k'. rewrite A, andb_true_r, E. reflexivity.
    + split; [|reflexivity]. intros k'. now rewrite andb_false_r.
  - split; [|reflexivity]. intros k'. now rewrite andb_false_r.
Qed.
