(* keyed, C06: the reference specification of the key set.
   State: key |-> (data, token of the pending delayed removal if any), constructor counts, a counter of timer
   tokens, and the reference layer of KeyedRefCount.  A token is the identity of one time.AfterFunc timer; its deadline
   is fixed when it is created (clock + release delay).  Every API call's return values are a function of this state.
   The bits a call needs from the routines ("has the key's routine failed", "how many retry timers were armed") are
   arguments of the abstract events.  No proofs in this file. *)
From Util Require Import Common.Base Common.ListLemmas Keyed.Model.

Definition aval := (N * option nat)%type.
Record ast := { a_keys : list (nat * aval); a_ctors : list (nat * nat); a_ntok : nat; a_refs : list ref; a_rels : list relc }.
Definition a_init : ast := {| a_keys := []; a_ctors := []; a_ntok := 0; a_refs := []; a_rels := [] |}.

Definition set_a_keys (a : ast) (x : list (nat * aval)) : ast :=
  {| a_keys := x; a_ctors := a_ctors a; a_ntok := a_ntok a; a_refs := a_refs a; a_rels := a_rels a |}.
Definition set_a_refs (a : ast) (x : list ref) : ast :=
  {| a_keys := a_keys a; a_ctors := a_ctors a; a_ntok := a_ntok a; a_refs := x; a_rels := a_rels a |}.
Definition set_a_rels (a : ast) (x : list relc) : ast :=
  {| a_keys := a_keys a; a_ctors := a_ctors a; a_ntok := a_ntok a; a_refs := a_refs a; a_rels := x |}.
Definition bump (a : ast) (n : nat) : ast :=
  {| a_keys := a_keys a; a_ctors := a_ctors a; a_ntok := a_ntok a + n; a_refs := a_refs a; a_rels := a_rels a |}.

(* a request for key k (SetKey, SyncKeys with k, AddKeyRef): the key is present afterwards with no removal pending;
   returns (data, existed) *)
Definition a_request (a : ast) (k : nat) : ast * (N * bool) :=
  match lookup (a_keys a) k with
  | Some (d, _) => (set_a_keys a (insert (a_keys a) k (d, None)), (d, true))
  | None =>
    let c := S (match lookup (a_ctors a) k with Some c => c | None => 0 end) in
    let d := (N.of_nat k * 1000 + N.of_nat c)%N in
    ({| a_keys := insert (a_keys a) k (d, None); a_ctors := insert (a_ctors a) k c; a_ntok := a_ntok a;
        a_refs := a_refs a; a_rels := a_rels a |}, (d, false))
  end.

(* a removal request (RemoveKey, SyncKeys without k, the last Release, KeyedRefCount.RemoveKey); now = there is no
   release delay or the key's routine has failed; returns existed *)
Definition a_remove (a : ast) (k : nat) (now : bool) : ast * bool :=
  match lookup (a_keys a) k with
  | None => (a, false)
  | Some (d, Some _) => (a, true)
  | Some (d, None) =>
    if now then (set_a_keys a (delete (a_keys a) k), true)
    else ({| a_keys := insert (a_keys a) k (d, Some (a_ntok a)); a_ctors := a_ctors a; a_ntok := S (a_ntok a);
             a_refs := a_refs a; a_rels := a_rels a |}, true)
  end.

(* the callback of removal token t, created for key k: it removes the key iff t is still the key's pending removal *)
Definition a_callback (a : ast) (k t : nat) : ast :=
  match lookup (a_keys a) k with
  | Some (_, Some t') => if Nat.eqb t' t then set_a_keys a (delete (a_keys a) k) else a
  | _ => a
  end.

Definition a_add_ref (a : ast) (k : nat) : ast * (N * bool) :=
  let '(a1, res) := a_request a k in
  (set_a_refs a1 (a_refs a1 ++ [{| fkey := k; frel := false; fin := true |}]), res).
Definition a_release_start (a : ast) (f : nat) : ast :=
  match nth_error (a_refs a) f with
  | Some x => if frel x then a
              else set_a_rels (set_a_refs a (set_nth (a_refs a) f {| fkey := fkey x; frel := true; fin := fin x |}))
                              (a_rels a ++ [{| lref := f; lparked := true |}])
  | None => a
  end.
Definition a_release_section (a : ast) (i : nat) (now : nat -> bool) : ast :=
  match nth_error (a_rels a) i with
  | Some l =>
    if lparked l then
      let a1 := set_a_rels a (set_nth (a_rels a) i {| lref := lref l; lparked := false |}) in
      match nth_error (a_refs a1) (lref l) with
      | Some x =>
        if fin x then
          let a2 := set_a_refs a1 (set_nth (a_refs a1) (lref l) {| fkey := fkey x; frel := frel x; fin := false |}) in
          if Nat.eqb (cnt (live_ref (fkey x)) (a_refs a2)) 0 then fst (a_remove a2 (fkey x) (now (fkey x))) else a2
        else a1
      | None => a1
      end
    else a
  | None => a
  end.
Definition a_rc_remove (a : ast) (k : nat) (now : bool) : ast * bool :=
  let a1 := set_a_refs a (map (fun x => if live_ref k x then {| fkey := fkey x; frel := true; fin := false |} else x) (a_refs a)) in
  a_remove a1 k now.

(* SyncKeys: the requests, then the removal requests for every other present key *)
Definition a_sync_one (acc : ast * list nat * list nat) (k : nat) : ast * list nat * list nat :=
  let '(a, seen, added) := acc in
  if mem k seen then acc
  else let '(a1, (_, ex)) := a_request a k in (a1, k :: seen, if ex then added else added ++ [k]).
Definition a_sync_rm (keys : list nat) (now : nat -> bool) (acc : ast * list nat) (k : nat) : ast * list nat :=
  let '(a, removed) := acc in
  if mem k keys then acc else (fst (a_remove a k (now k)), removed ++ [k]).
Definition a_sync (a : ast) (keys : list nat) (now : nat -> bool) : ast * (list nat * list nat) :=
  let '(a1, _, added) := fold_left a_sync_one keys (a, [], []) in
  let '(a2, removed) := fold_left (a_sync_rm keys now) (map fst (a_keys a1)) (a1, []) in
  (a2, (added, removed)).

Definition a_get_key (a : ast) (k : nat) : N * bool :=
  match lookup (a_keys a) k with Some (d, _) => (d, true) | None => (0%N, false) end.
Definition a_keys_with_data (a : ast) : list (nat * N) := map (fun kv => (fst kv, fst (snd kv))) (a_keys a).

(* abstract events *)
Inductive aev :=
| ARequest (k : nat)
| ARemove (k : nat) (now : bool)
| ASync (ks : list nat) (now : nat -> bool)
| AAddRef (k : nat)
| ARelStart (f : nat)
| ARelSect (i : nat) (now : nat -> bool)
| ARcRemove (k : nat) (now : bool)
| ACallback (k t : nat)
| ABump (n : nat)          (* n retry timers were armed *)
| ANone.

Definition astep (a : ast) (e : aev) : ast :=
  match e with
  | ARequest k => fst (a_request a k)
  | ARemove k now => fst (a_remove a k now)
  | ASync ks now => fst (a_sync a ks now)
  | AAddRef k => fst (a_add_ref a k)
  | ARelStart f => a_release_start a f
  | ARelSect i now => a_release_section a i now
  | ARcRemove k now => fst (a_rc_remove a k now)
  | ACallback k t => a_callback a k t
  | ABump n => bump a n
  | ANone => a
  end.
