(* keyed.Keyed / keyed.KeyedRefCount at gate granularity (C06, C07).
   Model of the REPAIRED code (fix commits D6, D7, D8, D8b, D19 in /repo); the pinned variants are kept as
   switches of the [fixes] record for the _refuted theorems.

   Actors: every API call is one critical section of k.mtx (one event each; KeyedRefCount calls hold rc.mtx around
   it); every `go r.execute(...)` is an INSTANCE with program counter
       IGate0 -> (IWait | IWaitC) -> IUser -> IBook o -> IDone
   timers are retry timers (tkind = false) or delayed-removal timers (tkind = true), armed / fired / stopped / ran,
   whose callback is its own section; KeyedRef.Release is a two-segment actor (flag swap | gate | section).
   Keys are naturals; the key map is an association list kept in key order (Go's map iteration order is
   unobservable: every per-key effect is independent).  Records are never reused: ResetRoutine and a re-added key
   construct a new record.  A LINEAGE ([rlin], [ilin]) is the chain of records a key has between being added and
   being removed (ResetRoutine keeps the lineage).  Root contexts are numbers (0 = nil); their owner may cancel them
   at any time (event [ECancelRoot], the set [croots]): the context of an instance is identified with the instance,
   it is a context.WithCancel child of the root that was passed to start ([iroot]), so it is born cancelled under a
   cancelled root and is cancelled synchronously with its root; its cancellation is the flag [icanc].  The container
   treats a cancelled root as absent at the next SyncKeys / ResetRoutine / RestartRoutine call ([norm_ctx]) - and only
   there: SetKey, SetContext and the retry callback use it as it is.  The exited channel of instance i is identified
   with i, [iexit] = closed.
   The constructor callback returns data = key * 1000 + (number of constructions of that key) and, as the history
   prescribes ([nilmode], event [ESetNil]), a routine or NO routine (a nil Routine): a record without a routine ([rnil])
   occupies its key and is never started (start returns at once); ResetRoutine hands it the exit channel of the instance
   it has just cancelled, so that a later start still waits for it (D22 repair, switch [fx_nilchain]).
   No proofs in this file. *)
From Util Require Import Common.Base Common.ListLemmas.

Inductive outcome := ONil | OCanc | OErr (e : nat).
Definition is_nil (o : outcome) : bool := match o with ONil => true | _ => false end.

Inductive ipc := IGate0 | IWait | IWaitC | IUser | IBook (o : outcome) | IDone.

Record inst := { irec : nat; ikey : nat; ilin : nat; iwait : option nat; ipcv : ipc; icanc : bool; iexit : bool;
                 idata : N; iroot : nat }.

Record rec := { rkey : nat; rlin : nat; rdata : N; rctx : option nat; rcancel : option nat; rexit : option nat;
                rerr : outcome; rsucc : bool; rexited : bool; rremove : option nat; rretry : option nat; rbo : nat; rnil : bool }.

Inductive tstate := TArmed | TFired | TStopped | TRan.
Record timer := { tkind : bool; trec : nat; tkey : nat; tdead : N; tst : tstate }.

(* a KeyedRef: released flag, and whether it is still in rc.refs[key] *)
Record ref := { fkey : nat; frel : bool; fin : bool }.
(* a Release call that passed the flag swap *)
Record relc := { lref : nat; lparked : bool }.

Record fixes := { fx_wait : bool; fx_setkey : bool; fx_sync : bool; fx_reset : bool; fx_stale : bool; fx_nilchain : bool }.
Definition repaired : fixes := {| fx_wait := true; fx_setkey := true; fx_sync := true; fx_reset := true; fx_stale := true; fx_nilchain := true |}.

Record st := {
  kctx : nat;                      (* container context, 0 = nil *)
  kmap : list (nat * nat);         (* key -> record, in key order *)
  delay : N;                       (* release delay *)
  script : option (list N);        (* back-off durations handed to every record's back-off; None = no retry *)
  nlin : nat;                      (* next lineage number *)
  ctors : list (nat * nat);        (* key -> number of constructions *)
  recs : list rec;
  insts : list inst;
  timers : list timer;
  clock : N;
  cblog : list (nat * N * outcome);(* exit callback invocations (key, data, error), oldest first *)
  refs : list ref;
  rels : list relc;
  croots : list nat;                (* root contexts their owner has cancelled *)
  nilmode : nat;                    (* what the constructor returns next: 0 a routine, 1 none, otherwise none for odd keys *)
}.

Definition init (dl : N) (sc : option (list N)) : st :=
  {| kctx := 0; kmap := []; delay := dl; script := sc; nlin := 0; ctors := []; recs := []; insts := []; timers := [];
     clock := 0%N; cblog := []; refs := []; rels := []; croots := []; nilmode := 0 |}.

(* ---------- association lists ---------- *)
Fixpoint lookup {A} (m : list (nat * A)) (k : nat) : option A :=
  match m with
  | [] => None
  | (k', v) :: t => if Nat.eqb k' k then Some v else lookup t k
  end.
Fixpoint insert {A} (m : list (nat * A)) (k : nat) (v : A) : list (nat * A) :=
  match m with
  | [] => [(k, v)]
  | (k', v') :: t => if Nat.eqb k' k then (k, v) :: t
                     else if Nat.ltb k k' then (k, v) :: m
                     else (k', v') :: insert t k v
  end.
Fixpoint delete {A} (m : list (nat * A)) (k : nat) : list (nat * A) :=
  match m with
  | [] => []
  | (k', v') :: t => if Nat.eqb k' k then delete t k else (k', v') :: delete t k
  end.
Definition mem (k : nat) (l : list nat) : bool := existsb (Nat.eqb k) l.

(* ---------- setters ---------- *)
Definition set_kctx (s : st) (x : nat) : st :=
  {| kctx := x; kmap := kmap s; delay := delay s; script := script s; nlin := nlin s; ctors := ctors s; recs := recs s;
     insts := insts s; timers := timers s; clock := clock s; cblog := cblog s; refs := refs s; rels := rels s; croots := croots s; nilmode := nilmode s |}.
Definition set_kmap (s : st) (x : list (nat * nat)) : st :=
  {| kctx := kctx s; kmap := x; delay := delay s; script := script s; nlin := nlin s; ctors := ctors s; recs := recs s;
     insts := insts s; timers := timers s; clock := clock s; cblog := cblog s; refs := refs s; rels := rels s; croots := croots s; nilmode := nilmode s |}.
Definition set_nlin (s : st) (x : nat) : st :=
  {| kctx := kctx s; kmap := kmap s; delay := delay s; script := script s; nlin := x; ctors := ctors s; recs := recs s;
     insts := insts s; timers := timers s; clock := clock s; cblog := cblog s; refs := refs s; rels := rels s; croots := croots s; nilmode := nilmode s |}.
Definition set_ctors (s : st) (x : list (nat * nat)) : st :=
  {| kctx := kctx s; kmap := kmap s; delay := delay s; script := script s; nlin := nlin s; ctors := x; recs := recs s;
     insts := insts s; timers := timers s; clock := clock s; cblog := cblog s; refs := refs s; rels := rels s; croots := croots s; nilmode := nilmode s |}.
Definition set_recs (s : st) (x : list rec) : st :=
  {| kctx := kctx s; kmap := kmap s; delay := delay s; script := script s; nlin := nlin s; ctors := ctors s; recs := x;
     insts := insts s; timers := timers s; clock := clock s; cblog := cblog s; refs := refs s; rels := rels s; croots := croots s; nilmode := nilmode s |}.
Definition set_insts (s : st) (x : list inst) : st :=
  {| kctx := kctx s; kmap := kmap s; delay := delay s; script := script s; nlin := nlin s; ctors := ctors s; recs := recs s;
     insts := x; timers := timers s; clock := clock s; cblog := cblog s; refs := refs s; rels := rels s; croots := croots s; nilmode := nilmode s |}.
Definition set_timers (s : st) (x : list timer) : st :=
  {| kctx := kctx s; kmap := kmap s; delay := delay s; script := script s; nlin := nlin s; ctors := ctors s; recs := recs s;
     insts := insts s; timers := x; clock := clock s; cblog := cblog s; refs := refs s; rels := rels s; croots := croots s; nilmode := nilmode s |}.
Definition set_clock (s : st) (x : N) : st :=
  {| kctx := kctx s; kmap := kmap s; delay := delay s; script := script s; nlin := nlin s; ctors := ctors s; recs := recs s;
     insts := insts s; timers := timers s; clock := x; cblog := cblog s; refs := refs s; rels := rels s; croots := croots s; nilmode := nilmode s |}.
Definition set_cblog (s : st) (x : list (nat * N * outcome)) : st :=
  {| kctx := kctx s; kmap := kmap s; delay := delay s; script := script s; nlin := nlin s; ctors := ctors s; recs := recs s;
     insts := insts s; timers := timers s; clock := clock s; cblog := x; refs := refs s; rels := rels s; croots := croots s; nilmode := nilmode s |}.
Definition set_refs (s : st) (x : list ref) : st :=
  {| kctx := kctx s; kmap := kmap s; delay := delay s; script := script s; nlin := nlin s; ctors := ctors s; recs := recs s;
     insts := insts s; timers := timers s; clock := clock s; cblog := cblog s; refs := x; rels := rels s; croots := croots s; nilmode := nilmode s |}.
Definition set_rels (s : st) (x : list relc) : st :=
  {| kctx := kctx s; kmap := kmap s; delay := delay s; script := script s; nlin := nlin s; ctors := ctors s; recs := recs s;
     insts := insts s; timers := timers s; clock := clock s; cblog := cblog s; refs := refs s; rels := x; croots := croots s; nilmode := nilmode s |}.

Definition set_croots (s : st) (x : list nat) : st :=
  {| kctx := kctx s; kmap := kmap s; delay := delay s; script := script s; nlin := nlin s; ctors := ctors s; recs := recs s;
     insts := insts s; timers := timers s; clock := clock s; cblog := cblog s; refs := refs s; rels := rels s; croots := x; nilmode := nilmode s |}.
Definition set_nilmode (s : st) (x : nat) : st :=
  {| kctx := kctx s; kmap := kmap s; delay := delay s; script := script s; nlin := nlin s; ctors := ctors s; recs := recs s;
     insts := insts s; timers := timers s; clock := clock s; cblog := cblog s; refs := refs s; rels := rels s; croots := croots s; nilmode := x |}.

Definition rec0 : rec := {| rkey := 0; rlin := 0; rdata := 0%N; rctx := None; rcancel := None; rexit := None; rerr := ONil;
                            rsucc := false; rexited := false; rremove := None; rretry := None; rbo := 0; rnil := false |}.
Definition inst0 : inst := {| irec := 0; ikey := 0; ilin := 0; iwait := None; ipcv := IDone; icanc := true; iexit := true;
                              idata := 0%N; iroot := 0 |}.
Definition timer0 : timer := {| tkind := false; trec := 0; tkey := 0; tdead := 0%N; tst := TRan |}.
Definition ref0 : ref := {| fkey := 0; frel := true; fin := false |}.

Definition getr (s : st) (r : nat) : rec := nth r (recs s) rec0.
Definition geti (s : st) (i : nat) : inst := nth i (insts s) inst0.
Definition gett (s : st) (t : nat) : timer := nth t (timers s) timer0.

(* record field updates (the key, lineage and data of a record never change) *)
Definition with_cancel (x : rec) (v : option nat) : rec :=
  {| rkey := rkey x; rlin := rlin x; rdata := rdata x; rctx := rctx x; rcancel := v; rexit := rexit x; rerr := rerr x;
     rsucc := rsucc x; rexited := rexited x; rremove := rremove x; rretry := rretry x; rbo := rbo x; rnil := rnil x |}.
Definition with_noctx (x : rec) : rec :=
  {| rkey := rkey x; rlin := rlin x; rdata := rdata x; rctx := None; rcancel := None; rexit := rexit x; rerr := rerr x;
     rsucc := rsucc x; rexited := rexited x; rremove := rremove x; rretry := rretry x; rbo := rbo x; rnil := rnil x |}.
Definition with_rexit (x : rec) (v : option nat) : rec :=
  {| rkey := rkey x; rlin := rlin x; rdata := rdata x; rctx := rctx x; rcancel := rcancel x; rexit := v; rerr := rerr x;
     rsucc := rsucc x; rexited := rexited x; rremove := rremove x; rretry := rretry x; rbo := rbo x; rnil := rnil x |}.
Definition with_remove (x : rec) (v : option nat) : rec :=
  {| rkey := rkey x; rlin := rlin x; rdata := rdata x; rctx := rctx x; rcancel := rcancel x; rexit := rexit x; rerr := rerr x;
     rsucc := rsucc x; rexited := rexited x; rremove := v; rretry := rretry x; rbo := rbo x; rnil := rnil x |}.
Definition with_retry (x : rec) (v : option nat) : rec :=
  {| rkey := rkey x; rlin := rlin x; rdata := rdata x; rctx := rctx x; rcancel := rcancel x; rexit := rexit x; rerr := rerr x;
     rsucc := rsucc x; rexited := rexited x; rremove := rremove x; rretry := v; rbo := rbo x; rnil := rnil x |}.
(* start: fresh instance n *)
Definition with_started (x : rec) (n : nat) : rec :=
  {| rkey := rkey x; rlin := rlin x; rdata := rdata x; rctx := Some n; rcancel := Some n; rexit := Some n; rerr := ONil;
     rsucc := false; rexited := false; rremove := rremove x; rretry := None; rbo := rbo x; rnil := rnil x |}.
(* the bookkeeping section records an exit *)
Definition with_exit (x : rec) (o : outcome) (retry : option nat) (bo : nat) : rec :=
  {| rkey := rkey x; rlin := rlin x; rdata := rdata x; rctx := rctx x; rcancel := rcancel x; rexit := None; rerr := o;
     rsucc := is_nil o; rexited := true; rremove := rremove x; rretry := retry; rbo := bo; rnil := rnil x |}.

Definition with_pc (x : inst) (p : ipc) : inst :=
  {| irec := irec x; ikey := ikey x; ilin := ilin x; iwait := iwait x; ipcv := p; icanc := icanc x; iexit := iexit x;
     idata := idata x; iroot := iroot x |}.
Definition with_canc (x : inst) : inst :=
  {| irec := irec x; ikey := ikey x; ilin := ilin x; iwait := iwait x; ipcv := ipcv x; icanc := true; iexit := iexit x;
     idata := idata x; iroot := iroot x |}.
(* the function returned / was skipped: cancel(); close(exitedCh); parked before the bookkeeping section *)
Definition with_over (x : inst) (o : outcome) : inst :=
  {| irec := irec x; ikey := ikey x; ilin := ilin x; iwait := iwait x; ipcv := IBook o; icanc := true; iexit := true;
     idata := idata x; iroot := iroot x |}.

Definition seti (s : st) (i : nat) (x : inst) : st := set_insts s (set_nth (insts s) i x).
Definition setr (s : st) (r : nat) (x : rec) : st := set_recs s (set_nth (recs s) r x).

Definition cancel_inst (s : st) (oi : option nat) : st :=
  match oi with
  | Some i => match nth_error (insts s) i with Some x => seti s i (with_canc x) | None => s end
  | None => s
  end.

Definition with_tst (x : timer) (v : tstate) : timer :=
  {| tkind := tkind x; trec := trec x; tkey := tkey x; tdead := tdead x; tst := v |}.

(* time.Timer.Stop: only an armed timer is stopped; a fired one's callback still runs *)
Definition stop_timer (s : st) (ot : option nat) : st :=
  match ot with
  | Some t => match nth_error (timers s) t with
              | Some x => match tst x with
                          | TArmed => set_timers s (set_nth (timers s) t (with_tst x TStopped))
                          | _ => s
                          end
              | None => s
              end
  | None => s
  end.

(* ctx.Err() != nil of root context c *)
Definition root_canc (s : st) (c : nat) : bool := existsb (Nat.eqb c) (croots s).

Definition ctx_live (s : st) (oi : option nat) : bool :=
  match oi with Some i => negb (icanc (geti s i)) | None => false end.
Definition is_some {A} (o : option A) : bool := match o with Some _ => true | None => false end.

(* runningRoutine.start(ctx, waitCh, forceRestart) *)
Definition start_rec (s : st) (r : nat) (ctx : nat) (waitCh : option nat) (force : bool) : st :=
  let x := getr s r in
  if negb force && rsucc x || rnil x then s
  else if negb force && is_some (rctx x) && negb (rexited x) && ctx_live s (rctx x) then s
  else
    let s1 := stop_timer s (rretry x) in
    let s2 := cancel_inst s1 (rcancel x) in
    let n := length (insts s2) in
    let s3 := set_insts s2 (insts s2 ++ [{| irec := r; ikey := rkey x; ilin := rlin x; iwait := waitCh; ipcv := IGate0;
                                            icanc := root_canc s ctx; iexit := false; idata := rdata x; iroot := ctx |}]) in
    setr s3 r (with_started x n).

(* ctorCb(key) and newRunningRoutine: a fresh record for key k in lineage lin, registered in the map; w is the exit
   channel it remembers (nil except in ResetRoutine) *)
Definition ctor_count (s : st) (k : nat) : nat := match lookup (ctors s) k with Some c => c | None => 0 end.
(* does the constructor return no routine for key k now *)
Definition ctor_nil (mode k : nat) : bool := match mode with 0 => false | 1 => true | _ => Nat.odd k end.
Definition new_record (s : st) (k lin : nat) (w : option nat) : st * nat :=
  let c := S (ctor_count s k) in
  let d := (N.of_nat k * 1000 + N.of_nat c)%N in
  let r := length (recs s) in
  let s1 := set_ctors s (insert (ctors s) k c) in
  let s2 := set_recs s1 (recs s1 ++ [{| rkey := k; rlin := lin; rdata := d; rctx := None; rcancel := None; rexit := w;
                                        rerr := ONil; rsucc := false; rexited := false; rremove := None; rretry := None; rbo := 0;
                                        rnil := ctor_nil (nilmode s) k |}]) in
  (set_kmap s2 (insert (kmap s2) k r), r).

(* ---------- removal ---------- *)
Definition remove_now (s : st) (r : nat) : st :=
  let x := getr s r in
  let s1 := cancel_inst s (rcancel x) in
  let s2 := stop_timer s1 (rretry x) in
  let s3 := setr s2 r (with_retry (getr s2 r) None) in
  set_kmap s3 (delete (kmap s3) (rkey x)).

Definition failed (x : rec) : bool := rexited x && negb (rsucc x).

(* runningRoutine.remove() *)
Definition remove_rec (s : st) (r : nat) : st :=
  let x := getr s r in
  match rremove x with
  | Some _ => s
  | None =>
    if N.eqb (delay s) 0 || failed x then remove_now s r
    else
      let t := length (timers s) in
      let s1 := set_timers s (timers s ++ [{| tkind := true; trec := r; tkey := rkey x; tdead := (clock s + delay s)%N; tst := TArmed |}]) in
      setr s1 r (with_remove x (Some t))
  end.

(* cancel a pending delayed removal *)
Definition unremove (s : st) (r : nat) : st :=
  let x := getr s r in
  match rremove x with
  | Some _ => setr (stop_timer s (rremove x)) r (with_remove x None)
  | None => s
  end.
Definition unretry (s : st) (r : nat) : st :=
  let x := getr s r in
  match rretry x with
  | Some _ => setr (stop_timer s (rretry x)) r (with_retry x None)
  | None => s
  end.

(* ---------- API sections ---------- *)
Definition has_ctx (s : st) : bool := negb (Nat.eqb (kctx s) 0).
(* `if k.ctx != nil && k.ctx.Err() != nil { k.ctx = nil }` at the top of SyncKeys, resetRoutineLocked, restartRoutineLocked *)
Definition norm_ctx (s : st) : st := if root_canc s (kctx s) then set_kctx s 0 else s.

(* SetKey(key, start) -> (data, existed) *)
Definition set_key (fx : fixes) (s : st) (k : nat) (start : bool) : st * (N * bool) :=
  match lookup (kmap s) k with
  | None =>
    let '(s1, r) := new_record s k (nlin s) None in
    let s2 := set_nlin s1 (S (nlin s1)) in
    let s3 := if has_ctx s2 then start_rec s2 r (kctx s2) (rexit (getr s2 r)) false else s2 in
    (s3, (rdata (getr s3 r), false))
  | Some r =>
    let s1 := unremove s r in
    let s2 := if fx_setkey fx then s1 else unretry s1 r in                           (* D7 repair: the retry is kept *)
    let s3 := if start && has_ctx s2 then start_rec s2 r (kctx s2) (rexit (getr s2 r)) false else s2 in
    (s3, (rdata (getr s3 r), true))
  end.

(* RemoveKey(key) -> existed *)
Definition remove_key (s : st) (k : nat) : st * bool :=
  match lookup (kmap s) k with
  | Some r => (remove_rec s r, true)
  | None => (s, false)
  end.

(* SyncKeys, first loop: one key of the list *)
Definition sync_one (fx : fixes) (restart : bool) (acc : st * list nat * list nat) (k : nat) : st * list nat * list nat :=
  let '(s, seen, added) := acc in
  if mem k seen then acc
  else
    match lookup (kmap s) k with
    | None =>
      let '(s1, r) := new_record s k (nlin s) None in
      let s2 := set_nlin s1 (S (nlin s1)) in
      let s3 := if has_ctx s2 then start_rec s2 r (kctx s2) (rexit (getr s2 r)) false else s2 in
      (s3, k :: seen, added ++ [k])
    | Some r =>
      let s1 := if fx_sync fx then unremove s r else s in                            (* D6 repair *)
      let s2 := if restart && has_ctx s1 then start_rec s1 r (kctx s1) (rexit (getr s1 r)) false else s1 in
      (s2, k :: seen, added)
    end.
(* second loop: every registered key that is not in the list *)
Definition sync_rm (keys : list nat) (acc : st * list nat) (k : nat) : st * list nat :=
  let '(s, removed) := acc in
  if mem k keys then acc else (fst (remove_key s k), removed ++ [k]).
Definition sync_core (fx : fixes) (s : st) (keys : list nat) (restart : bool) : st * (list nat * list nat) :=
  let '(s1, _, added) := fold_left (sync_one fx restart) keys (s, [], []) in
  let '(s2, removed) := fold_left (sync_rm keys) (map fst (kmap s1)) (s1, []) in
  (s2, (added, removed)).
Definition sync_keys (fx : fixes) (s : st) (keys : list nat) (restart : bool) : st * (list nat * list nat) :=
  sync_core fx (norm_ctx s) keys restart.

Definition get_key (s : st) (k : nat) : N * bool :=
  match lookup (kmap s) k with Some r => (rdata (getr s r), true) | None => (0%N, false) end.
Definition keys_with_data (s : st) : list (nat * N) := map (fun kr => (fst kr, rdata (getr s (snd kr)))) (kmap s).

(* setContextLocked: one record *)
Definition ctx_key (c : nat) (same restart : bool) (s : st) (k : nat) : st :=
  match lookup (kmap s) k with
  | None => s
  | Some r =>
    let x := getr s r in
    if same && is_nil (rerr x) then s
    else
      let s1 := cancel_inst s (rcancel x) in
      let s2 := setr s1 r (with_noctx x) in
      if (is_nil (rerr x) || restart) && negb (Nat.eqb c 0) then start_rec s2 r c (rexit (getr s2 r)) false else s2
  end.
Definition set_context (s : st) (c : nat) (restart : bool) : st :=
  let same := Nat.eqb (kctx s) c in
  if same && negb restart then s
  else
    let s1 := set_kctx s c in
    fold_left (ctx_key c same restart) (map fst (kmap s1)) s1.

(* the condition functions of Reset/Restart: 0 none, 1 always false, otherwise "the key is odd" *)
Definition cond_match (cond k : nat) : bool :=
  match cond with 0 => true | 1 => false | _ => Nat.odd k end.

(* resetRoutineLocked -> (existed, reset) *)
Definition reset_core (fx : fixes) (s : st) (k cond : nat) : st * (bool * bool) :=
  match lookup (kmap s) k with
  | None => (s, (false, false))
  | Some r =>
    if negb (cond_match cond k) then (s, (true, false))
    else
      let x := getr s r in
      let s1 := cancel_inst s (rcancel x) in
      let prev := rexit x in
      (* the new record's exitedCh: start overwrites it; a record that is not started - no context (D8b repair) or no
         routine (D22 repair) - keeps the previous instance's channel.  Storing prev before the start is not observable:
         start never reads the record's exitedCh. *)
      let w0 := if (if has_ctx s1 then negb (ctor_nil (nilmode s1) k) || fx_nilchain fx else fx_reset fx) then prev else None in
      let '(s2, r2) := new_record s1 k (rlin x) w0 in
      let s3 := if has_ctx s2 then start_rec s2 r2 (kctx s2) prev false else s2 in
      (s3, (true, true))
  end.
Definition reset_routine (fx : fixes) (s : st) (k cond : nat) : st * (bool * bool) := reset_core fx (norm_ctx s) k cond.

(* restartRoutineLocked -> (existed, reset) *)
Definition restart_core (s : st) (k cond : nat) : st * (bool * bool) :=
  match lookup (kmap s) k with
  | None => (s, (false, false))
  | Some r =>
    if negb (has_ctx s) then (s, (true, false))
    else if negb (cond_match cond k) then (s, (true, false))
    else
      let x := getr s r in
      let s1 := cancel_inst s (rcancel x) in
      let s2 := setr s1 r (with_cancel x None) in
      (start_rec s2 r (kctx s2) (rexit x) true, (true, true))
  end.
Definition restart_routine (s : st) (k cond : nat) : st * (bool * bool) := restart_core (norm_ctx s) k cond.

Definition all_step (f : st -> nat -> nat -> st * (bool * bool)) (cond : nat) (acc : st * nat) (k : nat) : st * nat :=
  let '(s, n) := acc in
  let '(s', (ex, rs)) := f s k cond in
  (s', if ex && rs then S n else n).
Definition reset_all (fx : fixes) (s : st) (cond : nat) : st * (nat * nat) :=
  let '(s', n) := fold_left (all_step (reset_routine fx) cond) (map fst (kmap s)) (s, 0) in
  (s', (n, length (kmap s))).
Definition restart_all (s : st) (cond : nat) : st * (nat * nat) :=
  let '(s', n) := fold_left (all_step restart_routine cond) (map fst (kmap s)) (s, 0) in
  (s', (n, length (kmap s))).

(* ---------- KeyedRefCount ---------- *)
Definition add_key_ref (fx : fixes) (s : st) (k : nat) : st * (N * bool) :=
  let '(s1, res) := set_key fx s k true in
  (set_refs s1 (refs s1 ++ [{| fkey := k; frel := false; fin := true |}]), res).

(* Release, first segment: the flag swap; a released reference returns at once *)
Definition release_start (s : st) (f : nat) : st :=
  match nth_error (refs s) f with
  | Some x => if frel x then s
              else set_rels (set_refs s (set_nth (refs s) f {| fkey := fkey x; frel := true; fin := fin x |}))
                            (rels s ++ [{| lref := f; lparked := true |}])
  | None => s
  end.
Definition live_ref (k : nat) (x : ref) : bool := fin x && Nat.eqb (fkey x) k.
(* Release, second segment: the section under rc.mtx *)
Definition release_section (s : st) (a : nat) : st :=
  match nth_error (rels s) a with
  | Some l =>
    if lparked l then
      let s1 := set_rels s (set_nth (rels s) a {| lref := lref l; lparked := false |}) in
      match nth_error (refs s1) (lref l) with
      | Some x =>
        if fin x then
          let s2 := set_refs s1 (set_nth (refs s1) (lref l) {| fkey := fkey x; frel := frel x; fin := false |}) in
          if Nat.eqb (cnt (live_ref (fkey x)) (refs s2)) 0 then fst (remove_key s2 (fkey x)) else s2
        else s1
      | None => s1
      end
    else s
  | None => s
  end.
Definition rc_remove_key (s : st) (k : nat) : st * bool :=
  let s1 := set_refs s (map (fun x => if live_ref k x then {| fkey := fkey x; frel := true; fin := false |} else x) (refs s)) in
  remove_key s1 k.

(* ---------- instances ---------- *)
Definition pred_closed (s : st) (x : inst) : bool :=
  match iwait x with Some j => iexit (geti s j) | None => true end.

(* the first select of execute, from the gate; [enter] resolves the choice when both cases are ready *)
Definition proceed (fx : fixes) (s : st) (i : nat) (enter : bool) : st :=
  match nth_error (insts s) i with
  | None => s
  | Some x =>
    match ipcv x with
    | IGate0 =>
      match iwait x with
      | None => if icanc x then seti s i (with_over x OCanc) else seti s i (with_pc x IUser)
      | Some _ =>
        let pc := pred_closed s x in
        if pc && icanc x then (if enter then seti s i (with_pc x IUser) else seti s i (with_over x OCanc))
        else if pc then seti s i (with_pc x IUser)
        else if icanc x then (if fx_wait fx then seti s i (with_pc x IWaitC) else seti s i (with_over x OCanc))   (* D8 repair *)
        else seti s i (with_pc x IWait)
      end
    | _ => s
    end
  end.

(* a blocked instance wakes up *)
Definition wake (fx : fixes) (s : st) (i : nat) (enter : bool) : st :=
  match nth_error (insts s) i with
  | None => s
  | Some x =>
    match ipcv x with
    | IWait =>
      let pc := pred_closed s x in
      if pc && icanc x then (if enter then seti s i (with_pc x IUser) else seti s i (with_over x OCanc))
      else if pc then seti s i (with_pc x IUser)
      else if icanc x then (if fx_wait fx then seti s i (with_pc x IWaitC) else seti s i (with_over x OCanc))
      else s
    | IWaitC => if pred_closed s x then seti s i (with_over x OCanc) else s
    | _ => s
    end
  end.

Definition fn_return (s : st) (i : nat) (o : outcome) : st :=
  match nth_error (insts s) i with
  | Some x => match ipcv x with IUser => seti s i (with_over x o) | _ => s end
  | None => s
  end.

Definition in_map (s : st) (r : nat) : bool :=
  match lookup (kmap s) (rkey (getr s r)) with Some r' => Nat.eqb r' r | None => false end.

(* the bookkeeping section of execute *)
Definition bookkeep (s : st) (i : nat) : st :=
  match nth_error (insts s) i with
  | None => s
  | Some x =>
    match ipcv x with
    | IBook o =>
      let r := irec x in
      let y := getr s r in
      let s0 := seti s i (with_pc x IDone) in
      match rctx y with
      | Some j =>
        if Nat.eqb j i then
          let s1 :=
            match script s0 with
            | None => setr s0 r (with_exit y o (rretry y) (rbo y))
            | Some l =>
              let s' := stop_timer s0 (rretry y) in
              if is_nil o then setr s' r (with_exit y o None 0)
              else if in_map s' r then
                match nth_error l (rbo y) with
                | Some d =>
                  let t := length (timers s') in
                  let s'' := set_timers s' (timers s' ++ [{| tkind := false; trec := r; tkey := rkey y;
                                                             tdead := (clock s' + d)%N; tst := TArmed |}]) in
                  setr s'' r (with_exit y o (Some t) (S (rbo y)))
                | None => setr s' r (with_exit y o None (S (rbo y)))
                end
              else setr s' r (with_exit y o None (rbo y))
            end in
          set_cblog s1 (cblog s1 ++ [(rkey y, rdata y, o)])
        else s0
      | None => s0
      end
    | _ => s
    end
  end.

(* ---------- timers ---------- *)
Definition fire (clk : N) (t : timer) : timer :=
  match tst t with
  | TArmed => if N.leb (tdead t) clk then with_tst t TFired else t
  | _ => t
  end.
Definition advance (s : st) (d : N) : st :=
  let clk := (clock s + d)%N in
  set_timers (set_clock s clk) (map (fire clk) (timers s)).

Definition opt_is (o : option nat) (t : nat) : bool := match o with Some t' => Nat.eqb t' t | None => false end.

(* a timer callback's section *)
Definition timer_cb (fx : fixes) (s : st) (t : nat) : st :=
  match nth_error (timers s) t with
  | Some x =>
    match tst x with
    | TFired =>
      let s1 := set_timers s (set_nth (timers s) t (with_tst x TRan)) in
      let r := trec x in
      let y := getr s1 r in
      if tkind x then
        (* delayed removal: only the record's own pending removal (D19 repair) *)
        if in_map s1 r && (if fx_stale fx then opt_is (rremove y) t else is_some (rremove y)) then
          let s2 := stop_timer s1 (rremove y) in
          remove_now (setr s2 r (with_remove (getr s2 r) None)) r
        else s1
      else
        if has_ctx s1 && in_map s1 r && rexited y then start_rec s1 r (kctx s1) (rexit y) true else s1
    | _ => s
    end
  | None => s
  end.

(* ---------- the environment ---------- *)
(* the owner of root context c calls its cancel function: the root and, synchronously, every context derived from it
   (context.WithCancel children: the instances started under it) are cancelled.  The container is not told. *)
Definition cancel_root (s : st) (c : nat) : st :=
  if Nat.eqb c 0 then s
  else set_croots (set_insts s (map (fun x => if Nat.eqb (iroot x) c then with_canc x else x) (insts s))) (c :: croots s).

(* ---------- events ---------- *)
Inductive ev :=
| ESetCtx (c : nat) (restart : bool)
| ESetKey (k : nat) (start : bool)
| ERemoveKey (k : nat)
| ESyncKeys (ks : list nat) (restart : bool)
| EGet
| EReset (k cond : nat)
| ERestart (k cond : nat)
| EResetAll (cond : nat)
| ERestartAll (cond : nat)
| EAddRef (k : nat)
| ERelStart (f : nat)
| ERelSect (a : nat)
| ERcRemove (k : nat)
| EProceed (i : nat) (enter : bool)
| EWake (i : nat) (enter : bool)
| EReturn (i : nat) (o : outcome)
| EBook (i : nat)
| EAdvance (d : N)
| ETimerCb (t : nat)
| ECancelRoot (c : nat)
| ESetNil (m : nat).

Definition step (fx : fixes) (s : st) (e : ev) : st :=
  match e with
  | ESetCtx c r => set_context s c r
  | ESetKey k st => fst (set_key fx s k st)
  | ERemoveKey k => fst (remove_key s k)
  | ESyncKeys ks r => fst (sync_keys fx s ks r)
  | EGet => s
  | EReset k c => fst (reset_routine fx s k c)
  | ERestart k c => fst (restart_routine s k c)
  | EResetAll c => fst (reset_all fx s c)
  | ERestartAll c => fst (restart_all s c)
  | EAddRef k => fst (add_key_ref fx s k)
  | ERelStart f => release_start s f
  | ERelSect a => release_section s a
  | ERcRemove k => fst (rc_remove_key s k)
  | EProceed i en => proceed fx s i en
  | EWake i en => wake fx s i en
  | EReturn i o => fn_return s i o
  | EBook i => bookkeep s i
  | EAdvance d => advance s d
  | ETimerCb t => timer_cb fx s t
  | ECancelRoot c => cancel_root s c
  | ESetNil m => set_nilmode s m
  end.

Definition run (fx : fixes) (s0 : st) (es : list ev) : st := fold_left (step fx) es s0.

(* ---------- derived notions ---------- *)
Definition over (x : inst) : bool := match ipcv x with IBook _ | IDone => true | _ => false end.
Definition in_user (x : inst) : bool := match ipcv x with IUser => true | _ => false end.
Definition in_user_lin (l : nat) (x : inst) : bool := in_user x && Nat.eqb (ilin x) l.
Definition present (s : st) (k : nat) : bool := is_some (lookup (kmap s) k).
