(* keyed: timers fire only when due - a timer whose callback is parked or has run has a deadline that has passed. *)
From Util Require Import Common.Base Common.ListLemmas Keyed.Model Keyed.Proofs.

Definition fired (x : timer) : Prop := tst x = TFired \/ tst x = TRan.
Definition InvClk (s : st) : Prop := forall t x, nth_error (timers s) t = Some x -> fired x -> (tdead x <= clock s)%N.
(* s' has the clock of s and every fired timer of s' was already fired in s, with the same deadline *)
Definition Tm (s s' : st) : Prop :=
  clock s' = clock s /\
  forall t x', nth_error (timers s') t = Some x' -> fired x' -> exists x, nth_error (timers s) t = Some x /\ tdead x = tdead x' /\ fired x.

Lemma Tm_refl s : Tm s s. Proof. split; [reflexivity|]. intros t x H F. eauto. Qed.
Lemma Tm_trans s s1 s2 : Tm s s1 -> Tm s1 s2 -> Tm s s2.
Proof.
  intros [A1 A2] [B1 B2]. split; [congruence|]. intros t x2 H2 F2.
  destruct (B2 t x2 H2 F2) as [x1 [H1 [D1 F1]]]. destruct (A2 t x1 H1 F1) as [x [H [D F]]]. exists x. repeat split; auto; congruence.
Qed.
Lemma Tm_InvClk s s' : Tm s s' -> InvClk s -> InvClk s'.
Proof. intros [A1 A2] H t x' Hx F. destruct (A2 t x' Hx F) as [x [H1 [D1 F1]]]. rewrite A1, <- D1. eapply H; eauto. Qed.

Lemma Tm_ext s s' : timers s' = timers s -> clock s' = clock s -> Tm s s'.
Proof. intros E1 E2. split; [exact E2|]. rewrite E1. intros t x H F. eauto. Qed.

Lemma Tm_stop_timer s ot : Tm s (stop_timer s ot).
Proof.
  unfold stop_timer. destruct ot as [t0|]; [|apply Tm_refl]. destruct (nth_error (timers s) t0) as [x0|] eqn:E0; [|apply Tm_refl].
  destruct (tst x0) eqn:Es; try apply Tm_refl. split; [reflexivity|]. cbn [timers set_timers]. intros t x' Hx F.
  assert (Hl : t0 < length (timers s)) by (eapply nth_error_nth_len; eauto).
  destruct (Nat.eq_dec t t0) as [->|Hne].
  - rewrite nth_error_set_nth_same in Hx by exact Hl. inversion Hx; subst x'. destruct F as [F|F]; cbn in F; discriminate.
  - rewrite nth_error_set_nth_other in Hx by exact Hne. eauto.
Qed.
Lemma Tm_cancel_inst s oi : Tm s (cancel_inst s oi).
Proof. apply Tm_ext; [apply cancel_inst_frame | apply cancel_inst_frame]. Qed.
Lemma Tm_append s x : tst x = TArmed -> Tm s (set_timers s (timers s ++ [x])).
Proof.
  intros Ha. split; [reflexivity|]. cbn [timers set_timers]. intros t x' Hx F.
  destruct (nth_error_app_inv _ _ _ _ Hx) as [G| ->]; [eauto|]. destruct F as [F|F]; congruence.
Qed.
Lemma Tm_set_ran s t x : nth_error (timers s) t = Some x -> tst x = TFired -> Tm s (set_timers s (set_nth (timers s) t (with_tst x TRan))).
Proof.
  intros Hx Hf. split; [reflexivity|]. cbn [timers set_timers]. intros t' x' Hx' F.
  assert (Hl : t < length (timers s)) by (eapply nth_error_nth_len; eauto).
  destruct (Nat.eq_dec t' t) as [->|Hne].
  - rewrite nth_error_set_nth_same in Hx' by exact Hl. inversion Hx'; subst x'. exists x. repeat split; auto. now left.
  - rewrite nth_error_set_nth_other in Hx' by exact Hne. eauto.
Qed.

Ltac tme := apply Tm_ext; reflexivity.
Lemma Tm_setr s r y : Tm s (setr s r y). Proof. tme. Qed.
Lemma Tm_seti s i x : Tm s (seti s i x). Proof. tme. Qed.

Lemma Tm_start_rec s r c w f : Tm s (start_rec s r c w f).
Proof.
  unfold start_rec. destruct (negb f && rsucc (getr s r) || rnil (getr s r)); [apply Tm_refl|].
  destruct (negb f && is_some (rctx (getr s r)) && negb (rexited (getr s r)) && ctx_live s (rctx (getr s r))); [apply Tm_refl|].
  eapply Tm_trans; [apply Tm_stop_timer|]. eapply Tm_trans; [apply Tm_cancel_inst|]. tme.
Qed.
Lemma Tm_new_record s k lin w : Tm s (fst (new_record s k lin w)). Proof. tme. Qed.
Lemma Tm_remove_now s r : Tm s (remove_now s r).
Proof. unfold remove_now. eapply Tm_trans; [apply Tm_cancel_inst|]. eapply Tm_trans; [apply Tm_stop_timer|]. tme. Qed.
Lemma Tm_remove_rec s r : Tm s (remove_rec s r).
Proof.
  unfold remove_rec. destruct (rremove (getr s r)); [apply Tm_refl|].
  destruct (N.eqb (delay s) 0 || failed (getr s r)); [apply Tm_remove_now|].
  match goal with |- Tm s (setr ?S _ _) => apply (Tm_trans s S); [apply Tm_append; reflexivity | tme] end.
Qed.
Lemma Tm_unremove s r : Tm s (unremove s r).
Proof. unfold unremove. destruct (rremove (getr s r)); [|apply Tm_refl]. eapply Tm_trans; [apply Tm_stop_timer | tme]. Qed.
Lemma Tm_unretry s r : Tm s (unretry s r).
Proof. unfold unretry. destruct (rretry (getr s r)); [|apply Tm_refl]. eapply Tm_trans; [apply Tm_stop_timer | tme]. Qed.

Lemma Tm_set_key fx s k st : Tm s (fst (set_key fx s k st)).
Proof.
  unfold set_key. destruct (lookup (kmap s) k) as [r|].
  - cbn [fst]. eapply Tm_trans; [apply Tm_unremove|].
    eapply (Tm_trans _ (if fx_setkey fx then unremove s r else unretry (unremove s r) r)); [destruct (fx_setkey fx); [apply Tm_refl | apply Tm_unretry]|].
    destruct (st && has_ctx _); [apply Tm_start_rec | apply Tm_refl].
  - pose proof (Tm_new_record s k (nlin s) None) as G. destruct (new_record s k (nlin s) None) as [s1 r]. cbn [fst] in *.
    eapply Tm_trans; [exact G|]. eapply (Tm_trans _ (set_nlin s1 (S (nlin s1)))); [tme|].
    destruct (has_ctx _); [apply Tm_start_rec | apply Tm_refl].
Qed.
Lemma Tm_remove_key s k : Tm s (fst (remove_key s k)).
Proof. unfold remove_key. destruct (lookup (kmap s) k); cbn [fst]; [apply Tm_remove_rec | apply Tm_refl]. Qed.

Lemma Tm_fold_acc {A E} (pr : A -> st) (f : A -> E -> A) :
  (forall a e, Tm (pr a) (pr (f a e))) -> forall es a, Tm (pr a) (pr (fold_left f es a)).
Proof. intros Hf es. induction es as [|e es IH]; intros a; cbn [fold_left]; [apply Tm_refl | eapply Tm_trans; [apply Hf | apply IH]]. Qed.

Lemma Tm_sync_one fx restart acc k : Tm (fst (fst acc)) (fst (fst (sync_one fx restart acc k))).
Proof.
  destruct acc as [[s seen] added]. cbn [fst]. unfold sync_one. destruct (mem k seen); [apply Tm_refl|].
  destruct (lookup (kmap s) k) as [r|].
  - cbn [fst]. eapply (Tm_trans _ (if fx_sync fx then unremove s r else s)); [destruct (fx_sync fx); [apply Tm_unremove | apply Tm_refl]|].
    destruct (restart && has_ctx _); [apply Tm_start_rec | apply Tm_refl].
  - pose proof (Tm_new_record s k (nlin s) None) as G. destruct (new_record s k (nlin s) None) as [s1 r]. cbn [fst] in *.
    eapply Tm_trans; [exact G|]. eapply (Tm_trans _ (set_nlin s1 (S (nlin s1)))); [tme|].
    destruct (has_ctx _); [apply Tm_start_rec | apply Tm_refl].
Qed.
Lemma Tm_sync_rm keys acc k : Tm (fst acc) (fst (sync_rm keys acc k)).
Proof. destruct acc as [s removed]. unfold sync_rm. destruct (mem k keys); cbn [fst]; [apply Tm_refl | apply Tm_remove_key]. Qed.
Lemma Tm_norm_ctx s : Tm s (norm_ctx s).
Proof. unfold norm_ctx. destruct (root_canc s (kctx s)); [tme | apply Tm_refl]. Qed.
Lemma Tm_sync_keys fx s keys restart : Tm s (fst (sync_keys fx s keys restart)).
Proof.
  unfold sync_keys. eapply Tm_trans; [apply Tm_norm_ctx|]. generalize (norm_ctx s). clear s. intros s. unfold sync_core.
  pose proof (Tm_fold_acc (fun acc : st * list nat * list nat => fst (fst acc)) (sync_one fx restart) (Tm_sync_one fx restart) keys (s, [], [])) as G1.
  destruct (fold_left (sync_one fx restart) keys (s, [], [])) as [[s1 seen] added]. cbn [fst] in G1.
  pose proof (Tm_fold_acc (fun acc : st * list nat => fst acc) (sync_rm keys) (Tm_sync_rm keys) (map fst (kmap s1)) (s1, [])) as G2.
  destruct (fold_left (sync_rm keys) (map fst (kmap s1)) (s1, [])) as [s2 removed]. cbn [fst] in *. eapply Tm_trans; eauto.
Qed.

Lemma Tm_ctx_key c same restart s k : Tm s (ctx_key c same restart s k).
Proof.
  unfold ctx_key. destruct (lookup (kmap s) k) as [r|]; [|apply Tm_refl]. destruct (same && is_nil (rerr (getr s r))); [apply Tm_refl|].
  eapply (Tm_trans _ (setr (cancel_inst s (rcancel (getr s r))) r (with_noctx (getr s r)))); [eapply Tm_trans; [apply Tm_cancel_inst | tme]|].
  destruct (_ && negb (Nat.eqb c 0)); [apply Tm_start_rec | apply Tm_refl].
Qed.
Lemma Tm_set_context s c restart : Tm s (set_context s c restart).
Proof.
  unfold set_context. destruct (Nat.eqb (kctx s) c && negb restart); [apply Tm_refl|].
  eapply (Tm_trans _ (set_kctx s c)); [tme|]. apply (Tm_fold_acc (fun x => x)). intros; apply Tm_ctx_key.
Qed.
Lemma Tm_reset_routine fx s k cond : Tm s (fst (reset_routine fx s k cond)).
Proof.
  unfold reset_routine. eapply Tm_trans; [apply Tm_norm_ctx|]. generalize (norm_ctx s). clear s. intros s. unfold reset_core.
  destruct (lookup (kmap s) k) as [r|]; [|apply Tm_refl]. destruct (negb (cond_match cond k)); [apply Tm_refl|].
  set (s1 := cancel_inst s (rcancel (getr s r))). match goal with |- context [new_record s1 k _ ?w] => set (w0 := w) end.
  pose proof (Tm_new_record s1 k (rlin (getr s r)) w0) as G. destruct (new_record s1 k (rlin (getr s r)) w0) as [s2 r2]. cbn [fst] in *.
  eapply Tm_trans; [apply Tm_cancel_inst|]. fold s1. eapply Tm_trans; [exact G|].
  destruct (has_ctx s2); [apply Tm_start_rec | apply Tm_refl].
Qed.
Lemma Tm_restart_routine s k cond : Tm s (fst (restart_routine s k cond)).
Proof.
  unfold restart_routine. eapply Tm_trans; [apply Tm_norm_ctx|]. generalize (norm_ctx s). clear s. intros s. unfold restart_core.
  destruct (lookup (kmap s) k) as [r|]; [|apply Tm_refl].
  destruct (negb (has_ctx s)); [apply Tm_refl|]. destruct (negb (cond_match cond k)); [apply Tm_refl|]. cbn [fst].
  eapply (Tm_trans _ (setr (cancel_inst s (rcancel (getr s r))) r (with_cancel (getr s r) None))); [eapply Tm_trans; [apply Tm_cancel_inst | tme]|].
  apply Tm_start_rec.
Qed.
Lemma Tm_all_step f cond acc k : (forall s k c, Tm s (fst (f s k c))) -> Tm (fst acc) (fst (all_step f cond acc k)).
Proof. intros Hf. destruct acc as [s n]. unfold all_step. pose proof (Hf s k cond) as G. destruct (f s k cond) as [s' [ex rs]]. exact G. Qed.
Lemma Tm_reset_all fx s cond : Tm s (fst (reset_all fx s cond)).
Proof.
  unfold reset_all.
  pose proof (Tm_fold_acc (fun acc : st * nat => fst acc) (all_step (reset_routine fx) cond) (fun a e => Tm_all_step _ cond a e (Tm_reset_routine fx)) (map fst (kmap s)) (s, 0)) as G.
  destruct (fold_left _ _ (s, 0)) as [s' n]. exact G.
Qed.
Lemma Tm_restart_all s cond : Tm s (fst (restart_all s cond)).
Proof.
  unfold restart_all.
  pose proof (Tm_fold_acc (fun acc : st * nat => fst acc) (all_step restart_routine cond) (fun a e => Tm_all_step _ cond a e Tm_restart_routine) (map fst (kmap s)) (s, 0)) as G.
  destruct (fold_left _ _ (s, 0)) as [s' n]. exact G.
Qed.
Lemma Tm_add_key_ref fx s k : Tm s (fst (add_key_ref fx s k)).
Proof. unfold add_key_ref. pose proof (Tm_set_key fx s k true) as G. destruct (set_key fx s k true) as [s1 res]. cbn [fst] in *. eapply Tm_trans; [exact G | tme]. Qed.
Lemma Tm_release_start s f : Tm s (release_start s f).
Proof. unfold release_start. destruct (nth_error (refs s) f) as [x|]; [|apply Tm_refl]. destruct (frel x); [apply Tm_refl | tme]. Qed.
Lemma Tm_release_section s a : Tm s (release_section s a).
Proof.
  unfold release_section. destruct (nth_error (rels s) a) as [l|]; [|apply Tm_refl]. destruct (lparked l); [|apply Tm_refl].
  set (s1 := set_rels s _). assert (G1 : Tm s s1) by tme.
  destruct (nth_error (refs s1) (lref l)) as [x|]; [|exact G1]. destruct (fin x); [|exact G1].
  set (s2 := set_refs s1 _). assert (G2 : Tm s s2) by tme.
  destruct (Nat.eqb _ 0); [eapply Tm_trans; [exact G2 | apply Tm_remove_key] | exact G2].
Qed.
Lemma Tm_rc_remove_key s k : Tm s (fst (rc_remove_key s k)).
Proof. unfold rc_remove_key. eapply Tm_trans; [|apply Tm_remove_key]. tme. Qed.
Ltac casesT := repeat match goal with |- context [match ?x with _ => _ end] => destruct x end.
Lemma Tm_proceed fx s i en : Tm s (proceed fx s i en). Proof. unfold proceed. casesT; auto using Tm_refl, Tm_seti. Qed.
Lemma Tm_wake fx s i en : Tm s (wake fx s i en). Proof. unfold wake. casesT; auto using Tm_refl, Tm_seti. Qed.
Lemma Tm_fn_return s i o : Tm s (fn_return s i o). Proof. unfold fn_return. casesT; auto using Tm_refl, Tm_seti. Qed.
Lemma Tm_bookkeep s i : Tm s (bookkeep s i).
Proof.
  unfold bookkeep. destruct (nth_error (insts s) i) as [x|]; [|apply Tm_refl]. destruct (ipcv x); try apply Tm_refl.
  set (s0 := seti s i (with_pc x IDone)). assert (G0 : Tm s s0) by tme.
  destruct (rctx (getr s (irec x))) as [j|]; [|exact G0]. destruct (Nat.eqb j i); [|exact G0].
  assert (G : forall S y, Tm s S -> Tm s (set_cblog (setr S (irec x) y) (cblog (setr S (irec x) y) ++ [(rkey (getr s (irec x)), rdata (getr s (irec x)), o)]))).
  { intros S y HS. eapply Tm_trans; [exact HS | tme]. }
  destruct (script s0) as [l|]; [|now apply G].
  assert (G' : Tm s (stop_timer s0 (rretry (getr s (irec x))))) by (eapply Tm_trans; [exact G0 | apply Tm_stop_timer]).
  destruct (is_nil o); [now apply G|]. destruct (in_map _ _); [|now apply G].
  destruct (nth_error l _); [|now apply G]. apply G. eapply Tm_trans; [exact G' | apply Tm_append; reflexivity].
Qed.
Lemma Tm_timer_cb fx s t : Tm s (timer_cb fx s t).
Proof.
  unfold timer_cb. destruct (nth_error (timers s) t) as [x|] eqn:Ex; [|apply Tm_refl]. destruct (tst x) eqn:Es; try apply Tm_refl.
  set (s1 := set_timers s _). assert (G1 : Tm s s1) by (now apply Tm_set_ran).
  destruct (tkind x).
  - destruct (in_map s1 (trec x) && _); [|exact G1].
    eapply Tm_trans; [exact G1|]. eapply Tm_trans; [|apply Tm_remove_now]. eapply Tm_trans; [apply Tm_stop_timer | tme].
  - destruct (has_ctx s1 && in_map s1 (trec x) && rexited (getr s1 (trec x))); [eapply Tm_trans; [exact G1 | apply Tm_start_rec] | exact G1].
Qed.

Lemma InvClk_advance s d : InvClk s -> InvClk (advance s d).
Proof.
  intros H t x' Hx F. unfold advance in *. cbn [timers clock set_timers set_clock] in *.
  rewrite nth_error_map in Hx. destruct (nth_error (timers s) t) as [x|] eqn:Ex; [|discriminate]. cbn in Hx. inversion Hx; subst x'. clear Hx.
  unfold fire in *. destruct (tst x) eqn:Es.
  - destruct (N.leb_spec (tdead x) (clock s + d)); [cbn; exact H0|]. destruct F as [F|F]; congruence.
  - specialize (H t x Ex (or_introl Es)). lia.
  - destruct F as [F|F]; congruence.
  - specialize (H t x Ex (or_intror Es)). lia.
Qed.

Theorem step_InvClk fx s e : InvClk s -> InvClk (step fx s e).
Proof.
  intros H. destruct e; cbn [step]; try (now apply InvClk_advance); (eapply Tm_InvClk; [|exact H]).
  - apply Tm_set_context. - apply Tm_set_key. - apply Tm_remove_key. - apply Tm_sync_keys. - apply Tm_refl.
  - apply Tm_reset_routine. - apply Tm_restart_routine. - apply Tm_reset_all. - apply Tm_restart_all.
  - apply Tm_add_key_ref. - apply Tm_release_start. - apply Tm_release_section. - apply Tm_rc_remove_key.
  - apply Tm_proceed. - apply Tm_wake. - apply Tm_fn_return. - apply Tm_bookkeep.
  - apply Tm_timer_cb.
  - unfold cancel_root. destruct (Nat.eqb c 0); [apply Tm_refl | tme].
  - tme.
Qed.

Theorem run_InvClk fx dl sc es : InvClk (run fx (init dl sc) es).
Proof. unfold run. apply fold_inv; [intros s e; apply step_InvClk|]. intros [|t] x Hx; discriminate. Qed.
