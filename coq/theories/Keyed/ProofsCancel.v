(* keyed: root contexts cancelled by their owner.  An instance context is a context.WithCancel child of the root it
   was started under: in every reachable state an instance whose root is cancelled is cancelled (born cancelled, or
   cancelled with the root); the container itself is not told - it drops a cancelled root at the next SyncKeys /
   ResetRoutine / RestartRoutine call and starts nothing there. *)
From Util Require Import Common.Base Common.ListLemmas Keyed.Model Keyed.Proofs Keyed.ProofsC07.

Definition InvC (s : st) : Prop :=
  forall i x, nth_error (insts s) i = Some x -> root_canc s (iroot x) = true -> icanc x = true.

Lemma InvC_ext s s' : insts s' = insts s -> croots s' = croots s -> InvC s -> InvC s'.
Proof. intros E1 E2 H i x Hx Hr. unfold root_canc in Hr. rewrite E1 in Hx. rewrite E2 in Hr. exact (H i x Hx Hr). Qed.
Ltac cext := apply InvC_ext; reflexivity.

Lemma InvC_seti s i x x' :
  nth_error (insts s) i = Some x -> iroot x' = iroot x -> (icanc x = true -> icanc x' = true) -> InvC s -> InvC (seti s i x').
Proof.
  intros Hx Er Hc H j y Hy Hr. assert (Hil : i < length (insts s)) by (eapply nth_error_nth_len; eauto).
  rewrite insts_seti in Hy. change (root_canc (seti s i x') (iroot y)) with (root_canc s (iroot y)) in Hr.
  destruct (Nat.eq_dec j i) as [->|Hne].
  - rewrite nth_error_set_nth_same in Hy by exact Hil. inversion Hy; subst y. apply Hc. apply (H i x Hx). now rewrite <- Er.
  - rewrite nth_error_set_nth_other in Hy by exact Hne. exact (H j y Hy Hr).
Qed.
Lemma InvC_pc s i x p : nth_error (insts s) i = Some x -> InvC s -> InvC (seti s i (with_pc x p)).
Proof. intros Hx. apply (InvC_seti s i x); auto. Qed.
Lemma InvC_over s i x o : nth_error (insts s) i = Some x -> InvC s -> InvC (seti s i (with_over x o)).
Proof. intros Hx. apply (InvC_seti s i x); auto. Qed.

Lemma InvC_cancel_inst s oi : InvC s -> InvC (cancel_inst s oi).
Proof.
  intros H. unfold cancel_inst. destruct oi as [i|]; [|exact H]. destruct (nth_error (insts s) i) as [x|] eqn:E; [|exact H].
  apply (InvC_seti s i x); auto.
Qed.
Lemma InvC_stop_timer s ot : InvC s -> InvC (stop_timer s ot).
Proof.
  apply InvC_ext; [apply stop_timer_frame|]. unfold stop_timer. destruct ot as [t|]; [|reflexivity].
  destruct (nth_error (timers s) t) as [x|]; [|reflexivity]. destruct (tst x); reflexivity.
Qed.
Lemma InvC_setr s r y : InvC s -> InvC (setr s r y). Proof. cext. Qed.
Lemma croots_cancel_inst s oi : croots (cancel_inst s oi) = croots s.
Proof. unfold cancel_inst. destruct oi as [i|]; [|reflexivity]. destruct (nth_error (insts s) i); reflexivity. Qed.
Lemma croots_stop_timer s ot : croots (stop_timer s ot) = croots s.
Proof. unfold stop_timer. destruct ot as [t|]; [|reflexivity]. destruct (nth_error (timers s) t) as [x|]; [|reflexivity]. destruct (tst x); reflexivity. Qed.

(* start: the new instance is born with the cancellation state of the root it is given *)
Lemma InvC_start_rec s r c w f : InvC s -> InvC (start_rec s r c w f).
Proof.
  intros H. unfold start_rec. set (x := getr s r).
  destruct (negb f && rsucc x || rnil x); [exact H|].
  destruct (negb f && is_some (rctx x) && negb (rexited x) && ctx_live s (rctx x)); [exact H|].
  cbn zeta. set (s2 := cancel_inst (stop_timer s (rretry x)) (rcancel x)).
  assert (H2 : InvC s2) by (apply InvC_cancel_inst, InvC_stop_timer, H).
  assert (E2 : croots s2 = croots s) by (unfold s2; now rewrite croots_cancel_inst, croots_stop_timer).
  apply InvC_setr. intros i y Hy Hr. cbn [insts set_insts] in Hy.
  unfold root_canc in Hr. cbn [croots set_insts] in Hr.
  destruct (nth_error_app_inv _ _ _ _ Hy) as [G| ->]; [exact (H2 i y G Hr)|].
  cbn [icanc iroot] in *. unfold root_canc. now rewrite <- E2.
Qed.

Lemma InvC_remove_now s r : InvC s -> InvC (remove_now s r).
Proof.
  intros H. unfold remove_now. set (s2 := stop_timer (cancel_inst s (rcancel (getr s r))) (rretry (getr s r))).
  assert (H2 : InvC s2) by (apply InvC_stop_timer, InvC_cancel_inst, H).
  generalize (InvC_setr s2 r (with_retry (getr s2 r) None) H2). cext.
Qed.
Lemma InvC_remove_rec s r : InvC s -> InvC (remove_rec s r).
Proof.
  intros H. unfold remove_rec. destruct (rremove (getr s r)); [exact H|].
  destruct (N.eqb (delay s) 0 || failed (getr s r)); [now apply InvC_remove_now|]. apply InvC_setr. revert H. cext.
Qed.
Lemma InvC_unremove s r : InvC s -> InvC (unremove s r).
Proof. intros H. unfold unremove. destruct (rremove (getr s r)); [|exact H]. now apply InvC_setr, InvC_stop_timer. Qed.
Lemma InvC_unretry s r : InvC s -> InvC (unretry s r).
Proof. intros H. unfold unretry. destruct (rretry (getr s r)); [|exact H]. now apply InvC_setr, InvC_stop_timer. Qed.
Lemma InvC_new_record s k lin w : InvC s -> InvC (fst (new_record s k lin w)). Proof. cext. Qed.

Lemma InvC_set_key fx s k st : InvC s -> InvC (fst (set_key fx s k st)).
Proof.
  intros H. unfold set_key. destruct (lookup (kmap s) k) as [r|].
  - cbn [fst]. assert (H2 : InvC (if fx_setkey fx then unremove s r else unretry (unremove s r) r))
      by (destruct (fx_setkey fx); [now apply InvC_unremove | now apply InvC_unretry, InvC_unremove]).
    destruct (st && has_ctx _); [now apply InvC_start_rec | exact H2].
  - pose proof (InvC_new_record s k (nlin s) None H) as G. destruct (new_record s k (nlin s) None) as [s1 r]. cbn [fst] in *.
    assert (H2 : InvC (set_nlin s1 (S (nlin s1)))) by (revert G; cext).
    destruct (has_ctx _); [now apply InvC_start_rec | exact H2].
Qed.
Lemma InvC_remove_key s k : InvC s -> InvC (fst (remove_key s k)).
Proof. intros H. unfold remove_key. destruct (lookup (kmap s) k); cbn [fst]; [now apply InvC_remove_rec | exact H]. Qed.
Lemma InvC_norm_ctx s : InvC s -> InvC (norm_ctx s).
Proof. unfold norm_ctx. destruct (root_canc s (kctx s)); [cext | auto]. Qed.

Lemma InvC_sync_one fx restart acc k : InvC (fst (fst acc)) -> InvC (fst (fst (sync_one fx restart acc k))).
Proof.
  destruct acc as [[s seen] added]. cbn [fst]. intros H. unfold sync_one. destruct (mem k seen); [exact H|].
  destruct (lookup (kmap s) k) as [r|].
  - cbn [fst]. assert (H1 : InvC (if fx_sync fx then unremove s r else s)) by (destruct (fx_sync fx); [now apply InvC_unremove | exact H]).
    destruct (restart && has_ctx _); [now apply InvC_start_rec | exact H1].
  - pose proof (InvC_new_record s k (nlin s) None H) as G. destruct (new_record s k (nlin s) None) as [s1 r]. cbn [fst] in *.
    assert (H2 : InvC (set_nlin s1 (S (nlin s1)))) by (revert G; cext).
    destruct (has_ctx _); [now apply InvC_start_rec | exact H2].
Qed.
Lemma InvC_sync_rm keys acc k : InvC (fst acc) -> InvC (fst (sync_rm keys acc k)).
Proof. destruct acc as [s removed]. cbn [fst]. intros H. unfold sync_rm. destruct (mem k keys); cbn [fst]; [exact H | now apply InvC_remove_key]. Qed.
Lemma InvC_sync_keys fx s keys restart : InvC s -> InvC (fst (sync_keys fx s keys restart)).
Proof.
  intros H. unfold sync_keys. apply InvC_norm_ctx in H. revert H. generalize (norm_ctx s). clear s. intros s H. unfold sync_core.
  pose proof (fold_inv_acc (fun acc => InvC (fst (fst acc))) (sync_one fx restart) (InvC_sync_one fx restart) keys (s, [], []) H) as G1.
  destruct (fold_left (sync_one fx restart) keys (s, [], [])) as [[s1 seen] added]. cbn [fst] in G1.
  pose proof (fold_inv_acc (fun acc => InvC (fst acc)) (sync_rm keys) (InvC_sync_rm keys) (map fst (kmap s1)) (s1, []) G1) as G2.
  destruct (fold_left (sync_rm keys) (map fst (kmap s1)) (s1, [])) as [s2 removed]. exact G2.
Qed.
Lemma InvC_ctx_key c same restart s k : InvC s -> InvC (ctx_key c same restart s k).
Proof.
  intros H. unfold ctx_key. destruct (lookup (kmap s) k) as [r|]; [|exact H]. destruct (same && is_nil (rerr (getr s r))); [exact H|].
  assert (H2 : InvC (setr (cancel_inst s (rcancel (getr s r))) r (with_noctx (getr s r)))) by (now apply InvC_setr, InvC_cancel_inst).
  destruct (_ && negb (Nat.eqb c 0)); [now apply InvC_start_rec | exact H2].
Qed.
Lemma InvC_set_context s c restart : InvC s -> InvC (set_context s c restart).
Proof.
  intros H. unfold set_context. destruct (Nat.eqb (kctx s) c && negb restart); [exact H|].
  apply fold_inv_acc; [intros a e; apply InvC_ctx_key | revert H; cext].
Qed.
Lemma InvC_reset_routine fx s k cond : InvC s -> InvC (fst (reset_routine fx s k cond)).
Proof.
  intros H. unfold reset_routine. apply InvC_norm_ctx in H. revert H. generalize (norm_ctx s). clear s. intros s H. unfold reset_core.
  destruct (lookup (kmap s) k) as [r|]; [|exact H]. destruct (negb (cond_match cond k)); [exact H|].
  set (s1 := cancel_inst s (rcancel (getr s r))). match goal with |- context [new_record s1 k _ ?w] => set (w0 := w) end.
  pose proof (InvC_new_record s1 k (rlin (getr s r)) w0 (InvC_cancel_inst s _ H)) as G.
  destruct (new_record s1 k (rlin (getr s r)) w0) as [s2 r2]. cbn [fst] in *.
  destruct (has_ctx s2); [now apply InvC_start_rec | exact G].
Qed.
Lemma InvC_restart_routine s k cond : InvC s -> InvC (fst (restart_routine s k cond)).
Proof.
  intros H. unfold restart_routine. apply InvC_norm_ctx in H. revert H. generalize (norm_ctx s). clear s. intros s H. unfold restart_core.
  destruct (lookup (kmap s) k) as [r|]; [|exact H]. destruct (negb (has_ctx s)); [exact H|]. destruct (negb (cond_match cond k)); [exact H|].
  cbn [fst]. now apply InvC_start_rec, InvC_setr, InvC_cancel_inst.
Qed.
Lemma InvC_all_step f cond acc k :
  (forall s k c, InvC s -> InvC (fst (f s k c))) -> InvC (fst acc) -> InvC (fst (all_step f cond acc k)).
Proof. intros Hf. destruct acc as [s n]. cbn [fst]. intros H. unfold all_step. pose proof (Hf s k cond H) as G. destruct (f s k cond) as [s' [ex rs]]. exact G. Qed.
Lemma InvC_reset_all fx s cond : InvC s -> InvC (fst (reset_all fx s cond)).
Proof.
  intros H. unfold reset_all.
  pose proof (fold_inv_acc (fun acc => InvC (fst acc)) (all_step (reset_routine fx) cond)
                (fun a e => InvC_all_step _ cond a e (InvC_reset_routine fx)) (map fst (kmap s)) (s, 0) H) as G.
  destruct (fold_left _ _ (s, 0)) as [s' n]. exact G.
Qed.
Lemma InvC_restart_all s cond : InvC s -> InvC (fst (restart_all s cond)).
Proof.
  intros H. unfold restart_all.
  pose proof (fold_inv_acc (fun acc => InvC (fst acc)) (all_step restart_routine cond)
                (fun a e => InvC_all_step _ cond a e InvC_restart_routine) (map fst (kmap s)) (s, 0) H) as G.
  destruct (fold_left _ _ (s, 0)) as [s' n]. exact G.
Qed.
Lemma InvC_add_key_ref fx s k : InvC s -> InvC (fst (add_key_ref fx s k)).
Proof. intros H. unfold add_key_ref. pose proof (InvC_set_key fx s k true H) as G. destruct (set_key fx s k true) as [s1 res]. cbn [fst] in *. revert G. cext. Qed.
Lemma InvC_release_start s f : InvC s -> InvC (release_start s f).
Proof. intros H. unfold release_start. destruct (nth_error (refs s) f) as [x|]; [|exact H]. destruct (frel x); [exact H|]. revert H. cext. Qed.
Lemma InvC_release_section s a : InvC s -> InvC (release_section s a).
Proof.
  intros H. unfold release_section. destruct (nth_error (rels s) a) as [l|]; [|exact H]. destruct (lparked l); [|exact H].
  set (s1 := set_rels s _). assert (H1 : InvC s1) by (revert H; cext).
  destruct (nth_error (refs s1) (lref l)) as [x|]; [|exact H1]. destruct (fin x); [|exact H1].
  set (s2 := set_refs s1 _). assert (H2 : InvC s2) by (revert H1; cext).
  destruct (Nat.eqb _ 0); [now apply InvC_remove_key | exact H2].
Qed.
Lemma InvC_rc_remove_key s k : InvC s -> InvC (fst (rc_remove_key s k)).
Proof. intros H. unfold rc_remove_key. apply InvC_remove_key. revert H. cext. Qed.
Ltac casesC := repeat match goal with |- context [match ?x with _ => _ end] => destruct x eqn:? end.
Lemma InvC_proceed fx s i en : InvC s -> InvC (proceed fx s i en).
Proof. intros H. unfold proceed. casesC; auto using InvC_pc, InvC_over. Qed.
Lemma InvC_wake fx s i en : InvC s -> InvC (wake fx s i en).
Proof. intros H. unfold wake. casesC; auto using InvC_pc, InvC_over. Qed.
Lemma InvC_fn_return s i o : InvC s -> InvC (fn_return s i o).
Proof. intros H. unfold fn_return. casesC; auto using InvC_pc, InvC_over. Qed.
Lemma InvC_bookkeep s i : InvC s -> InvC (bookkeep s i).
Proof.
  intros H. unfold bookkeep. destruct (nth_error (insts s) i) as [x|] eqn:Ex; [|exact H]. destruct (ipcv x) eqn:Ep; try exact H.
  assert (H0 : InvC (seti s i (with_pc x IDone))) by (now apply InvC_pc). set (s0 := seti s i (with_pc x IDone)) in *.
  destruct (rctx (getr s (irec x))) as [j|]; [|exact H0]. destruct (Nat.eqb j i); [|exact H0].
  assert (G : forall S y l, InvC S -> InvC (set_cblog (setr S (irec x) y) l)) by (intros S y l HS; revert HS; cext).
  destruct (script s0) as [l|]; [|now apply G].
  assert (G' : InvC (stop_timer s0 (rretry (getr s (irec x))))) by (now apply InvC_stop_timer).
  destruct (is_nil o); [now apply G|]. destruct (in_map _ _); [|now apply G].
  destruct (nth_error l _); [|now apply G]. apply G. revert G'. cext.
Qed.
Lemma InvC_timer_cb fx s t : InvC s -> InvC (timer_cb fx s t).
Proof.
  intros H. unfold timer_cb. destruct (nth_error (timers s) t) as [x|]; [|exact H]. destruct (tst x); try exact H.
  set (s1 := set_timers s _). assert (H1 : InvC s1) by (revert H; cext).
  destruct (tkind x).
  - destruct (in_map s1 (trec x) && _); [|exact H1]. now apply InvC_remove_now, InvC_setr, InvC_stop_timer.
  - destruct (has_ctx s1 && in_map s1 (trec x) && rexited (getr s1 (trec x))); [now apply InvC_start_rec | exact H1].
Qed.

(* the owner cancels root c: every instance started under c is cancelled with it, nothing else changes *)
Lemma cancel_root_effect s c :
  c <> 0 ->
  root_canc (cancel_root s c) c = true /\
  (forall i x, nth_error (insts (cancel_root s c)) i = Some x -> iroot x = c -> icanc x = true) /\
  kctx (cancel_root s c) = kctx s /\ kmap (cancel_root s c) = kmap s /\ recs (cancel_root s c) = recs s /\
  timers (cancel_root s c) = timers s /\ length (insts (cancel_root s c)) = length (insts s).
Proof.
  intros Hc. unfold cancel_root. destruct (Nat.eqb_spec c 0) as [E|_]; [contradiction|].
  split; [unfold root_canc; cbn [croots set_croots existsb]; now rewrite Nat.eqb_refl|].
  split; [|cbn [insts set_croots set_insts]; rewrite map_length; repeat split; reflexivity].
  intros i y Hy Hr. cbn [insts set_croots set_insts] in Hy. destruct (nth_error_map_inv _ _ i y Hy) as [x [Hx ->]].
  destruct (Nat.eqb_spec (iroot x) c) as [E|E]; [reflexivity | contradiction].
Qed.

Lemma InvC_cancel_root s c : InvC s -> InvC (cancel_root s c).
Proof.
  intros H. unfold cancel_root. destruct (Nat.eqb c 0); [exact H|].
  intros i y Hy Hr. cbn [insts set_croots set_insts] in Hy. destruct (nth_error_map_inv _ _ i y Hy) as [x [Hx ->]].
  unfold root_canc in Hr. cbn [croots set_croots existsb] in Hr.
  destruct (Nat.eqb_spec (iroot x) c) as [E|E]; [reflexivity|].
  apply (H i x Hx). unfold root_canc. destruct (Nat.eqb_spec (iroot x) c) as [E'|_]; [contradiction | exact Hr].
Qed.

Theorem step_InvC fx s e : InvC s -> InvC (step fx s e).
Proof.
  intros H. destruct e; cbn [step].
  - now apply InvC_set_context. - now apply InvC_set_key. - now apply InvC_remove_key. - now apply InvC_sync_keys. - exact H.
  - now apply InvC_reset_routine. - now apply InvC_restart_routine. - now apply InvC_reset_all. - now apply InvC_restart_all.
  - now apply InvC_add_key_ref. - now apply InvC_release_start. - now apply InvC_release_section. - now apply InvC_rc_remove_key.
  - now apply InvC_proceed. - now apply InvC_wake. - now apply InvC_fn_return. - now apply InvC_bookkeep.
  - unfold advance. revert H. cext.
  - now apply InvC_timer_cb.
  - now apply InvC_cancel_root.
  - revert H. cext.
Qed.
Theorem run_InvC fx dl sc es : InvC (run fx (init dl sc) es).
Proof. unfold run. apply fold_inv; [intros s e; apply step_InvC|]. intros [|i] x Hx; discriminate. Qed.

(* the container drops a cancelled root at the next SyncKeys / ResetRoutine / RestartRoutine call, and that call starts
   nothing *)
Lemma dropped_by s s' : root_canc s (kctx s) = true -> NS (norm_ctx s) s' -> kctx s' = 0 /\ length (insts s') = length (insts s).
Proof.
  intros Hc [A B]. unfold norm_ctx in *. rewrite Hc in *. cbn [kctx set_kctx] in *.
  split; [destruct A; assumption | apply B; reflexivity].
Qed.
Lemma norm_ctx_idem s : norm_ctx (norm_ctx s) = norm_ctx s.
Proof.
  unfold norm_ctx. destruct (root_canc s (kctx s)) eqn:E; [|now rewrite E].
  destruct (root_canc (set_kctx s 0) (kctx (set_kctx s 0))); reflexivity.
Qed.
Theorem cancelled_root_dropped s :
  root_canc s (kctx s) = true ->
  (forall ks restart, let s' := fst (sync_keys repaired s ks restart) in kctx s' = 0 /\ length (insts s') = length (insts s)) /\
  (forall k cond, let s' := fst (reset_routine repaired s k cond) in kctx s' = 0 /\ length (insts s') = length (insts s)) /\
  (forall k cond, let s' := fst (restart_routine s k cond) in kctx s' = 0 /\ length (insts s') = length (insts s) /\
                                                            snd (snd (restart_routine s k cond)) = false).
Proof.
  intros Hc. split; [|split].
  - intros ks restart. cbn zeta. apply dropped_by; [exact Hc|]. unfold sync_keys.
    pose proof (NS_sync_keys (norm_ctx s) ks restart) as G. unfold sync_keys in G.
    now rewrite norm_ctx_idem in G.
  - intros k cond. cbn zeta. apply dropped_by; [exact Hc|].
    pose proof (NS_reset_routine (norm_ctx s) k cond) as G. unfold reset_routine in *.
    now rewrite norm_ctx_idem in G.
  - intros k cond. cbn zeta.
    assert (G : NS (norm_ctx s) (fst (restart_routine s k cond))).
    { pose proof (NS_restart_routine (norm_ctx s) k cond) as G. unfold restart_routine in *.
      now rewrite norm_ctx_idem in G. }
    destruct (dropped_by s _ Hc G) as [A B]. split; [exact A|]. split; [exact B|].
    unfold restart_routine, restart_core, norm_ctx. rewrite Hc. cbn [kmap set_kctx has_ctx kctx Nat.eqb negb].
    destruct (lookup (kmap s) k); reflexivity.
Qed.
