(* keyed: the request-level reference machine of the monitors (Spec.r_step: keys in N, pending removals by DEADLINE, failed
   flags) simulates the reference specification of the key set (AbsSpec / ProofsReset: keys in nat, pending removals by
   timer TOKEN), operation by operation, given the deadline of every token and the failed flag of every key.  Pure: no
   model state here. *)
From Util Require Import Common.Base Common.ListLemmas Keyed.Model Keyed.Spec Keyed.Proofs Keyed.AbsSpec Keyed.ProofsC06 Keyed.ProofsC06b
  Keyed.ProofsKeys Keyed.ProofsMon Keyed.ProofsMon2 Keyed.ProofsInc Keyed.ProofsRef Keyed.ProofsReset.
Open Scope N_scope.

Definition kin (D : nat -> N) (f : bool) (v : aval) : Spec.kinfo := {| ki_data := fst v; ki_pend := option_map D (snd v); ki_failed := f |}.
Definition actor (a : ast) (k : nat) : nat := match lookup (a_ctors a) k with Some c => c | None => 0%nat end.
Definition fresh_a (a : ast) (k : nat) : N := N.of_nat k * 1000 + N.of_nat (S (actor a k)).

Record RA (D : nat -> N) (F : nat -> bool) (a : ast) (r : rst) : Prop := {
  ra_keys : forall k, alook (r_keys r) k = option_map (kin D (F (n2n k))) (lookup (a_keys a) (n2n k));
  ra_ctor : forall k, ctorN r k = N.of_nat (actor a (n2n k));
  ra_sorted : asorted (map fst (r_keys r));
  ra_asorted : ssorted (map fst (a_keys a));
  ra_refs : r_refs r = map rref_of (a_refs a);
  ra_rels : r_rels r = map lref (a_rels a);
}.

Lemma eqb_n2n a b : Nat.eqb (n2n a) (n2n b) = N.eqb a b.
Proof. destruct (N.eqb_spec a b) as [->|H]; [apply Nat.eqb_refl|]. apply Nat.eqb_neq. intros E. apply H, n2n_inj, E. Qed.
Lemma fresh_eq D F a r k : RA D F a r -> fresh_d r k = fresh_a a (n2n k).
Proof. intros H. unfold fresh_d, fresh_a. rewrite (ra_ctor _ _ _ _ H), N_of_n2n. lia. Qed.

(* the key lists agree *)
Lemma lookup_In_keys {A} (m : list (nat * A)) k : In k (map fst m) -> exists v, lookup m k = Some v.
Proof.
  induction m as [|[k' v'] t IH]; cbn [lookup map fst]; [intros []|].
  destruct (Nat.eqb_spec k' k) as [->|Hne]; [eauto|]. intros [E|H]; [contradiction | auto].
Qed.
Lemma RA_keys D F a r : RA D F a r -> map fst (r_keys r) = map N.of_nat (map fst (a_keys a)).
Proof.
  intros H. apply asorted_ext; [apply H | apply asorted_of_nat, H|]. intros k. rewrite In_of_nat. split; intros I.
  - apply In_alook in I as [v Hv]. rewrite (ra_keys _ _ _ _ H) in Hv. destruct (lookup (a_keys a) (n2n k)) eqn:E; [|discriminate]. eapply lookup_in_keys'; eauto.
  - apply lookup_In_keys in I as [v Hv]. pose proof (ra_keys _ _ _ _ H k) as G. rewrite Hv in G. eapply alook_In; eauto.
Qed.
Lemma RA_ahas D F a r k : RA D F a r -> ahas (r_keys r) k = is_some (lookup (a_keys a) (n2n k)).
Proof. intros H. unfold ahas. rewrite (ra_keys _ _ _ _ H). destruct (lookup (a_keys a) (n2n k)); reflexivity. Qed.

(* another deadline function that agrees on the tokens in use, other flags for absent keys *)
Lemma RA_ext D D' F F' a r :
  (forall k d t, lookup (a_keys a) k = Some (d, Some t) -> D' t = D t) -> (forall k v, lookup (a_keys a) k = Some v -> F' k = F k) ->
  RA D F a r -> RA D' F' a r.
Proof.
  intros HD HF [A B C E G I]. constructor; auto. intros k. rewrite A. destruct (lookup (a_keys a) (n2n k)) as [[d [t|]]|] eqn:Ek; cbn [option_map]; [| |reflexivity].
  - unfold kin. cbn [fst snd option_map]. now rewrite (HD _ _ _ Ek), (HF _ _ Ek).
  - unfold kin. cbn [fst snd option_map]. now rewrite (HF _ _ Ek).
Qed.

(* ------------------------------------------------------------------ *)
(* the specification's operations, extensionally *)
Definition req_val (a : ast) (k : nat) : aval := match lookup (a_keys a) k with Some (d, _) => (d, None) | None => (fresh_a a k, None) end.
Lemma a_request_spec a k :
  (forall k', lookup (a_keys (fst (a_request a k))) k' = if Nat.eqb k' k then Some (req_val a k) else lookup (a_keys a) k') /\
  snd (a_request a k) = (fst (req_val a k), is_some (lookup (a_keys a) k)) /\
  (forall k', actor (fst (a_request a k)) k' = if Nat.eqb k' k && negb (is_some (lookup (a_keys a) k)) then S (actor a k) else actor a k') /\
  a_ntok (fst (a_request a k)) = a_ntok a /\ a_refs (fst (a_request a k)) = a_refs a /\ a_rels (fst (a_request a k)) = a_rels a /\
  (ssorted (map fst (a_keys a)) -> ssorted (map fst (a_keys (fst (a_request a k))))).
Proof.
  unfold a_request, req_val, fresh_a, actor. destruct (lookup (a_keys a) k) as [[d p]|] eqn:E; cbn [fst snd a_keys a_ctors a_ntok a_refs a_rels set_a_keys is_some negb].
  - repeat split; auto.
    + intros k'. destruct (Nat.eqb_spec k' k) as [->|Hne]; [apply lookup_insert_same | now apply lookup_insert_other].
    + intros k'. now rewrite andb_false_r.
    + intros Hs. rewrite keys_insert. now apply ssorted_kins.
  - repeat split; auto.
    + intros k'. destruct (Nat.eqb_spec k' k) as [->|Hne]; [apply lookup_insert_same | now apply lookup_insert_other].
    + intros k'. rewrite andb_true_r. destruct (Nat.eqb_spec k' k) as [->|Hne]; [now rewrite lookup_insert_same | now rewrite lookup_insert_other].
    + intros Hs. rewrite keys_insert. now apply ssorted_kins.
Qed.

Definition rm_val (a : ast) (now : bool) (v : aval) : option aval :=
  match snd v with Some _ => Some v | None => if now then None else Some (fst v, Some (a_ntok a)) end.
Lemma a_remove_spec a k now :
  (forall k', lookup (a_keys (fst (a_remove a k now))) k' =
     if Nat.eqb k' k then match lookup (a_keys a) k with Some v => rm_val a now v | None => None end else lookup (a_keys a) k') /\
  snd (a_remove a k now) = is_some (lookup (a_keys a) k) /\
  a_ctors (fst (a_remove a k now)) = a_ctors a /\ (a_ntok a <= a_ntok (fst (a_remove a k now)))%nat /\
  a_refs (fst (a_remove a k now)) = a_refs a /\ a_rels (fst (a_remove a k now)) = a_rels a /\
  (ssorted (map fst (a_keys a)) -> ssorted (map fst (a_keys (fst (a_remove a k now))))).
Proof.
  split.
  - intros k'. destruct (Nat.eqb_spec k' k) as [->|Hne]; [|now apply a_remove_other]. rewrite a_remove_same.
    unfold rm_val. destruct (lookup (a_keys a) k) as [[d [t|]]|]; reflexivity.
  - unfold a_remove. destruct (lookup (a_keys a) k) as [[d [t|]]|] eqn:E; cbn [fst snd is_some]; [repeat split; auto| |repeat split; auto].
    destruct now; cbn [fst snd a_keys a_ctors a_ntok a_refs a_rels set_a_keys]; repeat split; auto.
    + intros Hs. rewrite keys_delete. now apply ssorted_kdel.
    + intros Hs. rewrite keys_insert. now apply ssorted_kins.
Qed.

(* ------------------------------------------------------------------ *)
(* one request / one removal request *)
Section Sim.
  Variables (D : nat -> N) (F : nat -> bool) (dl clk : N) (n0 : nat).
  Hypothesis DN : forall t, (n0 <= t)%nat -> D t = clk + dl.

  Lemma sim_request a r k :
    RA D F a r -> (lookup (a_keys a) (n2n k) = None -> F (n2n k) = false) ->
    RA D F (fst (a_request a (n2n k))) (fst (r_request r k)) /\
    snd (r_request r k) = snd (a_request a (n2n k)).
  Proof.
    intros H HF. destruct (a_request_spec a (n2n k)) as (A1 & A2 & A3 & A4 & A5 & A6 & A7). destruct (r_request_spec r k) as (B1 & B2 & B3 & B4).
    pose proof (ra_keys _ _ _ _ H k) as Ek. split.
    - constructor.
      + intros k'. rewrite B1, A1, eqb_n2n. destruct (N.eqb_spec k' k) as [->|Hne]; [|apply H].
        cbn [option_map]. f_equal. unfold req_val. rewrite Ek. destruct (lookup (a_keys a) (n2n k)) as [[d p]|] eqn:E; cbn [option_map].
        * reflexivity.
        * unfold fresh_i, kin. cbn [fst snd option_map]. rewrite (fresh_eq _ _ _ _ k H), (HF eq_refl). reflexivity.
      + intros k'. rewrite B3, A3, eqb_n2n, (RA_ahas _ _ _ _ k H), !(ra_ctor _ _ _ _ H).
        destruct (N.eqb k' k && negb (is_some (lookup (a_keys a) (n2n k)))); lia.
      + apply B4, H. + apply A7, H.
      + rewrite A5. destruct (r_request_refs r k) as [X _]. rewrite X. apply H.
      + rewrite A6. destruct (r_request_refs r k) as [_ X]. rewrite X. apply H.
    - rewrite B2, A2. unfold req_val. rewrite Ek. destruct (lookup (a_keys a) (n2n k)) as [[d p]|] eqn:E; cbn [option_map is_some fst]; [reflexivity|].
      now rewrite (fresh_eq _ _ _ _ k H).
  Qed.

  Lemma sim_remove a r k now :
    RA D F a r -> (n0 <= a_ntok a)%nat -> now = N.eqb dl 0 || F (n2n k) ->
    RA D F (fst (a_remove a (n2n k) now)) (fst (r_remove dl clk r k)) /\ (n0 <= a_ntok (fst (a_remove a (n2n k) now)))%nat /\
    snd (r_remove dl clk r k) = snd (a_remove a (n2n k) now).
  Proof.
    intros H Hn Hnow. destruct (a_remove_spec a (n2n k) now) as (A1 & A2 & A3 & A4 & A5 & A6 & A7). destruct (r_remove_spec dl clk r k) as (B1 & B2 & B3 & B4).
    pose proof (ra_keys _ _ _ _ H k) as Ek. split; [|split; [lia|]].
    - constructor.
      + intros k'. rewrite B1, A1, eqb_n2n. destruct (N.eqb_spec k' k) as [->|Hne]; [|apply H].
        rewrite Ek. destruct (lookup (a_keys a) (n2n k)) as [[d p]|] eqn:E; cbn [option_map]; [|reflexivity].
        unfold rm_entry, rm_val, kin. cbn [fst snd ki_pend ki_failed ki_data]. destruct p as [t|]; cbn [option_map]; [reflexivity|].
        rewrite <- Hnow. destruct now; cbn [option_map]; [reflexivity|]. unfold kin. cbn [fst snd option_map]. now rewrite (DN _ Hn).
      + intros k'. rewrite r_remove_ctorN, (ra_ctor _ _ _ _ H). unfold actor. now rewrite A3.
      + apply B4, H. + apply A7, H.
      + rewrite A5. destruct (r_remove_refs dl clk r k) as [X _]. rewrite X. apply H.
      + rewrite A6. destruct (r_remove_refs dl clk r k) as [_ X]. rewrite X. apply H.
    - rewrite B2, A2. apply (RA_ahas _ _ _ _ k H).
  Qed.
End Sim.

(* ------------------------------------------------------------------ *)
(* SyncKeys, first loop: the requests *)
Lemma mem_cons k k0 l : mem k (k0 :: l) = Nat.eqb k k0 || mem k l. Proof. reflexivity. Qed.
Lemma req_val_other a k0 k : k <> k0 -> req_val (fst (a_request a k0)) k = req_val a k.
Proof.
  intros Hne. destruct (a_request_spec a k0) as (A1 & _ & A3 & _). unfold req_val, fresh_a. rewrite A1, A3.
  destruct (Nat.eqb_spec k k0); [contradiction|]. reflexivity.
Qed.

Lemma NoDup_app_one {A} (l : list A) x : NoDup l -> ~ In x l -> NoDup (l ++ [x]).
Proof.
  induction l as [|h t IH]; intros Hn Hx; cbn [app]; [constructor; [intros []|constructor]|]. inversion Hn; subst. constructor.
  - rewrite in_app_iff. cbn [In]. intros [X|[X|[]]]; [contradiction | subst; apply Hx; now left].
  - apply IH; [assumption | intros X; apply Hx; now right].
Qed.

Lemma a_sync_phase1 : forall ks a seen added,
  let c := fold_left a_sync_one ks (a, seen, added) in
  (forall k, lookup (a_keys (fst (fst c))) k = if mem k ks && negb (mem k seen) then Some (req_val a k) else lookup (a_keys a) k) /\
  (forall k, actor (fst (fst c)) k = if mem k ks && negb (mem k seen) && negb (is_some (lookup (a_keys a) k)) then S (actor a k) else actor a k) /\
  a_ntok (fst (fst c)) = a_ntok a /\ a_refs (fst (fst c)) = a_refs a /\ a_rels (fst (fst c)) = a_rels a /\
  (ssorted (map fst (a_keys a)) -> ssorted (map fst (a_keys (fst (fst c))))) /\
  (forall k, In k (snd c) <-> In k added \/ (mem k ks && negb (mem k seen) && negb (is_some (lookup (a_keys a) k)) = true)) /\
  ((forall k, In k added -> mem k seen = true) -> NoDup added -> NoDup (snd c)).
Proof.
  induction ks as [|k0 ks IH]; intros a seen added; cbn [fold_left].
  - cbn [fst snd]. split; [intros k; reflexivity|]. split; [intros k; reflexivity|]. split; [reflexivity|]. split; [reflexivity|]. split; [reflexivity|].
    split; [auto|]. split; [|auto]. intros k. split; [intros H; now left | intros [H|H]; [exact H | discriminate]].
  - destruct (mem k0 seen) eqn:Em.
    + assert (E : a_sync_one (a, seen, added) k0 = (a, seen, added)) by (unfold a_sync_one; now rewrite Em). rewrite E.
      destruct (IH a seen added) as (I1 & I2 & I3 & I4 & I5 & I6 & I7 & I8). cbn zeta in *.
      assert (X : forall k, mem k (k0 :: ks) && negb (mem k seen) = mem k ks && negb (mem k seen)).
      { intros k. rewrite mem_cons. destruct (Nat.eqb_spec k k0) as [->|]; [rewrite Em; cbn [negb]; now rewrite !andb_false_r | reflexivity]. }
      split; [intros k; rewrite X; apply I1|]. split; [intros k; rewrite X; apply I2|]. split; [exact I3|]. split; [exact I4|]. split; [exact I5|].
      split; [exact I6|]. split; [intros k; rewrite X; apply I7 | exact I8].
    + destruct (a_request_spec a k0) as (A1 & A2 & A3 & A4 & A5 & A6 & A7).
      assert (E : a_sync_one (a, seen, added) k0 = (fst (a_request a k0), k0 :: seen, if snd (snd (a_request a k0)) then added else added ++ [k0])).
      { unfold a_sync_one. rewrite Em. destruct (a_request a k0) as [a1 [d ex]]. reflexivity. }
      rewrite E. set (a1 := fst (a_request a k0)) in *. set (added1 := if snd (snd (a_request a k0)) then added else added ++ [k0]).
      destruct (IH a1 (k0 :: seen) added1) as (I1 & I2 & I3 & I4 & I5 & I6 & I7 & I8). cbn zeta in *.
      assert (X : forall k, k <> k0 -> mem k (k0 :: ks) && negb (mem k seen) = mem k ks && negb (mem k (k0 :: seen))).
      { intros k Hne. rewrite !mem_cons. destruct (Nat.eqb_spec k k0); [contradiction | reflexivity]. }
      assert (Y : mem k0 (k0 :: ks) && negb (mem k0 seen) = true) by (rewrite mem_cons, Nat.eqb_refl, Em; reflexivity).
      assert (Z : mem k0 ks && negb (mem k0 (k0 :: seen)) = false) by (rewrite (mem_cons k0 k0), Nat.eqb_refl; cbn [orb negb]; apply andb_false_r).
      split; [|split; [|split; [congruence|split; [congruence|split; [congruence|split; [auto|split]]]]]].
      * intros k. rewrite I1. destruct (Nat.eq_dec k k0) as [->|Hne].
        -- rewrite Y, Z. unfold a1. rewrite A1, Nat.eqb_refl. reflexivity.
        -- rewrite (X k Hne). unfold a1. rewrite req_val_other by exact Hne. rewrite A1. destruct (Nat.eqb_spec k k0); [contradiction | reflexivity].
      * intros k. rewrite I2. destruct (Nat.eq_dec k k0) as [->|Hne].
        -- rewrite Y, Z. cbn [andb]. unfold a1. rewrite A3, Nat.eqb_refl. reflexivity.
        -- rewrite (X k Hne). unfold a1. rewrite A1, A3. destruct (Nat.eqb_spec k k0); [contradiction | reflexivity].
      * intros k. rewrite I7. unfold added1. rewrite A2. cbn [snd]. destruct (Nat.eq_dec k k0) as [->|Hne].
        -- rewrite Y, Z. cbn [andb]. destruct (is_some (lookup (a_keys a) k0)); cbn [negb].
           ++ split; [intros [H|H]; [now left | discriminate] | intros [H|H]; [now left | discriminate]].
           ++ split; [intros _; now right | intros _; left; apply in_or_app; right; now left].
        -- rewrite (X k Hne). unfold a1. rewrite A1. destruct (Nat.eqb_spec k k0); [contradiction|].
           destruct (is_some (lookup (a_keys a) k0)); [reflexivity|]. rewrite in_app_iff. cbn [In]. intuition.
      * intros Hs Hn. apply I8.
        -- intros k Hk. unfold added1 in Hk. rewrite mem_cons. destruct (snd (snd (a_request a k0))); [rewrite (Hs k Hk); apply orb_true_r|].
           apply in_app_iff in Hk as [Hk|[<-|[]]]; [rewrite (Hs k Hk); apply orb_true_r | now rewrite Nat.eqb_refl].
        -- unfold added1. destruct (snd (snd (a_request a k0))); [exact Hn|]. apply NoDup_app_one; [exact Hn|]. intros Hk. rewrite (Hs k0 Hk) in Em. discriminate.
Qed.

Definition req_i (r : rst) (k : N) : Spec.kinfo := match alook (r_keys r) k with Some i => no_pend i | None => fresh_i r k end.
Lemma r_sync_phase1 : forall L r,
  let r1 := fold_left (fun r k => fst (r_request r k)) L r in
  (forall k, alook (r_keys r1) k = if nmem k L then Some (req_i r k) else alook (r_keys r) k) /\
  (forall k, ctorN r1 k = if nmem k L && negb (ahas (r_keys r) k) then ctorN r k + 1 else ctorN r k) /\
  (asorted (map fst (r_keys r)) -> asorted (map fst (r_keys r1))) /\ r_refs r1 = r_refs r /\ r_rels r1 = r_rels r.
Proof.
  induction L as [|k0 L IH]; intros r; cbn [fold_left]; [cbn [nmem existsb andb]; repeat split; auto|].
  destruct (r_request_spec r k0) as (B1 & _ & B3 & B4). destruct (r_request_refs r k0) as [X1 X2].
  destruct (IH (fst (r_request r k0))) as (I1 & I2 & I3 & I4 & I5). cbn zeta in *. set (r' := fst (r_request r k0)) in *.
  assert (N0 : forall k, nmem k (k0 :: L) = N.eqb k k0 || nmem k L) by reflexivity.
  split; [|split; [|split; [auto|split; congruence]]].
  - intros k. rewrite I1, N0. destruct (N.eqb_spec k k0) as [->|Hne]; cbn [orb].
    + unfold req_i at 1. rewrite B1, N.eqb_refl. destruct (nmem k0 L); [|reflexivity]. f_equal.
      unfold req_i. destruct (alook (r_keys r) k0); reflexivity.
    + unfold req_i. rewrite B1. destruct (N.eqb_spec k k0); [contradiction|]. destruct (nmem k L); [|reflexivity].
      destruct (alook (r_keys r) k); [reflexivity|]. unfold fresh_i, fresh_d. rewrite B3. destruct (N.eqb_spec k k0); [contradiction | reflexivity].
  - intros k. rewrite I2, N0. unfold ahas. rewrite B1, B3. destruct (N.eqb_spec k k0) as [->|Hne]; cbn [orb andb]; [|reflexivity].
    unfold ahas. destruct (alook (r_keys r) k0); cbn [negb]; [now rewrite andb_false_r | rewrite andb_false_r; reflexivity].
Qed.

Section Sync.
  Variables (D : nat -> N) (F : nat -> bool) (dl clk : N) (n0 : nat) (now : nat -> bool).
  Hypothesis DN : forall t, (n0 <= t)%nat -> D t = clk + dl.
  Hypothesis Hnow : forall k, now k = N.eqb dl 0 || F k.

  Lemma mem_sort_n2n k ks : mem (n2n k) (sort_nat (map n2n ks)) = nmem k ks.
  Proof.
    destruct (nmem k ks) eqn:E.
    - apply nmem_In in E. apply (proj2 (mem_In _ _)). apply (proj2 (In_sort_nat _ _)). now apply List.in_map.
    - destruct (mem (n2n k) (sort_nat (map n2n ks))) eqn:E2; [|reflexivity]. apply (proj1 (mem_In _ _)) in E2. apply (proj1 (In_sort_nat _ _)) in E2. apply in_map_iff in E2 as (y & Ey & Hy).
      apply n2n_inj in Ey. subst y. apply nmem_In in Hy. congruence.
  Qed.

  Lemma sim_sync_phase1 a r ks :
    RA D F a r -> (forall k, lookup (a_keys a) k = None -> F k = false) ->
    RA D F (fst (fst (fold_left a_sync_one (sort_nat (map n2n ks)) (a, [], [])))) (fold_left (fun r k => fst (r_request r k)) (dedup ks) r).
  Proof.
    intros H HF. destruct (a_sync_phase1 (sort_nat (map n2n ks)) a [] []) as (A1 & A2 & A3 & A4 & A5 & A6 & _). cbn zeta in *.
    destruct (r_sync_phase1 (dedup ks) r) as (B1 & B2 & B3 & B4 & B5). cbn zeta in *.
    assert (ND : forall k, nmem k (dedup ks) = nmem k ks).
    { intros k. destruct (nmem k ks) eqn:E; [apply nmem_In, In_dedup, nmem_In, E | apply nmem_false; rewrite In_dedup; now apply nmem_false]. }
    constructor.
    - intros k. rewrite B1, A1, ND, mem_sort_n2n. cbn [mem existsb negb]. rewrite andb_true_r. destruct (nmem k ks); [|apply H].
      cbn [option_map]. f_equal. unfold req_i, req_val. rewrite (ra_keys _ _ _ _ H k).
      destruct (lookup (a_keys a) (n2n k)) as [[d p]|] eqn:E; cbn [option_map]; [reflexivity|].
      unfold fresh_i, kin. cbn [fst snd option_map]. rewrite (fresh_eq _ _ _ _ k H), (HF _ E). reflexivity.
    - intros k. rewrite B2, A2, ND, mem_sort_n2n, (RA_ahas _ _ _ _ k H), !(ra_ctor _ _ _ _ H). cbn [mem existsb negb]. rewrite andb_true_r.
      destruct (nmem k ks && negb (is_some (lookup (a_keys a) (n2n k)))); lia.
    - apply B3, H. - apply A6, H.
    - rewrite B4, A4. apply H. - rewrite B5, A5. apply H.
  Qed.

  (* second loop: the same keys in the same order on both sides *)
  Lemma sim_sync_phase2 keysN keys : (forall k, mem (n2n k) keys = nmem k keysN) ->
    forall L a r removed, RA D F a r -> (n0 <= a_ntok a)%nat ->
    let c := fold_left (a_sync_rm keys now) L (a, removed) in
    RA D F (fst c) (fold_left (fun r k => fst (r_remove dl clk r k)) (filter (fun k => negb (nmem k keysN)) (map N.of_nat L)) r) /\
    (n0 <= a_ntok (fst c))%nat /\ snd c = (removed ++ filter (fun k => negb (mem k keys)) L)%list.
  Proof.
    intros HK. induction L as [|k L IH]; intros a r removed H Hn; cbn [fold_left map filter]; [cbn [fst snd]; rewrite app_nil_r; auto|].
    assert (E : a_sync_rm keys now (a, removed) k = if mem k keys then (a, removed) else (fst (a_remove a k (now k)), (removed ++ [k])%list)) by reflexivity.
    rewrite E. clear E. rewrite <- HK, n2n_of_nat. destruct (mem k keys) eqn:Em; cbn [negb].
    - apply IH; assumption.
    - cbn [fold_left]. destruct (sim_remove D F dl clk n0 DN a r (N.of_nat k) (now k) H Hn) as (G1 & G2 & _); [rewrite n2n_of_nat; apply Hnow|].
      rewrite n2n_of_nat in G1, G2. destruct (IH _ _ (removed ++ [k])%list G1 G2) as (I1 & I2 & I3). cbn zeta in *.
      split; [exact I1|]. split; [exact I2|]. rewrite I3, <- app_assoc. reflexivity.
  Qed.
End Sync.

Section Sync2.
  Variables (D : nat -> N) (F : nat -> bool) (dl clk : N) (n0 : nat) (now : nat -> bool).
  Hypothesis DN : forall t, (n0 <= t)%nat -> D t = clk + dl.
  Hypothesis Hnow : forall k, now k = N.eqb dl 0 || F k.

  Lemma sim_sync a r ks :
    RA D F a r -> (n0 <= a_ntok a)%nat -> (forall k, lookup (a_keys a) k = None -> F k = false) ->
    let keys := sort_nat (map n2n ks) in
    let added := filter (fun k => negb (ahas (r_keys r) k)) (dedup ks) in
    let r1 := fold_left (fun r k => fst (r_request r k)) (dedup ks) r in
    let removed := filter (fun k => negb (nmem k ks)) (map fst (r_keys r1)) in
    let r2 := fold_left (fun r k => fst (r_remove dl clk r k)) removed r1 in
    RA D F (fst (a_sync a keys now)) r2 /\ (n0 <= a_ntok (fst (a_sync a keys now)))%nat /\
    (enc_list added ++ enc_list removed)%list = (enc_keys (fst (snd (a_sync a keys now))) ++ enc_keys (snd (snd (a_sync a keys now))))%list.
  Proof.
    intros H Hn HF keys added r1 removed r2. unfold a_sync.
    pose proof (sim_sync_phase1 D F a r ks H HF) as P1. fold keys r1 in P1.
    destruct (a_sync_phase1 keys a [] []) as (_ & _ & A3 & _ & _ & _ & A7 & A8). cbn zeta in *.
    destruct (fold_left a_sync_one keys (a, [], [])) as [[a1 seen] added_a]. cbn [fst snd] in *.
    pose proof (RA_keys _ _ _ _ P1) as EK.
    destruct (sim_sync_phase2 D F dl clk n0 now DN Hnow ks keys (fun k => mem_sort_n2n k ks) (map fst (a_keys a1)) a1 r1 [] P1 ltac:(lia)) as (G1 & G2 & G3).
    cbn zeta in *. destruct (fold_left (a_sync_rm keys now) (map fst (a_keys a1)) (a1, [])) as [a2 removed_a]. cbn [fst snd app] in *.
    unfold r2, removed. rewrite EK. split; [exact G1|]. split; [exact G2|]. unfold keys in *. f_equal.
    - symmetry. apply enc_keys_list; [apply A8; [intros k []|constructor] | apply NoDup_filter, NoDup_dedup|].
      intros k. unfold added. rewrite filter_In, In_dedup, A7, mem_sort_n2n, (RA_ahas _ _ _ _ k H). cbn [mem existsb negb In]. rewrite andb_true_r.
      rewrite <- nmem_In. destruct (nmem k ks), (is_some (lookup (a_keys a) (n2n k))); cbn [andb negb]; intuition discriminate.
    - symmetry. subst removed_a. apply enc_keys_list.
      + apply NoDup_filter, ssorted_NoDup, P1.
      + apply NoDup_filter. rewrite <- EK. apply asorted_NoDup, P1.
      + intros k. rewrite !filter_In, In_of_nat, mem_sort_n2n. reflexivity.
  Qed.
End Sync2.

(* ------------------------------------------------------------------ *)
(* KeyedRefCount *)
Lemma RA_set_refs D F a r l : RA D F a r -> RA D F (set_a_refs a l) (set_r_refs r (map rref_of l)).
Proof. intros [A B C E G I]. constructor; auto. Qed.
Lemma RA_set_rels D F a r l : RA D F a r -> map lref l = map lref (a_rels a) -> RA D F (set_a_rels a l) r.
Proof. intros [A B C E G I] H. constructor; auto. cbn [a_rels set_a_rels]. congruence. Qed.

Definition r_addref (r : rst) (k : N) : rst * option (list N) :=
  let '(r', (d, ex)) := r_request r k in
  (set_r_refs r' (r_refs r' ++ [{| rr_key := k; rr_rel := false; rr_cnt := true |}]), Some [d; nb ex]).
Definition r_relsect (dl clk : N) (r : rst) (i : nat) : rst :=
  match nth_error (r_rels r) i with
  | Some f =>
    match nth_error (r_refs r) f with
    | Some x =>
      if rr_cnt x then
        r_release_remove dl clk (set_r_refs r (set_nth (r_refs r) f {| rr_key := rr_key x; rr_rel := rr_rel x; rr_cnt := false |})) (rr_key x)
      else r
    | None => r
    end
  | None => r
  end.
Definition r_rcremove (dl clk : N) (r : rst) (k : N) : rst * bool :=
  r_remove dl clk (set_r_refs r (map (fun x => if r_live k x then {| rr_key := rr_key x; rr_rel := true; rr_cnt := false |} else x) (r_refs r))) k.

Section SimRc.
  Variables (D : nat -> N) (F : nat -> bool) (dl clk : N) (n0 : nat) (now : nat -> bool).
  Hypothesis DN : forall t, (n0 <= t)%nat -> D t = clk + dl.
  Hypothesis Hnow : forall k, now k = N.eqb dl 0 || F k.

  Lemma sim_add_ref a r k :
    RA D F a r -> (lookup (a_keys a) (n2n k) = None -> F (n2n k) = false) ->
    RA D F (fst (a_add_ref a (n2n k))) (fst (r_addref r k)) /\
    snd (r_addref r k) = Some [fst (snd (a_add_ref a (n2n k))); nb (snd (snd (a_add_ref a (n2n k))))].
  Proof.
    intros H HF. unfold a_add_ref, r_addref. destruct (sim_request D F a r k H HF) as [G1 G2].
    destruct (a_request a (n2n k)) as [a1 [d ex]]. destruct (r_request r k) as [r1 [d' ex']]. cbn [fst snd] in *. inversion G2; subst d' ex'.
    split; [|reflexivity]. rewrite (ra_refs _ _ _ _ G1).
    replace (map rref_of (a_refs a1) ++ [{| rr_key := k; rr_rel := false; rr_cnt := true |}])%list
      with (map rref_of (a_refs a1 ++ [{| fkey := n2n k; frel := false; fin := true |}])).
    - now apply RA_set_refs.
    - rewrite map_app. cbn [map]. unfold rref_of at 2. cbn [fkey frel fin]. now rewrite N_of_n2n.
  Qed.

  Lemma cnt_live D' F' a r k : RA D' F' a r -> cnt (r_live k) (r_refs r) = cnt (live_ref (n2n k)) (a_refs a).
  Proof. intros H. rewrite (ra_refs _ _ _ _ H), cnt_map. unfold cnt. f_equal. apply filter_ext. intros x. apply r_live_of. Qed.

  Lemma sim_release_section a r i l :
    RA D F a r -> (n0 <= a_ntok a)%nat -> nth_error (a_rels a) i = Some l -> lparked l = true ->
    RA D F (a_release_section a i now) (r_relsect dl clk r i) /\ (n0 <= a_ntok (a_release_section a i now))%nat.
  Proof.
    intros H Hn Hl Hp. unfold a_release_section, r_relsect. rewrite Hl, Hp. rewrite (ra_rels _ _ _ _ H), nth_error_map, Hl. cbn [option_map].
    set (a1 := set_a_rels a (set_nth (a_rels a) i {| lref := lref l; lparked := false |})).
    assert (H1 : RA D F a1 r) by (apply RA_set_rels; [exact H | now apply (map_set_nth_same lref _ _ l)]).
    change (a_refs a1) with (a_refs a). rewrite (ra_refs _ _ _ _ H), nth_error_map.
    destruct (nth_error (a_refs a) (lref l)) as [x|] eqn:Ex; cbn [option_map]; [|split; [exact H1 | exact Hn]].
    cbn [rr_cnt rref_of]. destruct (fin x); [|split; [exact H1 | exact Hn]].
    set (a2 := set_a_refs a1 (set_nth (a_refs a1) (lref l) {| fkey := fkey x; frel := frel x; fin := false |})).
    match goal with |- RA _ _ _ (r_release_remove _ _ ?R _) /\ _ => set (r2 := R) end.
    assert (H2 : RA D F a2 r2).
    { unfold r2, a2. change (a_refs a1) with (a_refs a).
      match goal with |- RA _ _ _ (set_r_refs r ?L) =>
        replace L with (map rref_of (set_nth (a_refs a) (lref l) {| fkey := fkey x; frel := frel x; fin := false |})) by (rewrite map_set_nth; reflexivity) end.
      now apply RA_set_refs. }
    change (rr_key (rref_of x)) with (N.of_nat (fkey x)).
    change (set_a_refs a1 (set_nth (a_refs a) (lref l) {| fkey := fkey x; frel := frel x; fin := false |})) with a2.
    unfold r_release_remove. rewrite (cnt_live _ _ a2 r2 _ H2), n2n_of_nat.
    destruct (Nat.eqb (cnt (live_ref (fkey x)) (a_refs a2)) 0); [|split; [exact H2 | exact Hn]].
    destruct (sim_remove D F dl clk n0 DN a2 r2 (N.of_nat (fkey x)) (now (fkey x)) H2 Hn) as (G1 & G2 & _); [rewrite n2n_of_nat; apply Hnow|].
    rewrite n2n_of_nat in G1, G2. split; assumption.
  Qed.

  Lemma sim_rc_remove a r k :
    RA D F a r -> (n0 <= a_ntok a)%nat ->
    RA D F (fst (a_rc_remove a (n2n k) (now (n2n k)))) (fst (r_rcremove dl clk r k)) /\ (n0 <= a_ntok (fst (a_rc_remove a (n2n k) (now (n2n k)))))%nat /\
    snd (r_rcremove dl clk r k) = snd (a_rc_remove a (n2n k) (now (n2n k))).
  Proof.
    intros H Hn. unfold a_rc_remove, r_rcremove.
    match goal with |- context [a_remove (set_a_refs a ?L) _ _] => set (l := L) end.
    match goal with |- context [r_remove dl clk (set_r_refs r ?L) _] => replace L with (map rref_of l) end.
    - apply (sim_remove D F dl clk n0 DN); [now apply RA_set_refs | exact Hn | apply Hnow].
    - unfold l. rewrite (ra_refs _ _ _ _ H), !map_map. apply map_ext. intros x. rewrite r_live_of. destruct (live_ref (n2n k) x); reflexivity.
  Qed.
End SimRc.

(* ------------------------------------------------------------------ *)
(* ResetRoutine / ResetAllRoutines *)
Lemma odd_n2n k : Nat.odd (n2n k) = N.odd k.
Proof.
  destruct (N.odd k) eqn:E.
  - apply N.odd_spec in E as [m ->]. apply Nat.odd_spec. exists (n2n m). unfold n2n. lia.
  - rewrite <- N.negb_even in E. apply negb_false_iff in E. apply N.even_spec in E as [m ->].
    rewrite <- Nat.negb_even. apply negb_false_iff. apply Nat.even_spec. exists (n2n m). unfold n2n. lia.
Qed.
Lemma cond_ok_match c k : cond_ok c k = cond_match (n2n c) (n2n k).
Proof.
  unfold cond_match. destruct (n2n c) as [|[|m]] eqn:E.
  - replace c with 0 by (rewrite <- (N_of_n2n c), E; reflexivity). reflexivity.
  - replace c with 1 by (rewrite <- (N_of_n2n c), E; reflexivity). reflexivity.
  - rewrite odd_n2n. rewrite <- (N_of_n2n c), E. cbn [N.of_nat Pos.of_succ_nat]. unfold cond_ok. destruct (Pos.of_succ_nat m); reflexivity.
Qed.

Lemma a_reset_spec a k :
  lookup (a_keys a) k <> None ->
  (forall k', lookup (a_keys (fst (a_reset a k true))) k' = if Nat.eqb k' k then Some (fresh_a a k, None) else lookup (a_keys a) k') /\
  (forall k', actor (fst (a_reset a k true)) k' = if Nat.eqb k' k then S (actor a k) else actor a k') /\
  a_ntok (fst (a_reset a k true)) = a_ntok a /\ a_refs (fst (a_reset a k true)) = a_refs a /\ a_rels (fst (a_reset a k true)) = a_rels a /\
  (ssorted (map fst (a_keys a)) -> ssorted (map fst (a_keys (fst (a_reset a k true))))) /\ snd (a_reset a k true) = (true, true).
Proof.
  intros Hp. unfold a_reset, fresh_a, actor. destruct (lookup (a_keys a) k) as [v|]; [|contradiction].
  cbn [fst snd a_keys a_ctors a_ntok a_refs a_rels]. repeat split; auto.
  - intros k'. destruct (Nat.eqb_spec k' k) as [->|Hne]; [apply lookup_insert_same | now apply lookup_insert_other].
  - intros k'. destruct (Nat.eqb_spec k' k) as [->|Hne]; [now rewrite lookup_insert_same | now rewrite lookup_insert_other].
  - intros Hs. rewrite keys_insert. now apply ssorted_kins.
Qed.

Lemma sim_reset_true D F a r k :
  RA D F a r -> lookup (a_keys a) (n2n k) <> None ->
  RA D (fun k' => if Nat.eqb k' (n2n k) then false else F k') (fst (a_reset a (n2n k) true)) (r_reset r k).
Proof.
  intros H Hp. destruct (a_reset_spec a (n2n k) Hp) as (A1 & A2 & A3 & A4 & A5 & A6 & _). destruct (r_reset_spec r k) as (B1 & B2 & B3).
  constructor.
  - intros k'. rewrite B1, A1, eqb_n2n. destruct (N.eqb_spec k' k) as [->|Hne].
    + cbn [option_map]. unfold fresh_i, kin. cbn [fst snd option_map]. now rewrite (fresh_eq _ _ _ _ k H).
    + apply H.
  - intros k'. rewrite B2, A2, eqb_n2n, !(ra_ctor _ _ _ _ H). destruct (N.eqb k' k); lia.
  - apply B3, H. - apply A6, H.
  - rewrite A4. destruct (r_reset_refs r k) as [X _]. rewrite X. apply H.
  - rewrite A5. destruct (r_reset_refs r k) as [_ X]. rewrite X. apply H.
Qed.

Definition r_resetk (c : N) (r : rst) (k : N) : rst * option (list N) :=
  if ahas (r_keys r) k then (if cond_ok c k then (r_reset r k, Some [1; 1]) else (r, Some [1; 0])) else (r, Some [0; 0]).
Lemma sim_reset D F a r k c :
  RA D F a r ->
  (exists F', RA D F' (fst (a_reset a (n2n k) (cond_match (n2n c) (n2n k)))) (fst (r_resetk c r k))) /\
  snd (r_resetk c r k) = Some [nb (fst (snd (a_reset a (n2n k) (cond_match (n2n c) (n2n k))))); nb (snd (snd (a_reset a (n2n k) (cond_match (n2n c) (n2n k)))))].
Proof.
  intros H. unfold r_resetk. rewrite (RA_ahas _ _ _ _ k H), cond_ok_match.
  destruct (lookup (a_keys a) (n2n k)) as [v|] eqn:E; cbn [is_some].
  - destruct (cond_match (n2n c) (n2n k)) eqn:Ec.
    + cbn [fst snd]. split; [eexists; apply sim_reset_true; [exact H | congruence]|].
      destruct (a_reset_spec a (n2n k)) as (_ & _ & _ & _ & _ & _ & X); [congruence|]. now rewrite X.
    + unfold a_reset. rewrite E. cbn [fst snd nb]. split; [eexists; exact H | reflexivity].
  - unfold a_reset. rewrite E. cbn [fst snd nb]. split; [eexists; exact H | reflexivity].
Qed.

Lemma sim_reset_all D c : forall L a r n F,
  RA D F a r -> (forall k, In k L -> lookup (a_keys a) k <> None) ->
  (exists F', RA D F' (fst (fold_left (a_all_step (cond_match (n2n c))) L (a, n))) (fold_left r_reset (filter (cond_ok c) (map N.of_nat L)) r)) /\
  snd (fold_left (a_all_step (cond_match (n2n c))) L (a, n)) = (n + length (filter (cond_ok c) (map N.of_nat L)))%nat.
Proof.
  induction L as [|k L IH]; intros a r n F H Hp; cbn [fold_left map filter]; [cbn [fst snd length]; split; [eexists; exact H | lia]|].
  rewrite cond_ok_match, n2n_of_nat.
  assert (Pk : lookup (a_keys a) k <> None) by (apply Hp; now left).
  unfold a_all_step at 2 4. destruct (cond_match (n2n c) k) eqn:Ec.
  - destruct (a_reset_spec a k Pk) as (A1 & _ & _ & _ & _ & _ & X).
    pose proof (sim_reset_true D F a r (N.of_nat k) H) as G. rewrite n2n_of_nat in G. specialize (G Pk).
    destruct (a_reset a k true) as [a1 [ex rs]]. cbn [fst snd] in *. inversion X; subst ex rs. cbn [andb fold_left].
    destruct (IH a1 (r_reset r (N.of_nat k)) (S n) _ G) as [I1 I2].
    + intros k' Hk'. rewrite A1. destruct (Nat.eqb k' k); [discriminate | apply Hp; now right].
    + split; [exact I1|]. rewrite I2. cbn [length]. lia.
  - assert (E : a_reset a k false = (a, (true, false))) by (unfold a_reset; destruct (lookup (a_keys a) k); [reflexivity | contradiction]).
    rewrite E. cbn [andb]. apply (IH a r n F); [exact H | intros k' Hk'; apply Hp; now right].
Qed.
