(* keyed: the monitors on the model's own observations, final assembly: with the retry obligations (clause 7/5) every
   clause of the monitors of C06 and C07 is proved; the restriction to a set of clauses is dropped. *)
From Util Require Import Common.Base Common.ListLemmas Keyed.Model Keyed.Spec Keyed.Proofs Keyed.AbsSpec Keyed.ProofsC06 Keyed.ProofsC07 Keyed.ProofsMon
  Keyed.ProofsMon2 Keyed.ProofsInc Keyed.ProofsMonAll Keyed.ProofsTimers Keyed.ProofsRefStep Keyed.ProofsMonAll2 Keyed.ProofsC75.
Open Scope N_scope.

Record Rel3 (m : mst) (h : hst) : Prop := { r3_rel : Rel2 m h; r3_ret : RRet m (hs h) }.

Lemma Rel3_init cfg h m : hinit cfg = Some h -> minit cfg = Some m -> Rel3 m h.
Proof.
  intros E1 E2. pose proof (Rel2_init cfg h m E1 E2) as HR.
  unfold hinit, minit in *. destruct cfg as [|v [|dl [|hb sc]]]; try discriminate. inversion E1; inversion E2; subst. clear E1 E2.
  constructor; [exact HR|]. constructor; cbn [m_retry m_bo m_script hs init recs].
  - exact I. - reflexivity. - intros k d0 H. discriminate. - intros _ r Hr. cbn in Hr. lia. - intros key i H. discriminate.
Qed.

Lemma Rel3_step m h e ev rets : HR h -> Rel3 m h -> DecCase h e ev rets ->
  (forall x, In x (clauses m e (pobs_of rets (next h ev) (hlog h))) -> (fun _ : nat * nat => true) (fst x) = true -> snd x = true) /\
  Rel3 (fst (mon1 m e (pobs_of rets (next h ev) (hlog h)))) {| hs := next h ev; hvar := hvar h; hlog := length (cblog (next h ev)) |}.
Proof.
  intros Hh [R2 RR] Hc. destruct (Rel2_step m h e ev rets Hh R2 Hc) as [Hcl Hrel]. pose proof R2 as [R1 RKk [a [Ra _]] _ RAD RT]. split.
  - intros x Hx _. destruct x as [[pp cc] ok]. cbn [snd].
    destruct (proved2 (pp, cc)) eqn:Ep; [exact (Hcl _ Hx Ep)|].
    unfold clauses in Hx. cbn [In] in Hx.
    repeat (destruct Hx as [E|Hx]; [inversion E; subst; try discriminate Ep|]); try contradiction.
    eapply c75_holds; eauto.
  - constructor; [exact Hrel|]. cbn [hs]. eapply RRet_next; eauto.
Qed.

Lemma mon_only_all m e o : mon_only (fun _ => true) m e o = mon m e o.
Proof.
  unfold mon_only. destruct (mon m e o) as [m' f]. f_equal. induction f as [|x f IH]; [reflexivity|]. cbn [filter]. now rewrite IH.
Qed.
Lemma monitor_ext {M} (mon1 mon2 : M -> list N -> list N -> M * list (nat * nat)) :
  (forall m e o, mon1 m e o = mon2 m e o) -> forall evs obss i m rep, monitor mon1 i m rep evs obss = monitor mon2 i m rep evs obss.
Proof.
  intros H evs. induction evs as [|e evs IH]; intros [|o obss] i m rep; cbn [monitor]; try reflexivity.
  rewrite H. destruct (mon2 m e o) as [m' f]. now rewrite IH.
Qed.

(* the full statement *)
Theorem model_satisfies_monitors cfg evs :
  monitor mon 0 (minit cfg) [] evs (run_obs step_opt (hinit cfg) evs) = [].
Proof.
  rewrite <- (monitor_ext (mon_only (fun _ => true)) mon mon_only_all).
  apply (msm (fun _ => true) Rel3 Rel3_init Rel3_step).
Qed.
Theorem model_run_check_clean cfg evs :
  length (run_obs step_opt (hinit cfg) evs) = length evs ->
  run_check_keyed0 cfg evs (run_obs step_opt (hinit cfg) evs) = [].
Proof. intros Hl. unfold run_check_keyed0, run_check. rewrite (replay_own evs _ 0%nat Hl), model_satisfies_monitors. reflexivity. Qed.

(* ---- hasbo = 2: the script comes from the model of the backoff package (keyed.WithRetry, constant kind) ---- *)
Lemma ceil_ms_mul k : Backoff.Model.ceil_ms (k * Backoff.Model.ms) = k.
Proof.
  unfold Backoff.Model.ceil_ms, Backoff.Model.ms.
  replace (k * 1000000 + 1000000 - 1)%N with (999999 + k * 1000000)%N by lia.
  rewrite N.div_add by discriminate. reflexivity.
Qed.

Lemma map_repeat_k {A B} (f : A -> B) x n : map f (repeat x n) = repeat (f x) n.
Proof. induction n as [|n IH]; cbn [repeat map]; [reflexivity | now rewrite IH]. Qed.

Lemma expand_real_constant v dl d rest :
  expand (v :: dl :: 2 :: d :: rest)%N = (v :: dl :: 1 :: repeat (if N.eqb d 0 then 5000 else d) real_script_len)%N.
Proof.
  unfold expand, Backoff.Model.Construct. cbn [Backoff.Model.c_kind Backoff.Model.c_const]. rewrite N.eqb_refl.
  unfold Backoff.Model.bo_script, Backoff.Model.bo_script_ns. cbn [Backoff.Model.p_kind Backoff.Model.p_cint].
  rewrite map_repeat_k, ceil_ms_mul. reflexivity.
Qed.

Theorem model_run_check_clean_expanded cfg evs :
  length (run_obs step_opt (hinit (expand cfg)) evs) = length evs ->
  run_check_keyed cfg evs (run_obs step_opt (hinit (expand cfg)) evs) = [].
Proof. intros Hl. unfold run_check_keyed. apply model_run_check_clean. exact Hl. Qed.
