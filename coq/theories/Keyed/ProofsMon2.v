(* keyed: the monitors on the model's own observations, part 2: the relation between monitor state and model state, and
   the clauses that need only configuration, clock, context and the reference bookkeeping of KeyedRefCount. *)
From Util Require Import Common.Base Common.ListLemmas Keyed.Model Keyed.Spec Keyed.Proofs Keyed.ProofsC07 Keyed.ProofsTm
  Keyed.ProofsCancel Keyed.ProofsWalk Keyed.ProofsMono Keyed.ProofsMon.
Open Scope N_scope.

(* the states of the codec-level run *)
Record HR (h : hst) : Prop := { hr_reach : Reach (hs h); hr_log : hlog h = length (cblog (hs h)) }.

Lemma HR_init cfg h : hinit cfg = Some h -> HR h.
Proof.
  unfold hinit. destruct cfg as [|v [|dl [|hb sc]]]; try discriminate. intros E. inversion E; subst. cbn [hs hlog].
  split; [exists dl, (if nz hb then Some sc else None), []; reflexivity | reflexivity].
Qed.
Lemma HR_step h e h' o : HR h -> hstep h e = Some (h', o) -> HR h'.
Proof.
  intros [A B] E. destruct (hstep_inv h e h' o E) as (ev & rets & D & -> & _). split; cbn [hs hlog]; [|reflexivity].
  now apply Reach_settle, Reach_step.
Qed.

(* the state after one codec-level step, and the parsed observation *)
Definition next (h : hst) (ev : ev) : st := settle (step repaired (hs h) ev).
Lemma hstep_mon h e h' o m :
  hstep h e = Some (h', o) ->
  exists ev rets, DecCase h e ev rets /\ hs h' = next h ev /\ hvar h' = hvar h /\
    mon (Some m) e o = (Some (fst (mon1 m e (pobs_of rets (next h ev) (hlog h)))), snd (mon1 m e (pobs_of rets (next h ev) (hlog h)))).
Proof.
  intros E. destruct (hstep_inv h e h' o E) as (ev & rets & D & -> & ->). exists ev, rets. cbn [hs hvar].
  split; [now apply dec_case|]. split; [reflexivity|]. split; [reflexivity|].
  unfold mon. rewrite parse_obs by (eapply dec_rets_ok; eauto). fold (next h ev).
  destruct (mon1 m e (pobs_of rets (next h ev) (hlog h))). reflexivity.
Qed.

(* what a step does to clock, cancelled roots and the container context, in terms of the event's wire form *)
Lemma next_Mono h ev : Mono (hs h) (next h ev).
Proof. unfold next. rewrite settle_run. eapply Mono_trans; [apply Mono_step | apply Mono_run]. Qed.
Lemma Kx_advance0 s : Kx s (advance s 0).
Proof. unfold advance. split; [cbn [clock set_timers set_clock]; apply N.add_0_r | split; [reflexivity | left; reflexivity]]. Qed.
Lemma settle_Kx s : Kx s (settle s).
Proof. rewrite settle_run. change (run repaired s (EAdvance 0 :: wakes (length (insts s)))) with (run repaired (advance s 0) (wakes (length (insts s)))). eapply Kx_trans; [apply Kx_advance0 | apply Kx_wakes]. Qed.

Lemma length_insts_wake fx s i en : length (insts (wake fx s i en)) = length (insts s).
Proof.
  unfold wake. repeat match goal with |- context [match ?x with _ => _ end] => destruct x end; try reflexivity;
    rewrite insts_seti; apply length_set_nth.
Qed.
Lemma length_insts_settle s : length (insts (settle s)) = length (insts s).
Proof.
  unfold settle. change (length (insts s)) with (length (insts (advance s 0))) at 2. generalize (advance s 0) as s0.
  generalize (seq 0 (length (insts s))) as l. intros l. induction l as [|i l IH]; intros s0; cbn [fold_left]; [reflexivity|].
  rewrite IH. apply length_insts_wake.
Qed.

(* ------------------------------------------------------------------ *)
(* references: frame *)
Definition Rf (s s' : st) : Prop := refs s' = refs s /\ rels s' = rels s.
Lemma Rf_refl s : Rf s s. Proof. split; reflexivity. Qed.
Lemma Rf_trans s s1 s2 : Rf s s1 -> Rf s1 s2 -> Rf s s2. Proof. intros [A B] [C D]. split; congruence. Qed.
Ltac rfx := split; reflexivity.
Lemma Rf_cancel_inst s oi : Rf s (cancel_inst s oi).
Proof. unfold cancel_inst. destruct oi as [i|]; [|rfx]. destruct (nth_error (insts s) i); rfx. Qed.
Lemma Rf_stop_timer s ot : Rf s (stop_timer s ot).
Proof. unfold stop_timer. destruct ot as [t|]; [|rfx]. destruct (nth_error (timers s) t) as [x|]; [|rfx]. destruct (tst x); rfx. Qed.
Lemma Rf_start s r c w f : Rf s (start_rec s r c w f).
Proof.
  unfold start_rec. destruct (negb f && rsucc (getr s r) || rnil (getr s r)); [rfx|].
  destruct (negb f && is_some (rctx (getr s r)) && negb (rexited (getr s r)) && ctx_live s (rctx (getr s r))); [rfx|]. cbn zeta.
  eapply Rf_trans; [apply Rf_stop_timer|]. eapply Rf_trans; [apply Rf_cancel_inst|]. rfx.
Qed.
Lemma Rf_norm_ctx s : Rf s (norm_ctx s). Proof. unfold norm_ctx. destruct (root_canc s (kctx s)); rfx. Qed.
Theorem Rf_plain s e : plain e = true -> Rf s (step repaired s e).
Proof. apply (W_step_plain Rf Rf_refl Rf_trans Rf_cancel_inst Rf_stop_timer (fun s k r w f _ _ => Rf_start s r (kctx s) w f)); try (intros; rfx). apply Rf_norm_ctx. Qed.
Lemma Rf_set_key s k st : Rf s (fst (set_key repaired s k st)).
Proof. apply (Rf_plain s (ESetKey k st)). reflexivity. Qed.
Lemma Rf_remove_key s k : Rf s (fst (remove_key s k)).
Proof. apply (Rf_plain s (ERemoveKey k)). reflexivity. Qed.
Lemma Rf_settle s : Rf s (settle s).
Proof.
  rewrite settle_run. change (run repaired s (EAdvance 0 :: wakes (length (insts s)))) with (run repaired (advance s 0) (wakes (length (insts s)))).
  apply (Rf_trans s (advance s 0)); [rfx|]. apply (W_run_wakes Rf Rf_refl Rf_trans); intros; rfx.
Qed.
Lemma Rf_set_context s c r : Rf s (set_context s c r).
Proof. apply (W_set_context Rf Rf_refl Rf_trans Rf_cancel_inst); try (intros; rfx). intros; apply Rf_start. Qed.
Lemma Rf_advance s d : Rf s (advance s d). Proof. rfx. Qed.
Lemma Rf_cancel_root s c : Rf s (cancel_root s c). Proof. unfold cancel_root. destruct (Nat.eqb c 0); rfx. Qed.

(* the reference machine's references *)
Definition rref_of (x : ref) : rref := {| rr_key := N.of_nat (fkey x); rr_rel := frel x; rr_cnt := fin x |}.
Definition RRefs (r : rst) (s : st) : Prop := r_refs r = map rref_of (refs s) /\ r_rels r = map lref (rels s).

Lemma r_request_refs r k : r_refs (fst (r_request r k)) = r_refs r /\ r_rels (fst (r_request r k)) = r_rels r.
Proof. unfold r_request. destruct (alook (r_keys r) k); [split; reflexivity|]. unfold r_construct. split; reflexivity. Qed.
Lemma r_remove_refs dl clk r k : r_refs (fst (r_remove dl clk r k)) = r_refs r /\ r_rels (fst (r_remove dl clk r k)) = r_rels r.
Proof.
  unfold r_remove. destruct (alook (r_keys r) k) as [i|]; [|split; reflexivity]. destruct (ki_pend i); [split; reflexivity|].
  destruct (N.eqb dl 0 || ki_failed i); split; reflexivity.
Qed.
Lemma r_reset_refs r k : r_refs (r_reset r k) = r_refs r /\ r_rels (r_reset r k) = r_rels r.
Proof. unfold r_reset, r_construct. split; reflexivity. Qed.
Lemma fold_refs {A} (f : rst -> A -> rst) (l : list A) :
  (forall r a, r_refs (f r a) = r_refs r /\ r_rels (f r a) = r_rels r) ->
  forall r, r_refs (fold_left f l r) = r_refs r /\ r_rels (fold_left f l r) = r_rels r.
Proof.
  intros H. induction l as [|a l IH]; intros r; cbn [fold_left]; [split; reflexivity|].
  destruct (IH (f r a)) as [E1 E2]. destruct (H r a) as [E3 E4]. split; congruence.
Qed.
Lemma r_release_remove_refs dl clk r k :
  r_refs (r_release_remove dl clk r k) = r_refs r /\ r_rels (r_release_remove dl clk r k) = r_rels r.
Proof. unfold r_release_remove. destruct (Nat.eqb _ 0); [apply r_remove_refs | split; reflexivity]. Qed.

Lemma map_set_nth {A B} (f : A -> B) (l : list A) n x : map f (set_nth l n x) = set_nth (map f l) n (f x).
Proof. revert n. induction l as [|h t IH]; intros [|n]; cbn [set_nth map]; try reflexivity. now rewrite IH. Qed.
Lemma N_of_n2n k : N.of_nat (n2n k) = k. Proof. apply Nnat.N2Nat.id. Qed.
Lemma eqb_of_nat a k : N.eqb (N.of_nat a) k = Nat.eqb a (n2n k).
Proof.
  destruct (Nat.eqb_spec a (n2n k)) as [->|H]; [rewrite N_of_n2n; apply N.eqb_refl|].
  apply N.eqb_neq. intros E. apply H. subst k. now rewrite n2n_of_nat.
Qed.
Lemma r_live_of k x : r_live k (rref_of x) = live_ref (n2n k) x.
Proof. unfold r_live, live_ref, rref_of. cbn [rr_cnt rr_key]. now rewrite eqb_of_nat. Qed.

Lemma map_set_nth_same {A B} (f : A -> B) (l : list A) n x y :
  nth_error l n = Some x -> f y = f x -> map f (set_nth l n y) = map f l.
Proof.
  revert n. induction l as [|h t IH]; intros [|n] H E; cbn in *; try discriminate.
  - inversion H; subst. now rewrite E.
  - f_equal. now apply IH.
Qed.

Lemma e_late_false e rets s lg : e_late e (pobs_of rets s lg) = false.
Proof.
  unfold e_late. destruct e as [|a [|b [|c e]]]; try reflexivity; try (destruct a as [|p]; [reflexivity|]; do 5 (try destruct p as [p|p|]); reflexivity).
  destruct a as [|p]; [reflexivity|]. do 5 (try destruct p as [p|p|]); try reflexivity.
  cbn [po_rels pobs_of]. rewrite nth_error_map. destruct (nth_error (rels s) (n2n b)) as [l|]; [|reflexivity].
  cbn [option_map]. unfold relcode. destruct (lparked l); reflexivity.
Qed.

Lemma refs_next h ev : refs (next h ev) = refs (step repaired (hs h) ev) /\ rels (next h ev) = rels (step repaired (hs h) ev).
Proof. apply Rf_settle. Qed.

Lemma RRefs_step m h e ev rets :
  DecCase h e ev rets -> RRefs (m_ref m) (hs h) ->
  RRefs (ref2 m e (pobs_of rets (next h ev) (hlog h))) (next h ev).
Proof.
  intros Hc [R1 R2]. unfold RRefs, ref2. cbn [r_refs r_rels set_r_keys]. unfold ref1. rewrite e_late_false.
  destruct (refs_next h ev) as [N1 N2]. rewrite N1, N2. clear N1 N2.
  set (r := m_ref m) in *.
  assert (PL : forall ev0, plain ev0 = true -> refs (step repaired (hs h) ev0) = refs (hs h) /\ rels (step repaired (hs h) ev0) = rels (hs h)) by (intros; now apply Rf_plain).
  destruct Hc; cbn [r_step fst snd].
  - (* SetContext *) destruct (Rf_set_context (hs h) (n2n c) (nz r0)) as [A B]. cbn [step]. now rewrite A, B.
  - destruct (PL (ESetKey (n2n k) (nz st)) eq_refl) as [A B]. rewrite A, B.
    destruct (r_request r k) as [r' [d ex]] eqn:E. cbn [fst]. destruct (r_request_refs r k) as [C D]. rewrite E in C, D. cbn [fst] in C, D. now rewrite C, D.
  - destruct (PL (ERemoveKey (n2n k)) eq_refl) as [A B]. rewrite A, B.
    destruct (r_remove (m_delay m) (m_clock m) r k) as [r' ex] eqn:E. cbn [fst].
    destruct (r_remove_refs (m_delay m) (m_clock m) r k) as [C D]. rewrite E in C, D. cbn [fst] in C, D. now rewrite C, D.
  - destruct (PL (ESyncKeys (sort_nat (map n2n ks)) (nz r0)) eq_refl) as [A B]. rewrite A, B.
    match goal with |- r_refs (fold_left ?f ?l ?a) = _ /\ _ => destruct (fold_refs f l (fun r k => r_remove_refs _ _ r k) a) as [C D] end.
    rewrite C, D.
    match goal with |- r_refs (fold_left ?f ?l ?a) = _ /\ _ => destruct (fold_refs f l (fun r k => r_request_refs r k) a) as [C' D'] end.
    now rewrite C', D'.
  - destruct (PL EGet eq_refl) as [A B]. now rewrite A, B.
  - destruct (PL (EReset (n2n k) (n2n c)) eq_refl) as [A B]. rewrite A, B.
    destruct (ahas (r_keys r) k); [|auto]. destruct (cond_ok c k); [|auto]. cbn [fst]. destruct (r_reset_refs r k) as [C D]. now rewrite C, D.
  - destruct (PL (ERestart (n2n k) (n2n c)) eq_refl) as [A B]. rewrite A, B. destruct (ahas (r_keys r) k); auto.
  - destruct (PL (EResetAll (n2n c)) eq_refl) as [A B]. rewrite A, B.
    match goal with |- r_refs (fold_left ?f ?l ?a) = _ /\ _ => destruct (fold_refs f l r_reset_refs a) as [C D] end. now rewrite C, D.
  - destruct (PL (ERestartAll (n2n c)) eq_refl) as [A B]. now rewrite A, B.
  - (* AddKeyRef *) cbn [step]. unfold add_key_ref.
    destruct (Rf_set_key (hs h) (n2n k) true) as [A B]. destruct (set_key repaired (hs h) (n2n k) true) as [s1 res]. cbn [fst] in *.
    cbn [refs rels set_refs]. rewrite A, B.
    destruct (r_request r k) as [r' [d ex]] eqn:E. cbn [fst r_refs r_rels set_r_refs].
    destruct (r_request_refs r k) as [C D]. rewrite E in C, D. cbn [fst] in C, D. rewrite C, D, R1, R2, map_app. cbn [map]. unfold rref_of at 3.
    cbn [fkey frel fin]. now rewrite N_of_n2n.
  - (* Release: the flag swap *) cbn [step]. unfold release_start. rewrite H0.
    rewrite R1, nth_error_map, H0. cbn [option_map rr_rel rref_of]. destruct (frel x) eqn:Ef; [auto|].
    cbn [fst r_refs r_rels refs rels set_rels set_refs]. rewrite R2, map_set_nth, map_app. cbn [map lref]. split; reflexivity.
  - (* Release: the section *) cbn [step]. unfold release_section. rewrite H0, H1.
    rewrite R2, nth_error_map, H0. cbn [option_map refs set_rels].
    rewrite R1, nth_error_map. destruct (nth_error (refs (hs h)) (lref l)) as [x|] eqn:Ex; cbn [option_map].
    + cbn [rr_cnt rref_of]. destruct (fin x) eqn:Ef.
      * cbn [fst].
        match goal with |- r_refs (r_release_remove ?dl ?clk ?r0 ?k0) = _ /\ _ => destruct (r_release_remove_refs dl clk r0 k0) as [C D]; rewrite C, D end.
        cbn [r_refs r_rels set_r_refs].
        match goal with |- _ = map rref_of (refs (if _ then fst (remove_key ?S ?k0) else _)) /\ _ =>
          assert (G : Rf S (if Nat.eqb (cnt (live_ref k0) (refs S)) 0 then fst (remove_key S k0) else S))
            by (destruct (Nat.eqb _ 0); [apply Rf_remove_key | apply Rf_refl]);
          destruct G as [G1 G2]; rewrite G1, G2 end.
        cbn [refs rels set_refs set_rels]. rewrite map_set_nth. split; [reflexivity|].
        rewrite R2. symmetry. now apply (map_set_nth_same lref _ _ l).
      * cbn [fst refs rels set_rels]. split; [exact R1|]. rewrite R2. symmetry. now apply (map_set_nth_same lref _ _ l).
    + cbn [fst refs rels set_rels]. split; [exact R1|]. rewrite R2. symmetry. now apply (map_set_nth_same lref _ _ l).
  - (* KeyedRefCount.RemoveKey *) cbn [step]. unfold rc_remove_key.
    match goal with |- context [r_remove ?dl ?clk ?r0 k] => destruct (r_remove_refs dl clk r0 k) as [C D]; destruct (r_remove dl clk r0 k) as [r' ex] end.
    cbn [fst] in *. rewrite C, D. cbn [r_refs r_rels set_r_refs].
    match goal with |- _ = map rref_of (refs (fst (remove_key ?S ?k0))) /\ _ => destruct (Rf_remove_key S k0) as [G1 G2]; rewrite G1, G2 end.
    cbn [refs rels set_refs]. split; [|exact R2]. rewrite R1, !map_map. apply map_ext. intros x. rewrite r_live_of.
    destruct (live_ref (n2n k) x); reflexivity.
  - destruct (PL (EProceed (n2n i) (nz en)) eq_refl) as [A B]. now rewrite A, B.
  - destruct (PL (EReturn (n2n i) (dec_out o)) eq_refl) as [A B]. now rewrite A, B.
  - destruct (PL (EBook (n2n i)) eq_refl) as [A B]. now rewrite A, B.
  - cbn [step]. destruct (Rf_advance (hs h) d) as [A B]. now rewrite A, B.
  - destruct (PL (ETimerCb t) eq_refl) as [A B]. rewrite A, B.
    repeat match goal with |- context [match ?x with _ => _ end] => destruct x end; auto.
  - destruct (PL EGet eq_refl) as [A B]. now rewrite A, B.
  - cbn [step]. destruct (Rf_cancel_root (hs h) (n2n c)) as [A B]. now rewrite A, B.
  - split; [exact R1 | exact R2].
Qed.

(* ------------------------------------------------------------------ *)
(* configuration, clock, cancelled roots, the container's context *)
Definition RCtx (ctx : N) (canc : list N) (s : st) : Prop :=
  (kctx s = n2n ctx \/ (kctx s = 0%nat /\ root_canc s (n2n ctx) = true)) /\ croots s = map n2n canc.

Lemma RCtx_Kx ctx canc s s' : Kx s s' -> RCtx ctx canc s -> RCtx ctx canc s'.
Proof.
  intros (_ & K2 & K3) [[A|[A1 A2]] B]; (split; [|congruence]); unfold root_canc in *; rewrite K2.
  - destruct K3 as [E|[E1 E2]]; [left; congruence|]. right. split; [exact E1|]. now rewrite <- A.
  - right. split; [destruct K3 as [E|[E1 _]]; congruence | exact A2].
Qed.

Lemma Kx_set_context_from s c same restart : Kx (set_kctx s c) (fold_left (ctx_key c same restart) (map fst (kmap (set_kctx s c))) (set_kctx s c)).
Proof.
  apply (W_fold_acc Kx Kx_refl Kx_trans (fun x => x)). intros a k.
  apply (W_ctx_key Kx Kx_refl Kx_trans Kx_cancel_inst); [intros; apply Kx_ext; reflexivity | intros; apply Kx_start].
Qed.

Lemma RCtx_step m h e ev rets :
  DecCase h e ev rets -> RCtx (m_ctx m) (m_canc m) (hs h) -> RCtx (e_ctx m e) (e_canc m e) (next h ev).
Proof.
  intros Hc HR. unfold next. apply (RCtx_Kx _ _ _ _ (settle_Kx _)).
  assert (ORD : ordinary ev = true -> RCtx (m_ctx m) (m_canc m) (step repaired (hs h) ev))
    by (intros O; apply (RCtx_Kx _ _ (hs h)); [now apply Kx_ordinary | exact HR]).
  destruct Hc; cbn [e_ctx e_canc]; try (apply ORD; reflexivity).
  - (* SetContext *) cbn [step]. unfold set_context. destruct HR as [HK HC].
    destruct (Nat.eqb_spec (kctx (hs h)) (n2n c)) as [E|E]; cbn [andb].
    + destruct (negb (nz r)).
      * split; [left; exact E | exact HC].
      * apply (RCtx_Kx _ _ _ _ (Kx_set_context_from (hs h) (n2n c) _ (nz r))). split; [left; reflexivity | exact HC].
    + apply (RCtx_Kx _ _ _ _ (Kx_set_context_from (hs h) (n2n c) _ (nz r))). split; [left; reflexivity | exact HC].
  - (* advance *) cbn [step]. exact HR.
  - (* the owner cancels a root *) cbn [step]. unfold cancel_root.
    assert (Hc0 : n2n c <> 0%nat).
    { intros E. unfold nz in H. destruct (N.eqb_spec c 0) as [E0|Hn]; [discriminate|]. apply Hn. rewrite <- (N_of_n2n c), E. reflexivity. }
    destruct (Nat.eqb_spec (n2n c) 0) as [E|_]; [contradiction|].
    destruct HR as [HK HC]. split; [|cbn [croots set_croots map]; now rewrite HC].
    unfold root_canc in *. cbn [kctx croots set_croots set_insts existsb].
    destruct HK as [A|[A1 A2]]; [left; exact A | right; split; [exact A1 | rewrite A2; apply orb_true_r]].
  - exact HR.
Qed.

(* delay, script, clock *)
Definition RCfg (m : mst) (s : st) : Prop := m_delay m = delay s /\ m_script m = script s /\ m_clock m = clock s.
Lemma clock_settle s : clock (settle s) = clock s. Proof. apply settle_Kx. Qed.
Lemma RCfg_step m h e ev rets p :
  DecCase h e ev rets -> RCfg m (hs h) -> RCfg (fst (mon1 m e p)) (next h ev).
Proof.
  intros Hc (A & B & C). pose proof (next_Mono h ev) as M. unfold RCfg. cbn [fst mon1 m_delay m_script m_clock].
  rewrite (mo_delay _ _ M), (mo_script _ _ M). split; [exact A|]. split; [exact B|].
  unfold next. rewrite clock_settle.
  assert (ORD : ordinary ev = true -> m_clock m = clock (step repaired (hs h) ev)).
  { intros O. destruct (Kx_ordinary (hs h) ev O) as [E _]. congruence. }
  destruct Hc; cbn [e_clock]; try (apply ORD; reflexivity).
  - (* SetContext *) cbn [step]. unfold set_context. destruct (Nat.eqb (kctx (hs h)) (n2n c) && negb (nz r)); [exact C|].
    match goal with |- _ = clock (fold_left (ctx_key _ ?sm _) _ _) => destruct (Kx_set_context_from (hs h) (n2n c) sm (nz r)) as [E _] end. rewrite E. exact C.
  - cbn [step]. unfold advance. cbn [clock set_timers set_clock]. now rewrite C.
  - cbn [step]. unfold cancel_root. destruct (Nat.eqb (n2n c) 0); exact C.
  - exact C.
Qed.

(* ------------------------------------------------------------------ *)
(* 7/4: nothing is spawned while the container has no context *)
Lemma length_insts_next h ev : length (insts (next h ev)) = length (insts (step repaired (hs h) ev)).
Proof. apply length_insts_settle. Qed.

Lemma nz_false c : nz c = false -> c = 0.
Proof. unfold nz. destruct (N.eqb_spec c 0); [auto | discriminate]. Qed.

Lemma c74_holds m h e ev rets :
  DecCase h e ev rets -> RCtx (m_ctx m) (m_canc m) (hs h) -> m_ninst m = length (insts (hs h)) ->
  c74 m e (pobs_of rets (next h ev) (hlog h)) = true.
Proof.
  intros Hc [HK _] Hn. unfold c74, news_of. cbn [po_insts pobs_of]. rewrite Hn.
  destruct (skipn (length (insts (hs h))) (map icode5 (insts (next h ev)))) as [|x l] eqn:Es; [reflexivity|].
  assert (Hlen : length (insts (step repaired (hs h) ev)) <> length (insts (hs h))).
  { intros E. rewrite <- length_insts_next in E. assert (L := f_equal (@length _) Es). rewrite skipn_length, map_length, E, Nat.sub_diag in L. discriminate. }
  destruct (nz (e_ctx m e)) eqn:Ez; [reflexivity|]. exfalso. apply Hlen. apply nz_false in Ez.
  assert (K0 : e_ctx m e = m_ctx m -> kctx (hs h) = 0%nat).
  { intros E. rewrite E in Ez. rewrite Ez in HK. destruct HK as [A|[A _]]; exact A. }
  destruct Hc; cbn [e_ctx] in *;
    try (apply no_context_no_spawn; [apply K0; reflexivity | intros c0 r0 E0; discriminate E0]).
  cbn [step]. subst c. apply clear_context_no_spawn.
Qed.

(* 6/5: the Release calls that got past the flag swap *)
Lemma c65_holds m h e ev rets :
  DecCase h e ev rets -> RRefs (m_ref m) (hs h) -> c65 m e (pobs_of rets (next h ev) (hlog h)) = true.
Proof.
  intros Hc HR. destruct (RRefs_step m h e ev rets Hc HR) as [_ E]. unfold c65. rewrite E. cbn [po_rels pobs_of].
  rewrite !map_length. apply Nat.eqb_refl.
Qed.

(* ------------------------------------------------------------------ *)
(* the monitors restricted to a set of clauses *)
Definition mon_only (keep : nat * nat -> bool) (m : option mst) (e o : list N) : option mst * list (nat * nat) :=
  let '(m', f) := mon m e o in (m', filter keep f).

Lemma filter_fails keep p c ok : filter keep (fails p c ok) = if keep (p, c) then fails p c ok else [].
Proof. unfold fails. destruct ok; cbn [filter]; [now destruct (keep (p, c))|]. destruct (keep (p, c)); reflexivity. Qed.

(* the clauses of one monitor step, as a list of (clause, holds) *)
Definition clauses (m : mst) (e : list N) (p : pobs) : list (nat * nat * bool) :=
  [(6, 1, c61 m e p); (6, 2, c62 m e p); (6, 3, c63 m e p); (6, 4, c64 m e p); (6, 5, c65 m e p);
   (7, 1, c71 m p); (7, 2, c72 m e p); (7, 3, c73 m p); (7, 4, c74 m e p); (7, 5, c75 m e p); (7, 6, c76 m e p); (7, 7, c77 m e p)]%nat.
Lemma mon1_clauses m e p : snd (mon1 m e p) = concat (map (fun x => fails (fst (fst x)) (snd (fst x)) (snd x)) (clauses m e p)).
Proof. unfold mon1, clauses. cbn [snd map concat fst]. now rewrite app_nil_r. Qed.
Lemma filter_concat_nil {A} (f : A -> bool) (ls : list (list A)) : (forall l, In l ls -> filter f l = []) -> filter f (concat ls) = [].
Proof.
  induction ls as [|l ls IH]; intros H; [reflexivity|]. cbn [concat]. rewrite filter_app, (H l (or_introl eq_refl)), IH; [reflexivity|].
  intros l0 Hl. apply H. now right.
Qed.
Lemma clauses_silent keep m e p :
  (forall x, In x (clauses m e p) -> keep (fst x) = true -> snd x = true) -> filter keep (snd (mon1 m e p)) = [].
Proof.
  intros H. rewrite mon1_clauses. apply filter_concat_nil. intros l Hl. apply in_map_iff in Hl as (x & <- & Hx).
  rewrite filter_fails. destruct x as [[pp cc] ok]. cbn [fst snd] in *. destruct (keep (pp, cc)) eqn:Ek; [|reflexivity].
  specialize (H _ Hx). cbn [fst snd] in H. rewrite (H Ek). reflexivity.
Qed.

Section Main.
  Variable keep : nat * nat -> bool.
  Variable Rel : mst -> hst -> Prop.
  Hypothesis Rel_init : forall cfg h m, hinit cfg = Some h -> minit cfg = Some m -> Rel m h.
  Hypothesis Rel_step : forall m h e ev rets, HR h -> Rel m h -> DecCase h e ev rets ->
    (forall x, In x (clauses m e (pobs_of rets (next h ev) (hlog h))) -> keep (fst x) = true -> snd x = true) /\
    Rel (fst (mon1 m e (pobs_of rets (next h ev) (hlog h)))) {| hs := next h ev; hvar := hvar h; hlog := length (cblog (next h ev)) |}.

  Lemma msm_gen evs : forall h m i rep, HR h -> Rel m h ->
    monitor (mon_only keep) i (Some m) rep evs (run_obs step_opt (Some h) evs) = [].
  Proof.
    induction evs as [|e evs IH]; intros h m i rep Hh Hm; [reflexivity|].
    cbn [run_obs step_opt]. destruct (hstep h e) as [[h' o]|] eqn:E; [|reflexivity].
    pose proof (HR_step h e h' o Hh E) as Hh'.
    destruct (hstep_mon h e h' o m E) as (ev & rets & Hc & E1 & E2 & Em).
    destruct (Rel_step m h e ev rets Hh Hm Hc) as [Hcl Hrel].
    cbn [monitor]. unfold mon_only at 1. rewrite Em. rewrite (clauses_silent keep _ _ _ Hcl). cbn [filter map app].
    apply IH; [exact Hh'|].
    assert (Eh : h' = {| hs := next h ev; hvar := hvar h; hlog := length (cblog (next h ev)) |}).
    { destruct (hstep_inv h e h' o E) as (ev' & rets' & D' & -> & _). destruct (hstep_inv h e _ o E) as (ev2 & rets2 & D2 & _ & _).
      unfold next. cbn [hs] in E1. f_equal; try (now rewrite E1); reflexivity. }
    rewrite Eh. exact Hrel.
  Qed.

  Theorem msm cfg evs : monitor (mon_only keep) 0 (minit cfg) [] evs (run_obs step_opt (hinit cfg) evs) = [].
  Proof.
    destruct (hinit cfg) as [h|] eqn:Eh.
    - assert (exists m, minit cfg = Some m) as [m Em].
      { unfold hinit, minit in *. destruct cfg as [|v [|dl [|hb sc]]]; try discriminate. eauto. }
      rewrite Em. apply msm_gen; [eapply HR_init; eauto | eapply Rel_init; eauto].
    - destruct evs as [|e evs]; [reflexivity|]. cbn [run_obs step_opt]. destruct (minit cfg); reflexivity.
  Qed.
End Main.
