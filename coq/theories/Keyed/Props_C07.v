(* C07 - keyed: per key one live routine, cancelled on removal, retried while wanted.
   Statements only.  "Every sequence of key-set, restart, reset and context operations, every exit latency, every
   placement of calls relative to pending timers" = every list of events of the gate-level model (API sections of Keyed
   and KeyedRefCount, instances leaving their first select in either order, wake-ups, routine returns with any outcome,
   bookkeeping sections, clock advances, retry and delayed-removal callbacks run at any later point, and the owner of
   any root context cancelling it at any moment - [ECancelRoot]), any keys, with and without release delay / back-off.  No bound on keys, instances, timers.
   A LINEAGE ([ilin], [rlin]) is the incarnation of a key: the chain of records it has between being added and being
   removed (ResetRoutine keeps the lineage, see c07_reset_keeps_lineage); a key that is removed and added again starts
   a new lineage, and the property text speaks about "while a key remains in the set". *)
From Util Require Import Common.Base Common.ListLemmas Keyed.Model Keyed.Proofs Keyed.ProofsC07 Keyed.ProofsCancel.

(* the chain: every instance waits on the newest earlier instance of its lineage (or on nothing if all earlier ones
   have returned), its exit channel is closed exactly when it has left the routine function, and it is in / past the
   function only if every earlier instance of the lineage has returned *)
Theorem c07_per_key_chain_invariant : forall delay script es i x,
  let s := run repaired (init delay script) es in
  nth_error (insts s) i = Some x ->
  iexit x = over x /\ wait_ok (insts s) i x /\ (over x = true \/ in_user x = true -> earlier_over (insts s) i (ilin x)).
Proof. intros dl sc es i x s Hx. exact (proj1 (run_inv dl sc es) i x Hx). Qed.
Print Assumptions c07_per_key_chain_invariant.

(* never two instances of one incarnation of a key inside the routine function *)
Theorem c07_at_most_one_in_user_per_incarnation : forall delay script es L,
  cnt (in_user_lin L) (insts (run repaired (init delay script) es)) <= 1.
Proof. exact at_most_one_in_user_per_lineage. Qed.
Print Assumptions c07_at_most_one_in_user_per_incarnation.

(* every instance carries the key and lineage of its record; ResetRoutine keeps the lineage of the key *)
Theorem c07_instances_carry_record_lineage : forall delay script es i x,
  let s := run repaired (init delay script) es in
  nth_error (insts s) i = Some x ->
  irec x < length (recs s) /\ ilin x = rlin (getr s (irec x)) /\ ikey x = rkey (getr s (irec x)).
Proof. intros dl sc es i x s Hx. destruct (proj2 (run_W dl sc es) i x Hx) as [A [B [C _]]]. auto. Qed.
Theorem c07_reset_keeps_lineage : forall s k cond r,
  lookup (kmap s) k = Some r -> cond_match cond k = true ->
  exists r', lookup (kmap (fst (reset_routine repaired s k cond))) k = Some r' /\
             rlin (getr (fst (reset_routine repaired s k cond)) r') = rlin (getr s r).
Proof. exact reset_keeps_lineage. Qed.
Print Assumptions c07_instances_carry_record_lineage.

(* removal and cancellation.  (1) at every point of every history, an instance whose record is not (any longer) the one
   registered under its key has a cancelled context; (2) removeNow takes the key out of the map and cancels every
   instance of the record; (3) a record that is not registered never returns to the map and no instance is ever
   started for it again: start is only called on registered records *)
Theorem c07_removed_is_cancelled_and_not_restarted :
  (forall delay script es i x,
     let s := run repaired (init delay script) es in
     nth_error (insts s) i = Some x -> lookup (kmap s) (ikey x) <> Some (irec x) -> icanc x = true) /\
  (forall delay script es r,
     let s := run repaired (init delay script) es in
     lookup (kmap (remove_now s r)) (rkey (getr s r)) = None /\
     forall i x, nth_error (insts (remove_now s r)) i = Some x -> irec x = r -> icanc x = true) /\
  (forall delay script es es' r,
     let s := run repaired (init delay script) es in
     let s' := run repaired s es' in
     r < length (recs s) -> lookup (kmap s) (rkey (getr s r)) <> Some r ->
     lookup (kmap s') (rkey (getr s' r)) <> Some r /\
     forall i x, length (insts s) <= i -> nth_error (insts s') i = Some x -> irec x <> r).
Proof.
  split; [exact unregistered_is_cancelled|]. split; [|exact unregistered_never_restarted].
  intros dl sc es r s. apply remove_now_effect. apply (run_W dl sc es).
Qed.
Print Assumptions c07_removed_is_cancelled_and_not_restarted.

(* the live instance of a registered record is the record's cancel target (what removal, SetContext, Restart, Reset cancel) *)
Theorem c07_live_instance_is_cancel_target : forall delay script es i x,
  let s := run repaired (init delay script) es in
  nth_error (insts s) i = Some x -> icanc x = false ->
  lookup (kmap s) (ikey x) = Some (irec x) /\ rcancel (getr s (irec x)) = Some i.
Proof. intros dl sc es i x s Hx Hc. destruct (proj2 (run_W dl sc es) i x Hx) as [_ [_ [_ D]]]. exact (D Hc). Qed.
Print Assumptions c07_live_instance_is_cancel_target.

(* clearing the context cancels the context of every instance *)
Theorem c07_clear_context_cancels_all : forall delay script es restart i x,
  let s := run repaired (init delay script) es in
  kctx s <> 0 -> nth_error (insts (set_context s 0 restart)) i = Some x -> icanc x = true.
Proof. intros dl sc es restart i x s Hk Hx. exact (clear_context_cancels_all s restart (run_W dl sc es) Hk i x Hx). Qed.
Print Assumptions c07_clear_context_cancels_all.

(* a root context cancelled by its owner (not cleared through the container).  (1) at every point of every history an
   instance whose root context is cancelled has a cancelled context - it was born so, or was cancelled with the root;
   (2) the cancellation itself cancels every instance started under that root and tells the container nothing (context,
   key map, records, timers untouched, nothing started); (3) the container drops a cancelled root at its next SyncKeys /
   ResetRoutine / RestartRoutine call - the call starts nothing, RestartRoutine reports "not restarted" - and from then on
   c07_no_context_nothing_started applies.  SetKey, SetContext and the retry callback do not look at the root's state: what
   they start under a cancelled root is cancelled from birth (1). *)
Theorem c07_cancelled_root_cancels_its_instances :
  (forall delay script es i x,
     let s := run repaired (init delay script) es in
     nth_error (insts s) i = Some x -> root_canc s (iroot x) = true -> icanc x = true) /\
  (forall s c, c <> 0 ->
     root_canc (cancel_root s c) c = true /\
     (forall i x, nth_error (insts (cancel_root s c)) i = Some x -> iroot x = c -> icanc x = true) /\
     kctx (cancel_root s c) = kctx s /\ kmap (cancel_root s c) = kmap s /\ recs (cancel_root s c) = recs s /\
     timers (cancel_root s c) = timers s /\ length (insts (cancel_root s c)) = length (insts s)).
Proof. split; [intros dl sc es i x s; exact (run_InvC repaired dl sc es i x) | exact cancel_root_effect]. Qed.
Print Assumptions c07_cancelled_root_cancels_its_instances.

Theorem c07_cancelled_root_dropped_at_next_call : forall s,
  root_canc s (kctx s) = true ->
  (forall ks restart, let s' := fst (sync_keys repaired s ks restart) in kctx s' = 0 /\ length (insts s') = length (insts s)) /\
  (forall k cond, let s' := fst (reset_routine repaired s k cond) in kctx s' = 0 /\ length (insts s') = length (insts s)) /\
  (forall k cond, let s' := fst (restart_routine s k cond) in kctx s' = 0 /\ length (insts s') = length (insts s) /\
                                                            snd (snd (restart_routine s k cond)) = false).
Proof. exact cancelled_root_dropped. Qed.
Print Assumptions c07_cancelled_root_dropped_at_next_call.

(* ... and while the container has no context nothing is started, whatever is called (only SetContext with a context
   starts routines again) *)
Theorem c07_no_context_nothing_started : forall s e,
  kctx s = 0 -> (forall c r, e = ESetCtx c r -> c = 0) -> length (insts (step repaired s e)) = length (insts s).
Proof. exact no_context_no_spawn. Qed.
Print Assumptions c07_no_context_nothing_started.

(* calls that do not restart leave the pending retry alone (defect D7 repaired): SetKey(start=false) and one kept key
   of SyncKeys(restart=false) keep the record's retry timer, back-off index and exit status, start nothing, and touch
   no timer except the record's pending removal; GetKeys/GetKey/GetKeysWithData do not change the state at all *)
Theorem c07_retry_kept_by_nonrestarting_calls :
  (forall s k r, lookup (kmap s) k = Some r -> r < length (recs s) ->
     let s' := fst (set_key repaired s k false) in
     rretry (getr s' r) = rretry (getr s r) /\ rbo (getr s' r) = rbo (getr s r) /\ rexited (getr s' r) = rexited (getr s r) /\
     insts s' = insts s /\ kctx s' = kctx s /\ kmap s' = kmap s /\
     (forall t, rremove (getr s r) <> Some t -> nth_error (timers s') t = nth_error (timers s) t)) /\
  (forall s seen added k r, lookup (kmap s) k = Some r -> r < length (recs s) -> mem k seen = false ->
     let s' := fst (fst (sync_one repaired false (s, seen, added) k)) in
     rretry (getr s' r) = rretry (getr s r) /\ rbo (getr s' r) = rbo (getr s r) /\ rexited (getr s' r) = rexited (getr s r) /\
     insts s' = insts s /\ kctx s' = kctx s /\ kmap s' = kmap s /\
     (forall t, rremove (getr s r) <> Some t -> nth_error (timers s') t = nth_error (timers s) t)) /\
  (forall s, step repaired s EGet = s).
Proof.
  split; [exact set_key_nostart_keeps_retry|]. split; [exact sync_one_norestart_keeps_retry|]. reflexivity.
Qed.
Print Assumptions c07_retry_kept_by_nonrestarting_calls.

(* the retry comes: once the clock passes the deadline the timer is fired, and the callback of a fired retry timer
   of a registered record that exited, while the container has a context, starts a new instance *)
Theorem c07_retry_fires :
  (forall s d t x, nth_error (timers s) t = Some x -> tst x = TArmed -> (tdead x <= clock s + d)%N ->
     exists x', nth_error (timers (advance s d)) t = Some x' /\ tst x' = TFired /\ trec x' = trec x /\ tkind x' = tkind x) /\
  (forall s t x, nth_error (timers s) t = Some x -> tst x = TFired -> tkind x = false ->
     kctx s <> 0 -> in_map s (trec x) = true -> rexited (getr s (trec x)) = true -> rnil (getr s (trec x)) = false ->
     ninst (timer_cb repaired s t) = S (ninst s)).
Proof. split; [exact advance_fires | exact retry_cb_restarts]. Qed.
Print Assumptions c07_retry_fires.

(* historical: the pinned code (before the fix commits D8, D8b) ran two instances of one key at once, and SetKey
   without start (D7) stopped the retry for good *)
Theorem c07_pinned_d8_refuted : cnt (in_user_lin 0) (insts (run pinned_d8 (init 0 None) d8_witness)) = 2.
Proof. exact d8_refuted. Qed.
Theorem c07_pinned_d8b_refuted : cnt (in_user_lin 0) (insts (run pinned_d8b (init 0 None) d8b_witness)) = 2.
Proof. exact d8b_refuted. Qed.
Theorem c07_pinned_d22_refuted : cnt (in_user_lin 0) (insts (run pinned_d22 (init 0 None) d22_witness)) = 2.
Proof. exact d22_refuted. Qed.
Theorem c07_pinned_d7_refuted :
  let s := run pinned_d7 (init 0 (Some [100; 200]%N)) d7_witness in
  present s 0 = true /\ kctx s = 1 /\ ninst s = 1 /\ failed (getr s 0) = true /\ rretry (getr s 0) = None /\
  map tst (timers s) = [TStopped].
Proof. exact d7_refuted. Qed.

(* non-vacuity: the repaired model on the same schedules *)
Example c07_example_chain :
  let s := run repaired (init 0 None) d8_witness in
  cnt (in_user_lin 0) (insts s) = 1 /\ length (insts s) = 3 /\ ipcv (geti s 1) = IWaitC /\ ipcv (geti s 2) = IWait.
Proof. vm_compute. repeat split; reflexivity. Qed.
Example c07_example_reset_without_context_waits :
  let s := run repaired (init 0 None) d8b_witness in
  cnt (in_user_lin 0) (insts s) = 1 /\ ipcv (geti s 1) = IWait /\ iwait (geti s 1) = Some 0.
Proof. vm_compute. repeat split; reflexivity. Qed.
(* a record without a routine keeps the exit channel of the instance ResetRoutine cancelled: the instance of the next
   record waits for it; the record itself is never started, RestartRoutine leaves it alone, it occupies its key *)
Example c07_example_reset_nil_routine_keeps_chain :
  let s := run repaired (init 0 None) d22_witness in
  cnt (in_user_lin 0) (insts s) = 1 /\ length (insts s) = 2 /\ ipcv (geti s 1) = IWait /\ iwait (geti s 1) = Some 0 /\
  let s1 := run repaired (init 0 None) [ESetCtx 1 false; ESetKey 0 true; EProceed 0 true; ESetNil 1; EReset 0 0] in
  rnil (getr s1 1) = true /\ rexit (getr s1 1) = Some 0 /\ present s1 0 = true /\ get_key s1 0 = (2%N, true) /\
  length (insts (fst (restart_routine s1 0 0))) = 1 /\ snd (restart_routine s1 0 0) = (true, true) /\
  length (insts (run repaired s1 [ESetKey 0 true; ESetCtx 2 true; ESetNil 2; ESetKey 1 true; ESetKey 2 true])) = 2.
Proof. vm_compute. repeat split; reflexivity. Qed.
Example c07_example_retry_survives_setkey :
  let s := run repaired (init 0 (Some [100; 200]%N)) (d7_witness ++ [ETimerCb 0; EProceed 1 true]) in
  ninst s = 2 /\ in_user (geti s 1) = true /\ rbo (getr s 0) = 1 /\ map tst (timers s) = [TRan].
Proof. vm_compute. repeat split; reflexivity. Qed.
(* two keys run concurrently (different lineages); removing one cancels its instance and leaves the other alone;
   the key added again gets a new lineage and does not wait for the old instance *)
Example c07_example_two_keys :
  let s := run repaired (init 0 None)
             [ESetCtx 1 false; ESetKey 0 true; ESetKey 1 true; EProceed 0 true; EProceed 1 true; ERemoveKey 0; ESetKey 0 true; EProceed 2 true] in
  cnt in_user (insts s) = 3 /\ icanc (geti s 0) = true /\ icanc (geti s 1) = false /\ ilin (geti s 0) = 0 /\ ilin (geti s 2) = 2 /\
  cnt (in_user_lin 0) (insts s) = 1 /\ cnt (in_user_lin 2) (insts s) = 1.
Proof. vm_compute. repeat split; reflexivity. Qed.

(* the owner cancels the root context: the running instance is cancelled; SetKey(start) replaces it by an instance that
   is cancelled from birth and waits for it; a key added now gets an instance that ends at once with context.Canceled
   (it never enters the routine function), its retry callback starts the next one; RestartRoutine drops the context *)
Example c07_example_cancelled_root :
  let s := run repaired (init 0 (Some [100; 200]%N))
             [ESetCtx 1 false; ESetKey 0 true; EProceed 0 true; ECancelRoot 1; ESetKey 0 true; ESetKey 2 false; EProceed 2 true;
              EBook 2; EAdvance 100; ETimerCb 0] in
  icanc (geti s 0) = true /\ in_user (geti s 0) = true /\ icanc (geti s 1) = true /\ iwait (geti s 1) = Some 0 /\
  ipcv (geti s 2) = IDone /\ cblog s = [(2, 2001%N, OCanc)] /\ length (insts s) = 4 /\ icanc (geti s 3) = true /\ kctx s = 1 /\
  let s' := fst (restart_routine s 0 0) in kctx s' = 0 /\ length (insts s') = 4.
Proof. vm_compute. repeat split; reflexivity. Qed.

(* the monitor clauses 7/6 and 7/7 (Spec.v: a key that the caller's requests have removed has no instance with a live
   context inside its routine function and gets no new instance), on the observation format.  A key set {0,1} with both
   routines running, SyncKeys([0;0]) (a list with a duplicate), then SetContext(other root, restart):
   - on the model's own observations the checker (correspondence and all monitors) reports nothing;
   - on a trace in which that SyncKeys call left key 1 alone (nothing removed, its instance still live) 7/6 is false at
     that step, and 7/7 at the SetContext that starts key 1 again. *)
From Util Require Import Keyed.Spec.
Example c07_example_monitor_silent_on_model_trace :
  let evs := [[1;1;0]; [4;0;0;1]; [14;0;1]; [14;1;1]; [4;0;0;0]; [1;2;1]]%N in
  length (run_obs step_opt (hinit [0;0;0]%N) evs) = 6%nat /\
  run_check_keyed0 [0;0;0]%N evs (run_obs step_opt (hinit [0;0;0]%N) evs) = [].
Proof. vm_compute. split; reflexivity. Qed.
Example c07_example_monitor_flags_kept_key :
  let evs := [[1;1;0]; [4;0;0;1]; [14;0;1]; [14;1;1]; [4;0;0;0]; [1;2;1]]%N in
  let obss := [[0;0;0;0;0];
               [2;0;1;0; 2;0;1;1;1001; 2; 1;0;0;0;0; 1;1;0;0;0; 0;0;0];
               [2;0;1;1;1001; 2; 3;0;1;1;0; 1;1;0;0;0; 0;0;0];
               [2;0;1;1;1001; 2; 3;0;1;1;0; 3;1;1001;1;0; 0;0;0];
               [0;0; 2;0;1;1;1001; 2; 3;0;1;1;0; 3;1;1001;1;0; 0;0;0];
               [2;0;1;1;1001; 4; 3;0;1;1;1; 3;1;1001;1;1; 1;0;0;0;0; 1;1;0;0;0; 0;0;0]]%N in
  let is7 (c i : nat) (x : issue) := match x with PropFalse 7%nat c' i' => Nat.eqb c c' && Nat.eqb i i' | _ => false end in
  existsb (is7 6%nat 4%nat) (run_check_keyed0 [0;0;0]%N evs obss) = true /\
  existsb (is7 7%nat 5%nat) (run_check_keyed0 [0;0;0]%N evs obss) = true.
Proof. vm_compute. split; reflexivity. Qed.
(* a routine started under a root context that is cancelled afterwards records its (error) exit after the container has
   dropped that root (RestartAllRoutines, then ClearContext): the retry timer it arms finds no context and starts
   nothing - the pending retry is consumed by its callback.  A due retry has to be parked / carried out (7/5) only while the
   container holds a live context: the monitors are silent. *)
Example c07_example_monitor_silent_late_exit_after_cancelled_root :
  let evs := [[1;1;0]; [2;0;1]; [14;0;1]; [21;1]; [9;1]; [1;0;1]; [15;0;2]; [16;0]; [17;100]; [18;0]; [19]]%N in
  length (run_obs step_opt (hinit [0;0;1;100]%N) evs) = 11%nat /\
  run_check_keyed0 [0;0;1;100]%N evs (run_obs step_opt (hinit [0;0;1;100]%N) evs) = [].
Proof. vm_compute. split; reflexivity. Qed.

(* ------------------------------------------------------------------ *)
(* The monitors of Spec.v - the property as a judgement on OBSERVED traces, what is evaluated on the implementation's
   observations - on the MODEL's own observations, for EVERY event list and EVERY configuration the codec accepts
   (no bound on keys, instances, timers, length): the FULL statement is proved,
     forall cfg evs, monitor mon 0 (minit cfg) [] evs (run_obs step_opt (hinit cfg) evs) = []
   i.e. none of the clauses is ever false on a trace of the model:
     7/1 at most one instance of an incarnation inside the routine function, 7/2 an instance in the routine function with a
     live context belongs to the current record of its key and the container holds a context, 7/3 a new instance belongs to
     a key of the set and an instance runs a record of the incarnation its key had when it was spawned, 7/4 nothing is
     spawned while the container has no context, 7/5 a retry obligation (the recorded error exit of a key's current record,
     with the back-off duration the script gives for the record's index) that is due has its callback parked while the
     container holds a live context - the obligation is the pending retry timer of the record registered under the key; it
     survives ClearContext / SetContext(nil) / a cancelled root being dropped (non-restarting calls) and is consumed when its
     callback runs without a live context, 7/6 a key that the caller's requests have removed
     (reference key set) has no instance with a live context inside its routine function, 7/7 and gets no new instance; all
     clauses of property 6 (6/1 key set, 6/2 data, 6/3 return values, 6/4 references, 6/5 Release calls), and 6/9, 7/9
     (every observation the model produces parses).
   The proofs found latent false alarms of the monitors, repaired in Spec.v: records were named by their data value
   alone (data = key * 1000 + count collides across keys beyond 999 constructions: now named by (key, data)); a stale
   delayed-removal callback tied with the current one (same key and deadline) made 6/1 false on the model's own trace;
   retry obligations were created while the container held no live context.  The clauses proved last (6/1-6/4, 7/5-7/7)
   needed no further repair: 400000 random model histories had been run against the monitors beforehand. *)
From Util Require Import Keyed.ProofsMon Keyed.ProofsMon2 Keyed.ProofsMonAll Keyed.ProofsMonAll2 Keyed.ProofsMonAll3.
Theorem c07_model_satisfies_monitors : forall cfg evs,
  monitor mon 0 (minit cfg) [] evs (run_obs step_opt (hinit cfg) evs) = [].
Proof. exact model_satisfies_monitors. Qed.
Print Assumptions c07_model_satisfies_monitors.
(* hence the checker - correspondence and all monitors - reports nothing at all on a history the model accepts completely *)
Theorem c07_model_run_check_clean : forall cfg evs,
  length (run_obs step_opt (hinit cfg) evs) = length evs ->
  run_check_keyed0 cfg evs (run_obs step_opt (hinit cfg) evs) = [].
Proof. exact model_run_check_clean. Qed.
Print Assumptions c07_model_run_check_clean.
(* an earlier stage of the proof: every clause except 7/5 *)
Theorem c07_model_satisfies_monitors_clauses_7_1_7_2_7_3_7_4_7_6_7_7 : forall cfg evs,
  monitor (mon_only proved2) 0 (minit cfg) [] evs (run_obs step_opt (hinit cfg) evs) = [].
Proof. exact model_satisfies_monitors_proved2. Qed.
Print Assumptions c07_model_satisfies_monitors_clauses_7_1_7_2_7_3_7_4_7_6_7_7.
(* the pending retry survives ClearContext: error exit, clear inside the back-off window, a new context (no restart), then
   the deadline: the callback is parked and starts the routine again; the checker reports nothing on the model's trace.
   On a trace in which the clear stopped the timer (nothing parked at the deadline, seed C07_4A) 7/5 is false there. *)
Example c07_example_retry_survives_clear :
  let evs := [[1;1;0]; [2;0;1]; [14;0;1]; [15;0;2]; [16;0]; [17;100]; [1;0;0]; [17;100]; [1;2;0]; [17;100]; [18;0]; [14;1;1]]%N in
  length (run_obs step_opt (hinit [0;0;1;300]%N) evs) = 12%nat /\
  run_check_keyed0 [0;0;1;300]%N evs (run_obs step_opt (hinit [0;0;1;300]%N) evs) = [] /\
  let evs' := firstn 10 evs in
  let obs' := run_obs step_opt (hinit [0;0;1;300]%N) evs' in
  let bad := firstn 9 obs' ++ [[1;0;1; 1; 5;0;0;0;0; 0; 0; 0]]%N in
  existsb (fun x => match x with PropFalse 7%nat 5%nat 9%nat => true | _ => false end) (run_check_keyed0 [0;0;1;300]%N evs' bad) = true.
Proof. vm_compute. repeat split; reflexivity. Qed.
(* a zero back-off duration: the retry timer is due the moment it is armed; its callback is parked at once (time.AfterFunc(0)),
   the retry obligation of 7/5 is met *)
Example c07_example_zero_backoff :
  let evs := [[1;1;0]; [2;0;1]; [14;0;1]; [15;0;2]; [16;0]; [18;0]; [14;1;1]]%N in
  length (run_obs step_opt (hinit [0;0;1;0]%N) evs) = 7%nat /\
  run_check_keyed0 [0;0;1;0]%N evs (run_obs step_opt (hinit [0;0;1;0]%N) evs) = [].
Proof. vm_compute. split; reflexivity. Qed.

(* ---- the Keyed built with keyed.WithRetry(conf) (configuration hasbo = 2: conf = the backoff package's constant kind):
   the retry script is computed by the model of the backoff package (Backoff.Model.Construct / bo_script); the expanded
   configuration is an ordinary scripted one, so every theorem above applies to it. *)
Theorem c07_real_backoff_config_expands : forall v dl d rest,
  expand (v :: dl :: 2 :: d :: rest)%N = (v :: dl :: 1 :: repeat (if N.eqb d 0 then 5000 else d) real_script_len)%N.
Proof. exact expand_real_constant. Qed.
Print Assumptions c07_real_backoff_config_expands.

Theorem c07_model_run_check_clean_real_backoff : forall cfg evs,
  length (run_obs step_opt (hinit (expand cfg)) evs) = length evs ->
  run_check_keyed cfg evs (run_obs step_opt (hinit (expand cfg)) evs) = [].
Proof. exact model_run_check_clean_expanded. Qed.
Print Assumptions c07_model_run_check_clean_real_backoff.
