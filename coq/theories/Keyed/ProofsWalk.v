(* keyed: a generic walk through the model's operations.  A reflexive, transitive relation on states that is closed
   under the primitive updates the operations are built from holds between a state and its successor for every event;
   the frame and monotonicity facts the monitor proofs need are instances. *)
From Util Require Import Common.Base Common.ListLemmas Keyed.Model Keyed.Proofs.

(* a record update that touches only the context / cancel / pending-removal / pending-retry fields *)
Definition rsoft (x y : rec) : Prop :=
  rkey y = rkey x /\ rlin y = rlin x /\ rdata y = rdata x /\ rerr y = rerr x /\ rsucc y = rsucc x /\
  rexited y = rexited x /\ rbo y = rbo x /\ rexit y = rexit x.

Section Walk.
  Variable P : st -> st -> Prop.
  Hypothesis P_refl : forall s, P s s.
  Hypothesis P_trans : forall s s1 s2, P s s1 -> P s1 s2 -> P s s2.
  Hypothesis P_cancel_inst : forall s oi, P s (cancel_inst s oi).
  Hypothesis P_stop_timer : forall s ot, P s (stop_timer s ot).
  (* start is only ever called on a registered record, with the container's context, which is not nil *)
  Hypothesis P_start : forall s k r w f, lookup (kmap s) k = Some r -> has_ctx s = true -> P s (start_rec s r (kctx s) w f).
  (* a record is constructed for an absent key, in a new lineage, or (ResetRoutine) in place of the key's record, in its lineage *)
  Hypothesis P_new_fresh : forall s k, lookup (kmap s) k = None ->
    P s (set_nlin (fst (new_record s k (nlin s) None)) (S (nlin (fst (new_record s k (nlin s) None))))).
  Hypothesis P_new_same : forall s k r lin w, lookup (kmap s) k = Some r -> lin = rlin (getr s r) -> P s (fst (new_record s k lin w)).
  Hypothesis P_setr_soft : forall s r y, rsoft (getr s r) y -> P s (setr s r y).
  Hypothesis P_setr_exit : forall s r y o a b, y = getr s r -> P s (setr s r (with_exit y o a b)).
  Hypothesis P_seti_pc : forall s i x p, nth_error (insts s) i = Some x -> P s (seti s i (with_pc x p)).
  Hypothesis P_seti_over : forall s i x o, nth_error (insts s) i = Some x -> P s (seti s i (with_over x o)).
  Hypothesis P_timers_app : forall s tm, tst tm = TArmed -> P s (set_timers s (timers s ++ [tm])).
  Hypothesis P_timer_ran : forall s t x, nth_error (timers s) t = Some x -> tst x = TFired ->
                                         P s (set_timers s (set_nth (timers s) t (with_tst x TRan))).
  Hypothesis P_kmap_delete : forall s k, P s (set_kmap s (delete (kmap s) k)).
  Hypothesis P_cblog_app : forall s x, P s (set_cblog s (cblog s ++ [x])).
  Hypothesis P_set_refs : forall s l, P s (set_refs s l).
  Hypothesis P_set_rels : forall s l, P s (set_rels s l).
  Hypothesis P_norm_ctx : forall s, P s (norm_ctx s).

  Ltac tr := eapply P_trans.

  Lemma getr_stop_timer s ot r : getr (stop_timer s ot) r = getr s r.
  Proof. unfold getr. destruct (stop_timer_frame s ot) as [_ [T2 _]]. now rewrite T2. Qed.
  Lemma getr_cancel_inst s oi r : getr (cancel_inst s oi) r = getr s r.
  Proof. unfold getr. destruct (cancel_inst_frame s oi) as [_ [C2 _]]. now rewrite C2. Qed.

  Lemma rsoft_remove x v : rsoft x (with_remove x v). Proof. repeat split. Qed.
  Lemma rsoft_retry x v : rsoft x (with_retry x v). Proof. repeat split. Qed.
  Lemma rsoft_noctx x : rsoft x (with_noctx x). Proof. repeat split. Qed.
  Lemma rsoft_cancel x v : rsoft x (with_cancel x v). Proof. repeat split. Qed.

  Lemma W_remove_now s r : P s (remove_now s r).
  Proof.
    unfold remove_now. tr; [apply P_cancel_inst|]. tr; [apply P_stop_timer|]. tr; [|apply P_kmap_delete].
    apply P_setr_soft. apply rsoft_retry.
  Qed.
  Lemma W_remove_rec s r : P s (remove_rec s r).
  Proof.
    unfold remove_rec. destruct (rremove (getr s r)); [apply P_refl|].
    destruct (N.eqb (delay s) 0 || failed (getr s r)); [apply W_remove_now|].
    match goal with |- P s (setr ?S _ _) => apply (P_trans s S); [apply P_timers_app; reflexivity|] end.
    apply P_setr_soft. apply (rsoft_remove (getr s r)).
  Qed.
  Lemma W_unremove s r : P s (unremove s r).
  Proof.
    unfold unremove. destruct (rremove (getr s r)) eqn:E; [|apply P_refl]. tr; [apply P_stop_timer|].
    apply P_setr_soft. rewrite getr_stop_timer. apply rsoft_remove.
  Qed.
  Lemma W_unretry s r : P s (unretry s r).
  Proof.
    unfold unretry. destruct (rretry (getr s r)) eqn:E; [|apply P_refl]. tr; [apply P_stop_timer|].
    apply P_setr_soft. rewrite getr_stop_timer. apply rsoft_retry.
  Qed.
  Lemma kmap_stop_timer s ot : kmap (stop_timer s ot) = kmap s. Proof. apply stop_timer_frame. Qed.
  Lemma kmap_cancel_inst s oi : kmap (cancel_inst s oi) = kmap s. Proof. apply cancel_inst_frame. Qed.
  Lemma lookup_new_fresh s k :
    lookup (kmap (set_nlin (fst (new_record s k (nlin s) None)) (S (nlin (fst (new_record s k (nlin s) None)))))) k = Some (snd (new_record s k (nlin s) None)).
  Proof. unfold new_record. cbn [fst snd kmap set_nlin set_kmap]. apply lookup_insert_same. Qed.

  Lemma W_set_key fx s k st : P s (fst (set_key fx s k st)).
  Proof.
    unfold set_key. destruct (lookup (kmap s) k) as [r|] eqn:Ek.
    - cbn [fst]. tr; [apply W_unremove|].
      tr; [instantiate (1 := if fx_setkey fx then unremove s r else unretry (unremove s r) r); destruct (fx_setkey fx); [apply P_refl | apply W_unretry]|].
      destruct (st && has_ctx _) eqn:Ec; [|apply P_refl]. apply andb_true_iff in Ec as [_ Ec]. apply (P_start _ k); [|exact Ec].
      destruct (fx_setkey fx); [rewrite kmap_unremove | rewrite kmap_unretry, kmap_unremove]; exact Ek.
    - pose proof (P_new_fresh s k Ek) as G. pose proof (lookup_new_fresh s k) as L.
      destruct (new_record s k (nlin s) None) as [s1 r]. cbn [fst snd] in *.
      tr; [exact G|]. destruct (has_ctx _) eqn:Ec; [now apply (P_start _ k) | apply P_refl].
  Qed.
  Lemma W_remove_key s k : P s (fst (remove_key s k)).
  Proof. unfold remove_key. destruct (lookup (kmap s) k); cbn [fst]; [apply W_remove_rec | apply P_refl]. Qed.

  Lemma W_fold_acc {A E} (pr : A -> st) (f : A -> E -> A) :
    (forall a e, P (pr a) (pr (f a e))) -> forall es a, P (pr a) (pr (fold_left f es a)).
  Proof. intros Hf es. induction es as [|e es IH]; intros a; cbn [fold_left]; [apply P_refl | tr; [apply Hf | apply IH]]. Qed.

  Lemma W_sync_one fx restart acc k : P (fst (fst acc)) (fst (fst (sync_one fx restart acc k))).
  Proof.
    destruct acc as [[s seen] added]. cbn [fst]. unfold sync_one. destruct (mem k seen); [apply P_refl|].
    destruct (lookup (kmap s) k) as [r|] eqn:Ek.
    - cbn [fst]. tr; [instantiate (1 := if fx_sync fx then unremove s r else s); destruct (fx_sync fx); [apply W_unremove | apply P_refl]|].
      destruct (restart && has_ctx _) eqn:Ec; [|apply P_refl]. apply andb_true_iff in Ec as [_ Ec]. apply (P_start _ k); [|exact Ec].
      destruct (fx_sync fx); [rewrite kmap_unremove|]; exact Ek.
    - pose proof (P_new_fresh s k Ek) as G. pose proof (lookup_new_fresh s k) as L.
      destruct (new_record s k (nlin s) None) as [s1 r]. cbn [fst snd] in *.
      tr; [exact G|]. destruct (has_ctx _) eqn:Ec; [now apply (P_start _ k) | apply P_refl].
  Qed.
  Lemma W_sync_rm keys acc k : P (fst acc) (fst (sync_rm keys acc k)).
  Proof. destruct acc as [s removed]. unfold sync_rm. destruct (mem k keys); cbn [fst]; [apply P_refl | apply W_remove_key]. Qed.
  Lemma W_sync_core fx s keys restart : P s (fst (sync_core fx s keys restart)).
  Proof.
    unfold sync_core.
    pose proof (W_fold_acc (fun acc : st * list nat * list nat => fst (fst acc)) (sync_one fx restart) (W_sync_one fx restart) keys (s, [], [])) as G1.
    destruct (fold_left (sync_one fx restart) keys (s, [], [])) as [[s1 seen] added]. cbn [fst] in G1.
    pose proof (W_fold_acc (fun acc : st * list nat => fst acc) (sync_rm keys) (W_sync_rm keys) (map fst (kmap s1)) (s1, [])) as G2.
    destruct (fold_left (sync_rm keys) (map fst (kmap s1)) (s1, [])) as [s2 removed]. cbn [fst] in *. tr; eauto.
  Qed.
  Lemma W_sync_keys fx s keys restart : P s (fst (sync_keys fx s keys restart)).
  Proof. unfold sync_keys. tr; [apply P_norm_ctx | apply W_sync_core]. Qed.

  (* SetContext starts with the context it is installing *)
  Hypothesis P_start_ctx : forall s k r c w f, lookup (kmap s) k = Some r -> c <> 0 -> P s (start_rec s r c w f).
  Lemma W_ctx_key c same restart s k : P s (ctx_key c same restart s k).
  Proof.
    unfold ctx_key. destruct (lookup (kmap s) k) as [r|] eqn:Ek; [|apply P_refl]. destruct (same && is_nil (rerr (getr s r))); [apply P_refl|].
    tr; [instantiate (1 := setr (cancel_inst s (rcancel (getr s r))) r (with_noctx (getr s r)));
         tr; [apply P_cancel_inst | apply P_setr_soft; rewrite getr_cancel_inst; apply rsoft_noctx]|].
    destruct (_ && negb (Nat.eqb c 0)) eqn:Ec; [|apply P_refl]. apply andb_true_iff in Ec as [_ Ec].
    apply (P_start_ctx _ k); [rewrite kmap_setr, kmap_cancel_inst; exact Ek|]. intros ->. discriminate.
  Qed.
  (* SetContext, given that the relation tolerates the change of the container context *)
  Lemma W_set_context s c restart : (forall s c, P s (set_kctx s c)) -> P s (set_context s c restart).
  Proof.
    intros Hk. unfold set_context. destruct (Nat.eqb (kctx s) c && negb restart); [apply P_refl|].
    tr; [apply Hk|]. apply (W_fold_acc (fun x => x)). intros; apply W_ctx_key.
  Qed.
  Lemma W_reset_core fx s k cond : P s (fst (reset_core fx s k cond)).
  Proof.
    unfold reset_core. destruct (lookup (kmap s) k) as [r|] eqn:Ek; [|apply P_refl]. destruct (negb (cond_match cond k)); [apply P_refl|].
    set (s1 := cancel_inst s (rcancel (getr s r))). match goal with |- context [new_record s1 k _ ?w] => set (w0 := w) end.
    assert (K1 : lookup (kmap s1) k = Some r) by (unfold s1; rewrite kmap_cancel_inst; exact Ek).
    pose proof (P_new_same s1 k r (rlin (getr s r)) w0 K1) as G.
    assert (L : lookup (kmap (fst (new_record s1 k (rlin (getr s r)) w0))) k = Some (snd (new_record s1 k (rlin (getr s r)) w0)))
      by (unfold new_record; cbn [fst snd kmap set_kmap]; apply lookup_insert_same).
    destruct (new_record s1 k (rlin (getr s r)) w0) as [s2 r2]. cbn [fst snd] in *.
    tr; [apply P_cancel_inst|]. fold s1. tr; [apply G; unfold s1; now rewrite getr_cancel_inst|].
    destruct (has_ctx s2) eqn:Ec; [now apply (P_start _ k) | apply P_refl].
  Qed.
  Lemma W_reset_routine fx s k cond : P s (fst (reset_routine fx s k cond)).
  Proof. unfold reset_routine. tr; [apply P_norm_ctx | apply W_reset_core]. Qed.
  Lemma W_restart_core s k cond : P s (fst (restart_core s k cond)).
  Proof.
    unfold restart_core. destruct (lookup (kmap s) k) as [r|] eqn:Ek; [|apply P_refl].
    destruct (has_ctx s) eqn:Ec; cbn [negb]; [|apply P_refl]. destruct (negb (cond_match cond k)); [apply P_refl|]. cbn [fst].
    tr; [instantiate (1 := setr (cancel_inst s (rcancel (getr s r))) r (with_cancel (getr s r) None));
         tr; [apply P_cancel_inst | apply P_setr_soft; rewrite getr_cancel_inst; apply rsoft_cancel]|].
    apply (P_start _ k); [rewrite kmap_setr, kmap_cancel_inst; exact Ek|].
    unfold has_ctx in *. cbn [kctx setr set_recs]. destruct (cancel_inst_frame s (rcancel (getr s r))) as (_ & _ & _ & _ & C5 & _). now rewrite C5.
  Qed.
  Lemma W_restart_routine s k cond : P s (fst (restart_routine s k cond)).
  Proof. unfold restart_routine. tr; [apply P_norm_ctx | apply W_restart_core]. Qed.
  Lemma W_all_step f cond acc k : (forall s k c, P s (fst (f s k c))) -> P (fst acc) (fst (all_step f cond acc k)).
  Proof. intros Hf. destruct acc as [s n]. unfold all_step. pose proof (Hf s k cond) as G. destruct (f s k cond) as [s' [ex rs]]. exact G. Qed.
  Lemma W_reset_all fx s cond : P s (fst (reset_all fx s cond)).
  Proof.
    unfold reset_all.
    pose proof (W_fold_acc (fun acc : st * nat => fst acc) (all_step (reset_routine fx) cond) (fun a e => W_all_step _ cond a e (W_reset_routine fx)) (map fst (kmap s)) (s, 0)) as G.
    destruct (fold_left _ _ (s, 0)) as [s' n]. exact G.
  Qed.
  Lemma W_restart_all s cond : P s (fst (restart_all s cond)).
  Proof.
    unfold restart_all.
    pose proof (W_fold_acc (fun acc : st * nat => fst acc) (all_step restart_routine cond) (fun a e => W_all_step _ cond a e W_restart_routine) (map fst (kmap s)) (s, 0)) as G.
    destruct (fold_left _ _ (s, 0)) as [s' n]. exact G.
  Qed.
  Lemma W_add_key_ref fx s k : P s (fst (add_key_ref fx s k)).
  Proof. unfold add_key_ref. pose proof (W_set_key fx s k true) as G. destruct (set_key fx s k true) as [s1 res]. cbn [fst] in *. tr; [exact G | apply P_set_refs]. Qed.
  Lemma W_release_start s f : P s (release_start s f).
  Proof. unfold release_start. destruct (nth_error (refs s) f) as [x|]; [|apply P_refl]. destruct (frel x); [apply P_refl|]. tr; [apply P_set_refs | apply P_set_rels]. Qed.
  Lemma W_release_section s a : P s (release_section s a).
  Proof.
    unfold release_section. destruct (nth_error (rels s) a) as [l|]; [|apply P_refl]. destruct (lparked l); [|apply P_refl].
    set (s1 := set_rels s _). assert (G1 : P s s1) by apply P_set_rels.
    destruct (nth_error (refs s1) (lref l)) as [x|]; [|exact G1]. destruct (fin x); [|exact G1].
    set (s2 := set_refs s1 _). assert (G2 : P s s2) by (tr; [exact G1 | apply P_set_refs]).
    destruct (Nat.eqb _ 0); [tr; [exact G2 | apply W_remove_key] | exact G2].
  Qed.
  Lemma W_rc_remove_key s k : P s (fst (rc_remove_key s k)).
  Proof. unfold rc_remove_key. tr; [apply P_set_refs | apply W_remove_key]. Qed.
  Ltac casesW := repeat match goal with |- context [match ?x with _ => _ end] => destruct x eqn:? end.
  Lemma W_proceed fx s i en : P s (proceed fx s i en). Proof. unfold proceed. casesW; auto. Qed.
  Lemma W_wake fx s i en : P s (wake fx s i en). Proof. unfold wake. casesW; auto. Qed.
  Lemma W_fn_return s i o : P s (fn_return s i o). Proof. unfold fn_return. casesW; auto. Qed.
  Lemma W_bookkeep s i : P s (bookkeep s i).
  Proof.
    unfold bookkeep. destruct (nth_error (insts s) i) as [x|] eqn:Ex; [|apply P_refl]. destruct (ipcv x) eqn:Ep; try apply P_refl.
    set (s0 := seti s i (with_pc x IDone)). assert (G0 : P s s0) by (now apply P_seti_pc).
    set (r := irec x). set (y := getr s r).
    destruct (rctx y) as [j|]; [|exact G0]. destruct (Nat.eqb j i); [|exact G0].
    assert (G : forall S a b, P s S -> getr S r = y ->
                              P s (set_cblog (setr S r (with_exit y o a b)) (cblog (setr S r (with_exit y o a b)) ++ [(rkey y, rdata y, o)]))).
    { intros S a b HS Hy. tr; [exact HS|]. apply (P_trans _ (setr S r (with_exit y o a b))); [apply P_setr_exit; now symmetry | apply P_cblog_app]. }
    destruct (script s0) as [l|]; [|apply G; [exact G0 | reflexivity]].
    assert (G' : P s (stop_timer s0 (rretry y))) by (tr; [exact G0 | apply P_stop_timer]).
    assert (Y' : getr (stop_timer s0 (rretry y)) r = y) by (rewrite getr_stop_timer; reflexivity).
    destruct (is_nil o); [now apply G|]. destruct (in_map _ _); [|now apply G].
    destruct (nth_error l _); [|now apply G]. apply G; [tr; [exact G' | apply P_timers_app; reflexivity]|].
    unfold getr in *. cbn [recs set_timers]. exact Y'.
  Qed.
  Lemma W_timer_cb fx s t : P s (timer_cb fx s t).
  Proof.
    unfold timer_cb. destruct (nth_error (timers s) t) as [x|] eqn:Ex; [|apply P_refl]. destruct (tst x) eqn:Es; try apply P_refl.
    set (s1 := set_timers s _). assert (G1 : P s s1) by (now apply P_timer_ran).
    destruct (tkind x).
    - destruct (in_map s1 (trec x) && _); [|exact G1].
      tr; [exact G1|]. tr; [|apply W_remove_now]. tr; [apply P_stop_timer|].
      apply P_setr_soft. apply rsoft_remove.
    - destruct (has_ctx s1) eqn:Ec; cbn [andb]; [|exact G1]. destruct (in_map s1 (trec x)) eqn:Em; cbn [andb]; [|exact G1].
      destruct (rexited (getr s1 (trec x))); [|exact G1]. tr; [exact G1|]. apply (P_start _ (rkey (getr s1 (trec x)))); [now apply in_map_lookup | exact Ec].
  Qed.

  (* every event except SetContext, a clock advance, the cancellation of a root context and the constructor's mode *)
  Definition ordinary (e : ev) : bool := match e with ESetCtx _ _ | EAdvance _ | ECancelRoot _ | ESetNil _ => false | _ => true end.
  Theorem W_step fx s e : ordinary e = true -> P s (step fx s e).
  Proof.
    intros H. destruct e; cbn [step]; try discriminate H.
    - apply W_set_key. - apply W_remove_key. - apply W_sync_keys. - apply P_refl.
    - apply W_reset_routine. - apply W_restart_routine. - apply W_reset_all. - apply W_restart_all.
    - apply W_add_key_ref. - apply W_release_start. - apply W_release_section. - apply W_rc_remove_key.
    - apply W_proceed. - apply W_wake. - apply W_fn_return. - apply W_bookkeep. - apply W_timer_cb.
  Qed.
  (* ... and except the KeyedRefCount calls *)
  Definition plain (e : ev) : bool :=
    match e with ESetCtx _ _ | EAdvance _ | ECancelRoot _ | ESetNil _ | EAddRef _ | ERelStart _ | ERelSect _ | ERcRemove _ => false | _ => true end.
  Theorem W_step_plain fx s e : plain e = true -> P s (step fx s e).
  Proof.
    intros H. destruct e; cbn [step]; try discriminate H.
    - apply W_set_key. - apply W_remove_key. - apply W_sync_keys. - apply P_refl.
    - apply W_reset_routine. - apply W_restart_routine. - apply W_reset_all. - apply W_restart_all.
    - apply W_proceed. - apply W_wake. - apply W_fn_return. - apply W_bookkeep. - apply W_timer_cb.
  Qed.
  Lemma W_run_wakes s n : P s (run repaired s (map (fun i => EWake i true) (seq 0 n))).
  Proof.
    unfold run. generalize (seq 0 n) as l. intros l. revert s. induction l as [|i l IH]; intros s; cbn [map fold_left]; [apply P_refl|].
    tr; [|apply IH]. cbn [step]. apply W_wake.
  Qed.
End Walk.
