(* keyed: what every operation leaves alone or only extends (an instance of the generic walk). *)
From Util Require Import Common.Base Common.ListLemmas Keyed.Model Keyed.Proofs Keyed.ProofsWalk.

(* the identity of an instance never changes; a cancellation is never undone *)
Definition isame (x x' : inst) : Prop :=
  irec x' = irec x /\ ikey x' = ikey x /\ ilin x' = ilin x /\ iwait x' = iwait x /\ idata x' = idata x /\ iroot x' = iroot x /\
  (icanc x = true -> icanc x' = true).
Lemma isame_refl x : isame x x. Proof. repeat split; auto. Qed.
Lemma isame_trans x y z : isame x y -> isame y z -> isame x z.
Proof. intros (A1&A2&A3&A4&A5&A6&A7) (B1&B2&B3&B4&B5&B6&B7). repeat split; try congruence; auto. Qed.
Definition tsame (x x' : timer) : Prop := tkind x' = tkind x /\ trec x' = trec x /\ tkey x' = tkey x /\ tdead x' = tdead x.
Lemma tsame_refl x : tsame x x. Proof. repeat split. Qed.
Definition rsame (x x' : rec) : Prop := rkey x' = rkey x /\ rlin x' = rlin x /\ rdata x' = rdata x.

Record Mono (s s' : st) : Prop := {
  mo_delay : delay s' = delay s;
  mo_script : script s' = script s;
  mo_insts : forall i x, nth_error (insts s) i = Some x -> exists x', nth_error (insts s') i = Some x' /\ isame x x';
  mo_recs : forall r, r < length (recs s) -> r < length (recs s') /\ rsame (getr s r) (getr s' r);
  mo_cblog : exists l, cblog s' = cblog s ++ l;
  mo_timers : forall t x, nth_error (timers s) t = Some x -> exists x', nth_error (timers s') t = Some x' /\ tsame x x';
}.

Lemma Mono_refl s : Mono s s.
Proof.
  constructor; auto.
  - intros i x H. exists x. split; [exact H | apply isame_refl].
  - intros r H. split; [exact H | repeat split].
  - exists []. now rewrite app_nil_r.
  - intros t x H. exists x. split; [exact H | apply tsame_refl].
Qed.
Lemma Mono_trans s s1 s2 : Mono s s1 -> Mono s1 s2 -> Mono s s2.
Proof.
  intros A B. constructor.
  - rewrite (mo_delay _ _ B). apply A. - rewrite (mo_script _ _ B). apply A.
  - intros i x H. destruct (mo_insts _ _ A i x H) as (x1 & H1 & S1). destruct (mo_insts _ _ B i x1 H1) as (x2 & H2 & S2).
    exists x2. split; [exact H2 | eapply isame_trans; eauto].
  - intros r H. destruct (mo_recs _ _ A r H) as (H1 & K1 & L1 & D1). destruct (mo_recs _ _ B r H1) as (H2 & K2 & L2 & D2).
    split; [exact H2|]. repeat split; congruence.
  - destruct (mo_cblog _ _ A) as [l1 E1]. destruct (mo_cblog _ _ B) as [l2 E2]. exists (l1 ++ l2). now rewrite E2, E1, app_assoc.
  - intros t x H. destruct (mo_timers _ _ A t x H) as (x1 & H1 & (A1&A2&A3&A4)). destruct (mo_timers _ _ B t x1 H1) as (x2 & H2 & (B1&B2&B3&B4)).
    exists x2. split; [exact H2|]. repeat split; congruence.
Qed.

(* an update that leaves everything but the listed parts alone *)
Lemma Mono_ext s s' :
  delay s' = delay s -> script s' = script s ->
  insts s' = insts s -> cblog s' = cblog s -> timers s' = timers s ->
  (forall r, r < length (recs s) -> r < length (recs s') /\ rsame (getr s r) (getr s' r)) -> Mono s s'.
Proof.
  intros E1 E2 E6 E7 E8 Hr. constructor; auto.
  - intros i x H. exists x. rewrite E6. split; [exact H | apply isame_refl].
  - exists []. now rewrite app_nil_r.
  - intros t x H. exists x. rewrite E8. split; [exact H | apply tsame_refl].
Qed.
Lemma Mono_ext_recs s s' :
  delay s' = delay s -> script s' = script s ->
  insts s' = insts s -> cblog s' = cblog s -> timers s' = timers s -> recs s' = recs s -> Mono s s'.
Proof. intros E1 E2 E6 E7 E8 E9. apply Mono_ext; auto. intros r H. unfold getr. rewrite E9. split; [exact H | repeat split]. Qed.
Ltac mext := apply Mono_ext_recs; reflexivity.

Lemma Mono_seti s i x x' : nth_error (insts s) i = Some x -> isame x x' -> Mono s (seti s i x').
Proof.
  intros Hx Hs. assert (Hil : i < length (insts s)) by (eapply nth_error_nth_len; eauto).
  constructor; try reflexivity; auto.
  - intros j y Hy. rewrite insts_seti. destruct (Nat.eq_dec j i) as [->|Hne].
    + exists x'. rewrite nth_error_set_nth_same by exact Hil. split; [reflexivity|]. congruence.
    + exists y. rewrite nth_error_set_nth_other by exact Hne. split; [exact Hy | apply isame_refl].
  - intros r H. split; [exact H | repeat split].
  - exists []. now rewrite app_nil_r.
  - intros t y H. exists y. split; [exact H | apply tsame_refl].
Qed.
Lemma Mono_setr s r y : rsame (getr s r) y -> Mono s (setr s r y).
Proof.
  intros (K & L & D). apply Mono_ext; try reflexivity. intros q Hq. rewrite recs_setr, length_set_nth. split; [exact Hq|].
  destruct (Nat.eq_dec q r) as [->|Hne]; [rewrite getr_setr_same by exact Hq; repeat split; auto | rewrite getr_setr_other by exact Hne; repeat split].
Qed.
Lemma Mono_cancel_inst s oi : Mono s (cancel_inst s oi).
Proof.
  unfold cancel_inst. destruct oi as [i|]; [|apply Mono_refl]. destruct (nth_error (insts s) i) as [x|] eqn:E; [|apply Mono_refl].
  apply (Mono_seti s i x); [exact E|]. repeat split; auto.
Qed.
Lemma Mono_stop_timer s ot : Mono s (stop_timer s ot).
Proof.
  unfold stop_timer. destruct ot as [t|]; [|apply Mono_refl]. destruct (nth_error (timers s) t) as [x|] eqn:E; [|apply Mono_refl].
  destruct (tst x); try apply Mono_refl.
  assert (Hl : t < length (timers s)) by (eapply nth_error_nth_len; eauto).
  constructor; try reflexivity; auto.
  - intros i y H. exists y. split; [exact H | apply isame_refl].
  - intros r H. split; [exact H | repeat split].
  - exists []. now rewrite app_nil_r.
  - intros u y Hy. cbn [timers set_timers]. destruct (Nat.eq_dec u t) as [->|Hne].
    + rewrite nth_error_set_nth_same by exact Hl. eexists. split; [reflexivity|]. rewrite E in Hy. inversion Hy. repeat split.
    + rewrite nth_error_set_nth_other by exact Hne. exists y. split; [exact Hy | apply tsame_refl].
Qed.
Lemma Mono_insts_app s x : Mono s (set_insts s (insts s ++ [x])).
Proof.
  constructor; try reflexivity; auto.
  - intros i y H. exists y. cbn [insts set_insts]. rewrite nth_error_app1 by (eapply nth_error_nth_len; eauto). split; [exact H | apply isame_refl].
  - intros r H. split; [exact H | repeat split].
  - exists []. now rewrite app_nil_r.
  - intros t y H. exists y. split; [exact H | apply tsame_refl].
Qed.
Lemma Mono_start s r c w f : Mono s (start_rec s r c w f).
Proof.
  unfold start_rec. set (x := getr s r). destruct (negb f && rsucc x || rnil x); [apply Mono_refl|].
  destruct (negb f && is_some (rctx x) && negb (rexited x) && ctx_live s (rctx x)); [apply Mono_refl|]. cbn zeta.
  eapply Mono_trans; [apply Mono_stop_timer|]. eapply Mono_trans; [apply Mono_cancel_inst|]. eapply Mono_trans; [apply Mono_insts_app|].
  apply Mono_setr. cbn [rkey rlin rdata with_started].
  assert (E : getr (set_insts (cancel_inst (stop_timer s (rretry x)) (rcancel x))
                     (insts (cancel_inst (stop_timer s (rretry x)) (rcancel x)) ++
                      [{| irec := r; ikey := rkey x; ilin := rlin x; iwait := w; ipcv := IGate0; icanc := root_canc s c; iexit := false; idata := rdata x; iroot := c |}])) r = x).
  { unfold getr, x. cbn [recs set_insts]. destruct (cancel_inst_frame (stop_timer s (rretry (nth r (recs s) rec0))) (rcancel (nth r (recs s) rec0))) as [_ [C2 _]].
    destruct (stop_timer_frame s (rretry (nth r (recs s) rec0))) as [_ [T2 _]]. unfold getr in *. now rewrite C2, T2. }
  rewrite E. repeat split.
Qed.
Lemma Mono_new_record s k lin w : Mono s (fst (new_record s k lin w)).
Proof.
  unfold new_record. cbn [fst]. apply Mono_ext; try reflexivity. intros r H.
  cbn [recs set_kmap set_recs set_ctors]. rewrite app_length. split; [lia|]. unfold getr. cbn [recs set_kmap set_recs set_ctors].
  rewrite app_nth1 by exact H. repeat split.
Qed.
Lemma Mono_timers_app s tm : Mono s (set_timers s (timers s ++ [tm])).
Proof.
  constructor; try reflexivity; auto.
  - intros i y H. exists y. split; [exact H | apply isame_refl].
  - intros r H. split; [exact H | repeat split].
  - exists []. now rewrite app_nil_r.
  - intros t y H. exists y. cbn [timers set_timers]. rewrite nth_error_app1 by (eapply nth_error_nth_len; eauto). split; [exact H | apply tsame_refl].
Qed.
Lemma Mono_timer_set s t x v : nth_error (timers s) t = Some x -> Mono s (set_timers s (set_nth (timers s) t (with_tst x v))).
Proof.
  intros E. assert (Hl : t < length (timers s)) by (eapply nth_error_nth_len; eauto).
  constructor; try reflexivity; auto.
  - intros i y H. exists y. split; [exact H | apply isame_refl].
  - intros r H. split; [exact H | repeat split].
  - exists []. now rewrite app_nil_r.
  - intros u y Hy. cbn [timers set_timers]. destruct (Nat.eq_dec u t) as [->|Hne].
    + rewrite nth_error_set_nth_same by exact Hl. eexists. split; [reflexivity|]. rewrite E in Hy. inversion Hy. repeat split.
    + rewrite nth_error_set_nth_other by exact Hne. exists y. split; [exact Hy | apply tsame_refl].
Qed.
Lemma Mono_cblog_app s x : Mono s (set_cblog s (cblog s ++ [x])).
Proof.
  constructor; try reflexivity; auto.
  - intros i y H. exists y. split; [exact H | apply isame_refl].
  - intros r H. split; [exact H | repeat split].
  - exists [x]. reflexivity.
  - intros t y H. exists y. split; [exact H | apply tsame_refl].
Qed.
Lemma Mono_norm_ctx s : Mono s (norm_ctx s).
Proof. unfold norm_ctx. destruct (root_canc s (kctx s)); [mext | apply Mono_refl]. Qed.

Lemma Mono_ordinary s e : ordinary e = true -> Mono s (step repaired s e).
Proof.
  apply (W_step Mono Mono_refl Mono_trans Mono_cancel_inst Mono_stop_timer (fun s k r w f _ _ => Mono_start s r (kctx s) w f)).
  - intros s0 k _. eapply Mono_trans; [apply Mono_new_record | mext].
  - intros; apply Mono_new_record.
  - intros s0 r y (K & L & D & _). apply Mono_setr. repeat split; auto.
  - intros s0 r y o a b ->. apply Mono_setr. repeat split.
  - intros s0 i x p H. apply (Mono_seti s0 i x _ H). repeat split; auto.
  - intros s0 i x o H. apply (Mono_seti s0 i x _ H). repeat split; auto.
  - intros; apply Mono_timers_app.
  - intros s0 t x H _. now apply Mono_timer_set.
  - intros; mext.
  - intros; apply Mono_cblog_app.
  - intros; mext. - intros; mext.
  - apply Mono_norm_ctx.
Qed.

Lemma Mono_set_context s c restart : Mono s (set_context s c restart).
Proof.
  apply (W_set_context Mono Mono_refl Mono_trans Mono_cancel_inst).
  - intros s0 r y (K & L & D & _). apply Mono_setr. repeat split; auto.
  - intros; apply Mono_start.
  - intros; mext.
Qed.
Lemma Mono_advance s d : Mono s (advance s d).
Proof.
  unfold advance. constructor; try reflexivity.
  - intros i y H. exists y. split; [exact H | apply isame_refl].
  - intros r H. split; [exact H | repeat split].
  - exists []. now rewrite app_nil_r.
  - intros t y H. cbn [timers set_timers set_clock]. rewrite nth_error_map, H. cbn [option_map]. eexists. split; [reflexivity|].
    unfold fire. destruct (tst y); [destruct (N.leb _ _)| | |]; repeat split.
Qed.
Lemma Mono_cancel_root s c : Mono s (cancel_root s c).
Proof.
  unfold cancel_root. destruct (Nat.eqb c 0); [apply Mono_refl|]. constructor; try reflexivity.
  - intros i y H. cbn [insts set_croots set_insts]. rewrite nth_error_map, H. cbn [option_map]. eexists. split; [reflexivity|].
    destruct (Nat.eqb (iroot y) c); [repeat split; auto | apply isame_refl].
  - intros r H. split; [exact H | repeat split].
  - exists []. now rewrite app_nil_r.
  - intros t y H. exists y. split; [exact H | apply tsame_refl].
Qed.
Theorem Mono_step s e : Mono s (step repaired s e).
Proof.
  destruct (ordinary e) eqn:O; [now apply Mono_ordinary|].
  destruct e; try discriminate O; cbn [step]; [apply Mono_set_context | apply Mono_advance | apply Mono_cancel_root | mext].
Qed.
Theorem Mono_run es : forall s, Mono s (run repaired s es).
Proof. induction es as [|e es IH]; intros s; [apply Mono_refl|]. cbn [run fold_left]. eapply Mono_trans; [apply Mono_step | apply IH]. Qed.

(* ---- clock, cancelled roots, and the container's context ---- *)
Definition Kx (s s' : st) : Prop :=
  clock s' = clock s /\ croots s' = croots s /\ (kctx s' = kctx s \/ (kctx s' = 0 /\ root_canc s (kctx s) = true)).
Lemma Kx_refl s : Kx s s. Proof. repeat split; auto. Qed.
Lemma Kx_trans s s1 s2 : Kx s s1 -> Kx s1 s2 -> Kx s s2.
Proof.
  intros (A1 & A2 & A3) (B1 & B2 & B3). split; [congruence|]. split; [congruence|].
  destruct A3 as [E|[E1 E2]], B3 as [F|[F1 F2]].
  - left. congruence.
  - right. split; [exact F1|]. unfold root_canc in *. rewrite A2, E in F2. exact F2.
  - right. split; [congruence | exact E2].
  - right. split; [exact F1 | exact E2].
Qed.
Lemma Kx_ext s s' : clock s' = clock s -> croots s' = croots s -> kctx s' = kctx s -> Kx s s'.
Proof. intros A B C. repeat split; auto. Qed.
Ltac kext := apply Kx_ext; reflexivity.
Lemma Kx_cancel_inst s oi : Kx s (cancel_inst s oi).
Proof. unfold cancel_inst. destruct oi as [i|]; [|apply Kx_refl]. destruct (nth_error (insts s) i); [kext | apply Kx_refl]. Qed.
Lemma Kx_stop_timer s ot : Kx s (stop_timer s ot).
Proof.
  unfold stop_timer. destruct ot as [t|]; [|apply Kx_refl]. destruct (nth_error (timers s) t) as [x|]; [|apply Kx_refl].
  destruct (tst x); try apply Kx_refl. kext.
Qed.
Lemma Kx_start s r c w f : Kx s (start_rec s r c w f).
Proof.
  unfold start_rec. destruct (negb f && rsucc (getr s r) || rnil (getr s r)); [apply Kx_refl|].
  destruct (negb f && is_some (rctx (getr s r)) && negb (rexited (getr s r)) && ctx_live s (rctx (getr s r))); [apply Kx_refl|]. cbn zeta.
  eapply Kx_trans; [apply Kx_stop_timer|]. eapply Kx_trans; [apply Kx_cancel_inst|]. kext.
Qed.
Lemma Kx_norm_ctx s : Kx s (norm_ctx s).
Proof. unfold norm_ctx. destruct (root_canc s (kctx s)) eqn:E; [|apply Kx_refl]. split; [reflexivity|]. split; [reflexivity|]. right. auto. Qed.
Theorem Kx_ordinary s e : ordinary e = true -> Kx s (step repaired s e).
Proof.
  apply (W_step Kx Kx_refl Kx_trans Kx_cancel_inst Kx_stop_timer (fun s k r w f _ _ => Kx_start s r (kctx s) w f)); try (intros; kext). apply Kx_norm_ctx.
Qed.
Lemma Kx_wakes s n : Kx s (run repaired s (map (fun i => EWake i true) (seq 0 n))).
Proof.
  apply (W_run_wakes Kx Kx_refl Kx_trans); intros; kext.
Qed.
