(* Proofs about the CContainer model (C15). *)
From Util Require Import Common.Base Common.ListLemmas CContainer.Model CContainer.Spec.

(* ------------------------------------------------------------------ *)
(* small list facts *)

Lemma set_nth_all {A} (P : A -> Prop) (l : list A) a x' :
  (forall k y, nth_error l k = Some y -> P y) -> P x' ->
  forall k y, nth_error (set_nth l a x') k = Some y -> P y.
Proof.
  intros Hall Hx k y Hk. destruct (Nat.lt_ge_cases a (length l)) as [Hl|Hl].
  - destruct (Nat.eq_dec k a) as [->|Hne].
    + rewrite nth_error_set_nth_same in Hk by exact Hl. inversion Hk; subst; exact Hx.
    + rewrite nth_error_set_nth_other in Hk by exact Hne. eauto.
  - rewrite set_nth_oob in Hk by exact Hl. eauto.
Qed.

Lemma app_all {A} (P : A -> Prop) (l : list A) x' :
  (forall k y, nth_error l k = Some y -> P y) -> P x' ->
  forall k y, nth_error (l ++ [x']) k = Some y -> P y.
Proof. intros Hall Hx k y Hk. apply nth_error_app_inv in Hk as [Hk| ->]; eauto. Qed.

Lemma in_skipn_last {A} (l : list A) (x : A) k : k < length (l ++ [x]) -> In x (skipn k (l ++ [x])).
Proof.
  intros Hk. rewrite skipn_app. apply in_or_app. right.
  rewrite app_length in Hk. cbn in Hk. replace (k - length l) with 0 by lia. now left.
Qed.

Lemma in_skipn_app {A} (l t : list A) (x : A) k : In x (skipn k l) -> In x (skipn k (l ++ t)).
Proof. intros H. rewrite skipn_app. apply in_or_app. now left. Qed.

Lemma map_set_nth {A B} (f : A -> B) (l : list A) a x : map f (set_nth l a x) = set_nth (map f l) a (f x).
Proof. revert a; induction l as [|h t IH]; intros [|a]; cbn; auto. now rewrite IH. Qed.

Lemma set_nth_same {A} (l : list A) a x : nth_error l a = Some x -> set_nth l a x = l.
Proof. revert a; induction l as [|h t IH]; intros [|a] H; cbn in *; try discriminate; [now inversion H | now rewrite IH]. Qed.

Lemma NoDup_snoc {A} (l : list A) x : NoDup l -> ~ In x l -> NoDup (l ++ [x]).
Proof.
  induction l as [|h t IH]; intros Hnd Hin; cbn.
  - constructor; [intros [] | constructor].
  - inversion Hnd as [|h' t' Hh Ht]; subst. constructor.
    + rewrite in_app_iff. intros [H|[H|[]]]; [now apply Hh | subst; apply Hin; now left].
    + apply IH; [exact Ht | intros H; apply Hin; now right].
Qed.

Lemma fold_inv_ev {S E} (I : S -> Prop) (Q : E -> Prop) (f : S -> E -> S) :
  (forall s e, Q e -> I s -> I (f s e)) -> forall es s, Forall Q es -> I s -> I (fold_left f es s).
Proof.
  intros H es; induction es as [|e es IH]; intros s HQ Hs; cbn; auto.
  inversion HQ; subst. apply IH; auto.
Qed.

Definition dflt : actor := new_actor (PDone OGet 0) false CPlain 0.

Section P.
  Variable eqv : N -> N -> bool.
  Notation step := (step eqv).
  Notation cond := (cond eqv).
  Notation compare := (compare eqv).
  Notation cell_step := (cell_step eqv).
  Notation cell_fold := (cell_fold eqv).
  Notation run := (run eqv).
  Notation seta := seta.

  (* ---------------------------------------------------------------- *)
  (* the main invariant: no lost wake-up, returned values held and satisfying, errors have a source *)

  Definition aok (bb : bc) (v : N) (h : list N) (x : actor) : Prop :=
    start x < length h /\
    (In true (errq x) -> esent x = true) /\
    match pc x with
    | WSampled w u ch => ch < nxt bb /\ (closed bb ch = true \/ u = v) /\ In u (skipn (start x) h)
    | WBlocked w u ch => ch < nxt bb /\ (closed bb ch = true \/ u = v) /\ In u (skipn (start x) h) /\ cond w u = VNo
    | WRet w u ENone => In u (skipn (start x) h) /\ cond w u = VOk /\ is_watch w = false
    | WRet w u EValid => u = 0%N /\ exists y, In y (skipn (start x) h) /\ cond w y = VErr
    | WRet w u ECanceled => u = 0%N /\ ((ctxc x = true /\ is_deadline (flav x) = false) \/ eclosed x = true)
    | WRet w u EErrCh => u = 0%N /\ esent x = true
    | WRet w u ECb => u = 0%N /\ is_watch w = true
    | WRet w u EDeadline => u = 0%N /\ ctxc x = true /\ is_deadline (flav x) = true
    | WCb w u => In u (skipn (start x) h) /\ cond w u = VOk /\ is_watch w = true
    | _ => True
    end.

  Definition Inv (s : st) : Prop :=
    bc_wf (b s) /\ (exists l, vh s = l ++ [val s]) /\
    forall a x, nth_error (acts s) a = Some x -> aok (b s) (val s) (vh s) x.

  Lemma aok_mono bb v h bb' v' t x :
    aok bb v h x ->
    nxt bb <= nxt bb' ->
    (forall c, c < nxt bb -> closed bb c = true -> closed bb' c = true) ->
    (forall c, c < nxt bb -> closed bb' c = true \/ v' = v) ->
    aok bb' v' (h ++ t) x.
  Proof.
    intros (Hs & Hq & Hp) Hn Hc Ho. split; [rewrite app_length; lia|]. split; [exact Hq|].
    destruct (pc x) as [o|o r|w|w u ch|w u ch|w u [| | | | |]|w u]; auto.
    - destruct Hp as (H1 & H2 & H3). split; [lia|]. split; [|now apply in_skipn_app].
      destruct H2 as [H2| ->]; [left; now apply Hc|]. destruct (Ho ch H1) as [H| ->]; auto.
    - destruct Hp as (H1 & H2 & H3 & H4). split; [lia|]. split; [|split; [now apply in_skipn_app | exact H4]].
      destruct H2 as [H2| ->]; [left; now apply Hc|]. destruct (Ho ch H1) as [H| ->]; auto.
    - destruct Hp as (H1 & H2). split; [now apply in_skipn_app | exact H2].
    - destruct Hp as (H1 & y & H2 & H3). split; [exact H1|]. exists y. split; [now apply in_skipn_app | exact H3].
    - destruct Hp as (H1 & H2). split; [now apply in_skipn_app | exact H2].
  Qed.

  Lemma aok_same bb v h x : aok bb v h x -> aok bb v (h ++ []) x.
  Proof. intros H. eapply aok_mono; eauto. Qed.

  (* an actor whose pc changes to p, other fields unchanged *)
  Lemma aok_set_pc bb v h x p :
    aok bb v h x ->
    match p with
    | WSampled w u ch => ch < nxt bb /\ (closed bb ch = true \/ u = v) /\ In u (skipn (start x) h)
    | WBlocked w u ch => ch < nxt bb /\ (closed bb ch = true \/ u = v) /\ In u (skipn (start x) h) /\ cond w u = VNo
    | WRet w u ENone => In u (skipn (start x) h) /\ cond w u = VOk /\ is_watch w = false
    | WRet w u EValid => u = 0%N /\ exists y, In y (skipn (start x) h) /\ cond w y = VErr
    | WRet w u ECanceled => u = 0%N /\ ((ctxc x = true /\ is_deadline (flav x) = false) \/ eclosed x = true)
    | WRet w u EErrCh => u = 0%N /\ esent x = true
    | WRet w u ECb => u = 0%N /\ is_watch w = true
    | WRet w u EDeadline => u = 0%N /\ ctxc x = true /\ is_deadline (flav x) = true
    | WCb w u => In u (skipn (start x) h) /\ cond w u = VOk /\ is_watch w = true
    | _ => True
    end -> aok bb v h (set_pc x p).
  Proof. intros (Hs & Hq & _) Hp. split; [exact Hs|]. split; [exact Hq|]. exact Hp. Qed.

  Lemma geta s a x : nth_error (acts s) a = Some x -> a < length (acts s) /\ nth a (acts s) dflt = x.
  Proof. intros H. split; [eapply nth_error_nth_len; eauto | now apply nth_error_nth]. Qed.

  Lemma seta_eq s a x p : nth_error (acts s) a = Some x -> seta s a p = set_nth (acts s) a (set_pc x p).
  Proof. intros G. unfold Model.seta. now rewrite G. Qed.

  (* generic re-establishment: actor a replaced by x', globals replaced *)
  Lemma inv_upd s bb v t a x' l' :
    Inv s -> bc_wf bb ->
    (t = [] /\ v = val s \/ t = [v]) ->
    nxt (b s) <= nxt bb ->
    (forall c, c < nxt (b s) -> closed (b s) c = true -> closed bb c = true) ->
    (forall c, c < nxt (b s) -> closed bb c = true \/ v = val s) ->
    aok bb v (vh s ++ t) x' ->
    Inv {| b := bb; val := v; acts := set_nth (acts s) a x'; vh := vh s ++ t; lin := l' |}.
  Proof.
    intros (Hwf & (l & Hl) & Ha) Hwf' Ht Hn Hc Ho Hx. split; [exact Hwf'|]. cbn [b val acts vh]. split.
    - destruct Ht as [[-> ->]| ->]; [exists l; now rewrite app_nil_r | exists (vh s); reflexivity].
    - apply set_nth_all; [|exact Hx]. intros k y Hk. eapply aok_mono; eauto.
  Qed.

  (* the same with unchanged globals *)
  Lemma inv_upd_same s a x' :
    Inv s -> aok (b s) (val s) (vh s) x' -> Inv (with_acts s (set_nth (acts s) a x')).
  Proof.
    intros HI Hx. pose proof HI as (Hwf & _ & _).
    pose proof (inv_upd s (b s) (val s) [] a x' (lin s) HI Hwf (or_introl (conj eq_refl eq_refl)) (le_n _)
                  (fun c _ H => H) (fun c _ => or_intror eq_refl)) as H.
    rewrite app_nil_r in H. specialize (H Hx). exact H.
  Qed.

  Lemma inv_app s x' :
    Inv s -> aok (b s) (val s) (vh s) x' -> Inv (with_acts s (acts s ++ [x'])).
  Proof.
    intros (Hwf & Hl & Ha) Hx. split; [exact Hwf|]. split; [exact Hl|]. cbn [b val acts vh with_acts].
    apply app_all; auto.
  Qed.

  Lemma vh_len s : Inv s -> length (vh s) - 1 < length (vh s).
  Proof. intros (_ & (l & Hl) & _). rewrite Hl, app_length. cbn. lia. Qed.

  Lemma init_inv v0 : Inv (init v0).
  Proof. split; [exact I|]. split; [now exists []|]. intros [|a] x H; discriminate. Qed.

  Lemma step_inv s e : Inv s -> Inv (step s e).
  Proof.
    intros HI. pose proof HI as (Hwf & (l & Hl) & Ha).
    destruct e as [o|w hc fl|a|a|a|a|a|a|a m|a|a cerr]; cbn [Model.step].
    - (* Call *) apply inv_app; [exact HI|]. split; [now apply vh_len|]. split; [intros []|exact I].
    - apply inv_app; [exact HI|]. split; [now apply vh_len|]. split; [intros []|exact I].
    - (* Sect *)
      destruct (nth_error (acts s) a) as [x|] eqn:G; [|exact HI]. pose proof (Ha _ _ G) as Hx.
      assert (Hkeep : forall o r, Inv (fin_keep s a o r)).
      { intros o r. unfold fin_keep. rewrite (seta_eq _ _ _ _ G).
        pose proof (inv_upd s (b s) (val s) [] a (set_pc x (PDone o r)) (lin s ++ [(a, o)]) HI Hwf
                      (or_introl (conj eq_refl eq_refl)) (le_n _) (fun c _ H => H) (fun c _ => or_intror eq_refl)) as H.
        rewrite app_nil_r in H. apply H. now apply aok_set_pc. }
      assert (Hstore : forall o v r, Inv (fin_store s a o v r)).
      { intros o v r. unfold fin_store. rewrite (seta_eq _ _ _ _ G).
        apply inv_upd; auto.
        - apply bcast_wf.
        - intros c Hc _. now apply bcast_closes.
        - intros c Hc. left. now apply bcast_closes.
        - apply aok_set_pc; [|exact I]. eapply aok_mono; eauto.
          + intros c Hc _. now apply bcast_closes.
          + intros c Hc. left. now apply bcast_closes. }
      destruct (pc x) as [o|o r|w|w u ch|w u ch|w u ek|w u] eqn:Ep; try exact HI.
      + destruct o as [|v|f]; [apply Hkeep | destruct (compare (val s) v); [apply Hkeep | apply Hstore] |].
        destruct f as [|k|k|]; [apply Hkeep | | |];
          match goal with |- context [if ?c then _ else _] => destruct c end; first [apply Hkeep | apply Hstore].
      + pose proof (getch_open (b s) Hwf) as Hopen. pose proof (getch_closed_same (b s)) as Hsame.
        pose proof (getch_nxt_mono (b s)) as Hmono. pose proof (getch_wf (b s) Hwf) as Hwf2.
        destruct (getch (b s)) as [b' ch'] eqn:EGC. cbn [fst] in *. destruct Hopen as (Hlt & Hop & Hcur).
        rewrite (seta_eq _ _ _ _ G).
        pose proof (inv_upd s b' (val s) [] a (set_pc x (WSampled w (val s) ch')) (lin s) HI Hwf2
                      (or_introl (conj eq_refl eq_refl)) Hmono) as H.
        rewrite app_nil_r in H. apply H.
        * intros c Hc Hcl. rewrite Hsame; auto.
        * intros c Hc. now right.
        * apply aok_set_pc; [eapply aok_mono with (t := []) in Hx; [rewrite app_nil_r in Hx; exact Hx | exact Hmono | |]|].
          -- intros c Hc Hcl. rewrite Hsame; auto.
          -- intros c Hc. now right.
          -- split; [exact Hlt|]. split; [now right|]. destruct Hx as (Hs & _). rewrite Hl in *. now apply in_skipn_last.
    - (* Eval *)
      destruct (nth_error (acts s) a) as [x|] eqn:G; [|exact HI]. pose proof (Ha _ _ G) as Hx.
      destruct (pc x) as [o|o r|w|w u ch|w u ch|w u ek|w u] eqn:Ep; try exact HI.
      pose proof Hx as (_ & _ & Hp). rewrite Ep in Hp. destruct Hp as (H1 & H2 & H3).
      destruct (cond w u) eqn:Ec; rewrite (seta_eq _ _ _ _ G); apply inv_upd_same; auto; apply aok_set_pc; auto.
      + unfold ok_pc. destruct w; cbn [is_watch]; auto.
      + split; [reflexivity|]. now exists u.
    - (* Wake *)
      destruct (nth_error (acts s) a) as [x|] eqn:G; [|exact HI]. pose proof (Ha _ _ G) as Hx.
      destruct (pc x) as [o|o r|w|w u ch|w u ch|w u ek|w u] eqn:Ep; try exact HI.
      destruct (closed (b s) ch); [|exact HI].
      rewrite (seta_eq _ _ _ _ G); apply inv_upd_same; auto; apply aok_set_pc; auto.
    - (* CancelWake *)
      destruct (nth_error (acts s) a) as [x|] eqn:G; [|exact HI]. pose proof (Ha _ _ G) as Hx.
      destruct (pc x) as [o|o r|w|w u ch|w u ch|w u ek|w u] eqn:Ep; try exact HI.
      destruct (ctxc x) eqn:Ec; [|exact HI].
      rewrite (seta_eq _ _ _ _ G); apply inv_upd_same; auto; apply aok_set_pc; auto.
      destruct (flav x) eqn:Ef; cbn [ctx_err is_deadline]; auto.
    - (* ErrWake *)
      destruct (nth_error (acts s) a) as [x|] eqn:G; [|exact HI]. pose proof (Ha _ _ G) as Hx.
      destruct (pc x) as [o|o r|w|w u ch|w u ch|w u ek|w u] eqn:Ep; try exact HI.
      destruct Hx as (Hs & Hq & Hp).
      destruct (errq x) as [|[|] q] eqn:Eq.
      + destruct (eclosed x) eqn:Ec; [|exact HI].
        rewrite (seta_eq _ _ _ _ G); apply inv_upd_same; auto; apply aok_set_pc; auto.
        split; [exact Hs|]. split; [now rewrite Eq|]. rewrite Ep in *. exact Hp.
      + apply inv_upd_same; auto. split; [exact Hs|]. cbn [errq esent pc].
        split; [intros _; apply Hq; now left|]. split; [reflexivity|]. apply Hq; now left.
      + apply inv_upd_same; auto. split; [exact Hs|]. cbn [errq esent pc].
        split; [intros Hin; apply Hq; now right | exact I].
    - (* CancelCtx *)
      destruct (nth_error (acts s) a) as [x|] eqn:G; [|exact HI]. pose proof (Ha _ _ G) as Hx.
      apply inv_upd_same; auto. destruct Hx as (Hs & Hq & Hp). split; [exact Hs|]. split; [exact Hq|].
      cbn [pc ctxc flav eclosed esent start]. destruct (pc x) as [o|o r|w|w u ch|w u ch|w u [| | | | |]|w u]; auto.
      + destruct Hp as [Hp [[_ Hd]|Hc]]; (split; [exact Hp|]); [left; now split | now right].
      + destruct Hp as (Hp & _ & Hd). now repeat split.
    - (* ErrSend *)
      destruct (nth_error (acts s) a) as [x|] eqn:G; [|exact HI]. pose proof (Ha _ _ G) as Hx.
      destruct (hasch x && negb (eclosed x)); [|exact HI].
      apply inv_upd_same; auto. destruct Hx as (Hs & Hq & Hp). split; [exact Hs|]. cbn [pc ctxc flav eclosed esent start errq].
      split.
      + rewrite in_app_iff. intros [H|[H|[]]]; [rewrite Hq by exact H; reflexivity | subst m; now rewrite orb_true_r].
      + destruct (pc x) as [o|o r|w|w u ch|w u ch|w u [| | | | |]|w u]; auto.
        destruct Hp as [Hp1 Hp2]. split; [exact Hp1 | now rewrite Hp2].
    - (* ErrClose *)
      destruct (nth_error (acts s) a) as [x|] eqn:G; [|exact HI]. pose proof (Ha _ _ G) as Hx.
      destruct (hasch x); [|exact HI].
      apply inv_upd_same; auto. destruct Hx as (Hs & Hq & Hp). split; [exact Hs|]. split; [exact Hq|].
      cbn [pc ctxc flav eclosed esent start]. destruct (pc x) as [o|o r|w|w u ch|w u ch|w u [| | | | |]|w u]; auto.
      destruct Hp as [Hp _]. split; [exact Hp | now right].
    - (* CbRet *)
      destruct (nth_error (acts s) a) as [x|] eqn:G; [|exact HI]. pose proof (Ha _ _ G) as Hx.
      destruct (pc x) as [o|o r|w|w u ch|w u ch|w u ek|w u] eqn:Ep; try exact HI.
      pose proof Hx as (Hs & Hq & Hp). rewrite Ep in Hp. destruct Hp as (_ & _ & Hw). destruct cerr.
      + rewrite (seta_eq _ _ _ _ G); apply inv_upd_same; auto; apply aok_set_pc; auto.
      + apply inv_upd_same; auto. split; [cbn [start set_pc_start]; now apply vh_len|]. split; [exact Hq | exact I].
  Qed.

  Theorem run_inv v0 es : Inv (run v0 es).
  Proof. unfold Model.run. apply fold_inv; [apply step_inv | apply init_inv]. Qed.

  (* the ghost history vh is exactly the sequence of contents of the cell *)
  Lemma vh_tracks s e :
    (vh (step s e) = vh s /\ val (step s e) = val s) \/ vh (step s e) = vh s ++ [val (step s e)].
  Proof.
    destruct e as [o|w hc fl|a|a|a|a|a|a|a m|a|a cerr]; cbn [Model.step]; try (left; split; reflexivity).
    all: destruct (nth_error (acts s) a) as [x|] eqn:G; [|left; split; reflexivity].
    - destruct (pc x) as [o|o r|w|w u ch|w u ch|w u ek|w u] eqn:Ep; try (left; split; reflexivity).
      + destruct o as [|v|[|k|k|]]; try (left; split; reflexivity);
          match goal with |- context [if ?c then _ else _] => destruct c end;
          first [left; split; reflexivity | right; reflexivity].
      + destruct (getch (b s)); left; split; reflexivity.
    - destruct (pc x) as [o|o r|w|w u ch|w u ch|w u ek|w u] eqn:Ep; try (left; split; reflexivity).
      destruct (cond w u); left; split; reflexivity.
    - destruct (pc x) as [o|o r|w|w u ch|w u ch|w u ek|w u] eqn:Ep; try (left; split; reflexivity).
      destruct (closed (b s) ch); left; split; reflexivity.
    - destruct (pc x) as [o|o r|w|w u ch|w u ch|w u ek|w u] eqn:Ep; try (left; split; reflexivity).
      destruct (ctxc x); left; split; reflexivity.
    - destruct (pc x) as [o|o r|w|w u ch|w u ch|w u ek|w u] eqn:Ep; try (left; split; reflexivity).
      destruct (errq x) as [|[|] q]; try (left; split; reflexivity). destruct (eclosed x); left; split; reflexivity.
    - left; split; reflexivity.
    - destruct (hasch x && negb (eclosed x)); left; split; reflexivity.
    - destruct (hasch x); left; split; reflexivity.
    - destruct (pc x) as [o|o r|w|w u ch|w u ch|w u ek|w u] eqn:Ep; try (left; split; reflexivity).
      destruct cerr; left; split; reflexivity.
  Qed.

  (* ---------------------------------------------------------------- *)
  (* theorems read off the invariant *)

  Theorem waiter_returns_held_and_satisfying v0 es a x w v :
    let s := run v0 es in
    nth_error (acts s) a = Some x -> pc x = WRet w v ENone -> In v (held s x) /\ cond w v = VOk.
  Proof.
    cbn. intros G Ep. destruct (run_inv v0 es) as (_ & _ & Ha). destruct (Ha _ _ G) as (_ & _ & Hp).
    rewrite Ep in Hp. split; [exact (proj1 Hp) | exact (proj1 (proj2 Hp))].
  Qed.

  Theorem waiter_sample_held v0 es a x w v ch :
    let s := run v0 es in
    nth_error (acts s) a = Some x -> pc x = WSampled w v ch \/ pc x = WBlocked w v ch -> In v (held s x).
  Proof.
    cbn. intros G Ep. destruct (run_inv v0 es) as (_ & _ & Ha). destruct (Ha _ _ G) as (_ & _ & Hp).
    destruct Ep as [Ep|Ep]; rewrite Ep in Hp; tauto.
  Qed.

  (* no lost wake-up: a waiter blocked on a channel that is still open sampled the current value *)
  Theorem no_lost_wakeup v0 es a x w u ch :
    let s := run v0 es in
    nth_error (acts s) a = Some x -> pc x = WBlocked w u ch ->
    cond w u = VNo /\ (closed (b s) ch = true \/ u = val s).
  Proof.
    cbn. intros G Ep. destruct (run_inv v0 es) as (_ & _ & Ha). destruct (Ha _ _ G) as (_ & _ & Hp).
    rewrite Ep in Hp. tauto.
  Qed.

  Lemma quiescent_actor s a x : quiescent s = true -> nth_error (acts s) a = Some x ->
    at_gate x = false /\
    (forall w u ch, pc x = WBlocked w u ch -> closed (b s) ch = false /\ ctxc x = false /\ err_ready x = false).
  Proof.
    unfold quiescent. rewrite forallb_forall. intros H G. specialize (H x (nth_error_In _ _ G)).
    apply andb_true_iff in H as [H1 H2]. split; [now destruct (at_gate x)|].
    intros w u ch Hp. rewrite Hp in H2. apply andb_true_iff in H2 as [H2 H4]. apply andb_true_iff in H2 as [H2 H3].
    repeat split; [now destruct (closed (b s) ch) | now destruct (ctxc x) | now destruct (err_ready x)].
  Qed.

  Theorem waiter_quiescent v0 es a x w u ch :
    let s := run v0 es in
    quiescent s = true -> nth_error (acts s) a = Some x -> pc x = WBlocked w u ch ->
    u = val s /\ cond w (val s) = VNo.
  Proof.
    cbn. intros Hq G Ep. destruct (no_lost_wakeup v0 es a x w u ch G Ep) as [Hc [Hcl|Hu]].
    - destruct (quiescent_actor _ _ _ Hq G) as [_ H]. destruct (H _ _ _ Ep) as (H1 & _). congruence.
    - subst u. now split.
  Qed.

  Theorem error_only_if_source_fired v0 es a x w v e :
    let s := run v0 es in
    nth_error (acts s) a = Some x -> pc x = WRet w v e ->
    match e with
    | ENone => True
    | ECanceled => v = 0%N /\ ((ctxc x = true /\ is_deadline (flav x) = false) \/ eclosed x = true)
    | EErrCh => v = 0%N /\ esent x = true
    | EValid => v = 0%N /\ exists y, In y (held s x) /\ cond w y = VErr
    | ECb => v = 0%N /\ is_watch w = true
    | EDeadline => v = 0%N /\ ctxc x = true /\ is_deadline (flav x) = true
    end.
  Proof.
    cbn. intros G Ep. destruct (run_inv v0 es) as (_ & _ & Ha). destruct (Ha _ _ G) as (_ & _ & Hp).
    rewrite Ep in Hp. destruct e; auto.
  Qed.

  (* ---- WatchChanges ---- *)
  Lemma cond_watch cur v : cond (WWatch cur) v = if compare cur v then VNo else VOk.
  Proof. reflexivity. Qed.

  (* the callback is entered only by a watcher, with a value the cell held during this round's wait
     ([held]: from the moment the round began) and that differs from the watcher's current value *)
  Theorem watch_callback_value v0 es a x w v :
    let s := run v0 es in
    nth_error (acts s) a = Some x -> pc x = WCb w v ->
    exists cur, w = WWatch cur /\ In v (held s x) /\ compare cur v = false.
  Proof.
    cbn. intros G Ep. destruct (run_inv v0 es) as (_ & _ & Ha). destruct (Ha _ _ G) as (_ & _ & Hp).
    rewrite Ep in Hp. destruct Hp as (H1 & H2 & H3). destruct w as [|old| |p k|cur]; try discriminate.
    exists cur. split; [reflexivity|]. split; [exact H1|]. rewrite cond_watch in H2. now destruct (compare cur v).
  Qed.

  (* the rounds: when the callback returns nil the next round starts at the entry gate with current := the
     delivered value and [held] restarting at the present content; when it returns an error, that is returned *)
  Lemma watch_callback_return s a x w v :
    nth_error (acts s) a = Some x -> pc x = WCb w v ->
    step s (CbRet a false) = with_acts s (set_nth (acts s) a (set_pc_start x (WGate (WWatch v)) (length (vh s) - 1))) /\
    step s (CbRet a true) = with_acts s (set_nth (acts s) a (set_pc x (WRet w 0 ECb))).
  Proof. intros G Ep. cbn [Model.step]. rewrite G, Ep, (seta_eq _ _ _ _ G). split; reflexivity. Qed.

  (* ... and the callback is entered exactly where WaitValueChange current would return *)
  Lemma watch_delivery s a x cur v ch :
    nth_error (acts s) a = Some x -> pc x = WSampled (WWatch cur) v ch ->
    step s (Eval a) = with_acts s (set_nth (acts s) a (set_pc x (if compare cur v then WBlocked (WWatch cur) v ch else WCb (WWatch cur) v))).
  Proof.
    intros G Ep. cbn [Model.step]. rewrite G, Ep, cond_watch. destruct (compare cur v); now rewrite (seta_eq _ _ _ _ G).
  Qed.

  (* at quiescence a watcher is not blocked in its wait while the content differs from its current value *)
  Theorem watcher_quiescent v0 es a x cur u ch :
    let s := run v0 es in
    quiescent s = true -> nth_error (acts s) a = Some x -> pc x = WBlocked (WWatch cur) u ch ->
    u = val s /\ compare cur (val s) = true.
  Proof.
    cbn. intros Hq G Ep. destruct (waiter_quiescent v0 es a x _ u ch Hq G Ep) as [Hu Hc]. split; [exact Hu|].
    rewrite cond_watch in Hc. now destruct (compare cur (val (run v0 es))).
  Qed.

  (* WatchChanges returns only an error (context / error channel with a source that fired, or the callback's own),
     never nil and never a validator error; nobody else enters a callback or returns a callback error *)
  Theorem watcher_returns v0 es a x w v e :
    let s := run v0 es in
    nth_error (acts s) a = Some x -> pc x = WRet w v e ->
    if is_watch w then v = 0%N /\ match e with
                                 | ECanceled => (ctxc x = true /\ is_deadline (flav x) = false) \/ eclosed x = true
                                 | EErrCh => esent x = true
                                 | ECb => True
                                 | EDeadline => ctxc x = true /\ is_deadline (flav x) = true
                                 | ENone | EValid => False
                                 end
    else e <> ECb.
  Proof.
    cbn. intros G Ep. destruct (run_inv v0 es) as (_ & _ & Ha). destruct (Ha _ _ G) as (_ & _ & Hp).
    rewrite Ep in Hp. destruct (is_watch w) eqn:Ew.
    - destruct e.
      + destruct Hp as (_ & _ & H). congruence.
      + exact Hp.
      + exact Hp.
      + destruct Hp as (_ & y & _ & H). destruct w as [|old| |p k|cur]; try discriminate.
        rewrite cond_watch in H. now destruct (compare cur y).
      + split; [exact (proj1 Hp) | exact I].
      + exact Hp.
    - intros ->. destruct Hp as (_ & H). congruence.
  Qed.
End P.

(* ------------------------------------------------------------------ *)
(* Linearizability.  Only three components matter: the content, the linearization log and the
   operation part of the actor table. *)

Definition opc (x : actor) : option (op * option N) :=
  match pc x with PGate o => Some (o, None) | PDone o r => Some (o, Some r) | _ => None end.

Lemma map_opc_set_nth l a x x' : nth_error l a = Some x -> opc x' = opc x -> map opc (set_nth l a x') = map opc l.
Proof. intros G H. rewrite map_set_nth, H. apply set_nth_same. now apply map_nth_error. Qed.

Definition dsw (y : option (op * option N)) : bool :=
  match y with Some (OSwap (FAdd 1), Some _) => true | _ => false end.

Lemma opc_done x o r : opc (set_pc x (PDone o r)) = Some (o, Some r).
Proof. reflexivity. Qed.

Lemma dsw_none o : dsw (Some (o, None)) = false.
Proof. destruct o as [|v|[|k|k|]]; try reflexivity. destruct k as [|[p|p|]]; reflexivity. Qed.

Lemma cnt_done_swap1 l : cnt done_swap1 l = cnt dsw (map opc l).
Proof.
  induction l as [|x t IH]; [reflexivity|]. cbn [map]. rewrite !cnt_cons, IH. f_equal.
  unfold done_swap1, dsw, opc. destruct (pc x) as [o|o r|w|w u ch|w u ch|w u ek|w u]; try reflexivity.
  all: destruct o as [|v|[|k|k|]]; try reflexivity; destruct k as [|[p|p|]]; reflexivity.
Qed.

Section Lin.
  Variable eqv : N -> N -> bool.
  Notation step := (step eqv).
  Notation compare := (compare eqv).
  Notation cell_step := (cell_step eqv).
  Notation cell_fold := (cell_fold eqv).
  Notation run := (run eqv).

  (* the steps that touch the view *)
  Definition view_step (s : st) (e : ev) : bool :=
    match e with
    | Sect a => match nth_error (acts s) a with
                | Some x => match pc x with PGate _ => true | _ => false end
                | None => false
                end
    | Call _ | CallWait _ _ _ => true
    | _ => false
    end.

  Ltac view_same G :=
    repeat split; try reflexivity; cbn [acts with_acts]; rewrite ?(seta_eq _ _ _ _ G);
    apply (map_opc_set_nth _ _ _ _ G); unfold opc; cbn [pc set_pc set_pc_start];
    repeat match goal with H : pc _ = _ |- _ => rewrite H end; reflexivity.

  Lemma step_view_other s e : view_step s e = false ->
    val (step s e) = val s /\ lin (step s e) = lin s /\ map opc (acts (step s e)) = map opc (acts s).
  Proof.
    destruct e as [o|w hc fl|a|a|a|a|a|a|a m|a|a cerr]; cbn [view_step Model.step]; try discriminate; intros Hw.
    all: destruct (nth_error (acts s) a) as [x|] eqn:G; [|auto].
    - destruct (pc x) as [o|o r|w|w u ch|w u ch|w u ek|w u] eqn:Ep; try discriminate; auto.
      destruct (getch (b s)) as [b' ch']. cbn [val lin acts]. view_same G.
    - destruct (pc x) as [o|o r|w|w u ch|w u ch|w u ek|w u] eqn:Ep; auto. destruct (cond eqv w u); try (unfold ok_pc; destruct w); view_same G.
    - destruct (pc x) as [o|o r|w|w u ch|w u ch|w u ek|w u] eqn:Ep; auto. destruct (closed (b s) ch); [view_same G | auto].
    - destruct (pc x) as [o|o r|w|w u ch|w u ch|w u ek|w u] eqn:Ep; auto. destruct (ctxc x); [view_same G | auto].
    - destruct (pc x) as [o|o r|w|w u ch|w u ch|w u ek|w u] eqn:Ep; auto.
      destruct (errq x) as [|[|] q]; [destruct (eclosed x); [view_same G | auto] | view_same G | view_same G].
    - view_same G.
    - destruct (hasch x && negb (eclosed x)); [view_same G | auto].
    - destruct (hasch x); [view_same G | auto].
    - destruct (pc x) as [o|o r|w|w u ch|w u ch|w u ek|w u] eqn:Ep; auto. destruct cerr; view_same G.
  Qed.

  (* the critical section of Get/Set/Swap is one step of the sequential cell *)
  Lemma sect_writer s a x o : nth_error (acts s) a = Some x -> pc x = PGate o ->
    val (step s (Sect a)) = fst (cell_step (val s) o) /\ lin (step s (Sect a)) = lin s ++ [(a, o)] /\
    acts (step s (Sect a)) = set_nth (acts s) a (set_pc x (PDone o (snd (cell_step (val s) o)))).
  Proof.
    intros G Ep. cbn [Model.step]. rewrite G, Ep.
    destruct o as [|v|[|k|k|]]; cbn [Model.cell_step apply_f fst snd];
      try match goal with |- context [if ?c then _ else _] => destruct c end;
      cbn [fin_keep fin_store val lin acts fst snd]; rewrite (seta_eq _ _ _ _ G); auto.
  Qed.

  Definition LInv (v0 vl : N) (ln : list (nat * op)) (ol : list (option (op * option N))) : Prop :=
    vl = cell_fold (map snd ln) v0 /\
    (forall a o r, nth_error ol a = Some (Some (o, Some r)) ->
       exists l1 l2 : list (nat * op), ln = l1 ++ (a, o) :: l2 /\ r = snd (cell_step (cell_fold (map snd l1) v0) o)) /\
    (forall a o, In (a, o) ln -> exists r, nth_error ol a = Some (Some (o, Some r))) /\
    NoDup (map fst ln).

  Definition linv v0 (s : st) : Prop := LInv v0 (val s) (lin s) (map opc (acts s)).

  Lemma linv_app v0 vl ln ol o : LInv v0 vl ln ol -> LInv v0 vl ln (ol ++ [match o with Some o' => Some (o', None) | None => None end]).
  Proof.
    intros (H1 & H2 & H3 & H4). split; [exact H1|]. split; [|split; [|exact H4]].
    - intros a o' r Hk. apply nth_error_app_inv in Hk as [Hk|Hk]; [eauto | destruct o; discriminate].
    - intros a o' Hin. destruct (H3 _ _ Hin) as [r Hr]. exists r.
      rewrite nth_error_app1; [exact Hr | eapply nth_error_nth_len; eauto].
  Qed.

  Lemma cell_fold_snoc v0 (ln : list (nat * op)) (a : nat) o : cell_fold (map snd (ln ++ [(a, o)])) v0 = fst (cell_step (cell_fold (map snd ln) v0) o).
  Proof. unfold Model.cell_fold. rewrite map_app, fold_left_app. reflexivity. Qed.

  Lemma linv_sect v0 vl ln ol a o :
    LInv v0 vl ln ol -> nth_error ol a = Some (Some (o, None)) ->
    LInv v0 (fst (cell_step vl o)) (ln ++ [(a, o)]) (set_nth ol a (Some (o, Some (snd (cell_step vl o))))).
  Proof.
    intros (H1 & H2 & H3 & H4) G. pose proof (nth_error_nth_len _ _ _ G) as Hl.
    assert (Hnot : forall o', ~ In (a, o') ln).
    { intros o' Hin. destruct (H3 _ _ Hin) as [r Hr]. congruence. }
    split; [|split; [|split]].
    - rewrite cell_fold_snoc. now rewrite <- H1.
    - intros k o' r Hk. destruct (Nat.eq_dec k a) as [->|Hne].
      + rewrite nth_error_set_nth_same in Hk by exact Hl. inversion Hk; subst o' r.
        exists ln, []. split; [reflexivity | now rewrite <- H1].
      + rewrite nth_error_set_nth_other in Hk by exact Hne. destruct (H2 _ _ _ Hk) as (l1 & l2 & E1 & E2).
        exists l1, (l2 ++ [(a, o)]). split; [rewrite E1, <- app_assoc; reflexivity | exact E2].
    - intros k o' Hin. apply in_app_iff in Hin as [Hin|[Hin|[]]].
      + destruct (H3 _ _ Hin) as [r Hr]. exists r. rewrite nth_error_set_nth_other; [exact Hr|].
        intros ->. congruence.
      + inversion Hin; subst k o'. eexists. now apply nth_error_set_nth_same.
    - rewrite map_app. apply NoDup_snoc; [exact H4|]. cbn. intros Hin. apply in_map_iff in Hin as ([k o'] & E & Hin).
      cbn in E. subst k. exact (Hnot _ Hin).
  Qed.

  Lemma opc_gate s a x o : nth_error (acts s) a = Some x -> pc x = PGate o -> nth_error (map opc (acts s)) a = Some (Some (o, None)).
  Proof. intros G Ep. rewrite (map_nth_error opc _ _ G). unfold opc. now rewrite Ep. Qed.

  Lemma step_linv v0 s e : linv v0 s -> linv v0 (step s e).
  Proof.
    intros HI. unfold linv in *. destruct (view_step s e) eqn:Ev.
    - destruct e as [o|w hc fl|a|a|a|a|a|a|a m|a|a cerr]; cbn [view_step] in Ev; try discriminate.
      + cbn [Model.step with_acts val lin acts]. rewrite map_app. exact (linv_app _ _ _ _ (Some o) HI).
      + cbn [Model.step with_acts val lin acts]. rewrite map_app. exact (linv_app _ _ _ _ None HI).
      + destruct (nth_error (acts s) a) as [x|] eqn:G; [|discriminate].
        destruct (pc x) as [o|o r|w|w u ch|w u ch|w u ek|w u] eqn:Ep; try discriminate.
        destruct (sect_writer s a x o G Ep) as (E1 & E2 & E3). rewrite E1, E2, E3, map_set_nth, opc_done. apply linv_sect; [exact HI | now apply (opc_gate s a x)].
    - destruct (step_view_other s e Ev) as (E1 & E2 & E3). now rewrite E1, E2, E3.
  Qed.

  Lemma init_linv v0 : linv v0 (init v0).
  Proof.
    split; [reflexivity|]. split; [intros [|a] o r H; discriminate|]. split; [intros a o []|constructor].
  Qed.

  Theorem cell_linearizable v0 es :
    let s := run v0 es in
    val s = cell_fold (map snd (lin s)) v0 /\
    NoDup (map fst (lin s)) /\
    (forall a o, In (a, o) (lin s) -> exists x r, nth_error (acts s) a = Some x /\ pc x = PDone o r) /\
    (forall a x o r, nth_error (acts s) a = Some x -> pc x = PDone o r ->
       exists l1 l2 : list (nat * op), lin s = l1 ++ (a, o) :: l2 /\ r = snd (cell_step (cell_fold (map snd l1) v0) o)).
  Proof.
    cbn. assert (H : linv v0 (run v0 es)) by (unfold Model.run; apply fold_inv; [apply step_linv | apply init_linv]).
    destruct H as (H1 & H2 & H3 & H4). split; [exact H1|]. split; [exact H4|]. split.
    - intros a o Hin. destruct (H3 _ _ Hin) as [r Hr]. rewrite nth_error_map in Hr.
      destruct (nth_error (acts (run v0 es)) a) as [x|] eqn:G; [|discriminate]. cbn in Hr. exists x, r. split; [reflexivity|].
      unfold opc in Hr. destruct (pc x); try discriminate; congruence.
    - intros a x o r G Ep. apply (H2 a o r). rewrite (map_nth_error opc _ _ G). unfold opc. now rewrite Ep.
  Qed.

  (* ---- no lost update ---- *)
  Definition JInv (v0 vl : N) (ol : list (option (op * option N))) : Prop :=
    (forall a o r, nth_error ol a = Some (Some (o, r)) -> o = OGet \/ o = OSwap (FAdd 1)) /\
    vl = (v0 + N.of_nat (cnt dsw ol))%N.

  Lemma step_jinv v0 s e :
    (forall v, eqv v (v + 1)%N = false) -> only_incr e ->
    JInv v0 (val s) (map opc (acts s)) -> JInv v0 (val (step s e)) (map opc (acts (step s e))).
  Proof.
    intros Heq He (J1 & J2). destruct (view_step s e) eqn:Ev.
    - destruct e as [o|w hc fl|a|a|a|a|a|a|a m|a|a cerr]; cbn [view_step] in Ev; try discriminate.
      + cbn [Model.step with_acts val acts]. rewrite map_app. cbn [map]. unfold opc at 2. cbn [pc new_actor]. split.
        * intros a o' r Hk. apply nth_error_app_inv in Hk as [Hk|Hk]; [eauto|]. inversion Hk; subst o' r.
          cbn [only_incr] in He. destruct o as [|v|[|k|k|]]; try contradiction; auto.
          destruct k as [|[p|p|]]; try contradiction; auto.
        * rewrite cnt_app, cnt_cons, cnt_nil, dsw_none. cbn [b2n]. rewrite J2. lia.
      + cbn [Model.step with_acts val acts]. rewrite map_app. cbn [map]. unfold opc at 2. cbn [pc new_actor]. split.
        * intros a o' r Hk. apply nth_error_app_inv in Hk as [Hk|Hk]; [eauto | discriminate].
        * rewrite cnt_app, cnt_cons, cnt_nil. cbn [dsw b2n]. rewrite J2. lia.
      + destruct (nth_error (acts s) a) as [x|] eqn:G; [|discriminate].
        destruct (pc x) as [o|o r|w|w u ch|w u ch|w u ek|w u] eqn:Ep; try discriminate.
        destruct (sect_writer s a x o G Ep) as (E1 & _ & E3). rewrite E1, E3, map_set_nth, opc_done. pose proof (opc_gate s a x o G Ep) as Hg.
        pose proof (nth_error_nth_len _ _ _ Hg) as Hl.
        pose proof (cnt_set_nth dsw (map opc (acts s)) a (Some (o, Some (snd (cell_step (val s) o)))) None Hl) as HC.
        rewrite (nth_error_nth _ _ None Hg), dsw_none in HC. cbn [b2n] in HC.
        split.
        * intros k o' r Hk. destruct (Nat.eq_dec k a) as [->|Hne].
          -- rewrite nth_error_set_nth_same in Hk by exact Hl. inversion Hk; subst o' r. eauto.
          -- rewrite nth_error_set_nth_other in Hk by exact Hne. eauto.
        * destruct (J1 _ _ _ Hg) as [->| ->]; cbn [Model.cell_step apply_f fst snd dsw b2n] in *.
          -- match goal with |- _ = (_ + N.of_nat ?c)%N => replace c with (cnt dsw (map opc (acts s))) by lia end. exact J2.
          -- assert (Hc : compare (val s) (val s + 1) = false).
             { unfold Model.compare. rewrite Heq. destruct (N.eqb_spec (val s) (val s + 1)); [lia | reflexivity]. }
             rewrite Hc.
             match goal with |- _ = (_ + N.of_nat ?c)%N => replace c with (S (cnt dsw (map opc (acts s)))) by lia end. lia.
    - destruct (step_view_other s e Ev) as (E1 & _ & E3). rewrite E1, E3. now split.
  Qed.

  Theorem swap_no_lost_update v0 es :
    (forall v, eqv v (v + 1)%N = false) -> Forall only_incr es ->
    val (run v0 es) = (v0 + N.of_nat (cnt done_swap1 (acts (run v0 es))))%N.
  Proof.
    intros Heq Hes. rewrite cnt_done_swap1.
    assert (H : JInv v0 (val (run v0 es)) (map opc (acts (run v0 es)))).
    { unfold Model.run.
      apply (fold_inv_ev (fun s => JInv v0 (val s) (map opc (acts s))) only_incr); [|exact Hes|].
      - intros s e He HJ. now apply step_jinv.
      - split; [intros [|a] o r H; discriminate | cbn; lia]. }
    exact (proj2 H).
  Qed.
End Lin.

(* ------------------------------------------------------------------ *)
(* The monitors accept the model's own observations (model_satisfies_monitors). *)

Lemma st_of_code k r : (k < 16)%N -> st_of (k + 16 * r) = k.
Proof. intros H. unfold st_of. rewrite N.mul_comm, N.mod_add by lia. now apply N.mod_small. Qed.
Lemma val_of_code k r : (k < 16)%N -> val_of (k + 16 * r) = r.
Proof. intros H. unfold val_of. rewrite N.mul_comm, N.div_add by lia. rewrite N.div_small by exact H. reflexivity. Qed.

Lemma combine_map_map {A B C} (f : A -> B) (g : A -> C) l : combine (map f l) (map g l) = map (fun x => (f x, g x)) l.
Proof. induction l as [|x t IH]; cbn; [reflexivity | now rewrite IH]. Qed.

Lemma flat_map_nil {A B} (f : A -> list B) l : (forall x, In x l -> f x = []) -> flat_map f l = [].
Proof. induction l as [|x t IH]; intros H; cbn; [reflexivity|]. rewrite (H x (or_introl eq_refl)), IH; [reflexivity|]. intros y Hy. apply H. now right. Qed.

Lemma set_nth_app_mid {A} (l1 l2 : list A) x y : set_nth (l1 ++ x :: l2) (length l1) y = l1 ++ y :: l2.
Proof. induction l1 as [|h t IH]; cbn; [reflexivity | now rewrite IH]. Qed.

Lemma nth_error_app_mid {A} (l1 l2 : list A) x : nth_error (l1 ++ x :: l2) (length l1) = Some x.
Proof. induction l1 as [|h t IH]; cbn; auto. Qed.

Lemma nth_set_nth_inv {A} (l : list A) a y k x' :
  nth_error (set_nth l a y) k = Some x' -> (k = a /\ x' = y /\ a < length l) \/ nth_error l k = Some x'.
Proof.
  intros H. destruct (Nat.lt_ge_cases a (length l)) as [Hl|Hl].
  - destruct (Nat.eq_dec k a) as [->|Hne].
    + rewrite nth_error_set_nth_same in H by exact Hl. inversion H. now left.
    + rewrite nth_error_set_nth_other in H by exact Hne. now right.
  - rewrite set_nth_oob in H by exact Hl. now right.
Qed.

Lemma upd_map_set_nth {A B} (f : A -> B) (g : B -> B) l a x x' :
  nth_error l a = Some x -> f x' = g (f x) -> map f (set_nth l a x') = upd (map f l) a g.
Proof. intros G H. unfold upd. rewrite (map_nth_error f _ _ G), map_set_nth, H. reflexivity. Qed.

Lemma map_set_nth_eq {A B} (f : A -> B) l a x x' : nth_error l a = Some x -> f x' = f x -> map f (set_nth l a x') = map f l.
Proof. intros G H. rewrite map_set_nth, H. apply set_nth_same. now apply map_nth_error. Qed.

Lemma upd_none {A} (l : list A) a g : nth_error l a = None -> upd l a g = l.
Proof. intros H. unfold upd. now rewrite H. Qed.

Definition kind_of (p : apc) : mkind :=
  match p with
  | PGate o | PDone o _ => MKOp o
  | WGate w | WSampled w _ _ | WBlocked w _ _ | WRet w _ _ | WCb w _ => MKWait w
  end.

Definition absA (h : list N) (x : actor) : mactor :=
  {| mkd := kind_of (pc x); mheld := skipn (start x) h; mcanc := ctxc x; mfl := flav x; mclosed := eclosed x; msent := esent x |}.
Definition absv (s : st) : list mactor := map (absA (vh s)) (acts s).

Definition wake (bb : bc) (x : actor) : actor :=
  match pc x with
  | WBlocked w u ch => if closed bb ch then set_pc x (WGate w) else x
  | _ => x
  end.

Definition Eager (s : st) : Prop :=
  forall a x w u ch, nth_error (acts s) a = Some x -> pc x = WBlocked w u ch -> closed (b s) ch = false.

Section MS.
  Variable eqv : N -> N -> bool.
  Notation step := (step eqv).
  Notation cond := (cond eqv).
  Notation Inv := (Inv eqv).

  Lemma step_wake_spec s k x : nth_error (acts s) k = Some x ->
    b (step s (Wake k)) = b s /\ val (step s (Wake k)) = val s /\ vh (step s (Wake k)) = vh s /\
    lin (step s (Wake k)) = lin s /\ acts (step s (Wake k)) = set_nth (acts s) k (wake (b s) x).
  Proof.
    intros G. cbn [Model.step]. rewrite G. unfold wake.
    destruct (pc x) as [o|o r|w|w u ch|w u ch|w u ek|w u] eqn:Ep; try (repeat split; symmetry; now apply set_nth_same).
    destruct (closed (b s) ch); [|repeat split; symmetry; now apply set_nth_same].
    cbn [with_acts b val vh lin acts]. now rewrite (seta_eq _ _ _ _ G).
  Qed.

  Lemma settle_gen l2 : forall l1 s, acts s = l1 ++ l2 ->
    let s' := fold_left (fun s a => step s (Wake a)) (seq (length l1) (length l2)) s in
    b s' = b s /\ val s' = val s /\ vh s' = vh s /\ lin s' = lin s /\ acts s' = l1 ++ map (wake (b s)) l2.
  Proof.
    induction l2 as [|x l2 IH]; intros l1 s Hs; cbn [length seq fold_left map].
    - repeat split; auto.
    - assert (G : nth_error (acts s) (length l1) = Some x) by (rewrite Hs; apply nth_error_app_mid).
      destruct (step_wake_spec s _ _ G) as (E1 & E2 & E3 & E4 & E5).
      rewrite Hs, set_nth_app_mid in E5.
      specialize (IH (l1 ++ [wake (b s) x]) (step s (Wake (length l1)))).
      rewrite app_length in IH. cbn [length] in IH. rewrite Nat.add_1_r in IH.
      rewrite E5, <- app_assoc in IH. specialize (IH eq_refl). cbn zeta in IH.
      destruct IH as (F1 & F2 & F3 & F4 & F5). rewrite F1, F2, F3, F4, F5, E1, E2, E3, E4, <- app_assoc. repeat split; reflexivity.
  Qed.

  Lemma settle_spec s :
    b (settle eqv s) = b s /\ val (settle eqv s) = val s /\ vh (settle eqv s) = vh s /\ lin (settle eqv s) = lin s /\
    acts (settle eqv s) = map (wake (b s)) (acts s).
  Proof. exact (settle_gen (acts s) [] s eq_refl). Qed.

  Lemma settle_inv s : Inv s -> Inv (settle eqv s).
  Proof. unfold settle. apply fold_inv. intros s0 e. apply step_inv. Qed.

  Lemma settle_eager s : Eager (settle eqv s).
  Proof.
    destruct (settle_spec s) as (E1 & _ & _ & _ & E5). intros a x' w u ch G Ep. rewrite E1. rewrite E5 in G.
    rewrite nth_error_map in G. destruct (nth_error (acts s) a) as [x|]; [|discriminate]. cbn in G. inversion G as [Hx]. clear G.
    unfold wake in *. destruct (pc x) as [o|o r|w0|w0 u0 ch0|w0 u0 ch0|w0 u0 ek|w0 u0] eqn:Ep0; subst x'; try congruence.
    destruct (closed (b s) ch0) eqn:Ec; [cbn [pc set_pc] in Ep; discriminate|]. congruence.
  Qed.

  (* ---- the per-actor clauses hold in every state satisfying the invariants ---- *)
  Lemma chk_actor_ok bb v h q x :
    aok eqv bb v h x ->
    (forall w u ch, pc x = WBlocked w u ch -> closed bb ch = false) ->
    chk_actor eqv v q (absA h x, code x) = [].
  Proof.
    intros (Hs & Hq & Hp) He. unfold chk_actor, absA, code. cbn [mkd mheld mcanc mfl mclosed msent].
    destruct (pc x) as [o|o r|w|w u ch|w u ch|w u ek|w u] eqn:Ep; cbn [kind_of]; try reflexivity.
    - replace (st_of 1) with 1%N by reflexivity. cbn [N.eqb Pos.eqb andb app]. now rewrite andb_false_r.
    - replace (st_of 7) with 7%N by reflexivity. cbn [N.eqb Pos.eqb andb app]. now rewrite andb_false_r.
    - replace (st_of 2) with 2%N by reflexivity. cbn [N.eqb Pos.eqb andb app].
      destruct Hp as (H1 & H2 & H3 & H4). destruct H2 as [H2|H2]; [rewrite (He _ _ _ eq_refl) in H2; discriminate|].
      subst u. rewrite H4. cbn [is_ok]. now rewrite andb_false_r.
    - destruct ek.
      + rewrite st_of_code, val_of_code by reflexivity. cbn [N.eqb Pos.eqb andb app]. rewrite andb_false_r. cbn [app].
        destruct Hp as (H1 & H2 & _).
        assert (Hm : memN u (skipn (start x) h) = true).
        { unfold memN. apply existsb_exists. exists u. split; [exact H1 | apply N.eqb_refl]. }
        assert (Hx : existsb (fun y => is_ok (cond w y)) (skipn (start x) h) = true).
        { apply existsb_exists. exists u. split; [exact H1 | now rewrite H2]. }
        destruct w; try (rewrite Hm, H2; reflexivity). now rewrite Hx.
      + rewrite st_of_code by reflexivity. cbn [N.eqb Pos.eqb andb app]. rewrite andb_false_r. cbn [app].
        destruct Hp as (_ & [[H1 H2]|H]); [rewrite H1, H2 | rewrite H, orb_true_r]; reflexivity.
      + rewrite st_of_code by reflexivity. cbn [N.eqb Pos.eqb andb app]. rewrite andb_false_r. cbn [app].
        destruct Hp as (_ & H). now rewrite H.
      + rewrite st_of_code by reflexivity. cbn [N.eqb Pos.eqb andb app]. rewrite andb_false_r. cbn [app].
        destruct Hp as (_ & y & H1 & H2).
        assert (Hx : existsb (fun y => is_err (cond w y)) (skipn (start x) h) = true).
        { apply existsb_exists. exists y. split; [exact H1 | now rewrite H2]. }
        now rewrite Hx.
      + rewrite st_of_code by reflexivity. cbn [N.eqb Pos.eqb andb app]. now rewrite andb_false_r.
      + rewrite st_of_code by reflexivity. cbn [N.eqb Pos.eqb andb app]. rewrite andb_false_r. cbn [app].
        destruct Hp as (_ & H1 & H2). now rewrite H1, H2.
    - rewrite st_of_code, val_of_code by reflexivity. cbn [N.eqb Pos.eqb andb app]. rewrite andb_false_r. cbn [app].
      destruct Hp as (H1 & H2 & _).
      assert (Hm : memN u (skipn (start x) h) = true).
      { unfold memN. apply existsb_exists. exists u. split; [exact H1 | apply N.eqb_refl]. }
      rewrite Hm, H2. reflexivity.
  Qed.

  Lemma chk_all s q : Inv s -> Eager s ->
    flat_map (chk_actor eqv (val s) q) (combine (absv s) (obs s)) = [].
  Proof.
    intros (_ & _ & Ha) He. unfold absv, obs. rewrite combine_map_map, flat_map_concat_map, map_map, <- flat_map_concat_map.
    apply flat_map_nil. intros x Hx. apply In_nth_error in Hx as [a G].
    apply (chk_actor_ok (b s)); [eauto|]. intros w u ch Ep. eauto.
  Qed.

  (* ---- frames of the model steps ---- *)
  Lemma absA_set_pc h x p : kind_of p = kind_of (pc x) -> absA h (set_pc x p) = absA h x.
  Proof. intros H. unfold absA. cbn [pc set_pc start ctxc flav eclosed esent]. now rewrite H. Qed.

  Lemma step_frame s e : (forall a, e <> Sect a) ->
    b (step s e) = b s /\ val (step s e) = val s /\ vh (step s e) = vh s.
  Proof.
    intros Hne. destruct e as [o|w hc fl|a|a|a|a|a|a|a m|a|a cerr]; cbn [Model.step]; try (repeat split; reflexivity);
      [exfalso; now apply (Hne a)| | | | | | | |].
    all: destruct (nth_error (acts s) a) as [x|] eqn:G; [|repeat split; reflexivity].
    - destruct (pc x) as [o|o r|w|w u ch|w u ch|w u ek|w u]; try (repeat split; reflexivity). destruct (cond w u); repeat split; reflexivity.
    - destruct (pc x) as [o|o r|w|w u ch|w u ch|w u ek|w u]; try (repeat split; reflexivity). destruct (closed (b s) ch); repeat split; reflexivity.
    - destruct (pc x) as [o|o r|w|w u ch|w u ch|w u ek|w u]; try (repeat split; reflexivity). destruct (ctxc x); repeat split; reflexivity.
    - destruct (pc x) as [o|o r|w|w u ch|w u ch|w u ek|w u]; try (repeat split; reflexivity).
      destruct (errq x) as [|[|] q]; try (repeat split; reflexivity). destruct (eclosed x); repeat split; reflexivity.
    - repeat split; reflexivity.
    - destruct (hasch x && negb (eclosed x)); repeat split; reflexivity.
    - destruct (hasch x); repeat split; reflexivity.
    - destruct (pc x) as [o|o r|w|w u ch|w u ch|w u ek|w u]; try (repeat split; reflexivity). destruct cerr; repeat split; reflexivity.
  Qed.

  Lemma kind_of_ok_pc w v : kind_of (ok_pc w v) = MKWait w.
  Proof. destruct w; reflexivity. Qed.

  Ltac absv_same G :=
    unfold absv; cbn [acts vh with_acts]; rewrite ?(seta_eq _ _ _ _ G);
    apply (map_set_nth_eq _ _ _ _ _ G); unfold absA; cbn [pc set_pc start ctxc flav eclosed esent kind_of];
    repeat match goal with H : pc _ = _ |- _ => rewrite H end; reflexivity.

  Lemma step_absv_pc s e :
    match e with Eval _ | Wake _ | CancelWake _ | ErrWake _ => True | _ => False end ->
    absv (step s e) = absv s.
  Proof.
    destruct e as [o|w hc fl|a|a|a|a|a|a|a m|a|a cerr]; try contradiction; intros _; cbn [Model.step].
    all: destruct (nth_error (acts s) a) as [x|] eqn:G; [|reflexivity].
    all: destruct (pc x) as [o|o r|w|w u ch|w u ch|w u ek|w u] eqn:Ep; try reflexivity.
    - destruct (cond w u); try (unfold ok_pc; destruct w); absv_same G.
    - destruct (closed (b s) ch); [absv_same G | reflexivity].
    - destruct (ctxc x); [absv_same G | reflexivity].
    - destruct (errq x) as [|[|] q]; [destruct (eclosed x); [absv_same G | reflexivity] | absv_same G | absv_same G].
  Qed.

  Lemma step_absv_cancel s a : absv (step s (CancelCtx a)) = upd (absv s) a set_canc.
  Proof.
    cbn [Model.step]. destruct (nth_error (acts s) a) as [x|] eqn:G.
    - unfold absv. cbn [acts vh with_acts]. now apply upd_map_set_nth with (x := x).
    - rewrite upd_none; [reflexivity|]. unfold absv. now rewrite nth_error_map, G.
  Qed.

  Lemma step_absv_send s a m x : nth_error (acts s) a = Some x -> hasch x = true -> eclosed x = false ->
    absv (step s (ErrSend a m)) = if m then upd (absv s) a set_sent else absv s.
  Proof.
    intros G H1 H2. cbn [Model.step]. rewrite G, H1, H2. cbn [andb negb]. unfold absv. cbn [acts vh with_acts]. destruct m.
    - apply upd_map_set_nth with (x := x); [exact G|]. unfold absA, set_sent. cbn [pc start ctxc flav eclosed esent mkd mheld mcanc mfl mclosed msent].
      now rewrite orb_true_r, ?H2.
    - apply (map_set_nth_eq _ _ _ _ _ G). unfold absA. cbn [pc start ctxc flav eclosed esent]. now rewrite orb_false_r, ?H2.
  Qed.

  Lemma step_absv_close s a x : nth_error (acts s) a = Some x -> hasch x = true ->
    absv (step s (ErrClose a)) = upd (absv s) a set_closed.
  Proof.
    intros G H1. cbn [Model.step]. rewrite G, H1. unfold absv. cbn [acts vh with_acts].
    now apply upd_map_set_nth with (x := x).
  Qed.

  (* which actor can be blocked after a step *)
  Lemma step_blocked_from s e k x' w u ch :
    nth_error (acts (step s e)) k = Some x' -> pc x' = WBlocked w u ch ->
    exists x, nth_error (acts s) k = Some x /\ (pc x = WBlocked w u ch \/ (e = Eval k /\ pc x = WSampled w u ch)).
  Proof.
    intros Hk Ep'.
    assert (Hsame : forall a y x, nth_error (acts s) a = Some x -> nth_error (set_nth (acts s) a y) k = Some x' ->
              (pc y = pc x \/ forall w u ch, pc y <> WBlocked w u ch) ->
              exists x0, nth_error (acts s) k = Some x0 /\ (pc x0 = WBlocked w u ch \/ (e = Eval k /\ pc x0 = WSampled w u ch))).
    { intros a y x G H Hy. apply nth_set_nth_inv in H as [(-> & -> & _)|H]; [|exists x'; auto].
      destruct Hy as [Hy|Hy]; [exists x; split; [exact G | left; congruence] | exfalso; now apply (Hy w u ch)]. }
    destruct e as [o|w0 hc fl|a|a|a|a|a|a|a m|a|a cerr]; cbn [Model.step] in Hk.
    - cbn [acts with_acts] in Hk. apply nth_error_app_inv in Hk as [Hk| ->]; [exists x'; auto | discriminate].
    - cbn [acts with_acts] in Hk. apply nth_error_app_inv in Hk as [Hk| ->]; [exists x'; auto | discriminate].
    - destruct (nth_error (acts s) a) as [x|] eqn:G; [|exists x'; auto].
      destruct (pc x) as [o|o r|w1|w1 u1 ch1|w1 u1 ch1|w1 u1 ek|w1 u1] eqn:Ep; try (exists x'; auto; fail).
      + assert (H : exists r l, nth_error (seta s a (PDone o r)) k = Some x' /\ l = tt).
        { destruct o as [|v|[|k0|k0|]]; try (eexists; exists tt; split; [exact Hk | reflexivity]);
            match type of Hk with context [if ?c then _ else _] => destruct c end; eexists; exists tt; split; try exact Hk; reflexivity. }
        destruct H as (r & _ & H & _). rewrite (seta_eq _ _ _ _ G) in H. apply (Hsame _ _ _ G H). right. cbn [pc set_pc]. discriminate.
      + destruct (getch (b s)) as [b' ch']. cbn [acts] in Hk. rewrite (seta_eq _ _ _ _ G) in Hk.
        apply (Hsame _ _ _ G Hk). right. cbn [pc set_pc]. discriminate.
    - destruct (nth_error (acts s) a) as [x|] eqn:G; [|exists x'; auto].
      destruct (pc x) as [o|o r|w1|w1 u1 ch1|w1 u1 ch1|w1 u1 ek|w1 u1] eqn:Ep; try (exists x'; auto; fail).
      destruct (cond w1 u1); cbn [acts with_acts] in Hk; rewrite (seta_eq _ _ _ _ G) in Hk.
      + apply nth_set_nth_inv in Hk as [(-> & -> & _)|Hk]; [|exists x'; auto].
        cbn [pc set_pc] in Ep'. inversion Ep'; subst. exists x. split; [exact G | right; auto].
      + apply (Hsame _ _ _ G Hk). right. cbn [pc set_pc]. unfold ok_pc. destruct w1; discriminate.
      + apply (Hsame _ _ _ G Hk). right. cbn [pc set_pc]. discriminate.
    - destruct (nth_error (acts s) a) as [x|] eqn:G; [|exists x'; auto].
      destruct (pc x) as [o|o r|w1|w1 u1 ch1|w1 u1 ch1|w1 u1 ek|w1 u1] eqn:Ep; try (exists x'; auto; fail).
      destruct (closed (b s) ch1); [|exists x'; auto]. cbn [acts with_acts] in Hk; rewrite (seta_eq _ _ _ _ G) in Hk.
      apply (Hsame _ _ _ G Hk). right. cbn [pc set_pc]. discriminate.
    - destruct (nth_error (acts s) a) as [x|] eqn:G; [|exists x'; auto].
      destruct (pc x) as [o|o r|w1|w1 u1 ch1|w1 u1 ch1|w1 u1 ek|w1 u1] eqn:Ep; try (exists x'; auto; fail).
      destruct (ctxc x); [|exists x'; auto]. cbn [acts with_acts] in Hk; rewrite (seta_eq _ _ _ _ G) in Hk.
      apply (Hsame _ _ _ G Hk). right. cbn [pc set_pc]. discriminate.
    - destruct (nth_error (acts s) a) as [x|] eqn:G; [|exists x'; auto].
      destruct (pc x) as [o|o r|w1|w1 u1 ch1|w1 u1 ch1|w1 u1 ek|w1 u1] eqn:Ep; try (exists x'; auto; fail).
      destruct (errq x) as [|[|] q].
      + destruct (eclosed x); [|exists x'; auto]. cbn [acts with_acts] in Hk; rewrite (seta_eq _ _ _ _ G) in Hk.
        apply (Hsame _ _ _ G Hk). right. cbn [pc set_pc]. discriminate.
      + cbn [acts with_acts] in Hk. apply (Hsame _ _ _ G Hk). right. cbn [pc]. discriminate.
      + cbn [acts with_acts] in Hk. apply (Hsame _ _ _ G Hk). right. cbn [pc]. discriminate.
    - destruct (nth_error (acts s) a) as [x|] eqn:G; [|exists x'; auto].
      cbn [acts with_acts] in Hk. apply (Hsame _ _ _ G Hk). left. reflexivity.
    - destruct (nth_error (acts s) a) as [x|] eqn:G; [|exists x'; auto].
      destruct (hasch x && negb (eclosed x)); [|exists x'; auto].
      cbn [acts with_acts] in Hk. apply (Hsame _ _ _ G Hk). left. reflexivity.
    - destruct (nth_error (acts s) a) as [x|] eqn:G; [|exists x'; auto].
      destruct (hasch x); [|exists x'; auto].
      cbn [acts with_acts] in Hk. apply (Hsame _ _ _ G Hk). left. reflexivity.
    - destruct (nth_error (acts s) a) as [x|] eqn:G; [|exists x'; auto].
      destruct (pc x) as [o|o r|w1|w1 u1 ch1|w1 u1 ch1|w1 u1 ek|w1 u1] eqn:Ep; try (exists x'; auto; fail).
      destruct cerr; cbn [acts with_acts] in Hk; rewrite ?(seta_eq _ _ _ _ G) in Hk;
        apply (Hsame _ _ _ G Hk); right; cbn [pc set_pc set_pc_start]; discriminate.
  Qed.

  (* Eager is kept by every step that neither is a section nor evaluates a sample *)
  Lemma step_eager s e : (forall a, e <> Sect a) -> (forall a, e <> Eval a) -> Eager s -> Eager (step s e).
  Proof.
    intros H1 H2 He k x' w u ch Hk Ep. destruct (step_frame s e H1) as (Eb & _ & _). rewrite Eb.
    destruct (step_blocked_from _ _ _ _ _ _ _ Hk Ep) as (x & G & [Hx|[Hx _]]); [eauto | exfalso; now apply (H2 k)].
  Qed.
End MS.

Definition MR (h : hst) (m : mstate) : Prop :=
  meq m = eqc h /\ mcur m = val (ms h) /\ mas m = absv (ms h) /\ mprev m = obs (ms h).
Definition HInv (h : hst) : Prop := Inv (eq_of_code (eqc h)) (ms h) /\ Eager (ms h).

Lemma skipn_last {A} (l : list A) x : skipn (length (l ++ [x]) - 1) (l ++ [x]) = [x].
Proof.
  rewrite app_length. cbn [length]. replace (length l + 1 - 1) with (length l) by lia.
  rewrite skipn_app, skipn_all, Nat.sub_diag. reflexivity.
Qed.

Section MS2.
  Variable eqv : N -> N -> bool.
  Notation step := (step eqv).
  Notation cond := (cond eqv).
  Notation Inv := (Inv eqv).
  Notation cell_step := (cell_step eqv).

  Lemma compare_false_neq x y : compare eqv x y = false -> (y =? x)%N = false.
  Proof. unfold compare. intros H. apply orb_false_iff in H as [H _]. now rewrite N.eqb_sym. Qed.

  Lemma sect_writer_vh s a x o : nth_error (acts s) a = Some x -> pc x = PGate o ->
    vh (step s (Sect a)) = if (fst (cell_step (val s) o) =? val s)%N then vh s else vh s ++ [fst (cell_step (val s) o)].
  Proof.
    intros G Ep. cbn [Model.step]. rewrite G, Ep.
    destruct o as [|v|[|k|k|]]; cbn [Model.cell_step apply_f fst snd]; try (rewrite N.eqb_refl; reflexivity).
    all: match goal with |- context [if compare eqv ?p ?q then _ else _] => destruct (compare eqv p q) eqn:Ec end;
      cbn [fin_keep fin_store vh]; [now rewrite N.eqb_refl | now rewrite (compare_false_neq _ _ Ec)].
  Qed.

  Lemma absA_wake h bb x : absA h (wake bb x) = absA h x.
  Proof.
    unfold wake. destruct (pc x) as [o|o r|w|w u ch|w u ch|w u ek|w u] eqn:Ep; try reflexivity.
    destruct (closed bb ch); [|reflexivity]. apply absA_set_pc. now rewrite Ep.
  Qed.

  Lemma absv_settle s : absv (settle eqv s) = absv s.
  Proof.
    destruct (settle_spec eqv s) as (_ & _ & E3 & _ & E5). unfold absv. rewrite E3, E5, map_map.
    apply map_ext. intros x. apply absA_wake.
  Qed.

  Lemma absA_add_held h v x : start x < length h -> absA (h ++ [v]) x = add_held v (absA h x).
  Proof.
    intros H. unfold absA, add_held. cbn [mkd mheld mcanc mfl mclosed msent]. f_equal.
    rewrite skipn_app. replace (start x - length h) with 0 by lia. reflexivity.
  Qed.

  Lemma absv_sect_writer s a x o : Inv s -> nth_error (acts s) a = Some x -> pc x = PGate o ->
    absv (step s (Sect a)) =
    if (fst (cell_step (val s) o) =? val s)%N then absv s else map (add_held (fst (cell_step (val s) o))) (absv s).
  Proof.
    intros (_ & _ & Ha) G Ep. destruct (sect_writer eqv s a x o G Ep) as (_ & _ & E3).
    unfold absv. rewrite E3, (sect_writer_vh s a x o G Ep).
    rewrite (map_set_nth_eq _ _ _ x) by (auto; apply absA_set_pc; now rewrite Ep).
    destruct (fst (cell_step (val s) o) =? val s)%N; [reflexivity|].
    rewrite map_map. apply map_ext_in. intros y Hy. apply In_nth_error in Hy as [k Hk].
    apply absA_add_held. now destruct (Ha _ _ Hk) as (H & _).
  Qed.

  Lemma code_wake_done bb x o r : pc x = PDone o r -> code (wake bb x) = (3 + 16 * r)%N.
  Proof. intros Ep. unfold wake. rewrite Ep. unfold code. now rewrite Ep. Qed.

  (* ---- the monitor on a step without a linearization point ---- *)
  Lemma mon_nolp m ev s' :
    mon_lp m (mon_event m ev (obs s')) ev (obs s') = None ->
    mon_event m ev (obs s') = absv s' -> val s' = mcur m ->
    Proofs.Inv (eq_of_code (meq m)) s' -> Eager s' ->
    mon_ev m ev (obs s') = ({| meq := meq m; mcur := val s'; mas := absv s'; mprev := obs s' |}, []).
  Proof.
    intros Hlp Hev Hv HI HE. unfold mon_ev. cbv zeta. rewrite Hlp, N.eqb_refl, Hev, <- Hv.
    rewrite (chk_all _ s' _ HI HE). reflexivity.
  Qed.
End MS2.

Lemma hstep_nolp h m ev s' :
  MR h m -> Proofs.Inv (eq_of_code (eqc h)) s' -> Eager s' -> val s' = val (ms h) ->
  mon_event m ev (obs s') = absv s' -> mon_lp m (mon_event m ev (obs s')) ev (obs s') = None ->
  let h' := {| eqc := eqc h; ms := s' |} in
  HInv h' /\ MR h' (fst (mon_ev m ev (obs s'))) /\ snd (mon_ev m ev (obs s')) = [].
Proof.
  intros (R1 & R2 & R3 & R4) HI HE Hv Hev Hlp. cbn zeta.
  rewrite (mon_nolp m ev s' Hlp Hev); [|congruence|now rewrite R1|exact HE].
  cbn [fst snd]. split; [split; [exact HI | exact HE]|]. split; [|reflexivity].
  unfold MR. cbn [meq mcur mas mprev eqc ms]. auto.
Qed.

Lemma upd_app_last {A} (l : list A) x f : upd (l ++ [x]) (length l) f = l ++ [f x].
Proof. unfold upd. rewrite nth_error_app_mid. apply set_nth_app_mid. Qed.

Lemma absv_call eqv s p hc fl : Proofs.Inv eqv s ->
  absv (with_acts s (acts s ++ [new_actor p hc fl (length (vh s) - 1)])) = absv s ++ [mnew (kind_of p) (val s) fl false].
Proof.
  intros (_ & (l & Hl) & _). unfold absv. cbn [acts vh with_acts]. rewrite map_app. cbn [map]. f_equal. f_equal.
  unfold absA, mnew. cbn [pc start ctxc flav eclosed esent new_actor]. rewrite Hl at 1 2. now rewrite skipn_last.
Qed.

Lemma mon_lp_wait m ml a o y w : nth_error ml a = Some y -> mkd y = MKWait w -> mon_lp m ml (Some (HStep a)) o = None.
Proof.
  intros G Hk. cbn [mon_lp]. rewrite G. destruct (nth_error (mprev m) a); [|reflexivity]. destruct (nth_error o a); [|reflexivity].
  now rewrite Hk.
Qed.

Section MS3.
  Variable eqv : N -> N -> bool.
  Notation step := (step eqv).
  Notation Inv := (Proofs.Inv eqv).

  (* the sampling section of a waiter *)
  Lemma sect_waiter_ok s a x w : Inv s -> Eager s -> nth_error (acts s) a = Some x -> pc x = WGate w ->
    let s1 := step s (Sect a) in
    val s1 = val s /\ absv s1 = absv s /\ Eager s1 /\
    (forall x1 w1 u1 ch1, nth_error (acts s1) a = Some x1 -> pc x1 = WSampled w1 u1 ch1 -> closed (b s1) ch1 = false).
  Proof.
    intros HI HE G Ep. pose proof HI as (Hwf & _ & Ha). cbn zeta.
    pose proof (step_blocked_from eqv s (Sect a)) as Hbf.
    cbn [Model.step] in *. rewrite G, Ep in *.
    pose proof (getch_open (b s) Hwf) as Hopen. pose proof (getch_closed_same (b s) ) as Hsame.
    destruct (getch (b s)) as [b' ch'] eqn:EGC. cbn [fst] in *. destruct Hopen as (Hlt & Hop & Hcur).
    cbn [val b acts vh]. split; [reflexivity|]. split; [|split].
    - unfold absv. cbn [acts vh]. rewrite (seta_eq _ _ _ _ G). apply (map_set_nth_eq _ _ _ _ _ G).
      apply absA_set_pc. now rewrite Ep.
    - intros k x' w1 u1 ch1 Hk Ep1. cbn [b acts] in *.
      destruct (Hbf k x' w1 u1 ch1 Hk Ep1) as (x0 & G0 & [Hx0|[Habs _]]); [|discriminate].
      destruct (Ha _ _ G0) as (_ & _ & Hp). rewrite Hx0 in Hp. destruct Hp as (Hlt1 & _).
      rewrite Hsame by auto. eauto.
    - intros x1 w1 u1 ch1 Hk Ep1. cbn [acts b] in *. rewrite (seta_eq _ _ _ _ G) in Hk.
      rewrite nth_error_set_nth_same in Hk by (eapply nth_error_nth_len; eauto). inversion Hk; subst x1.
      cbn [pc set_pc] in Ep1. inversion Ep1; subst. exact Hop.
  Qed.

  Lemma eval_eager s a : Eager s ->
    (forall x w u ch, nth_error (acts s) a = Some x -> pc x = WSampled w u ch -> closed (b s) ch = false) ->
    Eager (step s (Eval a)).
  Proof.
    intros HE Hs k x' w u ch Hk Ep. destruct (step_frame eqv s (Eval a)) as (Eb & _ & _); [discriminate|]. rewrite Eb.
    destruct (step_blocked_from eqv _ _ _ _ _ _ _ Hk Ep) as (x & G & [Hx|[Hx1 Hx2]]); [eauto|].
    inversion Hx1; subst k. eauto.
  Qed.

  Lemma eval_wake_eager s a : Eager s -> Eager (step (step s (Eval a)) (Wake a)).
  Proof.
    intros HE. set (s1 := step s (Eval a)). destruct (step_frame eqv s (Eval a)) as (Eb & _ & _); [discriminate|].
    fold s1 in Eb. destruct (nth_error (acts s1) a) as [x1|] eqn:G1.
    - destruct (step_wake_spec eqv s1 a x1 G1) as (F1 & _ & _ & _ & F5).
      intros k x' w u ch Hk Ep. rewrite F1, Eb. rewrite F5 in Hk.
      pose proof (nth_error_nth_len _ _ _ G1) as Hl.
      destruct (Nat.eq_dec k a) as [->|Hne].
      + rewrite nth_error_set_nth_same in Hk by exact Hl. inversion Hk as [Hx]. clear Hk.
        unfold wake in *. destruct (pc x1) as [o|o r|w0|w0 u0 ch0|w0 u0 ch0|w0 u0 ek|w0 u0] eqn:Ep0; subst x'; try congruence.
        destruct (closed (b s1) ch0) eqn:Ec; [cbn [pc set_pc] in Ep; discriminate|]. rewrite Eb in Ec. congruence.
      + rewrite nth_error_set_nth_other in Hk by exact Hne.
        destruct (step_blocked_from eqv _ _ _ _ _ _ _ Hk Ep) as (x & G & [Hx|[Hx1 _]]); [eauto | inversion Hx1; congruence].
    - assert (Hid : step s1 (Wake a) = s1) by (cbn [Model.step]; now rewrite G1). rewrite Hid.
      intros k x' w u ch Hk Ep. rewrite Eb.
      destruct (step_blocked_from eqv _ _ _ _ _ _ _ Hk Ep) as (x & G & [Hx|[Hx1 _]]); [eauto|].
      inversion Hx1; subst k. congruence.
  Qed.
End MS3.

Lemma nth_error_absv s a x : nth_error (acts s) a = Some x -> nth_error (absv s) a = Some (absA (vh s) x).
Proof. intros G. unfold absv. now apply map_nth_error. Qed.

(* the callback of a watcher returns *)
Lemma absv_cbret eqv s a x w v : Proofs.Inv eqv s -> nth_error (acts s) a = Some x -> pc x = WCb w v ->
  absv (step eqv s (CbRet a true)) = absv s /\
  absv (step eqv s (CbRet a false)) = upd (absv s) a (next_round v (val s)).
Proof.
  intros (_ & (l & Hl) & Ha) G Ep. destruct (Ha _ _ G) as (_ & _ & Hp). rewrite Ep in Hp. destruct Hp as (_ & _ & Hw).
  cbn [Model.step]. rewrite G, Ep. unfold absv. cbn [acts vh with_acts]. split.
  - rewrite (seta_eq _ _ _ _ G). apply (map_set_nth_eq _ _ _ _ _ G). unfold absA. cbn [pc set_pc start ctxc flav eclosed esent].
    now rewrite Ep.
  - apply upd_map_set_nth with (x := x); [exact G|]. unfold absA, next_round.
    cbn [pc set_pc_start start ctxc flav eclosed esent mkd mheld mcanc mfl mclosed msent]. rewrite Ep. cbn [kind_of].
    destruct w as [|old| |p k|cur]; try discriminate. f_equal. rewrite Hl at 1 2. now rewrite skipn_last.
Qed.

Lemma some_pair_inj {A B} (a a' : A) (b b' : B) : Some (a, b) = Some (a', b') -> a = a' /\ b = b'.
Proof. intros H. inversion H. auto. Qed.

Lemma hstep_writer h m a x op : HInv h -> MR h m -> nth_error (acts (ms h)) a = Some x -> pc x = PGate op ->
  let s' := settle (eq_of_code (eqc h)) (step (eq_of_code (eqc h)) (ms h) (Sect a)) in
  let h' := {| eqc := eqc h; ms := s' |} in
  HInv h' /\ MR h' (fst (mon_ev m (Some (HStep a)) (obs s'))) /\ snd (mon_ev m (Some (HStep a)) (obs s')) = [].
Proof.
  intros (HI & HE) (R1 & R2 & R3 & R4) G Ep. set (eqv := eq_of_code (eqc h)) in *. set (s := ms h) in *.
  cbn zeta. set (s1 := step eqv s (Sect a)). set (s' := settle eqv s1).
  destruct (sect_writer eqv s a x op G Ep) as (E1 & _ & E3). fold s1 in E1, E3.
  pose proof (absv_sect_writer eqv s a x op HI G Ep) as Eabs. fold s1 in Eabs.
  destruct (settle_spec eqv s1) as (_ & F2 & _ & _ & F5). fold s' in F2, F5.
  pose proof (absv_settle eqv s1) as Fabs. fold s' in Fabs.
  assert (HI' : Inv eqv s') by (apply settle_inv, step_inv; exact HI).
  assert (HE' : Eager s') by apply settle_eager.
  set (r := snd (cell_step eqv (val s) op)) in *.
  assert (Ho : nth_error (obs s') a = Some (3 + 16 * r)%N).
  { unfold obs. rewrite F5, map_map. erewrite map_nth_error; [|rewrite E3; apply nth_error_set_nth_same; eapply nth_error_nth_len; eauto].
    reflexivity. }
  assert (Hlp : mon_lp m (mon_event m (Some (HStep a)) (obs s')) (Some (HStep a)) (obs s') = Some (op, r)).
  { cbn [mon_lp mon_event]. rewrite R3, (nth_error_absv _ _ _ G), R4. unfold obs at 1. rewrite (map_nth_error code _ _ G), Ho.
    unfold absA. cbn [mkd kind_of]. rewrite Ep. cbn [kind_of]. unfold code. rewrite Ep.
    rewrite st_of_code, val_of_code by reflexivity. reflexivity. }
  split; [split; assumption|].
  unfold mon_ev. cbv zeta. rewrite Hlp. cbv beta iota. rewrite R1, R2. fold eqv.
  assert (Hml : (if (fst (cell_step eqv (val s) op) =? val s)%N then mon_event m (Some (HStep a)) (obs s')
                 else map (add_held (fst (cell_step eqv (val s) op))) (mon_event m (Some (HStep a)) (obs s'))) = absv s').
  { cbn [mon_event]. rewrite R3, Fabs, Eabs. reflexivity. }
  rewrite Hml. rewrite <- E1, <- F2.
  rewrite (chk_all eqv s' _ HI' HE'), app_nil_r. cbn [fst snd]. split.
  - unfold MR. cbn [meq mcur mas mprev eqc ms]. auto.
  - destruct op as [|v|f]; try reflexivity; fold r; now rewrite N.eqb_refl.
Qed.

Lemma hstep_ev_ok h m ev h' o : HInv h -> MR h m -> hstep_ev h ev = Some (h', o) ->
  HInv h' /\ MR h' (fst (mon_ev m (Some ev) o)) /\ snd (mon_ev m (Some ev) o) = [].
Proof.
  intros HH HR H. pose proof HH as (HI & HE). pose proof HR as (R1 & R2 & R3 & R4).
  unfold hstep_ev in H. cbv zeta in H. set (eqv := eq_of_code (eqc h)) in *. set (s := ms h) in *.
  destruct ev as [o0|w hc fl pre|a|a|a em|a cerr].
  - (* call *) apply some_pair_inj in H as [<- <-].
    apply (hstep_nolp h m (Some (HCall o0))); auto.
    + now apply step_inv.
    + apply step_eager; [discriminate | discriminate | exact HE].
    + cbn [mon_event]. rewrite R3, R2. symmetry. exact (absv_call eqv s (PGate o0) false CPlain HI).
  - (* waiter call; [pre]: its context had ended before *)
    apply some_pair_inj in H as [<- <-]. set (s1 := step eqv s (CallWait w hc fl)).
    assert (HI1 : Inv eqv s1) by now apply step_inv.
    assert (HE1 : Eager s1) by (apply step_eager; [discriminate | discriminate | exact HE]).
    destruct (step_frame eqv s (CallWait w hc fl)) as (_ & V1 & _); [discriminate|]. fold s1 in V1.
    assert (A1 : absv s1 = absv s ++ [mnew (MKWait w) (val s) fl false]) by exact (absv_call eqv s (WGate w) hc fl HI).
    destruct pre.
    + destruct (step_frame eqv s1 (CancelCtx (length (acts s)))) as (_ & V2 & _); [discriminate|].
      apply (hstep_nolp h m (Some (HWait w hc fl true))); auto.
      * now apply step_inv.
      * apply step_eager; [discriminate | discriminate | exact HE1].
      * cbn [mon_event]. rewrite R3, R2, step_absv_cancel, A1.
        replace (length (acts s)) with (length (absv s)) by (unfold absv; apply map_length).
        now rewrite upd_app_last.
    + apply (hstep_nolp h m (Some (HWait w hc fl false))); auto.
      cbn [mon_event]. now rewrite R3, R2, A1.
  - (* step *)
    destruct (nth_error (acts s) a) as [x|] eqn:G; [|discriminate].
    destruct (pc x) as [op|op r|w|w u ch|w u ch|w u ek|w u] eqn:Ep; try discriminate.
    + apply some_pair_inj in H as [<- <-]. exact (hstep_writer h m a x op HH HR G Ep).
    + (* waiter at its entry gate *)
      destruct (sect_waiter_ok eqv s a x w HI HE G Ep) as (V1 & A1 & HE1 & Hopen).
      assert (HI1 : Inv eqv (step eqv s (Sect a))) by now apply step_inv.
      assert (Hlp : forall o', mon_lp m (mon_event m (Some (HStep a)) o') (Some (HStep a)) o' = None).
      { intros o'. apply (mon_lp_wait m _ a o' (absA (vh s) x) w); [cbn [mon_event]; rewrite R3; now apply nth_error_absv|].
        unfold absA. cbn [mkd]. now rewrite Ep. }
      destruct (negb (ctxc x) && negb (err_ready x)).
      * apply some_pair_inj in H as [<- <-]. apply (hstep_nolp h m (Some (HStep a))); auto. cbn [mon_event]. now rewrite R3, A1.
      * destruct (ctxc x && err_ready x); [discriminate|]. apply some_pair_inj in H as [<- <-].
        set (s1 := step eqv s (Sect a)) in *. set (s2 := step eqv s1 (Eval a)). set (s3 := step eqv s2 (CancelWake a)).
        destruct (step_frame eqv s1 (Eval a)) as (_ & V2 & _); [discriminate|].
        destruct (step_frame eqv s2 (CancelWake a)) as (_ & V3 & _); [discriminate|].
        destruct (step_frame eqv s3 (ErrWake a)) as (_ & V4 & _); [discriminate|].
        apply (hstep_nolp h m (Some (HStep a))); auto.
        -- repeat apply step_inv. exact HI.
        -- apply step_eager; [discriminate | discriminate |]. apply step_eager; [discriminate | discriminate |].
           apply eval_eager; [exact HE1 | exact Hopen].
        -- rewrite V4. unfold s3. rewrite V3. unfold s2. rewrite V2. exact V1.
        -- cbn [mon_event]. rewrite R3, <- A1.
           rewrite (step_absv_pc eqv s3 (ErrWake a) I). unfold s3. rewrite (step_absv_pc eqv s2 (CancelWake a) I).
           unfold s2. now rewrite (step_absv_pc eqv s1 (Eval a) I).
    + (* waiter at its exit gate *)
      apply some_pair_inj in H as [<- <-]. set (s1 := step eqv s (Eval a)).
      destruct (step_frame eqv s (Eval a)) as (_ & V1 & _); [discriminate|].
      destruct (step_frame eqv s1 (Wake a)) as (_ & V2 & _); [discriminate|].
      apply (hstep_nolp h m (Some (HStep a))); auto.
      * repeat apply step_inv. exact HI.
      * now apply eval_wake_eager.
      * rewrite V2. exact V1.
      * cbn [mon_event]. rewrite R3, (step_absv_pc eqv s1 (Wake a) I). unfold s1. now rewrite (step_absv_pc eqv s (Eval a) I).
      * apply (mon_lp_wait m _ a _ (absA (vh s) x) w); [cbn [mon_event]; rewrite R3; now apply nth_error_absv|].
        unfold absA. cbn [mkd]. now rewrite Ep.
  - (* cancel *)
    destruct (nth_error (acts s) a) as [x|] eqn:G; [|discriminate].
    destruct (waiting_pc (pc x) && negb (ctxc x) && negb (err_ready x)); [|discriminate].
    apply some_pair_inj in H as [<- <-]. set (s1 := step eqv s (CancelCtx a)).
    destruct (step_frame eqv s (CancelCtx a)) as (_ & V1 & _); [discriminate|].
    destruct (step_frame eqv s1 (CancelWake a)) as (_ & V2 & _); [discriminate|].
    apply (hstep_nolp h m (Some (HCancel a))); auto.
    + repeat apply step_inv. exact HI.
    + apply step_eager; [discriminate | discriminate |]. apply step_eager; [discriminate | discriminate | exact HE].
    + rewrite V2. exact V1.
    + cbn [mon_event]. rewrite R3, (step_absv_pc eqv s1 (CancelWake a) I). unfold s1. now rewrite (step_absv_cancel eqv s a).
  - (* error channel *)
    destruct (nth_error (acts s) a) as [x|] eqn:G; [|discriminate].
    destruct (waiting_pc (pc x) && hasch x && negb (ctxc x) && negb (eclosed x)) eqn:Eg; [|discriminate].
    apply andb_true_iff in Eg as [Eg Hcl]. apply andb_true_iff in Eg as [Eg _]. apply andb_true_iff in Eg as [_ Hch].
    apply negb_true_iff in Hcl.
    apply some_pair_inj in H as [<- <-].
    set (e1 := match em with MNil => ErrSend a false | MErr => ErrSend a true | MClose => ErrClose a end) in *.
    set (s1 := step eqv s e1).
    assert (Hne1 : (forall a0, e1 <> Sect a0) /\ (forall a0, e1 <> Eval a0)) by (unfold e1; destruct em; split; discriminate).
    destruct (step_frame eqv s e1 (proj1 Hne1)) as (_ & V1 & _).
    destruct (step_frame eqv s1 (ErrWake a)) as (_ & V2 & _); [discriminate|].
    apply (hstep_nolp h m (Some (HErr a em))); auto.
    + repeat apply step_inv. exact HI.
    + apply step_eager; [discriminate | discriminate |]. apply step_eager; [exact (proj1 Hne1) | exact (proj2 Hne1) | exact HE].
    + rewrite V2. exact V1.
    + rewrite (step_absv_pc eqv s1 (ErrWake a) I). unfold s1, e1. destruct em; cbn [mon_event]; rewrite R3.
      * now rewrite (step_absv_send eqv s a false x G Hch Hcl).
      * now rewrite (step_absv_send eqv s a true x G Hch Hcl).
      * now rewrite (step_absv_close eqv s a x G Hch).
  - (* the callback of a watcher returns *)
    destruct (nth_error (acts s) a) as [x|] eqn:G; [|discriminate].
    destruct (pc x) as [op|op r|w|w u ch|w u ch|w u ek|w u] eqn:Ep; try discriminate.
    apply some_pair_inj in H as [<- <-].
    destruct (step_frame eqv s (CbRet a cerr)) as (_ & V1 & _); [discriminate|].
    destruct (absv_cbret eqv s a x w u HI G Ep) as [A1 A2].
    apply (hstep_nolp h m (Some (HCbRet a cerr))); auto.
    + now apply step_inv.
    + apply step_eager; [discriminate | discriminate | exact HE].
    + pose proof (nth_error_nth_len _ _ _ G) as Hl.
      destruct (watch_callback_return eqv s a x w u G Ep) as [S0 S1].
      cbn [mon_event]. rewrite R4. unfold obs at 1. rewrite (map_nth_error code _ _ G). unfold code. rewrite Ep.
      rewrite st_of_code, val_of_code by reflexivity. cbn [N.eqb Pos.eqb andb].
      assert (Ho : forall b0, nth_error (obs (step eqv s (CbRet a b0))) a = Some (if b0 then 11 else 1)%N).
      { intros [|]; [rewrite S1 | rewrite S0]; unfold obs; cbn [acts with_acts];
          rewrite map_set_nth, nth_error_set_nth_same by (now rewrite map_length); reflexivity. }
      rewrite Ho. destruct cerr.
      * change ((st_of 11 =? 1)%N) with false. cbn [andb]. rewrite R3. exact (eq_sym A1).
      * change ((st_of 1 =? 1)%N) with true. cbn [andb]. rewrite R3, R2. exact (eq_sym A2).
Qed.

Lemma hstep_ok h m e h' o : HInv h -> MR h m -> hstep h e = Some (h', o) ->
  HInv h' /\ MR h' (fst (mon m e o)) /\ snd (mon m e o) = [].
Proof.
  unfold hstep, mon. destruct (decode e) as [ev|]; [|discriminate]. apply hstep_ev_ok.
Qed.

Lemma init_ok cfg : HInv (hinit cfg) /\ MR (hinit cfg) (minit cfg).
Proof.
  assert (H : forall c v0, HInv {| eqc := c; ms := init v0 |} /\
                           MR {| eqc := c; ms := init v0 |} {| meq := c; mcur := v0; mas := []; mprev := [] |}).
  { intros c v0. split; [split; [apply init_inv | intros [|a] x w u ch G; discriminate] | repeat split]. }
  destruct cfg as [|c [|v0 t]]; cbn [hinit minit]; apply H.
Qed.

Lemma monitor_accepts evs : forall i h m rep, HInv h -> MR h m ->
  monitor mon i m rep evs (run_obs hstep h evs) = [].
Proof.
  induction evs as [|e evs IH]; intros i h m rep HH HR; cbn [run_obs monitor]; [reflexivity|].
  destruct (hstep h e) as [[h' o]|] eqn:Hs; [|reflexivity]. cbn [monitor].
  destruct (hstep_ok h m e h' o HH HR Hs) as (HH' & HR' & Hf).
  destruct (mon m e o) as [m' fails]. cbn [fst snd] in *. subst fails. cbn [filter map app]. now apply IH.
Qed.

(* for every event list: the monitors, run on the model's own observations (up to the first event the
   schedule-level step does not accept), report nothing *)
Theorem model_satisfies_monitors cfg evs :
  monitor mon 0 (minit cfg) [] evs (run_obs hstep (hinit cfg) evs) = [].
Proof. destruct (init_ok cfg) as (HH & HR). now apply monitor_accepts. Qed.

Lemma list_eqb_refl l : list_eqb l l = true.
Proof. induction l as [|x t IH]; cbn; [reflexivity | now rewrite N.eqb_refl, IH]. Qed.

Lemma replay_self evs : forall i h, length (run_obs hstep h evs) = length evs ->
  replay hstep i h evs (run_obs hstep h evs) = [].
Proof.
  induction evs as [|e evs IH]; intros i h Hl; cbn [run_obs replay] in *; [reflexivity|].
  destruct (hstep h e) as [[h' o]|]; [|discriminate]. cbn [length] in Hl. rewrite list_eqb_refl. apply IH. lia.
Qed.

(* the whole checker accepts the model's own run on every event list the schedule-level step accepts *)
Theorem run_check_accepts_model cfg evs :
  length (run_obs hstep (hinit cfg) evs) = length evs ->
  run_check_ccontainer cfg evs (run_obs hstep (hinit cfg) evs) = [].
Proof.
  intros Hl. unfold run_check_ccontainer, run_check. rewrite (replay_self evs 0 _ Hl). apply model_satisfies_monitors.
Qed.
