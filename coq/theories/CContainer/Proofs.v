(* Proofs about the CContainer model (C15). *)
From Util Require Import Common.Base Common.ListLemmas CContainer.Model CContainer.Spec.

(* ------------------------------------------------------------------ *)
(* small list facts *)

Lemma set_nth_all {A} (P : A -> Prop) (l : list A) a x' :
  (forall k y, nth_error l k = Some y -> P y) -> P x' ->
  forall k y, nth_error (set_nth l a x') k = Some y -> P y.
Proof.
  intros Hall Hx k y Hk. destruct (Nat.lt_ge_cases a (length l)) as [Hl|Hl].
  - destruct (Nat.eq_dec k a) as [->|Hne].
    + rewrite nth_error_set_nth_same in Hk by exact Hl. inversion Hk; subst; exact Hx.
    + rewrite nth_error_set_nth_other in Hk by exact Hne. eauto.
  - rewrite set_nth_oob in Hk by exact Hl. eauto.
Qed.

Lemma app_all {A} (P : A -> Prop) (l : list A) x' :
  (forall k y, nth_error l k = Some y -> P y) -> P x' ->
  forall k y, nth_error (l ++ [x']) k = Some y -> P y.
Proof. intros Hall Hx k y Hk. apply nth_error_app_inv in Hk as [Hk| ->]; eauto. Qed.

Lemma in_skipn_last {A} (l : list A) (x : A) k : k < length (l ++ [x]) -> In x (skipn k (l ++ [x])).
Proof.
  intros Hk. rewrite skipn_app. apply in_or_app. right.
  rewrite app_length in Hk. cbn in Hk. replace (k - length l) with 0 by lia. now left.
Qed.

Lemma in_skipn_app {A} (l t : list A) (x : A) k : In x (skipn k l) -> In x (skipn k (l ++ t)).
Proof. intros H. rewrite skipn_app. apply in_or_app. now left. Qed.

Lemma map_set_nth {A B} (f : A -> B) (l : list A) a x : map f (set_nth l a x) = set_nth (map f l) a (f x).
Proof. revert a; induction l as [|h t IH]; intros [|a]; cbn; auto. now rewrite IH. Qed.

Lemma set_nth_same {A} (l : list A) a x : nth_error l a = Some x -> set_nth l a x = l.
Proof. revert a; induction l as [|h t IH]; intros [|a] H; cbn in *; try discriminate; [now inversion H | now rewrite IH]. Qed.

Lemma NoDup_snoc {A} (l : list A) x : NoDup l -> ~ In x l -> NoDup (l ++ [x]).
Proof.
  induction l as [|h t IH]; intros Hnd Hin; cbn.
  - constructor; [intros [] | constructor].
  - inversion Hnd as [|h' t' Hh Ht]; subst. constructor.
    + rewrite in_app_iff. intros [H|[H|[]]]; [now apply Hh | subst; apply Hin; now left].
    + apply IH; [exact Ht | intros H; apply Hin; now right].
Qed.

Lemma fold_inv_ev {S E} (I : S -> Prop) (Q : E -> Prop) (f : S -> E -> S) :
  (forall s e, Q e -> I s -> I (f s e)) -> forall es s, Forall Q es -> I s -> I (fold_left f es s).
Proof.
  intros H es; induction es as [|e es IH]; intros s HQ Hs; cbn; auto.
  inversion HQ; subst. apply IH; auto.
Qed.

Definition dflt : actor := new_actor (PDone OGet 0) false 0.

Section P.
  Variable eqv : N -> N -> bool.
  Notation step := (step eqv).
  Notation cond := (cond eqv).
  Notation compare := (compare eqv).
  Notation cell_step := (cell_step eqv).
  Notation cell_fold := (cell_fold eqv).
  Notation run := (run eqv).
  Notation seta := seta.

  (* ---------------------------------------------------------------- *)
  (* the main invariant: no lost wake-up, returned values held and satisfying, errors have a source *)

  Definition aok (bb : bc) (v : N) (h : list N) (x : actor) : Prop :=
    start x < length h /\
    (In true (errq x) -> esent x = true) /\
    match pc x with
    | WSampled w u ch => ch < nxt bb /\ (closed bb ch = true \/ u = v) /\ In u (skipn (start x) h)
    | WBlocked w u ch => ch < nxt bb /\ (closed bb ch = true \/ u = v) /\ In u (skipn (start x) h) /\ cond w u = VNo
    | WRet w u ENone => In u (skipn (start x) h) /\ cond w u = VOk
    | WRet w u EValid => u = 0%N /\ exists y, In y (skipn (start x) h) /\ cond w y = VErr
    | WRet w u ECanceled => u = 0%N /\ (ctxc x = true \/ eclosed x = true)
    | WRet w u EErrCh => u = 0%N /\ esent x = true
    | _ => True
    end.

  Definition Inv (s : st) : Prop :=
    bc_wf (b s) /\ (exists l, vh s = l ++ [val s]) /\
    forall a x, nth_error (acts s) a = Some x -> aok (b s) (val s) (vh s) x.

  Lemma aok_mono bb v h bb' v' t x :
    aok bb v h x ->
    nxt bb <= nxt bb' ->
    (forall c, c < nxt bb -> closed bb c = true -> closed bb' c = true) ->
    (forall c, c < nxt bb -> closed bb' c = true \/ v' = v) ->
    aok bb' v' (h ++ t) x.
  Proof.
    intros (Hs & Hq & Hp) Hn Hc Ho. split; [rewrite app_length; lia|]. split; [exact Hq|].
    destruct (pc x) as [o|o r|w|w u ch|w u ch|w u [| | |]]; auto.
    - destruct Hp as (H1 & H2 & H3). split; [lia|]. split; [|now apply in_skipn_app].
      destruct H2 as [H2| ->]; [left; now apply Hc|]. destruct (Ho ch H1) as [H| ->]; auto.
    - destruct Hp as (H1 & H2 & H3 & H4). split; [lia|]. split; [|split; [now apply in_skipn_app | exact H4]].
      destruct H2 as [H2| ->]; [left; now apply Hc|]. destruct (Ho ch H1) as [H| ->]; auto.
    - destruct Hp as (H1 & H2). split; [now apply in_skipn_app | exact H2].
    - destruct Hp as (H1 & y & H2 & H3). split; [exact H1|]. exists y. split; [now apply in_skipn_app | exact H3].
  Qed.

  Lemma aok_same bb v h x : aok bb v h x -> aok bb v (h ++ []) x.
  Proof. intros H. eapply aok_mono; eauto. Qed.

  (* an actor whose pc changes to p, other fields unchanged *)
  Lemma aok_set_pc bb v h x p :
    aok bb v h x ->
    match p with
    | WSampled w u ch => ch < nxt bb /\ (closed bb ch = true \/ u = v) /\ In u (skipn (start x) h)
    | WBlocked w u ch => ch < nxt bb /\ (closed bb ch = true \/ u = v) /\ In u (skipn (start x) h) /\ cond w u = VNo
    | WRet w u ENone => In u (skipn (start x) h) /\ cond w u = VOk
    | WRet w u EValid => u = 0%N /\ exists y, In y (skipn (start x) h) /\ cond w y = VErr
    | WRet w u ECanceled => u = 0%N /\ (ctxc x = true \/ eclosed x = true)
    | WRet w u EErrCh => u = 0%N /\ esent x = true
    | _ => True
    end -> aok bb v h (set_pc x p).
  Proof. intros (Hs & Hq & _) Hp. split; [exact Hs|]. split; [exact Hq|]. exact Hp. Qed.

  Lemma geta s a x : nth_error (acts s) a = Some x -> a < length (acts s) /\ nth a (acts s) dflt = x.
  Proof. intros H. split; [eapply nth_error_nth_len; eauto | now apply nth_error_nth]. Qed.

  Lemma seta_eq s a x p : nth_error (acts s) a = Some x -> seta s a p = set_nth (acts s) a (set_pc x p).
  Proof. intros G. unfold Model.seta. now rewrite G. Qed.

  (* generic re-establishment: actor a replaced by x', globals replaced *)
  Lemma inv_upd s bb v t a x' l' :
    Inv s -> bc_wf bb ->
    (t = [] /\ v = val s \/ t = [v]) ->
    nxt (b s) <= nxt bb ->
    (forall c, c < nxt (b s) -> closed (b s) c = true -> closed bb c = true) ->
    (forall c, c < nxt (b s) -> closed bb c = true \/ v = val s) ->
    aok bb v (vh s ++ t) x' ->
    Inv {| b := bb; val := v; acts := set_nth (acts s) a x'; vh := vh s ++ t; lin := l' |}.
  Proof.
    intros (Hwf & (l & Hl) & Ha) Hwf' Ht Hn Hc Ho Hx. split; [exact Hwf'|]. cbn [b val acts vh]. split.
    - destruct Ht as [[-> ->]| ->]; [exists l; now rewrite app_nil_r | exists (vh s); reflexivity].
    - apply set_nth_all; [|exact Hx]. intros k y Hk. eapply aok_mono; eauto.
  Qed.

  (* the same with unchanged globals *)
  Lemma inv_upd_same s a x' :
    Inv s -> aok (b s) (val s) (vh s) x' -> Inv (with_acts s (set_nth (acts s) a x')).
  Proof.
    intros HI Hx. pose proof HI as (Hwf & _ & _).
    pose proof (inv_upd s (b s) (val s) [] a x' (lin s) HI Hwf (or_introl (conj eq_refl eq_refl)) (le_n _)
                  (fun c _ H => H) (fun c _ => or_intror eq_refl)) as H.
    rewrite app_nil_r in H. specialize (H Hx). exact H.
  Qed.

  Lemma inv_app s x' :
    Inv s -> aok (b s) (val s) (vh s) x' -> Inv (with_acts s (acts s ++ [x'])).
  Proof.
    intros (Hwf & Hl & Ha) Hx. split; [exact Hwf|]. split; [exact Hl|]. cbn [b val acts vh with_acts].
    apply app_all; auto.
  Qed.

  Lemma vh_len s : Inv s -> length (vh s) - 1 < length (vh s).
  Proof. intros (_ & (l & Hl) & _). rewrite Hl, app_length. cbn. lia. Qed.

  Lemma init_inv v0 : Inv (init v0).
  Proof. split; [exact I|]. split; [now exists []|]. intros [|a] x H; discriminate. Qed.

  Lemma step_inv s e : Inv s -> Inv (step s e).
  Proof.
    intros HI. pose proof HI as (Hwf & (l & Hl) & Ha).
    destruct e as [o|w hc|a|a|a|a|a|a|a m|a]; cbn [Model.step].
    - (* Call *) apply inv_app; [exact HI|]. split; [now apply vh_len|]. split; [intros []|exact I].
    - apply inv_app; [exact HI|]. split; [now apply vh_len|]. split; [intros []|exact I].
    - (* Sect *)
      destruct (nth_error (acts s) a) as [x|] eqn:G; [|exact HI]. pose proof (Ha _ _ G) as Hx.
      assert (Hkeep : forall o r, Inv (fin_keep s a o r)).
      { intros o r. unfold fin_keep. rewrite (seta_eq _ _ _ _ G).
        pose proof (inv_upd s (b s) (val s) [] a (set_pc x (PDone o r)) (lin s ++ [(a, o)]) HI Hwf
                      (or_introl (conj eq_refl eq_refl)) (le_n _) (fun c _ H => H) (fun c _ => or_intror eq_refl)) as H.
        rewrite app_nil_r in H. apply H. now apply aok_set_pc. }
      assert (Hstore : forall o v r, Inv (fin_store s a o v r)).
      { intros o v r. unfold fin_store. rewrite (seta_eq _ _ _ _ G).
        apply inv_upd; auto.
        - apply bcast_wf.
        - intros c Hc _. now apply bcast_closes.
        - intros c Hc. left. now apply bcast_closes.
        - apply aok_set_pc; [|exact I]. eapply aok_mono; eauto.
          + intros c Hc _. now apply bcast_closes.
          + intros c Hc. left. now apply bcast_closes. }
      destruct (pc x) as [o|o r|w|w u ch|w u ch|w u ek] eqn:Ep; try exact HI.
      + destruct o as [|v|f]; [apply Hkeep | destruct (compare (val s) v); [apply Hkeep | apply Hstore] |].
        destruct f as [|k|k|]; [apply Hkeep | | |];
          match goal with |- context [if ?c then _ else _] => destruct c end; first [apply Hkeep | apply Hstore].
      + pose proof (getch_open (b s) Hwf) as Hopen. pose proof (getch_closed_same (b s)) as Hsame.
        pose proof (getch_nxt_mono (b s)) as Hmono. pose proof (getch_wf (b s) Hwf) as Hwf2.
        destruct (getch (b s)) as [b' ch'] eqn:EGC. cbn [fst] in *. destruct Hopen as (Hlt & Hop & Hcur).
        rewrite (seta_eq _ _ _ _ G).
        pose proof (inv_upd s b' (val s) [] a (set_pc x (WSampled w (val s) ch')) (lin s) HI Hwf2
                      (or_introl (conj eq_refl eq_refl)) Hmono) as H.
        rewrite app_nil_r in H. apply H.
        * intros c Hc Hcl. rewrite Hsame; auto.
        * intros c Hc. now right.
        * apply aok_set_pc; [eapply aok_mono with (t := []) in Hx; [rewrite app_nil_r in Hx; exact Hx | exact Hmono | |]|].
          -- intros c Hc Hcl. rewrite Hsame; auto.
          -- intros c Hc. now right.
          -- split; [exact Hlt|]. split; [now right|]. destruct Hx as (Hs & _). rewrite Hl in *. now apply in_skipn_last.
    - (* Eval *)
      destruct (nth_error (acts s) a) as [x|] eqn:G; [|exact HI]. pose proof (Ha _ _ G) as Hx.
      destruct (pc x) as [o|o r|w|w u ch|w u ch|w u ek] eqn:Ep; try exact HI.
      pose proof Hx as (_ & _ & Hp). rewrite Ep in Hp. destruct Hp as (H1 & H2 & H3).
      destruct (cond w u) eqn:Ec; rewrite (seta_eq _ _ _ _ G); apply inv_upd_same; auto; apply aok_set_pc; auto.
      split; [reflexivity|]. now exists u.
    - (* Wake *)
      destruct (nth_error (acts s) a) as [x|] eqn:G; [|exact HI]. pose proof (Ha _ _ G) as Hx.
      destruct (pc x) as [o|o r|w|w u ch|w u ch|w u ek] eqn:Ep; try exact HI.
      destruct (closed (b s) ch); [|exact HI].
      rewrite (seta_eq _ _ _ _ G); apply inv_upd_same; auto; apply aok_set_pc; auto.
    - (* CancelWake *)
      destruct (nth_error (acts s) a) as [x|] eqn:G; [|exact HI]. pose proof (Ha _ _ G) as Hx.
      destruct (pc x) as [o|o r|w|w u ch|w u ch|w u ek] eqn:Ep; try exact HI.
      destruct (ctxc x) eqn:Ec; [|exact HI].
      rewrite (seta_eq _ _ _ _ G); apply inv_upd_same; auto; apply aok_set_pc; auto.
    - (* ErrWake *)
      destruct (nth_error (acts s) a) as [x|] eqn:G; [|exact HI]. pose proof (Ha _ _ G) as Hx.
      destruct (pc x) as [o|o r|w|w u ch|w u ch|w u ek] eqn:Ep; try exact HI.
      destruct Hx as (Hs & Hq & Hp).
      destruct (errq x) as [|[|] q] eqn:Eq.
      + destruct (eclosed x) eqn:Ec; [|exact HI].
        rewrite (seta_eq _ _ _ _ G); apply inv_upd_same; auto; apply aok_set_pc; auto.
        split; [exact Hs|]. split; [now rewrite Eq|]. rewrite Ep in *. exact Hp.
      + apply inv_upd_same; auto. split; [exact Hs|]. cbn [errq esent pc].
        split; [intros _; apply Hq; now left|]. split; [reflexivity|]. apply Hq; now left.
      + apply inv_upd_same; auto. split; [exact Hs|]. cbn [errq esent pc].
        split; [intros Hin; apply Hq; now right | exact I].
    - (* CancelCtx *)
      destruct (nth_error (acts s) a) as [x|] eqn:G; [|exact HI]. pose proof (Ha _ _ G) as Hx.
      apply inv_upd_same; auto. destruct Hx as (Hs & Hq & Hp). split; [exact Hs|]. split; [exact Hq|].
      cbn [pc ctxc eclosed esent start]. destruct (pc x) as [o|o r|w|w u ch|w u ch|w u [| | |]]; auto.
      destruct Hp as [Hp _]. split; [exact Hp | now left].
    - (* ErrSend *)
      destruct (nth_error (acts s) a) as [x|] eqn:G; [|exact HI]. pose proof (Ha _ _ G) as Hx.
      destruct (hasch x && negb (eclosed x)); [|exact HI].
      apply inv_upd_same; auto. destruct Hx as (Hs & Hq & Hp). split; [exact Hs|]. cbn [pc ctxc eclosed esent start errq].
      split.
      + rewrite in_app_iff. intros [H|[H|[]]]; [rewrite Hq by exact H; reflexivity | subst m; now rewrite orb_true_r].
      + destruct (pc x) as [o|o r|w|w u ch|w u ch|w u [| | |]]; auto.
        destruct Hp as [Hp1 Hp2]. split; [exact Hp1 | now rewrite Hp2].
    - (* ErrClose *)
      destruct (nth_error (acts s) a) as [x|] eqn:G; [|exact HI]. pose proof (Ha _ _ G) as Hx.
      destruct (hasch x); [|exact HI].
      apply inv_upd_same; auto. destruct Hx as (Hs & Hq & Hp). split; [exact Hs|]. split; [exact Hq|].
      cbn [pc ctxc eclosed esent start]. destruct (pc x) as [o|o r|w|w u ch|w u ch|w u [| | |]]; auto.
      destruct Hp as [Hp _]. split; [exact Hp | now right].
  Qed.

  Theorem run_inv v0 es : Inv (run v0 es).
  Proof. unfold Model.run. apply fold_inv; [apply step_inv | apply init_inv]. Qed.

  (* the ghost history vh is exactly the sequence of contents of the cell *)
  Lemma vh_tracks s e :
    (vh (step s e) = vh s /\ val (step s e) = val s) \/ vh (step s e) = vh s ++ [val (step s e)].
  Proof.
    destruct e as [o|w hc|a|a|a|a|a|a|a m|a]; cbn [Model.step]; try (left; split; reflexivity).
    all: destruct (nth_error (acts s) a) as [x|] eqn:G; [|left; split; reflexivity].
    - destruct (pc x) as [o|o r|w|w u ch|w u ch|w u ek] eqn:Ep; try (left; split; reflexivity).
      + destruct o as [|v|[|k|k|]]; try (left; split; reflexivity);
          match goal with |- context [if ?c then _ else _] => destruct c end;
          first [left; split; reflexivity | right; reflexivity].
      + destruct (getch (b s)); left; split; reflexivity.
    - destruct (pc x) as [o|o r|w|w u ch|w u ch|w u ek] eqn:Ep; try (left; split; reflexivity).
      destruct (cond w u); left; split; reflexivity.
    - destruct (pc x) as [o|o r|w|w u ch|w u ch|w u ek] eqn:Ep; try (left; split; reflexivity).
      destruct (closed (b s) ch); left; split; reflexivity.
    - destruct (pc x) as [o|o r|w|w u ch|w u ch|w u ek] eqn:Ep; try (left; split; reflexivity).
      destruct (ctxc x); left; split; reflexivity.
    - destruct (pc x) as [o|o r|w|w u ch|w u ch|w u ek] eqn:Ep; try (left; split; reflexivity).
      destruct (errq x) as [|[|] q]; try (left; split; reflexivity). destruct (eclosed x); left; split; reflexivity.
    - left; split; reflexivity.
    - destruct (hasch x && negb (eclosed x)); left; split; reflexivity.
    - destruct (hasch x); left; split; reflexivity.
  Qed.

  (* ---------------------------------------------------------------- *)
  (* theorems read off the invariant *)

  Theorem waiter_returns_held_and_satisfying v0 es a x w v :
    let s := run v0 es in
    nth_error (acts s) a = Some x -> pc x = WRet w v ENone -> In v (held s x) /\ cond w v = VOk.
  Proof.
    cbn. intros G Ep. destruct (run_inv v0 es) as (_ & _ & Ha). destruct (Ha _ _ G) as (_ & _ & Hp).
    rewrite Ep in Hp. exact Hp.
  Qed.

  Theorem waiter_sample_held v0 es a x w v ch :
    let s := run v0 es in
    nth_error (acts s) a = Some x -> pc x = WSampled w v ch \/ pc x = WBlocked w v ch -> In v (held s x).
  Proof.
    cbn. intros G Ep. destruct (run_inv v0 es) as (_ & _ & Ha). destruct (Ha _ _ G) as (_ & _ & Hp).
    destruct Ep as [Ep|Ep]; rewrite Ep in Hp; tauto.
  Qed.

  (* no lost wake-up: a waiter blocked on a channel that is still open sampled the current value *)
  Theorem no_lost_wakeup v0 es a x w u ch :
    let s := run v0 es in
    nth_error (acts s) a = Some x -> pc x = WBlocked w u ch ->
    cond w u = VNo /\ (closed (b s) ch = true \/ u = val s).
  Proof.
    cbn. intros G Ep. destruct (run_inv v0 es) as (_ & _ & Ha). destruct (Ha _ _ G) as (_ & _ & Hp).
    rewrite Ep in Hp. tauto.
  Qed.

  Lemma quiescent_actor s a x : quiescent s = true -> nth_error (acts s) a = Some x ->
    at_gate x = false /\
    (forall w u ch, pc x = WBlocked w u ch -> closed (b s) ch = false /\ ctxc x = false /\ err_ready x = false).
  Proof.
    unfold quiescent. rewrite forallb_forall. intros H G. specialize (H x (nth_error_In _ _ G)).
    apply andb_true_iff in H as [H1 H2]. split; [now destruct (at_gate x)|].
    intros w u ch Hp. rewrite Hp in H2. apply andb_true_iff in H2 as [H2 H4]. apply andb_true_iff in H2 as [H2 H3].
    repeat split; [now destruct (closed (b s) ch) | now destruct (ctxc x) | now destruct (err_ready x)].
  Qed.

  Theorem waiter_quiescent v0 es a x w u ch :
    let s := run v0 es in
    quiescent s = true -> nth_error (acts s) a = Some x -> pc x = WBlocked w u ch ->
    u = val s /\ cond w (val s) = VNo.
  Proof.
    cbn. intros Hq G Ep. destruct (no_lost_wakeup v0 es a x w u ch G Ep) as [Hc [Hcl|Hu]].
    - destruct (quiescent_actor _ _ _ Hq G) as [_ H]. destruct (H _ _ _ Ep) as (H1 & _). congruence.
    - subst u. now split.
  Qed.

  Theorem error_only_if_source_fired v0 es a x w v e :
    let s := run v0 es in
    nth_error (acts s) a = Some x -> pc x = WRet w v e ->
    match e with
    | ENone => True
    | ECanceled => v = 0%N /\ (ctxc x = true \/ eclosed x = true)
    | EErrCh => v = 0%N /\ esent x = true
    | EValid => v = 0%N /\ exists y, In y (held s x) /\ cond w y = VErr
    end.
  Proof.
    cbn. intros G Ep. destruct (run_inv v0 es) as (_ & _ & Ha). destruct (Ha _ _ G) as (_ & _ & Hp).
    rewrite Ep in Hp. destruct e; auto.
  Qed.
End P.

(* ------------------------------------------------------------------ *)
(* Linearizability.  Only three components matter: the content, the linearization log and the
   operation part of the actor table. *)

Definition opc (x : actor) : option (op * option N) :=
  match pc x with PGate o => Some (o, None) | PDone o r => Some (o, Some r) | _ => None end.

Lemma map_opc_set_nth l a x x' : nth_error l a = Some x -> opc x' = opc x -> map opc (set_nth l a x') = map opc l.
Proof. intros G H. rewrite map_set_nth, H. apply set_nth_same. now apply map_nth_error. Qed.

Definition dsw (y : option (op * option N)) : bool :=
  match y with Some (OSwap (FAdd 1), Some _) => true | _ => false end.

Lemma opc_done x o r : opc (set_pc x (PDone o r)) = Some (o, Some r).
Proof. reflexivity. Qed.

Lemma dsw_none o : dsw (Some (o, None)) = false.
Proof. destruct o as [|v|[|k|k|]]; try reflexivity. destruct k as [|[p|p|]]; reflexivity. Qed.

Lemma cnt_done_swap1 l : cnt done_swap1 l = cnt dsw (map opc l).
Proof.
  induction l as [|x t IH]; [reflexivity|]. cbn [map]. rewrite !cnt_cons, IH. f_equal.
  unfold done_swap1, dsw, opc. destruct (pc x) as [o|o r|w|w u ch|w u ch|w u ek]; try reflexivity.
  all: destruct o as [|v|[|k|k|]]; try reflexivity; destruct k as [|[p|p|]]; reflexivity.
Qed.

Section Lin.
  Variable eqv : N -> N -> bool.
  Notation step := (step eqv).
  Notation compare := (compare eqv).
  Notation cell_step := (cell_step eqv).
  Notation cell_fold := (cell_fold eqv).
  Notation run := (run eqv).

  (* the steps that touch the view *)
  Definition view_step (s : st) (e : ev) : bool :=
    match e with
    | Sect a => match nth_error (acts s) a with
                | Some x => match pc x with PGate _ => true | _ => false end
                | None => false
                end
    | Call _ | CallWait _ _ => true
    | _ => false
    end.

  Ltac view_same G :=
    repeat split; try reflexivity; cbn [acts with_acts]; rewrite ?(seta_eq _ _ _ _ G);
    apply (map_opc_set_nth _ _ _ _ G); unfold opc; cbn [pc set_pc];
    repeat match goal with H : pc _ = _ |- _ => rewrite H end; reflexivity.

  Lemma step_view_other s e : view_step s e = false ->
    val (step s e) = val s /\ lin (step s e) = lin s /\ map opc (acts (step s e)) = map opc (acts s).
  Proof.
    destruct e as [o|w hc|a|a|a|a|a|a|a m|a]; cbn [view_step Model.step]; try discriminate; intros Hw.
    all: destruct (nth_error (acts s) a) as [x|] eqn:G; [|auto].
    - destruct (pc x) as [o|o r|w|w u ch|w u ch|w u ek] eqn:Ep; try discriminate; auto.
      destruct (getch (b s)) as [b' ch']. cbn [val lin acts]. view_same G.
    - destruct (pc x) as [o|o r|w|w u ch|w u ch|w u ek] eqn:Ep; auto. destruct (cond eqv w u); view_same G.
    - destruct (pc x) as [o|o r|w|w u ch|w u ch|w u ek] eqn:Ep; auto. destruct (closed (b s) ch); [view_same G | auto].
    - destruct (pc x) as [o|o r|w|w u ch|w u ch|w u ek] eqn:Ep; auto. destruct (ctxc x); [view_same G | auto].
    - destruct (pc x) as [o|o r|w|w u ch|w u ch|w u ek] eqn:Ep; auto.
      destruct (errq x) as [|[|] q]; [destruct (eclosed x); [view_same G | auto] | view_same G | view_same G].
    - view_same G.
    - destruct (hasch x && negb (eclosed x)); [view_same G | auto].
    - destruct (hasch x); [view_same G | auto].
  Qed.

  (* the critical section of Get/Set/Swap is one step of the sequential cell *)
  Lemma sect_writer s a x o : nth_error (acts s) a = Some x -> pc x = PGate o ->
    val (step s (Sect a)) = fst (cell_step (val s) o) /\ lin (step s (Sect a)) = lin s ++ [(a, o)] /\
    acts (step s (Sect a)) = set_nth (acts s) a (set_pc x (PDone o (snd (cell_step (val s) o)))).
  Proof.
    intros G Ep. cbn [Model.step]. rewrite G, Ep.
    destruct o as [|v|[|k|k|]]; cbn [Model.cell_step apply_f fst snd];
      try match goal with |- context [if ?c then _ else _] => destruct c end;
      cbn [fin_keep fin_store val lin acts fst snd]; rewrite (seta_eq _ _ _ _ G); auto.
  Qed.

  Definition LInv (v0 vl : N) (ln : list (nat * op)) (ol : list (option (op * option N))) : Prop :=
    vl = cell_fold (map snd ln) v0 /\
    (forall a o r, nth_error ol a = Some (Some (o, Some r)) ->
       exists l1 l2 : list (nat * op), ln = l1 ++ (a, o) :: l2 /\ r = snd (cell_step (cell_fold (map snd l1) v0) o)) /\
    (forall a o, In (a, o) ln -> exists r, nth_error ol a = Some (Some (o, Some r))) /\
    NoDup (map fst ln).

  Definition linv v0 (s : st) : Prop := LInv v0 (val s) (lin s) (map opc (acts s)).

  Lemma linv_app v0 vl ln ol o : LInv v0 vl ln ol -> LInv v0 vl ln (ol ++ [match o with Some o' => Some (o', None) | None => None end]).
  Proof.
    intros (H1 & H2 & H3 & H4). split; [exact H1|]. split; [|split; [|exact H4]].
    - intros a o' r Hk. apply nth_error_app_inv in Hk as [Hk|Hk]; [eauto | destruct o; discriminate].
    - intros a o' Hin. destruct (H3 _ _ Hin) as [r Hr]. exists r.
      rewrite nth_error_app1; [exact Hr | eapply nth_error_nth_len; eauto].
  Qed.

  Lemma cell_fold_snoc v0 (ln : list (nat * op)) (a : nat) o : cell_fold (map snd (ln ++ [(a, o)])) v0 = fst (cell_step (cell_fold (map snd ln) v0) o).
  Proof. unfold Model.cell_fold. rewrite map_app, fold_left_app. reflexivity. Qed.

  Lemma linv_sect v0 vl ln ol a o :
    LInv v0 vl ln ol -> nth_error ol a = Some (Some (o, None)) ->
    LInv v0 (fst (cell_step vl o)) (ln ++ [(a, o)]) (set_nth ol a (Some (o, Some (snd (cell_step vl o))))).
  Proof.
    intros (H1 & H2 & H3 & H4) G. pose proof (nth_error_nth_len _ _ _ G) as Hl.
    assert (Hnot : forall o', ~ In (a, o') ln).
    { intros o' Hin. destruct (H3 _ _ Hin) as [r Hr]. congruence. }
    split; [|split; [|split]].
    - rewrite cell_fold_snoc. now rewrite <- H1.
    - intros k o' r Hk. destruct (Nat.eq_dec k a) as [->|Hne].
      + rewrite nth_error_set_nth_same in Hk by exact Hl. inversion Hk; subst o' r.
        exists ln, []. split; [reflexivity | now rewrite <- H1].
      + rewrite nth_error_set_nth_other in Hk by exact Hne. destruct (H2 _ _ _ Hk) as (l1 & l2 & E1 & E2).
        exists l1, (l2 ++ [(a, o)]). split; [rewrite E1, <- app_assoc; reflexivity | exact E2].
    - intros k o' Hin. apply in_app_iff in Hin as [Hin|[Hin|[]]].
      + destruct (H3 _ _ Hin) as [r Hr]. exists r. rewrite nth_error_set_nth_other; [exact Hr|].
        intros ->. congruence.
      + inversion Hin; subst k o'. eexists. now apply nth_error_set_nth_same.
    - rewrite map_app. apply NoDup_snoc; [exact H4|]. cbn. intros Hin. apply in_map_iff in Hin as ([k o'] & E & Hin).
      cbn in E. subst k. exact (Hnot _ Hin).
  Qed.

  Lemma opc_gate s a x o : nth_error (acts s) a = Some x -> pc x = PGate o -> nth_error (map opc (acts s)) a = Some (Some (o, None)).
  Proof. intros G Ep. rewrite (map_nth_error opc _ _ G). unfold opc. now rewrite Ep. Qed.

  Lemma step_linv v0 s e : linv v0 s -> linv v0 (step s e).
  Proof.
    intros HI. unfold linv in *. destruct (view_step s e) eqn:Ev.
    - destruct e as [o|w hc|a|a|a|a|a|a|a m|a]; cbn [view_step] in Ev; try discriminate.
      + cbn [Model.step with_acts val lin acts]. rewrite map_app. exact (linv_app _ _ _ _ (Some o) HI).
      + cbn [Model.step with_acts val lin acts]. rewrite map_app. exact (linv_app _ _ _ _ None HI).
      + destruct (nth_error (acts s) a) as [x|] eqn:G; [|discriminate].
        destruct (pc x) as [o|o r|w|w u ch|w u ch|w u ek] eqn:Ep; try discriminate.
        destruct (sect_writer s a x o G Ep) as (E1 & E2 & E3). rewrite E1, E2, E3, map_set_nth, opc_done. apply linv_sect; [exact HI | now apply (opc_gate s a x)].
    - destruct (step_view_other s e Ev) as (E1 & E2 & E3). now rewrite E1, E2, E3.
  Qed.

  Lemma init_linv v0 : linv v0 (init v0).
  Proof.
    split; [reflexivity|]. split; [intros [|a] o r H; discriminate|]. split; [intros a o []|constructor].
  Qed.

  Theorem cell_linearizable v0 es :
    let s := run v0 es in
    val s = cell_fold (map snd (lin s)) v0 /\
    NoDup (map fst (lin s)) /\
    (forall a o, In (a, o) (lin s) -> exists x r, nth_error (acts s) a = Some x /\ pc x = PDone o r) /\
    (forall a x o r, nth_error (acts s) a = Some x -> pc x = PDone o r ->
       exists l1 l2 : list (nat * op), lin s = l1 ++ (a, o) :: l2 /\ r = snd (cell_step (cell_fold (map snd l1) v0) o)).
  Proof.
    cbn. assert (H : linv v0 (run v0 es)) by (unfold Model.run; apply fold_inv; [apply step_linv | apply init_linv]).
    destruct H as (H1 & H2 & H3 & H4). split; [exact H1|]. split; [exact H4|]. split.
    - intros a o Hin. destruct (H3 _ _ Hin) as [r Hr]. rewrite nth_error_map in Hr.
      destruct (nth_error (acts (run v0 es)) a) as [x|] eqn:G; [|discriminate]. cbn in Hr. exists x, r. split; [reflexivity|].
      unfold opc in Hr. destruct (pc x); try discriminate; congruence.
    - intros a x o r G Ep. apply (H2 a o r). rewrite (map_nth_error opc _ _ G). unfold opc. now rewrite Ep.
  Qed.

  (* ---- no lost update ---- *)
  Definition JInv (v0 vl : N) (ol : list (option (op * option N))) : Prop :=
    (forall a o r, nth_error ol a = Some (Some (o, r)) -> o = OGet \/ o = OSwap (FAdd 1)) /\
    vl = (v0 + N.of_nat (cnt dsw ol))%N.

  Lemma step_jinv v0 s e :
    (forall v, eqv v (v + 1)%N = false) -> only_incr e ->
    JInv v0 (val s) (map opc (acts s)) -> JInv v0 (val (step s e)) (map opc (acts (step s e))).
  Proof.
    intros Heq He (J1 & J2). destruct (view_step s e) eqn:Ev.
    - destruct e as [o|w hc|a|a|a|a|a|a|a m|a]; cbn [view_step] in Ev; try discriminate.
      + cbn [Model.step with_acts val acts]. rewrite map_app. cbn [map]. unfold opc at 2. cbn [pc new_actor]. split.
        * intros a o' r Hk. apply nth_error_app_inv in Hk as [Hk|Hk]; [eauto|]. inversion Hk; subst o' r.
          cbn [only_incr] in He. destruct o as [|v|[|k|k|]]; try contradiction; auto.
          destruct k as [|[p|p|]]; try contradiction; auto.
        * rewrite cnt_app, cnt_cons, cnt_nil, dsw_none. cbn [b2n]. rewrite J2. lia.
      + cbn [Model.step with_acts val acts]. rewrite map_app. cbn [map]. unfold opc at 2. cbn [pc new_actor]. split.
        * intros a o' r Hk. apply nth_error_app_inv in Hk as [Hk|Hk]; [eauto | discriminate].
        * rewrite cnt_app, cnt_cons, cnt_nil. cbn [dsw b2n]. rewrite J2. lia.
      + destruct (nth_error (acts s) a) as [x|] eqn:G; [|discriminate].
        destruct (pc x) as [o|o r|w|w u ch|w u ch|w u ek] eqn:Ep; try discriminate.
        destruct (sect_writer s a x o G Ep) as (E1 & _ & E3). rewrite E1, E3, map_set_nth, opc_done. pose proof (opc_gate s a x o G Ep) as Hg.
        pose proof (nth_error_nth_len _ _ _ Hg) as Hl.
        pose proof (cnt_set_nth dsw (map opc (acts s)) a (Some (o, Some (snd (cell_step (val s) o)))) None Hl) as HC.
        rewrite (nth_error_nth _ _ None Hg), dsw_none in HC. cbn [b2n] in HC.
        split.
        * intros k o' r Hk. destruct (Nat.eq_dec k a) as [->|Hne].
          -- rewrite nth_error_set_nth_same in Hk by exact Hl. inversion Hk; subst o' r. eauto.
          -- rewrite nth_error_set_nth_other in Hk by exact Hne. eauto.
        * destruct (J1 _ _ _ Hg) as [->| ->]; cbn [Model.cell_step apply_f fst snd dsw b2n] in *.
          -- match goal with |- _ = (_ + N.of_nat ?c)%N => replace c with (cnt dsw (map opc (acts s))) by lia end. exact J2.
          -- assert (Hc : compare (val s) (val s + 1) = false).
             { unfold Model.compare. rewrite Heq. destruct (N.eqb_spec (val s) (val s + 1)); [lia | reflexivity]. }
             rewrite Hc.
             match goal with |- _ = (_ + N.of_nat ?c)%N => replace c with (S (cnt dsw (map opc (acts s)))) by lia end. lia.
    - destruct (step_view_other s e Ev) as (E1 & _ & E3). rewrite E1, E3. now split.
  Qed.

  Theorem swap_no_lost_update v0 es :
    (forall v, eqv v (v + 1)%N = false) -> Forall only_incr es ->
    val (run v0 es) = (v0 + N.of_nat (cnt done_swap1 (acts (run v0 es))))%N.
  Proof.
    intros Heq Hes. rewrite cnt_done_swap1.
    assert (H : JInv v0 (val (run v0 es)) (map opc (acts (run v0 es)))).
    { unfold Model.run.
      apply (fold_inv_ev (fun s => JInv v0 (val s) (map opc (acts s))) only_incr); [|exact Hes|].
      - intros s e He HJ. now apply step_jinv.
      - split; [intros [|a] o r H; discriminate | cbn; lia]. }
    exact (proj2 H).
  Qed.
End Lin.
