(* CContainer: codec between harness histories and model events, the eager schedule the harness
   realises, the observation vector, and the monitors of C15 on observed traces.

   Config line   [eqcode; v0]     eqcode: 0 no custom equality, 1 equal mod 2, 2 always equal,
                                  3 a <= b (not symmetric), 4 equal div 4, 5 never equal (NOT REFLEXIVE: the code's compare
                                  still treats identical values as equal), 6 a < b (not reflexive, not symmetric),
                                  7 a container built with NewCContainerVT over a pointer type whose EqualVT compares an id
                                  (the numbers of the history are the ids, 0 = nil; values are freshly allocated, so equal but
                                  not identical pointers occur: proto.IsEqualVT on them is equality of the numbers);
                                  v0 the initial value.
   Events        [1]              GetValue in a new actor
                 [2; v]           SetValue v in a new actor
                 [3; f; k]        SwapValue in a new actor; callback f: 0 nil, 1 +k, 2 constant k, 3 identity
                 [4; kind; x; y; hc]  waiter in a new actor: kind 0 WaitValue, 1 WaitValueChange old=x, 2 WaitValueEmpty,
                                  3 WaitValueWithValidator (family x, parameter y);
                                  hc = e + 2 * f + 6 * p:  e = 1: with an error channel;  f the FLAVOUR of its context: 0 plain
                                  WithCancel, 1 ends like a deadline (Err() = context.DeadlineExceeded), 2 cancelled with a cause
                                  (Err() = context.Canceled, context.Cause = another error);  p = 1: the context has ALREADY ENDED
                                  when the call is made
                 [5; i]           actor i continues from the gate it is parked at
                 [6; i]           the context of waiter i ends (in the way of its flavour)
                 [7; i; m]        error channel of waiter i: m = 0 send nil, 1 send an error, 2 close
                 [8; init; hc]    WatchChanges(ctx, init, ToWatchable(ctr), cb, errCh) in a new actor (a "watcher": events 5, 6, 7
                                  apply to it as to a waiter; 6 and 7 also while it is inside its callback); hc as in event 4
                 [9; i; r]        the callback of watcher i returns: r = 0 nil, 1 an error
   Observation   one number per actor: status + 16 * value
                 status 1 at a HoldLock entry gate, 7 at the exit gate of the sampling section, 2 blocked in the select,
                 3 returned ok (value), 4 returned context.Canceled, 5 returned the error channel's error,
                 6 returned the validator's error,
                 10 inside the WatchChanges callback (value = the callback's argument), 11 WatchChanges returned the
                 callback's error, 13 returned context.DeadlineExceeded
                 (the harness also has: 14 returned the cancellation cause of the context, 8 returned any other error, 9 panicked,
                 12 WatchChanges returned nil: the model never produces them). *)
From Util Require Import Common.Base Common.ListLemmas CContainer.Model.

Definition eq_of_code (c : N) (x y : N) : bool :=
  match c with
  | 0 => false
  | 1 => (x mod 2 =? y mod 2)
  | 2 => true
  | 3 => (x <=? y)
  | 5 => false
  | 6 => (x <? y)
  | 7 => (x =? y)
  | _ => (x / 4 =? y / 4)
  end%N.

Record hst := { eqc : N; ms : st }.

Definition hinit (cfg : list N) : hst :=
  match cfg with
  | c :: v0 :: _ => {| eqc := c; ms := init v0 |}
  | [c] => {| eqc := c; ms := init 0 |}
  | [] => {| eqc := 0; ms := init 0 |}
  end%N.

Definition swapf_of (f k : N) : option swapf :=
  match f with 0 => Some FNil | 1 => Some (FAdd k) | 2 => Some (FConst k) | 3 => Some FId | _ => None end%N.
Definition wkind_of (kind x y : N) : option wkind :=
  match kind with 0 => Some WValue | 1 => Some (WChange x) | 2 => Some WEmpty | 3 => Some (WValid x y) | _ => None end%N.

Definition code (x : actor) : N :=
  match pc x with
  | PGate _ | WGate _ => 1
  | WSampled _ _ _ => 7
  | WBlocked _ _ _ => 2
  | PDone _ r => 3 + 16 * r
  | WRet w v ENone => 3 + 16 * (match w with WEmpty => 0 | _ => v end)
  | WRet _ v ECanceled => 4 + 16 * v
  | WRet _ v EErrCh => 5 + 16 * v
  | WRet _ v EValid => 6 + 16 * v
  | WCb _ v => 10 + 16 * v
  | WRet _ v ECb => 11 + 16 * v
  | WRet _ v EDeadline => 13 + 16 * v
  end%N.

Definition obs (s : st) : list N := map code (acts s).

(* all blocked waiters whose wake channel is closed run to their next gate *)
Definition settle (eqv : N -> N -> bool) (s : st) : st :=
  fold_left (fun s a => step eqv s (Wake a)) (seq 0 (length (acts s))) s.

Definition waiting_pc (p : apc) : bool := match p with WGate _ | WBlocked _ _ _ | WCb _ _ => true | _ => false end.

(* decoded harness events *)
Inductive errm := MNil | MErr | MClose.
Inductive hev := HCall (o : op) | HWait (w : wkind) (hc : bool) (fl : cflav) (pre : bool) | HStep (a : nat) | HCancel (a : nat) | HErr (a : nat) (m : errm)
               | HCbRet (a : nat) (err : bool).

(* the context / error-channel options of a waiter call: hc = e + 2 * flavour + 6 * pre *)
Definition ctxopts (hc : N) : option (bool * cflav * bool) :=
  match hc with
  | 0 => Some (false, CPlain, false)    | 1 => Some (true, CPlain, false)
  | 2 => Some (false, CDeadline, false) | 3 => Some (true, CDeadline, false)
  | 4 => Some (false, CCause, false)    | 5 => Some (true, CCause, false)
  | 6 => Some (false, CPlain, true)     | 7 => Some (true, CPlain, true)
  | 8 => Some (false, CDeadline, true)  | 9 => Some (true, CDeadline, true)
  | 10 => Some (false, CCause, true)    | 11 => Some (true, CCause, true)
  | _ => None
  end%N.

Definition decode (e : list N) : option hev :=
  match e with
  | [1] => Some (HCall OGet)
  | [2; v] => Some (HCall (OSet v))
  | [3; f; k] => match swapf_of f k with Some g => Some (HCall (OSwap g)) | None => None end
  | [4; kind; x; y; hc] =>
    match wkind_of kind x y, ctxopts hc with
    | Some w, Some (e, fl, pre) => Some (HWait w e fl pre)
    | _, _ => None
    end
  | [5; i] => Some (HStep (N.to_nat i))
  | [6; i] => Some (HCancel (N.to_nat i))
  | [7; i; 0] => Some (HErr (N.to_nat i) MNil)
  | [7; i; 1] => Some (HErr (N.to_nat i) MErr)
  | [7; i; 2] => Some (HErr (N.to_nat i) MClose)
  | [8; cur; hc] => match ctxopts hc with Some (e, fl, pre) => Some (HWait (WWatch cur) e fl pre) | None => None end
  | [9; i; 0] => Some (HCbRet (N.to_nat i) false)
  | [9; i; 1] => Some (HCbRet (N.to_nat i) true)
  | _ => None
  end%N.

Definition hstep_ev (h : hst) (e : hev) : option (hst * list N) :=
  let s := ms h in
  let eqv := eq_of_code (eqc h) in
  let ret s' := Some ({| eqc := eqc h; ms := s' |}, obs s') in
  match e with
  | HCall o => ret (step eqv s (Call o))
  | HWait w hc fl pre =>
    let s1 := step eqv s (CallWait w hc fl) in
    ret (if pre then step eqv s1 (CancelCtx (length (acts s))) else s1)     (* the context had ended before the call *)
  | HStep a =>
    match nth_error (acts s) a with
    | Some x =>
      match pc x with
      | PGate _ => ret (settle eqv (step eqv s (Sect a)))
      | WGate _ =>
        let s1 := step eqv s (Sect a) in
        if negb (ctxc x) && negb (err_ready x) then ret s1            (* parks at the exit gate *)
        else if ctxc x && err_ready x then None                       (* two select cases ready: not produced *)
        else ret (step eqv (step eqv (step eqv s1 (Eval a)) (CancelWake a)) (ErrWake a))
      | WSampled _ _ _ => ret (step eqv (step eqv s (Eval a)) (Wake a))
      | _ => None
      end
    | None => None
    end
  | HCancel a =>
    match nth_error (acts s) a with
    | Some x =>
      if waiting_pc (pc x) && negb (ctxc x) && negb (err_ready x)
      then ret (step eqv (step eqv s (CancelCtx a)) (CancelWake a))
      else None
    | None => None
    end
  | HErr a m =>
    match nth_error (acts s) a with
    | Some x =>
      if waiting_pc (pc x) && hasch x && negb (ctxc x) && negb (eclosed x)
      then ret (step eqv (step eqv s (match m with MNil => ErrSend a false | MErr => ErrSend a true | MClose => ErrClose a end)) (ErrWake a))
      else None
    | None => None
    end
  | HCbRet a r =>
    match nth_error (acts s) a with
    | Some x => match pc x with WCb _ _ => ret (step eqv s (CbRet a r)) | _ => None end
    | None => None
    end
  end.

Definition hstep (h : hst) (e : list N) : option (hst * list N) :=
  match decode e with Some ev => hstep_ev h ev | None => None end.

(* ---------------- monitors (on the implementation's observations only) ----------------
   Clauses of property 15:
     1  a GetValue result is the content of the sequential cell at its critical section
     2  a SwapValue result is the callback applied to the content of the sequential cell at its critical section
        (no lost update; sections are the linearization points, the cell is "Set stores unless compare says equal,
        Swap applies f to the current value and stores the result unless compare says equal")
     3  a waiter returned a value the cell did not hold during the call
     4  a waiter returned a value that does not satisfy its condition (WaitValueEmpty: no held value is "empty")
     5  at a quiescent observation a waiter is blocked although the content satisfies its condition
     6  a waiter returned context.Canceled although neither its context ended with Err() = context.Canceled (a plain or
        with-cause context that was cancelled) nor its error channel was closed
     7  a waiter returned the error channel's error although none was sent
     8  a waiter returned the validator's error although the validator fails on no value held during the call
     9  a waiter returned context.DeadlineExceeded although its context did not end like a deadline (it has not ended, or
        it is not a deadline context)
     10 a waiter returned the cancellation cause of its context (context.Cause(ctx)), which is not the context's error
   (6, 9, 10: "return the context's error only if that source fired" - the error a waiter returns is the error of a
   source that fired; the context's error is ctx.Err(), which depends on how the context ended: Canceled for a plain
   or with-cause context, DeadlineExceeded for a deadline; never the cause.)
   WatchChanges: every round is a WaitValueChange(current) call, judged by the same clauses: 3 / 4 when the callback is
   observed to be entered with v (v held by the cell since the round began, i.e. since the previous callback returned or
   the call was made; v differs from current under the container's equality), 5 with the condition "differs from
   current", 6 / 7 for the error WatchChanges returns.  That the callback's own error is returned unchanged is not
   C15 text: it is compared through the correspondence only. *)
Inductive mkind := MKOp (o : op) | MKWait (w : wkind).
Record mactor := { mkd : mkind;
                   mheld : list N;      (* values the cell held since the call was made *)
                   mcanc : bool;        (* its context has ended *)
                   mfl : cflav;         (* the flavour of its context (from the call event) *)
                   mclosed : bool;      (* its error channel was closed *)
                   msent : bool }.      (* a non-nil error was sent on its error channel *)
Record mstate := { meq : N; mcur : N; mas : list mactor; mprev : list N (* the previous observation *) }.

Definition minit (cfg : list N) : mstate :=
  match cfg with
  | c :: v0 :: _ => {| meq := c; mcur := v0; mas := []; mprev := [] |}
  | [c] => {| meq := c; mcur := 0; mas := []; mprev := [] |}
  | [] => {| meq := 0; mcur := 0; mas := []; mprev := [] |}
  end%N.

Definition mnew (k : mkind) (cur : N) (fl : cflav) (canc : bool) : mactor :=
  {| mkd := k; mheld := [cur]; mcanc := canc; mfl := fl; mclosed := false; msent := false |}.

Definition upd {A} (l : list A) (i : nat) (f : A -> A) : list A :=
  match nth_error l i with Some x => set_nth l i (f x) | None => l end.

Definition memN (v : N) (l : list N) : bool := existsb (N.eqb v) l.
Definition is_ok (r : vres) : bool := match r with VOk => true | _ => false end.
Definition is_err (r : vres) : bool := match r with VErr => true | _ => false end.
Definition st_of (c : N) : N := (c mod 16)%N.
Definition val_of (c : N) : N := (c / 16)%N.

Definition set_canc (a : mactor) : mactor := {| mkd := mkd a; mheld := mheld a; mcanc := true; mfl := mfl a; mclosed := mclosed a; msent := msent a |}.
Definition set_sent (a : mactor) : mactor := {| mkd := mkd a; mheld := mheld a; mcanc := mcanc a; mfl := mfl a; mclosed := mclosed a; msent := true |}.
Definition set_closed (a : mactor) : mactor := {| mkd := mkd a; mheld := mheld a; mcanc := mcanc a; mfl := mfl a; mclosed := true; msent := msent a |}.
(* the callback of a watcher returned nil after being called with v: current := v, a new wait begins now *)
Definition next_round (v cur : N) (a : mactor) : mactor :=
  {| mkd := match mkd a with MKWait (WWatch _) => MKWait (WWatch v) | k => k end;
     mheld := [cur]; mcanc := mcanc a; mfl := mfl a; mclosed := mclosed a; msent := msent a |}.
Definition add_held (v : N) (a : mactor) : mactor :=
  {| mkd := mkd a; mheld := mheld a ++ [v]; mcanc := mcanc a; mfl := mfl a; mclosed := mclosed a; msent := msent a |}.

(* 1. the event's own effect on the bookkeeping.  A watcher observed to go from "inside the callback" to the entry
      gate when its callback returns has begun a new round (whatever the callback returned: the monitors do not
      judge what WatchChanges does with the callback's error). *)
Definition mon_event (m : mstate) (e : option hev) (o : list N) : list mactor :=
  let ml := mas m in
  match e with
  | Some (HCall o) => ml ++ [mnew (MKOp o) (mcur m) CPlain false]
  | Some (HWait w _ fl pre) => ml ++ [mnew (MKWait w) (mcur m) fl pre]
  | Some (HCancel a) => upd ml a set_canc
  | Some (HErr a MErr) => upd ml a set_sent
  | Some (HErr a MClose) => upd ml a set_closed
  | Some (HCbRet a _) =>
    match nth_error (mprev m) a, nth_error o a with
    | Some c, Some c' => if (st_of c =? 10)%N && (st_of c' =? 1)%N then upd ml a (next_round (val_of c) (mcur m)) else ml
    | _, _ => ml
    end
  | _ => ml
  end.

(* 2. the operation (if any) that is observed to go from its entry gate to "returned" at this step of its own:
      its critical section is the linearization point; (operation, observed result) *)
Definition mon_lp (m : mstate) (ml : list mactor) (e : option hev) (o : list N) : option (op * N) :=
  match e with
  | Some (HStep i) =>
    match nth_error ml i, nth_error (mprev m) i, nth_error o i with
    | Some a, Some c0, Some c =>
      match mkd a with
      | MKOp o' => if (st_of c0 =? 1)%N && (st_of c =? 3)%N then Some (o', val_of c) else None
      | MKWait _ => None
      end
    | _, _, _ => None
    end
  | _ => None
  end.

(* 3. per actor: clauses about a returned waiter (they stay true once true: the bookkeeping only grows),
      and the quiescence clause *)
Definition chk_actor (eqv : N -> N -> bool) (cur : N) (quiet : bool) (p : mactor * N) : list (nat * nat) :=
  let (a, c) := p in
  let t := st_of c in
  let v := val_of c in
  match mkd a with
  | MKOp _ => []
  | MKWait w =>
    (if (t =? 3)%N then
       match w with
       | WEmpty => if existsb (fun h => is_ok (cond eqv w h)) (mheld a) then [] else [(15, 4)]
       | _ => (if memN v (mheld a) then [] else [(15, 3)]) ++ (if is_ok (cond eqv w v) then [] else [(15, 4)])
       end
     else []) ++
    (if (t =? 10)%N then (if memN v (mheld a) then [] else [(15, 3)]) ++ (if is_ok (cond eqv w v) then [] else [(15, 4)]) else []) ++
    (if (t =? 4)%N && negb (mcanc a && negb (is_deadline (mfl a)) || mclosed a) then [(15, 6)] else []) ++
    (if (t =? 13)%N && negb (mcanc a && is_deadline (mfl a)) then [(15, 9)] else []) ++
    (if (t =? 14)%N then [(15, 10)] else []) ++
    (if (t =? 5)%N && negb (msent a) then [(15, 7)] else []) ++
    (if (t =? 6)%N && negb (existsb (fun h => is_err (cond eqv w h)) (mheld a)) then [(15, 8)] else []) ++
    (if quiet && (t =? 2)%N && is_ok (cond eqv w cur) then [(15, 5)] else [])
  end.

Definition quiet_obs (o : list N) : bool := negb (existsb (fun c => (st_of c =? 1) || (st_of c =? 7))%N o).

Definition mon_ev (m : mstate) (ev : option hev) (o : list N) : mstate * list (nat * nat) :=
  let eqv := eq_of_code (meq m) in
  let ml1 := mon_event m ev o in
  (* the sequential cell, advanced at the linearization point *)
  let lp := mon_lp m ml1 ev o in
  let cur' := match lp with Some (o', _) => fst (cell_step eqv (mcur m) o') | None => mcur m end in
  let lp_fails :=
    match lp with
    | Some (OGet, r) => if (r =? snd (cell_step eqv (mcur m) OGet))%N then [] else [(15, 1)]
    | Some (OSwap f, r) => if (r =? snd (cell_step eqv (mcur m) (OSwap f)))%N then [] else [(15, 2)]
    | _ => []
    end in
  (* a new content is held during every call *)
  let ml2 := if (cur' =? mcur m)%N then ml1 else map (add_held cur') ml1 in
  let fails := lp_fails ++ flat_map (chk_actor eqv cur' (quiet_obs o)) (combine ml2 o) in
  ({| meq := meq m; mcur := cur'; mas := ml2; mprev := o |}, fails).

Definition mon (m : mstate) (e o : list N) : mstate * list (nat * nat) := mon_ev m (decode e) o.

Definition run_check_ccontainer (cfg : list N) (evs obss : list (list N)) : list issue :=
  run_check hstep mon (hinit cfg) (minit cfg) evs obss.
