(* ccontainer.CContainer at gate granularity (C15).  No proofs in this file.

   The cell: { bcast : Broadcast; val : T; equal : func(a, b T) bool }, T = N here, 0 = the empty value.
   The custom equality is a Section variable [eqv] about which NOTHING is assumed (not reflexive,
   not symmetric, not transitive); the code's  compare a b = (a == b) || (equal != nil && equal a b).

   Actors.  Every API call is an actor (appended to [acts]):
     GetValue / SetValue v / SwapValue f   one critical section (Broadcast.HoldLock), then return;
     WaitValue / WaitValueChange old / WaitValueEmpty / WaitValueWithValidator p
        loop { section: sample (val, getWaitCh()) ; validator on the sample (outside the lock) ;
               select { ctx.Done -> ctx.Err() | errCh -> (closed: the literal context.Canceled | non-nil: that error | nil: loop) | wake -> loop } }
   The context of a waiter has a FLAVOUR ([cflav], part of the call event): plain WithCancel, ends like a deadline
   (Err() = DeadlineExceeded) or cancelled with a cause (Err() = Canceled, Cause = another error); the ctx.Done case
   returns ctx.Err(): [ECanceled] for a plain / with-cause context, [EDeadline] for a deadline-like one ([ctx_err]).
   Gates (schedule points): the entry of every critical section ([PGate], [WGate]) and, for waiters,
   the exit of the sampling section ([WSampled]: the sample is taken, validator and select not yet run),
   so that writes interleave with a waiter's sample-then-block step in every possible way.
   The wake-up of a blocked waiter is its own event (Wake / CancelWake / ErrWake): the theorems cover
   every placement of it, including "several select cases ready".

   WatchChanges(initial, ToWatchable(ctr), cb) is one more actor: its waiter kind [WWatch current] has the wait
   condition of WaitValueChange current and runs the very same steps (WGate / WSampled / WBlocked, Sect / Eval /
   Wake / CancelWake / ErrWake); where WaitValueChange would return a value v, the watcher enters the user
   callback ([WCb (WWatch current) v]: harness-owned, it parks); [CbRet a false] (callback returned nil) starts the
   next round at the entry gate with current := v, [CbRet a true] (callback returned an error) returns that error
   ([ECb]).  Context and error channel are those of the whole WatchChanges call; [start] is reset at every round
   (the WaitValueChange call of the round is made when the callback returns).

   Ghost components (never read by the behaviour): [vh] the list of all values the cell has held,
   [start] (per actor) the index in [vh] of the value held when the call was made, [lin] the operations
   in the order of their critical sections (linearization order), [esent] "a non-nil error was sent". *)
From Util Require Import Common.Base Common.ListLemmas.

(* SwapValue callbacks (coded family): nil callback, +k, constant k, identity *)
Inductive swapf := FNil | FAdd (k : N) | FConst (k : N) | FId.
Definition apply_f (f : swapf) (v : N) : N :=
  match f with FNil => v | FAdd k => (v + k)%N | FConst k => k | FId => v end.

Inductive op := OGet | OSet (v : N) | OSwap (f : swapf).
(* validators are coded by two numbers (family p, parameter k) *)
Inductive wkind := WValue | WChange (old : N) | WEmpty | WValid (p k : N)
                 | WWatch (cur : N).                 (* one round of WatchChanges: WaitValueChange cur, then the callback *)
Inductive vres := VNo | VOk | VErr.                 (* validator: (false,nil) | (true,nil) | (_, err) *)
Inductive errk := ENone | ECanceled | EErrCh | EValid | ECb     (* ECb: the WatchChanges callback's error *)
               | EDeadline.                                  (* context.DeadlineExceeded *)
(* how the caller's context ends: plain cancel | like a deadline (Err() = DeadlineExceeded) | cancelled with a cause
   (Err() = Canceled, context.Cause = the cause) *)
Inductive cflav := CPlain | CDeadline | CCause.
(* ctx.Err() of an ended context *)
Definition ctx_err (f : cflav) : errk := match f with CDeadline => EDeadline | _ => ECanceled end.
Definition is_deadline (f : cflav) : bool := match f with CDeadline => true | _ => false end.

Inductive apc :=
| PGate (o : op)                                    (* at the HoldLock entry gate *)
| PDone (o : op) (r : N)                            (* returned r (SetValue: 0) *)
| WGate (w : wkind)                                 (* waiter at the HoldLock entry gate *)
| WSampled (w : wkind) (v : N) (ch : nat)           (* left the section with (val, wake) *)
| WBlocked (w : wkind) (v : N) (ch : nat)           (* in the select *)
| WRet (w : wkind) (v : N) (e : errk)               (* returned (v, e) *)
| WCb (w : wkind) (v : N).                          (* WatchChanges: inside the user callback, called with v *)

Record actor := { pc : apc;
                  ctxc : bool;                      (* its context has ended *)
                  flav : cflav;                     (* how its context ends *)
                  hasch : bool;                     (* errCh is non-nil *)
                  errq : list bool;                 (* errors buffered in errCh (true = non-nil error) *)
                  eclosed : bool;                   (* errCh closed *)
                  esent : bool;                     (* ghost: a non-nil error has been sent on errCh *)
                  start : nat }.                    (* ghost: index in vh of the value held at call time *)

Record st := { b : bc; val : N; acts : list actor; vh : list N; lin : list (nat * op) }.

Inductive ev :=
| Call (o : op) | CallWait (w : wkind) (hc : bool) (fl : cflav)
| Sect (a : nat)                                    (* actor a runs the critical section it is parked in front of *)
| Eval (a : nat)                                    (* waiter a: validator on its sample, then enter the select or return *)
| Wake (a : nat) | CancelWake (a : nat) | ErrWake (a : nat)   (* the three select cases *)
| CancelCtx (a : nat) | ErrSend (a : nat) (m : bool) | ErrClose (a : nat)
| CbRet (a : nat) (err : bool).                     (* the callback of watcher a returns (err: a non-nil error) *)

Definition set_pc (x : actor) (p : apc) : actor :=
  {| pc := p; ctxc := ctxc x; flav := flav x; hasch := hasch x; errq := errq x; eclosed := eclosed x; esent := esent x; start := start x |}.

(* next round of a watcher: new pc, [start] := the index of the value held now *)
Definition set_pc_start (x : actor) (p : apc) (st0 : nat) : actor :=
  {| pc := p; ctxc := ctxc x; flav := flav x; hasch := hasch x; errq := errq x; eclosed := eclosed x; esent := esent x; start := st0 |}.

(* what a waiter does with a value that satisfies its condition: return it / hand it to the callback *)
Definition ok_pc (w : wkind) (v : N) : apc :=
  match w with WWatch _ => WCb w v | _ => WRet w v ENone end.

Definition new_actor (p : apc) (hc : bool) (fl : cflav) (st0 : nat) : actor :=
  {| pc := p; ctxc := false; flav := fl; hasch := hc; errq := []; eclosed := false; esent := false; start := st0 |}.

Section Model.
  Variable eqv : N -> N -> bool.

  Definition compare (x y : N) : bool := N.eqb x y || eqv x y.

  Definition validator (p k v : N) : vres :=
    match p with
    | 0 => if compare v 0 then VNo else VOk          (* nil validator: ok = !compare(val, empty) *)
    | 1 => if (k <=? v) then VOk else VNo
    | 2 => if N.odd v then VOk else VNo
    | 3 => if (v =? k) then VErr else if (k <? v) then VOk else VNo
    | _ => if (v =? k) then VErr else VOk            (* (true, err) at k: the error wins *)
    end%N.

  (* the wait condition, with the argument order of the code *)
  Definition cond (w : wkind) (v : N) : vres :=
    match w with
    | WValue => if compare 0 v then VNo else VOk
    | WChange old => if compare old v then VNo else VOk
    | WEmpty => if compare 0 v then VOk else VNo
    | WValid p k => validator p k v
    | WWatch cur => if compare cur v then VNo else VOk
    end.

  Definition init (v0 : N) : st := {| b := bc0; val := v0; acts := []; vh := [v0]; lin := [] |}.

  Definition seta (s : st) (a : nat) (p : apc) : list actor :=
    match nth_error (acts s) a with
    | Some x => set_nth (acts s) a (set_pc x p)
    | None => acts s
    end.

  (* the section of Get/Set/Swap returns r without storing *)
  Definition fin_keep (s : st) (a : nat) (o : op) (r : N) : st :=
    {| b := b s; val := val s; acts := seta s a (PDone o r); vh := vh s; lin := lin s ++ [(a, o)] |}.
  (* ... stores v, broadcasts, returns r *)
  Definition fin_store (s : st) (a : nat) (o : op) (v r : N) : st :=
    {| b := bcast (b s); val := v; acts := seta s a (PDone o r); vh := vh s ++ [v]; lin := lin s ++ [(a, o)] |}.

  Definition with_acts (s : st) (l : list actor) : st :=
    {| b := b s; val := val s; acts := l; vh := vh s; lin := lin s |}.

  Definition step (s : st) (e : ev) : st :=
    match e with
    | Call o => with_acts s (acts s ++ [new_actor (PGate o) false CPlain (length (vh s) - 1)])
    | CallWait w hc fl => with_acts s (acts s ++ [new_actor (WGate w) hc fl (length (vh s) - 1)])
    | Sect a =>
      match nth_error (acts s) a with
      | None => s
      | Some x =>
        match pc x with
        | PGate OGet => fin_keep s a OGet (val s)
        | PGate (OSet v) =>
          if compare (val s) v then fin_keep s a (OSet v) 0 else fin_store s a (OSet v) v 0
        | PGate (OSwap FNil) => fin_keep s a (OSwap FNil) (val s)
        | PGate (OSwap f) =>
          let r := apply_f f (val s) in                 (* the callback runs inside the section *)
          if compare (val s) r then fin_keep s a (OSwap f) r else fin_store s a (OSwap f) r r
        | WGate w =>
          let '(b', ch) := getch (b s) in
          {| b := b'; val := val s; acts := seta s a (WSampled w (val s) ch); vh := vh s; lin := lin s |}
        | _ => s
        end
      end
    | Eval a =>
      match nth_error (acts s) a with
      | None => s
      | Some x =>
        match pc x with
        | WSampled w v ch =>
          match cond w v with
          | VErr => with_acts s (seta s a (WRet w 0 EValid))
          | VOk => with_acts s (seta s a (ok_pc w v))
          | VNo => with_acts s (seta s a (WBlocked w v ch))
          end
        | _ => s
        end
      end
    | Wake a =>
      match nth_error (acts s) a with
      | None => s
      | Some x =>
        match pc x with
        | WBlocked w v ch => if closed (b s) ch then with_acts s (seta s a (WGate w)) else s
        | _ => s
        end
      end
    | CancelWake a =>
      match nth_error (acts s) a with
      | None => s
      | Some x =>
        match pc x with
        | WBlocked w v ch => if ctxc x then with_acts s (seta s a (WRet w 0 (ctx_err (flav x)))) else s   (* ctx.Err() *)
        | _ => s
        end
      end
    | ErrWake a =>
      match nth_error (acts s) a with
      | None => s
      | Some x =>
        match pc x with
        | WBlocked w v ch =>
          match errq x with
          | true :: q =>      (* a non-nil error is received: returned *)
            with_acts s (set_nth (acts s) a {| pc := WRet w 0 EErrCh; ctxc := ctxc x; flav := flav x; hasch := hasch x; errq := q;
                                               eclosed := eclosed x; esent := esent x; start := start x |})
          | false :: q =>     (* a nil error is received and dropped: next iteration *)
            with_acts s (set_nth (acts s) a {| pc := WGate w; ctxc := ctxc x; flav := flav x; hasch := hasch x; errq := q;
                                               eclosed := eclosed x; esent := esent x; start := start x |})
          | [] => if eclosed x then with_acts s (seta s a (WRet w 0 ECanceled)) else s   (* closed: "context canceled" *)
          end
        | _ => s
        end
      end
    | CancelCtx a =>
      match nth_error (acts s) a with
      | None => s
      | Some x => with_acts s (set_nth (acts s) a {| pc := pc x; ctxc := true; flav := flav x; hasch := hasch x; errq := errq x;
                                                     eclosed := eclosed x; esent := esent x; start := start x |})
      end
    | ErrSend a m =>
      match nth_error (acts s) a with
      | None => s
      | Some x =>
        if hasch x && negb (eclosed x)
        then with_acts s (set_nth (acts s) a {| pc := pc x; ctxc := ctxc x; flav := flav x; hasch := hasch x; errq := errq x ++ [m];
                                                eclosed := eclosed x; esent := esent x || m; start := start x |})
        else s
      end
    | ErrClose a =>
      match nth_error (acts s) a with
      | None => s
      | Some x =>
        if hasch x
        then with_acts s (set_nth (acts s) a {| pc := pc x; ctxc := ctxc x; flav := flav x; hasch := hasch x; errq := errq x;
                                                eclosed := true; esent := esent x; start := start x |})
        else s
      end
    | CbRet a err =>
      match nth_error (acts s) a with
      | None => s
      | Some x =>
        match pc x with
        | WCb w v =>
          if err then with_acts s (seta s a (WRet w 0 ECb))                 (* the callback's error is returned *)
          else with_acts s (set_nth (acts s) a (set_pc_start x (WGate (WWatch v)) (length (vh s) - 1)))   (* current := v; next round *)
        | _ => s
        end
      end
    end.

  Definition run (v0 : N) (es : list ev) : st := fold_left step es (init v0).

  (* ---- the sequential cell (specification of Get/Set/Swap) ---- *)
  Definition cell_step (v : N) (o : op) : N * N :=      (* (new content, result) *)
    match o with
    | OGet => (v, v)
    | OSet x => (if compare v x then v else x, 0%N)
    | OSwap FNil => (v, v)
    | OSwap f => let r := apply_f f v in (if compare v r then v else r, r)
    end.
  Definition cell_fold (ops : list op) (v0 : N) : N := fold_left (fun v o => fst (cell_step v o)) ops v0.

  (* ---- vocabulary of the theorems ---- *)
  (* the values the cell held during the call of actor x (from the call to now) *)
  Definition held (s : st) (x : actor) : list N := skipn (start x) (vh s).

  Definition at_gate (x : actor) : bool :=
    match pc x with PGate _ | WGate _ | WSampled _ _ _ => true | _ => false end.
  Definition blocked (x : actor) : bool := match pc x with WBlocked _ _ _ => true | _ => false end.
  Definition is_watch (w : wkind) : bool := match w with WWatch _ => true | _ => false end.
  Definition err_ready (x : actor) : bool := match errq x with [] => eclosed x | _ => true end.
  (* no actor at a gate, and no blocked waiter has a ready select case *)
  Definition quiescent (s : st) : bool :=
    forallb (fun x => negb (at_gate x) &&
                      match pc x with
                      | WBlocked _ _ ch => negb (closed (b s) ch) && negb (ctxc x) && negb (err_ready x)
                      | _ => true
                      end) (acts s).

  Definition done_swap1 (x : actor) : bool :=
    match pc x with PDone (OSwap (FAdd 1)) _ => true | _ => false end.
  (* events that call only GetValue, SwapValue(+1) and waiters *)
  Definition only_incr (e : ev) : Prop :=
    match e with Call OGet => True | Call (OSwap (FAdd 1)) => True | Call _ => False | _ => True end.
End Model.
