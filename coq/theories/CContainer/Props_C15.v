(* C15 — ccontainer: atomic value cell whose waiters return exactly when satisfied.
   Statements only.  "For every number of writers and waiters, every interleaving ..., custom equality
   functions, every timing of cancellation and error-channel delivery" = for every equality function
   [eqv] (nothing is assumed about it), every initial value and every list of events of the gate-level
   model (any number of calls; critical sections, validator evaluations, the three select cases,
   context cancellations and error-channel sends/closes in any order). *)
From Util Require Import Common.Base Common.ListLemmas CContainer.Model CContainer.Spec CContainer.Proofs.

(* The critical section of GetValue / SetValue / SwapValue is one step of the sequential cell
   "Set stores unless compare says equal; Swap applies f to the current value and stores the result unless
   compare says equal (and returns the callback's result)", and it is logged in [lin] at that moment. *)
Theorem c15_section_is_cell_step : forall eqv s a x o,
  nth_error (acts s) a = Some x -> pc x = PGate o ->
  val (step eqv s (Sect a)) = fst (cell_step eqv (val s) o) /\
  lin (step eqv s (Sect a)) = lin s ++ [(a, o)] /\
  acts (step eqv s (Sect a)) = set_nth (acts s) a (set_pc x (PDone o (snd (cell_step eqv (val s) o)))).
Proof. exact sect_writer. Qed.
Print Assumptions c15_section_is_cell_step.

(* Linearizability with the sections as linearization points: in every reachable state the content is the
   fold of the sequential cell over the operations in section order, every operation is logged at most once
   and only if it has returned, and every returned operation returned exactly what the sequential cell
   returns at its position in that order. *)
Theorem c15_cell_linearizable : forall eqv v0 es,
  let s := run eqv v0 es in
  val s = cell_fold eqv (map snd (lin s)) v0 /\
  NoDup (map fst (lin s)) /\
  (forall a o, In (a, o) (lin s) -> exists x r, nth_error (acts s) a = Some x /\ pc x = PDone o r) /\
  (forall a x o r, nth_error (acts s) a = Some x -> pc x = PDone o r ->
     exists l1 l2 : list (nat * op), lin s = l1 ++ (a, o) :: l2 /\ r = snd (cell_step eqv (cell_fold eqv (map snd l1) v0) o)).
Proof. exact cell_linearizable. Qed.
Print Assumptions c15_cell_linearizable.

(* No lost update: if the equality never identifies v and v+1 (true without a custom equality), then whatever
   the interleaving of any number of SwapValue(+1), GetValue and waiter calls, the content is the initial
   value plus the number of SwapValue(+1) calls that have returned. *)
Theorem c15_swap_no_lost_update : forall eqv v0 es,
  (forall v, eqv v (v + 1)%N = false) -> Forall only_incr es ->
  val (run eqv v0 es) = (v0 + N.of_nat (cnt done_swap1 (acts (run eqv v0 es))))%N.
Proof. exact swap_no_lost_update. Qed.
Print Assumptions c15_swap_no_lost_update.

(* [vh] is exactly the sequence of contents of the cell: every step either leaves content and history alone
   or appends the new content; the last entry is the current content. *)
Theorem c15_history_is_cell_contents : forall eqv s e,
  (vh (step eqv s e) = vh s /\ val (step eqv s e) = val s) \/ vh (step eqv s e) = vh s ++ [val (step eqv s e)].
Proof. exact vh_tracks. Qed.
Print Assumptions c15_history_is_cell_contents.

(* A waiter that returns a value returns one that the cell held during the call ([held]: the contents from
   the moment of the call on) and that satisfies its wait condition. *)
Theorem c15_waiter_returns_held_and_satisfying : forall eqv v0 es a x w v,
  let s := run eqv v0 es in
  nth_error (acts s) a = Some x -> pc x = WRet w v ENone -> In v (held s x) /\ cond eqv w v = VOk.
Proof. exact waiter_returns_held_and_satisfying. Qed.
Print Assumptions c15_waiter_returns_held_and_satisfying.

(* No lost wake-up (invariant): a waiter blocked in its select found its condition false on its sample, and
   either its wake channel is already closed or its sample is still the content of the cell. *)
Theorem c15_no_lost_wakeup : forall eqv v0 es a x w u ch,
  let s := run eqv v0 es in
  nth_error (acts s) a = Some x -> pc x = WBlocked w u ch ->
  cond eqv w u = VNo /\ (closed (b s) ch = true \/ u = val s).
Proof. exact no_lost_wakeup. Qed.
Print Assumptions c15_no_lost_wakeup.

(* Hence at quiescence (nobody at a gate, no blocked waiter with a ready select case) no waiter is blocked
   while the content satisfies its condition (nor while its validator would fail). *)
Theorem c15_waiter_quiescent : forall eqv v0 es a x w u ch,
  let s := run eqv v0 es in
  quiescent s = true -> nth_error (acts s) a = Some x -> pc x = WBlocked w u ch ->
  u = val s /\ cond eqv w (val s) = VNo.
Proof. exact waiter_quiescent. Qed.
Print Assumptions c15_waiter_quiescent.

(* Errors have a source, and the error returned is THAT source's error: context.Canceled only if the context ended
   with Err() = Canceled (a plain or with-cause context, cancelled) or the error channel was closed,
   context.DeadlineExceeded only if the context is a deadline context that ended (the ctx.Done case returns
   ctx.Err()), the error channel's error only if one was sent, the validator's error only if the validator fails
   on a value held during the call; the value returned with an error is the empty value. *)
Theorem c15_error_only_if_source_fired : forall eqv v0 es a x w v e,
  let s := run eqv v0 es in
  nth_error (acts s) a = Some x -> pc x = WRet w v e ->
  match e with
  | ENone => True
  | ECanceled => v = 0%N /\ ((ctxc x = true /\ is_deadline (flav x) = false) \/ eclosed x = true)
  | EErrCh => v = 0%N /\ esent x = true
  | EValid => v = 0%N /\ exists y, In y (held s x) /\ cond eqv w y = VErr
  | ECb => v = 0%N /\ is_watch w = true
  | EDeadline => v = 0%N /\ ctxc x = true /\ is_deadline (flav x) = true
  end.
Proof. exact error_only_if_source_fired. Qed.
Print Assumptions c15_error_only_if_source_fired.

(* ---- WatchChanges (watchable.go): rounds of WaitValueChange(current) + user callback ---- *)

(* The shape of a round in the model: a watcher's sample is evaluated with the condition of WaitValueChange current
   (block, or enter the callback with the sample); when the callback returns nil the next round begins at the entry
   gate with current := the delivered value and [held] restarting at the present content; when it returns an error
   WatchChanges returns it. *)
Theorem c15_watch_delivery : forall eqv s a x cur v ch,
  nth_error (acts s) a = Some x -> pc x = WSampled (WWatch cur) v ch ->
  step eqv s (Eval a) =
  with_acts s (set_nth (acts s) a (set_pc x (if compare eqv cur v then WBlocked (WWatch cur) v ch else WCb (WWatch cur) v))).
Proof. exact watch_delivery. Qed.
Print Assumptions c15_watch_delivery.

Theorem c15_watch_callback_return : forall eqv s a x w v,
  nth_error (acts s) a = Some x -> pc x = WCb w v ->
  step eqv s (CbRet a false) = with_acts s (set_nth (acts s) a (set_pc_start x (WGate (WWatch v)) (length (vh s) - 1))) /\
  step eqv s (CbRet a true) = with_acts s (set_nth (acts s) a (set_pc x (WRet w 0 ECb))).
Proof. exact watch_callback_return. Qed.
Print Assumptions c15_watch_callback_return.

(* Every callback invocation: only a watcher is ever inside a callback, the value it was called with was held by the
   cell during this round's wait (since the previous callback returned, or since the call in the first round) and
   differs, under the container's equality, from the watcher's current value (the initial value, then the value
   delivered in the previous round). *)
Theorem c15_watch_callback_value : forall eqv v0 es a x w v,
  let s := run eqv v0 es in
  nth_error (acts s) a = Some x -> pc x = WCb w v ->
  exists cur, w = WWatch cur /\ In v (held s x) /\ compare eqv cur v = false.
Proof. exact watch_callback_value. Qed.
Print Assumptions c15_watch_callback_value.

(* At quiescence a watcher is not blocked in its wait while the content differs from its current value. *)
Theorem c15_watcher_quiescent : forall eqv v0 es a x cur u ch,
  let s := run eqv v0 es in
  quiescent s = true -> nth_error (acts s) a = Some x -> pc x = WBlocked (WWatch cur) u ch ->
  u = val s /\ compare eqv cur (val s) = true.
Proof. exact watcher_quiescent. Qed.
Print Assumptions c15_watcher_quiescent.

(* WatchChanges returns only an error: the context's error (Canceled / DeadlineExceeded, as the context ended) / the
   error channel's error only if that source fired (at any time during the WatchChanges call), or the callback's own
   error; never nil, never a validator error.  Nobody but a
   watcher returns a callback error. *)
Theorem c15_watcher_returns : forall eqv v0 es a x w v e,
  let s := run eqv v0 es in
  nth_error (acts s) a = Some x -> pc x = WRet w v e ->
  if is_watch w then v = 0%N /\ match e with
                               | ECanceled => (ctxc x = true /\ is_deadline (flav x) = false) \/ eclosed x = true
                               | EErrCh => esent x = true
                               | ECb => True
                               | EDeadline => ctxc x = true /\ is_deadline (flav x) = true
                               | ENone | EValid => False
                               end
  else e <> ECb.
Proof. exact watcher_returns. Qed.
Print Assumptions c15_watcher_returns.

(* The monitors are tied to the model: for every event list, running the monitors on the model's own observations
   (along the schedule-level step the correspondence replays) reports nothing; and the whole checker accepts the
   model's own run whenever every event is accepted. *)
Theorem c15_model_satisfies_monitors : forall cfg evs,
  monitor mon 0 (minit cfg) [] evs (run_obs hstep (hinit cfg) evs) = [].
Proof. exact model_satisfies_monitors. Qed.
Print Assumptions c15_model_satisfies_monitors.

Theorem c15_run_check_accepts_model : forall cfg evs,
  length (run_obs hstep (hinit cfg) evs) = length evs ->
  run_check_ccontainer cfg evs (run_obs hstep (hinit cfg) evs) = [].
Proof. exact run_check_accepts_model. Qed.
Print Assumptions c15_run_check_accepts_model.

(* ---- non-vacuity ---- *)
Definition noeq : N -> N -> bool := eq_of_code 0.

(* the hypothesis of c15_swap_no_lost_update holds without a custom equality *)
Example c15_example_noeq_distinguishes_succ : forall v, noeq v (v + 1)%N = false.
Proof. reflexivity. Qed.

(* three SwapValue(+1) and a SetValue whose sections run in another order than the calls; a final GetValue *)
Example c15_example_swaps :
  let s := run noeq 0 [Call (OSwap (FAdd 1)); Call (OSwap (FAdd 1)); Call (OSet 7); Call (OSwap (FAdd 1));
                       Sect 3; Sect 0; Sect 2; Sect 1; Call OGet; Sect 4] in
  val s = 8%N /\ map pc (acts s) = [PDone (OSwap (FAdd 1)) 2; PDone (OSwap (FAdd 1)) 8; PDone (OSet 7) 0;
                                     PDone (OSwap (FAdd 1)) 1; PDone OGet 8]
  /\ lin s = [(3, OSwap (FAdd 1)); (0, OSwap (FAdd 1)); (2, OSet 7); (1, OSwap (FAdd 1)); (4, OGet)].
Proof. vm_compute. repeat split; reflexivity. Qed.

(* a write lands between a waiter's sample and its select: the waiter is not lost, it samples again and returns;
   another waiter stays blocked at quiescence, its condition being false *)
Example c15_example_waiters :
  let s := run noeq 0 [CallWait WValue false CPlain; CallWait (WChange 5) false CPlain; Sect 0; Call (OSet 5); Sect 2; Eval 0; Wake 0;
                       Sect 0; Eval 0; Sect 1; Eval 1] in
  map pc (acts s) = [WRet WValue 5 ENone; WBlocked (WChange 5) 5 1; PDone (OSet 5) 0] /\ quiescent s = true.
Proof. vm_compute. split; reflexivity. Qed.

(* equality mod 2: SetValue 3 on content 1 is not stored and wakes nobody; SwapValue returns the callback's result
   although it is not stored *)
Example c15_example_custom_equality :
  let s := run (eq_of_code 1) 1 [CallWait (WChange 1) true CPlain; Sect 0; Eval 0; Call (OSet 3); Sect 1; Wake 0;
                                 Call (OSwap (FConst 5)); Sect 2; ErrClose 0; ErrWake 0] in
  val s = 1%N /\ map pc (acts s) = [WRet (WChange 1) 0 ECanceled; PDone (OSet 3) 0; PDone (OSwap (FConst 5)) 5].
Proof. vm_compute. split; reflexivity. Qed.

(* WatchChanges(initial = 0) on a cell holding 0: blocks; SetValue 5 wakes it, the callback is entered with 5; it
   returns nil, the next round (current = 5) blocks at quiescence; SetValue 6: callback with 6, which fails *)
Example c15_example_watch :
  let s1 := run noeq 0 [CallWait (WWatch 0) false CPlain; Sect 0; Eval 0; Call (OSet 5); Sect 1; Wake 0; Sect 0; Eval 0] in
  let s2 := fold_left (step noeq) [CbRet 0 false; Sect 0; Eval 0] s1 in
  let s3 := fold_left (step noeq) [Call (OSet 6); Sect 2; Wake 0; Sect 0; Eval 0; CbRet 0 true] s2 in
  map pc (acts s1) = [WCb (WWatch 0) 5; PDone (OSet 5) 0] /\
  map pc (acts s2) = [WBlocked (WWatch 5) 5 1; PDone (OSet 5) 0] /\ quiescent s2 = true /\
  map (held s2) (acts s2) = [[5]; [0; 5]]%N /\
  map pc (acts s3) = [WRet (WWatch 5) 0 ECb; PDone (OSet 5) 0; PDone (OSet 6) 0].
Proof. vm_compute. repeat split; reflexivity. Qed.

(* initial value unequal to the cell: the callback is entered at once with the content; equality mod 2: a write of
   an "equal" value is not stored and not delivered *)
Example c15_example_watch_custom_equality :
  let s := run (eq_of_code 1) 3 [CallWait (WWatch 0) true CPlain; Sect 0; Eval 0; CbRet 0 false; Call (OSet 5); Sect 1; Sect 0; Eval 0] in
  val s = 3%N /\ map pc (acts s) = [WBlocked (WWatch 3) 3 0; PDone (OSet 5) 0].
Proof. vm_compute. split; reflexivity. Qed.

(* the monitors accept a correct observed trace of a watcher and reject a second delivery of the same value
   (clause 4: the delivered value does not differ from current) and a value never held (clause 3) *)
Example c15_example_monitor_accepts_watch :
  run_check_ccontainer [0; 0]%N
    [[8; 0; 0]; [5; 0]; [5; 0]; [2; 5]; [5; 1]; [5; 0]; [5; 0]; [9; 0; 0]; [5; 0]; [5; 0]; [2; 6]; [5; 2]; [5; 0]; [5; 0]; [9; 0; 1]]%N
    [[1]; [7]; [2]; [2; 1]; [1; 3]; [7; 3]; [90; 3]; [1; 3]; [7; 3]; [2; 3]; [2; 3; 1]; [1; 3; 3]; [7; 3; 3]; [106; 3; 3]; [11; 3; 3]]%N = [].
Proof. vm_compute. reflexivity. Qed.
Example c15_example_monitor_rejects_repeated_delivery :
  existsb (fun i => match i with PropFalse 15 4 9 => true | _ => false end)
    (run_check_ccontainer [0; 0]%N
       [[8; 0; 0]; [5; 0]; [5; 0]; [2; 5]; [5; 1]; [5; 0]; [5; 0]; [9; 0; 0]; [5; 0]; [5; 0]]%N
       [[1]; [7]; [2]; [2; 1]; [1; 3]; [7; 3]; [90; 3]; [1; 3]; [7; 3]; [90; 3]]%N) = true.
Proof. vm_compute. reflexivity. Qed.
Example c15_example_monitor_rejects_undelivered_unheld :
  existsb (fun i => match i with PropFalse 15 3 2 => true | _ => false end)
    (run_check_ccontainer [0; 0]%N
       [[8; 0; 0]; [5; 0]; [5; 0]]%N
       [[1]; [7]; [122]]%N) = true.
Proof. vm_compute. reflexivity. Qed.

(* the monitors accept a correct observed trace and reject a lost update (clause 2), a returned value that was
   never held (clause 3) and a waiter left blocked at quiescence (clause 5) *)
Example c15_example_monitor_accepts :
  run_check_ccontainer [0; 0]%N
    [[3; 1; 1]; [3; 1; 1]; [5; 1]; [5; 0]; [1]; [5; 2]]%N
    [[1]; [1; 1]; [1; 19]; [35; 19]; [35; 19; 1]; [35; 19; 35]]%N = [].
Proof. vm_compute. reflexivity. Qed.
Example c15_example_monitor_rejects_lost_update :
  existsb (fun i => match i with PropFalse 15 2 3 => true | _ => false end)
    (run_check_ccontainer [0; 0]%N
       [[3; 1; 1]; [3; 1; 1]; [5; 1]; [5; 0]]%N
       [[1]; [1; 1]; [1; 19]; [19; 19]]%N) = true.
Proof. vm_compute. reflexivity. Qed.
Example c15_example_monitor_rejects_unheld_value :
  existsb (fun i => match i with PropFalse 15 3 4 => true | _ => false end)
    (run_check_ccontainer [0; 0]%N
       [[4; 0; 0; 0; 0]; [2; 5]; [5; 1]; [5; 0]; [5; 0]]%N
       [[1]; [1; 1]; [1; 3]; [7; 3]; [99; 3]]%N) = true.
Proof. vm_compute. reflexivity. Qed.
Example c15_example_monitor_rejects_blocked_at_quiescence :
  existsb (fun i => match i with PropFalse 15 5 4 => true | _ => false end)
    (run_check_ccontainer [0; 0]%N
       [[4; 0; 0; 0; 0]; [5; 0]; [5; 0]; [2; 5]; [5; 1]]%N
       [[1]; [7]; [2]; [2; 1]; [2; 3]]%N) = true.
Proof. vm_compute. reflexivity. Qed.

(* ---- context flavours: the ctx.Done case returns ctx.Err() ---- *)

(* a blocked waiter whose deadline-like context ends returns DeadlineExceeded; with a deadline-like context and a
   closed error channel it returns the literal Canceled; cancelled with a cause it returns Canceled (not the cause) *)
Example c15_example_ctx_flavours :
  let s := run noeq 0 [CallWait WValue false CDeadline; Sect 0; Eval 0; CancelCtx 0; CancelWake 0;
                       CallWait WValue true CDeadline; Sect 1; Eval 1; ErrClose 1; ErrWake 1;
                       CallWait WValue false CCause; Sect 2; Eval 2; CancelCtx 2; CancelWake 2] in
  map pc (acts s) = [WRet WValue 0 EDeadline; WRet WValue 0 ECanceled; WRet WValue 0 ECanceled].
Proof. vm_compute. reflexivity. Qed.

(* the same through the codec (status 13 = DeadlineExceeded, 4 = Canceled), plus a WaitValueEmpty call made with a
   deadline-like context that has ALREADY ENDED on an empty cell: it still returns (the value satisfies) *)
Example c15_example_ctx_flavours_codec :
  run_obs hstep (hinit [0; 0]%N)
    [[4; 0; 0; 0; 2]; [4; 0; 0; 0; 5]; [4; 0; 0; 0; 3]; [5; 0]; [5; 0]; [5; 1]; [5; 1]; [5; 2]; [5; 2]; [6; 0]; [6; 1]; [7; 2; 2];
     [4; 2; 0; 0; 8]; [5; 3]]%N =
    [[1]; [1; 1]; [1; 1; 1]; [7; 1; 1]; [2; 1; 1]; [2; 7; 1]; [2; 2; 1]; [2; 2; 7]; [2; 2; 2]; [13; 2; 2]; [13; 4; 2]; [13; 4; 4];
     [13; 4; 4; 1]; [13; 4; 4; 3]]%N.
Proof. vm_compute. reflexivity. Qed.

(* the monitors reject: context.Canceled from a waiter whose deadline-like context ended (clause 6: Canceled is not
   that context's error, and its error channel was not closed), DeadlineExceeded from a waiter with a plain context
   (clause 9), the cancellation cause, even from a waiter whose with-cause context was cancelled (clause 10: the context's
   error is ctx.Err() = Canceled) *)
Example c15_example_monitor_rejects_canceled_for_deadline_ctx :
  existsb (fun i => match i with PropFalse 15 6 3 => true | _ => false end)
    (run_check_ccontainer [0; 0]%N [[4; 0; 0; 0; 2]; [5; 0]; [5; 0]; [6; 0]]%N [[1]; [7]; [2]; [4]]%N) = true.
Proof. vm_compute. reflexivity. Qed.
Example c15_example_monitor_rejects_canceled_for_ended_deadline_ctx_at_call :
  existsb (fun i => match i with PropFalse 15 6 0 => true | _ => false end)
    (run_check_ccontainer [0; 0]%N [[4; 2; 0; 0; 9]]%N [[4]]%N) = true.
Proof. vm_compute. reflexivity. Qed.
Example c15_example_monitor_rejects_deadline_for_plain_ctx :
  existsb (fun i => match i with PropFalse 15 9 3 => true | _ => false end)
    (run_check_ccontainer [0; 0]%N [[4; 0; 0; 0; 0]; [5; 0]; [5; 0]; [6; 0]]%N [[1]; [7]; [2]; [13]]%N) = true.
Proof. vm_compute. reflexivity. Qed.
Example c15_example_monitor_rejects_cause :
  existsb (fun i => match i with PropFalse 15 10 3 => true | _ => false end)
    (run_check_ccontainer [0; 0]%N [[4; 0; 0; 0; 4]; [5; 0]; [5; 0]; [6; 0]]%N [[1]; [7]; [2]; [14]]%N) = true.
Proof. vm_compute. reflexivity. Qed.

(* ---- comparators that are not reflexive (eqcode 5 never equal, 6 a < b), NewCContainerVT (eqcode 7) ----
   compare a b = (a == b) || equal a b: identical values are equal whatever the comparator says.  Content 3:
   WaitValueChange(3) blocks; SetValue 3 is not stored and wakes nobody; SwapValue(identity) returns 3; SetValue 0
   is stored and the waiter returns 0. *)
Example c15_example_nonreflexive_comparator :
  forall c, In c [5; 6; 7]%N ->
  run_obs hstep (hinit [c; 3]%N)
    [[4; 1; 3; 0; 0]; [2; 3]; [5; 1]; [5; 0]; [5; 0]; [3; 3; 0]; [5; 2]; [2; 0]; [5; 3]; [5; 0]; [5; 0]]%N =
    [[1]; [1; 1]; [1; 3]; [7; 3]; [2; 3]; [2; 3; 1]; [2; 3; 51]; [2; 3; 51; 1]; [1; 3; 51; 3]; [7; 3; 51; 3]; [3; 3; 51; 3]]%N.
Proof. intros c [<-|[<-|[<-|[]]]]; vm_compute; reflexivity. Qed.

(* with a never-equal comparator the monitors reject a WaitValueChange(3) that returns 3 (clause 4), and a
   WaitValueEmpty left blocked at quiescence on an empty cell (clause 5) *)
Example c15_example_monitor_rejects_identical_as_changed :
  existsb (fun i => match i with PropFalse 15 4 4 => true | _ => false end)
    (run_check_ccontainer [5; 3]%N [[4; 1; 3; 0; 0]; [2; 3]; [5; 1]; [5; 0]; [5; 0]]%N [[1]; [1; 1]; [1; 3]; [7; 3]; [51; 3]]%N) = true.
Proof. vm_compute. reflexivity. Qed.
Example c15_example_monitor_rejects_empty_waiter_blocked_on_empty_cell :
  existsb (fun i => match i with PropFalse 15 5 2 => true | _ => false end)
    (run_check_ccontainer [7; 0]%N [[4; 2; 0; 0; 0]; [5; 0]; [5; 0]]%N [[1]; [7]; [2]]%N) = true.
Proof. vm_compute. reflexivity. Qed.
