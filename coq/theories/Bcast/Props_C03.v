From Util Require Import Common.Base Common.ListLemmas Bcast.Model Bcast.Spec Bcast.Proofs.
Example c03_stub : run [] = init.
Proof. reflexivity. Qed.
