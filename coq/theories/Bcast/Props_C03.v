(* C03 — broadcast: a waiter never misses a broadcast issued after it sampled the state.
   Statements only.  "For every number of waiters and broadcasters and every interleaving" = for every list of
   events of the gate-level model Bcast/Model.v: any number of HoldLock / TryHoldLock / HoldLockMaybeAsync calls
   whose callbacks run arbitrary programs of broadcast(), getWaitCh() and writes of the guarded value, any number
   of Wait calls, critical sections in any order, wake-ups and cancellations placed anywhere (in particular a
   broadcast between a waiter's predicate check and its blocking receive: the waiter is then PExit / PBlocked with
   a closed channel; and a cancellation racing with a broadcast: both Wake and CancelWake are enabled).
   Ghost fields of the model: [snb] counts broadcast() calls, [slog] lists every channel handed to a callback
   together with the broadcast count at that moment, [sdirty] = the guarded value was written since the last broadcast. *)
From Util Require Import Common.Base Common.ListLemmas Bcast.Model Bcast.Spec Bcast.Proofs.

(* ---------------- channel algebra (unconditional) ---------------- *)

(* a handed-out channel is closed exactly when a broadcast has been performed since it was handed out *)
Theorem c03_channel_closed_iff_broadcast_since : forall es c k,
  In (c, k) (slog (run es)) -> (closed (sb (run es)) c = true <-> k < snb (run es)).
Proof. exact log_closed_iff. Qed.
Print Assumptions c03_channel_closed_iff_broadcast_since.

(* a channel obtained in a critical section is closed by the first broadcast performed later (in whatever section,
   by whatever caller): as soon as the broadcast count has grown at all *)
Theorem c03_first_later_broadcast_closes : forall es es' c k,
  In (c, k) (slog (run es)) -> snb (run es) < snb (run (es ++ es')) -> closed (sb (run (es ++ es'))) c = true.
Proof. exact first_later_broadcast_closes. Qed.
Print Assumptions c03_first_later_broadcast_closes.

(* a channel obtained after the k-th broadcast stays open for as long as no further broadcast is performed *)
Theorem c03_channel_after_broadcast_open_until_next : forall es es' c k,
  In (c, k) (slog (run es)) -> snb (run (es ++ es')) = k -> closed (sb (run (es ++ es'))) c = false.
Proof. exact open_until_next_broadcast. Qed.
Print Assumptions c03_channel_after_broadcast_open_until_next.

(* a closed channel never reopens *)
Theorem c03_closed_monotone : forall es es' c,
  closed (sb (run es)) c = true -> closed (sb (run (es ++ es'))) c = true.
Proof. exact closed_monotone. Qed.
Print Assumptions c03_closed_monotone.

(* ---------------- Wait ---------------- *)

(* Wait returns nil only after its predicate returned true: the call returned in its own critical section [Sect a],
   taken in a state whose guarded value makes the predicate true, and that step left the value unchanged *)
Theorem c03_wait_nil_only_after_pred_true : forall es a x pk k slow,
  nth_error (acts (run es)) a = Some x -> ak x = KWait pk k slow -> apc x = PRet 3 ->
  exists es1 es2, es = es1 ++ Sect a :: es2 /\ evalp pk k (sg (run es1)) = PTrue /\
                  sg (run (es1 ++ [Sect a])) = sg (run es1).
Proof. exact wait_nil_history. Qed.
Print Assumptions c03_wait_nil_only_after_pred_true.

(* Wait returns exactly the predicate's error (status 10+e is "returned error number e") ... *)
Theorem c03_wait_error_passthrough : forall es a x pk k slow e,
  nth_error (acts (run es)) a = Some x -> ak x = KWait pk k slow -> apc x = PRet (10 + e) ->
  exists es1 es2, es = es1 ++ Sect a :: es2 /\ evalp pk k (sg (run es1)) = PErr e /\
                  sg (run (es1 ++ [Sect a])) = sg (run es1).
Proof. exact wait_err_history. Qed.
Print Assumptions c03_wait_error_passthrough.

(* ... and conversely the critical section of a Wait call returns what the predicate says on the guarded value:
   nil on true, the error on an error, and otherwise it does not return (unless its context is cancelled) *)
Theorem c03_wait_section_result : forall s a x pk k slow,
  nth_error (acts s) a = Some x -> ak x = KWait pk k slow -> apc x = PGate -> sheld s = false ->
  exists x', nth_error (acts (step s (Sect a))) a = Some x' /\
    match evalp pk k (sg s) with
    | PTrue => apc x' = PRet 3
    | PErr e => apc x' = PRet (10 + e)
    | PFalse => apc x' = PExit \/ apc x' = PBlocked \/ (apc x' = PRet 4 /\ acanc x = true)
    end.
Proof. exact wait_section_result. Qed.
Print Assumptions c03_wait_section_result.

(* the same along runs, as monitor clauses (3,8) / (3,9) read it on observed traces: whenever the critical section of a
   Wait call parked at its HoldLock gate runs (the mutex is free) and the predicate returns error e on the guarded
   value, the call has returned exactly that error right after this very step - there is NO premise about its context:
   a cancellation that arrived while the call was parked at the gate does not replace the predicate's error - and the
   step leaves the guarded value unchanged.  (c03_wait_error_passthrough is the converse: returned 10+e only so.) *)
Theorem c03_wait_section_error_returned_at_once : forall es a x pk k slow e,
  nth_error (acts (run es)) a = Some x -> ak x = KWait pk k slow -> apc x = PGate -> sheld (run es) = false ->
  evalp pk k (sg (run es)) = PErr e ->
  exists x', nth_error (acts (run (es ++ [Sect a]))) a = Some x' /\ apc x' = PRet (10 + e) /\
             sg (run (es ++ [Sect a])) = sg (run es).
Proof. exact wait_section_error_at_once. Qed.
Print Assumptions c03_wait_section_error_returned_at_once.

(* and with a predicate that returns true the call has returned nil right after the step (in particular it is not blocked) *)
Theorem c03_wait_section_true_returned_at_once : forall es a x pk k slow,
  nth_error (acts (run es)) a = Some x -> ak x = KWait pk k slow -> apc x = PGate -> sheld (run es) = false ->
  evalp pk k (sg (run es)) = PTrue ->
  exists x', nth_error (acts (run (es ++ [Sect a]))) a = Some x' /\ apc x' = PRet 3 /\
             sg (run (es ++ [Sect a])) = sg (run es).
Proof. exact wait_section_true_at_once. Qed.
Print Assumptions c03_wait_section_true_returned_at_once.

(* Wait returns context.Canceled only if its context was cancelled: by a cancel event for this call, or because the
   call was made with an already cancelled context *)
Theorem c03_wait_canceled_only_if_cancelled : forall es a x pk k slow,
  nth_error (acts (run es)) a = Some x -> ak x = KWait pk k slow -> apc x = PRet 4 ->
  acanc x = true /\
  (In (CancelCtx a) es \/
   exists pk' k' slow' es1 es2, es = es1 ++ CallWait pk' k' true slow' :: es2 /\ length (acts (run es1)) = a).
Proof.
  intros es a x pk k slow Hx Hk Hr. pose proof (wait_canceled_flag es a x pk k slow Hx Hk Hr) as Hc.
  split; [exact Hc | exact (cancel_provenance es a x Hx Hc)].
Qed.
Print Assumptions c03_wait_canceled_only_if_cancelled.

(* ---------------- no lost wake-up ---------------- *)

(* every actor holding a sample (channel c taken when the guarded value was v) — in particular every actor blocked
   on c, and every blocked actor has one — : c is closed, or the value is still v, or somebody wrote the value
   without broadcasting afterwards *)
Theorem c03_blocked_waiter_sampled_state : forall es a x,
  nth_error (acts (run es)) a = Some x ->
  (apc x = PBlocked \/ apc x = PExit -> exists c v, samp x = Some (c, v)) /\
  (forall c v, samp x = Some (c, v) ->
     c < nxt (sb (run es)) /\ (closed (sb (run es)) c = true \/ sg (run es) = v \/ sdirty (run es) = true)).
Proof.
  intros es a x Hx. split; [exact (blocked_has_sample es a x Hx) | intros c v; exact (blocked_sampled_state es a x c v Hx)].
Qed.
Print Assumptions c03_blocked_waiter_sampled_state.

(* under the client discipline "every callback that writes the guarded value broadcasts afterwards" (a boolean on
   the event list) the third alternative disappears *)
Theorem c03_disciplined_blocked_waiter_sampled_state : forall es a x c v,
  all_disc es = true -> nth_error (acts (run es)) a = Some x -> samp x = Some (c, v) ->
  closed (sb (run es)) c = true \/ sg (run es) = v.
Proof. exact disc_blocked_sampled_state. Qed.
Print Assumptions c03_disciplined_blocked_waiter_sampled_state.

(* "never stays blocked while the guarded state satisfies the predicate", as quiescence safety: under the discipline,
   in every reachable state in which no actor can move, a blocked Wait call's predicate is false (neither true nor an error) *)
Theorem c03_quiescent_blocked_waiter_pred_false : forall es a x pk k slow,
  all_disc es = true -> quiescent (run es) = true ->
  nth_error (acts (run es)) a = Some x -> ak x = KWait pk k slow -> apc x = PBlocked ->
  evalp pk k (sg (run es)) = PFalse.
Proof. exact quiescent_blocked_waiter_pred_false. Qed.
Print Assumptions c03_quiescent_blocked_waiter_pred_false.

(* nor is a cancelled Wait call left blocked *)
Theorem c03_quiescent_cancelled_not_blocked : forall es a x pk k slow,
  quiescent (run es) = true -> nth_error (acts (run es)) a = Some x -> ak x = KWait pk k slow -> acanc x = true ->
  apc x <> PBlocked.
Proof. exact quiescent_cancelled_not_blocked. Qed.
Print Assumptions c03_quiescent_cancelled_not_blocked.

(* ---------------- panicking callbacks ---------------- *)

(* HoldLock, TryHoldLock and HoldLockMaybeAsync release the mutex by defer: a callback that panics (OPanic in its
   program; the caller recovers) ends its critical section there.  The operations before the OPanic are performed,
   nothing after it is, the mutex is free again and the call ends with the recovered panic (13).  All theorems above
   quantify over event lists that contain such programs, in particular the quiescence theorems: no Wait call stays
   blocked behind a panicked callback. *)
Theorem c03_panicking_callback_releases_the_lock : forall s a x ops block,
  nth_error (acts s) a = Some x -> ak x = KClient ops false block -> apc x = PGate -> sheld s = false -> panics ops = true ->
  let s' := step s (Sect a) in
  sheld s' = false /\ (exists x', nth_error (acts s') a = Some x' /\ apc x' = PRet 13 /\ ak x' = ak x) /\
  sg s' = og (run_ops {| ob := sb s; og := sg s; od := sdirty s; on := snb s; ol := slog s; osamp := samp x |} (upto_panic ops)).
Proof. exact panicking_section_releases_lock. Qed.
Print Assumptions c03_panicking_callback_releases_the_lock.

(* the same for a callback that stayed inside the lock (others queued behind it meanwhile) and then panics *)
Theorem c03_panicking_holder_releases_the_lock : forall s a x ops block,
  nth_error (acts s) a = Some x -> ak x = KClient ops true block -> apc x = PHold -> panics ops = true ->
  let s' := step s (Resume a) in
  sheld s' = false /\ exists x', nth_error (acts s') a = Some x' /\ apc x' = PRet 13.
Proof. exact panicking_holder_releases_lock. Qed.
Print Assumptions c03_panicking_holder_releases_the_lock.

(* what is executed of a program: the part before its first OPanic, which contains no OPanic *)
Theorem c03_program_cut_at_first_panic : forall ops ops',
  upto_panic (ops ++ OPanic :: ops') = upto_panic ops /\ panics (upto_panic ops) = false.
Proof. intros ops ops'. split; [apply upto_panic_app | apply upto_panic_no_panic]. Qed.
Print Assumptions c03_program_cut_at_first_panic.

(* ---------------- monitors and model ---------------- *)

(* for EVERY list of harness events: on the observations the model itself produces (eager schedule of Spec.hstep; the
   run stops at the first event the model does not accept) no clause of the property-3 monitors is ever false *)
Theorem c03_model_satisfies_monitors : forall evs,
  monitor mon 0 minit [] evs (run_obs hstep init evs) = [].
Proof. exact model_satisfies_monitors. Qed.
Print Assumptions c03_model_satisfies_monitors.

(* hence the extracted checker reports nothing at all on any history that the model accepts completely *)
Theorem c03_model_run_check_clean : forall evs,
  length (run_obs hstep init evs) = length evs -> run_check_bcast [] evs (run_obs hstep init evs) = [].
Proof. exact model_run_check_clean. Qed.
Print Assumptions c03_model_run_check_clean.

(* ---------------- non-vacuity ---------------- *)

(* a channel taken, a later section broadcasts: closed; a channel taken after that: open; both logged *)
Example c03_example_channels :
  let s := run [CallClient 0 [OGet] false false; Sect 0; CallClient 0 [OSet 1; OBcast; OGet] false false; Sect 1] in
  slog s = [(0, 0); (1, 1)] /\ snb s = 1 /\ closed (sb s) 0 = true /\ closed (sb s) 1 = false.
Proof. vm_compute. repeat split; reflexivity. Qed.

(* a disciplined history reaching a quiescent state with a blocked waiter (g = 1, waiting for g >= 2) *)
Example c03_example_quiescent_blocked :
  let es := [CallWait 0 2 false false; Sect 0; CallClient 0 [OInc; OBcast] false false; Sect 1; Wake 0; Sect 0] in
  all_disc es = true /\ quiescent (run es) = true /\ cnt blocked (acts (run es)) = 1 /\ sg (run es) = 1%N.
Proof. vm_compute. repeat split; reflexivity. Qed.

(* the same waiter returns nil after a second increment; an error predicate; a cancelled waiter *)
Example c03_example_wait_results :
  let es := [CallWait 0 2 false false; CallWait 2 2 false false; CallWait 1 9 false true; Sect 0; Sect 1; Sect 2;
             CallClient 1 [OInc; OInc; OBcast] false false; Wake 0; Wake 1; Sect 0; Sect 1;
             CancelCtx 2; ExitGate 2; CancelWake 2] in
  map (fun x => code_pc (apc x)) (acts (run es)) = [3; 12; 4; 3]%N.
Proof. vm_compute. reflexivity. Qed.

(* without the discipline the invariant's third alternative is needed: a waiter blocked although its predicate holds *)
Example c03_example_undisciplined_lost_wakeup :
  let es := [CallWait 0 1 false false; Sect 0; CallClient 0 [OInc] false false; Sect 1] in
  all_disc es = false /\ quiescent (run es) = true /\ sdirty (run es) = true /\
  exists x, nth_error (acts (run es)) 0 = Some x /\ apc x = PBlocked /\ evalp 0 1 (sg (run es)) = PTrue.
Proof. vm_compute. repeat split; try reflexivity. eexists. repeat split; reflexivity. Qed.

(* the monitors accept the model's own observations on a history that exercises every event kind *)
Example c03_example_monitors_accept_model :
  let evs := [[2; 0; 2; 0; 1]; [1; 0; 1; 0; 1; 2; 0]; [3; 0]; [3; 1]; [1; 1; 0; 0; 1]; [1; 2; 0; 0; 2; 0; 1]; [6; 0]; [5; 1];
              [3; 3]; [2; 2; 2; 0; 0]; [3; 4]; [4; 0]; [3; 0]; [1; 0; 0; 1; 1]; [3; 5]; [1; 1; 0; 0; 0]]%N in
  let obss := run_obs hstep init evs in
  length obss = length evs /\ run_check_bcast [] evs obss = [].
Proof. vm_compute. split; reflexivity. Qed.

(* a Wait call parked at its gate, cancelled there, then its section runs: predicate error -> that error (not Canceled),
   true -> nil, false -> Canceled; and the uncancelled contrast *)
Example c03_example_cancelled_at_gate_then_section :
  let es := [CallWait 2 0 false false; CallWait 0 0 false false; CallWait 1 7 false false; CallWait 3 0 false false;
             CallWait 2 0 false false;
             CancelCtx 0; CancelWake 0; CancelCtx 1; CancelWake 1; CancelCtx 2; CancelWake 2; CancelCtx 3; CancelWake 3;
             Sect 0; Sect 1; Sect 2; Sect 3; Sect 4] in
  map (fun x => code_pc (apc x)) (acts (run es)) = [10; 3; 4; 10; 10]%N /\
  map acanc (acts (run es)) = [true; true; true; true; false].
Proof. vm_compute. split; reflexivity. Qed.

(* clauses (3,8) and (3,9) do fire: the same harness history with an observation in which the cancelled call reports
   context.Canceled instead of its predicate's error is flagged by the monitors (besides disagreeing with the model),
   and so is one in which a call whose predicate returned true is observed blocked *)
Example c03_example_clause8_fires :
  let evs := [[2; 2; 0; 0; 0]; [4; 0]; [3; 0]]%N in
  run_obs hstep init evs = [[0; 1; 1]; [0; 1; 1]; [0; 1; 10]]%N /\
  run_check_bcast [] evs [[0; 1; 1]; [0; 1; 1]; [0; 1; 4]]%N = [Mismatch 2 [0; 1; 10]%N [0; 1; 4]%N; PropFalse 3 8 2].
Proof. vm_compute. split; reflexivity. Qed.

Example c03_example_clause9_fires :
  let evs := [[1; 0; 0; 0; 2]; [3; 0]; [2; 0; 1; 0; 0]; [3; 1]]%N in
  run_obs hstep init evs = [[0; 1; 1]; [1; 1; 3]; [1; 2; 3; 1]; [1; 2; 3; 3]]%N /\
  run_check_bcast [] evs [[0; 1; 1]; [1; 1; 3]; [1; 2; 3; 1]; [1; 2; 3; 2]]%N =
    [Mismatch 3 [1; 2; 3; 3]%N [1; 2; 3; 2]%N; PropFalse 3 9 3].
Proof. vm_compute. split; reflexivity. Qed.

(* a TryHoldLock callback increments g, broadcasts and then panics (its last g++ is never executed); the Wait call
   queued at its gate then runs its section and returns nil.  An implementation that leaks the mutex in the panicking
   call leaves that Wait call blocked although its predicate holds: clauses (3,4) and (3,9) *)
Example c03_example_panicking_tryholdlock_then_waiter :
  let evs := [[2; 0; 1; 0; 0]; [1; 1; 0; 0; 2; 0; 99; 2]; [3; 0]]%N in
  run_obs hstep init evs = [[0; 1; 1]; [1; 2; 1; 13]; [1; 2; 3; 13]]%N /\
  run_check_bcast [] evs [[0; 1; 1]; [1; 2; 1; 13]; [1; 2; 2; 13]]%N =
    [Mismatch 2 [1; 2; 3; 13]%N [1; 2; 2; 13]%N; PropFalse 3 4 2; PropFalse 3 9 2].
Proof. vm_compute. split; reflexivity. Qed.

(* panics on all three entry points: a HoldLock callback that stays inside and panics when resumed (a HoldLockMaybeAsync
   goroutine and a refused TryHoldLock queue up meanwhile), then a HoldLockMaybeAsync fast path that panics after g++;
   HoldLockMaybeAsync with a panicking callback while the mutex is held is not an event (nobody could recover it) *)
Example c03_example_panics_on_all_entry_points :
  let evs := [[1; 0; 1; 0; 1; 3; 99; 0]; [3; 0]; [1; 2; 0; 0; 2; 0]; [1; 1; 0; 0; 99]; [5; 0]; [3; 1]; [1; 2; 0; 0; 2; 99; 0]]%N in
  let obss := run_obs hstep init evs in
  last obss [] = [2; 4; 13; 3; 5; 13; 1]%N /\ length obss = 7 /\ run_check_bcast [] evs obss = [] /\
  run_obs hstep init (firstn 2 evs ++ [[1; 2; 0; 0; 99]])%N = firstn 2 obss.
Proof. vm_compute. repeat split; reflexivity. Qed.

(* error identity: a blocked Wait call whose context ends returns context.Canceled (4); one that is observed returning
   context.DeadlineExceeded (14: e.g. ctx.Err() of a context that ended by deadline) is flagged by clause (3,2) *)
Example c03_example_wrong_error_identity_flagged :
  let evs := [[2; 0; 1; 0; 0]; [3; 0]; [4; 0]]%N in
  run_obs hstep init evs = [[0; 1; 1]; [0; 1; 2]; [0; 1; 4]]%N /\
  run_check_bcast [] evs [[0; 1; 1]; [0; 1; 2]; [0; 1; 14]]%N = [Mismatch 2 [0; 1; 4]%N [0; 1; 14]%N; PropFalse 3 2 2].
Proof. vm_compute. split; reflexivity. Qed.
