(* Broadcast (C03): codec between harness histories and model events, the eager ("settled") schedule the
   harness realises, the observation vector, and the monitors of property 3 on observed traces.

   Events   [1; mode; hold; block; ops...]  client call, mode 0 HoldLock / 1 TryHoldLock / 2 HoldLockMaybeAsync,
                                            ops: 0 broadcast(), 1 getWaitCh(), 2 g++, 3+v g := v, 99 the callback PANICS
                                            here (after having stayed inside, if hold); the caller recovers the panic.
                                            Not enabled: HoldLockMaybeAsync with a panicking callback while the mutex is
                                            held (the panic would be raised on the library's own goroutine, which nobody
                                            can recover: the process dies - in the unchanged code too)
            [2; pk; k; pre; slow]           Wait(ctx, pred pk k); pk 4 = nil callback, 5 = nil context
            [3; i] actor i runs its critical section   [4; i] cancel the context of Wait actor i
            [5; i] actor i returns from its callback (it was holding the mutex)
            [6; i] Wait actor i leaves the HoldLock exit gate (reaches its select)
   Observation  g :: #actors :: status of every actor ++ closed flag (0/1) of every channel handed to a client callback
            status 1 at a HoldLock gate, 2 blocked, 3 returned nil / done, 4 returned context.Canceled, 5 TryHoldLock false,
                   6 inside its callback holding the mutex, 7 at the exit gate, 8 argument error, 10+e predicate error e,
                   13 the client's callback panicked and the caller recovered it;
                   never produced by the model: 9 anomaly / Wait returned some other error, 14 Wait returned
                   context.DeadlineExceeded, 15 Wait returned the cause of its context (hctx.ErrCause).
            The contexts of the Wait calls are plain, deadline-like or cancelled-with-a-cause in turn (harness/hctx, chosen
            from the number of Wait calls so far); Wait returns the literal context.Canceled for all of them, so the flavour
            is not part of the event; clause 2 judges 9 / 14 / 15 *)
From Util Require Import Common.Base Common.ListLemmas Bcast.Model.

Definition dec_op (n : N) : op :=
  match n with 0 => OBcast | 1 => OGet | 2 => OInc | 99 => OPanic | _ => OSet (n - 3) end%N.

Definition settle (s : st) : st := fold_left (fun s a => step s (Wake a)) (seq 0 (length (acts s))) s.

Definition code_pc (p : pc) : N :=
  match p with PGate => 1 | PBlocked => 2 | PHold => 6 | PExit => 7 | PRet r => r end%N.

Definition obs (s : st) : list N :=
  sg s :: N.of_nat (length (acts s)) :: map (fun x => code_pc (apc x)) (acts s)
       ++ map (fun p : nat * nat => if closed (sb s) (fst p) then 1%N else 0%N) (slog s).

Definition bit (n : N) : option bool := match n with 0%N => Some false | 1%N => Some true | _ => None end.

Definition hstep (s : st) (e : list N) : option (st * list N) :=
  let ret s' := Some (s', obs s') in
  match e with
  | 1 :: mode :: hold :: block :: ops =>
    match bit hold, bit block with
    | Some h, Some bl =>
      if N.ltb mode 3 && negb (N.eqb mode 2 && bl) && negb (N.eqb mode 2 && panics (map dec_op ops) && sheld s)
      then ret (settle (step s (CallClient (N.to_nat mode) (map dec_op ops) h bl)))
      else None
    | _, _ => None
    end
  | [2; pk; k; pre; slow] =>
    match bit pre, bit slow with
    | Some p, Some sl => if N.ltb pk 6 then ret (step s (CallWait pk k p sl)) else None
    | _, _ => None
    end
  | [3; i] =>
    match nth_error (acts s) (N.to_nat i) with
    | Some x => match apc x with
                | PGate => if sheld s then None else ret (settle (step s (Sect (N.to_nat i))))
                | _ => None
                end
    | None => None
    end
  | [4; i] =>
    match nth_error (acts s) (N.to_nat i) with
    | Some x => match ak x with
                | KWait pk _ _ => if N.ltb pk 4 then ret (step (step s (CancelCtx (N.to_nat i))) (CancelWake (N.to_nat i))) else None
                | _ => None
                end
    | None => None
    end
  | [5; i] =>
    match nth_error (acts s) (N.to_nat i) with
    | Some x => match apc x with PHold => ret (settle (step s (Resume (N.to_nat i)))) | _ => None end
    | None => None
    end
  | [6; i] =>
    match nth_error (acts s) (N.to_nat i) with
    | Some x => match apc x with
                | PExit => ret (settle (step (step s (ExitGate (N.to_nat i))) (CancelWake (N.to_nat i))))
                | _ => None
                end
    | None => None
    end
  | _ => None
  end%N.

(* ---------------- monitors (on the implementation's observations only) ----------------
   clauses of property 3:
     1  Wait returned nil although its predicate is not true on the guarded value
     2  Wait returned an error other than context.Canceled (status >= 8: a predicate error 10+e, but also 9 / 14 / 15 =
        some other error / context.DeadlineExceeded / the cause of its context, e.g. from code that returns ctx.Err() or
        context.Cause(ctx) where Wait returns context.Canceled) that is not the error its predicate returns on the
        guarded value
     3  Wait returned context.Canceled although its context was never cancelled
     4  a Wait call is blocked while the guarded value satisfies its predicate (or makes it fail), and every
        write of the value since the last broadcast was followed by a broadcast
     5  a channel handed out earlier is still open after a later broadcast
     6  a channel observed closed is observed open later
     7  a channel is closed although no broadcast happened since it was handed out
     8  the critical section of a Wait call ran in this step (event [3; i] for a Wait actor last observed parked at
        its HoldLock gate; no other event evaluates a predicate: a new Wait call parks at the gate before its first
        evaluation, a woken one parks there again), its predicate returns an error e on the observed guarded value,
        and the call is not observed as "returned error e" (10+e) right after the step - whatever else is true of the
        call, in particular whether or not its context has been cancelled while it was parked
     9  the same with a predicate that returns true, and the call is observed blocked (the property text allows nil, and
        context.Canceled for a cancelled context - clauses 1 to 3 judge those -, but not to stay blocked) *)
Record mactor := { mkd : akind; mcanc : bool; mlast : N }.
Record mst := { mas : list mactor; md : bool; mexp : list bool; mflags : list N }.
Definition minit : mst := {| mas := []; md := false; mexp := []; mflags := [] |}.

Definition upd {A} (l : list A) (i : nat) (f : A -> A) : list A :=
  match nth_error l i with Some x => set_nth l i (f x) | None => l end.

Definition mon_op (de : bool * list bool) (p : op) : bool * list bool :=
  match p with
  | OBcast => (false, map (fun _ => true) (snd de))
  | OGet => (fst de, snd de ++ [false])
  | OPanic => de
  | _ => (true, snd de)
  end.

(* the operations the callback of a client really performs: those before its first OPanic *)
Definition m_ops (m : mactor) : list op := match mkd m with KClient ops _ _ => upto_panic ops | _ => [] end.
Definition m_wait (m : mactor) : option (N * N) :=
  match mkd m with KWait pk k _ => if N.ltb pk 4 then Some (pk, k) else None | _ => None end.
Definition is_true (r : pres) : bool := match r with PTrue => true | _ => false end.
Definition is_false (r : pres) : bool := match r with PFalse => true | _ => false end.
Definition is_err (r : pres) (st : N) : bool := match r with PErr e => N.eqb st (10 + e) | _ => false end.

(* 1. the event: new calls, cancellations *)
Definition mon_mas1 (m : mst) (e : list N) : list mactor :=
  match e with
  | 1 :: mode :: hold :: block :: ops =>
    mas m ++ [{| mkd := KClient (map dec_op ops) (N.eqb hold 1) (N.eqb block 1); mcanc := false; mlast := 0 |}]
  | [2; pk; k; pre; slow] => mas m ++ [{| mkd := KWait pk k (N.eqb slow 1); mcanc := N.eqb pre 1; mlast := 0 |}]
  | [4; i] => upd (mas m) (N.to_nat i) (fun x => {| mkd := mkd x; mcanc := true; mlast := mlast x |})
  | _ => mas m
  end%N.

(* 2. the client callback that ran during this step: the section of actor i on [3; i]; on a TryHoldLock /
   HoldLockMaybeAsync call the new actor's own callback unless it is observed as "false" (5) / at its gate (1) *)
Definition mon_ops_ran (mas1 : list mactor) (nold : nat) (e sts : list N) : list op :=
  match e with
  | [3; i] => match nth_error mas1 (N.to_nat i) with Some x => m_ops x | None => [] end
  | 1 :: mode :: _ :: _ :: ops =>
    if N.eqb mode 0 then []
    else match nth_error sts nold with
         | Some st => if N.eqb st 5 || N.eqb st 1 then [] else upto_panic (map dec_op ops)
         | None => []
         end
  | _ => []
  end%N.

(* 3. the clauses about Wait calls, per (actor, observed status) *)
Definition bad1 (g : N) (p : mactor * N) : bool :=
  let (x, st) := p in
  match m_wait x with
  | Some (pk, k) => N.eqb st 3 && negb (N.eqb (mlast x) 3) && negb (is_true (evalp pk k g))
  | None => false end.
Definition bad2 (g : N) (p : mactor * N) : bool :=
  let (x, st) := p in
  match m_wait x with
  | Some (pk, k) => N.leb 8 st && negb (N.eqb (mlast x) st) && negb (is_err (evalp pk k g) st)
  | None => false end.
Definition bad3 (p : mactor * N) : bool :=
  let (x, st) := p in
  match m_wait x with
  | Some _ => N.eqb st 4 && negb (N.eqb (mlast x) 4) && negb (mcanc x)
  | None => false end.
Definition bad4 (g : N) (p : mactor * N) : bool :=
  let (x, st) := p in
  match m_wait x with
  | Some (pk, k) => N.eqb st 2 && negb (is_false (evalp pk k g))
  | None => false end.
(* 4. the clauses about channels, per (expected closed, observed flag) and (previous flag, flag) *)
Definition bad5 (p : bool * N) : bool := let (ex, f) := p in ex && N.eqb f 0.
Definition bad7 (p : bool * N) : bool := let (ex, f) := p in negb ex && negb (N.eqb f 0).
Definition bad6 (p : N * N) : bool := let (f0, f1) := p in N.eqb f0 1 && negb (N.eqb f1 1).
(* 5. the predicate evaluation of this step: (Wait actor, what its predicate returns on the observed guarded value) *)
Definition mon_eval (mas1 : list mactor) (e : list N) (g : N) : option (nat * pres) :=
  match e with
  | [3; i] => match nth_error mas1 (N.to_nat i) with
              | Some x => match m_wait x with
                          | Some (pk, k) => if N.eqb (mlast x) 1 then Some (N.to_nat i, evalp pk k g) else None
                          | None => None
                          end
              | None => None
              end
  | _ => None
  end%N.
Definition bad8 (ev : option (nat * pres)) (sts : list N) : bool :=
  match ev with
  | Some (i, PErr e) => match nth_error sts i with Some st => negb (N.eqb st (10 + e)) | None => false end
  | _ => false
  end.
Definition bad9 (ev : option (nat * pres)) (sts : list N) : bool :=
  match ev with
  | Some (i, PTrue) => match nth_error sts i with Some st => N.eqb st 2 | None => false end
  | _ => false
  end.
Definition setlast (p : mactor * N) : mactor := let (x, st) := p in {| mkd := mkd x; mcanc := mcanc x; mlast := st |}.

Definition mon (m : mst) (e o : list N) : mst * list (nat * nat) :=
  let mas1 := mon_mas1 m e in
  match o with
  | g :: na :: rest =>
    let n := N.to_nat na in
    let sts := firstn n rest in
    let flags := skipn n rest in
    let pairs := combine mas1 sts in
    let de := fold_left mon_op (mon_ops_ran mas1 (length (mas m)) e sts) (md m, mexp m) in
    let ef := combine (snd de) flags in
    ({| mas := map setlast pairs; md := fst de; mexp := snd de; mflags := flags |},
     (if existsb (bad1 g) pairs then [(3, 1)] else []) ++ (if existsb (bad2 g) pairs then [(3, 2)] else []) ++
     (if existsb bad3 pairs then [(3, 3)] else []) ++
     (if negb (fst de) && existsb (bad4 g) pairs then [(3, 4)] else []) ++
     (if existsb bad5 ef then [(3, 5)] else []) ++
     (if existsb bad6 (combine (mflags m) flags) then [(3, 6)] else []) ++
     (if existsb bad7 ef then [(3, 7)] else []) ++
     (if bad8 (mon_eval mas1 e g) sts then [(3, 8)] else []) ++
     (if bad9 (mon_eval mas1 e g) sts then [(3, 9)] else []))
  | _ => ({| mas := mas1; md := md m; mexp := mexp m; mflags := mflags m |}, [])
  end.

Definition run_check_bcast (cfg : list N) (evs obss : list (list N)) : list issue :=
  run_check hstep mon init minit evs obss.
