(* Proofs about the Broadcast model (C03). *)
From Util Require Import Common.Base Common.ListLemmas Bcast.Model Bcast.Spec.

(* ------------------------------------------------------------------ *)
(* list helpers *)
Lemma set_nth_lookup {A} (l : list A) a (x' : A) k y :
  nth_error (set_nth l a x') k = Some y ->
  (k = a /\ y = x' /\ a < length l) \/ (k <> a /\ nth_error l k = Some y).
Proof.
  intros H. destruct (Nat.eq_dec k a) as [->|Hne].
  - left. assert (Hl : a < length l).
    { apply nth_error_nth_len in H. now rewrite length_set_nth in H. }
    rewrite nth_error_set_nth_same in H by exact Hl. inversion H. auto.
  - right. rewrite nth_error_set_nth_other in H by exact Hne. auto.
Qed.

Lemma getch_cur b c : cur b = Some c -> getch b = (b, c).
Proof. intros H. unfold getch. now rewrite H. Qed.

(* ------------------------------------------------------------------ *)
(* callback programs *)

(* every logged channel (c, k) was handed out when k broadcasts had happened:
   closed iff a broadcast happened since; if none happened it is still the current channel *)
Definition log_ok (b : bc) (n : nat) (l : list (nat * nat)) : Prop :=
  forall c k, In (c, k) l -> c < nxt b /\ k <= n /\ (k < n -> closed b c = true) /\ (k = n -> cur b = Some c).

(* a sample (channel c taken when the guarded value was v) *)
Definition samp_ok (b : bc) (g : N) (d : bool) (c : nat) (v : N) : Prop :=
  c < nxt b /\ (closed b c = true \/ g = v \/ d = true).

Definition OInv (P : nat -> N -> Prop) (o : ost) : Prop :=
  bc_wf (ob o) /\ log_ok (ob o) (on o) (ol o) /\
  (forall c v, P c v \/ osamp o = Some (c, v) -> samp_ok (ob o) (og o) (od o) c v).

Lemma do_op_inv P o p : OInv P o -> OInv P (do_op o p).
Proof.
  intros (Hwf & Hlog & Hs). destruct p as [| | |v0|]; cbn [do_op]; [| | | |exact (conj Hwf (conj Hlog Hs))].
  - (* broadcast *)
    split; [|split]; cbn [ob og od on ol osamp].
    + apply bcast_wf.
    + intros c k Hin. destruct (Hlog c k Hin) as (Hc & Hk & _ & _).
      split; [exact Hc|]. split; [lia|]. split; [intros _; now apply bcast_closes | intros Hk2; lia].
    + intros c v Hcv. destruct (Hs c v Hcv) as (Hc & _). split; [exact Hc|]. left. now apply bcast_closes.
  - (* getWaitCh *)
    pose proof (getch_open (ob o) Hwf) as Hopen. pose proof (getch_closed_same (ob o)) as Hsame.
    pose proof (getch_nxt_mono (ob o)) as Hmono. pose proof (getch_wf (ob o) Hwf) as Hwf2.
    pose proof (getch_cur (ob o)) as Hcur.
    destruct (getch (ob o)) as [b' c0] eqn:EG. cbn [fst] in *. destruct Hopen as (Hlt & Hop & Hc0).
    split; [|split]; cbn [ob og od on ol osamp].
    + exact Hwf2.
    + intros c k Hin. apply in_app_or in Hin as [Hin|Hin].
      * destruct (Hlog c k Hin) as (Hc & Hk & Hcl & Hcu).
        split; [lia|]. split; [exact Hk|]. split.
        -- intros Hk2. rewrite Hsame; auto.
        -- intros Hk2. specialize (Hcu Hk2). specialize (Hcur c Hcu). inversion Hcur. subst b' c0. exact Hcu.
      * destruct Hin as [Hin|[]]. inversion Hin; subst c k.
        split; [exact Hlt|]. split; [lia|]. split; [intros Hk2; lia | intros _; exact Hc0].
    + intros c v [Hp|Hp].
      * destruct (Hs c v (or_introl Hp)) as (Hc & Hd). split; [lia|].
        destruct Hd as [Hd|Hd]; [left; rewrite Hsame; auto | right; exact Hd].
      * inversion Hp; subst c v. split; [exact Hlt|]. right; left; reflexivity.
  - (* g++ *)
    split; [exact Hwf|split; [exact Hlog|]]. cbn [ob og od on ol osamp].
    intros c v Hcv. destruct (Hs c v Hcv) as (Hc & _). split; [exact Hc|]. right; right; reflexivity.
  - (* g := v *)
    split; [exact Hwf|split; [exact Hlog|]]. cbn [ob og od on ol osamp].
    intros c v Hcv. destruct (Hs c v Hcv) as (Hc & _). split; [exact Hc|]. right; right; reflexivity.
Qed.

Lemma run_ops_inv P ops o : OInv P o -> OInv P (run_ops o ops).
Proof. unfold run_ops. apply fold_inv. intros o0 p. apply do_op_inv. Qed.

(* monotone facts of a program: broadcast count, log, closed channels *)
Definition OMono (o o' : ost) : Prop :=
  on o <= on o' /\ (forall p, In p (ol o) -> In p (ol o')) /\
  (forall c, closed (ob o) c = true -> closed (ob o') c = true) /\ (bc_wf (ob o) -> bc_wf (ob o')).

Lemma do_op_mono o p : bc_wf (ob o) -> OMono o (do_op o p).
Proof.
  intros Hwf. destruct p as [| | |v0|]; cbn [do_op]; unfold OMono; [| | | |repeat split; auto].
  - cbn [ob on ol]. split; [lia|]. split; [auto|]. split; [intros c Hc; now apply closed_mono_bcast | intros _; apply bcast_wf].
  - pose proof (closed_mono_getch (ob o)) as Hcm. pose proof (getch_wf (ob o) Hwf) as Hwf2.
    destruct (getch (ob o)) as [b' c0] eqn:EG. cbn [fst] in *. cbn [ob on ol].
    split; [lia|]. split; [intros p Hp; apply in_or_app; now left|]. split; [intros c Hc; now apply Hcm | intros _; exact Hwf2].
  - cbn [ob on ol]. repeat split; auto.
  - cbn [ob on ol]. repeat split; auto.
Qed.

Lemma run_ops_mono ops o : bc_wf (ob o) -> OMono o (run_ops o ops).
Proof.
  revert o. induction ops as [|p ops IH]; intros o Hwf; cbn [run_ops fold_left].
  - unfold OMono. repeat split; auto.
  - destruct (do_op_mono o p Hwf) as (H1 & H2 & H3 & H4).
    destruct (IH (do_op o p) (H4 Hwf)) as (G1 & G2 & G3 & G4). unfold run_ops in *.
    unfold OMono. repeat split; [lia | auto | auto | auto].
Qed.

Lemma run_ops_dirty ops o : od (run_ops o ops) = ops_dirty (od o) ops.
Proof.
  revert o. induction ops as [|p ops IH]; intros o; [reflexivity|].
  cbn [run_ops ops_dirty fold_left]. unfold run_ops, ops_dirty in IH. rewrite IH. f_equal.
  destruct p; cbn [do_op op_dirty od]; try reflexivity. now destruct (getch (ob o)).
Qed.

(* ------------------------------------------------------------------ *)
(* the state invariant *)
Definition waits (p : pc) : Prop := p = PBlocked \/ p = PExit.
Definition Inv (s : st) : Prop :=
  bc_wf (sb s) /\ log_ok (sb s) (snb s) (slog s) /\
  (forall a x c v, nth_error (acts s) a = Some x -> samp x = Some (c, v) -> samp_ok (sb s) (sg s) (sdirty s) c v) /\
  (forall a x, nth_error (acts s) a = Some x -> waits (apc x) -> samp x <> None) /\
  (forall a x pk k sl, nth_error (acts s) a = Some x -> ak x = KWait pk k sl ->
       (apc x = PRet 4 -> acanc x = true) /\ (forall c v, samp x = Some (c, v) -> evalp pk k v = PFalse)).

Lemma inv_upd s a x x' h :
  Inv s -> nth_error (acts s) a = Some x ->
  ak x' = ak x -> samp x' = samp x ->
  (waits (apc x') -> samp x <> None) ->
  (forall pk k sl, ak x = KWait pk k sl -> apc x' = PRet 4 -> acanc x' = true) ->
  Inv (upd_actor s a x' h).
Proof.
  intros (Hwf & Hlog & Hs & Hb & Hw) G Hak Hsm Hbl Hc4.
  unfold upd_actor. split; [|split; [|split; [|split]]]; cbn [sb sg sdirty snb slog acts].
  - exact Hwf.
  - exact Hlog.
  - intros k y c v Hk Hy. apply set_nth_lookup in Hk as [(-> & -> & _)|(Hne & Hk)].
    + rewrite Hsm in Hy. eauto.
    + eauto.
  - intros k y Hk Hy. apply set_nth_lookup in Hk as [(-> & -> & _)|(Hne & Hk)].
    + rewrite Hsm. auto.
    + eauto.
  - intros k y pk kk sl Hk Hy. apply set_nth_lookup in Hk as [(-> & -> & _)|(Hne & Hk)].
    + rewrite Hak in Hy. destruct (Hw a x pk kk sl G Hy) as [_ H2]. split; [eauto|]. rewrite Hsm. exact H2.
    + eauto.
Qed.

Ltac nowaits := let H := fresh "Hw" in intros [H|H]; discriminate H.

Lemma inv_setpc s a x p :
  Inv s -> nth_error (acts s) a = Some x ->
  (waits p -> samp x <> None) ->
  (forall pk k sl, ak x = KWait pk k sl -> p = PRet 4 -> acanc x = true) ->
  Inv (setpc s a x p).
Proof. intros HI G H1 H2. unfold setpc. eapply inv_upd; eauto. Qed.

Lemma inv_add s x :
  Inv s -> samp x = None -> ~ waits (apc x) -> (apc x = PRet 4 -> acanc x = true) -> Inv (add_actor s x).
Proof.
  intros (Hwf & Hlog & Hs & Hb & Hw) Hsm Hnb Hc4.
  unfold add_actor. split; [|split; [|split; [|split]]]; cbn [sb sg sdirty snb slog acts].
  - exact Hwf.
  - exact Hlog.
  - intros k y c v Hk Hy. apply nth_error_app_inv in Hk as [Hk| ->]; [eauto | congruence].
  - intros k y Hk Hy. apply nth_error_app_inv in Hk as [Hk| ->]; [eauto | contradiction].
  - intros k y pk kk sl Hk Hy. apply nth_error_app_inv in Hk as [Hk| ->]; [eauto|].
    split; [exact Hc4|]. intros c v Hcv. congruence.
Qed.

Lemma do_sect_inv s a : Inv s -> Inv (do_sect s a).
Proof.
  intros HI. pose proof HI as (Hwf & Hlog & Hs & Hb & Hw). unfold do_sect.
  destruct (nth_error (acts s) a) as [x|] eqn:G; [|exact HI].
  destruct (apc x) eqn:Ep; try exact HI.
  destruct (ak x) as [ops hold block|pk kk sl] eqn:Ek.
  - (* client callback *)
    set (P := fun c v => exists k y, k <> a /\ nth_error (acts s) k = Some y /\ samp y = Some (c, v)).
    set (o0 := {| ob := sb s; og := sg s; od := sdirty s; on := snb s; ol := slog s; osamp := samp x |}).
    assert (H0 : OInv P o0).
    { split; [exact Hwf|]. split; [exact Hlog|]. cbn [ob og od on ol osamp].
      intros c v [(k & y & _ & Hk & Hy)|Hy]; eauto. }
    pose proof (run_ops_inv P (upto_panic ops) o0 H0) as (Hwf' & Hlog' & Hs').
    remember (run_ops o0 (upto_panic ops)) as o eqn:Eo. clear Eo.
    split; [|split; [|split; [|split]]]; cbn [sb sg sdirty snb slog acts].
    + exact Hwf'.
    + exact Hlog'.
    + intros k y c v Hk Hy. apply set_nth_lookup in Hk as [(-> & -> & _)|(Hne & Hk)].
      * cbn [samp] in Hy. apply Hs'. now right.
      * apply Hs'. left. exists k, y. auto.
    + intros k y Hk Hy. apply set_nth_lookup in Hk as [(-> & -> & _)|(Hne & Hk)].
      * cbn [samp apc] in *. destruct hold; [destruct Hy; discriminate|]. unfold after_section, after_client in Hy.
        destruct (panics ops); [destruct Hy; discriminate|].
        destruct block; [|destruct Hy; discriminate]. destruct (osamp o); [congruence | destruct Hy; discriminate].
      * eauto.
    + intros k y pk kk sl Hk Hy. apply set_nth_lookup in Hk as [(-> & -> & _)|(Hne & Hk)].
      * cbn [ak] in Hy. congruence.
      * eauto.
  - (* Wait: predicate evaluated under the lock *)
    destruct (evalp pk kk (sg s)) as [| |e] eqn:Ev.
    + apply inv_setpc; auto; [nowaits | intros ? ? ? _ H4; inversion H4].
    + pose proof (getch_open (sb s) Hwf) as Hopen. pose proof (getch_closed_same (sb s)) as Hsame.
      pose proof (getch_nxt_mono (sb s)) as Hmono. pose proof (getch_wf (sb s) Hwf) as Hwf2.
      pose proof (getch_cur (sb s)) as Hcur.
      destruct (getch (sb s)) as [b' c0] eqn:EG. cbn [fst] in *. destruct Hopen as (Hlt & Hop & Hc0).
      split; [|split; [|split; [|split]]]; cbn [sb sg sdirty snb slog acts].
      * exact Hwf2.
      * intros c k Hin. destruct (Hlog c k Hin) as (Hc & Hk & Hcl & Hcu).
        split; [lia|]. split; [exact Hk|]. split.
        -- intros Hk2. rewrite Hsame; auto.
        -- intros Hk2. specialize (Hcu Hk2). specialize (Hcur c Hcu). inversion Hcur. subst b' c0. exact Hcu.
      * intros k y c v Hk Hy. apply set_nth_lookup in Hk as [(-> & -> & _)|(Hne & Hk)].
        -- cbn [samp] in Hy. inversion Hy; subst c v. split; [exact Hlt|]. right; left; reflexivity.
        -- destruct (Hs k y c v Hk Hy) as (Hc & Hd). split; [lia|].
           destruct Hd as [Hd|Hd]; [left; rewrite Hsame; auto | right; exact Hd].
      * intros k y Hk Hy. apply set_nth_lookup in Hk as [(-> & -> & _)|(Hne & Hk)].
        -- cbn [samp]. discriminate.
        -- eauto.
      * intros k y pk2 kk2 sl2 Hk Hy. apply set_nth_lookup in Hk as [(-> & -> & _)|(Hne & Hk)].
        -- cbn [ak apc acanc samp] in *. inversion Hy; subst pk2 kk2 sl2. split.
           ++ destruct sl; [discriminate|]. destruct (acanc x); [reflexivity | discriminate].
           ++ intros c v Hcv. inversion Hcv; subst c v. exact Ev.
        -- eauto.
    + apply inv_setpc; auto; [nowaits|]. intros ? ? ? _ H4. exfalso. assert (H10 : (10 + e)%N = 4%N) by congruence. clear - H10. lia.
Qed.

Lemma step_inv s e : Inv s -> Inv (step s e).
Proof.
  intros HI. pose proof HI as (Hwf & Hlog & Hs & Hb & Hw).
  destruct e as [mode ops hold block|pk kk pre sl|a|a|a|a|a|a]; cbn [step].
  - (* client call *)
    assert (HA : forall p c, ~ waits p -> p <> PRet 4 -> Inv (add_actor s {| ak := KClient ops hold block; apc := p; acanc := c; samp := None |})).
    { intros p c H1 H2. apply inv_add; cbn [samp apc acanc]; auto. }
    destruct mode as [|[|mode]].
    + apply HA; [nowaits | discriminate].
    + destruct (sheld s); [apply HA; [nowaits | discriminate] | apply do_sect_inv, HA; [nowaits | discriminate]].
    + destruct (sheld s); [apply HA; [nowaits | discriminate] | apply do_sect_inv, HA; [nowaits | discriminate]].
  - (* Wait call *)
    destruct (N.leb 4 pk); [|destruct pre]; apply inv_add; cbn [samp apc acanc]; auto; try nowaits; discriminate.
  - destruct (sheld s); [exact HI | now apply do_sect_inv].
  - (* resume *)
    destruct (nth_error (acts s) a) as [x|] eqn:G; [|exact HI].
    destruct (apc x) eqn:Ep; try exact HI. destruct (ak x) as [ops hold block|pk kk sl] eqn:Ek; [|exact HI].
    eapply inv_upd; eauto; cbn [apc acanc].
    + unfold after_section, after_client. destruct (panics ops); [nowaits|].
      destruct block; [|nowaits]. destruct (samp x); [discriminate | nowaits].
    + intros pk kk sl Hk. congruence.
  - (* exit gate *)
    destruct (nth_error (acts s) a) as [x|] eqn:G; [|exact HI].
    destruct (apc x) eqn:Ep; try exact HI.
    apply inv_setpc; auto; [|discriminate].
    intros _. apply (Hb a x G). right. exact Ep.
  - (* wake *)
    destruct (nth_error (acts s) a) as [x|] eqn:G; [|exact HI].
    destruct (apc x) eqn:Ep; try exact HI. destruct (samp x) as [[c v]|] eqn:Es; [|exact HI].
    destruct (closed (sb s) c); [|exact HI].
    destruct (ak x) as [ops hold block|pk kk sl] eqn:Ek.
    + apply inv_setpc; auto; [nowaits | intros; congruence].
    + apply inv_setpc; auto; [destruct (acanc x); nowaits|].
      intros ? ? ? _ H4. destruct (acanc x); [reflexivity | discriminate].
  - (* cancel *)
    destruct (nth_error (acts s) a) as [x|] eqn:G; [|exact HI].
    destruct (ak x) as [ops hold block|pk kk sl] eqn:Ek; [exact HI|].
    eapply inv_upd; eauto.
  - (* cancel wake *)
    destruct (nth_error (acts s) a) as [x|] eqn:G; [|exact HI].
    destruct (ak x) as [ops hold block|pk kk sl] eqn:Ek; [exact HI|].
    destruct (apc x) eqn:Ep; try exact HI. destruct (acanc x) eqn:Ec; [|exact HI].
    apply inv_setpc; auto; nowaits.
Qed.

Lemma init_inv : Inv init.
Proof.
  split; [exact I|]. split; [intros c k []|]. split; [|split].
  - intros a x c v H. destruct a; discriminate.
  - intros a x H. destruct a; discriminate.
  - intros a x pk k sl H. destruct a; discriminate.
Qed.

Theorem run_inv es : Inv (run es).
Proof. unfold run. apply fold_inv; [intros s e; apply step_inv | apply init_inv]. Qed.

(* ------------------------------------------------------------------ *)
(* monotone facts along runs: broadcast count, channel log, closed channels *)
Definition Mono (s s' : st) : Prop :=
  snb s <= snb s' /\ (forall p, In p (slog s) -> In p (slog s')) /\
  (forall c, closed (sb s) c = true -> closed (sb s') c = true).

Lemma mono_same s s' : sb s' = sb s -> snb s' = snb s -> slog s' = slog s -> Mono s s'.
Proof. intros H1 H2 H3. unfold Mono. rewrite H1, H2, H3. repeat split; auto. Qed.

Lemma mono_trans s1 s2 s3 : Mono s1 s2 -> Mono s2 s3 -> Mono s1 s3.
Proof. intros (A1 & A2 & A3) (B1 & B2 & B3). split; [lia|]. split; auto. Qed.

Lemma do_sect_mono s a : bc_wf (sb s) -> Mono s (do_sect s a).
Proof.
  intros Hwf. unfold do_sect.
  destruct (nth_error (acts s) a) as [x|] eqn:G; [|now apply mono_same].
  destruct (apc x) eqn:Ep; try now apply mono_same.
  destruct (ak x) as [ops hold block|pk kk sl] eqn:Ek.
  - set (o0 := {| ob := sb s; og := sg s; od := sdirty s; on := snb s; ol := slog s; osamp := samp x |}).
    destruct (run_ops_mono (upto_panic ops) o0 Hwf) as (H1 & H2 & H3 & _).
    unfold Mono. cbn [sb snb slog]. auto.
  - destruct (evalp pk kk (sg s)) as [| |e] eqn:Ev; try now apply mono_same.
    pose proof (closed_mono_getch (sb s)) as Hcm.
    destruct (getch (sb s)) as [b' c0] eqn:EG. cbn [fst] in *.
    unfold Mono. cbn [sb snb slog]. auto.
Qed.

Lemma step_mono s e : bc_wf (sb s) -> Mono s (step s e).
Proof.
  intros Hwf. destruct e as [mode ops hold block|pk kk pre sl|a|a|a|a|a|a]; cbn [step].
  - assert (HD : forall x, Mono s (do_sect (add_actor s x) (length (acts s)))).
    { intros x. apply (do_sect_mono (add_actor s x)). exact Hwf. }
    destruct mode as [|[|mode]]; [now apply mono_same | |]; destruct (sheld s); try (now apply mono_same); apply HD.
  - destruct (N.leb 4 pk); [|destruct pre]; now apply mono_same.
  - destruct (sheld s); [now apply mono_same | now apply do_sect_mono].
  - destruct (nth_error (acts s) a) as [x|]; [|now apply mono_same].
    destruct (apc x); try now apply mono_same. destruct (ak x); now apply mono_same.
  - destruct (nth_error (acts s) a) as [x|]; [|now apply mono_same].
    destruct (apc x); now apply mono_same.
  - destruct (nth_error (acts s) a) as [x|]; [|now apply mono_same].
    destruct (apc x); try now apply mono_same. destruct (samp x) as [[c v]|]; [|now apply mono_same].
    destruct (closed (sb s) c); [|now apply mono_same]. destruct (ak x); now apply mono_same.
  - destruct (nth_error (acts s) a) as [x|]; [|now apply mono_same].
    destruct (ak x); now apply mono_same.
  - destruct (nth_error (acts s) a) as [x|]; [|now apply mono_same].
    destruct (ak x); try now apply mono_same. destruct (apc x); try now apply mono_same.
    destruct (acanc x); now apply mono_same.
Qed.

Lemma steps_mono es : forall s, Inv s -> Mono s (fold_left step es s).
Proof.
  induction es as [|e es IH]; intros s HI; cbn [fold_left]; [now apply mono_same|].
  eapply mono_trans; [apply step_mono; apply HI | apply IH, step_inv, HI].
Qed.

Lemma run_app es es' : run (es ++ es') = fold_left step es' (run es).
Proof. unfold run. apply fold_left_app. Qed.

Lemma run_mono es es' : Mono (run es) (run (es ++ es')).
Proof. rewrite run_app. apply steps_mono, run_inv. Qed.

(* ---- channel algebra ---- *)
Lemma log_closed_iff es c k :
  In (c, k) (slog (run es)) -> (closed (sb (run es)) c = true <-> k < snb (run es)).
Proof.
  intros Hin. destruct (run_inv es) as (Hwf & Hlog & _). destruct (Hlog c k Hin) as (Hc & Hk & Hcl & Hcu).
  split; [|exact Hcl]. intros Hclosed.
  destruct (Nat.eq_dec k (snb (run es))) as [He|Hne]; [|lia].
  specialize (Hcu He). unfold closed in Hclosed. rewrite Hcu, Nat.eqb_refl in Hclosed.
  rewrite andb_false_r in Hclosed. discriminate.
Qed.

Lemma first_later_broadcast_closes es es' c k :
  In (c, k) (slog (run es)) -> snb (run es) < snb (run (es ++ es')) -> closed (sb (run (es ++ es'))) c = true.
Proof.
  intros Hin Hnb. destruct (run_mono es es') as (_ & Hl & _).
  destruct (run_inv es) as (_ & Hlog & _). destruct (Hlog c k Hin) as (_ & Hk & _).
  apply (log_closed_iff (es ++ es') c k); [now apply Hl | lia].
Qed.

Lemma open_until_next_broadcast es es' c k :
  In (c, k) (slog (run es)) -> snb (run (es ++ es')) = k -> closed (sb (run (es ++ es'))) c = false.
Proof.
  intros Hin Hnb. destruct (run_mono es es') as (_ & Hl & _).
  destruct (closed (sb (run (es ++ es'))) c) eqn:E; [|reflexivity].
  apply (log_closed_iff (es ++ es') c k) in E; [lia | now apply Hl].
Qed.

Lemma closed_monotone es es' c : closed (sb (run es)) c = true -> closed (sb (run (es ++ es'))) c = true.
Proof. destruct (run_mono es es') as (_ & _ & H). apply H. Qed.

Lemma log_stamp_bounds es c k : In (c, k) (slog (run es)) -> c < nxt (sb (run es)) /\ k <= snb (run es).
Proof. intros Hin. destruct (run_inv es) as (_ & Hlog & _). destruct (Hlog c k Hin) as (Hc & Hk & _). auto. Qed.

(* ------------------------------------------------------------------ *)
(* what one step does to one actor *)
Lemma pc_eq_dec (p q : pc) : {p = q} + {p <> q}.
Proof. decide equality. apply N.eq_dec. Qed.

Lemma do_sect_actor s a k x' :
  nth_error (acts (do_sect s a)) k = Some x' ->
  exists x, nth_error (acts s) k = Some x /\ ak x' = ak x /\ acanc x' = acanc x /\ (k <> a -> x' = x).
Proof.
  unfold do_sect. intros H.
  destruct (nth_error (acts s) a) as [xa|] eqn:G; [|exists x'; auto].
  destruct (apc xa) eqn:Ep; try (exists x'; auto; fail).
  assert (HU : forall xn h, nth_error (acts (upd_actor s a xn h)) k = Some x' -> ak xn = ak xa -> acanc xn = acanc xa ->
               exists x, nth_error (acts s) k = Some x /\ ak x' = ak x /\ acanc x' = acanc x /\ (k <> a -> x' = x)).
  { intros xn h Hk H1 H2. unfold upd_actor in Hk. cbn [acts] in Hk.
    apply set_nth_lookup in Hk as [(-> & -> & _)|(Hne & Hk)]; [exists xa; repeat split; auto; congruence | exists x'; auto]. }
  destruct (ak xa) as [ops hold block|pk kk sl] eqn:Ek.
  - cbn [acts] in H. apply set_nth_lookup in H as [(-> & -> & _)|(Hne & Hk)]; [|exists x'; auto].
    exists xa. cbn [ak acanc]. repeat split; auto; congruence.
  - destruct (evalp pk kk (sg s)).
    + unfold setpc in H. eapply HU; eauto.
    + destruct (getch (sb s)) as [b' c0]. cbn [acts] in H.
      apply set_nth_lookup in H as [(-> & -> & _)|(Hne & Hk)]; [|exists x'; auto].
      exists xa. cbn [ak acanc]. repeat split; auto; congruence.
    + unfold setpc in H. eapply HU; eauto.
Qed.

Definition new_actor (e : ev) (x' : actor) : Prop :=
  match e with
  | CallClient _ ops h bl => ak x' = KClient ops h bl /\ acanc x' = false
  | CallWait pk kk pre sl => ak x' = KWait pk kk sl /\ (acanc x' = true -> pre = true) /\
                             (apc x' = PGate \/ apc x' = PRet 8 \/ apc x' = PRet 4) /\
                             (apc x' = PRet 8 -> N.leb 4 pk = true) /\ (N.leb 4 pk = false -> acanc x' = pre)
  | _ => False
  end.

Lemma add_actor_lookup s x0 k y :
  nth_error (acts (add_actor s x0)) k = Some y ->
  nth_error (acts s) k = Some y \/ (nth_error (acts s) k = None /\ y = x0).
Proof.
  unfold add_actor. cbn [acts]. intros H.
  destruct (Nat.lt_ge_cases k (length (acts s))) as [Hl|Hl].
  - left. now rewrite nth_error_app1 in H.
  - right. split; [now apply nth_error_None|].
    apply nth_error_app_inv in H as [H| ->]; [|reflexivity]. apply nth_error_nth_len in H. lia.
Qed.

Lemma step_actor s e k x' :
  nth_error (acts (step s e)) k = Some x' ->
  (exists x, nth_error (acts s) k = Some x /\ ak x' = ak x /\ (acanc x' = acanc x \/ e = CancelCtx k)) \/
  (nth_error (acts s) k = None /\ new_actor e x').
Proof.
  assert (HS : forall y, nth_error (acts s) k = Some y -> y = x' ->
            exists x, nth_error (acts s) k = Some x /\ ak x' = ak x /\ (acanc x' = acanc x \/ e = CancelCtx k)).
  { intros y Hy ->. exists x'. auto. }
  assert (HU : forall a xa xn h, nth_error (acts s) a = Some xa -> nth_error (acts (upd_actor s a xn h)) k = Some x' ->
               ak xn = ak xa -> (acanc xn = acanc xa \/ e = CancelCtx a) ->
               exists x, nth_error (acts s) k = Some x /\ ak x' = ak x /\ (acanc x' = acanc x \/ e = CancelCtx k)).
  { intros a xa xn h G Hk H1 H2. unfold upd_actor in Hk. cbn [acts] in Hk.
    apply set_nth_lookup in Hk as [(-> & -> & _)|(Hne & Hk)]; [exists xa; auto | exists x'; auto]. }
  destruct e as [mode ops hold block|pk kk pre sl|a|a|a|a|a|a]; cbn [step]; intros H.
  - (* client call *)
    assert (HA : forall p, nth_error (acts (add_actor s {| ak := KClient ops hold block; apc := p; acanc := false; samp := None |})) k = Some x' ->
                 (exists x, nth_error (acts s) k = Some x /\ ak x' = ak x /\ (acanc x' = acanc x \/ CallClient mode ops hold block = CancelCtx k)) \/
                 (nth_error (acts s) k = None /\ new_actor (CallClient mode ops hold block) x')).
    { intros p Hk. apply add_actor_lookup in Hk as [Hk|(Hk & ->)]; [left; exists x'; auto | right; cbn; auto]. }
    assert (HD : forall p, nth_error (acts (do_sect (add_actor s {| ak := KClient ops hold block; apc := p; acanc := false; samp := None |}) (length (acts s)))) k = Some x' ->
                 (exists x, nth_error (acts s) k = Some x /\ ak x' = ak x /\ (acanc x' = acanc x \/ CallClient mode ops hold block = CancelCtx k)) \/
                 (nth_error (acts s) k = None /\ new_actor (CallClient mode ops hold block) x')).
    { intros p Hk. apply do_sect_actor in Hk as (x1 & Hk & E1 & E2 & _).
      apply add_actor_lookup in Hk as [Hk|(Hk & ->)]; [left; exists x1; auto | right; cbn; auto]. }
    destruct mode as [|[|mode]]; [eapply HA; eauto | |]; destruct (sheld s); eauto.
  - (* Wait call *)
    destruct (N.leb 4 pk) eqn:E4; [|destruct pre];
      (apply add_actor_lookup in H as [H|(H & ->)]; [left; eauto | right; split; [exact H|]; cbn; repeat split; auto; try discriminate; try congruence]).
  - left. destruct (sheld s); [eauto|]. apply do_sect_actor in H as (x1 & Hk & E1 & E2 & _). exists x1. auto.
  - left. destruct (nth_error (acts s) a) as [xa|] eqn:G; [|eauto].
    destruct (apc xa); eauto. destruct (ak xa) eqn:Ek; eauto; try (eapply HU; eauto).
  - left. destruct (nth_error (acts s) a) as [xa|] eqn:G; [|eauto].
    destruct (apc xa); eauto; unfold setpc in H; try (eapply HU; eauto).
  - left. destruct (nth_error (acts s) a) as [xa|] eqn:G; [|eauto].
    destruct (apc xa); eauto. destruct (samp xa) as [[c v]|]; eauto. destruct (closed (sb s) c); eauto.
    destruct (ak xa) eqn:Ek; unfold setpc in H; try (eapply HU; eauto).
  - left. destruct (nth_error (acts s) a) as [xa|] eqn:G; [|eauto].
    destruct (ak xa) eqn:Ek; eauto; try (eapply HU; eauto).
  - left. destruct (nth_error (acts s) a) as [xa|] eqn:G; [|eauto].
    destruct (ak xa) eqn:Ek; eauto. destruct (apc xa); eauto. destruct (acanc xa); eauto;
    unfold setpc in H; try (eapply HU; eauto).
Qed.

(* ------------------------------------------------------------------ *)
(* Wait: how a call comes to return nil or a predicate error *)
Definition ret_reason (pk kk g r : N) : Prop :=
  (evalp pk kk g = PTrue /\ r = 3%N) \/ (exists e, evalp pk kk g = PErr e /\ r = (10 + e)%N).

Lemma do_sect_ret s a k x x' pk kk sl r :
  nth_error (acts s) k = Some x -> nth_error (acts (do_sect s a)) k = Some x' ->
  ak x = KWait pk kk sl -> apc x' = PRet r -> apc x <> PRet r -> r <> 4%N ->
  k = a /\ sg (do_sect s a) = sg s /\ ret_reason pk kk (sg s) r.
Proof.
  unfold do_sect. intros Hx H Hk Hr Hnr Hr4.
  destruct (nth_error (acts s) a) as [xa|] eqn:G; [|congruence].
  destruct (apc xa) eqn:Ep; try congruence.
  destruct (ak xa) as [ops hold block|pk2 kk2 sl2] eqn:Ek.
  - cbn [acts] in H. apply set_nth_lookup in H as [(-> & -> & _)|(Hne & H)]; [congruence | congruence].
  - destruct (evalp pk2 kk2 (sg s)) as [| |e] eqn:Ev.
    + unfold setpc, upd_actor in *. cbn [acts sg] in *.
      apply set_nth_lookup in H as [(-> & -> & _)|(Hne & H)]; [|congruence].
      cbn [apc] in Hr. assert (xa = x) by congruence. subst xa. rewrite Hk in Ek. inversion Ek; subst pk2 kk2 sl2.
      inversion Hr; subst r. split; [reflexivity|]. split; [reflexivity|]. left. auto.
    + destruct (getch (sb s)) as [b' c0]. cbn [acts sg] in *.
      apply set_nth_lookup in H as [(-> & -> & _)|(Hne & H)]; [|congruence].
      cbn [apc] in Hr. destruct sl2; [discriminate|]. destruct (acanc xa); [|discriminate]. inversion Hr. congruence.
    + unfold setpc, upd_actor in *. cbn [acts sg] in *.
      apply set_nth_lookup in H as [(-> & -> & _)|(Hne & H)]; [|congruence].
      cbn [apc] in Hr. assert (xa = x) by congruence. subst xa. rewrite Hk in Ek. inversion Ek; subst pk2 kk2 sl2.
      inversion Hr; subst r. split; [reflexivity|]. split; [reflexivity|]. right. exists e. auto.
Qed.

Lemma step_wait_ret s e k x x' pk kk sl r :
  nth_error (acts s) k = Some x -> nth_error (acts (step s e)) k = Some x' ->
  ak x = KWait pk kk sl -> apc x' = PRet r -> apc x <> PRet r -> r <> 4%N ->
  e = Sect k /\ sg (step s e) = sg s /\ ret_reason pk kk (sg s) r.
Proof.
  intros Hx H Hk Hr Hnr Hr4.
  assert (HU : forall a xa xn h, nth_error (acts s) a = Some xa ->
               nth_error (acts (upd_actor s a xn h)) k = Some x' ->
               (forall r0, apc xn = PRet r0 -> ak xa = KWait pk kk sl -> r0 = 4%N) -> False).
  { intros a xa xn h G Hl Hp. unfold upd_actor in Hl. cbn [acts] in Hl.
    apply set_nth_lookup in Hl as [(-> & -> & _)|(Hne & Hl)]; [|congruence].
    assert (xa = x) by congruence. subst xa. apply Hr4. eapply Hp; eauto. }
  destruct e as [mode ops hold block|pk2 kk2 pre sl2|a|a|a|a|a|a]; cbn [step] in H.
  - (* client call: the new callback is another actor *)
    exfalso.
    assert (HA : forall p, nth_error (acts (add_actor s {| ak := KClient ops hold block; apc := p; acanc := false; samp := None |})) k = Some x' -> False).
    { intros p Hl. apply add_actor_lookup in Hl as [Hl|(Hl & _)]; congruence. }
    assert (HD : forall p, nth_error (acts (do_sect (add_actor s {| ak := KClient ops hold block; apc := p; acanc := false; samp := None |}) (length (acts s)))) k = Some x' -> False).
    { intros p Hl.
      assert (Hx1 : nth_error (acts (add_actor s {| ak := KClient ops hold block; apc := p; acanc := false; samp := None |})) k = Some x).
      { unfold add_actor. cbn [acts]. rewrite nth_error_app1; [exact Hx | eapply nth_error_nth_len; eauto]. }
      destruct (do_sect_ret _ _ _ _ _ _ _ _ _ Hx1 Hl Hk Hr Hnr Hr4) as (Hka & _).
      apply nth_error_nth_len in Hx. lia. }
    destruct mode as [|[|mode]]; [eapply HA; eauto | |]; destruct (sheld s); eauto.
  - exfalso. destruct (N.leb 4 pk2); [|destruct pre]; apply add_actor_lookup in H as [H|(H & _)]; congruence.
  - destruct (sheld s) eqn:Eh; [congruence|].
    destruct (do_sect_ret _ _ _ _ _ _ _ _ _ Hx H Hk Hr Hnr Hr4) as (-> & Hg & Hrr).
    cbn [step]. rewrite Eh. auto.
  - exfalso. destruct (nth_error (acts s) a) as [xa|] eqn:G; [|congruence].
    destruct (apc xa); try congruence. destruct (ak xa) eqn:Ek; try congruence.
    eapply HU; eauto. intros r0 _ Hw. congruence.
  - exfalso. destruct (nth_error (acts s) a) as [xa|] eqn:G; [|congruence].
    destruct (apc xa); try congruence. unfold setpc in H. eapply HU; eauto. cbn [apc]. intros r0 Hp. discriminate.
  - exfalso. destruct (nth_error (acts s) a) as [xa|] eqn:G; [|congruence].
    destruct (apc xa); try congruence. destruct (samp xa) as [[c v]|]; try congruence.
    destruct (closed (sb s) c); try congruence.
    destruct (ak xa) eqn:Ek; unfold setpc in H; eapply HU; eauto; cbn [apc].
    + intros r0 _ Hw. congruence.
    + intros r0 Hp _. destruct (acanc xa); [congruence | discriminate].
  - exfalso. destruct (nth_error (acts s) a) as [xa|] eqn:G; [|congruence].
    destruct (ak xa) eqn:Ek; try congruence.
    unfold upd_actor in H. cbn [acts] in H.
    apply set_nth_lookup in H as [(-> & -> & _)|(Hne & H)]; [|congruence]. cbn [apc] in Hr. congruence.
  - exfalso. destruct (nth_error (acts s) a) as [xa|] eqn:G; [|congruence].
    destruct (ak xa) eqn:Ek; try congruence. destruct (apc xa); try congruence. destruct (acanc xa); try congruence.
    unfold setpc in H. eapply HU; eauto. cbn [apc]. intros r0 Hp _. congruence.
Qed.

Lemma run_snoc es e : run (es ++ [e]) = step (run es) e.
Proof. rewrite run_app. reflexivity. Qed.

(* a Wait call that has returned r (nil: 3, predicate error e: 10+e) did so in a step [Sect a] taken in a state whose
   guarded value made the predicate return true / that error; the step did not change the value *)
Lemma wait_ret_history es : forall a x pk kk sl r,
  nth_error (acts (run es)) a = Some x -> ak x = KWait pk kk sl -> apc x = PRet r -> (r <> 4 /\ r <> 8)%N ->
  exists es1 es2, es = es1 ++ Sect a :: es2 /\ sg (run (es1 ++ [Sect a])) = sg (run es1) /\
                  ret_reason pk kk (sg (run es1)) r.
Proof.
  induction es as [|e es IH] using rev_ind; intros a x pk kk sl r Hx Hk Hr Hrr.
  - destruct a; discriminate.
  - rewrite run_snoc in Hx. destruct (step_actor _ _ _ _ Hx) as [(x0 & Hx0 & Hak & _)|(Hnone & Hnew)].
    + rewrite Hk in Hak. symmetry in Hak.
      destruct (pc_eq_dec (apc x0) (PRet r)) as [Heq|Hne].
      * destruct (IH a x0 pk kk sl r Hx0 Hak Heq Hrr) as (es1 & es2 & -> & Hg & Hre).
        exists es1, (es2 ++ [e]). split; [now rewrite <- app_assoc | auto].
      * assert (Hr4 : r <> 4%N) by lia.
        destruct (step_wait_ret _ _ _ _ _ _ _ _ _ Hx0 Hx Hak Hr Hne Hr4) as (-> & Hg & Hre).
        exists es, []. split; [reflexivity|]. split; [now rewrite run_snoc | exact Hre].
    + exfalso. destruct e; cbn [new_actor] in Hnew; try contradiction.
      * destruct Hnew as (Hak & _). congruence.
      * destruct Hnew as (_ & _ & [Hp|[Hp|Hp]] & _); rewrite Hp in Hr; try discriminate; inversion Hr; lia.
Qed.

Lemma wait_nil_history es a x pk kk sl :
  nth_error (acts (run es)) a = Some x -> ak x = KWait pk kk sl -> apc x = PRet 3 ->
  exists es1 es2, es = es1 ++ Sect a :: es2 /\ evalp pk kk (sg (run es1)) = PTrue /\
                  sg (run (es1 ++ [Sect a])) = sg (run es1).
Proof.
  intros Hx Hk Hr. assert (Hrr : (3 <> 4 /\ 3 <> 8)%N) by lia.
  destruct (wait_ret_history es a x pk kk sl 3%N Hx Hk Hr Hrr) as (es1 & es2 & He & Hg & Hre).
  exists es1, es2. split; [exact He|]. split; [|exact Hg].
  destruct Hre as [(Hp & _)|(e & _ & Hp)]; [exact Hp | lia].
Qed.

Lemma wait_err_history es a x pk kk sl e :
  nth_error (acts (run es)) a = Some x -> ak x = KWait pk kk sl -> apc x = PRet (10 + e) ->
  exists es1 es2, es = es1 ++ Sect a :: es2 /\ evalp pk kk (sg (run es1)) = PErr e /\
                  sg (run (es1 ++ [Sect a])) = sg (run es1).
Proof.
  intros Hx Hk Hr. assert (Hrr : ((10 + e) <> 4 /\ (10 + e) <> 8)%N) by lia.
  destruct (wait_ret_history es a x pk kk sl (10 + e)%N Hx Hk Hr Hrr) as (es1 & es2 & He & Hg & Hre).
  exists es1, es2. split; [exact He|]. split; [|exact Hg].
  destruct Hre as [(_ & Hp)|(e' & Hp & He')]; [lia|]. assert (e' = e) by lia. now subst e'.
Qed.

(* and in the other direction: the section of a Wait call at its gate returns exactly what the predicate says *)
Lemma wait_section_result s a x pk kk sl :
  nth_error (acts s) a = Some x -> ak x = KWait pk kk sl -> apc x = PGate -> sheld s = false ->
  exists x', nth_error (acts (step s (Sect a))) a = Some x' /\
    match evalp pk kk (sg s) with
    | PTrue => apc x' = PRet 3
    | PErr e => apc x' = PRet (10 + e)
    | PFalse => apc x' = PExit \/ apc x' = PBlocked \/ (apc x' = PRet 4 /\ acanc x = true)
    end.
Proof.
  intros Hx Hk Hp Hh. cbn [step]. rewrite Hh. unfold do_sect. rewrite Hx, Hp, Hk.
  pose proof (nth_error_nth_len _ _ _ Hx) as Hl.
  destruct (evalp pk kk (sg s)) as [| |e].
  - unfold setpc, upd_actor. cbn [acts]. rewrite nth_error_set_nth_same by exact Hl. eexists. split; [reflexivity|]. reflexivity.
  - destruct (getch (sb s)) as [b' c0]. cbn [acts]. rewrite nth_error_set_nth_same by exact Hl. eexists. split; [reflexivity|].
    cbn [apc]. destruct sl; [auto|]. destruct (acanc x); auto.
  - unfold setpc, upd_actor. cbn [acts]. rewrite nth_error_set_nth_same by exact Hl. eexists. split; [reflexivity|]. reflexivity.
Qed.

(* the section of a Wait call only evaluates the predicate: the guarded value is unchanged *)
Lemma sect_wait_keeps_g s a x pk kk sl :
  nth_error (acts s) a = Some x -> ak x = KWait pk kk sl -> sg (step s (Sect a)) = sg s.
Proof.
  intros Hx Hk. cbn [step]. destruct (sheld s); [reflexivity|]. unfold do_sect. rewrite Hx.
  destruct (apc x); try reflexivity. rewrite Hk.
  destruct (evalp pk kk (sg s)); try reflexivity. destruct (getch (sb s)). reflexivity.
Qed.

(* along runs: when the section of a Wait call parked at its gate runs and the predicate returns an error (true), the
   call has returned that error (nil) right after this very step - cancelled context or not - and the value is unchanged *)
Lemma wait_section_error_at_once es a x pk kk sl e :
  nth_error (acts (run es)) a = Some x -> ak x = KWait pk kk sl -> apc x = PGate -> sheld (run es) = false ->
  evalp pk kk (sg (run es)) = PErr e ->
  exists x', nth_error (acts (run (es ++ [Sect a]))) a = Some x' /\ apc x' = PRet (10 + e) /\ sg (run (es ++ [Sect a])) = sg (run es).
Proof.
  intros Hx Hk Hp Hh Hev. rewrite run_snoc.
  destruct (wait_section_result _ _ _ _ _ _ Hx Hk Hp Hh) as (x' & Hx' & Hres). rewrite Hev in Hres.
  exists x'. split; [exact Hx'|]. split; [exact Hres | eapply sect_wait_keeps_g; eauto].
Qed.

Lemma wait_section_true_at_once es a x pk kk sl :
  nth_error (acts (run es)) a = Some x -> ak x = KWait pk kk sl -> apc x = PGate -> sheld (run es) = false ->
  evalp pk kk (sg (run es)) = PTrue ->
  exists x', nth_error (acts (run (es ++ [Sect a]))) a = Some x' /\ apc x' = PRet 3 /\ sg (run (es ++ [Sect a])) = sg (run es).
Proof.
  intros Hx Hk Hp Hh Hev. rewrite run_snoc.
  destruct (wait_section_result _ _ _ _ _ _ Hx Hk Hp Hh) as (x' & Hx' & Hres). rewrite Hev in Hres.
  exists x'. split; [exact Hx'|]. split; [exact Hres | eapply sect_wait_keeps_g; eauto].
Qed.

(* Canceled only if cancelled: the flag, and where the flag comes from *)
Lemma wait_canceled_flag es a x pk kk sl :
  nth_error (acts (run es)) a = Some x -> ak x = KWait pk kk sl -> apc x = PRet 4 -> acanc x = true.
Proof. intros Hx Hk Hr. destruct (run_inv es) as (_ & _ & _ & _ & Hw). now apply (Hw a x pk kk sl Hx Hk). Qed.

Lemma cancel_provenance es : forall a x,
  nth_error (acts (run es)) a = Some x -> acanc x = true ->
  In (CancelCtx a) es \/ exists pk kk sl es1 es2, es = es1 ++ CallWait pk kk true sl :: es2 /\ length (acts (run es1)) = a.
Proof.
  induction es as [|e es IH] using rev_ind; intros a x Hx Hc.
  - destruct a; discriminate.
  - rewrite run_snoc in Hx. destruct (step_actor _ _ _ _ Hx) as [(x0 & Hx0 & _ & [Hsame| ->])|(Hnone & Hnew)].
    + rewrite Hc in Hsame. destruct (IH a x0 Hx0 (eq_sym Hsame)) as [Hin|(pk & kk & sl & es1 & es2 & -> & Hl)].
      * left. apply in_or_app. now left.
      * right. exists pk, kk, sl, es1, (es2 ++ [e]). split; [now rewrite <- app_assoc | exact Hl].
    + left. apply in_or_app. right. now left.
    + destruct e; cbn [new_actor] in Hnew; try contradiction.
      * destruct Hnew as (_ & Hf). congruence.
      * destruct Hnew as (_ & Hpre & _). specialize (Hpre Hc). subst pre.
        right. exists pk, k, slow, es, []. split; [reflexivity|].
        apply nth_error_None in Hnone.
        assert (Hlen : a < length (acts (step (run es) (CallWait pk k true slow)))) by (eapply nth_error_nth_len; eauto).
        cbn [step] in Hlen. destruct (N.leb 4 pk); unfold add_actor in Hlen; cbn [acts] in Hlen; rewrite app_length in Hlen; cbn in Hlen; lia.
Qed.

(* ------------------------------------------------------------------ *)
(* no lost wake-up *)
Lemma blocked_sampled_state es a x c v :
  nth_error (acts (run es)) a = Some x -> samp x = Some (c, v) ->
  c < nxt (sb (run es)) /\ (closed (sb (run es)) c = true \/ sg (run es) = v \/ sdirty (run es) = true).
Proof. intros Hx Hs. destruct (run_inv es) as (_ & _ & H & _). exact (H a x c v Hx Hs). Qed.

Lemma blocked_has_sample es a x :
  nth_error (acts (run es)) a = Some x -> apc x = PBlocked \/ apc x = PExit -> exists c v, samp x = Some (c, v).
Proof.
  intros Hx Hp. destruct (run_inv es) as (_ & _ & _ & H & _). specialize (H a x Hx Hp).
  destruct (samp x) as [[c v]|]; [eauto | congruence].
Qed.

Lemma wait_sample_pred_false es a x pk kk sl c v :
  nth_error (acts (run es)) a = Some x -> ak x = KWait pk kk sl -> samp x = Some (c, v) -> evalp pk kk v = PFalse.
Proof. intros Hx Hk Hs. destruct (run_inv es) as (_ & _ & _ & _ & H). destruct (H a x pk kk sl Hx Hk) as [_ H2]. eauto. Qed.

(* client discipline *)
Definition DInv (s : st) : Prop :=
  sdirty s = false /\
  forall a x ops h bl, nth_error (acts s) a = Some x -> ak x = KClient ops h bl -> ops_dirty false (upto_panic ops) = false.

Lemma do_sect_dirty s a : DInv s -> sdirty (do_sect s a) = false.
Proof.
  intros (Hd & Hc). unfold do_sect.
  destruct (nth_error (acts s) a) as [x|] eqn:G; [|exact Hd].
  destruct (apc x); try exact Hd.
  destruct (ak x) as [ops hold block|pk kk sl] eqn:Ek.
  - cbn [sdirty]. rewrite run_ops_dirty. cbn [od]. rewrite Hd. eapply Hc; eauto.
  - destruct (evalp pk kk (sg s)); try exact Hd. destruct (getch (sb s)). exact Hd.
Qed.

Lemma step_dinv s e : ev_disc e = true -> DInv s -> DInv (step s e).
Proof.
  intros He HD. pose proof HD as (Hd & Hc).
  assert (H2 : forall a x ops h bl, nth_error (acts (step s e)) a = Some x -> ak x = KClient ops h bl -> ops_dirty false (upto_panic ops) = false).
  { intros a x ops h bl Hx Hk. destruct (step_actor _ _ _ _ Hx) as [(x0 & Hx0 & Hak & _)|(_ & Hnew)].
    - rewrite Hk in Hak. eauto.
    - destruct e; cbn [new_actor] in Hnew; try contradiction.
      + destruct Hnew as (Hak & _). rewrite Hk in Hak. inversion Hak; subst.
        cbn [ev_disc] in He. now destruct (ops_dirty false (upto_panic ops0)).
      + destruct Hnew as (Hak & _). congruence. }
  split; [|exact H2].
  destruct e as [mode ops hold block|pk kk pre sl|a|a|a|a|a|a]; cbn [step].
  - assert (HA : forall p, DInv (add_actor s {| ak := KClient ops hold block; apc := p; acanc := false; samp := None |})).
    { intros p. split; [exact Hd|]. intros a x ops1 h1 bl1 Hx Hk.
      apply add_actor_lookup in Hx as [Hx|(_ & ->)]; [eauto|].
      cbn [ak] in Hk. inversion Hk; subst. cbn [ev_disc] in He. now destruct (ops_dirty false (upto_panic ops1)). }
    destruct mode as [|[|mode]]; [exact Hd| |]; destruct (sheld s); try exact Hd; apply do_sect_dirty, HA.
  - destruct (N.leb 4 pk); [|destruct pre]; exact Hd.
  - destruct (sheld s); [exact Hd | now apply do_sect_dirty].
  - destruct (nth_error (acts s) a) as [x|]; [|exact Hd]. destruct (apc x); try exact Hd. destruct (ak x); exact Hd.
  - destruct (nth_error (acts s) a) as [x|]; [|exact Hd]. destruct (apc x); exact Hd.
  - destruct (nth_error (acts s) a) as [x|]; [|exact Hd]. destruct (apc x); try exact Hd.
    destruct (samp x) as [[c v]|]; [|exact Hd]. destruct (closed (sb s) c); [|exact Hd]. destruct (ak x); exact Hd.
  - destruct (nth_error (acts s) a) as [x|]; [|exact Hd]. destruct (ak x); exact Hd.
  - destruct (nth_error (acts s) a) as [x|]; [|exact Hd]. destruct (ak x); try exact Hd. destruct (apc x); try exact Hd.
    destruct (acanc x); exact Hd.
Qed.

Lemma steps_dinv es : forall s, DInv s -> forallb ev_disc es = true -> DInv (fold_left step es s).
Proof.
  induction es as [|e es IH]; intros s HD Hes; cbn [fold_left]; [exact HD|].
  cbn [forallb] in Hes. apply andb_true_iff in Hes as [He Hes]. apply IH; [now apply step_dinv | exact Hes].
Qed.

Lemma disc_not_dirty es : all_disc es = true -> sdirty (run es) = false.
Proof.
  intros H. unfold run. apply (steps_dinv es init); [|exact H].
  split; [reflexivity|]. intros a x ops h bl Hx. destruct a; discriminate.
Qed.

Lemma disc_blocked_sampled_state es a x c v :
  all_disc es = true -> nth_error (acts (run es)) a = Some x -> samp x = Some (c, v) ->
  closed (sb (run es)) c = true \/ sg (run es) = v.
Proof.
  intros Hd Hx Hs. destruct (blocked_sampled_state es a x c v Hx Hs) as (_ & [H|[H|H]]); auto.
  rewrite (disc_not_dirty es Hd) in H. discriminate.
Qed.

Lemma quiescent_actor s a x :
  quiescent s = true -> nth_error (acts s) a = Some x ->
  at_gate x = false /\
  (apc x = PBlocked -> forall c v, samp x = Some (c, v) -> closed (sb s) c = false /\ (is_wait x = true -> acanc x = false)).
Proof.
  unfold quiescent. rewrite forallb_forall. intros H G. specialize (H x (nth_error_In _ _ G)).
  apply andb_true_iff in H as [H1 H2]. split; [now destruct (at_gate x)|].
  intros Hp c v Hs. rewrite Hp, Hs in H2. apply andb_true_iff in H2 as [H2 H3].
  split; [now destruct (closed (sb s) c)|]. intros Hw. rewrite Hw in H3. now destruct (acanc x).
Qed.

Lemma quiescent_blocked_waiter_pred_false es a x pk kk sl :
  all_disc es = true -> quiescent (run es) = true ->
  nth_error (acts (run es)) a = Some x -> ak x = KWait pk kk sl -> apc x = PBlocked ->
  evalp pk kk (sg (run es)) = PFalse.
Proof.
  intros Hd Hq Hx Hk Hp.
  destruct (blocked_has_sample es a x Hx (or_introl Hp)) as (c & v & Hs).
  destruct (quiescent_actor _ _ _ Hq Hx) as [_ H]. destruct (H Hp c v Hs) as [Hop _].
  destruct (disc_blocked_sampled_state es a x c v Hd Hx Hs) as [Hc|Hg]; [congruence|].
  rewrite Hg. eapply wait_sample_pred_false; eauto.
Qed.

(* a cancelled Wait call is not left blocked at quiescence *)
Lemma quiescent_cancelled_not_blocked es a x pk kk sl :
  quiescent (run es) = true -> nth_error (acts (run es)) a = Some x -> ak x = KWait pk kk sl -> acanc x = true ->
  apc x <> PBlocked.
Proof.
  intros Hq Hx Hk Hc Hp.
  destruct (blocked_has_sample es a x Hx (or_introl Hp)) as (c & v & Hs).
  destruct (quiescent_actor _ _ _ Hq Hx) as [_ H]. destruct (H Hp c v Hs) as [_ Hw].
  unfold is_wait in Hw. rewrite Hk in Hw. specialize (Hw eq_refl). congruence.
Qed.

(* ================================================================== *)
(* The monitors of Spec.v accept the model: simulation between monitor state and model state *)

Definition quiet (e : ev) : bool := match e with Wake _ | CancelWake _ => true | _ => false end.

Lemma settle_fold s : settle s = fold_left step (map Wake (seq 0 (length (acts s)))) s.
Proof.
  unfold settle. generalize (seq 0 (length (acts s))) as l. generalize s as s0.
  intros s0 l. revert s0. induction l as [|a l IH]; intros s0; cbn [fold_left map]; [reflexivity | apply IH].
Qed.

Lemma quiet_wakes l : forallb quiet (map Wake l) = true.
Proof. induction l; cbn; auto. Qed.

Inductive hdec (s : st) : list N -> ev -> Prop :=
| HD_client mode hold block ops h bl :
    bit hold = Some h -> bit block = Some bl ->
    (N.ltb mode 3 && negb (N.eqb mode 2 && bl) && negb (N.eqb mode 2 && panics (map dec_op ops) && sheld s) = true) ->
    hdec s (1 :: mode :: hold :: block :: ops)%N (CallClient (N.to_nat mode) (map dec_op ops) h bl)
| HD_wait pk k pre slow p sl :
    bit pre = Some p -> bit slow = Some sl -> N.ltb pk 6 = true -> hdec s [2; pk; k; pre; slow]%N (CallWait pk k p sl)
| HD_sect i x : nth_error (acts s) (N.to_nat i) = Some x -> apc x = PGate -> sheld s = false -> hdec s [3; i]%N (Sect (N.to_nat i))
| HD_cancel i x pk k sl : nth_error (acts s) (N.to_nat i) = Some x -> ak x = KWait pk k sl -> N.ltb pk 4 = true ->
    hdec s [4; i]%N (CancelCtx (N.to_nat i))
| HD_resume i x : nth_error (acts s) (N.to_nat i) = Some x -> apc x = PHold -> hdec s [5; i]%N (Resume (N.to_nat i))
| HD_exit i x : nth_error (acts s) (N.to_nat i) = Some x -> apc x = PExit -> hdec s [6; i]%N (ExitGate (N.to_nat i)).

Opaque step.
Lemma hstep_decomp s e s' o : hstep s e = Some (s', o) ->
  exists e0 ws, hdec s e e0 /\ forallb quiet ws = true /\ s' = fold_left step ws (step s e0) /\ o = obs s'.
Proof.
  unfold hstep. intros H.
  repeat (match type of H with context [match ?t with _ => _ end] => destruct t eqn:?; try discriminate H end).
  all: injection H as Hs Ho; subst o; subst s'; try rewrite settle_fold.
  all: match goal with
       | |- context [step ?s0 (CallClient ?a ?b ?c ?d)] =>
         exists (CallClient a b c d); eexists; split; [econstructor; eauto|]; split; [apply quiet_wakes|]; split; reflexivity
       | |- context [step ?s0 (CallWait ?a ?b ?c ?d)] =>
         exists (CallWait a b c d), []; split; [econstructor; eauto|]; split; [reflexivity|]; split; reflexivity
       | |- context [step ?s0 (Sect ?a)] =>
         exists (Sect a); eexists; split; [econstructor; eauto|]; split; [apply quiet_wakes|]; split; reflexivity
       | |- context [step ?s0 (CancelCtx ?a)] =>
         exists (CancelCtx a), [CancelWake a]; split; [econstructor; eauto|]; split; [reflexivity|]; split; reflexivity
       | |- context [step ?s0 (Resume ?a)] =>
         exists (Resume a); eexists; split; [econstructor; eauto|]; split; [apply quiet_wakes|]; split; reflexivity
       | |- context [fold_left step ?l (step (step ?s0 (ExitGate ?a)) (CancelWake ?a))] =>
         exists (ExitGate a), (CancelWake a :: l); split; [econstructor; eauto|]; split; [cbn [forallb quiet]; apply quiet_wakes|]; split; reflexivity
       end.
Qed.
Transparent step.

(* ---- quiet steps ---- *)
Definition core_eq (s s' : st) : Prop :=
  sb s' = sb s /\ sg s' = sg s /\ sdirty s' = sdirty s /\ snb s' = snb s /\ slog s' = slog s /\
  length (acts s') = length (acts s).

Lemma core_eq_refl s : core_eq s s.
Proof. unfold core_eq. repeat split; reflexivity. Qed.

Lemma core_eq_trans s1 s2 s3 : core_eq s1 s2 -> core_eq s2 s3 -> core_eq s1 s3.
Proof. unfold core_eq. intros (A1 & A2 & A3 & A4 & A5 & A6) (B1 & B2 & B3 & B4 & B5 & B6). repeat split; congruence. Qed.

Lemma core_eq_upd s a x h : core_eq s (upd_actor s a x h).
Proof. unfold core_eq, upd_actor. cbn [sb sg sdirty snb slog acts]. rewrite length_set_nth. repeat split; reflexivity. Qed.

(* how a quiet step changes one actor: not at all, or a blocked actor moves on *)
Definition moved (x x' : actor) : Prop :=
  ak x' = ak x /\ acanc x' = acanc x /\ samp x' = samp x /\
  (x' = x \/ (apc x = PBlocked /\
              match ak x with
              | KClient _ _ _ => apc x' = PRet 3
              | KWait _ _ _ => apc x' = PRet 4 \/ apc x' = PGate
              end)).

Lemma moved_refl x : moved x x.
Proof. unfold moved. auto. Qed.

Lemma moved_trans x1 x2 x3 : moved x1 x2 -> moved x2 x3 -> moved x1 x3.
Proof.
  intros (A1 & A2 & A3 & A4) (B1 & B2 & B3 & B4). unfold moved.
  split; [congruence|]. split; [congruence|]. split; [congruence|].
  destruct A4 as [->|(Ab & Am)]; [exact B4|].
  destruct B4 as [->|(Bb & _)]; [right; auto|].
  exfalso. destruct (ak x1); [congruence | destruct Am; congruence].
Qed.

Lemma quiet_step s e : quiet e = true ->
  core_eq s (step s e) /\
  forall k x', nth_error (acts (step s e)) k = Some x' -> exists x, nth_error (acts s) k = Some x /\ moved x x'.
Proof.
  intros Hq.
  assert (HS : core_eq s s /\ forall k x', nth_error (acts s) k = Some x' -> exists x, nth_error (acts s) k = Some x /\ moved x x').
  { split; [apply core_eq_refl|]. intros k x' H. exists x'. split; [exact H | apply moved_refl]. }
  assert (HU : forall a xa p, nth_error (acts s) a = Some xa -> apc xa = PBlocked ->
               match ak xa with KClient _ _ _ => p = PRet 3 | KWait _ _ _ => p = PRet 4 \/ p = PGate end ->
               core_eq s (setpc s a xa p) /\
               forall k x', nth_error (acts (setpc s a xa p)) k = Some x' -> exists x, nth_error (acts s) k = Some x /\ moved x x').
  { intros a xa p G Hb Hp. split; [apply core_eq_upd|]. intros k x' H. unfold setpc, upd_actor in H. cbn [acts] in H.
    apply set_nth_lookup in H as [(-> & -> & _)|(Hne & H)].
    - exists xa. split; [exact G|]. unfold moved. cbn [ak acanc samp apc]. repeat split; auto.
    - exists x'. split; [exact H | apply moved_refl]. }
  destruct e as [| | | | |a| |a]; try discriminate Hq; cbn [step].
  - destruct (nth_error (acts s) a) as [xa|] eqn:G; [|exact HS].
    destruct (apc xa) eqn:Ep; try exact HS. destruct (samp xa) as [[c v]|]; [|exact HS].
    destruct (closed (sb s) c); [|exact HS].
    destruct (ak xa) eqn:Ek; apply HU; auto; rewrite Ek; auto. destruct (acanc xa); auto.
  - destruct (nth_error (acts s) a) as [xa|] eqn:G; [|exact HS].
    destruct (ak xa) eqn:Ek; try exact HS. destruct (apc xa) eqn:Ep; try exact HS. destruct (acanc xa); [|exact HS].
    apply HU; auto. rewrite Ek. auto.
Qed.

Lemma quiet_steps ws : forall s, forallb quiet ws = true ->
  core_eq s (fold_left step ws s) /\
  forall k x', nth_error (acts (fold_left step ws s)) k = Some x' -> exists x, nth_error (acts s) k = Some x /\ moved x x'.
Proof.
  induction ws as [|w ws IH]; intros s Hq; cbn [fold_left].
  - split; [apply core_eq_refl|]. intros k x' H. exists x'. split; [exact H | apply moved_refl].
  - cbn [forallb] in Hq. apply andb_true_iff in Hq as [Hw Hq].
    destruct (quiet_step s w Hw) as [C1 A1]. destruct (IH (step s w) Hq) as [C2 A2].
    split; [eapply core_eq_trans; eauto|]. intros k x' H.
    destruct (A2 k x' H) as (x1 & H1 & M1). destruct (A1 k x1 H1) as (x & H0 & M0).
    exists x. split; [exact H0 | eapply moved_trans; eauto].
Qed.

Lemma core_eq_lookup s s' k : core_eq s s' -> (exists x, nth_error (acts s) k = Some x) -> exists x', nth_error (acts s') k = Some x'.
Proof.
  intros (_ & _ & _ & _ & _ & Hl) (x & Hx). apply nth_error_nth_len in Hx.
  destruct (nth_error (acts s') k) eqn:E; [eauto|]. apply nth_error_None in E. lia.
Qed.

(* ---- settled states ---- *)
Definition settled (s : st) : Prop :=
  forall a x c v, nth_error (acts s) a = Some x -> apc x = PBlocked -> samp x = Some (c, v) -> closed (sb s) c = false.

Lemma quiet_steps_settled ws s : forallb quiet ws = true -> settled s -> settled (fold_left step ws s).
Proof.
  intros Hq Hs. destruct (quiet_steps ws s Hq) as [(Hb & _) A]. intros a x' c v Hx Hp Hsm.
  destruct (A a x' Hx) as (x & Hx0 & (_ & _ & Esm & [->|(_ & Hm)])).
  - rewrite Hb. eauto.
  - exfalso. destruct (ak x); [congruence | destruct Hm; congruence].
Qed.

Lemma wakes_settled l : forall s a, In a l ->
  forall x c v, nth_error (acts (fold_left step (map Wake l) s)) a = Some x -> apc x = PBlocked -> samp x = Some (c, v) ->
  closed (sb (fold_left step (map Wake l) s)) c = false.
Proof.
  induction l as [|b l IH]; intros s a Hin x c v Hx Hp Hsm; [destruct Hin|].
  cbn [map fold_left] in *.
  destruct (in_dec Nat.eq_dec a l) as [Hl|Hl]; [eapply IH; eauto|].
  destruct Hin as [->|Hin]; [|contradiction].
  destruct (quiet_steps (map Wake l) (step s (Wake a)) (quiet_wakes l)) as [(Hb & _) A].
  destruct (A a x Hx) as (x2 & Hx2 & (_ & _ & Esm & Hmv)).
  assert (x = x2).
  { destruct Hmv as [->|(_ & Hm)]; [reflexivity|]. exfalso. destruct (ak x2); [congruence | destruct Hm; congruence]. }
  subst x2. rewrite Hb. clear A Hb Hmv Esm Hx.
  cbn [step] in *. destruct (nth_error (acts s) a) as [xa|] eqn:G; [|congruence].
  destruct (apc xa) eqn:Ep; try (assert (xa = x) by congruence; subst xa; congruence).
  destruct (samp xa) as [[c0 v0]|] eqn:Es; [|assert (xa = x) by congruence; subst xa; congruence].
  destruct (closed (sb s) c0) eqn:Ec; [|assert (xa = x) by congruence; subst xa; congruence].
  exfalso. pose proof (nth_error_nth_len _ _ _ G) as Hlen.
  destruct (ak xa); unfold setpc, upd_actor in Hx2; cbn [acts] in Hx2;
    rewrite nth_error_set_nth_same in Hx2 by exact Hlen; inversion Hx2; subst x; cbn [apc] in Hp;
    try discriminate. destruct (acanc xa); discriminate.
Qed.

Lemma settle_settled s : settled (settle s).
Proof.
  rewrite settle_fold. intros a x c v Hx Hp Hsm.
  destruct (quiet_steps _ s (quiet_wakes (seq 0 (length (acts s))))) as [(_ & _ & _ & _ & _ & Hl) _].
  eapply wakes_settled; eauto. apply in_seq. apply nth_error_nth_len in Hx. lia.
Qed.

(* ---- lengths, log prefixes ---- *)
Lemma do_sect_length s a : length (acts (do_sect s a)) = length (acts s).
Proof.
  unfold do_sect. destruct (nth_error (acts s) a) as [x|]; [|reflexivity].
  destruct (apc x); try reflexivity. destruct (ak x) as [ops hold block|pk kk sl].
  - cbn [acts]. apply length_set_nth.
  - destruct (evalp pk kk (sg s)); unfold setpc, upd_actor; cbn [acts]; try apply length_set_nth.
    destruct (getch (sb s)). cbn [acts]. apply length_set_nth.
Qed.

Definition is_call (e : ev) : nat := match e with CallClient _ _ _ _ | CallWait _ _ _ _ => 1 | _ => 0 end.

Lemma step_length s e : length (acts (step s e)) = length (acts s) + is_call e.
Proof.
  assert (HA : forall x, length (acts (add_actor s x)) = length (acts s) + 1).
  { intros x. unfold add_actor. cbn [acts]. rewrite app_length. reflexivity. }
  destruct e as [mode ops hold block|pk kk pre sl|a|a|a|a|a|a]; cbn [step is_call].
  - destruct mode as [|[|mode]]; [apply HA| |]; destruct (sheld s); try apply HA; rewrite do_sect_length; apply HA.
  - destruct (N.leb 4 pk); [|destruct pre]; apply HA.
  - rewrite Nat.add_0_r. destruct (sheld s); [reflexivity | apply do_sect_length].
  - rewrite Nat.add_0_r. destruct (nth_error (acts s) a) as [x|]; [|reflexivity].
    destruct (apc x); try reflexivity. destruct (ak x); try reflexivity. unfold upd_actor. cbn [acts]. apply length_set_nth.
  - rewrite Nat.add_0_r. destruct (nth_error (acts s) a) as [x|]; [|reflexivity].
    destruct (apc x); try reflexivity. unfold setpc, upd_actor. cbn [acts]. apply length_set_nth.
  - rewrite Nat.add_0_r. destruct (quiet_step s (Wake a) eq_refl) as [(_ & _ & _ & _ & _ & H) _]. exact H.
  - rewrite Nat.add_0_r. destruct (nth_error (acts s) a) as [x|]; [|reflexivity].
    destruct (ak x); try reflexivity. unfold upd_actor. cbn [acts]. apply length_set_nth.
  - rewrite Nat.add_0_r. destruct (quiet_step s (CancelWake a) eq_refl) as [(_ & _ & _ & _ & _ & H) _]. exact H.
Qed.

(* ---- the monitor's bookkeeping of a callback program agrees with the model ---- *)
Definition cflags (b : bc) (l : list (nat * nat)) : list bool := map (fun p => closed b (fst p)) l.
Definition logged_lt (b : bc) (l : list (nat * nat)) : Prop := forall c k, In (c, k) l -> c < nxt b.

Lemma do_op_mon o p : bc_wf (ob o) -> logged_lt (ob o) (ol o) ->
  mon_op (od o, cflags (ob o) (ol o)) p = (od (do_op o p), cflags (ob (do_op o p)) (ol (do_op o p))) /\
  bc_wf (ob (do_op o p)) /\ logged_lt (ob (do_op o p)) (ol (do_op o p)) /\
  (exists ex, ol (do_op o p) = ol o ++ ex).
Proof.
  intros Hwf Hlt. destruct p as [| | |v0|]; cbn [do_op mon_op fst snd];
    [| | | |split; [reflexivity|split; [exact Hwf|split; [exact Hlt|exists []; now rewrite app_nil_r]]]].
  - cbn [ob od ol]. split; [|split; [apply bcast_wf|split; [exact Hlt|exists []; now rewrite app_nil_r]]].
    f_equal. unfold cflags. rewrite map_map. apply map_ext_in. intros [c k] Hin. cbn [fst].
    symmetry. apply bcast_closes. eapply Hlt; eauto.
  - pose proof (getch_open (ob o) Hwf) as Hopen. pose proof (getch_closed_same (ob o) ) as Hsame.
    pose proof (getch_nxt_mono (ob o)) as Hmono. pose proof (getch_wf (ob o) Hwf) as Hwf2.
    destruct (getch (ob o)) as [b' c0] eqn:EG. cbn [fst] in *. destruct Hopen as (Hlt0 & Hop & _).
    cbn [ob od ol]. split; [|split; [exact Hwf2|split; [|eexists; reflexivity]]].
    + f_equal. unfold cflags. rewrite map_app. cbn [map fst]. rewrite Hop. f_equal.
      apply map_ext_in. intros [c k] Hin. cbn [fst]. symmetry. apply Hsame; auto. eapply Hlt; eauto.
    + intros c k Hin. apply in_app_or in Hin as [Hin|[Hin|[]]]; [specialize (Hlt c k Hin); lia|]. inversion Hin; subst. exact Hlt0.
  - cbn [ob od ol]. split; [reflexivity|]. split; [exact Hwf|]. split; [exact Hlt|]. exists []. now rewrite app_nil_r.
  - cbn [ob od ol]. split; [reflexivity|]. split; [exact Hwf|]. split; [exact Hlt|]. exists []. now rewrite app_nil_r.
Qed.

Lemma run_ops_mon ops : forall o, bc_wf (ob o) -> logged_lt (ob o) (ol o) ->
  fold_left mon_op ops (od o, cflags (ob o) (ol o)) = (od (run_ops o ops), cflags (ob (run_ops o ops)) (ol (run_ops o ops))) /\
  (exists ex, ol (run_ops o ops) = ol o ++ ex).
Proof.
  induction ops as [|p ops IH]; intros o Hwf Hlt; cbn [fold_left run_ops].
  - split; [reflexivity|]. exists []. now rewrite app_nil_r.
  - destruct (do_op_mon o p Hwf Hlt) as (E & Hwf2 & Hlt2 & (ex1 & Hex1)). rewrite E.
    destruct (IH (do_op o p) Hwf2 Hlt2) as (E2 & (ex2 & Hex2)). unfold run_ops in *. split; [exact E2|].
    exists (ex1 ++ ex2). rewrite Hex2, Hex1. now rewrite app_assoc.
Qed.

(* ---- what the main step does to the core, as the monitor's fold ---- *)
Definition sect_ops (s : st) (a : nat) : list op :=
  match nth_error (acts s) a with
  | Some x => match apc x, ak x with PGate, KClient ops _ _ => upto_panic ops | _, _ => [] end
  | None => []
  end.

Definition ran_ops (s : st) (e0 : ev) : list op :=
  match e0 with
  | Sect a => if sheld s then [] else sect_ops s a
  | CallClient mode ops _ _ => match mode with 0 => [] | _ => if sheld s then [] else upto_panic ops end
  | _ => []
  end.

Definition core_step (s s1 : st) (ops : list op) : Prop :=
  fold_left mon_op ops (sdirty s, cflags (sb s) (slog s)) = (sdirty s1, cflags (sb s1) (slog s1)) /\
  (exists ex, slog s1 = slog s ++ ex).

Lemma core_step_same s s1 : sb s1 = sb s -> sdirty s1 = sdirty s -> slog s1 = slog s -> core_step s s1 [].
Proof. intros H1 H2 H3. unfold core_step. rewrite H1, H2, H3. split; [reflexivity|]. exists []. now rewrite app_nil_r. Qed.

Lemma inv_logged_lt s : Inv s -> logged_lt (sb s) (slog s).
Proof. intros (_ & Hlog & _) c k Hin. now destruct (Hlog c k Hin). Qed.

Lemma do_sect_core s a : Inv s -> core_step s (do_sect s a) (sect_ops s a).
Proof.
  intros HI. pose proof HI as (Hwf & _). pose proof (inv_logged_lt s HI) as Hlt.
  unfold do_sect, sect_ops. destruct (nth_error (acts s) a) as [x|] eqn:G; [|now apply core_step_same].
  destruct (apc x) eqn:Ep; try now apply core_step_same.
  destruct (ak x) as [ops hold block|pk kk sl] eqn:Ek.
  - set (o0 := {| ob := sb s; og := sg s; od := sdirty s; on := snb s; ol := slog s; osamp := samp x |}).
    destruct (run_ops_mon (upto_panic ops) o0 Hwf Hlt) as (E & Hex). unfold core_step. cbn [sb sdirty slog]. exact (conj E Hex).
  - destruct (evalp pk kk (sg s)); try now apply core_step_same.
    pose proof (getch_closed_same (sb s)) as Hsame.
    destruct (getch (sb s)) as [b' c0] eqn:EG. cbn [fst] in *.
    unfold core_step. cbn [sb sdirty slog fold_left]. split; [|exists []; now rewrite app_nil_r].
    f_equal. unfold cflags. apply map_ext_in. intros [c k] Hin. cbn [fst]. symmetry. apply Hsame; auto. eapply Hlt; eauto.
Qed.

Lemma step_core s e0 : Inv s -> core_step s (step s e0) (ran_ops s e0).
Proof.
  intros HI.
  destruct e0 as [mode ops hold block|pk kk pre sl|a|a|a|a|a|a]; cbn [step ran_ops].
  - assert (HD : core_step s (do_sect (add_actor s {| ak := KClient ops hold block; apc := PGate; acanc := false; samp := None |}) (length (acts s))) (upto_panic ops)).
    { set (x0 := {| ak := KClient ops hold block; apc := PGate; acanc := false; samp := None |}).
      assert (HI0 : Inv (add_actor s x0)).
      { apply inv_add; auto; cbn [apc]; [intros [H|H]; discriminate H | discriminate]. }
      pose proof (do_sect_core (add_actor s x0) (length (acts s)) HI0) as HC.
      assert (Eo : sect_ops (add_actor s x0) (length (acts s)) = upto_panic ops).
      { unfold sect_ops, add_actor. cbn [acts]. rewrite nth_error_app2 by lia. rewrite Nat.sub_diag. reflexivity. }
      rewrite Eo in HC. exact HC. }
    destruct mode as [|[|mode]]; [now apply core_step_same| |]; destruct (sheld s); try (now apply core_step_same); exact HD.
  - destruct (N.leb 4 pk); [|destruct pre]; now apply core_step_same.
  - destruct (sheld s); [now apply core_step_same | now apply do_sect_core].
  - destruct (nth_error (acts s) a) as [x|]; [|now apply core_step_same].
    destruct (apc x); try now apply core_step_same. destruct (ak x); now apply core_step_same.
  - destruct (nth_error (acts s) a) as [x|]; [|now apply core_step_same].
    destruct (apc x); now apply core_step_same.
  - destruct (quiet_step s (Wake a) eq_refl) as [(H1 & _ & H3 & _ & H5 & _) _]. now apply core_step_same.
  - destruct (nth_error (acts s) a) as [x|]; [|now apply core_step_same].
    destruct (ak x); now apply core_step_same.
  - destruct (quiet_step s (CancelWake a) eq_refl) as [(H1 & _ & H3 & _ & H5 & _) _]. now apply core_step_same.
Qed.

(* ---- list plumbing ---- *)
Lemma existsb_false_intro {A} (f : A -> bool) l : (forall x, In x l -> f x = false) -> existsb f l = false.
Proof.
  induction l as [|h t IH]; intros H; [reflexivity|]. cbn [existsb].
  rewrite (H h (or_introl eq_refl)). apply IH. intros x Hx. apply H. now right.
Qed.

Lemma in_combine_nth {A B} (l1 : list A) (l2 : list B) a b :
  In (a, b) (combine l1 l2) -> exists i, nth_error l1 i = Some a /\ nth_error l2 i = Some b.
Proof.
  revert l2. induction l1 as [|h1 t1 IH]; intros l2 H; [destruct H|].
  destruct l2 as [|h2 t2]; [destruct H|]. cbn [combine] in H. destruct H as [H|H].
  - inversion H; subst. exists 0. auto.
  - destruct (IH t2 H) as (i & H1 & H2). exists (S i). auto.
Qed.

Lemma firstn_map_app {A B} (f : A -> B) l r : firstn (length l) (map f l ++ r) = map f l.
Proof. induction l as [|h t IH]; cbn; [now destruct r | now rewrite IH]. Qed.

Lemma skipn_map_app {A B} (f : A -> B) l r : skipn (length l) (map f l ++ r) = r.
Proof. induction l as [|h t IH]; cbn; auto. Qed.

Lemma combine_map_same {A B C} (f : A -> B) (g : A -> C) l : combine (map f l) (map g l) = map (fun x => (f x, g x)) l.
Proof. induction l as [|h t IH]; cbn; [reflexivity | now rewrite IH]. Qed.

Lemma upd_length {A} (l : list A) i f : length (upd l i f) = length l.
Proof. unfold upd. destruct (nth_error l i); [apply length_set_nth | reflexivity]. Qed.

Lemma upd_lookup {A} (l : list A) i f j y : nth_error (upd l i f) j = Some y ->
  (j = i /\ exists x, nth_error l i = Some x /\ y = f x) \/ (j <> i /\ nth_error l j = Some y).
Proof.
  unfold upd. destruct (nth_error l i) as [x|] eqn:G; intros H.
  - apply set_nth_lookup in H as [(-> & -> & _)|(Hne & H)]; [left; eauto | right; auto].
  - destruct (Nat.eq_dec j i) as [->|Hne]; [congruence | right; auto].
Qed.

Lemma bit_eqb n b : bit n = Some b -> N.eqb n 1 = b.
Proof. destruct n as [|[p|p|]]; cbn; intros H; inversion H; reflexivity. Qed.

Lemma code_ret p r : code_pc p = r -> (r = 3 \/ r = 4 \/ 8 <= r)%N -> p = PRet r.
Proof. destruct p; cbn [code_pc]; intros <- H; try lia. reflexivity. Qed.

Lemma code_blocked p : code_pc p = 2%N -> p = PBlocked \/ p = PRet 2.
Proof. destruct p; cbn [code_pc]; intros H; try discriminate; auto. right. now subst. Qed.

(* ---- the simulation relation between monitor state and model state ---- *)
Definition oldcode (s : st) (i : nat) : N := match nth_error (acts s) i with Some x => code_pc (apc x) | None => 0%N end.

Definition arel0 (mx : mactor) (x : actor) : Prop :=
  mkd mx = ak x /\ (forall pk k, m_wait mx = Some (pk, k) -> mcanc mx = acanc x).

Definition nflags (b : bc) (l : list (nat * nat)) : list N := map (fun p => if closed b (fst p) then 1%N else 0%N) l.

Definition R (m : mst) (s : st) : Prop :=
  length (mas m) = length (acts s) /\
  (forall i mx x, nth_error (mas m) i = Some mx -> nth_error (acts s) i = Some x -> arel0 mx x /\ mlast mx = code_pc (apc x)) /\
  md m = sdirty s /\ mexp m = cflags (sb s) (slog s) /\ mflags m = nflags (sb s) (slog s).

Lemma app_lookup {A} (l : list A) y i z :
  nth_error (l ++ [y]) i = Some z -> nth_error l i = Some z \/ (nth_error l i = None /\ i = length l /\ z = y).
Proof.
  intros H. destruct (Nat.lt_ge_cases i (length l)) as [Hl|Hl].
  - left. now rewrite nth_error_app1 in H.
  - right. pose proof (nth_error_nth_len _ _ _ H) as Hlen. rewrite app_length in Hlen. cbn in Hlen.
    assert (i = length l) by lia. subst i. split; [now apply nth_error_None|]. split; [reflexivity|].
    rewrite nth_error_app2 in H by lia. rewrite Nat.sub_diag in H. now inversion H.
Qed.

Lemma mas1_rel m s e e0 : R m s -> hdec s e e0 ->
  length (mon_mas1 m e) = length (acts (step s e0)) /\
  forall i mx x1, nth_error (mon_mas1 m e) i = Some mx -> nth_error (acts (step s e0)) i = Some x1 ->
    arel0 mx x1 /\ mlast mx = oldcode s i.
Proof.
  intros (Hlen & Hrel & _) Hd.
  assert (HE : forall i mx x1, nth_error (mas m) i = Some mx -> nth_error (acts (step s e0)) i = Some x1 ->
               e0 <> CancelCtx i -> arel0 mx x1 /\ mlast mx = oldcode s i).
  { intros i mx x1 Hm Hx Hne. destruct (step_actor _ _ _ _ Hx) as [(x & Hx0 & Hak & [Hc|Hc])|(Hnone & _)].
    - destruct (Hrel i mx x Hm Hx0) as ((A1 & A2) & A3). unfold oldcode. rewrite Hx0.
      split; [|exact A3]. split; [congruence|]. intros pk k Hw. rewrite Hc. eauto.
    - contradiction.
    - exfalso. apply nth_error_None in Hnone. apply nth_error_nth_len in Hm. lia. }
  pose proof (step_length s e0) as HL.
  destruct Hd as [mode hold block ops h bl Hh Hb Hmode|pk k pre slow p sl Hp Hsl Hpk|i x G Hp Hh|i x pk k sl G Hk Hpk|i x G Hp|i x G Hp];
    cbn [mon_mas1 is_call] in *.
  - split; [rewrite app_length; cbn [length]; lia|].
    intros i mx x1 Hm Hx. apply app_lookup in Hm as [Hm|(Hm & -> & ->)]; [apply HE; auto; discriminate|].
    rewrite Hlen in *. unfold oldcode.
    destruct (step_actor _ _ _ _ Hx) as [(x & Hx0 & _)|(Hnone & Hnew)].
    + apply nth_error_nth_len in Hx0. lia.
    + rewrite Hnone. cbn [new_actor] in Hnew. destruct Hnew as (Hak & _).
      split; [|reflexivity]. split; [cbn [mkd]; rewrite (bit_eqb _ _ Hh), (bit_eqb _ _ Hb); congruence|].
      intros pk k Hw. discriminate Hw.
  - split; [rewrite app_length; cbn [length]; lia|].
    intros i mx x1 Hm Hx. apply app_lookup in Hm as [Hm|(Hm & -> & ->)]; [apply HE; auto; discriminate|].
    rewrite Hlen in *. unfold oldcode.
    destruct (step_actor _ _ _ _ Hx) as [(x & Hx0 & _)|(Hnone & Hnew)].
    + apply nth_error_nth_len in Hx0. lia.
    + rewrite Hnone. cbn [new_actor] in Hnew. destruct Hnew as (Hak & _ & _ & _ & Hc).
      split; [|reflexivity]. split; [cbn [mkd]; rewrite (bit_eqb _ _ Hsl); congruence|].
      intros pk0 k0 Hw. unfold m_wait in Hw. cbn [mkd mcanc] in *.
      destruct (N.ltb pk 4) eqn:E4; [|discriminate]. rewrite (bit_eqb _ _ Hp). symmetry. apply Hc.
      apply N.ltb_lt in E4. apply N.leb_gt. exact E4.
  - split; [lia|]. intros j mx x1 Hm Hx. apply HE; auto. discriminate.
  - rewrite upd_length. split; [lia|]. intros j mx x1 Hm Hx.
    apply upd_lookup in Hm as [(-> & mx0 & Hm0 & ->)|(Hne & Hm)].
    + cbn [mkd mcanc mlast]. destruct (Hrel _ mx0 x Hm0 G) as ((A1 & A2) & A3).
      cbn [step] in Hx. rewrite G, Hk in Hx. unfold upd_actor in Hx. cbn [acts] in Hx.
      rewrite nth_error_set_nth_same in Hx by (eapply nth_error_nth_len; eauto). inversion Hx; subst x1.
      unfold oldcode. rewrite G. split; [|exact A3]. split; [cbn [mkd ak]; congruence|]. intros; reflexivity.
    + apply HE; auto. intros Heq. inversion Heq. congruence.
  - split; [lia|]. intros j mx x1 Hm Hx. apply HE; auto. discriminate.
  - split; [lia|]. intros j mx x1 Hm Hx. apply HE; auto. discriminate.
Qed.

Lemma do_sect_new_client s ops hold block x1 :
  let x0 := {| ak := KClient ops hold block; apc := PGate; acanc := false; samp := None |} in
  nth_error (acts (do_sect (add_actor s x0) (length (acts s)))) (length (acts s)) = Some x1 ->
  apc x1 = PHold \/ apc x1 = PRet 3 \/ apc x1 = PBlocked \/ apc x1 = PRet 13.
Proof.
  intros x0 H. unfold do_sect in H.
  assert (G : nth_error (acts (add_actor s x0)) (length (acts s)) = Some x0).
  { unfold add_actor. cbn [acts]. rewrite nth_error_app2 by lia. now rewrite Nat.sub_diag. }
  rewrite G in H. cbn [apc ak x0] in H. cbn [acts] in H.
  rewrite nth_error_set_nth_same in H by (eapply nth_error_nth_len; eauto). inversion H. cbn [apc].
  destruct hold; [auto|]. unfold after_section, after_client. destruct (panics ops); [auto|]. destruct block; [|auto].
  match goal with |- context [osamp ?o] => destruct (osamp o) end; auto.
Qed.

Lemma ops_ran_agree m s e e0 s' : R m s -> hdec s e e0 ->
  length (acts s') = length (acts (step s e0)) ->
  (forall k x', nth_error (acts s') k = Some x' -> exists x1, nth_error (acts (step s e0)) k = Some x1 /\ moved x1 x') ->
  mon_ops_ran (mon_mas1 m e) (length (mas m)) e (map (fun x => code_pc (apc x)) (acts s')) = ran_ops s e0.
Proof.
  intros (Hlen & Hrel & _) Hd HL HM. pose proof (step_length s e0) as HL1.
  destruct Hd as [mode hold block ops h bl Hh Hb Hmode|pk k pre slow p sl Hp Hsl Hpk|i x G Hp Hh|i x pk k sl G Hk Hpk|i x G Hp|i x G Hp];
    cbn [mon_ops_ran ran_ops is_call] in *; try reflexivity.
  - destruct mode as [|pm]; [reflexivity|]. cbn [N.eqb].
    destruct (N.to_nat (N.pos pm)) as [|n0] eqn:En; [pose proof (Pos2Nat.is_pos pm); cbn in En; lia|].
    rewrite Hlen.
    destruct (nth_error (acts s') (length (acts s))) as [x'|] eqn:Gx;
      [|apply nth_error_None in Gx; lia].
    rewrite nth_error_map, Gx. cbn [option_map].
    destruct (HM _ _ Gx) as (x1 & Hx1 & (_ & _ & _ & Hmv)).
    assert (HH : forall p0, p0 = PRet 5 \/ p0 = PGate -> apc x1 = p0 -> (N.eqb (code_pc (apc x')) 5 || N.eqb (code_pc (apc x')) 1) = true).
    { intros p0 Hp0 E1. destruct Hmv as [->|(Hbk & _)]; [|destruct Hp0; congruence].
      rewrite E1. destruct Hp0; subst p0; reflexivity. }
    assert (HN : apc x1 = PHold \/ apc x1 = PRet 3 \/ apc x1 = PBlocked \/ apc x1 = PRet 13 -> ak x1 = KClient (map dec_op ops) h bl ->
                 (N.eqb (code_pc (apc x')) 5 || N.eqb (code_pc (apc x')) 1) = false).
    { intros Hc Hk1. destruct Hmv as [->|(Hbk & Hm)].
      - destruct Hc as [E|[E|[E|E]]]; rewrite E; reflexivity.
      - rewrite Hk1 in Hm. rewrite Hm. reflexivity. }
    assert (HA : forall p0, nth_error (acts (add_actor s {| ak := KClient (map dec_op ops) h bl; apc := p0; acanc := false; samp := None |})) (length (acts s)) = Some x1 ->
                 apc x1 = p0).
    { intros p0 Hl. unfold add_actor in Hl. cbn [acts] in Hl. rewrite nth_error_app2 in Hl by lia.
      rewrite Nat.sub_diag in Hl. inversion Hl. reflexivity. }
    assert (HK : ak x1 = KClient (map dec_op ops) h bl).
    { destruct (step_actor _ _ _ _ Hx1) as [(x0 & Hx0 & _)|(_ & (Hk1 & _))]; [apply nth_error_nth_len in Hx0; lia | exact Hk1]. }
    cbn [step] in Hx1. destruct n0 as [|n0]; destruct (sheld s) eqn:Eh.
    + rewrite (HH (PRet 5)); auto.
    + rewrite HN; auto. eapply do_sect_new_client; eauto.
    + rewrite (HH PGate); auto.
    + rewrite HN; auto. eapply do_sect_new_client; eauto.
  - rewrite Hh. unfold sect_ops. rewrite G, Hp. cbn [mon_mas1].
    destruct (nth_error (mas m) (N.to_nat i)) as [mx|] eqn:Gm;
      [|apply nth_error_None in Gm; apply nth_error_nth_len in G; lia].
    destruct (Hrel _ mx x Gm G) as ((A1 & _) & _). unfold m_ops. rewrite A1. destruct (ak x); reflexivity.
Qed.

Lemma nth_error_combine {A B} (l1 : list A) (l2 : list B) i a b :
  nth_error (combine l1 l2) i = Some (a, b) -> nth_error l1 i = Some a /\ nth_error l2 i = Some b.
Proof.
  revert l2 i. induction l1 as [|h1 t1 IH]; intros l2 i H; [destruct i; discriminate|].
  destruct l2 as [|h2 t2]; [destruct i; discriminate|]. destruct i as [|i]; cbn in *.
  - inversion H. auto.
  - apply IH. exact H.
Qed.

(* ---- semantic clauses at the level of one harness event ---- *)
Lemma hstep_wait_ret s e0 s' k x' pk kk sl r :
  (forall j y', nth_error (acts s') j = Some y' -> exists y1, nth_error (acts (step s e0)) j = Some y1 /\ moved y1 y') ->
  sg s' = sg (step s e0) ->
  nth_error (acts s') k = Some x' -> ak x' = KWait pk kk sl -> N.ltb pk 4 = true ->
  apc x' = PRet r -> r <> 4%N -> oldcode s k <> r ->
  ret_reason pk kk (sg s') r.
Proof.
  intros HM Hg Hx Hk Hpk Hr Hr4 Hold.
  destruct (HM _ _ Hx) as (x1 & Hx1 & (Eak & _ & _ & Hmv)).
  assert (x' = x1).
  { destruct Hmv as [E|(_ & Hm)]; [exact E|]. exfalso. rewrite <- Eak, Hk in Hm. destruct Hm as [Hm|Hm]; rewrite Hm in Hr; [inversion Hr; congruence | discriminate]. }
  subst x1. rewrite Hg.
  destruct (step_actor _ _ _ _ Hx1) as [(x & Hx0 & Hak & _)|(Hnone & Hnew)].
  - assert (Hne : apc x <> PRet r).
    { intros E. apply Hold. unfold oldcode. rewrite Hx0, E. reflexivity. }
    rewrite Hk in Hak. symmetry in Hak.
    destruct (step_wait_ret _ _ _ _ _ _ _ _ _ Hx0 Hx1 Hak Hr Hne Hr4) as (_ & Hg1 & Hrr). rewrite Hg1. exact Hrr.
  - exfalso. destruct e0; cbn [new_actor] in Hnew; try contradiction.
    + destruct Hnew as (Hk1 & _). congruence.
    + destruct Hnew as (Hk1 & _ & [Hp|[Hp|Hp]] & H8 & _); rewrite Hp in Hr; try discriminate.
      * rewrite Hk in Hk1. inversion Hk1; subst. specialize (H8 Hp). apply N.ltb_lt in Hpk. apply N.leb_le in H8. lia.
      * inversion Hr. congruence.
Qed.

Lemma settled_blocked_pred_false es a x pk kk sl :
  settled (run es) -> sdirty (run es) = false ->
  nth_error (acts (run es)) a = Some x -> ak x = KWait pk kk sl -> apc x = PBlocked ->
  evalp pk kk (sg (run es)) = PFalse.
Proof.
  intros Hs Hd Hx Hk Hp.
  destruct (blocked_has_sample es a x Hx (or_introl Hp)) as (c & v & Hsm).
  pose proof (Hs a x c v Hx Hp Hsm) as Hop.
  destruct (blocked_sampled_state es a x c v Hx Hsm) as (_ & [H|[H|H]]); try congruence.
  rewrite H. eapply wait_sample_pred_false; eauto.
Qed.

(* ---- settledness is preserved by every harness event ---- *)
Lemma settled_step_same_core s e :
  sb (step s e) = sb s ->
  (forall k x', nth_error (acts (step s e)) k = Some x' -> apc x' = PBlocked ->
     exists x, nth_error (acts s) k = Some x /\ apc x = PBlocked /\ samp x = samp x') ->
  settled s -> settled (step s e).
Proof.
  intros Hb HA Hs a x' c v Hx Hp Hsm. destruct (HA a x' Hx Hp) as (x & Hx0 & Hp0 & Esm). rewrite Hb. apply (Hs a x c v Hx0 Hp0). congruence.
Qed.

Lemma settled_callwait s pk k p sl : settled s -> settled (step s (CallWait pk k p sl)).
Proof.
  apply settled_step_same_core.
  - cbn [step]. destruct (N.leb 4 pk); [|destruct p]; reflexivity.
  - intros j x' Hx Hp. destruct (step_actor _ _ _ _ Hx) as [(x & Hx0 & _)|(Hnone & Hnew)].
    + exists x. cbn [step] in Hx. assert (x' = x); [|subst; auto].
      destruct (N.leb 4 pk); [|destruct p]; (apply add_actor_lookup in Hx as [Hx|(Hx & _)]; congruence).
    + exfalso. cbn [new_actor] in Hnew. destruct Hnew as (_ & _ & [E|[E|E]] & _); congruence.
Qed.

Lemma settled_cancel s a : settled s -> settled (step (step s (CancelCtx a)) (CancelWake a)).
Proof.
  intros Hs. apply (quiet_steps_settled [CancelWake a] (step s (CancelCtx a)) eq_refl).
  revert Hs. apply settled_step_same_core.
  - cbn [step]. destruct (nth_error (acts s) a) as [xa|]; [|reflexivity]. destruct (ak xa); reflexivity.
  - intros j x' Hx Hp. cbn [step] in Hx.
    destruct (nth_error (acts s) a) as [xa|] eqn:G; [|eauto].
    destruct (ak xa) eqn:Ek; [eauto|]. unfold upd_actor in Hx. cbn [acts] in Hx.
    apply set_nth_lookup in Hx as [(-> & -> & _)|(Hne & Hx)]; [exists xa; cbn [apc samp] in *; auto | eauto].
Qed.

Opaque step.
Lemma hstep_settled s e s' o : settled s -> hstep s e = Some (s', o) -> settled s'.
Proof.
  intros Hs H. unfold hstep in H.
  repeat (match type of H with context [match ?t with _ => _ end] => destruct t eqn:?; try discriminate H end).
  all: injection H as Hs' Ho; subst o; subst s'; try apply settle_settled.
  all: match goal with
       | |- settled (step _ (CallWait _ _ _ _)) => now apply settled_callwait
       | |- settled (step (step _ (CancelCtx _)) (CancelWake _)) => now apply settled_cancel
       end.
Qed.
Transparent step.

Lemma bad57_false b l :
  existsb bad5 (combine (cflags b l) (nflags b l)) = false /\ existsb bad7 (combine (cflags b l) (nflags b l)) = false.
Proof.
  unfold cflags, nflags. rewrite combine_map_same.
  split; apply existsb_false_intro; intros x Hin; apply in_map_iff in Hin as (p & <- & _); cbn [bad5 bad7];
    destruct (closed b (fst p)); reflexivity.
Qed.

Lemma bad6_false b b' l ex : (forall c, closed b c = true -> closed b' c = true) ->
  existsb bad6 (combine (nflags b l) (nflags b' (l ++ ex))) = false.
Proof.
  intros Hm. unfold nflags. induction l as [|p l IH]; [reflexivity|]. cbn [map app combine existsb bad6].
  rewrite IH. destruct (closed b (fst p)) eqn:E; [rewrite (Hm _ E); reflexivity | reflexivity].
Qed.

Lemma wait_no_ret2 es a x pk kk sl : nth_error (acts (run es)) a = Some x -> ak x = KWait pk kk sl -> apc x <> PRet 2.
Proof.
  intros Hx Hk Hr. assert (Hrr : (2 <> 4 /\ 2 <> 8)%N) by lia.
  destruct (wait_ret_history es a x pk kk sl 2%N Hx Hk Hr Hrr) as (_ & _ & _ & _ & [(_ & E)|(e & _ & E)]); lia.
Qed.

Definition HR (s : st) : Prop := (exists es, s = run es) /\ settled s.

Lemma m_wait_ak mx x pk k : mkd mx = ak x -> m_wait mx = Some (pk, k) -> exists sl, ak x = KWait pk k sl /\ N.ltb pk 4 = true.
Proof.
  intros E H. unfold m_wait in H. rewrite E in H. destruct (ak x) as [|pk0 k0 sl]; [discriminate|].
  destruct (N.ltb pk0 4) eqn:E4; [|discriminate]. inversion H; subst. eauto.
Qed.

Lemma mon_step m s e s' o : HR s -> R m s -> hstep s e = Some (s', o) ->
  exists m', mon m e o = (m', []) /\ R m' s' /\ HR s'.
Proof.
  intros ((es & Es) & Hset) HRm H.
  pose proof (hstep_settled _ _ _ _ Hset H) as Hset'.
  destruct (hstep_decomp _ _ _ _ H) as (e0 & ws & Hd & Hq & Hs' & Ho).
  destruct (quiet_steps ws (step s e0) Hq) as [Hcore HM]. rewrite <- Hs' in Hcore, HM.
  destruct Hcore as (Eb & Eg & Ed & En & El & Elen).
  assert (Hrun : s' = run (es ++ e0 :: ws)).
  { rewrite run_app. cbn [fold_left]. rewrite <- Es. exact Hs'. }
  destruct (mas1_rel m s e e0 HRm Hd) as (L1 & A1).
  pose proof (ops_ran_agree m s e e0 s' HRm Hd Elen HM) as Eops.
  assert (HIs : Inv s) by (rewrite Es; apply run_inv).
  destruct (step_core s e0 HIs) as (Ecore & (ex & Eex)).
  pose proof HRm as (Hlen & Hrel & Emd & Emexp & Emfl).
  set (sts := map (fun x => code_pc (apc x)) (acts s')).
  assert (HP : forall mx st, In (mx, st) (combine (mon_mas1 m e) sts) ->
               exists i x', nth_error (acts s') i = Some x' /\ st = code_pc (apc x') /\ arel0 mx x' /\ mlast mx = oldcode s i).
  { intros mx st Hin. apply in_combine_nth in Hin as (i & H1 & H2). unfold sts in H2. rewrite nth_error_map in H2.
    destruct (nth_error (acts s') i) as [x'|] eqn:Gx; [|discriminate]. cbn [option_map] in H2. inversion H2.
    destruct (HM i x' Gx) as (x1 & Hx1 & (Eak & Eac & _ & _)). destruct (A1 i mx x1 H1 Hx1) as ((B1 & B2) & B3).
    exists i, x'. split; [exact Gx|]. split; [now symmetry|]. split; [|exact B3].
    split; [congruence|]. intros pk k Hw. rewrite Eac. eauto. }
  assert (Emono : forall c, closed (sb s) c = true -> closed (sb s') c = true).
  { rewrite Hrun, Es. destruct (run_mono es (e0 :: ws)) as (_ & _ & Hc). exact Hc. }
  (* clauses *)
  assert (C1 : existsb (bad1 (sg s')) (combine (mon_mas1 m e) sts) = false).
  { apply existsb_false_intro. intros [mx st] Hin. destruct (HP mx st Hin) as (i & x' & Gx & -> & (B1 & B2) & B3).
    cbn [bad1]. destruct (m_wait mx) as [[pk k]|] eqn:Ew; [|reflexivity].
    destruct (m_wait_ak _ _ _ _ B1 Ew) as (sl & Ek & E4).
    destruct (N.eqb (code_pc (apc x')) 3) eqn:E3; [|reflexivity].
    destruct (N.eqb (mlast mx) 3) eqn:El3; [reflexivity|]. cbn [negb andb].
    apply N.eqb_eq in E3. apply code_ret in E3; [|lia]. apply N.eqb_neq in El3. rewrite B3 in El3.
    assert (H34 : (3 <> 4)%N) by lia.
    destruct (hstep_wait_ret s e0 s' i x' pk k sl 3%N HM Eg Gx Ek E4 E3 H34 El3) as [(Hp & _)|(e1 & _ & He1)]; [|lia].
    rewrite Hp. reflexivity. }
  assert (C2 : existsb (bad2 (sg s')) (combine (mon_mas1 m e) sts) = false).
  { apply existsb_false_intro. intros [mx st] Hin. destruct (HP mx st Hin) as (i & x' & Gx & -> & (B1 & B2) & B3).
    cbn [bad2]. destruct (m_wait mx) as [[pk k]|] eqn:Ew; [|reflexivity].
    destruct (m_wait_ak _ _ _ _ B1 Ew) as (sl & Ek & E4).
    destruct (N.leb 8 (code_pc (apc x'))) eqn:E8; [|reflexivity].
    destruct (N.eqb (mlast mx) (code_pc (apc x'))) eqn:El3; [reflexivity|]. cbn [negb andb].
    apply N.leb_le in E8. pose proof (code_ret (apc x') _ eq_refl (or_intror (or_intror E8))) as Er.
    apply N.eqb_neq in El3. rewrite B3 in El3.
    assert (H84 : (code_pc (apc x') <> 4)%N) by lia.
    destruct (hstep_wait_ret s e0 s' i x' pk k sl _ HM Eg Gx Ek E4 Er H84 El3) as [(_ & He1)|(e1 & Hp & He1)]; [lia|].
    rewrite Hp. cbn [is_err]. rewrite He1, N.eqb_refl. reflexivity. }
  assert (C3 : existsb bad3 (combine (mon_mas1 m e) sts) = false).
  { apply existsb_false_intro. intros [mx st] Hin. destruct (HP mx st Hin) as (i & x' & Gx & -> & (B1 & B2) & B3).
    cbn [bad3]. destruct (m_wait mx) as [[pk k]|] eqn:Ew; [|reflexivity].
    destruct (m_wait_ak _ _ _ _ B1 Ew) as (sl & Ek & E4).
    destruct (N.eqb (code_pc (apc x')) 4) eqn:E3; [|reflexivity].
    apply N.eqb_eq in E3. apply code_ret in E3; [|lia].
    rewrite (B2 pk k eq_refl). rewrite Hrun in Gx. rewrite (wait_canceled_flag _ _ _ _ _ _ Gx Ek E3).
    now rewrite andb_false_r. }
  assert (C4 : (negb (sdirty s') && existsb (bad4 (sg s')) (combine (mon_mas1 m e) sts)) = false).
  { destruct (sdirty s') eqn:Edirty; [reflexivity|]. cbn [negb andb].
    apply existsb_false_intro. intros [mx st] Hin. destruct (HP mx st Hin) as (i & x' & Gx & -> & (B1 & B2) & B3).
    cbn [bad4]. destruct (m_wait mx) as [[pk k]|] eqn:Ew; [|reflexivity].
    destruct (m_wait_ak _ _ _ _ B1 Ew) as (sl & Ek & E4).
    destruct (N.eqb (code_pc (apc x')) 2) eqn:E2; [|reflexivity].
    apply N.eqb_eq in E2. apply code_blocked in E2. rewrite Hrun in *.
    destruct E2 as [E2|E2]; [|exfalso; eapply wait_no_ret2; eauto].
    rewrite (settled_blocked_pred_false _ _ _ _ _ _ Hset' Edirty Gx Ek E2). reflexivity. }
  assert (HEV : forall j r, mon_eval (mon_mas1 m e) e (sg s') = Some (j, r) ->
            exists x', nth_error (acts s') j = Some x' /\
              match r with PTrue => apc x' = PRet 3 | PErr e1 => apc x' = PRet (10 + e1) | PFalse => True end).
  { intros j r Hev.
    destruct Hd as [mode hold block ops h bl Hh Hb Hmode|pk k pre slow p sl Hp Hsl Hpk|i x G Hp Hh|i x pk k sl G Hk Hpk|i x G Hp|i x G Hp];
      cbn [mon_eval mon_mas1] in Hev; try discriminate Hev.
    destruct (nth_error (mas m) (N.to_nat i)) as [mx|] eqn:Gm; [|discriminate Hev].
    destruct (m_wait mx) as [[pk k]|] eqn:Ew; [|discriminate Hev].
    destruct (N.eqb (mlast mx) 1); [|discriminate Hev]. inversion Hev; subst j r. clear Hev.
    destruct (Hrel _ mx x Gm G) as ((B1 & _) & _).
    destruct (m_wait_ak _ _ _ _ B1 Ew) as (sl & Ek & _).
    destruct (wait_section_result s _ x pk k sl G Ek Hp Hh) as (x1 & Hx1 & Hres).
    rewrite Eg, (sect_wait_keeps_g s _ x pk k sl G Ek).
    assert (Hx' : exists x', nth_error (acts s') (N.to_nat i) = Some x').
    { apply (core_eq_lookup (step s (Sect (N.to_nat i))) s'); [exact (conj Eb (conj Eg (conj Ed (conj En (conj El Elen))))) | eauto]. }
    destruct Hx' as (x' & Hx'). exists x'. split; [exact Hx'|].
    destruct (HM _ _ Hx') as (x1' & Hx1' & (_ & _ & _ & Hmv)).
    assert (x1' = x1) by congruence. subst x1'.
    destruct (evalp pk k (sg s)) as [| |e1]; [|exact I|]; (destruct Hmv as [->|(Hbk & _)]; [exact Hres | congruence]). }
  assert (C8 : bad8 (mon_eval (mon_mas1 m e) e (sg s')) sts = false).
  { destruct (mon_eval (mon_mas1 m e) e (sg s')) as [[j r]|] eqn:Eev; [|reflexivity].
    destruct (HEV j r eq_refl) as (x' & Hx' & Hres). cbn [bad8].
    destruct r as [| |e1]; try reflexivity.
    unfold sts. rewrite nth_error_map, Hx'. cbn [option_map]. rewrite Hres. cbn [code_pc]. now rewrite N.eqb_refl. }
  assert (C9 : bad9 (mon_eval (mon_mas1 m e) e (sg s')) sts = false).
  { destruct (mon_eval (mon_mas1 m e) e (sg s')) as [[j r]|] eqn:Eev; [|reflexivity].
    destruct (HEV j r eq_refl) as (x' & Hx' & Hres). cbn [bad9].
    destruct r as [| |e1]; try reflexivity.
    unfold sts. rewrite nth_error_map, Hx'. cbn [option_map]. rewrite Hres. reflexivity. }
  destruct (bad57_false (sb s') (slog s')) as (C5 & C7).
  assert (C6 : existsb bad6 (combine (mflags m) (nflags (sb s') (slog s'))) = false).
  { rewrite Emfl, El, Eex. apply bad6_false. exact Emono. }
  (* compute the monitor *)
  assert (Ede : fold_left mon_op (mon_ops_ran (mon_mas1 m e) (length (mas m)) e sts) (md m, mexp m) = (sdirty s', cflags (sb s') (slog s'))).
  { unfold sts. rewrite Eops, Emd, Emexp, Ecore, Ed, Eb, El. reflexivity. }
  unfold mon. rewrite Ho. unfold obs. cbv beta iota zeta.
  rewrite Nnat.Nat2N.id. rewrite firstn_map_app, skipn_map_app. fold sts. fold (nflags (sb s') (slog s')).
  rewrite Ede. cbn [fst snd]. rewrite C1, C2, C3, C4, C5, C6, C7, C8, C9. cbn [app].
  eexists. split; [reflexivity|]. split; [|split; [eauto | exact Hset']].
  split; [|split; [|split; [reflexivity | split; reflexivity]]]; cbn [mas].
  - rewrite map_length, combine_length, L1. unfold sts. rewrite map_length, Elen. apply Nat.min_id.
  - intros i mx' x' Hm Hx. rewrite nth_error_map in Hm.
    destruct (nth_error (combine (mon_mas1 m e) sts) i) as [[mx st]|] eqn:Gp; [|discriminate].
    cbn [option_map setlast] in Hm. inversion Hm; subst mx'. clear Hm.
    apply nth_error_combine in Gp as (G1 & G2). unfold sts in G2. rewrite nth_error_map, Hx in G2. cbn [option_map] in G2.
    inversion G2; subst st.
    destruct (HM i x' Hx) as (x1 & Hx1 & (Eak & Eac & _ & _)). destruct (A1 i mx x1 G1 Hx1) as ((B1 & B2) & B3).
    split; [|reflexivity]. split; [cbn [mkd]; congruence|]. intros pk k Hw. cbn [mcanc]. rewrite Eac. apply (B2 pk k). exact Hw.
Qed.

Theorem model_satisfies_monitors_gen evs : forall s m i rep, HR s -> R m s ->
  monitor mon i m rep evs (run_obs hstep s evs) = [].
Proof.
  induction evs as [|e evs IH]; intros s m i rep Hs Hm; [reflexivity|].
  cbn [run_obs]. destruct (hstep s e) as [[s' o]|] eqn:E; [|reflexivity].
  destruct (mon_step m s e s' o Hs Hm E) as (m' & Em & Hm' & Hs').
  cbn [monitor]. rewrite Em. cbn [filter map app]. apply IH; assumption.
Qed.

Lemma HR_init : HR init.
Proof. split; [exists []; reflexivity|]. intros a x c v H. destruct a; discriminate. Qed.

Lemma R_init : R minit init.
Proof.
  split; [reflexivity|]. split; [intros i mx x H; destruct i; discriminate|]. repeat split; reflexivity.
Qed.

(* the monitors report nothing on the model's own observations, for every event list *)
Theorem model_satisfies_monitors evs : monitor mon 0 minit [] evs (run_obs hstep init evs) = [].
Proof. apply model_satisfies_monitors_gen; [apply HR_init | apply R_init]. Qed.

Lemma list_eqb_refl l : list_eqb l l = true.
Proof. induction l as [|h t IH]; [reflexivity|]. cbn [list_eqb]. now rewrite N.eqb_refl, IH. Qed.

Lemma replay_own evs : forall s i, length (run_obs hstep s evs) = length evs ->
  replay hstep i s evs (run_obs hstep s evs) = [].
Proof.
  induction evs as [|e evs IH]; intros s i Hl; [reflexivity|]. cbn [run_obs replay] in *.
  destruct (hstep s e) as [[s' o]|]; [|discriminate Hl]. cbn [length] in Hl. rewrite list_eqb_refl. apply IH. lia.
Qed.

(* hence the whole checker accepts every history the model itself produces *)
Theorem model_run_check_clean evs :
  length (run_obs hstep init evs) = length evs -> run_check_bcast [] evs (run_obs hstep init evs) = [].
Proof.
  intros Hl. unfold run_check_bcast, run_check. rewrite (replay_own evs init 0 Hl), model_satisfies_monitors. reflexivity.
Qed.

(* ------------------------------------------------------------------ *)
(* a panicking callback: the section ends at the OPanic, the mutex is released (all three entry points unlock by defer),
   the caller ends with the recovered panic (13); nothing after the OPanic is executed *)
Lemma upto_panic_no_panic ops : panics (upto_panic ops) = false.
Proof.
  induction ops as [|p ops IH]; [reflexivity|]. cbn [upto_panic]. destruct (is_panic p) eqn:Ep; [reflexivity|].
  unfold panics in *. cbn [existsb]. now rewrite Ep.
Qed.

Lemma upto_panic_app ops ops' : upto_panic (ops ++ OPanic :: ops') = upto_panic ops.
Proof.
  induction ops as [|p ops IH]; [reflexivity|]. cbn [app upto_panic]. destruct (is_panic p); [reflexivity|]. now rewrite IH.
Qed.

Lemma panicking_section_releases_lock s a x ops block :
  nth_error (acts s) a = Some x -> ak x = KClient ops false block -> apc x = PGate -> sheld s = false -> panics ops = true ->
  let s' := step s (Sect a) in
  sheld s' = false /\ (exists x', nth_error (acts s') a = Some x' /\ apc x' = PRet 13 /\ ak x' = ak x) /\
  sg s' = og (run_ops {| ob := sb s; og := sg s; od := sdirty s; on := snb s; ol := slog s; osamp := samp x |} (upto_panic ops)).
Proof.
  intros G Hk Hp Hh Hpan. cbn [step]. rewrite Hh. unfold do_sect. rewrite G, Hp, Hk. cbn [sheld acts sg].
  split; [reflexivity|]. split; [|reflexivity].
  eexists. split; [apply nth_error_set_nth_same; eapply nth_error_nth_len; eauto|].
  cbn [apc ak]. unfold after_section. rewrite Hpan. split; reflexivity.
Qed.

Lemma panicking_holder_releases_lock s a x ops block :
  nth_error (acts s) a = Some x -> ak x = KClient ops true block -> apc x = PHold -> panics ops = true ->
  let s' := step s (Resume a) in
  sheld s' = false /\ exists x', nth_error (acts s') a = Some x' /\ apc x' = PRet 13.
Proof.
  intros G Hk Hp Hpan. cbn [step]. rewrite G, Hp, Hk. unfold upd_actor. cbn [sheld acts].
  split; [reflexivity|]. eexists. split; [apply nth_error_set_nth_same; eapply nth_error_nth_len; eauto|].
  cbn [apc]. unfold after_section. now rewrite Hpan.
Qed.
