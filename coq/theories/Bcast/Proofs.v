(* Proofs about the Broadcast model (C03). *)
From Util Require Import Common.Base Common.ListLemmas Bcast.Model Bcast.Spec.

(* ------------------------------------------------------------------ *)
(* list helpers *)
Lemma set_nth_lookup {A} (l : list A) a (x' : A) k y :
  nth_error (set_nth l a x') k = Some y ->
  (k = a /\ y = x' /\ a < length l) \/ (k <> a /\ nth_error l k = Some y).
Proof.
  intros H. destruct (Nat.eq_dec k a) as [->|Hne].
  - left. assert (Hl : a < length l).
    { apply nth_error_nth_len in H. now rewrite length_set_nth in H. }
    rewrite nth_error_set_nth_same in H by exact Hl. inversion H. auto.
  - right. rewrite nth_error_set_nth_other in H by exact Hne. auto.
Qed.

Lemma getch_cur b c : cur b = Some c -> getch b = (b, c).
Proof. intros H. unfold getch. now rewrite H. Qed.

(* ------------------------------------------------------------------ *)
(* callback programs *)

(* every logged channel (c, k) was handed out when k broadcasts had happened:
   closed iff a broadcast happened since; if none happened it is still the current channel *)
Definition log_ok (b : bc) (n : nat) (l : list (nat * nat)) : Prop :=
  forall c k, In (c, k) l -> c < nxt b /\ k <= n /\ (k < n -> closed b c = true) /\ (k = n -> cur b = Some c).

(* a sample (channel c taken when the guarded value was v) *)
Definition samp_ok (b : bc) (g : N) (d : bool) (c : nat) (v : N) : Prop :=
  c < nxt b /\ (closed b c = true \/ g = v \/ d = true).

Definition OInv (P : nat -> N -> Prop) (o : ost) : Prop :=
  bc_wf (ob o) /\ log_ok (ob o) (on o) (ol o) /\
  (forall c v, P c v \/ osamp o = Some (c, v) -> samp_ok (ob o) (og o) (od o) c v).

Lemma do_op_inv P o p : OInv P o -> OInv P (do_op o p).
Proof.
  intros (Hwf & Hlog & Hs). destruct p as [| | |v0]; cbn [do_op].
  - (* broadcast *)
    split; [|split]; cbn [ob og od on ol osamp].
    + apply bcast_wf.
    + intros c k Hin. destruct (Hlog c k Hin) as (Hc & Hk & _ & _).
      split; [exact Hc|]. split; [lia|]. split; [intros _; now apply bcast_closes | intros Hk2; lia].
    + intros c v Hcv. destruct (Hs c v Hcv) as (Hc & _). split; [exact Hc|]. left. now apply bcast_closes.
  - (* getWaitCh *)
    pose proof (getch_open (ob o) Hwf) as Hopen. pose proof (getch_closed_same (ob o)) as Hsame.
    pose proof (getch_nxt_mono (ob o)) as Hmono. pose proof (getch_wf (ob o) Hwf) as Hwf2.
    pose proof (getch_cur (ob o)) as Hcur.
    destruct (getch (ob o)) as [b' c0] eqn:EG. cbn [fst] in *. destruct Hopen as (Hlt & Hop & Hc0).
    split; [|split]; cbn [ob og od on ol osamp].
    + exact Hwf2.
    + intros c k Hin. apply in_app_or in Hin as [Hin|Hin].
      * destruct (Hlog c k Hin) as (Hc & Hk & Hcl & Hcu).
        split; [lia|]. split; [exact Hk|]. split.
        -- intros Hk2. rewrite Hsame; auto.
        -- intros Hk2. specialize (Hcu Hk2). specialize (Hcur c Hcu). inversion Hcur. subst b' c0. exact Hcu.
      * destruct Hin as [Hin|[]]. inversion Hin; subst c k.
        split; [exact Hlt|]. split; [lia|]. split; [intros Hk2; lia | intros _; exact Hc0].
    + intros c v [Hp|Hp].
      * destruct (Hs c v (or_introl Hp)) as (Hc & Hd). split; [lia|].
        destruct Hd as [Hd|Hd]; [left; rewrite Hsame; auto | right; exact Hd].
      * inversion Hp; subst c v. split; [exact Hlt|]. right; left; reflexivity.
  - (* g++ *)
    split; [exact Hwf|split; [exact Hlog|]]. cbn [ob og od on ol osamp].
    intros c v Hcv. destruct (Hs c v Hcv) as (Hc & _). split; [exact Hc|]. right; right; reflexivity.
  - (* g := v *)
    split; [exact Hwf|split; [exact Hlog|]]. cbn [ob og od on ol osamp].
    intros c v Hcv. destruct (Hs c v Hcv) as (Hc & _). split; [exact Hc|]. right; right; reflexivity.
Qed.

Lemma run_ops_inv P ops o : OInv P o -> OInv P (run_ops o ops).
Proof. unfold run_ops. apply fold_inv. intros o0 p. apply do_op_inv. Qed.

(* monotone facts of a program: broadcast count, log, closed channels *)
Definition OMono (o o' : ost) : Prop :=
  on o <= on o' /\ (forall p, In p (ol o) -> In p (ol o')) /\
  (forall c, closed (ob o) c = true -> closed (ob o') c = true) /\ (bc_wf (ob o) -> bc_wf (ob o')).

Lemma do_op_mono o p : bc_wf (ob o) -> OMono o (do_op o p).
Proof.
  intros Hwf. destruct p as [| | |v0]; cbn [do_op]; unfold OMono.
  - cbn [ob on ol]. split; [lia|]. split; [auto|]. split; [intros c Hc; now apply closed_mono_bcast | intros _; apply bcast_wf].
  - pose proof (closed_mono_getch (ob o)) as Hcm. pose proof (getch_wf (ob o) Hwf) as Hwf2.
    destruct (getch (ob o)) as [b' c0] eqn:EG. cbn [fst] in *. cbn [ob on ol].
    split; [lia|]. split; [intros p Hp; apply in_or_app; now left|]. split; [intros c Hc; now apply Hcm | intros _; exact Hwf2].
  - cbn [ob on ol]. repeat split; auto.
  - cbn [ob on ol]. repeat split; auto.
Qed.

Lemma run_ops_mono ops o : bc_wf (ob o) -> OMono o (run_ops o ops).
Proof.
  revert o. induction ops as [|p ops IH]; intros o Hwf; cbn [run_ops fold_left].
  - unfold OMono. repeat split; auto.
  - destruct (do_op_mono o p Hwf) as (H1 & H2 & H3 & H4).
    destruct (IH (do_op o p) (H4 Hwf)) as (G1 & G2 & G3 & G4). unfold run_ops in *.
    unfold OMono. repeat split; [lia | auto | auto | auto].
Qed.

Lemma run_ops_dirty ops o : od (run_ops o ops) = ops_dirty (od o) ops.
Proof.
  revert o. induction ops as [|p ops IH]; intros o; [reflexivity|].
  cbn [run_ops ops_dirty fold_left]. unfold run_ops, ops_dirty in IH. rewrite IH. f_equal.
  destruct p; cbn [do_op op_dirty od]; try reflexivity. now destruct (getch (ob o)).
Qed.
