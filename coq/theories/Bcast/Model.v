(* broadcast.Broadcast at gate granularity (C03).

   State: the Broadcast itself (the [bc] component: lazily created wait channel, channels are
   generation numbers), a harness-owned guarded value [sg], whether some callback currently holds the
   mutex ([sheld]: a client section that stays inside its callback), and one record per call.
   Ghost fields (never observed): [sdirty] = the guarded value was written since the last broadcast,
   [snb] = number of broadcast() calls so far, [slog] = every channel handed out to a client
   callback, stamped with the broadcast count at that moment.

   Calls:
     client  HoldLock / TryHoldLock / HoldLockMaybeAsync with a callback that runs a small program
             of operations (broadcast, getWaitCh, g++, g := v), optionally stays inside the callback
             (holding the mutex) until [Resume], optionally blocks afterwards on the last channel it took;
             a program may contain [OPanic]: the callback performs the operations before it, (stays inside, if
             it does,) and then PANICS.  All three entry points release the mutex by [defer], so the section
             simply ends there: what was done is kept, the mutex is free again, the panic reaches the caller
             (who recovers it: PRet 13) - nothing after the OPanic is executed, the caller does not block;
     Wait    Broadcast.Wait(ctx, pred) with pred from a coded family [evalp]; [slow] = the actor also
             stops at the HoldLock exit gate (after the unlock, before the select).
   A critical section is one step ([Sect]); the wake-ups of the blocking receives are separate events
   ([Wake], [CancelWake]) so that theorems cover every placement of them.  No proofs here. *)
From Util Require Import Common.Base Common.ListLemmas.

Inductive op := OBcast | OGet | OInc | OSet (v : N) | OPanic.
Inductive pres := PTrue | PFalse | PErr (e : N).

(* predicate family of the Wait actors: what cb returns when the guarded value is g *)
Definition evalp (pk k g : N) : pres :=
  match pk with
  | 0 => if N.leb k g then PTrue else PFalse
  | 1 => if N.eqb g k then PTrue else PFalse
  | 2 => if N.eqb g k then PErr (N.modulo k 3) else if N.ltb k g then PTrue else PFalse
  | _ => if N.eqb g k then PErr (N.modulo k 3) else PFalse      (* 3: returns (true, err) *)
  end%N.

Inductive akind := KClient (ops : list op) (hold block : bool) | KWait (pk k : N) (slow : bool).
(* PRet r: returned; r = 3 nil / done, 4 context.Canceled, 5 TryHoldLock false, 8 argument error, 10+e predicate error e,
   13 the client's callback panicked (the caller recovered the panic) *)
Inductive pc := PGate | PHold | PExit | PBlocked | PRet (r : N).
Record actor := { ak : akind; apc : pc; acanc : bool; samp : option (nat * N) }.
Record st := { sb : bc; sg : N; sheld : bool; sdirty : bool; snb : nat; slog : list (nat * nat); acts : list actor }.

Definition init : st := {| sb := bc0; sg := 0%N; sheld := false; sdirty := false; snb := 0; slog := []; acts := [] |}.

(* the part of the state a callback program works on, plus the caller's own sample *)
Record ost := { ob : bc; og : N; od : bool; on : nat; ol : list (nat * nat); osamp : option (nat * N) }.

Definition do_op (o : ost) (p : op) : ost :=
  match p with
  | OBcast => {| ob := bcast (ob o); og := og o; od := false; on := S (on o); ol := ol o; osamp := osamp o |}
  | OGet => let '(b', c) := getch (ob o) in
            {| ob := b'; og := og o; od := od o; on := on o; ol := ol o ++ [(c, on o)]; osamp := Some (c, og o) |}
  | OInc => {| ob := ob o; og := (og o + 1)%N; od := true; on := on o; ol := ol o; osamp := osamp o |}
  | OSet v => {| ob := ob o; og := v; od := true; on := on o; ol := ol o; osamp := osamp o |}
  | OPanic => o        (* never executed: a program is cut at its first OPanic, see [upto_panic] *)
  end.
Definition run_ops (o : ost) (ops : list op) : ost := fold_left do_op ops o.

(* the operations a callback really performs: those before its first OPanic *)
Definition is_panic (p : op) : bool := match p with OPanic => true | _ => false end.
Fixpoint upto_panic (ops : list op) : list op :=
  match ops with
  | [] => []
  | p :: t => if is_panic p then [] else p :: upto_panic t
  end.
Definition panics (ops : list op) : bool := existsb is_panic ops.

(* syntactic client discipline: after the last write of a program there is a broadcast *)
Definition op_dirty (d : bool) (p : op) : bool := match p with OBcast => false | OGet | OPanic => d | _ => true end.
Definition ops_dirty (d : bool) (ops : list op) : bool := fold_left op_dirty ops d.

Inductive ev :=
| CallClient (mode : nat) (ops : list op) (hold block : bool)   (* mode 0 HoldLock, 1 TryHoldLock, >=2 HoldLockMaybeAsync *)
| CallWait (pk k : N) (pre slow : bool)                         (* pre: the context is already cancelled *)
| Sect (a : nat) | Resume (a : nat) | ExitGate (a : nat)
| Wake (a : nat) | CancelCtx (a : nat) | CancelWake (a : nat).

Definition after_client (block : bool) (sm : option (nat * N)) : pc :=
  if block then match sm with Some _ => PBlocked | None => PRet 3 end else PRet 3.
(* ... of a call whose callback program is ops: a panicking callback ends the call (the caller recovers: 13) *)
Definition after_section (ops : list op) (block : bool) (sm : option (nat * N)) : pc :=
  if panics ops then PRet 13 else after_client block sm.

(* replace the record of actor a; everything else but the "mutex held" flag is unchanged *)
Definition upd_actor (s : st) (a : nat) (x' : actor) (h : bool) : st :=
  {| sb := sb s; sg := sg s; sheld := h; sdirty := sdirty s; snb := snb s; slog := slog s; acts := set_nth (acts s) a x' |}.

Definition setpc (s : st) (a : nat) (x : actor) (p : pc) : st :=
  upd_actor s a {| ak := ak x; apc := p; acanc := acanc x; samp := samp x |} (sheld s).

(* actor a, parked at its HoldLock gate, takes the mutex and runs its critical section *)
Definition do_sect (s : st) (a : nat) : st :=
  match nth_error (acts s) a with
  | None => s
  | Some x =>
    match apc x with
    | PGate =>
      match ak x with
      | KClient ops hold block =>
        let o := run_ops {| ob := sb s; og := sg s; od := sdirty s; on := snb s; ol := slog s; osamp := samp x |} (upto_panic ops) in
        {| sb := ob o; sg := og o; sheld := hold; sdirty := od o; snb := on o; slog := ol o;
           acts := set_nth (acts s) a {| ak := ak x; apc := if hold then PHold else after_section ops block (osamp o);
                                         acanc := acanc x; samp := osamp o |} |}
      | KWait pk k slow =>
        match evalp pk k (sg s) with
        | PTrue => setpc s a x (PRet 3)
        | PErr e => setpc s a x (PRet (10 + e))
        | PFalse =>
          let '(b', c) := getch (sb s) in
          {| sb := b'; sg := sg s; sheld := sheld s; sdirty := sdirty s; snb := snb s; slog := slog s;
             acts := set_nth (acts s) a {| ak := ak x; apc := if slow then PExit else if acanc x then PRet 4 else PBlocked;
                                           acanc := acanc x; samp := Some (c, sg s) |} |}
        end
      end
    | _ => s
    end
  end.

Definition add_actor (s : st) (x : actor) : st :=
  {| sb := sb s; sg := sg s; sheld := sheld s; sdirty := sdirty s; snb := snb s; slog := slog s; acts := acts s ++ [x] |}.

Definition step (s : st) (e : ev) : st :=
  match e with
  | CallClient mode ops hold block =>
    let x := {| ak := KClient ops hold block; apc := PGate; acanc := false; samp := None |} in
    match mode with
    | 0 => add_actor s x
    | 1 => if sheld s then add_actor s {| ak := KClient ops hold block; apc := PRet 5; acanc := false; samp := None |}
           else do_sect (add_actor s x) (length (acts s))
    | _ => if sheld s then add_actor s x      (* the slow-path goroutine, at its gate *)
           else do_sect (add_actor s x) (length (acts s))
    end
  | CallWait pk k pre slow =>
    if N.leb 4 pk then add_actor s {| ak := KWait pk k slow; apc := PRet 8; acanc := false; samp := None |}
    else if pre then add_actor s {| ak := KWait pk k slow; apc := PRet 4; acanc := true; samp := None |}
    else add_actor s {| ak := KWait pk k slow; apc := PGate; acanc := false; samp := None |}
  | Sect a => if sheld s then s else do_sect s a
  | Resume a =>
    match nth_error (acts s) a with
    | Some x =>
      match apc x, ak x with
      | PHold, KClient ops _ block =>
        upd_actor s a {| ak := ak x; apc := after_section ops block (samp x); acanc := acanc x; samp := samp x |} false
      | _, _ => s
      end
    | None => s
    end
  | ExitGate a =>
    match nth_error (acts s) a with
    | Some x => match apc x with PExit => setpc s a x PBlocked | _ => s end
    | None => s
    end
  | Wake a =>
    match nth_error (acts s) a with
    | Some x =>
      match apc x, samp x with
      | PBlocked, Some (c, _) =>
        if closed (sb s) c
        then match ak x with
             | KClient _ _ _ => setpc s a x (PRet 3)
             | KWait _ _ _ => setpc s a x (if acanc x then PRet 4 else PGate)   (* loop top: ctx.Err() check *)
             end
        else s
      | _, _ => s
      end
    | None => s
    end
  | CancelCtx a =>
    match nth_error (acts s) a with
    | Some x =>
      match ak x with
      | KWait _ _ _ =>
        upd_actor s a {| ak := ak x; apc := apc x; acanc := true; samp := samp x |} (sheld s)
      | _ => s
      end
    | None => s
    end
  | CancelWake a =>
    match nth_error (acts s) a with
    | Some x =>
      match ak x, apc x with
      | KWait _ _ _, PBlocked => if acanc x then setpc s a x (PRet 4) else s
      | _, _ => s
      end
    | None => s
    end
  end.

Definition run (es : list ev) : st := fold_left step es init.

(* client discipline as a boolean on the event list: every callback program that writes g broadcasts afterwards *)
Definition ev_disc (e : ev) : bool := match e with CallClient _ ops _ _ => negb (ops_dirty false (upto_panic ops)) | _ => true end.
Definition all_disc (es : list ev) : bool := forallb ev_disc es.

Definition is_wait (x : actor) : bool := match ak x with KWait _ _ _ => true | _ => false end.
Definition at_gate (x : actor) : bool := match apc x with PGate | PExit | PHold => true | _ => false end.
Definition blocked (x : actor) : bool := match apc x with PBlocked => true | _ => false end.
(* no actor can move: nobody at a gate / inside a callback, no blocked actor whose channel is closed or whose context is cancelled *)
Definition quiescent (s : st) : bool :=
  forallb (fun x => negb (at_gate x) &&
                    match apc x, samp x with
                    | PBlocked, Some (c, _) => negb (closed (sb s) c) && negb (is_wait x && acanc x)
                    | _, _ => true
                    end) (acts s).
